import QProofs.KernelSigMode
import QProps.C03d
/-!
# Kernel signatures (C01b): every ORIGINAL operator of the output, mode by mode

For an operator `op` (position `k`) of the input whose signature is the float signature of the table
(`Ctx.fl`), and the operator `o'` tagged `k` of the output:
* `noquant_sig`: the recipe leaves `op` unquantized -- `o'` has the SIGNATURE OF `op` (also for operators
  that are not in the table);
* `wo_sig`, `f16_sig`: weight-only / float casting -- float signature (the weights are read through inserted
  DEQUANTIZE operators);
* `drq_sig`: dynamic range -- hybrid signature when the weight is a constant, float signature otherwise;
* `srq_sig`: static range -- the int8 / int16 signature.
Hypotheses beyond C03d's (`DataRuntime`, `WeightConst16`) are documented at `QProps/C01b.lean`.
-/
open Graph Mat Cfg Pipeline GraphStep Skeleton SkeletonProof

set_option autoImplicit false

namespace KernelSig

/-! ## `dtypeAt` -/

theorem dtypeAt_some (sg : Subgraph) (t : Int) (h0 : 0 ≤ t) (tn : Tensor) (htn : sg.tensors[t.toNat]? = some tn) :
    dtypeAt sg t = some tn.dtype := by
  unfold dtypeAt
  rw [if_neg (by omega), htn]
  rfl

theorem dtypeAt_neg (sg : Subgraph) (t : Int) (h : t < 0) : dtypeAt sg t = none := by
  unfold dtypeAt
  rw [if_pos h]

theorem dtypeAt_eq_some (sg : Subgraph) (t : Int) (d : Nat) (h : dtypeAt sg t = some d) :
    0 ≤ t ∧ ∃ tn, sg.tensors[t.toNat]? = some tn ∧ tn.dtype = d := by
  unfold dtypeAt at h
  split at h
  · cases h
  · rename_i hn
    cases htn : sg.tensors[t.toNat]? with
    | none => rw [htn] at h; cases h
    | some tn =>
      rw [htn] at h
      exact ⟨by omega, tn, rfl, Option.some.inj h⟩

theorem untouched_dtype {env : Env} {m' : Model} {sg sg' : Subgraph} {o' : Op} {j : Nat} {t : Int}
    (h : TypingE2E.UntouchedOperand env m' sg sg' o' j t) :
    ∃ z, o'.inputs[j]? = some z ∧ dtypeAt sg' z = dtypeAt sg t := by
  rcases h with ⟨rfl, hz⟩ | ⟨tn, h0, htn, hcase⟩
  · exact ⟨-1, hz, by rw [dtypeAt_neg _ _ (by omega), dtypeAt_neg _ _ (by omega)]⟩
  · rcases hcase with ⟨hz, htn', -⟩ | ⟨-, hf, x, tx, ci, hx, hxl, htx, hdx, -⟩
    · exact ⟨t, hz, by rw [dtypeAt_some _ _ h0 _ htn', dtypeAt_some _ _ h0 _ htn]⟩
    · exact ⟨x, hx, by rw [dtypeAt_some sg' x (by omega) _ htx, dtypeAt_some _ _ h0 _ htn, hdx, hf]⟩

/-! ## the common part of the conclusions of C03d -/

/-- the operator `o'` of the output that stands for operator `op` (position `k`) of the input -/
structure Same (sg' : Subgraph) (k : Nat) (op o' : Op) : Prop where
  mem : o' ∈ sg'.ops
  orig : o'.orig = some k
  uniq : ∀ o'' ∈ sg'.ops, o''.orig = some k → o'' = o'
  code : o'.code = op.code
  outs : o'.outputs = op.outputs
  len : o'.inputs.length = op.inputs.length
  root : o'.inputs.map (Skeleton.root sg') = op.inputs

/-- an operator of the input, located -/
structure Loc (env : Env) (m' : Model) (s : Nat) (sg sg' : Subgraph) (k : Nat) (op : Op) (code : Nat) : Prop where
  run : Run env m'
  hsg : env.model.subgraphs[s]? = some sg
  hsg' : m'.subgraphs[s]? = some sg'
  hop : sg.ops[k]? = some op
  hcode : env.model.opcodes[op.code]? = some code
  wfop : OpOK env.model sg k op

theorem Same.slot {sg' : Subgraph} {k : Nat} {op o' : Op} (S : Same sg' k op o') (j : Nat) (z : Int)
    (hz : o'.inputs[j]? = some z) : op.inputs[j]? = some (Skeleton.root sg' z) := by
  rw [← S.root, List.getElem?_map, hz]
  rfl

theorem Same.slot' {sg' : Subgraph} {k : Nat} {op o' : Op} (S : Same sg' k op o') (j : Nat) (t : Int)
    (ht : op.inputs[j]? = some t) : ∃ z, o'.inputs[j]? = some z ∧ Skeleton.root sg' z = t := by
  have hj : j < o'.inputs.length := by rw [S.len]; exact (List.getElem?_eq_some_iff.1 ht).1
  refine ⟨o'.inputs[j], List.getElem?_eq_getElem hj, ?_⟩
  have := S.slot j _ (List.getElem?_eq_getElem hj)
  rw [ht] at this
  exact (Option.some.inj this).symm

/-- an absent operand stays absent -/
theorem Loc.absent {env : Env} {m' : Model} {s : Nat} {sg sg' : Subgraph} {k : Nat} {op : Op} {code : Nat}
    (L : Loc env m' s sg sg' k op code) {o' : Op} (S : Same sg' k op o') (j : Nat)
    (ht : op.inputs[j]? = some (-1)) : o'.inputs[j]? = some (-1) := by
  obtain ⟨z, hz, hr⟩ := S.slot' j _ ht
  have := root_neg (L.run.sk s sg sg' L.hsg L.hsg') (L.run.insNonneg s sg' L.hsg') z (by rw [hr]; omega)
  rw [hr] at this
  rw [hz, ← this]

theorem Loc.code' {env : Env} {m' : Model} {s : Nat} {sg sg' : Subgraph} {k : Nat} {op : Op} {code : Nat}
    (L : Loc env m' s sg sg' k op code) {o' : Op} (S : Same sg' k op o') : m'.opcodes[o'.code]? = some code := by
  rw [S.code]
  exact L.run.codes _ _ L.hcode

/-- a row of the table, from facts about every operand slot and every result -/
theorem sig_of_slots (row : Kind → DT → Bool) (res : Nat) (nm : String) (sg' : Subgraph) (ins outs : List Int)
    (har : arityOK nm ins.length outs.length = true)
    (hin : ∀ j z, ins[j]? = some z → row (kind nm j) (dtypeAt sg' z) = true)
    (hout : ∀ t ∈ outs, dtypeAt sg' t = some res) :
    sig row res nm (ins.map (dtypeAt sg')) (outs.map (dtypeAt sg')) = true := by
  rw [sig_iff]
  refine ⟨by rw [List.length_map, List.length_map]; exact har, ?_, ?_⟩
  · intro j d hj
    obtain ⟨z, hz, rfl⟩ := map_get _ _ _ _ hj
    exact hin j z hz
  · intro d hd
    obtain ⟨t, ht, rfl⟩ := List.mem_map.1 hd
    exact hout t ht

theorem opOK_of (m' : Model) (sg' : Subgraph) (o' : Op) (code : Nat) (nm : String)
    (hc : m'.opcodes[o'.code]? = some code) (hn : nameOfCode code = some nm)
    (h : accepts nm (o'.inputs.map (dtypeAt sg')) (o'.outputs.map (dtypeAt sg')) = true) :
    opOK m' sg' o' = true := by
  unfold opOK opSig
  rw [hc]
  simp only [Option.map_some, sigOK, hn]
  exact h

/-! ## an operator the recipe leaves unquantized: same signature -/

theorem noquant_sig (rx : String → String → Bool) (env : Env) (st : Recipe.State)
    (qsvs : Option Qsvs) (m' : Model) (tbl : List Param) (hnf : PipelineWF.NF env st)
    (h : quantizePure rx env st qsvs = .ok (m', tbl))
    (s : Nat) (sg sg' : Subgraph) (k : Nat) (op : Op) (code : Nat) (L : Loc env m' s sg sg' k op code)
    (hnq : TypingE2E.ResolvesNoQuant rx env st sg op) :
    ∃ o', Same sg' k op o' ∧ opSig m' sg' o' = opSig env.model sg op := by
  obtain ⟨o', m1, m2, m3, m4, m5, m6, m7, hres, hopd⟩ :=
    TypingE2E.noquant_op_untouched rx env st qsvs m' tbl hnf h s sg sg' L.hsg L.hsg' k op L.hop hnq
  have S : Same sg' k op o' := ⟨m1, m2, m3, m4, m5, m6, m7⟩
  refine ⟨o', S, ?_⟩
  unfold opSig
  rw [L.code' S, L.hcode]
  simp only [Option.map_some, Option.some.injEq, Prod.mk.injEq, true_and]
  constructor
  · apply List.ext_getElem?
    intro j
    rw [List.getElem?_map, List.getElem?_map]
    cases hj : op.inputs[j]? with
    | none =>
      have : o'.inputs[j]? = none := by
        rw [List.getElem?_eq_none_iff, m6, ← List.getElem?_eq_none_iff]; exact hj
      rw [this]
      rfl
    | some t =>
      obtain ⟨z, hz, hd⟩ := untouched_dtype (hopd j t hj)
      rw [hz]
      simp only [Option.map_some, hd]
  · rw [m5]
    apply List.map_congr_left
    intro t ht
    by_cases h0 : t < 0
    · rw [dtypeAt_neg _ _ h0, dtypeAt_neg _ _ h0]
    · obtain ⟨tn, h1, h2⟩ := hres t ht (by omega)
      rw [dtypeAt_some _ _ (by omega) _ h1, dtypeAt_some _ _ (by omega) _ h2]

/-! ## the modes of `sigMode` -/

theorem sigMode_cases (nm : String) (c : OpCfg) (h : sigMode nm c = true) :
    ∃ w, c.weight = some w ∧ (w.bits = 4 ∨ w.bits = 8) ∧
      ((c.cp = .integer ∧ ∃ a, c.act = some a ∧ (a.bits = 8 ∨ a.bits = 16) ∧
          (nm = "INPUT" ∨ nm = "OUTPUT" ∨
            (intOps.contains nm = true ∧ (w.bits = 4 → staticInt4Ops.contains nm = true)))) ∨
       (c.cp = .integer ∧ c.act = none ∧ Tables.drqOps.contains nm = true ∧ hybridOps.contains nm = true ∧
          (w.bits = 4 → hybridInt4Ops.contains nm = true)) ∨
       (c.cp = .float ∧ c.act = none ∧ c.explicitDeq = true ∧ Tables.woOps.contains nm = true)) := by
  unfold sigMode C13.modeOK at h
  cases hw : c.weight with
  | none => rw [hw] at h; simp at h
  | some w =>
    refine ⟨w, rfl, ?_⟩
    rw [hw] at h
    cases hcp : c.cp <;> cases ha : c.act <;> simp only [hcp, ha, Bool.and_eq_true, Bool.or_eq_true, beq_iff_eq,
      bne_iff_ne, ne_eq, Bool.not_eq_true', Bool.and_false, Bool.false_eq_true, Bool.and_true] at h
    · -- integer, none
      obtain ⟨⟨⟨⟨⟨⟨-, hb⟩, -⟩, -⟩, -⟩, ⟨h1, -⟩, -⟩, h2, h3⟩ := h
      refine ⟨hb, .inr (.inl ⟨rfl, rfl, h1, h2, ?_⟩)⟩
      intro h4
      rcases h3 with h3 | h3
      · exact absurd h4 h3
      · exact h3
    · -- integer, some a
      rename_i a
      obtain ⟨⟨⟨⟨⟨⟨-, hb⟩, -⟩, -⟩, -⟩, ⟨⟨⟨⟨-, hab⟩, -⟩, -⟩, -⟩, -⟩, h2⟩ := h
      refine ⟨hb, .inl ⟨rfl, a, rfl, hab, ?_⟩⟩
      rcases h2 with (h2 | h2) | ⟨h2, h3⟩
      · exact .inl h2
      · exact .inr (.inl h2)
      · refine .inr (.inr ⟨h2, fun h4 => ?_⟩)
        rcases h3 with h3 | h3
        · exact absurd h4 h3
        · exact h3
    · -- float, none
      obtain ⟨⟨⟨⟨⟨-, hb⟩, -⟩, -⟩, -⟩, h1, h2⟩ := h
      exact ⟨hb, .inr (.inr ⟨rfl, rfl, h2, h1⟩)⟩

/-! ## the float signature of an operator of the input, slot by slot -/

theorem fl_arity {nm : String} {sg : Subgraph} {op : Op}
    (fl : floatSig nm (op.inputs.map (dtypeAt sg)) (op.outputs.map (dtypeAt sg)) = true) :
    arityOK nm op.inputs.length op.outputs.length = true := by
  have := ((sig_iff _ _ _ _ _).1 fl).1
  rwa [List.length_map, List.length_map] at this

theorem fl_out {nm : String} {sg : Subgraph} {op : Op}
    (fl : floatSig nm (op.inputs.map (dtypeAt sg)) (op.outputs.map (dtypeAt sg)) = true) (t : Int)
    (ht : t ∈ op.outputs) : 0 ≤ t ∧ ∃ tn, sg.tensors[t.toNat]? = some tn ∧ tn.dtype = Tables.ttFloat32 :=
  dtypeAt_eq_some sg t _ (((sig_iff _ _ _ _ _).1 fl).2.2 _ (List.mem_map.2 ⟨t, ht, rfl⟩))

/-- an operand slot of a float operator: the absent bias, an int32 tensor in an index slot, or a float32
    tensor in any other slot -/
theorem fl_slot {env : Env} {m' : Model} {s : Nat} {sg sg' : Subgraph} {k : Nat} {op : Op} {code : Nat}
    (L : Loc env m' s sg sg' k op code) {nm : String}
    (fl : floatSig nm (op.inputs.map (dtypeAt sg)) (op.outputs.map (dtypeAt sg)) = true)
    (j : Nat) (t : Int) (hj : op.inputs[j]? = some t) :
    (kind nm j = .bias ∧ t = -1 ∧ biasOptional nm = true) ∨
    (0 ≤ t ∧ ∃ tn, sg.tensors[t.toNat]? = some tn ∧
      ((kind nm j = .index ∧ tn.dtype = Tables.ttInt32) ∨ (kind nm j ≠ .index ∧ tn.dtype = Tables.ttFloat32))) := by
  have hrow := ((sig_iff _ _ _ _ _).1 fl).2.1 j (dtypeAt sg t) (by rw [List.getElem?_map, hj]; rfl)
  have hwf := L.wfop.ins t (List.mem_of_getElem? hj)
  cases hk : kind nm j <;> rw [hk] at hrow <;>
    simp only [floatRow, beq_iff_eq, Bool.or_eq_true, Bool.and_eq_true] at hrow
  · obtain ⟨h0, tn, h1, h2⟩ := dtypeAt_eq_some _ _ _ hrow
    exact .inr ⟨h0, tn, h1, .inr ⟨by simp, h2⟩⟩
  · obtain ⟨h0, tn, h1, h2⟩ := dtypeAt_eq_some _ _ _ hrow
    exact .inr ⟨h0, tn, h1, .inr ⟨by simp, h2⟩⟩
  · rcases hrow with ⟨hrow, hopt⟩ | hrow
    · rcases hwf with hwf | ⟨⟨h0, hlt⟩, -⟩
      · exact .inl ⟨rfl, hwf, hopt⟩
      · exfalso
        have hget : sg.tensors[t.toNat]? = some sg.tensors[t.toNat] := List.getElem?_eq_getElem (by omega)
        rw [dtypeAt_some _ _ h0 _ hget] at hrow
        cases hrow
    · obtain ⟨h0, tn, h1, h2⟩ := dtypeAt_eq_some _ _ _ hrow
      exact .inr ⟨h0, tn, h1, .inr ⟨by simp, h2⟩⟩
  · obtain ⟨h0, tn, h1, h2⟩ := dtypeAt_eq_some _ _ _ hrow
    exact .inr ⟨h0, tn, h1, .inl ⟨rfl, h2⟩⟩

theorem f32_ne_i32 : Tables.ttInt32 ≠ Tables.ttFloat32 := by decide

theorem floatRow_f32 (nm : String) (k : Kind) (hk : k ≠ .index) : floatRow nm k (some Tables.ttFloat32) = true := by
  cases k
  · rfl
  · rfl
  · simp [floatRow]
  · exact absurd rfl hk

theorem floatRow_none (nm : String) (h : biasOptional nm = true) : floatRow nm .bias none = true := by
  simp [floatRow, h]

theorem isConst_cast (env : Env) (sg : Subgraph) (t : Int) (h0 : 0 ≤ t) (tn : Tensor)
    (htn : sg.tensors[t.toNat]? = some tn) : (constData env tn).isSome = isConst env.model sg t := by
  have := Pipe.constData_isSome env sg t.toNat tn htn
  rwa [show ((t.toNat : Nat) : Int) = t by omega] at this

theorem tcfgOf_weight (env : Env) (oi : OpInfo) (sg : Subgraph) (t : Int) (h0 : 0 ≤ t) (tn : Tensor)
    (htn : sg.tensors[t.toNat]? = some tn) (hc : isConst env.model sg t = true)
    (hw : Tables.woOps.contains oi.opName = true) : MatParams.tcfgOf env oi tn = oi.cfg.weight := by
  unfold MatParams.tcfgOf
  rw [isConst_cast env sg t h0 tn htn, hc, hw]
  rfl

theorem tcfgOf_act (env : Env) (oi : OpInfo) (tn : Tensor)
    (hw : Tables.woOps.contains oi.opName = false) (hd : Tables.drqOps.contains oi.opName = false) :
    MatParams.tcfgOf env oi tn = oi.cfg.act := by
  unfold MatParams.tcfgOf
  rw [hw, hd]
  simp

/-- the role of a slot that is neither an index nor a bias slot is 0 -/
theorem role_regular {nm : String} (hnm : nm ∈ names) {nIn nOut : Nat} (har : arityOK nm nIn nOut = true)
    {j : Nat} (hj : j < nIn) (h1 : kind nm j ≠ .index) (h2 : kind nm j ≠ .bias) : PipeNF.slotRole nm j = 0 := by
  rw [← (slot_table nm hnm nIn nOut har j hj).1]
  cases hk : kind nm j
  · rfl
  · rfl
  · exact absurd hk h2
  · exact absurd hk h1

/-! ## weight-only: float signature -/

theorem wo_sig (rx : String → String → Bool) (env : Env) (st : Recipe.State)
    (qsvs : Option Qsvs) (m' : Model) (tbl : List Param) (hnf : PipelineWF.NF env st)
    (h : quantizePure rx env st qsvs = .ok (m', tbl))
    (s : Nat) (sg sg' : Subgraph) (k : Nat) (op : Op) (code : Nat) (L : Loc env m' s sg sg' k op code)
    (nm : String) (hnm : opNameOfCode code = some nm)
    (fl : floatSig nm (op.inputs.map (dtypeAt sg)) (op.outputs.map (dtypeAt sg)) = true)
    (cfg : OpCfg) (hres : TypingE2E.ResolvesMinMax rx env st sg op nm cfg)
    (hcp : cfg.cp = .float) (hed : cfg.explicitDeq = true) (hact : cfg.act = none)
    (hwo : Tables.woOps.contains nm = true) (w : TCfg) (hw : cfg.weight = some w) :
    ∃ o', Same sg' k op o' ∧
      floatSig nm (o'.inputs.map (dtypeAt sg')) (o'.outputs.map (dtypeAt sg')) = true := by
  obtain ⟨o', m1, m2, m3, m4, m5, m6, m7, h8, h9, h10⟩ :=
    C03.wo_op_typed rx env st qsvs m' tbl hnf h s sg sg' L.hsg L.hsg' k op L.hop nm cfg hres hcp hed hact
  have S : Same sg' k op o' := ⟨m1, m2, m3, m4, m5, m6, m7⟩
  refine ⟨o', S, ?_⟩
  have har := fl_arity fl
  have hmem := name_mem code nm hnm
  apply sig_of_slots
  · rw [m5, m6]; exact har
  · intro j z hz
    have hj := S.slot j z hz
    have hjlt : j < op.inputs.length := (List.getElem?_eq_some_iff.1 hj).1
    obtain ⟨hb, -, -, -, -⟩ := slot_table nm hmem _ _ har j hjlt
    have hst := slot_table nm hmem _ _ har j hjlt
    -- every case ends with: the slot holds `z'` whose type is known
    have fin : ∀ z' d, o'.inputs[j]? = some z' → dtypeAt sg' z' = d → floatRow nm (kind nm j) d = true →
        floatRow nm (kind nm j) (dtypeAt sg' z) = true := by
      intro z' d hz' hd hr
      rw [hz] at hz'
      cases hz'
      rw [hd]; exact hr
    rcases fl_slot L fl j _ hj with ⟨hk, ht, hopt⟩ | ⟨h0, tn, htn, hcase⟩
    · rw [ht] at hj
      exact fin (-1) none (L.absent S j hj) (dtypeAt_neg _ _ (by omega)) (by rw [hk]; exact floatRow_none nm hopt)
    · have hne : Skeleton.root sg' z ≠ -1 := by omega
      have hdt := dtypeAt_some sg _ h0 tn htn
      rcases hcase with ⟨hk, hd⟩ | ⟨hk, hd⟩
      · obtain ⟨z', hz', hdz⟩ := untouched_dtype (h9 j _ tn hj hne htn (.inr (.inl (by rw [hd]; exact f32_ne_i32))))
        exact fin z' _ hz' hdz (by rw [hdt, hd, hk]; rfl)
      · by_cases hkb : kind nm j = .bias
        · obtain ⟨z', hz', hdz⟩ := untouched_dtype (h9 j _ tn hj hne htn (.inr (.inr (hst.2.1 hkb))))
          exact fin z' _ hz' hdz (by rw [hdt, hd]; exact floatRow_f32 nm _ hk)
        · have hrole := role_regular hmem har hjlt hk hkb
          cases hc : isConst env.model sg (Skeleton.root sg' z) with
          | false =>
            obtain ⟨z', hz', hdz⟩ := untouched_dtype (h9 j _ tn hj hne htn (.inl hc))
            exact fin z' _ hz' hdz (by rw [hdt, hd]; exact floatRow_f32 nm _ hk)
          | true =>
            have htc := tcfgOf_weight env { sgIdx := s, op := op, opName := nm, opId := (k : Int), cfg := cfg } sg _ h0 tn
              htn hc hwo
            obtain ⟨tz, pid, z', tzz, ci, -, -, -, -, hz', hzl, htzz, hdz, -⟩ :=
              h10 j _ tn hj hne htn hrole hd hc w (by rw [htc]; exact hw)
            exact fin z' _ hz' (by rw [dtypeAt_some sg' z' (by omega) _ htzz, hdz]) (floatRow_f32 nm _ hk)
  · intro t ht
    rw [m5] at ht
    obtain ⟨h0, tn, htn, hd⟩ := fl_out fl t ht
    obtain ⟨j, hj⟩ := List.mem_iff_getElem?.1 ht
    obtain ⟨tn', h1, h2⟩ := h8 j t hj (by omega)
    rw [htn] at h1
    cases h1
    rw [dtypeAt_some _ _ h0 _ h2, hd]

/-! ## dynamic range: hybrid signature (constant weight) or float signature (runtime weight) -/

theorem wo_eq_drq : Tables.woOps = Tables.drqOps := by decide

/-- the clause of `drq_op_typed` / `wo_op_typed` about the operands that are left alone, read on one slot:
    the absent bias, an index operand, a present bias, a runtime tensor in a regular slot keep their type -/
theorem keep_slot {env : Env} {m' : Model} {s : Nat} {sg sg' : Subgraph} {k : Nat} {op : Op} {code : Nat}
    (L : Loc env m' s sg sg' k op code) {o' : Op} (S : Same sg' k op o') {nm : String} (hmem : nm ∈ names)
    (fl : floatSig nm (op.inputs.map (dtypeAt sg)) (op.outputs.map (dtypeAt sg)) = true)
    (H9 : ∀ (j : Nat) (t : Int) (tn : Tensor), op.inputs[j]? = some t → t ≠ -1 → sg.tensors[t.toNat]? = some tn →
      (isConst env.model sg t = false ∨ tn.dtype ≠ Tables.ttFloat32 ∨
        (PipeNF.biasSlot nm = some j ∧ nm ≠ "EMBEDDING_LOOKUP")) → TypingE2E.UntouchedOperand env m' sg sg' o' j t)
    (j : Nat) (t : Int) (hj : op.inputs[j]? = some t)
    (hreg : kind nm j = .data ∨ kind nm j = .weight → isConst env.model sg t = false) :
    ∃ z', o'.inputs[j]? = some z' ∧ dtypeAt sg' z' = dtypeAt sg t := by
  have har := fl_arity fl
  have hjlt : j < op.inputs.length := (List.getElem?_eq_some_iff.1 hj).1
  have hst := slot_table nm hmem _ _ har j hjlt
  rcases fl_slot L fl j _ hj with ⟨hk, ht, -⟩ | ⟨h0, tn, htn, hcase⟩
  · subst ht
    exact ⟨-1, L.absent S j hj, by rw [dtypeAt_neg _ _ (by omega), dtypeAt_neg _ _ (by omega)]⟩
  · have hne : t ≠ -1 := by omega
    rcases hcase with ⟨hk, hd⟩ | ⟨hk, hd⟩
    · exact untouched_dtype (H9 j _ tn hj hne htn (.inr (.inl (by rw [hd]; exact f32_ne_i32))))
    · by_cases hkb : kind nm j = .bias
      · exact untouched_dtype (H9 j _ tn hj hne htn (.inr (.inr (hst.2.1 hkb))))
      · refine untouched_dtype (H9 j _ tn hj hne htn (.inl (hreg ?_)))
        cases hkk : kind nm j
        · exact .inl rfl
        · exact .inr rfl
        · exact absurd hkk hkb
        · exact absurd hkk hk

theorem hybridRow_of_float (nm : String) (k : Kind) (d : DT) (hk : k ≠ .weight) (h : floatRow nm k d = true) :
    hybridRow nm k d = true := by
  cases k
  · exact h
  · exact absurd rfl hk
  · exact h
  · exact h

theorem drq_sig (rx : String → String → Bool) (env : Env) (st : Recipe.State)
    (qsvs : Option Qsvs) (m' : Model) (tbl : List Param) (hnf : PipelineWF.NF env st)
    (h : quantizePure rx env st qsvs = .ok (m', tbl))
    (s : Nat) (sg sg' : Subgraph) (k : Nat) (op : Op) (code : Nat) (L : Loc env m' s sg sg' k op code)
    (nm : String) (hnm : opNameOfCode code = some nm)
    (fl : floatSig nm (op.inputs.map (dtypeAt sg)) (op.outputs.map (dtypeAt sg)) = true)
    (cfg : OpCfg) (hres : TypingE2E.ResolvesMinMax rx env st sg op nm cfg)
    (hcp : cfg.cp = .integer) (hact : cfg.act = none)
    (hdrq : Tables.drqOps.contains nm = true) (w : TCfg) (hw : cfg.weight = some w)
    (hwb : w.bits = 4 ∨ w.bits = 8) (h4 : w.bits = 4 → hybridInt4Ops.contains nm = true)
    (hdata : nm ≠ "EMBEDDING_LOOKUP" → ∀ t, op.inputs[PipeNF.dataSlot nm]? = some t → isConst env.model sg t = false) :
    ∃ o', Same sg' k op o' ∧
      (floatSig nm (o'.inputs.map (dtypeAt sg')) (o'.outputs.map (dtypeAt sg')) = true ∨
       sig (hybridRow nm) Tables.ttFloat32 nm (o'.inputs.map (dtypeAt sg')) (o'.outputs.map (dtypeAt sg')) = true) := by
  obtain ⟨o', m1, m2, m3, m4, m5, m6, m7, h8, h9, h10⟩ :=
    C03.drq_op_typed rx env st qsvs m' tbl hnf h s sg sg' L.hsg L.hsg' k op L.hop nm cfg hres hcp hact
  have S : Same sg' k op o' := ⟨m1, m2, m3, m4, m5, m6, m7⟩
  refine ⟨o', S, ?_⟩
  have har := fl_arity fl
  have hmem := name_mem code nm hnm
  have hwo : Tables.woOps.contains nm = true := by rw [wo_eq_drq]; exact hdrq
  have hwop : weightOp nm = true := hwo
  have hflrow := ((sig_iff _ _ _ _ _).1 fl).2.1
  -- results keep their records
  have hout : ∀ t ∈ o'.outputs, dtypeAt sg' t = some Tables.ttFloat32 := by
    intro t ht
    rw [m5] at ht
    obtain ⟨h0, tn, htn, hd⟩ := fl_out fl t ht
    obtain ⟨j, hj⟩ := List.mem_iff_getElem?.1 ht
    obtain ⟨tn', h1, h2⟩ := h8 j t hj (by omega)
    rw [htn] at h1
    cases h1
    rw [dtypeAt_some _ _ h0 _ h2, hd]
  -- the data operand is a runtime tensor
  have hdat : ∀ j t, op.inputs[j]? = some t → kind nm j = .data → isConst env.model sg t = false := by
    intro j t hj hk
    have hjlt : j < op.inputs.length := (List.getElem?_eq_some_iff.1 hj).1
    obtain ⟨e1, e2⟩ := (slot_table nm hmem _ _ har j hjlt).2.2.2.1 hk hwop
    rw [e1] at hj
    exact hdata e2 t hj
  by_cases hwc : ∃ t, op.inputs[1]? = some t ∧ isConst env.model sg t = true
  · -- constant weight: the hybrid kernel
    right
    obtain ⟨tw, htw, hcw⟩ := hwc
    apply sig_of_slots
    · rw [m5, m6]; exact har
    · intro j z hz
      have hj := S.slot j z hz
      have hjlt : j < op.inputs.length := (List.getElem?_eq_some_iff.1 hj).1
      have hst := slot_table nm hmem _ _ har j hjlt
      by_cases hkw : kind nm j = .weight
      · obtain ⟨-, hj1⟩ := hst.2.2.1 hkw
        subst hj1
        rw [htw] at hj
        cases hj
        rcases fl_slot L fl 1 _ htw with ⟨hk, -, -⟩ | ⟨h0, tn, htn, hcase⟩
        · rw [hkw] at hk; cases hk
        · have hd : tn.dtype = Tables.ttFloat32 := by
            rcases hcase with ⟨hk, -⟩ | ⟨-, hd⟩
            · rw [hkw] at hk; cases hk
            · exact hd
          have hrole := role_regular hmem har hjlt (by rw [hkw]; simp) (by rw [hkw]; simp)
          have htc := tcfgOf_weight env { sgIdx := s, op := op, opName := nm, opId := (k : Int), cfg := cfg } sg _ h0 tn
            htn hcw hwo
          obtain ⟨tz, pid, hz', htz, hdz, -⟩ :=
            h10 1 _ tn htw (by omega) htn hrole hd hcw w (by rw [htc]; exact hw)
          have hzz : z = Skeleton.root sg' z := Option.some.inj (hz.symm.trans hz')
          rw [show dtypeAt sg' z = dtypeAt sg' (Skeleton.root sg' z) from congrArg _ hzz,
            dtypeAt_some sg' _ h0 _ htz, hdz, hkw]
          rcases hwb with hb | hb
          · have : C03.intOfBits w.bits.toNat = Tables.ttInt4 := by rw [hb]; rfl
            rw [this]
            simp only [hybridRow, h4 hb, Bool.and_true, Bool.or_eq_true, beq_iff_eq]
            exact .inr trivial
          · have : C03.intOfBits w.bits.toNat = Tables.ttInt8 := by rw [hb]; rfl
            rw [this]
            simp only [hybridRow, Bool.or_eq_true, beq_iff_eq]
            exact .inl trivial
      · obtain ⟨z', hz', hdz⟩ := keep_slot L S hmem fl h9 j _ hj (fun hk => by
          rcases hk with hk | hk
          · exact hdat j _ hj hk
          · exact absurd hk hkw)
        rw [hz] at hz'
        cases hz'
        rw [hdz]
        exact hybridRow_of_float nm _ _ hkw (hflrow j _ (by rw [List.getElem?_map, hj]; rfl))
    · exact hout
  · -- runtime weight: nothing is quantized
    left
    apply sig_of_slots
    · rw [m5, m6]; exact har
    · intro j z hz
      have hj := S.slot j z hz
      have hjlt : j < op.inputs.length := (List.getElem?_eq_some_iff.1 hj).1
      have hst := slot_table nm hmem _ _ har j hjlt
      obtain ⟨z', hz', hdz⟩ := keep_slot L S hmem fl h9 j _ hj (fun hk => by
        rcases hk with hk | hk
        · exact hdat j _ hj hk
        · obtain ⟨-, hj1⟩ := hst.2.2.1 hk
          subst hj1
          cases hc : isConst env.model sg (Skeleton.root sg' z) with
          | false => rfl
          | true => exact absurd ⟨_, hj, hc⟩ hwc)
      rw [hz] at hz'
      cases hz'
      rw [hdz]
      exact hflrow j _ (by rw [List.getElem?_map, hj]; rfl)
    · exact hout

/-! ## static range: the int8 / int16 signature -/

/-- the activation type and the bias type of a static-range config of activation width `b` -/
def actType (b : Int) : Nat := TypingE2E.intOfBits b.toNat
def biasType (b : Int) : Nat := TypingE2E.intOfBits (if b.toNat = 16 then 64 else 32)

theorem srq_sig (rx : String → String → Bool) (env : Env) (st : Recipe.State)
    (qsvs : Option Qsvs) (m' : Model) (tbl : List Param) (hnf : PipelineWF.NF env st)
    (h : quantizePure rx env st qsvs = .ok (m', tbl))
    (s : Nat) (sg sg' : Subgraph) (k : Nat) (op : Op) (code : Nat) (L : Loc env m' s sg sg' k op code)
    (nm : String) (hnm : opNameOfCode code = some nm)
    (fl : floatSig nm (op.inputs.map (dtypeAt sg)) (op.outputs.map (dtypeAt sg)) = true)
    (cfg : OpCfg) (hres : TypingE2E.ResolvesMinMax rx env st sg op nm cfg)
    (hcp : cfg.cp = .integer) (a : TCfg) (ha : cfg.act = some a) (hab : a.bits = 8 ∨ a.bits = 16)
    (w : TCfg) (hw : cfg.weight = some w)
    (hwb : w.bits = 4 ∨ w.bits = 8) (h4 : w.bits = 4 → staticInt4Ops.contains nm = true)
    (hdata : weightOp nm = true → nm ≠ "EMBEDDING_LOOKUP" →
      ∀ t, op.inputs[PipeNF.dataSlot nm]? = some t → isConst env.model sg t = false)
    (hwc : a.bits = 16 → weightOp nm = true → weightActOps.contains nm = false →
      ∀ t, op.inputs[1]? = some t → isConst env.model sg t = true) :
    ∃ o', Same sg' k op o' ∧
      sig (intRow (actType a.bits) (biasType a.bits) nm) (actType a.bits) nm
        (o'.inputs.map (dtypeAt sg')) (o'.outputs.map (dtypeAt sg')) = true := by
  have hsrq : isSRQ cfg = true := by unfold isSRQ; rw [hcp, ha]; rfl
  obtain ⟨o', m1, m2, m3, m4, m5, m6, m7, h8, h10, h11⟩ :=
    TypingE2E.srq_op_typed rx env st qsvs m' tbl hnf h s sg sg' L.hsg L.hsg' k op L.hop nm cfg hres hsrq a ha
  have S : Same sg' k op o' := ⟨m1, m2, m3, m4, m5, m6, m7⟩
  refine ⟨o', S, ?_⟩
  have har := fl_arity fl
  have hmem := name_mem code nm hnm
  apply sig_of_slots
  · rw [m5, m6]; exact har
  · intro j z hz
    have hj := S.slot j z hz
    have hjlt : j < op.inputs.length := (List.getElem?_eq_some_iff.1 hj).1
    have hst := slot_table nm hmem _ _ har j hjlt
    have fin : ∀ z' d, o'.inputs[j]? = some z' → dtypeAt sg' z' = d →
        intRow (actType a.bits) (biasType a.bits) nm (kind nm j) d = true →
        intRow (actType a.bits) (biasType a.bits) nm (kind nm j) (dtypeAt sg' z) = true := by
      intro z' d hz' hd hr
      rw [hz] at hz'
      have : z = z' := Option.some.inj hz'
      rw [this, hd]; exact hr
    rcases fl_slot L fl j _ hj with ⟨hk, ht, hopt⟩ | ⟨h0, tn, htn, hcase⟩
    · rw [ht] at hj
      exact fin (-1) none (L.absent S j hj) (dtypeAt_neg _ _ (by omega)) (by rw [hk]; simp [intRow, hopt])
    · have hne : Skeleton.root sg' z ≠ -1 := by omega
      have hdt := dtypeAt_some sg _ h0 tn htn
      rcases hcase with ⟨hk, hd⟩ | ⟨hk, hd⟩
      · -- index operand
        have hnb : PipeNF.biasSlot nm ≠ some j := hst.2.2.2.2.2.2 (by rw [hk]; simp)
        obtain ⟨z', hz', hdz⟩ := untouched_dtype (h11 j _ tn hj hne htn (by rw [hd]; exact f32_ne_i32) hnb)
        exact fin z' _ hz' hdz (by rw [hdt, hd, hk]; rfl)
      · by_cases hkb : kind nm j = .bias
        · -- the bias
          obtain ⟨hbs, hnemb⟩ := hst.2.1 hkb
          have hwop := hst.2.2.2.2.2.1 hkb
          obtain ⟨o'', tn2, tz, pid, a_in, b1, b2, b3, -, b5, b6, -, -, b9, b10⟩ :=
            TypingE2E.srq_bias_typed rx env st qsvs m' tbl hnf h s sg sg' L.hsg L.hsg' k op L.hop nm cfg hres hsrq a ha
              j hbs hnemb _ hj hne
          have ho : o'' = o' := m3 o'' b1 b2
          subst ho
          have hrt := hdata hwop hnemb a_in b9
          refine fin _ _ b5 (dtypeAt_some sg' _ h0 _ b6) ?_
          rw [b10 hrt, hkb]
          simp only [intRow, biasType, Bool.or_eq_true, beq_iff_eq]
          exact .inr trivial
        · have hrole := role_regular hmem har hjlt hk hkb
          obtain ⟨hrt, hct⟩ := h10 j _ tn hj hne htn hd hrole
          by_cases hkw : kind nm j = .weight
          · -- the weight
            obtain ⟨hwop, hj1⟩ := hst.2.2.1 hkw
            cases hc : isConst env.model sg (Skeleton.root sg' z) with
            | false =>
              obtain ⟨z', tz, z1, -, z3, z4, -, z6⟩ := hrt hc
              have hz0 : 0 ≤ z' := by
                rcases z6 with rfl | ⟨hl, -⟩
                · exact h0
                · omega
              refine fin z' _ z1 (dtypeAt_some sg' _ hz0 _ z3) ?_
              rw [z4, hkw]
              simp only [intRow, actType, Bool.or_eq_true, Bool.and_eq_true, beq_iff_eq]
              rcases hab with hb | hb
              · left; left
                rw [hb]; rfl
              · cases hbmm : weightActOps.contains nm with
                | true => exact .inr ⟨rfl, trivial⟩
                | false =>
                  subst hj1
                  have := hwc hb hwop hbmm _ hj
                  rw [hc] at this; cases this
            | true =>
              have htc := tcfgOf_weight env { sgIdx := s, op := op, opName := nm, opId := (k : Int), cfg := cfg } sg _ h0
                tn htn hc hwop
              obtain ⟨tz, pid, z1, z2, z3, -⟩ := hct hc w (by rw [htc]; exact hw)
              refine fin _ _ z1 (dtypeAt_some sg' _ h0 _ z2) ?_
              rw [z3, hkw]
              simp only [intRow, Bool.or_eq_true, Bool.and_eq_true, beq_iff_eq]
              rcases hwb with hb | hb
              · left; right
                exact ⟨by rw [hb]; rfl, h4 hb⟩
              · left; left
                rw [hb]; rfl
          · -- a data operand
            have hkd : kind nm j = .data := by
              cases hkk : kind nm j
              · rfl
              · exact absurd hkk hkw
              · exact absurd hkk hkb
              · exact absurd hkk hk
            cases hc : isConst env.model sg (Skeleton.root sg' z) with
            | false =>
              obtain ⟨z', tz, z1, -, z3, z4, -, z6⟩ := hrt hc
              have hz0 : 0 ≤ z' := by
                rcases z6 with rfl | ⟨hl, -⟩
                · exact h0
                · omega
              refine fin z' _ z1 (dtypeAt_some sg' _ hz0 _ z3) ?_
              rw [z4, hkd]
              simp only [intRow, actType, beq_iff_eq]
            | true =>
              cases hwop : weightOp nm with
              | true =>
                exfalso
                obtain ⟨e1, e2⟩ := hst.2.2.2.1 hkd hwop
                rw [e1] at hj
                have := hdata hwop e2 _ hj
                rw [hc] at this; cases this
              | false =>
                have hwo : Tables.woOps.contains nm = false := hwop
                have htc := tcfgOf_act env { sgIdx := s, op := op, opName := nm, opId := (k : Int), cfg := cfg } tn hwo
                  (by rw [← wo_eq_drq]; exact hwo)
                obtain ⟨tz, pid, z1, z2, z3, -⟩ := hct hc a (by rw [htc]; exact ha)
                refine fin _ _ z1 (dtypeAt_some sg' _ h0 _ z2) ?_
                rw [z3, hkd]
                simp only [intRow, actType, beq_iff_eq]
  · intro t ht
    rw [m5] at ht
    obtain ⟨h0, tn, htn, hd⟩ := fl_out fl t ht
    obtain ⟨j, hj⟩ := List.mem_iff_getElem?.1 ht
    obtain ⟨tn', h1, h2, -⟩ := h8 j t tn hj (by omega) htn hd
    rw [dtypeAt_some _ _ h0 _ h1, h2]
    rfl

/-! ## float casting: float signature -/

theorem fc_weightOp : Tables.fcSupportedOps.all (fun nm => weightOp nm) = true := by decide

theorem f16_sig (rx : String → String → Bool) (env : Env) (st : Recipe.State)
    (qsvs : Option Qsvs) (m' : Model) (tbl : List Param) (hnf : PipelineWF.NF env st)
    (h : quantizePure rx env st qsvs = .ok (m', tbl))
    (s : Nat) (sg sg' : Subgraph) (k : Nat) (op : Op) (code : Nat) (L : Loc env m' s sg sg' k op code)
    (nm : String) (hnm : opNameOfCode code = some nm)
    (fl : floatSig nm (op.inputs.map (dtypeAt sg)) (op.outputs.map (dtypeAt sg)) = true)
    (hres : TypingE2E.ResolvesFloatCast rx env st sg op nm) (hfc : Tables.fcSupportedOps.contains nm = true)
    (hshape : nm = "CONV_2D_TRANSPOSE" → ∀ o', Same sg' k op o' → ∀ t, op.inputs[0]? = some t →
      ∃ z, o'.inputs[0]? = some z ∧ dtypeAt sg' z = dtypeAt sg t) :
    ∃ o', Same sg' k op o' ∧
      floatSig nm (o'.inputs.map (dtypeAt sg')) (o'.outputs.map (dtypeAt sg')) = true := by
  obtain ⟨o', iB, m1, m2, m3, m4, m5, m6, m7, hbs, hwt, hdat, hbias, hout⟩ :=
    TypingE2E.f16_op_typed rx env st qsvs m' tbl hnf h s sg sg' L.hsg L.hsg' k op L.hop nm hres
  have S : Same sg' k op o' := ⟨m1, m2, m3, m4, m5, m6, m7⟩
  refine ⟨o', S, ?_⟩
  have har := fl_arity fl
  have hmem := name_mem code nm hnm
  have hwop : weightOp nm = true := by
    have := fc_weightOp
    rw [List.all_eq_true] at this
    exact this nm (by simpa using hfc)
  have hflrow := ((sig_iff _ _ _ _ _).1 fl).2.1
  apply sig_of_slots
  · rw [m5, m6]; exact har
  · intro j z hz
    have hj := S.slot j z hz
    have hjlt : j < op.inputs.length := (List.getElem?_eq_some_iff.1 hj).1
    have hst := slot_table nm hmem _ _ har j hjlt
    -- a slot whose type is kept
    have keep : (∃ z', o'.inputs[j]? = some z' ∧ dtypeAt sg' z' = dtypeAt sg (Skeleton.root sg' z)) →
        floatRow nm (kind nm j) (dtypeAt sg' z) = true := by
      rintro ⟨z', hz', hdz⟩
      rw [hz] at hz'
      have : z = z' := Option.some.inj hz'
      rw [this, hdz]
      exact hflrow j _ (by rw [List.getElem?_map, hj]; rfl)
    cases hk : kind nm j
    · -- data
      obtain ⟨e1, -⟩ := hst.2.2.2.1 hk hwop
      obtain ⟨sIn, d1, d2⟩ := hdat
      subst e1
      rw [hj] at d1
      cases d1
      rw [← hk]
      exact keep (untouched_dtype d2)
    · -- weight
      obtain ⟨-, e1⟩ := hst.2.2.1 hk
      subst e1
      obtain ⟨sW, tw, tz, pid, z', tzz, ci, -, -, -, -, -, -, -, w8, w9, w10, w11, -⟩ := hwt
      rw [hz] at w8
      have : z = z' := Option.some.inj w8
      rw [this, dtypeAt_some sg' z' (by omega) _ w10, w11]
      rfl
    · -- bias
      obtain ⟨e1, -⟩ := hst.2.1 hk
      rw [hbs] at e1
      have : iB = j := Option.some.inj e1
      subst this
      rw [← hk]
      exact keep (untouched_dtype (hbias _ hj))
    · -- index
      have e1 := hst.2.2.2.2.1 hk hwop
      subst e1
      rw [← hk]
      by_cases hT : nm = "CONV_2D_TRANSPOSE"
      · exact keep (hshape hT o' S _ hj)
      · obtain ⟨sIn, d1, d2⟩ := hdat
        have hds : PipeNF.dataSlot nm = 0 := by unfold PipeNF.dataSlot; rw [if_neg hT]
        rw [hds] at d1 d2
        rw [hj] at d1
        cases d1
        exact keep (untouched_dtype d2)
  · intro t ht
    rw [m5] at ht
    obtain ⟨h0, tn, htn, hd⟩ := fl_out fl t ht
    -- the operators of float casting have one result
    have h1 : op.outputs.length = 1 := by
      have hall : Tables.fcSupportedOps.all (fun nm => match layout nm with
          | some L => !L.multiOut
          | none => false) = true := by decide
      rw [List.all_eq_true] at hall
      have := hall nm (by simpa using hfc)
      unfold arityOK at har
      cases hl : layout nm with
      | none => rw [hl] at this; cases this
      | some L =>
        rw [hl] at this har
        simp only [Bool.not_eq_true'] at this
        simp only [Bool.and_eq_true, Bool.or_eq_true, decide_eq_true_eq, this, Bool.false_eq_true, false_or] at har
        exact har.2
    obtain ⟨sOut, tn', o1, o2, o3⟩ := hout
    have : t = sOut := by
      match hops : op.outputs, h1 with
      | [x], _ =>
        rw [hops] at ht o1
        simp only [List.mem_singleton] at ht
        simp only [List.getElem?_cons_zero, Option.some.injEq] at o1
        rw [ht, o1]
    subst this
    rw [htn] at o2
    cases o2
    rw [dtypeAt_some _ _ h0 _ o3, hd]

/-! ## the inserted operators -/

/-- what `C03.inserted_ops_typed` does not pin: no inserted operator reads or writes an int32 / int64 tensor,
    and no inserted QUANTIZE reads or writes an int4 tensor.  (`inserted_ops_typed` says "an integer type"; the
    widths come from the configs: activations have 8 or 16 bits, weights 4 or 8, only a bias has 32 or 64 bits
    and a bias is never read through an inserted operator.)  PROVED for every run under a recipe without
    `skip_checks`: `KernelSig.inserted_widths` (`QProofs/KernelSigIns.lean`). -/
def InsertedWidths (m' : Model) : Prop :=
  ∀ sg' ∈ m'.subgraphs, ∀ o ∈ sg'.ops, o.orig = none → ∀ t ∈ o.inputs ++ o.outputs,
    dtypeAt sg' t ≠ some Tables.ttInt32 ∧ dtypeAt sg' t ≠ some Tables.ttInt64 ∧
    (m'.opcodes[o.code]? = some Tables.opQuantize → dtypeAt sg' t ≠ some Tables.ttInt4)

theorem ins_sig (rx : String → String → Bool) (env : Env) (st : Recipe.State)
    (qsvs : Option Qsvs) (m' : Model) (tbl : List Param) (hnf : PipelineWF.NF env st)
    (h : quantizePure rx env st qsvs = .ok (m', tbl)) (hiw : InsertedWidths m')
    (s : Nat) (sg' : Subgraph) (hsg' : m'.subgraphs[s]? = some sg') (o : Op) (ho : o ∈ sg'.ops)
    (hn : o.orig = none) : opOK m' sg' o = true := by
  obtain ⟨sg, ci, t, n, tin, tout, hsg, rfl, htl, hnl, htin, htout, hcase⟩ :=
    TypingE2E.inserted_ops_typed rx env st qsvs m' tbl hnf h s sg' hsg' o ho hn
  have hW := hiw sg' (List.mem_of_getElem? hsg') _ ho hn
  have hdin : dtypeAt sg' (t : Int) = some tin.dtype := dtypeAt_some sg' _ (Int.natCast_nonneg t) tin (by simpa using htin)
  have hdout : dtypeAt sg' (n : Int) = some tout.dtype :=
    dtypeAt_some sg' _ (Int.natCast_nonneg n) tout (by simpa using htout)
  obtain ⟨i1, i2, i3⟩ := hW (t : Int) (by simp)
  obtain ⟨o1, o2, o3⟩ := hW (n : Int) (by simp)
  rw [hdin] at i1 i2 i3
  rw [hdout] at o1 o2 o3
  unfold opOK opSig
  simp only [List.map_cons, List.map_nil, hdin, hdout]
  rcases hcase with ⟨hc, hti, hto, -⟩ | ⟨hc, hti, hto, -⟩
  · rw [hc]
    have hnm : nameOfCode Tables.opQuantize = some "QUANTIZE" := rfl
    simp only [Option.map_some, sigOK, hnm]
    have hacc : accepts "QUANTIZE" [some tin.dtype] [some tout.dtype] = quantizeSig [some tin.dtype] [some tout.dtype] := rfl
    rw [hacc]
    simp only [quantizeSig, Bool.and_eq_true, Bool.or_eq_true, beq_iff_eq]
    have i3' := i3 hc
    have o3' := o3 hc
    constructor
    · rcases hti with ⟨hf, -⟩ | ⟨hi, -⟩
      · exact .inl (.inl hf)
      · rcases hi with e | e | e | e | e
        · exact absurd (by rw [e]) i3'
        · exact .inl (.inr e)
        · exact .inr e
        · exact absurd (by rw [e]) i1
        · exact absurd (by rw [e]) i2
    · rcases hto with e | e | e | e | e
      · exact absurd (by rw [e]) o3'
      · exact .inl e
      · exact .inr e
      · exact absurd (by rw [e]) o1
      · exact absurd (by rw [e]) o2
  · rw [hc]
    have hnm : nameOfCode Tables.opDequantize = some "DEQUANTIZE" := rfl
    simp only [Option.map_some, sigOK, hnm]
    have hacc : accepts "DEQUANTIZE" [some tin.dtype] [some tout.dtype] = dequantizeSig [some tin.dtype] [some tout.dtype] := rfl
    rw [hacc]
    simp only [dequantizeSig, Bool.and_eq_true, Bool.or_eq_true, beq_iff_eq]
    refine ⟨?_, hto⟩
    rcases hti with ⟨hi, -⟩ | hf
    · rcases hi with e | e | e | e | e
      · exact .inl (.inl (.inl e))
      · exact .inl (.inl (.inr e))
      · exact .inl (.inr e)
      · exact absurd (by rw [e]) i1
      · exact absurd (by rw [e]) i2
    · exact .inr hf

end KernelSig
