import QModel.Materialize
/-!
# The operand-type signatures the LiteRT kernels accept -- an ASSUMED table (C01, runtime clause; C13)

"The LiteRT interpreter can allocate and invoke that model without an error."  The interpreter is outside
the Lean model.  What the `Prepare` / `Eval` functions of the builtin kernels check first are the OPERAND
TYPE SIGNATURES of an operator: which tensor types it reads in which operand position and which types it
writes.  `KernelSig.accepts name operandTypes resultTypes` is an explicit table of the signatures the
kernels of the 21 operators the quantizer supports, plus QUANTIZE and DEQUANTIZE, accept.

**This table is an ASSUMPTION about the runtime.**  It is written from the TFLite quantization
specification and the kernel sources; it is validated by EXECUTION (the C13 check of the harness runs every
accepted (operator, config) pair through the real interpreter); it is never proved, and nothing in
`QModel/**` depends on it.  The theorems of `QProps/C01b.lean` say: the output of `quantizePure` only
contains operators whose signature is in this table.

## The table

An absent optional operand (`-1`) has type `none`.  Operand positions have a KIND (`layout`):
`data` (activation), `weight` (operand 1 of the operators with weights), `bias`, `index` (shape / axis /
index / output-shape operand).  An operator is accepted if its signature is in one of the ROWS:

* **float kernel** (`floatRow`): data and weight float32, bias float32 -- or absent, for FULLY_CONNECTED and
  CONV_2D_TRANSPOSE (`biasOptional`) --, index operands int32, results float32;
* **hybrid / dynamic-range kernel** (`hybridRow`; FULLY_CONNECTED, CONV_2D, DEPTHWISE_CONV_2D,
  CONV_2D_TRANSPOSE, BATCH_MATMUL, EMBEDDING_LOOKUP): data float32, weight int8 -- or int4 for
  FULLY_CONNECTED and EMBEDDING_LOOKUP (`dynamic_wi4_afp32` of the default policy) --, bias absent or
  float32, index operands int32, results float32;
* **full-integer kernels** (`intRow`; all operators but EMBEDDING_LOOKUP), int8: data int8, weight int8 --
  or int4 for FULLY_CONNECTED and CONV_2D (`static_wi4_ai8`) --, bias absent or int32, index operands
  int32, results int8; int16: data int16, weight int8 (or int4 for FULLY_CONNECTED and CONV_2D,
  `static_wi4_ai16`), bias absent or int64, index operands int32, results int16; the second operand of
  BATCH_MATMUL and FULLY_CONNECTED may also have the activation type (a runtime tensor; `weightActOps`);
* **QUANTIZE**: float32 | int8 | int16 → int8 | int16;  **DEQUANTIZE**: int4 | int8 | int16 | float16 → float32.

CONV_2D_TRANSPOSE is listed among the hybrid kernels because the default policy accepts
`dynamic_wi8_afp32` for it and the C13 sweep runs that pair on the interpreter.  Entries probed on the
interpreter (LiteRT) while writing the table: hybrid CONV_2D_TRANSPOSE runs; BATCH_MATMUL accepts exactly
`(lhs float32 ∧ rhs int8) ∨ lhs.type = rhs.type ∨ (lhs int16 ∧ rhs int8)` (`batch_matmul.cc`);
FULLY_CONNECTED int16 × int16 runs and is accurate; CONV_2D_TRANSPOSE int16 × int16 is refused
(`weights->type != kTfLiteInt8`); CONV_2D with three operands refuses an absent bias.  Constraints on the
PARAMETERS (zero points, power-of-two scales, …) are outside this table (C04 / C13).
-/
open Graph

namespace KernelSig

/-- the type of an operand / result slot: `none` = absent optional operand -/
abbrev DT := Option Nat

inductive Kind where
  | data | weight | bias | index
  deriving DecidableEq, Repr, Inhabited

/-- operand layout of a builtin operator -/
structure Layout where
  /-- kinds of the leading operand positions -/
  fixed : List Kind
  /-- at least this many operands -/
  minIn : Nat
  /-- any number of further `data` operands (CONCATENATION) -/
  variadic : Bool := false
  /-- any number (≥ 1) of results (SPLIT) -/
  multiOut : Bool := false
  deriving Repr, Inhabited, DecidableEq

/-- the operand layouts of the 21 supported operators (TFLite schema / kernel sources) -/
def layout (nm : String) : Option Layout :=
  if nm = "FULLY_CONNECTED" ∨ nm = "CONV_2D" ∨ nm = "DEPTHWISE_CONV_2D" then
    some { fixed := [.data, .weight, .bias], minIn := 2 }
  else if nm = "CONV_2D_TRANSPOSE" then some { fixed := [.index, .weight, .data, .bias], minIn := 3 }
  else if nm = "BATCH_MATMUL" then some { fixed := [.data, .weight], minIn := 2 }
  else if nm = "EMBEDDING_LOOKUP" then some { fixed := [.index, .weight], minIn := 2 }
  else if nm = "ADD" ∨ nm = "SUB" ∨ nm = "MUL" then some { fixed := [.data, .data], minIn := 2 }
  else if nm = "SOFTMAX" ∨ nm = "LOGISTIC" ∨ nm = "TANH" ∨ nm = "GELU" ∨ nm = "RSQRT" ∨ nm = "AVERAGE_POOL_2D" then
    some { fixed := [.data], minIn := 1 }
  else if nm = "RESHAPE" then some { fixed := [.data, .index], minIn := 1 }
  else if nm = "TRANSPOSE" ∨ nm = "MEAN" then some { fixed := [.data, .index], minIn := 2 }
  else if nm = "STRIDED_SLICE" then some { fixed := [.data, .index, .index, .index], minIn := 4 }
  else if nm = "SPLIT" then some { fixed := [.index, .data], minIn := 2, multiOut := true }
  else if nm = "CONCATENATION" then some { fixed := [], minIn := 1, variadic := true }
  else none

/-- the kind of operand position `j` -/
def kind (nm : String) (j : Nat) : Kind :=
  match layout nm with
  | some L => L.fixed.getD j .data
  | none => .data

/-- numbers of operands and results -/
def arityOK (nm : String) (nIn nOut : Nat) : Bool :=
  match layout nm with
  | some L => decide (L.minIn ≤ nIn) && (L.variadic || decide (nIn ≤ L.fixed.length)) &&
      decide (1 ≤ nOut) && (L.multiOut || decide (nOut = 1))
  | none => false

/-- a row of the table: which type each kind of operand may have, and the type of every result -/
def sig (row : Kind → DT → Bool) (res : Nat) (nm : String) (ins outs : List DT) : Bool :=
  arityOK nm ins.length outs.length && ins.zipIdx.all (fun p => row (kind nm p.2) p.1) &&
    outs.all (· == some res)

/-- the operators whose bias operand may be ABSENT (`-1`): FULLY_CONNECTED and CONV_2D_TRANSPOSE.  (CONV_2D
    and DEPTHWISE_CONV_2D have two operands, or three with a bias tensor: "Tensor at index 2 was optional but
    was expected".) -/
def biasOptional (nm : String) : Bool := nm == "FULLY_CONNECTED" || nm == "CONV_2D_TRANSPOSE"

def floatRow (nm : String) : Kind → DT → Bool
  | .data, d | .weight, d => d == some Tables.ttFloat32
  | .bias, d => (d == none && biasOptional nm) || d == some Tables.ttFloat32
  | .index, d => d == some Tables.ttInt32

/-- the signature of a float model's operator -/
def floatSig (nm : String) (ins outs : List DT) : Bool := sig (floatRow nm) Tables.ttFloat32 nm ins outs

def hybridOps : List String :=
  ["FULLY_CONNECTED", "CONV_2D", "DEPTHWISE_CONV_2D", "CONV_2D_TRANSPOSE", "BATCH_MATMUL", "EMBEDDING_LOOKUP"]
def hybridInt4Ops : List String := ["FULLY_CONNECTED", "EMBEDDING_LOOKUP"]

def hybridRow (nm : String) : Kind → DT → Bool
  | .data, d => d == some Tables.ttFloat32
  | .weight, d => d == some Tables.ttInt8 || (d == some Tables.ttInt4 && hybridInt4Ops.contains nm)
  | .bias, d => (d == none && biasOptional nm) || d == some Tables.ttFloat32
  | .index, d => d == some Tables.ttInt32

def intOps : List String :=
  ["FULLY_CONNECTED", "CONV_2D", "DEPTHWISE_CONV_2D", "CONV_2D_TRANSPOSE", "BATCH_MATMUL", "ADD", "SUB", "MUL",
   "SOFTMAX", "LOGISTIC", "TANH", "GELU", "RSQRT", "AVERAGE_POOL_2D", "RESHAPE", "TRANSPOSE", "MEAN",
   "STRIDED_SLICE", "SPLIT", "CONCATENATION"]
def staticInt4Ops : List String := ["FULLY_CONNECTED", "CONV_2D"]
/-- the operators whose second operand may have the ACTIVATION type (a runtime tensor): BATCH_MATMUL
    (`lhs.type == rhs.type`) and FULLY_CONNECTED (the int16 × int16 kernel; checked on the interpreter) -/
def weightActOps : List String := ["BATCH_MATMUL", "FULLY_CONNECTED"]

/-- activation type `A`, bias type `B` -/
def intRow (A B : Nat) (nm : String) : Kind → DT → Bool
  | .data, d => d == some A
  | .weight, d => d == some Tables.ttInt8 || (d == some Tables.ttInt4 && staticInt4Ops.contains nm) ||
      (weightActOps.contains nm && d == some A)
  | .bias, d => (d == none && biasOptional nm) || d == some B
  | .index, d => d == some Tables.ttInt32

def quantizeSig (ins outs : List DT) : Bool :=
  match ins, outs with
  | [some a], [some b] =>
    (a == Tables.ttFloat32 || a == Tables.ttInt8 || a == Tables.ttInt16) && (b == Tables.ttInt8 || b == Tables.ttInt16)
  | _, _ => false

def dequantizeSig (ins outs : List DT) : Bool :=
  match ins, outs with
  | [some a], [some b] =>
    (a == Tables.ttInt4 || a == Tables.ttInt8 || a == Tables.ttInt16 || a == Tables.ttFloat16) && b == Tables.ttFloat32
  | _, _ => false

/-- **THE ASSUMED TABLE**: operator name, operand types, result types ↦ accepted by the kernel -/
def accepts (nm : String) (ins outs : List DT) : Bool :=
  if nm = "QUANTIZE" then quantizeSig ins outs
  else if nm = "DEQUANTIZE" then dequantizeSig ins outs
  else
    floatSig nm ins outs ||
    (hybridOps.contains nm && sig (hybridRow nm) Tables.ttFloat32 nm ins outs) ||
    (intOps.contains nm &&
      (sig (intRow Tables.ttInt8 Tables.ttInt32 nm) Tables.ttInt8 nm ins outs ||
       sig (intRow Tables.ttInt16 Tables.ttInt64 nm) Tables.ttInt16 nm ins outs))

/-! ## reading the signature of an operator off a model -/

/-- the operator names of the table: the quantizer's 21 names, QUANTIZE, DEQUANTIZE -/
def nameOfCode (code : Nat) : Option String :=
  if code = Tables.opQuantize then some "QUANTIZE"
  else if code = Tables.opDequantize then some "DEQUANTIZE"
  else Mat.opNameOfCode code

/-- the type of the tensor in a slot (`none` for an absent operand) -/
def dtypeAt (sg : Subgraph) (t : Int) : DT :=
  if t < 0 then none else (sg.tensors[t.toNat]?).map (·.dtype)

/-- builtin code, operand types, result types -/
def opSig (m : Model) (sg : Subgraph) (o : Op) : Option (Nat × List DT × List DT) :=
  (m.opcodes[o.code]?).map fun c => (c, o.inputs.map (dtypeAt sg), o.outputs.map (dtypeAt sg))

/-- the signature is in the table (an operator that is not in the table at all is not judged) -/
def sigOK : Option (Nat × List DT × List DT) → Bool
  | none => false
  | some (c, ins, outs) =>
    match nameOfCode c with
    | none => true
    | some nm => accepts nm ins outs

/-- operator `o` of subgraph `sg` of model `m` has a signature the runtime accepts -/
def opOK (m : Model) (sg : Subgraph) (o : Op) : Bool := sigOK (opSig m sg o)

/-- the signatures of all operators of the model, in order -/
def modelSigs (m : Model) : List (Option (Nat × List DT × List DT)) :=
  m.subgraphs.flatMap fun sg => sg.ops.map fun o => opSig m sg o

/-- every operator of the model has an accepted signature -/
def modelOK (m : Model) : Bool := m.subgraphs.all fun sg => sg.ops.all fun o => opOK m sg o

/-! ## the table, row by row, on examples (documentation; every line is checked by `decide`) -/

section Examples
open Tables

-- float
example : accepts "FULLY_CONNECTED" [some ttFloat32, some ttFloat32, none] [some ttFloat32] = true := by decide
example : accepts "CONV_2D_TRANSPOSE" [some ttInt32, some ttFloat32, some ttFloat32, some ttFloat32] [some ttFloat32] = true := by decide
example : accepts "RESHAPE" [some ttFloat32, some ttInt32] [some ttFloat32] = true := by decide
example : accepts "SPLIT" [some ttInt32, some ttFloat32] [some ttFloat32, some ttFloat32] = true := by decide
example : accepts "CONCATENATION" [some ttFloat32, some ttFloat32, some ttFloat32] [some ttFloat32] = true := by decide
-- hybrid
example : accepts "FULLY_CONNECTED" [some ttFloat32, some ttInt8, some ttFloat32] [some ttFloat32] = true := by decide
example : accepts "FULLY_CONNECTED" [some ttFloat32, some ttInt4, none] [some ttFloat32] = true := by decide
example : accepts "CONV_2D" [some ttFloat32, some ttInt4, some ttFloat32] [some ttFloat32] = false := by decide
example : accepts "EMBEDDING_LOOKUP" [some ttInt32, some ttInt4] [some ttFloat32] = true := by decide
example : accepts "BATCH_MATMUL" [some ttFloat32, some ttInt8] [some ttFloat32] = true := by decide
example : accepts "BATCH_MATMUL" [some ttInt8, some ttFloat32] [some ttFloat32] = false := by decide
-- full integer
example : accepts "FULLY_CONNECTED" [some ttInt8, some ttInt8, some ttInt32] [some ttInt8] = true := by decide
example : accepts "FULLY_CONNECTED" [some ttInt16, some ttInt8, some ttInt64] [some ttInt16] = true := by decide
example : accepts "FULLY_CONNECTED" [some ttInt16, some ttInt4, none] [some ttInt16] = true := by decide
example : accepts "FULLY_CONNECTED" [some ttInt16, some ttInt16, none] [some ttInt16] = true := by decide
example : accepts "CONV_2D" [some ttInt16, some ttInt16, some ttInt64] [some ttInt16] = false := by decide
example : accepts "CONV_2D" [some ttFloat32, some ttFloat32, none] [some ttFloat32] = false := by decide
example : accepts "CONV_2D" [some ttFloat32, some ttFloat32] [some ttFloat32] = true := by decide
example : accepts "FULLY_CONNECTED" [some ttInt16, some ttInt8, some ttInt32] [some ttInt16] = false := by decide
example : accepts "FULLY_CONNECTED" [some ttInt8, some ttInt8, none] [some ttFloat32] = false := by decide
example : accepts "DEPTHWISE_CONV_2D" [some ttInt8, some ttInt4, some ttInt32] [some ttInt8] = false := by decide
example : accepts "BATCH_MATMUL" [some ttInt16, some ttInt16] [some ttInt16] = true := by decide
example : accepts "ADD" [some ttInt8, some ttInt8] [some ttInt8] = true := by decide
example : accepts "ADD" [some ttInt8, some ttInt16] [some ttInt8] = false := by decide
example : accepts "ADD" [some ttInt8, some ttFloat32] [some ttInt8] = false := by decide
example : accepts "STRIDED_SLICE" [some ttInt16, some ttInt32, some ttInt32, some ttInt32] [some ttInt16] = true := by decide
example : accepts "MEAN" [some ttInt8, some ttFloat32] [some ttInt8] = false := by decide
example : accepts "EMBEDDING_LOOKUP" [some ttInt32, some ttInt8] [some ttInt8] = false := by decide
-- QUANTIZE / DEQUANTIZE
example : accepts "QUANTIZE" [some ttFloat32] [some ttInt8] = true := by decide
example : accepts "QUANTIZE" [some ttInt16] [some ttInt8] = true := by decide
example : accepts "QUANTIZE" [some ttFloat32] [some ttInt4] = false := by decide
example : accepts "DEQUANTIZE" [some ttInt4] [some ttFloat32] = true := by decide
example : accepts "DEQUANTIZE" [some ttFloat16] [some ttFloat32] = true := by decide
example : accepts "DEQUANTIZE" [some ttInt32] [some ttFloat32] = false := by decide
-- not in the table
example : accepts "ABS" [some ttFloat32] [some ttFloat32] = false := by decide

end Examples

end KernelSig
