import QProofs.SharingGen
import QProofs.PipeGen
import QProofs.PipelineWF
/-!
# A rewriting request on a constant carries packed data (`ConstData`, end to end)

`CD c`: if the consumer request `c` rewrites its tensor (QUANTIZE_TENSOR / ADD_DEQUANTIZE) and carries a
parameter object, that object carries quantized data.  It holds for every consumer request emitted by
the materialisation (`opReqs_cd`), hence for every entry of the result dictionary of `Mat.generate`
(`generate_res`), hence `SharingE2E.ConstData` holds for the generated instructions
(`constData_of_cd`).
-/
open Graph Mat Cfg Pipeline InstGen GenInstsOK GraphStep GraphInv PipeNF Pipe SharingGen

namespace SharingData

/-- a rewriting consumer request with a parameter object carries quantized data -/
def CD (c : CO2T) : Prop :=
  ∀ x P, c.xfs = [x] → quantSrc x = true → c.param = some P → hasData P = true

/-- all consumer requests of `r` -/
def ReqCD (r : CReq) : Prop := ∀ cs c, r.consumers = some cs → c ∈ cs → CD c

theorem noQuantReq_cd (name : String) (opId : Int) (inbound : Bool) : ReqCD (noQuantReq name opId inbound) := by
  intro cs c hcs hc x P hx hq _
  cases inbound
  · rw [noQuantReq_prod] at hcs; cases hcs
  · rw [noQuantReq_cons] at hcs
    cases hcs
    rw [List.mem_singleton.1 hc] at hx
    cases hx
    cases hq

theorem reqCD_of_noCons (r : CReq) (h : r.consumers = none) : ReqCD r := by
  intro cs c hcs; rw [h] at hcs; cases hcs

/-! ## `wrapper` -/

theorem tensorQuantParams_hasData (env : Env) (oi : OpInfo) (mm : Qsv) (tc : TCfg) (c : Nd.Arr Rat)
    (p : Param) (h : tensorQuantParams env oi mm tc (some c) = .ok p) : hasData p = true := by
  unfold tensorQuantParams at h
  simp only [bind, Except.bind, pure, Except.pure, throw, throwThe, MonadExceptOf.throw] at h
  repeat' split at h
  all_goals (cases h <;> rfl)

/-- a request made by `wrapper` for a CONSTANT: the parameter object (if any) carries data, provided
    the given parameters are uniform -/
theorem wrapper_data (env : Env) (qs : Qsvs) (oi : OpInfo) (t : Tensor) (inbound : Bool) (g : Option Param)
    (r : CReq) (h : wrapper env qs oi t inbound g = .ok r)
    (hg : ∀ q, g = some q → ∃ qp d, q = .uniform qp d) :
    ∃ xfs p, tensorXfs oi.cfg inbound (constData env t).isSome = .ok xfs ∧
      r = (if inbound then ⟨t.name, none, some [(⟨oi.opId, xfs, p⟩ : CO2T)]⟩ else ⟨t.name, some (⟨oi.opId, xfs, p⟩ : CO2T), none⟩) ∧
      ((constData env t).isSome = true → ∀ q, p = some q → hasData q = true) := by
  have key : ∃ p, mkReq t.name oi inbound p (constData env t).isSome = .ok r ∧
      ((constData env t).isSome = true → ∀ q, p = some q → hasData q = true) := by
    unfold wrapper at h
    simp only [] at h
    split at h
    · rename_i tc _
      have fin : ∀ mm, ((tensorQuantParams env oi mm tc (constData env t) >>= fun r => pure (some r)) >>=
          fun p => mkReq t.name oi inbound p (constData env t).isSome) = .ok r →
          ∃ p, mkReq t.name oi inbound p (constData env t).isSome = .ok r ∧
            ((constData env t).isSome = true → ∀ q, p = some q → hasData q = true) := by
        intro mm h
        obtain ⟨p, hp, h⟩ := bind_ok _ _ _ h
        obtain ⟨q', hq', hp⟩ := bind_ok _ _ _ hp
        simp only [pure, Except.pure, Except.ok.injEq] at hp
        subst hp
        refine ⟨_, h, ?_⟩
        intro hs q hq
        cases hq
        cases hd : constData env t with
        | none => rw [hd] at hs; cases hs
        | some c =>
          rw [hd] at hq'
          exact tensorQuantParams_hasData _ _ _ _ _ _ hq'
      split at h
      · split at h
        · obtain ⟨mm, _, h⟩ := bind_ok _ _ _ h
          exact fin _ h
        · obtain ⟨mm, _, h⟩ := bind_ok _ _ _ h
          exact fin _ h
      · split at h
        · obtain ⟨mm, hmm, h⟩ := bind_ok _ _ _ h
          cases hmm
        · obtain ⟨mm, _, h⟩ := bind_ok _ _ _ h
          exact fin _ h
    · -- borrowed parameters without data
      split at h
      · rename_i d hdat
        obtain ⟨p, hp, h⟩ := bind_ok _ _ _ h
        obtain ⟨q', _, hp⟩ := bind_ok _ _ _ hp
        simp only [pure, Except.pure, Except.ok.injEq] at hp
        subst hp
        exact ⟨_, h, fun _ q hq => by cases hq; rfl⟩
      · rename_i hdat
        obtain ⟨p, hp, h⟩ := bind_ok _ _ _ h
        simp only [pure, Except.pure, Except.ok.injEq] at hp
        subst hp
        refine ⟨_, h, fun hs => ?_⟩
        rw [hdat] at hs; cases hs
    · rename_i hno1 hno2
      obtain ⟨p, hp, h⟩ := bind_ok _ _ _ h
      simp only [pure, Except.pure, Except.ok.injEq] at hp
      subst hp
      refine ⟨_, h, fun _ q hq => ?_⟩
      obtain ⟨qp, d, rfl⟩ := hg q hq
      cases d with
      | none => exact (hno1 qp hq).elim
      | some v => rfl
  obtain ⟨p, h, hd⟩ := key
  obtain ⟨xfs, hx, hr⟩ := mkReq_spec _ _ _ _ _ _ h
  exact ⟨xfs, p, hx, hr, hd⟩

/-- which transformations `tensorXfs` yields for an operand -/
theorem tensorXfs_quantSrc (c : OpCfg) (inbound isC : Bool) (x : Xf)
    (h : tensorXfs c inbound isC = .ok [x]) (hq : quantSrc x = true) (hin : inbound = true) : isC = true := by
  subst hin
  unfold tensorXfs at h
  cases isC
  · exfalso
    revert h
    simp only [Bool.and_false, Bool.false_eq_true, if_false]
    intro h
    repeat' split at h
    all_goals first | (cases h; done) | (cases h; cases hq; done) | (cases h; rename_i hn; exact (hn trivial).elim)
  · rfl

theorem wrapper_cd (env : Env) (qs : Qsvs) (oi : OpInfo) (t : Tensor) (inbound : Bool) (g : Option Param)
    (r : CReq) (h : wrapper env qs oi t inbound g = .ok r)
    (hg : ∀ q, g = some q → ∃ qp d, q = .uniform qp d) : ReqCD r := by
  obtain ⟨xfs, p, hx, hr, hd⟩ := wrapper_data env qs oi t inbound g r h hg
  subst hr
  cases inbound
  · exact reqCD_of_noCons _ rfl
  · intro cs c hcs hc x P hxf hq hP
    simp only [if_true, Option.some.injEq] at hcs
    subst hcs
    rw [List.mem_singleton.1 hc] at hxf hP
    simp only at hxf hP
    subst hxf
    exact hd (tensorXfs_quantSrc _ _ _ _ hx hq rfl) P hP

/-- every path of `wrapper` ends in `mkReq` -/
theorem wrapper_mkReq (env : Env) (qs : Qsvs) (oi : OpInfo) (t : Tensor) (inbound : Bool) (g : Option Param)
    (r : CReq) (h : wrapper env qs oi t inbound g = .ok r) :
    ∃ p, mkReq t.name oi inbound p (constData env t).isSome = .ok r := by
  unfold wrapper at h
  simp only [] at h
  split at h
  · split at h
    · split at h
      · obtain ⟨mm, _, h⟩ := bind_ok _ _ _ h
        obtain ⟨p, _, h⟩ := bind_ok _ _ _ h
        exact ⟨p, h⟩
      · obtain ⟨mm, _, h⟩ := bind_ok _ _ _ h
        obtain ⟨p, _, h⟩ := bind_ok _ _ _ h
        exact ⟨p, h⟩
    · split at h
      · obtain ⟨mm, hmm, h⟩ := bind_ok _ _ _ h
        cases hmm
      · obtain ⟨mm, _, h⟩ := bind_ok _ _ _ h
        obtain ⟨p, _, h⟩ := bind_ok _ _ _ h
        exact ⟨p, h⟩
  · split at h
    · obtain ⟨p, _, h⟩ := bind_ok _ _ _ h
      exact ⟨p, h⟩
    · obtain ⟨p, _, h⟩ := bind_ok _ _ _ h
      exact ⟨p, h⟩
  · obtain ⟨p, _, h⟩ := bind_ok _ _ _ h
    exact ⟨p, h⟩

theorem wrapper_false_noCons (env : Env) (qs : Qsvs) (oi : OpInfo) (t : Tensor) (g : Option Param)
    (r : CReq) (h : wrapper env qs oi t false g = .ok r) : r.consumers = none := by
  obtain ⟨p, h⟩ := wrapper_mkReq env qs oi t false g r h
  obtain ⟨xfs, _, hr⟩ := mkReq_spec _ _ _ _ _ _ h
  subst hr
  rfl

/-! ## the materialisation functions -/

theorem standardOp_cd (env : Env) (sg : Subgraph) (qsvs : Qsvs) (oi : OpInfo) (con : Constraint)
    (gIn gOut : List Nat) (rs : List CReq) (qs' : Qsvs)
    (h : standardOp env sg qsvs oi con gIn gOut = .ok (rs, qs')) : ∀ r ∈ rs, ReqCD r := by
  obtain ⟨inIgn, outIgn, rin, rout, g, gO, -, -, hrs, hrin, hrout, hg, -⟩ :=
    standardOp_shape env sg qsvs oi con gIn gOut rs qs' h
  have hgu : ∀ q, g = some q → ∃ qp d, q = .uniform qp d := by
    rcases hg with rfl | ⟨_, p, _, t, orq, _, _, hw, rfl⟩
    · intro q hq; cases hq
    · intro q hq
      cases hpr : orq.producer with
      | none => rw [hpr] at hq; cases hq
      | some pr =>
        rw [hpr] at hq
        exact (wrapper_none_uniform env qsvs oi t false orq hw).1 pr q hpr hq
  intro r hr
  subst hrs
  rcases List.mem_append.1 hr with hr | hr
  · obtain ⟨j, p, _, _, t, _, hS⟩ := pointwise_mem hrin r hr
    split at hS
    · subst hS; exact noQuantReq_cd _ _ _
    · exact wrapper_cd env qsvs oi t true g r hS hgu
  · obtain ⟨j, p, _, _, t, _, hS⟩ := pointwise_mem hrout r hr
    split at hS
    · subst hS; exact noQuantReq_cd _ _ _
    · exact reqCD_of_noCons _ (wrapper_false_noCons env qsvs oi t gO r hS)

theorem noQuantOp_cd (sg : Subgraph) (op : Op) (opId : Int) (rs : List CReq)
    (h : noQuantOp sg op opId = .ok rs) : ∀ r ∈ rs, ReqCD r := by
  unfold noQuantOp at h
  obtain ⟨ins, hins, h⟩ := bind_ok _ _ _ h
  obtain ⟨outs, houts, h⟩ := bind_ok _ _ _ h
  simp only [pure, Except.pure, Except.ok.injEq] at h
  subst h
  intro r hr
  rcases List.mem_append.1 hr with hr | hr
  · obtain ⟨i, _, hf⟩ := GraphFrame.mapM_ok _ _ _ hins r hr
    obtain ⟨t, _, hf⟩ := bind_ok _ _ _ hf
    simp only [pure, Except.pure, Except.ok.injEq] at hf
    subst hf; exact noQuantReq_cd _ _ _
  · obtain ⟨i, _, hf⟩ := GraphFrame.mapM_ok _ _ _ houts r hr
    obtain ⟨t, _, hf⟩ := bind_ok _ _ _ hf
    simp only [pure, Except.pure, Except.ok.injEq] at hf
    subst hf; exact noQuantReq_cd _ _ _

theorem mkReq_cd (name : String) (oi : OpInfo) (inbound : Bool) (bp : Option Param) (isC : Bool) (r : CReq)
    (h : mkReq name oi inbound bp isC = .ok r) (hbp : ∀ q, bp = some q → hasData q = true) : ReqCD r := by
  obtain ⟨xfs, _, hr⟩ := mkReq_spec _ _ _ _ _ _ h
  subst hr
  cases inbound
  · exact reqCD_of_noCons _ rfl
  · intro cs c hcs hc x P _ _ hP
    simp only [if_true, Option.some.injEq] at hcs
    subst hcs
    rw [List.mem_singleton.1 hc] at hP
    exact hbp P hP

theorem biasFor_cd (env : Env) (sg : Subgraph) (oi : OpInfo) (reqs rs : List CReq) (iIn iW iB : Nat)
    (hR : ∀ r ∈ reqs, ReqCD r) (h : biasFor env sg oi reqs iIn iW iB = .ok rs) : ∀ r ∈ rs, ReqCD r := by
  unfold biasFor at h
  split at h
  · simp only [pure, Except.pure, Except.ok.injEq] at h; subst h; exact hR
  · rename_i bslot hb
    split at h
    · simp only [pure, Except.pure, Except.ok.injEq] at h; subst h; exact hR
    · obtain ⟨bt, hbt, h⟩ := bind_ok _ _ _ h
      have fin : ∀ bp, (∀ q, bp = some q → hasData q = true) →
          (mkReq bt.name oi true bp (isSRQ oi.cfg) >>= fun r =>
            if iB < reqs.length then pure (reqs.set iB r) else throw PyErr.indexError) = .ok rs →
          ∀ r ∈ rs, ReqCD r := by
        intro bp hbp h
        obtain ⟨r, hr, h⟩ := bind_ok _ _ _ h
        split at h
        · simp only [pure, Except.pure, Except.ok.injEq] at h
          subst h
          intro y hy
          rcases mem_set_cases _ _ _ _ hy with rfl | ⟨j, _, hj⟩
          · exact mkReq_cd _ _ _ _ _ _ hr hbp
          · exact hR y (List.mem_of_getElem? hj)
        · cases h
      simp only [] at h
      split at h
      · split at h
        · obtain ⟨_, h', _⟩ := bind_ok _ _ _ h
          cases h'
        · obtain ⟨pin, _, h⟩ := bind_ok _ _ _ h
          obtain ⟨pw, _, h⟩ := bind_ok _ _ _ h
          split at h
          · obtain ⟨bp, hbp, h⟩ := bind_ok _ _ _ h
            obtain ⟨v, _, hbp⟩ := bind_ok _ _ _ hbp
            simp only [pure, Except.pure, Except.ok.injEq] at hbp
            subst hbp
            exact fin _ (fun q hq => by cases hq; rfl) h
          · obtain ⟨_, h', _⟩ := bind_ok _ _ _ h
            cases h'
      · obtain ⟨bp, hbp, h⟩ := bind_ok _ _ _ h
        simp only [pure, Except.pure, Except.ok.injEq] at hbp
        subst hbp
        exact fin none (fun q hq => by cases hq) h

theorem fixedRangeOp_cd (env : Env) (sg : Subgraph) (qsvs : Qsvs) (oi : OpInfo) (b : Bool)
    (rs : List CReq) (qs' : Qsvs) (h : fixedRangeOp env sg qsvs oi b = .ok (rs, qs')) :
    ∀ r ∈ rs, ReqCD r := by
  unfold fixedRangeOp at h
  simp only [bind, Except.bind, pure, Except.pure, throw, throwThe, MonadExceptOf.throw] at h
  split at h
  · cases h
  · split at h
    · cases h
    · rename_i v hstd
      obtain ⟨reqs, qs⟩ := v
      have hR := standardOp_cd env sg qsvs oi .none [] [] reqs qs hstd
      simp only [] at h
      split at h
      · rename_i last a hlast hact
        split at h
        · cases h; exact hR
        · rename_i pr hpr
          split at h
          · cases h
          · rename_i fp hfp
            split at h
            · cases h
            · split at h
              · cases h
              · cases h
                have hlm : last ∈ reqs := List.mem_of_getLast? hlast
                intro r hr
                rcases List.mem_append.1 hr with hr | hr
                · exact hR r (List.dropLast_subset _ hr)
                · rw [List.mem_singleton.1 hr]
                  intro cs c hcs hc
                  exact hR last hlm cs c hcs hc
      · cases h; exact hR

theorem floatCastOp_cd (env : Env) (sg : Subgraph) (oi : OpInfo) (iIn iW iB : Nat) (rs : List CReq)
    (h : floatCastOp env sg oi iIn iW iB = .ok rs) : ∀ r ∈ rs, ReqCD r := by
  unfold floatCastOp at h
  simp only [] at h
  obtain ⟨sIn, hsIn, h⟩ := bind_ok _ _ _ h
  obtain ⟨tin, htin, h⟩ := bind_ok _ _ _ h
  obtain ⟨sW, hsW, h⟩ := bind_ok _ _ _ h
  obtain ⟨tw, htw, h⟩ := bind_ok _ _ _ h
  obtain ⟨sOut, hsOut, h⟩ := bind_ok _ _ _ h
  obtain ⟨tout, htout, h⟩ := bind_ok _ _ _ h
  obtain ⟨wd, hwd, h⟩ := bind_ok _ _ _ h
  obtain ⟨hh, _, h⟩ := bind_ok _ _ _ h
  have hw : ReqCD ⟨tw.name, none, some [(⟨oi.opId, [.addDequant],
      some (Param.nonlinear 16 (some ⟨wd.shape, hh⟩))⟩ : CO2T)]⟩ := by
    intro cs c hcs hc x P _ _ hP
    cases hcs
    rw [List.mem_singleton.1 hc] at hP
    cases hP
    rfl
  have base : ∀ r ∈ [noQuantReq tin.name oi.opId true,
      (⟨tw.name, none, some [(⟨oi.opId, [.addDequant], some (Param.nonlinear 16 (some ⟨wd.shape, hh⟩))⟩ : CO2T)]⟩ : CReq),
      noQuantReq tout.name oi.opId false], ReqCD r := by
    intro r hr
    simp only [List.mem_cons, List.mem_nil_iff, or_false] at hr
    rcases hr with rfl | rfl | rfl
    · exact noQuantReq_cd _ _ _
    · exact hw
    · exact noQuantReq_cd _ _ _
  split at h
  · split at h
    · obtain ⟨tb, htb, h⟩ := bind_ok _ _ _ h
      simp only [pure, Except.pure, Except.ok.injEq] at h
      subst h
      intro r hr
      rcases List.mem_append.1 hr with hr | hr
      · exact base r hr
      · rw [List.mem_singleton.1 hr]; exact noQuantReq_cd _ _ _
    · simp only [pure, Except.pure, Except.ok.injEq] at h
      subst h; exact base
  · simp only [pure, Except.pure, Except.ok.injEq] at h
    subst h; exact base

theorem materializeOp_cd (env : Env) (sg : Subgraph) (qsvs : Qsvs) (oi : OpInfo) (alg fn : String)
    (rs : List CReq) (qs' : Qsvs) (h : materializeOp env sg qsvs oi alg fn = .ok (rs, qs')) :
    ∀ r ∈ rs, ReqCD r := by
  rw [materializeOp] at h
  have fc : ∀ iIn iW iB, (floatCastOp env sg oi iIn iW iB >>= fun r => (pure (r, qsvs) : PyM (List CReq × Qsvs)))
      = .ok (rs, qs') → ∀ r ∈ rs, ReqCD r := by
    intro iIn iW iB h
    obtain ⟨r, hr, h⟩ := bind_ok _ _ _ h
    cases h
    exact floatCastOp_cd env sg oi iIn iW iB _ hr
  have conv : ∀ gIn iIn iW iB, (standardOp env sg qsvs oi .none gIn [] >>= fun x =>
      (biasFor env sg oi x.1 iIn iW iB >>= fun r' => (pure (r', x.2) : PyM (List CReq × Qsvs))))
      = .ok (rs, qs') → ∀ r ∈ rs, ReqCD r := by
    intro gIn iIn iW iB h
    obtain ⟨⟨r, q⟩, hs, h⟩ := bind_ok _ _ _ h
    obtain ⟨r', hb, h⟩ := bind_ok _ _ _ h
    cases h
    exact biasFor_cd env sg oi r _ iIn iW iB (standardOp_cd env sg qsvs oi .none gIn [] r q hs) hb
  by_cases hF : (alg == Tables.algFloatCasting) = true
  · rw [if_pos hF] at h
    by_cases h1 : (fn == "materialize_fc_conv" || fn == "materialize_embedding_lookup") = true
    · rw [if_pos h1] at h
      exact fc _ _ _ h
    · rw [if_neg h1] at h
      by_cases h2 : (fn == "materialize_conv2d_transpose") = true
      · rw [if_pos h2] at h
        exact fc _ _ _ h
      · rw [if_neg h2] at h
        cases h
  · rw [if_neg hF] at h
    by_cases hM : (alg == Tables.algMinMax) = true
    · rw [if_pos hM] at h
      by_cases c1 : (fn == "materialize_input" || fn == "materialize_output" || fn == "materialize_add" ||
          fn == "materialize_sub" || fn == "materialize_mul" || fn == "materialize_batch_matmul" ||
          fn == "materialize_gelu" || fn == "materialize_rsqrt") = true
      · rw [if_pos c1] at h
        exact standardOp_cd _ _ _ _ _ _ _ _ _ h
      rw [if_neg c1] at h
      by_cases c2 : (fn == "materialize_embedding_lookup") = true
      · rw [if_pos c2] at h
        exact standardOp_cd _ _ _ _ _ _ _ _ _ h
      rw [if_neg c2] at h
      by_cases c3 : (fn == "materialize_mean") = true
      · rw [if_pos c3] at h
        exact standardOp_cd _ _ _ _ _ _ _ _ _ h
      rw [if_neg c3] at h
      by_cases c4 : (fn == "materialize_reshape" || fn == "materialize_transpose") = true
      · rw [if_pos c4] at h
        exact standardOp_cd _ _ _ _ _ _ _ _ _ h
      rw [if_neg c4] at h
      by_cases c5 : (fn == "materialize_average_pool_2d") = true
      · rw [if_pos c5] at h
        exact standardOp_cd _ _ _ _ _ _ _ _ _ h
      rw [if_neg c5] at h
      by_cases c6 : (fn == "materialize_strided_slice") = true
      · rw [if_pos c6] at h
        exact standardOp_cd _ _ _ _ _ _ _ _ _ h
      rw [if_neg c6] at h
      by_cases c7 : (fn == "materialize_split") = true
      · rw [if_pos c7] at h
        exact standardOp_cd _ _ _ _ _ _ _ _ _ h
      rw [if_neg c7] at h
      by_cases c8 : (fn == "materialize_concatenation") = true
      · rw [if_pos c8] at h
        exact standardOp_cd _ _ _ _ _ _ _ _ _ h
      rw [if_neg c8] at h
      by_cases c9 : (fn == "materialize_fc_conv") = true
      · rw [if_pos c9] at h
        exact conv _ _ _ _ h
      rw [if_neg c9] at h
      by_cases c10 : (fn == "materialize_conv2d_transpose") = true
      · rw [if_pos c10] at h
        obtain ⟨⟨r, q⟩, hs, h⟩ := bind_ok _ _ _ h
        simp only [] at h
        split at h
        · obtain ⟨_, h', _⟩ := bind_ok _ _ _ h
          cases h'
        · obtain ⟨r', hb, h⟩ := bind_ok _ _ _ h
          cases h
          exact biasFor_cd env sg oi r _ _ _ _ (standardOp_cd env sg qsvs oi .none _ [] r _ hs) hb
      rw [if_neg c10] at h
      by_cases c11 : (fn == "materialize_softmax_and_logistic") = true
      · rw [if_pos c11] at h
        exact fixedRangeOp_cd _ _ _ _ _ _ _ h
      rw [if_neg c11] at h
      by_cases c12 : (fn == "materialize_tanh") = true
      · rw [if_pos c12] at h
        exact fixedRangeOp_cd _ _ _ _ _ _ _ h
      rw [if_neg c12] at h
      cases h
    · rw [if_neg hM] at h
      cases h

theorem opReqs_cd (rx : String → String → Bool) (env : Env) (st : Recipe.State)
    (sIdx : Nat) (sg : Subgraph) (qs : Qsvs) (q : Op × Option String × Int) (rs : List CReq) (qs' : Qsvs)
    (h : opReqs rx env st sIdx sg qs q = .ok (rs, qs')) : ∀ r ∈ rs, ReqCD r := by
  unfold opReqs at h
  split at h
  · cases h
  · split at h
    · cases h
    · rename_i r hr
      cases h
      exact noQuantOp_cd sg _ _ _ hr
  · split at h
    · cases h
    · split at h
      · split at h
        · cases h
        · rename_i r hr
          cases h
          exact noQuantOp_cd sg _ _ _ hr
      · split at h
        · cases h
        · split at h
          · cases h
          · exact materializeOp_cd env sg qs _ _ _ rs qs' h

/-! ## the result dictionary: keys are distinct, all consumer requests satisfy `CD` -/

def ResCD (res : List (String × CReq)) : Prop := ∀ e ∈ res, ReqCD e.2

def KeysND (res : List (String × CReq)) : Prop := (res.map (·.1)).Nodup

theorem stepF_inv (res res' : List (String × CReq)) (r : CReq) (hres : ResCD res ∧ KeysND res)
    (hr : ReqCD r) (h : stepF res r = .ok res') : ResCD res' ∧ KeysND res' := by
  obtain ⟨hcd, hk⟩ := hres
  unfold stepF at h
  split at h
  · rename_i hnone
    simp only [pure, Except.pure, Except.ok.injEq] at h
    subst h
    refine ⟨?_, ?_⟩
    · intro e he
      rcases List.mem_append.1 he with he | he
      · exact hcd e he
      · rw [List.mem_singleton.1 he]; exact hr
    · unfold KeysND
      rw [List.map_append, List.nodup_append]
      refine ⟨hk, by simp, ?_⟩
      intro a ha b hb hab
      simp only [List.map_cons, List.map_nil, List.mem_singleton] at hb
      subst hb
      subst hab
      obtain ⟨v, hv⟩ := dget_of_key res _ ha
      rw [hnone] at hv; cases hv
  · rename_i cur hcur
    have hcm : (r.name, cur) ∈ res := dictGet?_mem_key _ _ _ hcur
    split at h
    · cases h
    · simp only [pure, Except.pure, Except.ok.injEq] at h
      subst h
      refine ⟨?_, SharingProofs.dictSet_nodup _ _ _ hk⟩
      intro e he
      rcases mem_dictSet _ _ _ _ he with he | rfl
      · exact hcd e he
      · intro cs c hcs hc
        simp only at hcs
        have hcur' := hcd _ hcm
        cases hrc : r.consumers with
        | none =>
          rw [hrc] at hcs
          exact hcur' cs c hcs hc
        | some rc =>
          rw [hrc] at hcs
          cases hcc : cur.consumers with
          | none =>
            rw [hcc] at hcs
            cases hcs
            exact hr _ c hrc hc
          | some c0 =>
            rw [hcc] at hcs
            cases hcs
            rcases List.mem_append.1 hc with hc | hc
            · exact hcur' _ c hcc hc
            · exact hr _ c hrc hc

theorem updateResults_inv (res res' : List (String × CReq)) (rs : List CReq)
    (hres : ResCD res ∧ KeysND res) (hrs : ∀ r ∈ rs, ReqCD r) (h : updateResults res rs = .ok res') :
    ResCD res' ∧ KeysND res' := by
  rw [updateResults_eq] at h
  exact GraphFrame.foldlM_inv stepF (fun d => ResCD d ∧ KeysND d) rs res res' hres
    (fun r hr d d' hd hstep => stepF_inv d d' r hd (hrs r hr) hstep) h

theorem sgStep_inv (rx : String → String → Bool) (env : Env) (st : Recipe.State) (s s' : GState)
    (p : Subgraph × Nat) (hs : ResCD s.2 ∧ KeysND s.2) (h : sgStep rx env st s p = .ok s') :
    ResCD s'.2 ∧ KeysND s'.2 := by
  unfold sgStep at h
  refine GraphFrame.foldlM_inv (opStep rx env st p.2 p.1) (fun x : GState => ResCD x.2 ∧ KeysND x.2)
    _ s s' hs ?_ h
  intro q _ x x' hx hstep
  obtain ⟨rs, hr, hu⟩ := opStep_ok rx env st p.2 p.1 x x' q hstep
  exact updateResults_inv _ _ rs hx (opReqs_cd rx env st p.2 p.1 x.1 q rs x'.1 hr) hu

/-- `generate_ok` with the sharing check kept -/
theorem generate_ok_check (rx : String → String → Bool) (env : Env) (st : Recipe.State) (qsvs : Option Qsvs)
    (reqs : List CReq) (h : Mat.generate rx env st qsvs = .ok reqs) :
    ∃ qs res, env.model.subgraphs.zipIdx.foldlM (sgStep rx env st) (qsvs.getD [], []) = .ok (qs, res) ∧
      checkBufferSharing env.model res = .ok () ∧ checkUnreadOwn env.model res = .ok () ∧
      reqs = res.map (·.2) := by
  unfold Mat.generate at h
  simp only [bind, Except.bind, pure, Except.pure, throw, throwThe, MonadExceptOf.throw] at h
  split at h
  · cases h
  split at h
  · cases h
  split at h
  · cases h
  rw [CalibProofs.forIn_eq_foldlM _ (sgStep rx env st)] at h
  · cases hf : List.foldlM (sgStep rx env st) (qsvs.getD [], []) env.model.subgraphs.zipIdx with
    | error e => rw [hf] at h; cases h
    | ok v =>
      rw [hf] at h
      obtain ⟨qs, res⟩ := v
      refine ⟨qs, res, rfl, ?_⟩
      simp only [] at h
      cases hc : checkBufferSharing env.model res with
      | error e => rw [hc] at h; cases h
      | ok u =>
        rw [hc] at h
        simp only [] at h
        cases hc2 : checkUnreadOwn env.model res with
        | error e => rw [hc2] at h; cases h
        | ok u2 =>
          rw [hc2] at h
          simp only [Except.ok.injEq] at h
          exact ⟨rfl, rfl, h.symm⟩
  · intro p s
    obtain ⟨sg, sIdx⟩ := p
    obtain ⟨qs0, res0⟩ := s
    simp only [sgStep]
    rw [CalibProofs.forIn_eq_foldlM _ (opStep rx env st sIdx sg)]
    · simp only [allOps, List.map_cons, List.map_nil, bind, Except.bind, pure, Except.pure]
    · intro q s
      obtain ⟨op, io, opId⟩ := q
      obtain ⟨qs, res⟩ := s
      simp only [opStep, opReqs, keyOf, pure, Except.pure, bind, Except.bind, throw, throwThe,
        MonadExceptOf.throw]
      cases io with
      | some k =>
        simp only []
        cases opScope sg op with
        | error e => rfl
        | ok scope =>
          simp only []
          by_cases h1 : ((Recipe.resolve rx st k scope).1 == Tables.algNoQuantize) = true
          · simp only [if_pos h1]
            cases noQuantOp sg op opId with
            | error e => rfl
            | ok r => simp only []; cases updateResults res r <;> rfl
          · simp only [if_neg h1]
            cases Py.dictGet? Tables.registry (Recipe.resolve rx st k scope).1 with
            | none => rfl
            | some ops =>
              simp only []
              cases Py.dictGet? ops k with
              | none => rfl
              | some fn =>
                simp only []
                cases materializeOp env sg qs
                    { sgIdx := sIdx, op := op, opName := k, opId := opId, cfg := (Recipe.resolve rx st k scope).2 }
                    (Recipe.resolve rx st k scope).1 fn with
                | error e => rfl
                | ok v => obtain ⟨r, qs'⟩ := v; simp only []; cases updateResults res r <;> rfl
      | none =>
        simp only []
        cases env.model.opcodes[op.code]? with
        | none => rfl
        | some code =>
          simp only []
          cases opNameOfCode code with
          | none =>
            simp only []
            cases noQuantOp sg op opId with
            | error e => rfl
            | ok r => simp only []; cases updateResults res r <;> rfl
          | some k =>
            simp only []
            cases opScope sg op with
            | error e => rfl
            | ok scope =>
              simp only []
              by_cases h1 : ((Recipe.resolve rx st k scope).1 == Tables.algNoQuantize) = true
              · simp only [if_pos h1]
                cases noQuantOp sg op opId with
                | error e => rfl
                | ok r => simp only []; cases updateResults res r <;> rfl
              · simp only [if_neg h1]
                cases Py.dictGet? Tables.registry (Recipe.resolve rx st k scope).1 with
                | none => rfl
                | some ops =>
                  simp only []
                  cases Py.dictGet? ops k with
                  | none => rfl
                  | some fn =>
                    simp only []
                    cases materializeOp env sg qs
                        { sgIdx := sIdx, op := op, opName := k, opId := opId, cfg := (Recipe.resolve rx st k scope).2 }
                        (Recipe.resolve rx st k scope).1 fn with
                    | error e => rfl
                    | ok v => obtain ⟨r, qs'⟩ := v; simp only []; cases updateResults res r <;> rfl


/-- **the result dictionary of a successful `generate`** -/
theorem generate_res (rx : String → String → Bool) (env : Env) (st : Recipe.State) (qsvs : Option Qsvs)
    (reqs : List CReq) (hg : GenHyp env st) (h : Mat.generate rx env st qsvs = .ok reqs) :
    ∃ res, reqs = res.map (·.2) ∧ checkBufferSharing env.model res = .ok () ∧
      checkUnreadOwn env.model res = .ok () ∧ Ctx env.model res ∧ ResCD res := by
  obtain ⟨qs, res, hfold, hchk, hown, hreqs⟩ := generate_ok_check rx env st qsvs reqs h
  obtain ⟨hnu, hE⟩ := generate_entryOK rx env st qsvs reqs hg h
  have hinv : ResCD res ∧ KeysND res :=
    GraphFrame.foldlM_inv (sgStep rx env st) (fun x : GState => ResCD x.2 ∧ KeysND x.2) _
      (qsvs.getD [], []) (qs, res) ⟨(by intro e he; cases he), List.nodup_nil⟩
      (fun p _ x x' hx hstep => sgStep_inv rx env st x x' p hx hstep) hfold
  refine ⟨res, hreqs, hchk, hown, ⟨hg.wf, hnu, hg.inputsNotConst, ?_, hinv.2⟩, hinv.1⟩
  -- `EntryOK` of the entries, from `generate_entryOK` (stated on the value list) and distinct keys
  have hfoldE := foldlM_inv_idx (sgStep rx env st) _
    (fun (j : Nat) (x : GState) => ∀ e ∈ x.2, EntryOK env.model (WkAt env.model j (fun _ => False)) e.1 e.2)
    (qsvs.getD [], []) (qs, res) (by intro e he; cases he) ?_ hfold
  · intro e he
    exact (hfoldE e he).mono (fun _ _ => trivial)
  · intro j p s s' hp hP hstep
    rw [List.getElem?_zipIdx] at hp
    cases hsg : env.model.subgraphs[j]? with
    | none => rw [hsg] at hp; cases hp
    | some sg =>
      rw [hsg] at hp
      simp only [Option.map_some, Nat.zero_add, Option.some.injEq] at hp
      subst hp
      exact Pipe.sgStep_inv rx env st hg hnu j sg hsg s s' hP hstep

/-! ## transfer to the generated instructions -/

theorem reqOK_of_ctx {m : Model} {res : List (String × CReq)} (C : Ctx m res) :
    ∀ a ∈ areqsOf res, ReqOK (ptableOf (tblOf res)) m a := by
  refine reqOK_of_entryOK m C.wf C.nu C.inp (res.map (·.2)) ?_
  intro r hr
  obtain ⟨e, he, rfl⟩ := List.mem_map.1 hr
  have hE := C.entries e he
  rw [hE.name]; exact hE

theorem tinstsOK_of_ctx {m : Model} {res : List (String × CReq)} (C : Ctx m res) (tis : List TInsts)
    (hgen : genInsts m (areqsOf res) = .ok tis) :
    ∀ ti ∈ tis, TInstsOK (ptableOf (tblOf res)) m ti :=
  genInsts_ok _ m _ tis C.wf C.nu (reqOK_of_ctx C) hgen

/-- **`ConstData` for the generated instructions** -/
theorem constData_of_cd {m : Model} {res : List (String × CReq)} (C : Ctx m res) (hcd : ResCD res)
    (tis : List TInsts) (hgen : genInsts m (areqsOf res) = .ok tis) :
    SharingE2E.ConstData (ptableOf (tblOf res)) m tis := by
  intro ti hti ins hins hr sg tn c p pi h1 h2 h3 h4 h5
  obtain ⟨sg', hsg', hall⟩ := (tinstsOK_of_ctx C tis hgen ti hti).insts
  rw [h1] at hsg'; cases hsg'
  have hv := (validT_iff _ _).1 (hall ins hins).tvalid
  unfold ValidT at hv
  have hcast : ((ins.tensor.toNat : Nat) : Int) = ins.tensor := by omega
  have hc : isConst m sg (ins.tensor.toNat : Int) = true := isConst_of m sg _ tn c h2 h3
  obtain ⟨e, he, -, cs, c0, x, P, g1, g2, g3, g4, g5, g6⟩ :=
    retyped_req C tis hgen ti.sg ins.tensor.toNat p sg tn h1 h2 hc
      ⟨ti, hti, ins, hins, rfl, hcast.symm, hr, h4⟩
  have hd : hasData P = true := hcd e he cs c0 g1 g2 x P g3 g4 g5
  obtain ⟨hp, hq, -⟩ := List.findIdx?_eq_some_iff_getElem.1 g6
  rw [pinfo_ptableOf, List.getElem?_eq_getElem hp] at h5
  simp only [Option.map_some, Option.some.injEq] at h5
  subst h5
  rw [hasData_pinfoOf, eqv_hasData _ _ hq]
  exact hd

/-! ## end to end -/

/-- what a successful `quantizePure` run consists of, with the facts about the generated
    instructions that the graph-stage theorems need -/
theorem quantizePure_stages (rx : String → String → Bool) (env : Env) (st : Recipe.State) (qsvs : Option Qsvs)
    (m' : Model) (tbl : List Param) (hnf : PipelineWF.NF env st)
    (h : quantizePure rx env st qsvs = .ok (m', tbl)) :
    ∃ (res : List (String × CReq)) (tis : List TInsts),
      checkBufferSharing env.model res = .ok () ∧ checkUnreadOwn env.model res = .ok () ∧
      Ctx env.model res ∧ ResCD res ∧ tbl = tblOf res ∧
      genInsts env.model (areqsOf res) = .ok tis ∧
      Perform.transformGraph (ptableOf tbl) env.model tis = .ok m' ∧
      (∀ ti ∈ tis, TInstsOK (ptableOf tbl) env.model ti) ∧
      SharingE2E.ConstData (ptableOf tbl) env.model tis := by
  obtain ⟨reqs, hgen, htbl, hmod⟩ := PipelineWF.quantizePure_ok rx env st qsvs m' tbl h
  obtain ⟨res, hreqs, hchk, hown, C, hcd⟩ := generate_res rx env st qsvs reqs hnf.genHyp hgen
  subst hreqs
  unfold Perform.modify at hmod
  obtain ⟨tis, htis, htg⟩ := bind_ok _ _ _ hmod
  subst htbl
  exact ⟨res, tis, hchk, hown, C, hcd, rfl, htis, htg, tinstsOK_of_ctx C tis htis, constData_of_cd C hcd tis htis⟩

/-- **end to end**: for a model in normal form, after a successful `quantize()` every original constant
    buffer is untouched (and so are all tensors that reference it), or rewritten with ONE parameter by
    which every tensor that references it is typed -/
theorem quantize_shared (rx : String → String → Bool) (env : Env) (st : Recipe.State) (qsvs : Option Qsvs)
    (m' : Model) (tbl : List Param) (hnf : PipelineWF.NF env st)
    (h : quantizePure rx env st qsvs = .ok (m', tbl)) :
    ∃ tis : List TInsts, SharingE2E.SharersAgree env.model tis ∧
      ∀ b k, env.model.buffers[b]? = some (some (.inl k)) →
      (m'.buffers[b]? = some (some (.inl k)) ∧
        (∀ s i p, SharingE2E.Referent env.model b s i → ¬ SharingE2E.Retyped tis s i p) ∧
        ∀ (s : Nat) (sg' : Subgraph) (i : Nat) (tn' : Tensor), m'.subgraphs[s]? = some sg' →
          sg'.tensors[i]? = some tn' → tn'.buffer = b →
          ∃ sg, env.model.subgraphs[s]? = some sg ∧ sg.tensors[i]? = some tn') ∨
      (∃ p pi, pinfo (ptableOf tbl) p = some pi ∧ pi.hasData = true ∧
        m'.buffers[b]? = some (some (.inr p)) ∧
        (∃ s i, SharingE2E.Referent env.model b s i ∧ SharingE2E.Retyped tis s i p) ∧
        ∀ (s : Nat) (sg' : Subgraph) (i : Nat) (tn' : Tensor), m'.subgraphs[s]? = some sg' →
          sg'.tensors[i]? = some tn' → tn'.buffer = b →
          SharingE2E.Referent env.model b s i ∧ SharingE2E.Retyped tis s i p ∧
            SharingE2E.TypedBy (ptableOf tbl) p tn') := by
  obtain ⟨res, tis, hchk, hown, C, hcd, htbl, hgen, htg, hok, hcdI⟩ :=
    quantizePure_stages rx env st qsvs m' tbl hnf h
  have hsa := sharersAgree_of_check C hchk hown tis hgen
  exact ⟨tis, hsa, fun b k hb =>
    SharingE2E.buffer_agrees _ env.model m' tis hnf.wf hnf.tagged hok hcdI hsa htg b k hb⟩

/-! ## `PipelineWF.NF` for closed models made of bias-free FULLY_CONNECTED operators -/

/-- every operator is `FULLY_CONNECTED(a0, a1, -1) → o` with two different operands -/
def fcOnlyB (m : Model) : Bool :=
  m.subgraphs.all fun sg => sg.ops.all fun op =>
    m.opcodes[op.code]? == some 9 &&
    (match op.inputs, op.outputs with
     | [a0, a1, b], [o] => a0 != a1 && a0 != -1 && a1 != -1 && b == -1 && o != -1
     | _, _ => false)

def noBlockwiseB (st : Recipe.State) : Bool :=
  st.all fun e => e.2.all fun r =>
    match r.cfg.weight with
    | some w => w.gran != Gran.blockwise
    | none => true

def inputsNotConstB (m : Model) : Bool :=
  m.subgraphs.all fun sg => sg.inputs.all fun t => !isConst m sg t

theorem nf_of_fcOnly (env : Env) (st : Recipe.State) (hwf : WF.modelOK env.model = true)
    (htag : Skeleton.origTagged env.model = true) (hnb : noBlockwiseB st = true)
    (hin : inputsNotConstB env.model = true) (hfc : fcOnlyB env.model = true) : PipelineWF.NF env st := by
  have hop : ∀ sg ∈ env.model.subgraphs, ∀ op ∈ sg.ops, ∀ k, OpNamed env.model op k →
      k = "FULLY_CONNECTED" ∧ ∃ a0 a1 o, op.inputs = [a0, a1, -1] ∧ op.outputs = [o] ∧ a0 ≠ a1 ∧
        a0 ≠ -1 ∧ a1 ≠ -1 ∧ o ≠ -1 := by
    intro sg hsg op hop k ⟨code, hc, hn⟩
    unfold fcOnlyB at hfc
    rw [List.all_eq_true] at hfc
    have h1 := hfc sg hsg
    rw [List.all_eq_true] at h1
    have h2 := h1 op hop
    simp only [Bool.and_eq_true, beq_iff_eq] at h2
    obtain ⟨h3, h4⟩ := h2
    rw [h3] at hc; cases hc
    have : opNameOfCode 9 = some "FULLY_CONNECTED" := by decide
    rw [this] at hn; cases hn
    refine ⟨rfl, ?_⟩
    split at h4
    · rename_i a0 a1 b o hi ho
      simp only [Bool.and_eq_true, bne_iff_ne, ne_eq, beq_iff_eq] at h4
      obtain ⟨⟨⟨⟨g1, g2⟩, g3⟩, g4⟩, g5⟩ := h4
      subst g4
      exact ⟨a0, a1, o, hi, ho, g1, g2, g3, g5⟩
    · cases h4
  refine ⟨hwf, htag, ?_, ?_, ?_, ?_, ?_⟩
  · intro e he r hr w hw
    unfold noBlockwiseB at hnb
    rw [List.all_eq_true] at hnb
    have h1 := hnb e he
    rw [List.all_eq_true] at h1
    have h2 := h1 r hr
    rw [hw] at h2
    simpa using h2
  · intro sg hsg t ht
    unfold inputsNotConstB at hin
    rw [List.all_eq_true] at hin
    have h1 := hin sg hsg
    rw [List.all_eq_true] at h1
    simpa using h1 t ht
  · intro sg hsg op hopm k hk i j a hi hj hne
    obtain ⟨rfl, a0, a1, o, e1, -, g1, g2, g3, -⟩ := hop sg hsg op hopm k hk
    rw [e1] at hi hj
    have key : ∀ (n : Nat), ([a0, a1, -1] : List Int)[n]? = some a → (n = 0 ∧ a = a0) ∨ (n = 1 ∧ a = a1) := by
      intro n hn
      rcases n with _ | _ | _ | n
      · simp at hn; exact .inl ⟨rfl, hn.symm⟩
      · simp at hn; exact .inr ⟨rfl, hn.symm⟩
      · simp at hn; exact absurd hn.symm hne
      · simp at hn
    rcases key i hi with ⟨rfl, ha⟩ | ⟨rfl, ha⟩ <;> rcases key j hj with ⟨rfl, hb⟩ | ⟨rfl, hb⟩
    · rfl
    · exact absurd (ha.symm.trans hb) g1
    · exact absurd (hb.symm.trans ha) g1
    · rfl
  · intro sg hsg op hopm k hk b a hb h1 h0 hne
    obtain ⟨rfl, a0, a1, o, e1, -, g1, g2, g3, -⟩ := hop sg hsg op hopm k hk
    have hd : dataSlot "FULLY_CONNECTED" = 0 := by decide
    rw [hd, e1] at h0
    rw [e1] at h1
    simp at h0 h1
    exact absurd (h0.trans h1.symm) g1
  · intro sg hsg op hopm k hk b hb
    obtain ⟨rfl, a0, a1, o, e1, e2, g1, g2, g3, g4⟩ := hop sg hsg op hopm k hk
    have : biasSlot "FULLY_CONNECTED" = some 2 := by decide
    rw [this] at hb; cases hb
    rw [e1, e2]
    refine ⟨?_, by simpa using g4⟩
    intro i hi
    rcases i with _ | _ | i
    · simpa using g2
    · simpa using g3
    · omega

end SharingData
