import QProofs.SkeletonProof
import QProofs.StepTypes
/-!
# Global wiring / typing of the transformation performer (C03 for the whole `transform_graph`)

`StepTypes` / `QProps/C03b` give the exact postcondition of ONE transformation.  Here these are
carried through the whole run of `transformGraph`:

* `Step`: everything one successful `applySingle` does, in terms of the ORIGINAL operator ids
  (tensor list equation, position of every original operator and its rewiring, op-id map);
* `Base`: the invariants that hold at every point of the run (`GraphInv.Inv`, `SkeletonProof.SkAll`
  and `WSg`: the operator at position `origMap[k]` carries the tag `orig = some k`; buffer indices of
  the original tensors never change);
* `driver`: a three-phase invariant rule (before / at / after a distinguished instruction);
* `Reads`, `HasRec`: the two facts that are carried (which tensor an original operator reads in given
  operand slots; the record of one tensor), with their preservation lemmas;
* `addQuant_wired`, `addDequant_typed`, `addDequant_wired`, `quantTensor_typed`: the global theorems.
-/
open Graph Perform GraphStep GraphFrame GraphInv Skeleton SkeletonProof StepTypes

namespace Wiring

/-! ## indexed loop invariants -/

/-- invariant rule for a `for` loop in the `Except` monad, the invariant knows how many elements
    have been processed (the body never `break`s) -/
theorem forIn_idx_inv {α β} (f : α → β → PyM (ForInStep β)) (P : Nat → β → Prop) :
    ∀ (l : List α) (k : Nat) (init r : β), P k init →
      (∀ (i : Nat) x s s', l[i]? = some x → P (k + i) s → f x s = .ok s' →
        ∃ b, s' = .yield b ∧ P (k + i + 1) b) →
      forIn l init f = .ok r → P (k + l.length) r := by
  intro l
  induction l with
  | nil =>
    intro k init r hP _ h
    simp only [List.forIn_nil, pure, Except.pure, Except.ok.injEq] at h
    subst h; exact hP
  | cons a as ih =>
    intro k init r hP hstep h
    simp only [List.forIn_cons, bind, Except.bind] at h
    cases hf : f a init with
    | error e => simp [hf] at h
    | ok s' =>
      obtain ⟨b, rfl, hb⟩ := hstep 0 a init s' rfl hP hf
      simp only [hf] at h
      have := ih (k + 1) b r hb (fun i x s s'' hi hs hfx => by
        have := hstep (i + 1) x s s'' (by simpa using hi)
          (by rw [show k + (i + 1) = k + 1 + i by omega]; exact hs) hfx
        rwa [show k + (i + 1) + 1 = k + 1 + i + 1 by omega] at this) h
      rw [List.length_cons, show k + (as.length + 1) = k + 1 + as.length by omega]
      exact this

/-- indexed invariant rule for `foldlM` in the `Except` monad -/
theorem foldlM_idx_inv {α β} (f : β → α → PyM β) (P : Nat → β → Prop) :
    ∀ (l : List α) (k : Nat) (init r : β), P k init →
      (∀ (i : Nat) x s s', l[i]? = some x → P (k + i) s → f s x = .ok s' → P (k + i + 1) s') →
      l.foldlM f init = .ok r → P (k + l.length) r := by
  intro l
  induction l with
  | nil =>
    intro k init r hP _ h
    simp only [List.foldlM_nil, pure, Except.pure, Except.ok.injEq] at h
    subst h; exact hP
  | cons a as ih =>
    intro k init r hP hstep h
    simp only [List.foldlM_cons, bind, Except.bind] at h
    cases hf : f init a with
    | error e => simp [hf] at h
    | ok s' =>
      simp only [hf] at h
      have hb := hstep 0 a init s' rfl hP hf
      have := ih (k + 1) s' r hb (fun i x s s'' hi hs hfx => by
        have := hstep (i + 1) x s s'' (by simpa using hi)
          (by rw [show k + (i + 1) = k + 1 + i by omega]; exact hs) hfx
        rwa [show k + (i + 1) + 1 = k + 1 + i + 1 by omega] at this) h
      rw [List.length_cons, show k + (as.length + 1) = k + 1 + as.length by omega]
      exact this

theorem mapM_ok' {α β} (f : α → PyM β) : ∀ (l : List α) (r : List β), l.mapM f = .ok r →
    ∀ x ∈ l, ∃ y ∈ r, f x = .ok y := by
  intro l
  induction l with
  | nil =>
    intro r _ x hx
    simp at hx
  | cons a as ih =>
    intro r h x hx
    simp only [List.mapM_cons, bind, Except.bind, pure, Except.pure] at h
    cases ha : f a with
    | error e => simp [ha] at h
    | ok b =>
      simp only [ha] at h
      cases has : as.mapM f with
      | error e => simp [has] at h
      | ok bs =>
        simp only [has, Except.ok.injEq] at h
        subst h
        rcases List.mem_cons.1 hx with rfl | hx
        · exact ⟨b, List.mem_cons_self, ha⟩
        · obtain ⟨y, hy, hfy⟩ := ih bs has x hx
          exact ⟨y, List.mem_cons_of_mem _ hy, hfy⟩

/-! ## kinds of transformations -/

/-- the transformation writes type / parameters into the record of ITS tensor -/
def retypes : Xf → Bool
  | .quantTensor => true
  | .addDequant => true
  | _ => false

/-- the transformation inserts an operator (and appends a tensor) -/
def addsOp : Xf → Bool
  | .addQuant => true
  | .addDequant => true
  | _ => false

/-- the float32 record appended for the new tensor (before it is possibly retyped) -/
def fresh (nm : String) (tn : Tensor) : Tensor :=
  { name := nm, dtype := Tables.ttFloat32, shape := tn.shape, buffer := 0 }

/-! ## a successful transformation had a usable parameter -/

theorem quantizeTensor_params (pt : PTable) (bufs : List BufContent) (sg : Subgraph) (t : Int)
    (param : Option PId) (r : List BufContent × Subgraph)
    (h : quantizeTensor pt bufs sg t param = .ok r) :
    ∃ p pi ty, param = some p ∧ pinfo pt p = some pi ∧ dtypeOf pi = .ok ty := by
  unfold quantizeTensor at h
  simp only [bind, Except.bind] at h
  cases hg : getTensor sg t with
  | error e => simp [hg] at h
  | ok tn =>
    simp only [hg] at h
    cases param with
    | none => simp [throw, throwThe, MonadExceptOf.throw] at h
    | some p =>
      simp only at h
      cases hp : pinfo pt p with
      | none => simp [hp, throw, throwThe, MonadExceptOf.throw] at h
      | some pi =>
        simp only [hp] at h
        have hthrow : (throw PyErr.indexError : PyM (List BufContent)) = Except.error PyErr.indexError := rfl
        cases hd : dtypeOf pi with
        | error e =>
          simp only [hd, pure, Except.pure, hthrow] at h
          by_cases hc : (decide (tn.buffer ≠ 0) && pi.hasData) = true
          · by_cases hlt : tn.buffer < bufs.length <;> simp only [hc, hlt, if_true, if_false] at h <;> cases h
          · simp only [hc] at h; cases h
        | ok ty => exact ⟨p, pi, ty, rfl, hp, hd⟩

theorem runXf_params (pt : PTable) (m m' : Model) (sgi : Nat) (sg : Subgraph) (x : Xf) (inp : TIn)
    (info : TInfoOut) (hsg : m.subgraphs[sgi]? = some sg)
    (h : runXf pt m sgi x inp = .ok (m', info)) :
    ∃ p pi ty, inp.param = some p ∧ pinfo pt p = some pi ∧ dtypeOf pi = .ok ty := by
  unfold runXf at h
  cases x <;> simp only at h
  · cases h
  · unfold insertQuant at h
    simp only [hsg, bind, Except.bind, pure, Except.pure] at h
    cases hg : getTensor sg inp.tensor with
    | error e => simp [hg] at h
    | ok tn =>
      simp only [hg] at h
      split at h
      · simp at h
      · rename_i r hq
        exact quantizeTensor_params _ _ _ _ _ _ hq
  · unfold insertDequant at h
    simp only [hsg, bind, Except.bind, pure, Except.pure] at h
    cases hg : getTensor sg inp.tensor with
    | error e => simp [hg] at h
    | ok tn =>
      simp only [hg] at h
      split at h
      · simp at h
      · rename_i r hq
        exact quantizeTensor_params _ _ _ _ _ _ hq
  · unfold quantizeOnly at h
    simp only [hsg, bind, Except.bind, pure, Except.pure] at h
    cases hq : quantizeTensor pt m.buffers sg inp.tensor inp.param with
    | error e => simp [hq] at h
    | ok r => exact quantizeTensor_params _ _ _ _ _ _ hq
  · cases h

/-! ## exact effect of one registered transformation, uniformly in its kind -/

theorem runXf_eff (pt : PTable) (m m' : Model) (sgi : Nat) (sg sgA : Subgraph) (x : Xf) (inp : TIn)
    (info : TInfoOut) (hsg : m.subgraphs[sgi]? = some sg) (hinp : InpOK pt m sg inp)
    (h : runXf pt m sgi x inp = .ok (m', info)) (hA : m'.subgraphs[sgi]? = some sgA) :
    ∃ p pi ty tn nm, inp.param = some p ∧ pinfo pt p = some pi ∧ dtypeOf pi = .ok ty ∧
      sg.tensors[inp.tensor.toNat]? = some tn ∧
      sgA.tensors =
        (if retypes x then sg.tensors.set inp.tensor.toNat (retype pi p ty tn) else sg.tensors) ++
        (if addsOp x then [if x = .addQuant then retype pi p ty (fresh nm tn) else fresh nm tn] else []) ∧
      info.added = (if addsOp x then 1 else 0) ∧ 0 ≤ info.opId ∧
      ∀ (j : Nat) o, sg.ops[j]? = some o →
        sgA.ops[if addsOp x then (if j < info.opId.toNat then j else j + 1) else j]? =
          some (if addsOp x = true ∧ (j : Int) ∈ inp.consumers
                then rew inp.tensor (sg.tensors.length : Int) o else o) := by
  obtain ⟨p, pi, ty, hp, hpi, hty⟩ := runXf_params pt m m' sgi sg x inp info hsg h
  have hv := (validT_iff _ _).1 hinp.tvalid
  unfold runXf at h
  cases x <;> simp only at h
  · cases h
  · -- addQuant
    obtain ⟨tn, ops2, hget, hrw, hT, hO, -, -, -, -, -, -, i1, i2, -, -, i5, -⟩ :=
      insertQuant_exact pt m m' sgi sg sgA inp info p pi ty hsg hA hinp hp hpi hty h
    obtain ⟨-, -, s3⟩ := splice_get sg.ops ops2 _ _ _ info.opId.toNat
      { code := (addOpCode m.opcodes Tables.opQuantize).2, inputs := [inp.tensor],
        outputs := [(sg.tensors.length : Int)] } hrw (by omega)
    refine ⟨p, pi, ty, tn, uniqueName (sg.tensors.map (·.name)) (tn.name ++ "_quantized"),
      hp, hpi, hty, hget, ?_, ?_, i1, ?_⟩
    · simp only [retypes, addsOp, Bool.false_eq_true, if_false, if_true]
      exact hT
    · simp only [addsOp, if_true]; exact i5
    · intro j o hj
      simp only [addsOp, if_true, true_and]
      rw [hO]
      exact s3 j o hj
  · -- addDequant
    obtain ⟨tn, ops2, hget, hrw, hT, hO, -, -, -, -, -, -, i1, i2, -, -, i5, -⟩ :=
      insertDequant_exact pt m m' sgi sg sgA inp info p pi ty hsg hA hinp hp hpi hty h
    obtain ⟨-, -, s3⟩ := splice_get sg.ops ops2 _ _ _ info.opId.toNat
      { code := (addOpCode m.opcodes Tables.opDequantize).2, inputs := [inp.tensor],
        outputs := [(sg.tensors.length : Int)] } hrw (by omega)
    refine ⟨p, pi, ty, tn, uniqueName (sg.tensors.map (·.name)) (tn.name ++ "_dequant"),
      hp, hpi, hty, hget, ?_, ?_, i1, ?_⟩
    · simp only [retypes, addsOp, if_true, reduceCtorEq, if_false]
      exact hT
    · simp only [addsOp, if_true]; exact i5
    · intro j o hj
      simp only [addsOp, if_true, true_and]
      rw [hO]
      exact s3 j o hj
  · -- quantTensor
    obtain ⟨tn, hget, rfl, -, -, -, -, rfl⟩ :=
      quantizeOnly_exact pt m m' sgi sg sgA inp info p pi ty hsg hA hp hpi hty hv.1 h
    refine ⟨p, pi, ty, tn, "", hp, hpi, hty, hget, ?_, ?_, Int.le_refl _, ?_⟩
    · simp only [retypes, addsOp, if_true, Bool.false_eq_true, if_false, List.append_nil]
    · simp only [addsOp, Bool.false_eq_true, if_false]
    · intro j o hj
      simp only [addsOp, Bool.false_eq_true, if_false, false_and]
      exact hj
  · cases h

/-! ## the invariants that hold at every point of the run -/

/-- the operator at position `origMap[k]` is the ORIGINAL operator `k` (it carries the tag);
    buffer indices of the original tensors never change -/
structure WSg (sg0 sg : Subgraph) (om : List Int) : Prop where
  pos : ∀ (k : Nat) (a : Int), om[k]? = some a → ∃ o, sg.ops[a.toNat]? = some o ∧ o.orig = some k
  buf : ∀ (i : Nat) tn0, sg0.tensors[i]? = some tn0 →
    ∃ tn, sg.tensors[i]? = some tn ∧ tn.buffer = tn0.buffer

structure Base (m0 : Model) (st : PState) : Prop where
  inv : Inv m0 st
  sk : SkAll m0 st.model
  w : ∀ (s : Nat) (sg0 sg : Subgraph) (om : List Int), m0.subgraphs[s]? = some sg0 →
    st.model.subgraphs[s]? = some sg → st.origMap[s]? = some om → WSg sg0 sg om

/-- the initial performer state -/
def st0 (m : Model) : PState :=
  { model := m,
    origMap := m.subgraphs.map (fun sg => (List.range sg.ops.length).map (fun (i : Nat) => (i : Int))),
    addedMap := m.subgraphs.map (fun _ => []) }

theorem origTagged_get (m : Model) (h : origTagged m = true) (s : Nat) (sg : Subgraph)
    (hsg : m.subgraphs[s]? = some sg) (k : Nat) (o : Op) (ho : sg.ops[k]? = some o) :
    o.orig = some k := by
  unfold origTagged at h
  rw [List.all_eq_true] at h
  have h1 := h sg (List.mem_of_getElem? hsg)
  rw [List.all_eq_true] at h1
  have h2 := h1 (o, k) (List.mem_zipIdx_iff_getElem?.2 ho)
  simpa using h2

theorem st0_map (m : Model) (s : Nat) (sg : Subgraph) (om : List Int)
    (hsg : m.subgraphs[s]? = some sg) (hom : (st0 m).origMap[s]? = some om) (k : Nat) (a : Int)
    (ha : om[k]? = some a) : k < sg.ops.length ∧ a = k := by
  simp only [st0, List.getElem?_map, hsg, Option.map_some, Option.some.injEq] at hom
  subst hom
  exact range_map_get _ _ _ ha

theorem base_init (m : Model) (hwf : WF.modelOK m = true) (htag : origTagged m = true) :
    Base m (st0 m) := by
  refine ⟨inv_init m hwf, skAll_init m htag, ?_⟩
  intro s sg0 sg om h0 h1 h2
  have h1' : m.subgraphs[s]? = some sg := h1
  rw [h0] at h1'; cases h1'
  refine ⟨?_, fun i tn0 h => ⟨tn0, h, rfl⟩⟩
  intro k a ha
  obtain ⟨hk, rfl⟩ := st0_map m s sg0 om h0 h2 k a ha
  refine ⟨sg0.ops[k], by simp, ?_⟩
  exact origTagged_get m htag s sg0 h0 k _ (List.getElem?_eq_getElem hk)

/-- where the ORIGINAL operator `k` sits now -/
theorem Base.opAt {m0 : Model} {st : PState} (B : Base m0 st) (s : Nat) (sg0 sg : Subgraph)
    (om : List Int) (h0 : m0.subgraphs[s]? = some sg0) (h1 : st.model.subgraphs[s]? = some sg)
    (h2 : st.origMap[s]? = some om) (k : Nat) (a : Int) (ha : om[k]? = some a) :
    0 ≤ a ∧ ∃ o, sg.ops[a.toNat]? = some o ∧ o.orig = some k :=
  ⟨((B.inv.sg s sg0 sg om h0 h1 h2).pos k a ha).1, (B.w s sg0 sg om h0 h1 h2).pos k a ha⟩

/-- the current subgraph / op-id map of an original subgraph exist -/
theorem Base.cur {m0 : Model} {st : PState} (B : Base m0 st) (s : Nat) (sg0 : Subgraph)
    (h0 : m0.subgraphs[s]? = some sg0) :
    ∃ sg om, st.model.subgraphs[s]? = some sg ∧ st.origMap[s]? = some om ∧
      om.length = sg0.ops.length := by
  have hlt : s < m0.subgraphs.length := (List.getElem?_eq_some_iff.1 h0).1
  obtain ⟨sg, h1⟩ : ∃ sg, st.model.subgraphs[s]? = some sg :=
    ⟨_, List.getElem?_eq_getElem (by rw [B.inv.nsg]; exact hlt)⟩
  obtain ⟨om, h2⟩ : ∃ om, st.origMap[s]? = some om :=
    ⟨_, List.getElem?_eq_getElem (by rw [B.inv.nom]; exact hlt)⟩
  exact ⟨sg, om, h1, h2, (B.inv.sg s sg0 _ _ h0 h1 h2).len⟩

/-! ## one performer step -/

/-- everything one successful `applySingle` of instruction `ins` on subgraph `s` does -/
structure Step (pt : PTable) (m0 : Model) (s : Nat) (ins : Inst) (st st' : PState) : Prop where
  base : Base m0 st
  base' : Base m0 st'
  others : ∀ s', s' ≠ s → st'.model.subgraphs[s']? = st.model.subgraphs[s']? ∧
    st'.origMap[s']? = st.origMap[s']?
  eff : ∃ (sg0 sg sg' : Subgraph) (om om' cons : List Int) (p : PId) (pi : PInfo) (ty : Nat)
      (tn : Tensor) (nm : String),
    m0.subgraphs[s]? = some sg0 ∧ st.model.subgraphs[s]? = some sg ∧
    st'.model.subgraphs[s]? = some sg' ∧ st.origMap[s]? = some om ∧ st'.origMap[s]? = some om' ∧
    om'.length = om.length ∧ InstOK pt m0 sg0 ins ∧
    ins.param = some p ∧ pinfo pt p = some pi ∧ dtypeOf pi = .ok ty ∧
    sg.tensors[ins.tensor.toNat]? = some tn ∧
    sg'.tensors =
      (if retypes ins.xf then sg.tensors.set ins.tensor.toNat (retype pi p ty tn) else sg.tensors) ++
      (if addsOp ins.xf then [if ins.xf = .addQuant then retype pi p ty (fresh nm tn) else fresh nm tn]
       else []) ∧
    (∀ a ∈ cons, 0 ≤ a → ∃ c ∈ ins.consumers, 0 ≤ c ∧ om[c.toNat]? = some a) ∧
    (∀ c ∈ ins.consumers, 0 ≤ c → ∃ a ∈ cons, om[c.toNat]? = some a) ∧
    (∀ (k : Nat) (a : Int) (o : Op), om[k]? = some a → sg.ops[a.toNat]? = some o →
      ∃ a', om'[k]? = some a' ∧
        sg'.ops[a'.toNat]? = some (if addsOp ins.xf = true ∧ a ∈ cons
          then rew ins.tensor (sg.tensors.length : Int) o else o))

theorem rew_orig (t n : Int) (o : Op) : (rew t n o).orig = o.orig := rfl

theorem applySingle_step (pt : PTable) (m0 : Model) (st st' : PState) (ti ti' : TInsts) (idx : Nat)
    (sg0 : Subgraph) (ins : Inst) (hwf0 : WF.modelOK m0 = true)
    (hb : Base m0 st) (hsg0 : m0.subgraphs[ti.sg]? = some sg0) (hins : ti.insts[idx]? = some ins)
    (hok : InstOK pt m0 sg0 ins) (hnc : NoChain ti.insts)
    (h : applySingle pt st ti idx = .ok (st', ti')) : Step pt m0 ti.sg ins st st' ∧ ti' = ti := by
  obtain ⟨hinv', hti'⟩ := applySingle_inv pt m0 st st' ti ti' idx sg0 ins hb.inv hsg0 hins hok hnc h
  have hsk' := applySingle_sk pt m0 st st' ti ti' idx sg0 ins hwf0 hb.inv hb.sk hsg0 hins hok h
  refine ⟨?_, hti'⟩
  have hlt : ti.sg < m0.subgraphs.length := (List.getElem?_eq_some_iff.1 hsg0).1
  obtain ⟨om, hom⟩ : ∃ om, st.origMap[ti.sg]? = some om :=
    ⟨_, List.getElem?_eq_getElem (by rw [hb.inv.nom]; exact hlt)⟩
  obtain ⟨am, ham⟩ : ∃ am, st.addedMap[ti.sg]? = some am :=
    ⟨_, List.getElem?_eq_getElem (by rw [hb.inv.nam]; exact hlt)⟩
  obtain ⟨sgc, hsgc⟩ : ∃ sgc, st.model.subgraphs[ti.sg]? = some sgc :=
    ⟨_, List.getElem?_eq_getElem (by rw [hb.inv.nsg]; exact hlt)⟩
  have I := hb.inv.sg _ _ _ _ hsg0 hsgc hom
  have W := hb.w _ _ _ _ hsg0 hsgc hom
  obtain ⟨producer, consumers, m', info, sgAfter, am', newProd, hprod, hcons, hrun, hsa, rfl, -⟩ :=
    applySingle_spec pt st st' ti ti' idx ins om am sgc hins hom ham hsgc h
  have hinp := inpOK_of_inv pt m0 sg0 st.model sgc om am ins producer consumers I hok hprod hcons
  obtain ⟨-, ⟨sg', F⟩, -⟩ := runXf_ok pt st.model m' ti.sg sgc ins.xf _ info hsgc hb.inv.wf hinp hrun
  have hlt' : ti.sg < st.model.subgraphs.length := by rw [hb.inv.nsg]; exact hlt
  have hsg' : sgAfter = sg' := by
    rw [F.subs, List.getElem?_set_self hlt'] at hsa
    cases hsa; rfl
  subst hsg'
  obtain ⟨p, pi, ty, tn, nm, e1, e2, e3, e4, e5, eadd, eid, eops⟩ :=
    runXf_eff pt st.model m' ti.sg sgc sgAfter ins.xf _ info hsgc hinp hrun hsa
  have hom' : (st.origMap.set ti.sg (shiftMap om info.opId info.added))[ti.sg]? =
      some (shiftMap om info.opId info.added) :=
    List.getElem?_set_self (by rw [hb.inv.nom]; exact hlt)
  -- position of every original operator after the step
  have hposn : ∀ (k : Nat) (a : Int) (o : Op), om[k]? = some a → sgc.ops[a.toNat]? = some o →
      ∃ a', (shiftMap om info.opId info.added)[k]? = some a' ∧
        sgAfter.ops[a'.toNat]? = some (if addsOp ins.xf = true ∧ a ∈ consumers
          then rew ins.tensor (sgc.tensors.length : Int) o else o) := by
    intro k a o hk ho
    have ha0 := (I.pos k a hk).1
    refine ⟨_, shiftMap_get om info.opId info.added I.mono k a hk, ?_⟩
    have hcast : ((a.toNat : Nat) : Int) = a := by omega
    have := eops a.toNat o ho
    rw [hcast] at this
    rw [← this]
    congr 1
    rw [eadd]
    cases hao : addsOp ins.xf
    · simp only [Bool.false_eq_true, if_false]
      split <;> omega
    · simp only [if_true]
      split <;> split <;> omega
  have hothers : ∀ s', s' ≠ ti.sg → m'.subgraphs[s']? = st.model.subgraphs[s']? ∧
      (st.origMap.set ti.sg (shiftMap om info.opId info.added))[s']? = st.origMap[s']? := by
    intro s' hs
    exact ⟨by rw [F.subs, List.getElem?_set_ne (fun e => hs e.symm)],
      List.getElem?_set_ne (fun e => hs e.symm)⟩
  refine ⟨hb, ⟨hinv', hsk', ?_⟩, hothers, ?_⟩
  · -- `WSg` after the step
    intro s sg0s sgs oms h0 h1 h2
    by_cases hs : s = ti.sg
    · subst hs
      rw [hsg0] at h0; cases h0
      have h1' : m'.subgraphs[ti.sg]? = some sgs := h1
      rw [hsa] at h1'; cases h1'
      have h2' : (st.origMap.set ti.sg (shiftMap om info.opId info.added))[ti.sg]? = some oms := h2
      rw [hom'] at h2'; cases h2'
      constructor
      · intro k a' ha'
        have hk : k < om.length := by
          rw [← shiftMap_length om info.opId info.added]; exact (List.getElem?_eq_some_iff.1 ha').1
        obtain ⟨o, ho, horig⟩ := W.pos k om[k] (List.getElem?_eq_getElem hk)
        obtain ⟨a'', h3, h4⟩ := hposn k om[k] o (List.getElem?_eq_getElem hk) ho
        rw [ha'] at h3; cases h3
        refine ⟨_, h4, ?_⟩
        split
        · exact horig
        · exact horig
      · intro i tn0 hi
        obtain ⟨tnc, hc1, hc2⟩ := W.buf i tn0 hi
        have hil : i < sgc.tensors.length := (List.getElem?_eq_some_iff.1 hc1).1
        have := F.tbuf i hil
        rw [hc1] at this
        cases hA : sgAfter.tensors[i]? with
        | none => simp [hA] at this
        | some tnA =>
          simp only [hA, Option.map_some, Option.some.injEq] at this
          exact ⟨tnA, rfl, this.trans hc2⟩
    · obtain ⟨g1, g2⟩ := hothers s hs
      have h1' : m'.subgraphs[s]? = some sgs := h1
      rw [g1] at h1'
      have h2' : (st.origMap.set ti.sg (shiftMap om info.opId info.added))[s]? = some oms := h2
      rw [g2] at h2'
      exact hb.w s sg0s sgs oms h0 h1' h2'
  · refine ⟨sg0, sgc, sgAfter, om, _, consumers, p, pi, ty, tn, nm, hsg0, hsgc, hsa, hom, hom',
      shiftMap_length _ _ _, hok, e1, e2, e3, e4, e5, ?_, ?_, hposn⟩
    · intro a ha ha0
      obtain ⟨c, hc, hfc⟩ := mapM_ok _ _ _ hcons a ha
      by_cases hc0 : c < 0
      · rw [if_pos hc0] at hfc
        simp only [pure, Except.pure, Except.ok.injEq] at hfc
        omega
      · rw [if_neg hc0] at hfc
        exact ⟨c, hc, by omega, index_ok _ _ _ (by omega) hfc⟩
    · intro c hc hc0
      obtain ⟨a, ha, hfa⟩ := mapM_ok' _ _ _ hcons c hc
      rw [if_neg (by omega)] at hfa
      exact ⟨a, ha, index_ok _ _ _ hc0 hfa⟩

/-! ## the loops -/

/-- all instructions of one `ti`, with an invariant that knows the instruction index -/
theorem applyAll_idx (pt : PTable) (m0 : Model) (st st' : PState) (ti : TInsts)
    (hwf0 : WF.modelOK m0 = true) (hok : TInstsOK pt m0 ti) (Q : Nat → PState → Prop)
    (hb : Base m0 st) (h0 : Q 0 st)
    (hstep : ∀ (idx : Nat) (ins : Inst) (s s' : PState), ti.insts[idx]? = some ins →
      isInsertion ins.xf = true → Step pt m0 ti.sg ins s s' → Q idx s → Q (idx + 1) s')
    (hskip : ∀ (idx : Nat) (ins : Inst) (s : PState), ti.insts[idx]? = some ins →
      isInsertion ins.xf = false → Q idx s → Q (idx + 1) s)
    (h : applyAll pt st ti = .ok st') : Base m0 st' ∧ Q ti.insts.length st' := by
  obtain ⟨sg0, hsg0, hall⟩ := hok.insts
  unfold applyAll at h
  simp only at h
  obtain ⟨cur, hloop, h⟩ := bind_ok _ _ _ h
  have hP : (Base m0 cur.1 ∧ cur.2 = ti) ∧ Q (0 + (List.range ti.insts.length).length) cur.1 := by
    refine forIn_idx_inv _ (fun i c => (Base m0 c.1 ∧ c.2 = ti) ∧ Q i c.1) _ 0 (st, ti) cur
      ⟨⟨hb, rfl⟩, h0⟩ ?_ hloop
    rintro i idx ⟨s, t⟩ s' hi ⟨⟨hB, ht⟩, hQ⟩ hf
    simp only at hB ht hQ hf
    subst ht
    have hidx : idx = i := by
      have hil : i < t.insts.length := by
        have := (List.getElem?_eq_some_iff.1 hi).1
        simpa using this
      rw [List.getElem?_range hil] at hi
      cases hi; rfl
    subst hidx
    rw [Nat.zero_add] at hQ
    cases hins : t.insts[idx]? with
    | none =>
      exfalso
      have := (List.getElem?_eq_some_iff.1 hi).1
      simp only [List.length_range] at this
      rw [List.getElem?_eq_none_iff] at hins
      omega
    | some ins =>
      simp only [hins] at hf
      split at hf
      · rename_i hx
        obtain ⟨c, hc, hf⟩ := bind_ok _ _ _ hf
        cases hf
        obtain ⟨c1, c2⟩ := c
        have hiok := hall ins (List.mem_of_getElem? hins)
        obtain ⟨S, e⟩ := applySingle_step pt m0 s c1 t c2 idx sg0 ins hwf0 hB hsg0 hins hiok
          hok.noChain hc
        refine ⟨_, rfl, ⟨S.base', e⟩, ?_⟩
        rw [Nat.zero_add]
        exact hstep idx ins s c1 hins hx S hQ
      · rename_i hx
        cases hf
        refine ⟨_, rfl, ⟨hB, rfl⟩, ?_⟩
        rw [Nat.zero_add]
        exact hskip idx ins s hins (by simpa using hx) hQ
  split at h
  · obtain ⟨_, e, _⟩ := bind_ok _ _ _ h
    cases e
  · cases h
    refine ⟨hP.1.1, ?_⟩
    have := hP.2
    rwa [Nat.zero_add, List.length_range] at this

/-- three-phase invariant rule for the whole run: `Pre` holds up to the distinguished instruction
    (`idx` of `tis[I]`), that instruction establishes `Post`, every later instruction keeps `Post` -/
theorem driver (pt : PTable) (m0 : Model) (tis : List TInsts) (Pre Post : PState → Prop)
    (I idx : Nat) (ti : TInsts) (ins : Inst)
    (hwf : WF.modelOK m0 = true) (hok : ∀ ti ∈ tis, TInstsOK pt m0 ti)
    (hti : tis[I]? = some ti) (hins : ti.insts[idx]? = some ins) (hxf : isInsertion ins.xf = true)
    (hA : ∀ (i' idx' : Nat) (ti' : TInsts) (ins' : Inst) (st st' : PState), tis[i']? = some ti' →
      ti'.insts[idx']? = some ins' → (i' < I ∨ (i' = I ∧ idx' < idx)) →
      Step pt m0 ti'.sg ins' st st' → Pre st → Pre st')
    (hB : ∀ st st', Step pt m0 ti.sg ins st st' → Pre st → Post st')
    (hC : ∀ (i' idx' : Nat) (ti' : TInsts) (ins' : Inst) (st st' : PState), tis[i']? = some ti' →
      ti'.insts[idx']? = some ins' → (I < i' ∨ (i' = I ∧ idx < idx')) →
      Step pt m0 ti'.sg ins' st st' → Post st → Post st')
    (s0 st : PState) (hb0 : Base m0 s0) (h0 : Pre s0)
    (hfold : tis.foldlM (applyAll pt) s0 = .ok st) : Base m0 st ∧ Post st := by
  have hIl : I < tis.length := (List.getElem?_eq_some_iff.1 hti).1
  have hidxl : idx < ti.insts.length := (List.getElem?_eq_some_iff.1 hins).1
  have key := foldlM_idx_inv (applyAll pt)
    (fun i s => Base m0 s ∧ (i ≤ I → Pre s) ∧ (I < i → Post s)) tis 0 s0 st
    ⟨hb0, fun _ => h0, fun h => absurd h (by omega)⟩ ?_ hfold
  · exact ⟨key.1, key.2.2 (by omega)⟩
  · intro i x s s' hi ⟨hB0, hPre, hPost⟩ hf
    rw [Nat.zero_add] at hPre hPost
    rw [Nat.zero_add]
    have hxok := hok x (List.mem_of_getElem? hi)
    rcases Nat.lt_trichotomy i I with hlt | heq | hgt
    · -- before the distinguished `ti`
      obtain ⟨b, q⟩ := applyAll_idx pt m0 s s' x hwf hxok (fun _ c => Pre c) hB0 (hPre (by omega))
        (fun idx' ins' c c' h1 _ S hc => hA i idx' x ins' c c' hi h1 (.inl hlt) S hc)
        (fun _ _ _ _ _ hc => hc) hf
      exact ⟨b, fun _ => q, fun h => absurd h (by omega)⟩
    · -- the distinguished `ti`
      subst heq
      rw [hti] at hi; cases hi
      obtain ⟨b, q⟩ := applyAll_idx pt m0 s s' ti hwf hxok
        (fun j c => (j ≤ idx → Pre c) ∧ (idx < j → Post c)) hB0
        ⟨fun _ => hPre (Nat.le_refl _), fun h => absurd h (by omega)⟩
        (fun idx' ins' c c' h1 _ S hc => by
          rcases Nat.lt_trichotomy idx' idx with h | h | h
          · exact ⟨fun _ => hA i idx' ti ins' c c' hti h1 (.inr ⟨rfl, h⟩) S (hc.1 (by omega)),
              fun h' => absurd h' (by omega)⟩
          · subst h
            rw [hins] at h1; cases h1
            exact ⟨fun h' => absurd h' (by omega), fun _ => hB c c' S (hc.1 (Nat.le_refl _))⟩
          · exact ⟨fun h' => absurd h' (by omega),
              fun _ => hC i idx' ti ins' c c' hti h1 (.inr ⟨rfl, h⟩) S (hc.2 h)⟩)
        (fun idx' ins' c h1 hx hc => by
          have hne : idx' ≠ idx := by
            intro e
            subst e
            rw [hins] at h1; cases h1
            rw [hxf] at hx; cases hx
          exact ⟨fun h' => hc.1 (by omega), fun h' => hc.2 (by omega)⟩) hf
      exact ⟨b, fun h => absurd h (by omega), fun _ => q.2 hidxl⟩
    · -- after it
      obtain ⟨b, q⟩ := applyAll_idx pt m0 s s' x hwf hxok (fun _ c => Post c) hB0 (hPost hgt)
        (fun idx' ins' c c' h1 _ S hc => hC i idx' x ins' c c' hi h1 (.inl hgt) S hc)
        (fun _ _ _ _ _ hc => hc) hf
      exact ⟨b, fun h => absurd h (by omega), fun _ => q⟩

/-! ## the two facts carried through the run -/

/-- in state `st`, the ORIGINAL operator `k` of subgraph `s` reads tensor `x` in every operand slot
    in which `o0` reads `t` -/
def Reads (st : PState) (s k : Nat) (o0 : Op) (t x : Int) : Prop :=
  ∀ (sg : Subgraph) (om : List Int) (a : Int) (oc : Op), st.model.subgraphs[s]? = some sg →
    st.origMap[s]? = some om → om[k]? = some a → sg.ops[a.toNat]? = some oc →
    ∀ j : Nat, o0.inputs[j]? = some t → oc.inputs[j]? = some x

/-- in state `st`, tensor `x` of subgraph `s` has record `tn` -/
def HasRec (st : PState) (s x : Nat) (tn : Tensor) : Prop :=
  ∀ sg : Subgraph, st.model.subgraphs[s]? = some sg → sg.tensors[x]? = some tn

theorem rew_get (t n : Int) (o : Op) (j : Nat) (x : Int) (h : o.inputs[j]? = some x) :
    (rew t n o).inputs[j]? = some (if x = t then n else x) := by
  simp [rew, h]

theorem addsOp_cases (x : Xf) (h : addsOp x = true) : x = .addQuant ∨ x = .addDequant := by
  cases x <;> simp [addsOp] at h ⊢

theorem addsOp_insertion (x : Xf) (h : addsOp x = true) : isInsertion x = true := by
  cases x <;> simp [addsOp] at h <;> rfl

theorem retypes_insertion (x : Xf) (h : retypes x = true) : isInsertion x = true := by
  cases x <;> simp [retypes] at h <;> rfl

/-- the tensor of a performed instruction is an ORIGINAL tensor -/
theorem Step.tvalid {pt : PTable} {m0 : Model} {s : Nat} {ins : Inst} {st st' : PState}
    (S : Step pt m0 s ins st st') (sg0 : Subgraph) (h0 : m0.subgraphs[s]? = some sg0) :
    0 ≤ ins.tensor ∧ ins.tensor < sg0.tensors.length := by
  obtain ⟨sg0', _, _, _, _, _, _, _, _, _, _, g0, _, _, _, _, _, hiok, _⟩ := S.eff
  rw [h0] at g0; cases g0
  exact (validT_iff _ _).1 hiok.tvalid

/-- `Reads` survives a step unless that step rewires exactly these slots -/
theorem reads_step {pt : PTable} {m0 : Model} {s' : Nat} {ins' : Inst} {st st' : PState}
    (S : Step pt m0 s' ins' st st') (s k : Nat) (o0 : Op) (t x : Int) (hR : Reads st s k o0 t x)
    (hne : s' = s → addsOp ins'.xf = true → x = ins'.tensor → (k : Int) ∈ ins'.consumers → False) :
    Reads st' s k o0 t x := by
  by_cases hs : s = s'
  · subst hs
    obtain ⟨sg0, sg, sg', om, om', cons, p, pi, ty, tn, nm, h0, h1, h1', h2, h2', hlen, hiok,
      -, -, -, -, -, hc1, -, hpos⟩ := S.eff
    intro sg'' om'' a' oc' g1 g2 g3 g4 j hj
    rw [h1'] at g1; cases g1
    rw [h2'] at g2; cases g2
    have hk : k < om.length := by rw [← hlen]; exact (List.getElem?_eq_some_iff.1 g3).1
    have hka : om[k]? = some om[k] := List.getElem?_eq_getElem hk
    obtain ⟨ha0, o, ho, horig⟩ := S.base.opAt s sg0 sg om h0 h1 h2 k _ hka
    obtain ⟨a'', g5, g6⟩ := hpos k _ o hka ho
    rw [g3] at g5; cases g5
    rw [g4] at g6
    have hx := hR sg om _ o h1 h2 hka ho j hj
    by_cases hcond : addsOp ins'.xf = true ∧ om[k] ∈ cons
    · rw [if_pos hcond] at g6
      cases g6
      obtain ⟨c, hc, hc0, hca⟩ := hc1 _ hcond.2 ha0
      obtain ⟨-, o2, ho2, horig2⟩ := S.base.opAt s sg0 sg om h0 h1 h2 c.toNat _ hca
      rw [ho] at ho2; cases ho2
      rw [horig] at horig2
      have hkc : (k : Int) = c := by
        cases horig2; omega
      rw [rew_get _ _ _ _ _ hx, if_neg]
      intro hxt
      exact hne rfl hcond.1 hxt (hkc ▸ hc)
    · rw [if_neg hcond] at g6
      cases g6
      exact hx
  · obtain ⟨e1, e2⟩ := S.others s hs
    intro sg om a oc g1 g2
    rw [e1] at g1; rw [e2] at g2
    exact hR sg om a oc g1 g2

/-- a tensor record survives a step unless that step retypes exactly this tensor -/
theorem hasRec_step {pt : PTable} {m0 : Model} {s' : Nat} {ins' : Inst} {st st' : PState}
    (S : Step pt m0 s' ins' st st') (s x : Nat) (tn : Tensor) (hH : HasRec st s x tn)
    (hne : s' = s → retypes ins'.xf = true → ins'.tensor.toNat = x → False) :
    HasRec st' s x tn := by
  by_cases hs : s = s'
  · subst hs
    obtain ⟨sg0, sg, sg', om, om', cons, p, pi, ty, tn2, nm, h0, h1, h1', h2, h2', hlen, hiok,
      -, -, -, -, hT, -, -, -⟩ := S.eff
    intro sg'' g1
    rw [h1'] at g1; cases g1
    have hx := hH sg h1
    have hxl : x < sg.tensors.length := (List.getElem?_eq_some_iff.1 hx).1
    rw [hT]
    cases hr : retypes ins'.xf
    · simp only [Bool.false_eq_true, if_false]
      rw [List.getElem?_append_left hxl]; exact hx
    · simp only [if_true]
      rw [List.getElem?_append_left (by simpa using hxl),
        List.getElem?_set_ne (fun e => hne rfl hr e)]
      exact hx
  · obtain ⟨e1, -⟩ := S.others s hs
    intro sg g1
    rw [e1] at g1
    exact hH sg g1

/-- an op-adding step rewires the slots of its listed consumer `k` that still read its tensor -/
theorem reads_wire {pt : PTable} {m0 : Model} {s : Nat} {ins : Inst} {st st' : PState}
    (S : Step pt m0 s ins st st') (hadd : addsOp ins.xf = true) (k : Nat) (o0 : Op)
    (hk : (k : Int) ∈ ins.consumers) (hR : Reads st s k o0 ins.tensor ins.tensor)
    (sgc : Subgraph) (hsgc : st.model.subgraphs[s]? = some sgc) :
    Reads st' s k o0 ins.tensor (sgc.tensors.length : Int) := by
  obtain ⟨sg0, sg, sg', om, om', cons, p, pi, ty, tn, nm, h0, h1, h1', h2, h2', hlen, hiok,
    -, -, -, -, -, -, hc2, hpos⟩ := S.eff
  rw [hsgc] at h1; cases h1
  intro sg'' om'' a' oc' g1 g2 g3 g4 j hj
  rw [h1'] at g1; cases g1
  rw [h2'] at g2; cases g2
  have hkl : k < om.length := by rw [← hlen]; exact (List.getElem?_eq_some_iff.1 g3).1
  have hka : om[k]? = some om[k] := List.getElem?_eq_getElem hkl
  obtain ⟨ha0, o, ho, horig⟩ := S.base.opAt s sg0 sgc om h0 hsgc h2 k _ hka
  obtain ⟨a'', g5, g6⟩ := hpos k _ o hka ho
  rw [g3] at g5; cases g5
  rw [g4] at g6
  have hx := hR sgc om _ o hsgc h2 hka ho j hj
  obtain ⟨a2, ha2, hget⟩ := hc2 (k : Int) hk (by omega)
  rw [Int.toNat_natCast, hka] at hget
  cases hget
  rw [if_pos ⟨hadd, ha2⟩] at g6
  cases g6
  rw [rew_get _ _ _ _ _ hx, if_pos rfl]

/-- the record of the tensor appended by an op-adding step -/
theorem newRec {pt : PTable} {m0 : Model} {s : Nat} {ins : Inst} {st st' : PState}
    (S : Step pt m0 s ins st st') (hadd : addsOp ins.xf = true)
    (p : PId) (pi : PInfo) (ty : Nat) (hp : ins.param = some p) (hpi : pinfo pt p = some pi)
    (hty : dtypeOf pi = .ok ty) (sgc : Subgraph) (hsgc : st.model.subgraphs[s]? = some sgc) :
    ∃ nm tn, HasRec st' s sgc.tensors.length
      (if ins.xf = .addQuant then retype pi p ty (fresh nm tn) else fresh nm tn) := by
  obtain ⟨sg0, sg, sg', om, om', cons, p', pi', ty', tn, nm, h0, h1, h1', h2, h2', hlen, hiok,
    e1, e2, e3, -, hT, -, -, -⟩ := S.eff
  rw [hsgc] at h1; cases h1
  rw [hp] at e1; cases e1
  rw [hpi] at e2; cases e2
  rw [hty] at e3; cases e3
  refine ⟨nm, tn, ?_⟩
  intro sg'' g1
  rw [h1'] at g1; cases g1
  rw [hT, if_pos hadd]
  have hl : (if retypes ins.xf = true then sgc.tensors.set ins.tensor.toNat (retype pi p ty tn)
      else sgc.tensors).length = sgc.tensors.length := by
    split <;> simp
  rw [← hl]
  exact List.getElem?_concat_length ..

/-- the record written by a retyping step into its tensor -/
theorem retypeRec {pt : PTable} {m0 : Model} {s : Nat} {ins : Inst} {st st' : PState}
    (S : Step pt m0 s ins st st') (hr : retypes ins.xf = true)
    (p : PId) (pi : PInfo) (ty : Nat) (hp : ins.param = some p) (hpi : pinfo pt p = some pi)
    (hty : dtypeOf pi = .ok ty) :
    ∃ tn, HasRec st' s ins.tensor.toNat (retype pi p ty tn) := by
  obtain ⟨sg0, sg, sg', om, om', cons, p', pi', ty', tn, nm, h0, h1, h1', h2, h2', hlen, hiok,
    e1, e2, e3, e4, hT, -, -, -⟩ := S.eff
  rw [hp] at e1; cases e1
  rw [hpi] at e2; cases e2
  rw [hty] at e3; cases e3
  refine ⟨tn, ?_⟩
  intro sg'' g1
  rw [h1'] at g1; cases g1
  have hlt : ins.tensor.toNat < sg.tensors.length := (List.getElem?_eq_some_iff.1 e4).1
  rw [hT, if_pos hr, List.getElem?_append_left (by simpa using hlt), List.getElem?_set_self hlt]

/-! ## hypotheses on the instruction lists -/

/-- one tensor is the subject of at most one `ti` per subgraph: two different entries of `tis` for
    the same subgraph never perform instructions on the same tensor -/
def TensorsDisjoint (tis : List TInsts) : Prop :=
  ∀ (i j : Nat) (a b : TInsts), i ≠ j → tis[i]? = some a → tis[j]? = some b → a.sg = b.sg →
    ∀ x ∈ a.insts, ∀ y ∈ b.insts, isInsertion x.xf = true → isInsertion y.xf = true →
      x.tensor ≠ y.tensor

/-- within one `ti`, at most one instruction per tensor writes the tensor's own record
    (QUANTIZE_TENSOR and ADD_DEQUANTIZE do, ADD_QUANTIZE does not) -/
def OneRetype (insts : List Inst) : Prop :=
  ∀ (i j : Nat) (a b : Inst), i < j → insts[i]? = some a → insts[j]? = some b →
    retypes a.xf = true → retypes b.xf = true → a.tensor ≠ b.tensor

/-- executable check of `TensorsDisjoint` -/
def tensorsDisjointB (tis : List TInsts) : Bool :=
  tis.zipIdx.all fun a => tis.zipIdx.all fun b =>
    a.2 == b.2 || a.1.sg != b.1.sg ||
      a.1.insts.all fun x => b.1.insts.all fun y =>
        !isInsertion x.xf || !isInsertion y.xf || x.tensor != y.tensor

theorem tensorsDisjoint_of_b (tis : List TInsts) (h : tensorsDisjointB tis = true) :
    TensorsDisjoint tis := by
  intro i j a b hij hi hj hs x hx y hy hxi hyi
  unfold tensorsDisjointB at h
  rw [List.all_eq_true] at h
  have h1 := h (a, i) (List.mem_zipIdx_iff_getElem?.2 hi)
  rw [List.all_eq_true] at h1
  have h2 := h1 (b, j) (List.mem_zipIdx_iff_getElem?.2 hj)
  simp only [Bool.or_eq_true, beq_iff_eq, bne_iff_ne, ne_eq, List.all_eq_true,
    Bool.not_eq_true'] at h2
  rcases h2 with (h2 | h2) | h2
  · exact absurd h2 hij
  · exact absurd hs h2
  · rcases h2 x hx y hy with (h3 | h3) | h3
    · rw [hxi] at h3; cases h3
    · rw [hyi] at h3; cases h3
    · exact h3

/-- executable check of `OneRetype` -/
def oneRetypeB (insts : List Inst) : Bool :=
  insts.zipIdx.all fun a => insts.zipIdx.all fun b =>
    !(decide (a.2 < b.2)) || !retypes a.1.xf || !retypes b.1.xf || a.1.tensor != b.1.tensor

theorem oneRetype_of_b (insts : List Inst) (h : oneRetypeB insts = true) : OneRetype insts := by
  intro i j a b hij hi hj ha hb
  unfold oneRetypeB at h
  rw [List.all_eq_true] at h
  have h1 := h (a, i) (List.mem_zipIdx_iff_getElem?.2 hi)
  rw [List.all_eq_true] at h1
  have h2 := h1 (b, j) (List.mem_zipIdx_iff_getElem?.2 hj)
  simp only [Bool.or_eq_true, Bool.not_eq_true', decide_eq_false_iff_not, bne_iff_ne, ne_eq] at h2
  rcases h2 with ((h2 | h2) | h2) | h2
  · exact absurd hij h2
  · rw [ha] at h2; cases h2
  · rw [hb] at h2; cases h2
  · exact h2

/-! ## reading off the final state -/

/-- the ORIGINAL operator `k` in the current graph: it carries the tag `k`, and `root` maps its
    operands back to the original operands -/
theorem final_op (m0 : Model) (st : PState) (B : Base m0 st) (htag : origTagged m0 = true) (s : Nat)
    (sg sg' : Subgraph) (hsg : m0.subgraphs[s]? = some sg) (hsg' : st.model.subgraphs[s]? = some sg')
    (k : Nat) (o : Op) (ho : sg.ops[k]? = some o) :
    ∃ om a o', st.origMap[s]? = some om ∧ om[k]? = some a ∧ sg'.ops[a.toNat]? = some o' ∧
      o'.orig = some k ∧ o'.inputs.map (root sg') = o.inputs := by
  obtain ⟨sgx, om, h1, h2, hlen⟩ := B.cur s sg hsg
  rw [hsg'] at h1; cases h1
  have hk : k < om.length := by rw [hlen]; exact (List.getElem?_eq_some_iff.1 ho).1
  have hka : om[k]? = some om[k] := List.getElem?_eq_getElem hk
  obtain ⟨-, o', ho', horig⟩ := B.opAt s sg sg' om hsg hsg' h2 k _ hka
  refine ⟨om, _, o', h2, hka, ho', horig, ?_⟩
  have K := B.sk.sgs s sg sg' hsg hsg'
  have hmem : ({ o' with inputs := o'.inputs.map (root sg'), outputs := o'.outputs.map (root sg') } : Op)
      ∈ eraseOps sg' :=
    List.mem_map.2 ⟨o', List.mem_filter.2 ⟨List.mem_of_getElem? ho', by simp [horig]⟩, rfl⟩
  rw [K.ops] at hmem
  obtain ⟨i, hi⟩ := List.mem_iff_getElem?.1 hmem
  have e0 := origTagged_get m0 htag s sg hsg i _ hi
  have e : o'.orig = some i := e0
  rw [horig] at e
  cases e
  rw [ho] at hi
  cases hi
  rfl

/-! ## the global theorems -/

/-- common core of `addQuant_wired` / `addDequant_wired`: after the whole run, every listed real
    consumer of an op-adding instruction reads, in the slots where it read the instruction's tensor,
    the tensor appended by that instruction, whose record is still the one written when it was
    created -/
theorem wired_core (pt : PTable) (m m' : Model) (tis : List TInsts)
    (hwf : WF.modelOK m = true) (htag : origTagged m = true)
    (hok : ∀ ti ∈ tis, TInstsOK pt m ti) (hdisj : TensorsDisjoint tis)
    (h : transformGraph pt m tis = .ok m')
    (ti : TInsts) (hti : ti ∈ tis) (ins : Inst) (hins : ins ∈ ti.insts) (hadd : addsOp ins.xf = true)
    (p : PId) (pi : PInfo) (ty : Nat) (hp : ins.param = some p) (hpi : pinfo pt p = some pi)
    (hty : dtypeOf pi = .ok ty)
    (sg sg' : Subgraph) (hsg : m.subgraphs[ti.sg]? = some sg) (hsg' : m'.subgraphs[ti.sg]? = some sg')
    (c : Int) (hc : c ∈ ins.consumers) (hc0 : 0 ≤ c) (o : Op) (ho : sg.ops[c.toNat]? = some o) :
    ∃ o' ∈ sg'.ops, o'.orig = some c.toNat ∧ o'.inputs.length = o.inputs.length ∧
      ∀ j : Nat, o.inputs[j]? = some ins.tensor →
        ∃ x tn, o'.inputs[j]? = some x ∧ sg'.tensors[x.toNat]? = some tn ∧ 0 ≤ x ∧
          (sg.tensors.length : Int) ≤ x ∧
          (∃ nm tn0, tn = if ins.xf = .addQuant then retype pi p ty (fresh nm tn0) else fresh nm tn0) ∧
          root sg' x = ins.tensor := by
  obtain ⟨I, hI⟩ := List.mem_iff_getElem?.1 hti
  obtain ⟨idx, hidx⟩ := List.mem_iff_getElem?.1 hins
  unfold transformGraph at h
  simp only at h
  obtain ⟨st, hfold, h⟩ := bind_ok _ _ _ h
  cases h
  have hkc : ((c.toNat : Nat) : Int) = c := by omega
  have key := driver pt m tis
    (fun s => Reads s ti.sg c.toNat o ins.tensor ins.tensor)
    (fun s => ∃ (n : Nat) (tn : Tensor), sg.tensors.length ≤ n ∧
      (∃ nm tn0, tn = if ins.xf = .addQuant then retype pi p ty (fresh nm tn0) else fresh nm tn0) ∧
      Reads s ti.sg c.toNat o ins.tensor (n : Int) ∧ HasRec s ti.sg n tn)
    I idx ti ins hwf hok hI hidx (addsOp_insertion _ hadd) ?_ ?_ ?_ (st0 m) st
    (base_init m hwf htag) ?_ hfold
  · obtain ⟨B, n, tn, hn, htn, hR, hH⟩ := key
    obtain ⟨om, a, o', g2, g3, g4, g5, g6⟩ := final_op m st B htag ti.sg sg sg' hsg hsg' c.toNat o ho
    refine ⟨o', List.mem_of_getElem? g4, g5, by rw [← g6, List.length_map], ?_⟩
    intro j hj
    have hx := hR sg' om a o' hsg' g2 g3 g4 j hj
    refine ⟨(n : Int), tn, hx, by simpa using hH sg' hsg', by omega, by omega, htn, ?_⟩
    have := congrArg (·[j]?) g6
    simp only [List.getElem?_map, hx, hj, Option.map_some, Option.some.injEq] at this
    exact this
  · -- earlier instructions do not rewire these slots
    intro i' idx' ti' ins' s s' hi' hidx' hlt S hPre
    refine reads_step S _ _ _ _ _ hPre (fun hs hadd' hxt hk => ?_)
    rcases hlt with hlt | ⟨rfl, hlt⟩
    · exact hdisj i' I ti' ti (by omega) hi' hI hs ins' (List.mem_of_getElem? hidx') ins hins
        (addsOp_insertion _ hadd') (addsOp_insertion _ hadd) hxt.symm
    · rw [hI] at hi'; cases hi'
      rw [hkc] at hk
      exact (hok ti hti).noChain idx' idx ins' ins hlt hidx' hidx (addsOp_cases _ hadd') c hc hk
  · -- the instruction itself
    intro s s' S hPre
    obtain ⟨sgc, om, h1, h2, -⟩ := S.base.cur ti.sg sg hsg
    obtain ⟨nm, tn0, hrec⟩ := newRec S hadd p pi ty hp hpi hty sgc h1
    exact ⟨sgc.tensors.length, _, (S.base.inv.sg _ _ _ _ hsg h1 h2).tlen, ⟨nm, tn0, rfl⟩,
      reads_wire S hadd c.toNat o (by rw [hkc]; exact hc) hPre sgc h1, hrec⟩
  · -- later instructions act on original tensors only
    intro i' idx' ti' ins' s s' hi' hidx' _ S ⟨n, tn, hn, htn, hR, hH⟩
    refine ⟨n, tn, hn, htn, reads_step S _ _ _ _ _ hR (fun hs _ hxt _ => ?_),
      hasRec_step S _ _ _ hH (fun hs _ hxt => ?_)⟩
    · have := S.tvalid sg (by rw [hs]; exact hsg)
      omega
    · have := S.tvalid sg (by rw [hs]; exact hsg)
      omega
  · -- initially every operator reads its original operands
    intro sg1 om a oc g1 g2 g3 g4 j hj
    have g1' : m.subgraphs[ti.sg]? = some sg1 := g1
    rw [hsg] at g1'; cases g1'
    obtain ⟨-, rfl⟩ := st0_map m ti.sg sg om hsg g2 _ a g3
    rw [Int.toNat_natCast, ho] at g4
    cases g4
    exact hj

/-- common core of `quantTensor_typed` / `addDequant_typed`: after the whole run the tensor of a
    retyping instruction still has the record that instruction wrote -/
theorem typed_core (pt : PTable) (m m' : Model) (tis : List TInsts)
    (hwf : WF.modelOK m = true) (htag : origTagged m = true)
    (hok : ∀ ti ∈ tis, TInstsOK pt m ti) (hdisj : TensorsDisjoint tis)
    (h : transformGraph pt m tis = .ok m')
    (ti : TInsts) (hti : ti ∈ tis) (hret : OneRetype ti.insts)
    (ins : Inst) (hins : ins ∈ ti.insts) (hr : retypes ins.xf = true)
    (p : PId) (pi : PInfo) (ty : Nat) (hp : ins.param = some p) (hpi : pinfo pt p = some pi)
    (hty : dtypeOf pi = .ok ty)
    (sg sg' : Subgraph) (hsg : m.subgraphs[ti.sg]? = some sg) (hsg' : m'.subgraphs[ti.sg]? = some sg') :
    ∃ tn0 tn', sg.tensors[ins.tensor.toNat]? = some tn0 ∧ sg'.tensors[ins.tensor.toNat]? = some tn' ∧
      0 ≤ ins.tensor ∧ tn'.dtype = ty ∧ (pi.uniform = true → tn'.quant = some p) ∧
      tn'.name = tn0.name ∧ tn'.shape = tn0.shape ∧ tn'.buffer = tn0.buffer := by
  obtain ⟨I, hI⟩ := List.mem_iff_getElem?.1 hti
  obtain ⟨idx, hidx⟩ := List.mem_iff_getElem?.1 hins
  obtain ⟨sgx, hsgx, hall⟩ := (hok ti hti).insts
  rw [hsg] at hsgx; cases hsgx
  have hv := (validT_iff _ _).1 (hall ins hins).tvalid
  unfold ValidT at hv
  unfold transformGraph at h
  simp only at h
  obtain ⟨st, hfold, h⟩ := bind_ok _ _ _ h
  cases h
  have key := driver pt m tis (fun _ => True)
    (fun s => ∃ tn, HasRec s ti.sg ins.tensor.toNat (retype pi p ty tn))
    I idx ti ins hwf hok hI hidx (retypes_insertion _ hr) (fun _ _ _ _ _ _ _ _ _ _ _ => trivial)
    (fun s s' S _ => retypeRec S hr p pi ty hp hpi hty) ?_ (st0 m) st
    (base_init m hwf htag) trivial hfold
  · obtain ⟨B, tn, hH⟩ := key
    have hlt : ins.tensor.toNat < sg.tensors.length := by omega
    have h0 : sg.tensors[ins.tensor.toNat]? = some sg.tensors[ins.tensor.toNat] :=
      List.getElem?_eq_getElem hlt
    have h1 := hH sg' hsg'
    obtain ⟨om, h2⟩ : ∃ om, st.origMap[ti.sg]? = some om := by
      obtain ⟨_, om, _, h2, _⟩ := B.cur ti.sg sg hsg
      exact ⟨om, h2⟩
    obtain ⟨tnb, hb1, hb2⟩ := (B.w ti.sg sg sg' om hsg hsg' h2).buf _ _ h0
    rw [h1] at hb1; cases hb1
    have K := B.sk.sgs ti.sg sg sg' hsg hsg'
    have hfr := K.tframe
    rw [tensorFrame_eq, tensorFrame_eq] at hfr
    have hfr' := congrArg (·[ins.tensor.toNat]?) hfr
    simp only [List.getElem?_take, hlt, if_true, List.getElem?_map, h1, h0, Option.map_some,
      Option.some.injEq, ns, Prod.mk.injEq] at hfr'
    refine ⟨_, _, h0, h1, hv.1, retype_dtype .., ?_, hfr'.1, hfr'.2, hb2⟩
    intro hu
    rw [retype_quant, if_pos hu]
  · -- later instructions do not retype this tensor
    intro i' idx' ti' ins' s s' hi' hidx' hlt S ⟨tn, hH⟩
    refine ⟨tn, hasRec_step S _ _ _ hH (fun hs hr' hxt => ?_)⟩
    have hv' := S.tvalid sg (by rw [hs]; exact hsg)
    have heq : ins.tensor = ins'.tensor := by omega
    rcases hlt with hlt | ⟨rfl, hlt⟩
    · exact hdisj I i' ti ti' (by omega) hI hi' hs.symm ins hins ins' (List.mem_of_getElem? hidx')
        (retypes_insertion _ hr) (retypes_insertion _ hr') heq
    · rw [hI] at hi'; cases hi'
      exact hret idx idx' ins ins' hlt hidx hidx' hr hr' heq

end Wiring
