import QProofs.ConstE2E
import QProps.C04b
/-!
# What each source of quantized data guarantees about the stored bytes

* `own_facts`: the reference parameters of a constant's own statistics are float32 parameters with
  zero points of the storage type, of the shape of the statistics (`keepShape`), which broadcasts into
  the tensor's shape; for 2..16 bits they are well formed (C04b / C17: positive scales, zero points in
  the integer range);
* `own_stored`: bytes of the right length for the tensor's shape, decoding to the codes, every code
  within the C17 bound of its element;
* `Fits`: the general condition (scale array of the tensor's rank, every dimension 1 or the tensor's)
  under which the stored bytes have the length implied by the tensor's shape -- needed for borrowed
  parameters and biases, whose scale shape comes from the calibration statistics.
-/
open Graph Mat Cfg Pipeline Arith Nd MatParams Num Bytes
open ConstBytes ConstProv ConstQuant

set_option autoImplicit false

namespace ConstSrc

/-- number of values stored for a parameter object -/
def storedCount : Param → Option Nat
  | .uniform _ (some q) => some (numel q.arr.shape)
  | .nonlinear _ (some d) => some d.data.length
  | _ => none

/-- the parameter object fits a tensor of shape `shape`: the scale array has the tensor's rank and
    each of its dimensions is 1 or the tensor's (per-tensor / per-channel parameters in TFLite's
    sense); a float16 array has as many values as the shape says -/
def Fits (P : Param) (shape : List Nat) : Prop :=
  match P with
  | .uniform qp _ => shape.length = qp.scale.arr.shape.length ∧ Into qp.scale.arr.shape shape
  | .nonlinear _ (some d) => d.data.length = numel shape
  | .nonlinear _ none => True

/-! ## own parameters -/

theorem own_facts (env : Env) (oi : OpInfo) (t : Tensor) (tc : TCfg) (d : Arr Rat) (mn mx : FArr)
    (qdim : Option Nat) (qp : QParams)
    (hd : constData env t = some d) (hi : initMinMax env oi t d = .ok (mn, mx))
    (hp : refParams tc.bits.toNat tc.symmetric qdim mn mx = .ok qp) :
    qp.bits = tc.bits.toNat ∧ qp.symmetric = tc.symmetric ∧ qp.qdim = qdim ∧
    qp.scale.pr = .f32 ∧ qp.zp.w = storageBits qp.bits ∧
    qp.scale.arr.shape = keepShape d.shape (reduceDims (statQDim env oi d.shape.length) d.shape.length) ∧
    qp.zp.arr.shape = qp.scale.arr.shape ∧
    d.shape.length = qp.scale.arr.shape.length ∧ Into qp.scale.arr.shape d.shape ∧
    qp.scale.arr.data.length = numel qp.scale.arr.shape ∧ qp.zp.arr.data.length = numel qp.scale.arr.shape := by
  obtain ⟨p1, p2, hord, hsh, _⟩ := C04.weight_stats_true_minmax env oi t d mn mx hd hi
  unfold refParams at hp
  cases hz : zpScale tc.bits.toNat tc.symmetric mn mx with
  | error e => rw [hz] at hp; cases hp
  | ok zs =>
    obtain ⟨zp, scale⟩ := zs
    rw [hz] at hp
    simp only [Except.ok.injEq] at hp
    subst hp
    obtain ⟨hw, hpr, _⟩ := zpScale_elems _ _ mn mx zp scale hz
    obtain ⟨s1, s2, l1, l2, _⟩ := zpScale_elems_same _ _ mn mx zp scale hord.1 hz
    refine ⟨rfl, rfl, rfl, ?_, hw, ?_, ?_, ?_, ?_, ?_, ?_⟩
    · rw [hpr, p1, p2]; rfl
    · rw [s2, hsh]
    · rw [s1, s2]
    · rw [s2, hsh, keepShape_length]
    · rw [s2, hsh]; exact keepShape_compat _ _
    · rw [l2, s2]
    · rw [l1, s2]

/-- for 2..16 bits the own parameters are well formed: positive finite scales, zero points in range -/
theorem own_wellformed (env : Env) (oi : OpInfo) (t : Tensor) (tc : TCfg) (d : Arr Rat) (mn mx : FArr)
    (qdim : Option Nat) (qp : QParams)
    (hd : constData env t = some d) (hi : initMinMax env oi t d = .ok (mn, mx))
    (hp : refParams tc.bits.toNat tc.symmetric qdim mn mx = .ok qp)
    (hb2 : 2 ≤ tc.bits.toNat) (hb16 : tc.bits.toNat ≤ 16) :
    WellFormed tc.bits.toNat tc.symmetric qp := by
  obtain ⟨p1, p2, hord, _⟩ := C04.weight_stats_true_minmax env oi t d mn mx hd hi
  have hpr : mn.pr.join mx.pr ≠ .f16 := by rw [p1, p2]; decide
  exact (C04.ref_params_wellformed _ _ _ mn mx qp hb2 hb16 hpr hord hp).1

theorem getD_mem_of_lt {α} (l : List α) (j : Nat) (a : α) (h : j < l.length) : l.getD j a ∈ l := by
  rw [List.getD_eq_getElem?_getD, List.getElem?_eq_getElem h, Option.getD_some]
  exact List.getElem_mem h

/-- **a constant quantized with its own reference parameters**: the stored bytes have the length
    implied by the TENSOR's shape and the tensor type of the bit width, decode to exactly the codes,
    the code array has the tensor's shape; and for 2..16 bits every element's scale is positive, its
    zero point is in the integer range, and the dequantized code is within
    `s·(1/2 + 2^(bits+3)·2^-24)` of the original element whenever `s ∈ [2^-100, 2^100]` and the element
    lies in the representable range of its channel -/
theorem own_stored (env : Env) (oi : OpInfo) (t : Tensor) (tc : TCfg) (d : Arr Rat) (mn mx : FArr)
    (qdim : Option Nat) (qp : QParams) (q : IArr) (dt : Nat)
    (hd : constData env t = some d) (hi : initMinMax env oi t d = .ok (mn, mx))
    (hp : refParams tc.bits.toNat tc.symmetric qdim mn mx = .ok qp)
    (hu : uniformQuantize ⟨d, .f32⟩ qp = .ok q)
    (hdt : Perform.dtypeOf ⟨true, qp.bits, true⟩ = .ok dt) :
    ∃ bs, paramBytes (.uniform qp (some q)) = some bs ∧
      byteLen dt (numel d.shape) = some bs.length ∧
      decodeInts dt (numel d.shape) bs = q.arr.data ∧
      q.arr.shape = d.shape ∧ q.arr.data.length = numel d.shape ∧
      (2 ≤ qp.bits → qp.bits ≤ 16 →
        ∀ i < numel d.shape, ∀ (s : Rat) (z : Int),
          s = qp.scale.arr.data.getD (bindex d.shape qp.scale.arr.shape i) 0 →
          z = qp.zp.arr.data.getD (bindex d.shape qp.scale.arr.shape i) 0 →
          0 < s ∧ qmin qp.bits ≤ z ∧ z ≤ qmax qp.bits ∧ (qp.symmetric = true → z = 0) ∧
          ((2:Rat)^(-100:Int) ≤ s → s ≤ (2:Rat)^(100:Int) →
            ((qmin qp.bits + (if qp.symmetric then 1 else 0) - z : Int) : Rat) * s ≤ d.data.getD i 0 →
            d.data.getD i 0 ≤ ((qmax qp.bits - z : Int) : Rat) * s →
            |dqVal true (storageBits qp.bits) (storageBits qp.bits) .f32 ((decodeInts dt (numel d.shape) bs).getD i 0) z s
                - d.data.getD i 0| ≤ s * (1/2 + (2:Rat)^(qp.bits + 3) * ArithRounded.u32))) := by
  obtain ⟨f1, f2, _, f4, f5, _, f7, f8, f9, f10, f11⟩ := own_facts env oi t tc d mn mx qdim qp hd hi hp
  obtain ⟨bs, hbs, hlen, hdec⟩ := quantized_bytes _ _ _ dt hu hdt
  have hshape := quantized_shape _ _ _ hu f8 f9
  rw [hshape] at hlen hdec
  have hsto : 2 ≤ qp.bits → qp.bits ≤ 16 → (qp.zp.w = 8 ∨ qp.zp.w = 16) := by
    intro h2 h16
    rw [f5]; unfold storageBits; split_ifs <;> simp
  refine ⟨bs, hbs, hlen, hdec, hshape, ?_, ?_⟩
  · obtain ⟨ss, rs, _, _, _, _, _, hsh, hl, _⟩ := uniformQuantize_spec _ _ _ hu
    rw [hl, ← hsh, hshape]
  · intro hb2 hb16 i hi' s z hs hz
    have hwf := own_wellformed env oi t tc d mn mx qdim qp hd hi hp (f1 ▸ hb2) (f1 ▸ hb16)
    obtain ⟨_, _, _, hel⟩ := ConstValue.weight_value d qp q hu f4 (hsto hb2 hb16) hb2 hb16 f8 f9
    obtain ⟨hj, hbound⟩ := hel i hi'
    have hsm : s ∈ qp.scale.arr.data := by rw [hs]; exact getD_mem_of_lt _ _ _ (by rw [f10]; exact hj)
    have hzm : z ∈ qp.zp.arr.data := by rw [hz]; exact getD_mem_of_lt _ _ _ (by rw [f11]; exact hj)
    have hzr := hwf.zp z hzm
    rw [← f1] at hzr
    refine ⟨hwf.pos s hsm, hzr.1, hzr.2, fun hsym => hwf.zp0 (by rw [← f2]; exact hsym) z hzm, ?_⟩
    intro hs1 hs2 hlo hhi
    have := hbound s z hs hz hs1 hs2 hzr.1 hzr.2 hlo hhi
    rw [hdec]
    rw [f5] at this
    exact this

/-! ## fitting parameters in general -/

/-- **stored bytes of any quantized constant whose parameters fit the tensor** -/
theorem fits_stored (d : Arr Rat) (qp : QParams) (q : IArr) (dt : Nat)
    (hu : uniformQuantize ⟨d, .f32⟩ qp = .ok q) (hdt : Perform.dtypeOf ⟨true, qp.bits, true⟩ = .ok dt)
    (hfit : Fits (.uniform qp (some q)) d.shape) :
    q.arr.shape = d.shape ∧
    ∃ bs, paramBytes (.uniform qp (some q)) = some bs ∧ byteLen dt (numel d.shape) = some bs.length ∧
      decodeInts dt (numel d.shape) bs = q.arr.data := by
  obtain ⟨bs, hbs, hlen, hdec⟩ := quantized_bytes _ _ _ dt hu hdt
  have hshape := quantized_shape _ _ _ hu hfit.1 hfit.2
  rw [hshape] at hlen hdec
  exact ⟨hshape, bs, hbs, hlen, hdec⟩

/-! ## the sources, uniformly -/

/-- every source is `uniform_quantize` of the data with the object's own parameters, or the float16 cast -/
theorem src_cases {env : Env} {t : Tensor} {d : Arr Rat} {P : Param} (h : Src env t d P) :
    (∃ qp q, P = .uniform qp (some q) ∧ uniformQuantize ⟨d, .f32⟩ qp = .ok q) ∨
    (∃ hh, P = .nonlinear 16 (some ⟨d.shape, hh⟩) ∧ d.data.mapM Prec.f16.chk = .ok hh) := by
  cases h with
  | own oi tc mn mx qdim qp q _ _ _ _ _ hu => exact .inl ⟨qp, q, rfl, hu⟩
  | lent qp q hu => exact .inl ⟨qp, q, rfl, hu⟩
  | bias qi qw qp q hb => exact .inl ⟨qp, q, rfl, (ConstValue.bias_spec _ _ _ _ _ hb).1⟩
  | f16 hh hm => exact .inr ⟨hh, rfl, hm⟩

/-- the tensor type and the `quant` field of a tensor typed by `p`, read off a parameter object that is
    `==`-equal to the table entry -/
theorem typed_dtype (tbl : List Param) (p : PId) (tn' : Tensor) (P0 P : Param)
    (ht : SharingE2E.TypedBy (ptableOf tbl) p tn') (h0 : tbl[p]? = some P0) (he : P0.eqv P = true) :
    Perform.dtypeOf (pinfoOf P) = .ok tn'.dtype ∧ ((pinfoOf P).uniform = true → tn'.quant = some p) := by
  obtain ⟨pi, ty, h1, h2, h3, h4⟩ := ht
  rw [Pipe.pinfo_ptableOf, h0] at h1
  simp only [Option.map_some, Option.some.injEq] at h1
  subst h1
  rw [ConstE2E.eqv_pinfo _ _ he] at h2 h4
  exact ⟨by rw [h2, h3], h4⟩

/-- the table entry has the same bit width, quantized dimension, scales, zero points, symmetry and codes
    as the `==`-equal parameter object of the request -/
theorem entry_uniform (P0 : Param) (qp : QParams) (q : IArr) (he : P0.eqv (.uniform qp (some q)) = true) :
    ∃ qp0 q0, P0 = .uniform qp0 (some q0) ∧ qp0.bits = qp.bits ∧ qp0.qdim = qp.qdim ∧
      qp0.scale.arr = qp.scale.arr ∧ qp0.zp.arr = qp.zp.arr ∧ qp0.symmetric = qp.symmetric ∧ q0.arr = q.arr := by
  cases P0 with
  | nonlinear b d => simp [Param.eqv] at he
  | uniform qp0 d0 =>
    cases d0 with
    | none => simp [Param.eqv, optEq] at he
    | some q0 => exact ⟨qp0, q0, rfl, ConstE2E.eqv_uniform _ _ _ _ he⟩

theorem entry_f16 (P0 : Param) (b : Nat) (v : Arr Rat) (he : P0.eqv (.nonlinear b (some v)) = true) :
    P0 = .nonlinear b (some v) := by
  cases P0 with
  | uniform qp d => simp [Param.eqv] at he
  | nonlinear b0 d0 =>
    simp only [Param.eqv, Bool.and_eq_true, beq_iff_eq] at he
    obtain ⟨hb, hd⟩ := he
    subst hb
    cases d0 with
    | none => simp [optEq] at hd
    | some v0 =>
      simp only [optEq] at hd
      rw [ConstE2E.arrEq_eq _ _ hd]

end ConstSrc
