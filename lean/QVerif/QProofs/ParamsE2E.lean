import QProofs.ParamsGraph
import QProofs.ParamsStats
/-!
# C04 end to end: the parameters of every quantized tensor of `quantizePure`'s output

`quant_source`: every tensor of the output with `quant = some p` stands for an ORIGINAL tensor `tn`
(`Skeleton.root`), the table entry `tbl[p]` is `==`-equal (`Param.eqv`) to the parameter object `P` of one
side of the request of `tn`, made by a definite entry of the operator list, and `P` has a source
(`ParamsSrc.PSrc`) under the statistics in force when that entry was materialised:

* an original RUNTIME tensor (result of an operator or graph input): the producer side, i.e. the
  materialisation of the operator that produces it (resp. the INPUT pseudo-operator);
* an original CONSTANT: a consumer side `[QUANTIZE_TENSOR]` / `[ADD_DEQUANTIZE]`, i.e. the materialisation of
  an operator that reads it;
* a NEW tensor (result of an inserted QUANTIZE of the runtime tensor it stands for): a consumer side
  `[ADD_QUANTIZE]`, i.e. the materialisation of an operator that reads the original tensor.
-/
open Graph Mat Cfg Pipeline InstGen GenInstsOK GenInstsInfo Pipe SharingGen SharingData Perform
open GraphStep GraphFrame GraphInv Skeleton SkeletonProof StepTypes Wiring SharingE2E
open ParamsSrc ParamsGraph

set_option autoImplicit false

namespace ParamsE2E

/-- `P` was attached to a request for the tensor `tn` of subgraph `s` (= `sg`) by the materialisation of an
    entry with operator id `o` of the operator list of `sg`, and has a source there -/
def ParamAt (rx : String → String → Bool) (env : Env) (st : Recipe.State) (qsvs : Option Qsvs)
    (s : Nat) (sg : Subgraph) (tn : Tensor) (o : Int) (P : Param) : Prop :=
  ∃ (j : Nat) (q : Op × Option String × Int) (k scope : String) (qs : Qsvs),
    (allOps sg)[j]? = some q ∧ q.2.2 = o ∧ Resolves rx env st sg q k scope ∧
    StatsAt rx env st qsvs s sg j qs ∧ PSrc env sg qs (oiOf rx st s q k scope) tn P

/-- the stages of a successful run, with the provenance of every parameter object of the result
    dictionary -/
theorem stages_src (rx : String → String → Bool) (env : Env) (st : Recipe.State) (qsvs : Option Qsvs)
    (m' : Model) (tbl : List Param) (hnf : PipelineWF.NF env st)
    (h : quantizePure rx env st qsvs = .ok (m', tbl)) :
    ∃ res tis, TypingE2E.Stages rx env st qsvs m' tbl res tis ∧
      TypingShape.DSides (SideAt rx env st qsvs) (SideAt rx env st qsvs) res := by
  obtain ⟨res, tis, S⟩ := TypingE2E.stages rx env st qsvs m' tbl hnf h
  obtain ⟨qs, hfold⟩ := S.fold
  exact ⟨res, tis, S, generate_src rx env st qsvs hnf.genHyp qs res hfold⟩

/-- the source of a side of the entry of tensor `tn`, located at `tn` -/
theorem paramAt_of_side {rx : String → String → Bool} {env : Env} {st : Recipe.State} {qsvs : Option Qsvs}
    (hnu : namesUnique env.model) (s : Nat) (sg : Subgraph) (i : Nat) (tn : Tensor)
    (hsg : env.model.subgraphs[s]? = some sg) (htn : sg.tensors[i]? = some tn) (c : CO2T) (P : Param)
    (hc : SideAt rx env st qsvs tn.name c) (hP : c.param = some P) :
    ParamAt rx env st qsvs s sg tn c.opId P := by
  obtain ⟨s2, sg2, j, q, k, scope, qs, t, h1, h2, h3, h4, h5, h6, h7, h8⟩ := hc P hP
  obtain ⟨i2, hi2⟩ := List.mem_iff_getElem?.1 h6
  obtain ⟨rfl, rfl, rfl⟩ := loc_unique env.model hnu tn.name s2 s sg2 sg i2 i ⟨h1, t, hi2, h7⟩ ⟨hsg, tn, htn, rfl⟩
  rw [htn] at hi2
  cases hi2
  exact ⟨j, q, k, scope, qs, h2, h5.symm, h3, h4, h8⟩

/-- **where the parameters of a quantized tensor of the output come from** -/
theorem quant_source (rx : String → String → Bool) (env : Env) (st : Recipe.State) (qsvs : Option Qsvs)
    (m' : Model) (tbl : List Param) (hnf : PipelineWF.NF env st)
    (h : quantizePure rx env st qsvs = .ok (m', tbl))
    (s : Nat) (sg' : Subgraph) (hsg' : m'.subgraphs[s]? = some sg') (n : Nat) (tn' : Tensor)
    (htn' : sg'.tensors[n]? = some tn') (p : PId) (hq : tn'.quant = some p) :
    ∃ (sg : Subgraph) (i : Nat) (tn : Tensor) (o : Int) (P P0 : Param),
      env.model.subgraphs[s]? = some sg ∧ sg.tensors[i]? = some tn ∧ Skeleton.root sg' (n : Int) = (i : Int) ∧
      tbl[p]? = some P0 ∧ P0.eqv P = true ∧ (pinfoOf P0).uniform = true ∧ ParamAt rx env st qsvs s sg tn o P ∧
      ((n = i ∧ isConst env.model sg (i : Int) = false ∧ ProducedAt sg i o) ∨
       (n = i ∧ isConst env.model sg (i : Int) = true ∧ ConsumedAt sg i o) ∨
       (sg.tensors.length ≤ n ∧ isConst env.model sg (i : Int) = false ∧ ConsumedAt sg i o ∧
         ∃ ci, newOp ci (i : Int) (n : Int) ∈ sg'.ops ∧ m'.opcodes[ci]? = some Tables.opQuantize)) := by
  obtain ⟨res, tis, S, hsrc⟩ := stages_src rx env st qsvs m' tbl hnf h
  obtain ⟨stF, rfl, F⟩ := TypingGraph.run_fin _ env.model m' tis hnf.wf hnf.tagged S.ok S.cd S.run
  have C := S.ctx
  have htbl := S.tbl_eq
  subst htbl
  have hs : s < env.model.subgraphs.length := by
    rw [← F.base.inv.nsg]; exact (List.getElem?_eq_some_iff.1 hsg').1
  have hsg : env.model.subgraphs[s]? = some env.model.subgraphs[s] := List.getElem?_eq_getElem hs
  generalize env.model.subgraphs[s] = sg at hsg
  have hsgm : sg ∈ env.model.subgraphs := List.mem_of_getElem? hsg
  have hsgOK : GraphStep.SgOK env.model sg := ((GraphStep.modelOK_iff env.model).1 C.wf).2.1 sg hsgm
  have K := F.base.sk.sgs s sg sg' hsg hsg'
  -- from a performed instruction with parameter `p` on tensor `i` to the conclusion, minus the class
  have fin : ∀ (ti : TInsts) (ins : Inst), ti ∈ tis → ins ∈ ti.insts → ti.sg = s → isInsertion ins.xf = true →
      ins.param = some p →
      ∃ (i : Nat) (tn : Tensor) (e : CReq) (c : CO2T) (P P0 : Param), ins.tensor = (i : Int) ∧
        sg.tensors[i]? = some tn ∧ (tn.name, e) ∈ res ∧ Carries e c ins ∧
        (tblOf res)[p]? = some P0 ∧ P0.eqv P = true ∧ ParamAt rx env st qsvs s sg tn c.opId P ∧
        pinfo (ptableOf (tblOf res)) p = some (pinfoOf P0) := by
    intro ti ins hti hins hs' hx hp
    subst hs'
    obtain ⟨i, tn, e, c, P, h1, h2, h3, h4, h5, h6⟩ := inst_side S ti hti ins hins hx p hp sg hsg
    obtain ⟨hplt, heqv, -⟩ := List.findIdx?_eq_some_iff_getElem.1 h6
    have hside : SideAt rx env st qsvs tn.name c := by
      have := hsrc (tn.name, e) h3
      cases h4 with
      | result hc _ _ => exact this.1 c hc
      | const cs x hcs hc _ _ _ _ => exact this.2 cs c hcs hc
      | inserted cs hcs hc _ _ _ => exact this.2 cs c hcs hc
    exact ⟨i, tn, e, c, P, _, h1, h2, h3, h4, List.getElem?_eq_getElem hplt, heqv,
      paramAt_of_side C.nu ti.sg sg i tn hsg h2 c P hside h5,
      by rw [pinfo_ptableOf, List.getElem?_eq_getElem hplt]; rfl⟩
  by_cases hn : n < sg.tensors.length
  · -- an ORIGINAL tensor: written by a retyping instruction
    have ht0 : sg.tensors[n]? = some sg.tensors[n] := List.getElem?_eq_getElem hn
    rcases quant_final _ env.model stF.model tis hnf.wf hnf.tagged S.ok S.run s sg sg' n _ tn' hsg hsg' ht0 htn'
      with h0 | ⟨p', pi, hp', ⟨ti, hti, ins, hins, hs', hten, hr, hpar⟩, hpi, hun⟩
    · rw [S.noq sg hsgm _ (List.getElem_mem hn), hq] at h0
      cases h0
    · rw [hq] at hp'
      cases hp'
      obtain ⟨i, tn, e, c, P, P0, g1, g2, g3, g4, g5, g6, g7, g8⟩ :=
        fin ti ins hti hins hs' (retypes_insertion _ hr) hpar
      have hin : i = n := by omega
      subst hin
      have hun0 : (pinfoOf P0).uniform = true := by
        rw [g8] at hpi
        cases hpi
        exact hun
      have hroot : Skeleton.root sg' (i : Int) = (i : Int) :=
        root_fix_lt sg.tensors.length sg' K.ins _ (by omega)
      have hloc : Loc env.model tn.name s sg i := ⟨hsg, tn, g2, rfl⟩
      refine ⟨sg, i, tn, c.opId, P, P0, hsg, g2, hroot, g5, g6, hun0, g7, ?_⟩
      cases g4 with
      | result hc _ _ =>
        have hpa := ((C.entries _ g3).prod c hc s sg i hloc).2
        exact .inl ⟨rfl, produced_notConst env.model sg i c.opId hsgOK (C.inp sg hsgm) hpa, hpa⟩
      | const cs x hcs hc hcx hxr _ _ =>
        obtain ⟨⟨x', hx', -, hconst⟩, -⟩ := ((C.entries _ g3).cons cs c hcs hc s sg i hloc).1
        rw [hcx] at hx'
        cases hx'
        have hxc : x = .quantTensor ∨ x = .addDequant := by
          cases x <;> simp_all [retypes]
        exact .inr (.inl ⟨rfl, hconst hxc, ((C.entries _ g3).cons cs c hcs hc s sg i hloc).2⟩)
      | inserted cs _ _ _ hxq _ =>
        rw [hxq] at hr
        cases hr
  · -- a NEW tensor: created by an ADD_QUANTIZE instruction
    obtain ⟨sgx, om, c1, c2, -⟩ := F.base.cur s sg hsg
    rw [hsg'] at c1; cases c1
    have hnl : n < sg'.tensors.length := (List.getElem?_eq_some_iff.1 htn').1
    obtain ⟨ti, hti, ins, hins, e1, e2, ⟨tnx, e3, pp, pi, ty, nm, tn0, r1, r2, r3, r4⟩, ⟨ci, e5, e6, e7⟩, -⟩ :=
      F.news s sg sg' om hsg hsg' c2 n (by omega) hnl
    rw [htn'] at e3
    cases e3
    have hxq : ins.xf = .addQuant := by
      by_contra hne
      rw [if_neg hne] at r4
      rw [r4] at hq
      cases hq
    rw [if_pos hxq, ] at r4
    have hpp : pp = p ∧ pi.uniform = true := by
      rw [r4, retype_quant] at hq
      cases hu : pi.uniform
      · rw [hu] at hq; cases hq
      · rw [hu] at hq
        exact ⟨by simpa using hq, rfl⟩
    obtain ⟨hpp, hun⟩ := hpp
    subst hpp
    obtain ⟨i, tn, e, c, P, P0, g1, g2, g3, g4, g5, g6, g7, g8⟩ :=
      fin ti ins hti hins e1 (addsOp_insertion _ e2) r1
    have hun0 : (pinfoOf P0).uniform = true := by
      rw [g8] at r2
      cases r2
      exact hun
    rw [g1] at e5
    have hroot : Skeleton.root sg' (n : Int) = (i : Int) :=
      root_derived sg.tensors.length sg' K.ins _ (i : Int) (n : Int) e5 rfl rfl rfl
    have hloc : Loc env.model tn.name s sg i := ⟨hsg, tn, g2, rfl⟩
    refine ⟨sg, i, tn, c.opId, P, P0, hsg, g2, hroot, g5, g6, hun0, g7, .inr (.inr ⟨by omega, ?_, ?_, ci, e5, ?_⟩)⟩
    · cases g4 with
      | result _ _ hr => rw [hxq] at hr; cases hr
      | const cs x _ _ _ _ hr _ => rw [hxq] at hr; cases hr
      | inserted cs hcs hc hcx _ _ =>
        obtain ⟨sgq, hsgq, hf, -⟩ := (S.typ _ g3).2 cs c hcs hc
        obtain ⟨t', ht', hn', -, hnc'⟩ := hf hcx
        obtain ⟨sq, hsq⟩ := List.mem_iff_getElem?.1 hsgq
        obtain ⟨i', hi'⟩ := List.mem_iff_getElem?.1 ht'
        obtain ⟨rfl, rfl, rfl⟩ := loc_unique env.model C.nu tn.name s sq sg sgq i i' hloc ⟨hsq, t', hi', hn'⟩
        rw [g2] at hi'
        cases hi'
        rw [← constData_isSome env sg i tn g2]; exact hnc'
    · cases g4 with
      | result _ _ hr => rw [hxq] at hr; cases hr
      | const cs x _ _ _ _ hr _ => rw [hxq] at hr; cases hr
      | inserted cs hcs hc _ _ _ => exact ((C.entries _ g3).cons cs c hcs hc s sg i hloc).2
    · rw [e6, TypingGraph.insCode, if_pos hxq]

end ParamsE2E
