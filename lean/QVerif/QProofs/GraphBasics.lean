import QModel.WF
/-!
# Basic facts about the graph-transformation helpers
-/
open Graph Perform

namespace GraphBasics

theorem foldl_len_ge (names : List String) (a : Nat) :
    a ≤ names.foldl (fun a n => a + n.length) a := by
  induction names generalizing a with
  | nil => simp
  | cons x xs ih => simp only [List.foldl_cons]; exact Nat.le_trans (Nat.le_add_right _ _) (ih _)

theorem mem_len_le (names : List String) (n : String) (h : n ∈ names) (a : Nat) :
    n.length ≤ names.foldl (fun a n => a + n.length) a := by
  induction names generalizing a with
  | nil => cases h
  | cons x xs ih =>
    simp only [List.foldl_cons]
    rcases List.mem_cons.mp h with h | h
    · subst h; exact Nat.le_trans (Nat.le_add_left _ _) (foldl_len_ge xs _)
    · exact ih h _

theorem longName_fresh (names : List String) (base : String) : longName names base ∉ names := by
  intro h
  have := mem_len_le names _ h 0
  unfold longName at this
  simp [String.length_append] at this
  omega

theorem uniqueNameAux_fresh (names : List String) (base : String) (fuel k : Nat) :
    uniqueNameAux names base fuel k ∉ names := by
  induction fuel generalizing k with
  | zero => exact longName_fresh names base
  | succ f ih =>
    unfold uniqueNameAux
    simp only []
    split
    · exact ih _
    · rename_i h; simpa using h

/-- the name given to an inserted tensor does not occur in the subgraph (repair D16/D17) -/
theorem uniqueName_fresh (names : List String) (base : String) : uniqueName names base ∉ names := by
  unfold uniqueName
  split
  · exact uniqueNameAux_fresh _ _ _ _
  · rename_i h; simpa using h

/-- `add_op_code` returns an in-range index of the requested builtin code and keeps existing entries -/
theorem addOpCode_spec (codes : List Nat) (code : Nat) :
    (addOpCode codes code).1[(addOpCode codes code).2]? = some code ∧
    ∃ ext, (addOpCode codes code).1 = codes ++ ext := by
  unfold addOpCode
  cases h : codes.findIdx? (· == code) with
  | some i =>
    simp only []
    refine ⟨?_, [], by simp⟩
    have := List.findIdx?_eq_some_iff_getElem.mp h
    obtain ⟨hi, hp, _⟩ := this
    simp at hp
    rw [List.getElem?_eq_getElem hi, hp]
  | none =>
    simp only []
    exact ⟨by simp, [code], rfl⟩

end GraphBasics
