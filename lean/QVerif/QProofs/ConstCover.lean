import QProofs.ArithRounded
/-!
# dequantize ∘ quantize for elements up to (a little more than) half a step OUTSIDE the representable range

`ArithRounded.dq_q_rounded` (C17) bounds `|dequantize(quantize x) - x|` for `x` inside the
representable range `[(qlo - zp)·s, (qmax - zp)·s]`.  The parameters computed from a tensor's min/max
cover `[min, max]` only up to half a step (asymmetric: the zero point is rounded) and up to a relative
`2^-24` (symmetric: the scale `rn(max|x| / qmax)` may round down), so the extreme elements may be
clipped.  `dq_q_ext`: the same kind of bound holds for every `x` within `(1/2 + ε)` steps of the range.
-/
open Num Arith PrecL ArithL RAux

set_option autoImplicit false

namespace ConstCover

/-- clipping towards an interval that contains `y` up to `η` keeps the distance below `max |r - y| η` -/
theorem clip_near_ext (r lo hi : Int) (y η : Rat) (hlh : lo ≤ hi)
    (h1 : (lo:Rat) - η ≤ y) (h2 : y ≤ (hi:Rat) + η) :
    |((clipI r lo hi : Int) : Rat) - y| ≤ max |(r:Rat) - y| η := by
  have hlhR : (lo:Rat) ≤ (hi:Rat) := by exact_mod_cast hlh
  unfold clipI
  split_ifs with a b
  · have ha : (r:Rat) < lo := by exact_mod_cast a
    rcases le_or_gt (lo:Rat) y with hy | hy
    · refine le_trans ?_ (le_max_left _ _)
      rw [abs_of_nonpos (by linarith), abs_of_nonpos (by linarith)]; linarith
    · refine le_trans ?_ (le_max_right _ _)
      rw [abs_of_pos (by linarith)]; linarith
  · have hb : (hi:Rat) < r := by exact_mod_cast b
    rcases le_or_gt y (hi:Rat) with hy | hy
    · refine le_trans ?_ (le_max_left _ _)
      rw [abs_of_nonneg (by linarith), abs_of_nonneg (by linarith)]; linarith
    · refine le_trans ?_ (le_max_right _ _)
      rw [abs_of_neg (by linarith)]; linarith
  · exact le_max_left _ _

/-- core of `dq_q_ext` over integers and rationals: `P = 2^(bits-1)`, clip bounds `L`, `H`, and `x`
    within `(1/2 + ε)` steps of `[(L - zp)·s, (H - zp)·s]` -/
theorem dqq_core_ext (s : Rat) (hs1 : (2:Rat)^(-100:Int) ≤ s) (hs2 : s ≤ (2:Rat)^(100:Int))
    (P L H zp : Int) (hP : 2 ≤ P) (hL : -P ≤ L) (hLH : L ≤ H) (hH : H ≤ P - 1)
    (hz1 : -P ≤ zp) (hz2 : zp ≤ P - 1) (ε : Rat) (hε0 : 0 ≤ ε) (hε1 : ε ≤ 1/2) (x : Rat)
    (hlo : (((L - zp : Int) : Rat) - (1/2 + ε)) * s ≤ x) (hhi : x ≤ (((H - zp : Int) : Rat) + (1/2 + ε)) * s) :
    |Prec.f64.rn (((clipI (rhe (Prec.f32.rn (Prec.f32.rn (x * Prec.f32.rn (1 / s)) + zp))) L H - zp : Int) : Rat) * s) - x|
      ≤ s * (1/2 + ε + 8 * u24 * P + 6 * u24) := by
  have hs0 : 0 < s := lt_of_lt_of_le (zpow_pos (by norm_num) _) hs1
  obtain ⟨w, rfl⟩ : ∃ w, x = w * s := ⟨x / s, by field_simp⟩
  have hwlo : ((L - zp : Int) : Rat) - (1/2 + ε) ≤ w := le_of_mul_le_mul_right hlo hs0
  have hwhi : w ≤ ((H - zp : Int) : Rat) + (1/2 + ε) := le_of_mul_le_mul_right hhi hs0
  have hu := le_of_lt u24_pos
  have i1 : ((-(2 * P) : Int) : Rat) ≤ ((L - zp : Int) : Rat) := by
    have : -(2 * P) ≤ L - zp := by omega
    exact_mod_cast this
  have i2 : ((H - zp : Int) : Rat) ≤ ((2 * P : Int) : Rat) := by
    have : H - zp ≤ 2 * P := by omega
    exact_mod_cast this
  have i3 : ((-P : Int) : Rat) ≤ (L : Rat) := by exact_mod_cast hL
  have i4 : (H : Rat) ≤ ((P : Int) : Rat) := by
    have : H ≤ P := by omega
    exact_mod_cast this
  have i5 : (2 : Rat) ≤ (P : Rat) := by exact_mod_cast hP
  push_cast at i1 i2 i3 hwlo hwhi
  have hw : |w| ≤ 2 * (P : Rat) + 2 := by rw [abs_le]; constructor <;> linarith
  have hy1 : (L : Rat) - (1/2 + ε) ≤ w + zp := by linarith
  have hy2 : w + zp ≤ (H : Rat) + (1/2 + ε) := by linarith
  have hy : |w + zp| ≤ (2 * (P : Rat) + 2) / 2 := by rw [abs_le]; constructor <;> linarith
  have hsum := ArithRounded.sum_core s hs1 hs2 (2 * (P : Rat) + 2) (by linarith) w zp hw hy
  set sm := Prec.f32.rn (Prec.f32.rn (w * s * Prec.f32.rn (1 / s)) + zp) with hsm
  have herr := Rounding.rhe_err sm
  have hclip := clip_near_ext (rhe sm) L H (w + zp) (1/2 + ε) hLH hy1 hy2
  obtain ⟨c1, c2⟩ := ArithRounded.clipI_range (rhe sm) L H hLH
  set cl := clipI (rhe sm) L H with hcl
  have hr : |((rhe sm : Int) : Rat) - (w + zp)| ≤ 1/2 + 3 * u24 * (2 * (P : Rat) + 2) := by
    have e : ((rhe sm : Int) : Rat) - (w + zp) = (((rhe sm : Int) : Rat) - sm) + (sm - (w + zp)) := by ring
    rw [e]; exact le_trans (abs_add_le _ _) (add_le_add herr hsum)
  have hcy : |(cl : Rat) - (w + zp)| ≤ 1/2 + ε + 3 * u24 * (2 * (P : Rat) + 2) := by
    refine le_trans hclip (max_le ?_ ?_)
    · linarith
    · have : 0 ≤ 3 * u24 * (2 * (P : Rat) + 2) := by positivity
      linarith
  obtain ⟨d4, hd4, e4⟩ := int_mul_delta .f64 (Or.inr rfl) (cl - zp) s hs1
  rw [e4]
  have e : ((cl - zp : Int) : Rat) * s * (1 + d4) - w * s
      = s * (((cl - zp : Int) : Rat) * d4 + ((cl : Rat) - (w + zp))) := by push_cast; ring
  rw [e, abs_mul, abs_of_pos hs0]
  apply mul_le_mul_of_nonneg_left _ (le_of_lt hs0)
  have hk : |((cl - zp : Int) : Rat)| ≤ 2 * (P : Rat) := by
    have h : |cl - zp| ≤ 2 * P := by rw [abs_le]; omega
    exact_mod_cast h
  have hkd : |((cl - zp : Int) : Rat) * d4| ≤ 2 * (P : Rat) * u24 := by
    rw [abs_mul]; exact mul_le_mul hk hd4 (abs_nonneg _) (by linarith)
  have := le_trans (abs_add_le (((cl - zp : Int) : Rat) * d4) ((cl : Rat) - (w + zp))) (add_le_add hkd hcy)
  unfold u24 at *
  linarith

/-- **dequantize ∘ quantize for elements up to `1/2 + ε` steps outside the representable range**
    (`ε ≤ 12·2^-24·2^(bits-1)`): the error is at most `s·(1/2 + 2^(bits+4)·2^-24)` -/
theorem dq_q_ext (bits : Nat) (hb2 : 2 ≤ bits) (hb16 : bits ≤ 16) (narrow : Bool)
    (zw : Nat) (hzw : zw = 8 ∨ zw = 16)
    (s : Rat) (hs1 : (2:Rat)^(-100:Int) ≤ s) (hs2 : s ≤ (2:Rat)^(100:Int))
    (zp : Int) (hz1 : qmin bits ≤ zp) (hz2 : zp ≤ qmax bits)
    (ε : Rat) (hε0 : 0 ≤ ε) (hε : ε ≤ 12 * u24 * (2:Rat)^(bits-1)) (x : Rat)
    (hlo : (((qmin bits + (if narrow then 1 else 0) - zp : Int) : Rat) - (1/2 + ε)) * s ≤ x)
    (hhi : x ≤ (((qmax bits - zp : Int) : Rat) + (1/2 + ε)) * s) :
    |dqVal true (storageBits bits) zw .f32 (roundClip bits narrow (qSum .f32 .f32 zw x s zp)) zp s - x|
      ≤ s * (1/2 + (2:Rat)^(bits + 4) * ArithRounded.u32) := by
  obtain ⟨hqmin, hqmax, hi2, hi32768⟩ := range_bounds bits hb2 hb16
  obtain ⟨hp1, hp2⟩ := pow_bounds bits hb2 hb16
  have hs0 : 0 < s := lt_of_lt_of_le (zpow_pos (by norm_num) _) hs1
  have hL0 : qmin bits ≤ qmin bits + (if narrow then 1 else 0) := by split_ifs <;> omega
  have hLH : qmin bits + (if narrow then 1 else 0) ≤ qmax bits := by split_ifs <;> omega
  have hsum : qSum .f32 .f32 zw x s zp
      = Prec.f32.rn (Prec.f32.rn (x * Prec.f32.rn (1 / s)) + zp) := by
    rcases hzw with rfl | rfl <;> rfl
  rw [hsum, roundClip_eq bits hb2 (by omega) narrow]
  generalize hLdef : qmin bits + (if narrow then 1 else 0) = L at hlo hL0 hLH ⊢
  obtain ⟨c1, c2⟩ := ArithRounded.clipI_range (rhe (Prec.f32.rn (Prec.f32.rn (x * Prec.f32.rn (1 / s)) + zp)))
    L (qmax bits) hLH
  have hsb : storageBits bits = 8 ∨ storageBits bits = 16 := by
    unfold storageBits; split_ifs <;> simp
  have hsub : subWidth true (storageBits bits) zw = 32 := by
    rcases hsb with h | h <;> rw [h] <;> rcases hzw with rfl | rfl <;> rfl
  have hd : ∀ q : Int, -40000 ≤ q → q ≤ 40000 →
      dqVal true (storageBits bits) zw .f32 q zp s = Prec.f64.rn (((q - zp : Int) : Rat) * s) := by
    intro q hq1 hq2
    unfold dqVal
    rw [hsub, wrap32 (q - zp) (by omega) (by omega)]
    rfl
  rw [hd _ (by omega) (by omega)]
  have hε1 : ε ≤ 1/2 := by
    have : 12 * u24 * (2:Rat)^(bits-1) ≤ 12 * u24 * 32768 :=
      mul_le_mul_of_nonneg_left hp2 (by norm_num [u24])
    unfold u24 at *
    linarith
  have core := dqq_core_ext s hs1 hs2 ((2:Int)^(bits-1)) L (qmax bits) zp hi2 (by omega) hLH (by omega)
    (by omega) (by omega) ε hε0 hε1 x hlo hhi
  refine le_trans core (mul_le_mul_of_nonneg_left ?_ (le_of_lt hs0))
  have e1 : (2:Rat)^(bits + 4) = 32 * (2:Rat)^(bits-1) := by
    rw [show bits + 4 = (bits - 1) + 5 by omega, pow_add]; norm_num; ring
  have e2 : ArithRounded.u32 = u24 := by unfold ArithRounded.u32; exact u24_eq.symm
  rw [e1, e2]; push_cast
  unfold u24 at *
  linarith

/-! ## the parameters computed from min/max cover `[min, max]` up to `1/2 + 12·2^-24·2^(bits-1)` steps -/

/-- symmetric: `s = rn(B0 / Q)`, `Q = qmax` -/
theorem sym_core (Q : Rat) (hQ1 : 1 ≤ Q) (hQ : Q ≤ 32767) (B0 : Rat) (hB : 1/40000 ≤ B0) :
    (2:Rat)^(-100:Int) ≤ Prec.f32.rn (B0 / Q) ∧
    (B0 ≤ (2:Rat)^(99:Int) → Prec.f32.rn (B0 / Q) ≤ (2:Rat)^(100:Int)) ∧
    B0 ≤ (Q + 1/2) * Prec.f32.rn (B0 / Q) := by
  have hQpos : 0 < Q := by linarith
  have hB0 : 0 < B0 := by linarith
  have hq : 1/40000/32767 ≤ B0 / Q := by
    rw [div_le_div_iff₀ (by norm_num) hQpos]; nlinarith
  have hqpos : 0 < B0 / Q := by
    have : (0:Rat) < 1/40000/32767 := by norm_num
    linarith
  have hrel := rn_rel24 .f32 (Or.inl rfl) (B0 / Q) (by
    rw [abs_of_pos hqpos]
    have : (2:Rat)^(-126:Int) ≤ 1/10000000000 := small126
    have : (1:Rat)/10000000000 ≤ 1/40000/32767 := by norm_num
    linarith)
  rw [abs_of_pos hqpos] at hrel
  set s := Prec.f32.rn (B0 / Q) with hs
  have hlo : B0 / Q * (1 - u24) ≤ s := by have := (abs_le.mp hrel).1; linarith
  have hhi : s ≤ B0 / Q * (1 + u24) := by have := (abs_le.mp hrel).2; linarith
  have hdiv1 : B0 / Q ≤ B0 := div_le_self (le_of_lt hB0) hQ1
  have hdiv2 : B0 / 32767 ≤ B0 / Q := div_le_div_of_nonneg_left (le_of_lt hB0) hQpos hQ
  have hX : B0 * (1 - u24) ≤ s * Q := by
    have h := mul_le_mul_of_nonneg_right hlo (le_of_lt hQpos)
    have e : B0 / Q * (1 - u24) * Q = B0 * (1 - u24) := by field_simp
    rw [e] at h; exact h
  have h100 : (2:Rat)^(-100:Int) ≤ 1/40000/32767 * (1 - u24) := by norm_num [u24]
  refine ⟨?_, ?_, ?_⟩
  · have : 1/40000/32767 * (1 - u24) ≤ B0 / Q * (1 - u24) :=
      mul_le_mul_of_nonneg_right hq (by norm_num [u24])
    exact le_trans h100 (le_trans this hlo)
  · intro hB99
    have e : (2:Rat)^(100:Int) = 2 * (2:Rat)^(99:Int) := by norm_num
    have hp : (0:Rat) ≤ (2:Rat)^(99:Int) := by positivity
    have h1 : B0 / Q * (1 + u24) ≤ B0 * (1 + u24) := mul_le_mul_of_nonneg_right hdiv1 (by norm_num [u24])
    have h2 : B0 * (1 + u24) ≤ (2:Rat)^(99:Int) * (1 + u24) := mul_le_mul_of_nonneg_right hB99 (by norm_num [u24])
    rw [e]
    unfold u24 at *
    linarith
  · have e : (Q + 1/2) * s = s * Q + s / 2 := by ring
    rw [e]
    have h3 : B0 / 32767 * (1 - u24) ≤ s := by
      have : B0 / 32767 * (1 - u24) ≤ B0 / Q * (1 - u24) := mul_le_mul_of_nonneg_right hdiv2 (by norm_num [u24])
      linarith
    have h4 : B0 / 32767 = B0 * (1/32767) := by ring
    rw [h4] at h3
    unfold u24 at *
    linarith

theorem maxR_le_add (a c : Rat) (ha : 0 ≤ a) (hc : 0 ≤ c) : maxR a c ≤ a + c := by
  unfold maxR; split_ifs <;> linarith

/-- asymmetric: rational core, in the shape of `ArithRounded.zp_core` -/
theorem asym_core (P : Rat) (hP2 : 2 ≤ P) (hP : P ≤ 32768)
    (bmin bmax mb : Rat) (h0 : bmin ≤ 0) (h1 : 0 ≤ bmax) (hmb : 1/40000 ≤ mb) (hmb1 : mb ≤ 1)
    (sc : Rat) (hsc : sc = Prec.f32.rn (maxR (Prec.f32.rn (bmax - bmin)) mb / (P - 1 - -P)))
    (zp : Int) (hzp : |(zp:Rat) - Prec.f32.rn (-P - Prec.f32.rn (bmin / sc))| ≤ 1/2) :
    (2:Rat)^(-100:Int) ≤ sc ∧ (bmax - bmin ≤ (2:Rat)^(100:Int) → sc ≤ (2:Rat)^(100:Int)) ∧
    ((-P - zp) - (1/2 + 12 * u24 * P)) * sc ≤ bmin ∧ bmax ≤ ((P - 1 - zp) + (1/2 + 12 * u24 * P)) * sc := by
  have hN : P - 1 - -P = 2 * P - 1 := by ring
  rw [hN] at hsc
  set D := bmax - bmin with hD
  set b := maxR (Prec.f32.rn D) mb with hb
  set N := 2 * P - 1 with hNdef
  have hs126 := small126
  have hD0 : 0 ≤ D := by linarith
  have hb1 : 1/40000 ≤ b := le_trans hmb (maxR_ge_right _ _)
  have hN3 : 3 ≤ N := by linarith
  have hN65 : N ≤ 65535 := by linarith
  have hNpos : 0 < N := by linarith
  have hbpos : 0 < b := by linarith
  have hq : 1/40000/65535 ≤ b / N := by
    rw [div_le_div_iff₀ (by norm_num) hNpos]; nlinarith
  have hbNpos : 0 < b / N := by
    have : (0:Rat) < 1/40000/65535 := by norm_num
    linarith
  have hscrel := rn_rel24 .f32 (Or.inl rfl) (b / N) (by
    rw [abs_of_pos hbNpos]
    have : (1:Rat)/10000000000 ≤ 1/40000/65535 := by norm_num
    linarith)
  rw [abs_of_pos hbNpos, ← hsc] at hscrel
  have hsclo : b / N * (1 - u24) ≤ sc := by have := (abs_le.mp hscrel).1; linarith
  have hschi : sc ≤ b / N * (1 + u24) := by have := (abs_le.mp hscrel).2; linarith
  have hscpos : 0 < sc := by
    have : 0 < b / N * (1 - u24) := mul_pos hbNpos (by norm_num [u24])
    linarith
  have hX1 : b * (1 - u24) ≤ sc * N := by
    have h := mul_le_mul_of_nonneg_right hsclo (le_of_lt hNpos)
    have e : b / N * (1 - u24) * N = b * (1 - u24) := by field_simp
    rw [e] at h; exact h
  have hbD : D * (1 - u24) ≤ b := by
    have hb2 : Prec.f32.rn D ≤ b := maxR_ge_left _ _
    by_cases hDn : (2:Rat)^(-126:Int) ≤ D
    · have h := rn_rel24 .f32 (Or.inl rfl) D (by rwa [abs_of_nonneg hD0])
      rw [abs_of_nonneg hD0] at h
      have := (abs_le.mp h).1
      linarith
    · have hDs : D < (2:Rat)^(-126:Int) := not_le.mp hDn
      have : D * (1 - u24) ≤ D := by
        have : 0 ≤ D * u24 := mul_nonneg hD0 (le_of_lt u24_pos)
        linarith
      have := lt_of_lt_of_le hDs hs126
      linarith
  have hbm : -bmin ≤ D := by linarith
  -- the products that appear below, as atoms
  obtain ⟨X, hXdef⟩ : ∃ X, X = sc * N := ⟨_, rfl⟩
  obtain ⟨Ps, hPsdef⟩ : ∃ Ps, Ps = P * sc := ⟨_, rfl⟩
  rw [← hXdef] at hX1
  have hX0 : 0 ≤ X := by rw [hXdef]; exact le_of_lt (mul_pos hscpos hNpos)
  have hPs0 : 0 ≤ Ps := by rw [hPsdef]; exact le_of_lt (mul_pos (by linarith) hscpos)
  have hXPs : X = 2 * Ps - sc := by rw [hXdef, hPsdef, hNdef]; ring
  have hDX : D ≤ X * (1 + 3 * u24) := by
    unfold u24 at hX1 hbD ⊢
    linarith
  have hkey : -bmin ≤ X * (1 + 3 * u24) := le_trans hbm hDX
  -- the quotient
  obtain ⟨t, htdef⟩ : ∃ t, t = bmin / sc := ⟨_, rfl⟩
  have ht0 : t ≤ 0 := by rw [htdef]; exact div_nonpos_of_nonpos_of_nonneg h0 (le_of_lt hscpos)
  have htlo : -(N * (1 + 3 * u24)) ≤ t := by
    rw [htdef, le_div_iff₀ hscpos]
    have : -(N * (1 + 3 * u24)) * sc = -(X * (1 + 3 * u24)) := by rw [hXdef]; ring
    rw [this]; linarith
  have hts : t * sc = bmin := by rw [htdef]; field_simp
  rw [← htdef] at hzp
  have hq1 := rn_abs24 .f32 (Or.inl rfl) t
  rw [abs_of_nonpos ht0] at hq1
  obtain ⟨quo, hquodef⟩ : ∃ quo, quo = Prec.f32.rn t := ⟨_, rfl⟩
  rw [← hquodef] at hq1 hzp
  have hq1' := abs_le.mp hq1
  have ha := rn_abs24 .f32 (Or.inl rfl) (-P - quo)
  have habs : |-P - quo| ≤ 3 * P + 1 := by
    rw [abs_le]
    unfold u24 tiny at *
    constructor <;> linarith [hq1'.1, hq1'.2]
  obtain ⟨zpF, hzpFdef⟩ : ∃ zpF, zpF = Prec.f32.rn (-P - quo) := ⟨_, rfl⟩
  rw [← hzpFdef] at ha hzp
  have ha' := abs_le.mp ha
  have hzp' := abs_le.mp hzp
  have habs' := abs_le.mp habs
  -- e = zp - (-P - t)
  have he : |(zp:Rat) - (-P - t)| ≤ 1/2 + 6 * u24 * P := by
    have hua : u24 * |-P - quo| ≤ u24 * (3 * P + 1) := mul_le_mul_of_nonneg_left habs (le_of_lt u24_pos)
    rw [abs_le]
    unfold u24 tiny at *
    constructor <;> linarith [hq1'.1, hq1'.2, ha'.1, ha'.2, hzp'.1, hzp'.2]
  obtain ⟨e, hedef⟩ : ∃ e, e = (zp:Rat) - (-P - t) := ⟨_, rfl⟩
  rw [← hedef] at he
  obtain ⟨es, hesdef⟩ : ∃ es, es = e * sc := ⟨_, rfl⟩
  have hes : -(sc / 2 + 6 * u24 * Ps) ≤ es ∧ es ≤ sc / 2 + 6 * u24 * Ps := by
    have he' := abs_le.mp he
    have e1 : (1/2 + 6 * u24 * P) * sc = sc / 2 + 6 * u24 * Ps := by rw [hPsdef]; ring
    constructor
    · have := mul_le_mul_of_nonneg_right he'.1 (le_of_lt hscpos)
      rw [hesdef]; linarith
    · have := mul_le_mul_of_nonneg_right he'.2 (le_of_lt hscpos)
      rw [hesdef]; linarith
  refine ⟨?_, ?_, ?_, ?_⟩
  · have h100 : (2:Rat)^(-100:Int) ≤ 1/40000/65535 * (1 - u24) := by norm_num [u24]
    have : 1/40000/65535 * (1 - u24) ≤ b / N * (1 - u24) :=
      mul_le_mul_of_nonneg_right hq (by norm_num [u24])
    exact le_trans h100 (le_trans this hsclo)
  · intro hD100
    have hrn := rn_abs24 .f32 (Or.inl rfl) D
    rw [abs_of_nonneg hD0] at hrn
    have hrn' := (abs_le.mp hrn).2
    have hrn0 : 0 ≤ Prec.f32.rn D := PrecL.rn_nonneg .f32 hD0
    have hbb : b ≤ Prec.f32.rn D + mb := maxR_le_add _ _ hrn0 (by linarith)
    have hdiv : b / N ≤ b / 3 := div_le_div_of_nonneg_left (le_of_lt hbpos) (by norm_num) hN3
    have h3 : b / 3 = b * (1/3) := by ring
    have h1 : b / N * (1 + u24) ≤ b / 3 * (1 + u24) := mul_le_mul_of_nonneg_right hdiv (by norm_num [u24])
    have e100 : (2:Rat)^(100:Int) = 1267650600228229401496703205376 := by norm_num
    rw [e100] at hD100 ⊢
    rw [h3] at h1
    unfold u24 tiny at *
    linarith
  · have e1 : ((-P - zp) - (1/2 + 12 * u24 * P)) * sc = bmin - es - sc / 2 - 12 * u24 * Ps := by
      rw [← hts, hesdef, hedef, hPsdef]; ring
    rw [e1]
    unfold u24 at *
    linarith [hes.1]
  · have e1 : ((P - 1 - zp) + (1/2 + 12 * u24 * P)) * sc = X + bmin - es + sc / 2 + 12 * u24 * Ps := by
      rw [← hts, hesdef, hedef, hPsdef, hXdef, hNdef]; ring
    rw [e1]
    have hbmax : bmax = D + bmin := by rw [hD]; ring
    rw [hbmax]
    unfold u24 at *
    linarith [hes.2]

/-! ## the scalar core `zpScale1` -/

theorem maxR_le (a c m : Rat) (ha : a ≤ m) (hc : c ≤ m) : maxR a c ≤ m := by
  unfold maxR; split_ifs <;> assumption

theorem rn32_le (x : Rat) (hx : 0 ≤ x) : Prec.f32.rn x ≤ x * (1 + u24) + tiny := by
  have h := rn_abs24 .f32 (Or.inl rfl) x
  rw [abs_of_nonneg hx] at h
  have := (abs_le.mp h).2
  linarith

theorem minBound32_le_one : minBound .f32 ≤ 1 := by
  unfold minBound weakScalar
  simp only []
  have h64 := rn_abs24 .f64 (Or.inr rfl) (1/10000)
  rw [abs_of_pos (by norm_num : (0:Rat) < 1/10000)] at h64
  have h64' := (abs_le.mp h64).2
  have h0 : 0 ≤ Prec.f64.rn (1/10000) := PrecL.rn_nonneg .f64 (by norm_num)
  have h32 := rn32_le _ h0
  have hu : Prec.f64.rn (1/10000) * (1 + u24) ≤ (1/10000 + (u24 * (1/10000) + tiny)) * (1 + u24) :=
    mul_le_mul_of_nonneg_right (by linarith) (by norm_num [u24])
  have : (1/10000 + (u24 * (1/10000) + tiny)) * (1 + u24) + tiny ≤ 1 := by norm_num [u24, tiny]
  linarith

/-- **the parameters of one channel cover its `[min, max]`** up to `1/2 + 12·2^-24·2^(bits-1)` steps;
    they are in range, and the scale is in `[2^-100, 2^100]` when `|min|, |max| ≤ 2^99` -/
theorem cover (bits : Nat) (hb2 : 2 ≤ bits) (hb16 : bits ≤ 16) (sym : Bool) (mn mx : Rat) (hmm : mn ≤ mx)
    (zp : Int) (s : Rat) (h : zpScale1 .f32 bits sym mn mx = .ok (zp, s))
    (hmn : |mn| ≤ (2:Rat)^(99:Int)) (hmx : |mx| ≤ (2:Rat)^(99:Int)) :
    qmin bits ≤ zp ∧ zp ≤ qmax bits ∧ (2:Rat)^(-100:Int) ≤ s ∧ s ≤ (2:Rat)^(100:Int) ∧
    ∀ x, mn ≤ x → x ≤ mx →
      (((qmin bits + (if sym then 1 else 0) - zp : Int) : Rat) - (1/2 + 12 * u24 * (2:Rat)^(bits-1))) * s ≤ x ∧
      x ≤ (((qmax bits - zp : Int) : Rat) + (1/2 + 12 * u24 * (2:Rat)^(bits-1))) * s := by
  obtain ⟨hp1, hp2⟩ := pow_bounds bits hb2 hb16
  obtain ⟨hqmin, hqmax, hi2, hi32768⟩ := range_bounds bits hb2 hb16
  have hmb := minBound_ge .f32 (by decide)
  have hmb1 := minBound32_le_one
  have hqx := qmaxF_eq bits (by omega)
  have hqn := qminF_eq bits (by omega)
  have hqminR : ((qmin bits : Int) : Rat) = -(2:Rat)^(bits-1) := by rw [hqmin]; push_cast; ring
  have hqmaxR : ((qmax bits : Int) : Rat) = (2:Rat)^(bits-1) - 1 := by rw [hqmax]; push_cast; ring
  have h99 : (1:Rat) ≤ (2:Rat)^(99:Int) := by norm_num
  have hu12 : 0 ≤ 12 * u24 * (2:Rat)^(bits-1) :=
    mul_nonneg (mul_nonneg (by norm_num) (le_of_lt u24_pos)) (by positivity)
  cases sym with
  | true =>
    unfold zpScale1 at h
    simp only [if_true] at h
    split at h
    swap; · cases h
    cases h
    unfold symScale
    rw [hqx]
    set B0 := symBound .f32 mn mx with hB0
    have hB : 1/40000 ≤ B0 := le_trans hmb (maxR_ge_right _ _)
    have hB99 : B0 ≤ (2:Rat)^(99:Int) := by
      refine maxR_le _ _ _ (maxR_le _ _ _ ?_ ?_) (le_trans hmb1 h99)
      · rw [absR_eq]; exact hmn
      · rw [absR_eq]; exact hmx
    obtain ⟨s1, s2, s3⟩ := sym_core ((2:Rat)^(bits-1) - 1) (by linarith) (by linarith) B0 hB
    set s := Prec.f32.rn (B0 / ((2:Rat)^(bits-1) - 1)) with hs
    have hs0 : 0 < s := lt_of_lt_of_le (zpow_pos (by norm_num) _) s1
    have hq0 : qmin bits ≤ 0 ∧ (0:Int) ≤ qmax bits := by omega
    refine ⟨hq0.1, hq0.2, s1, s2 hB99, ?_⟩
    intro x hx1 hx2
    have hxB : |x| ≤ B0 := by
      have h1 : absR mn ≤ B0 := le_trans (maxR_ge_left _ _) (maxR_ge_left _ _)
      have h2 : absR mx ≤ B0 := le_trans (maxR_ge_right _ _) (maxR_ge_left _ _)
      rw [absR_eq] at h1 h2
      rw [abs_le] at h1 h2 ⊢
      constructor <;> linarith [h1.1, h1.2, h2.1, h2.2]
    have hx' := abs_le.mp hxB
    have e1 : (((qmin bits + (if true = true then 1 else 0) - 0 : Int) : Rat) - (1/2 + 12 * u24 * (2:Rat)^(bits-1))) * s
        = -(((2:Rat)^(bits-1) - 1 + 1/2) * s) - 12 * u24 * (2:Rat)^(bits-1) * s := by
      simp only [if_true]; push_cast; rw [hqminR]; ring
    have e2 : (((qmax bits - 0 : Int) : Rat) + (1/2 + 12 * u24 * (2:Rat)^(bits-1))) * s
        = ((2:Rat)^(bits-1) - 1 + 1/2) * s + 12 * u24 * (2:Rat)^(bits-1) * s := by
      push_cast; rw [hqmaxR]; ring
    have hpos : 0 ≤ 12 * u24 * (2:Rat)^(bits-1) * s := mul_nonneg hu12 (le_of_lt hs0)
    rw [e1, e2]
    constructor <;> linarith [hx'.1, hx'.2]
  | false =>
    have hzr := ArithRounded.zp_in_range .f32 (Or.inl rfl) bits hb2 hb16 mn mx hmm zp s h
    unfold zpScale1 at h
    simp only [Bool.false_eq_true, if_false] at h
    split at h
    swap; · cases h
    cases h
    have hPex : Prec.f32.rn (-(2:Rat)^(bits-1)) = -(2:Rat)^(bits-1) := by
      have := rn_int_exact .f32 (qmin bits) (by
        have : (16777216:Nat) ≤ 2^Prec.f32.p := by norm_num [Prec.p]
        generalize (2:Int)^(bits-1) = Q at *
        omega)
      rwa [hqminR] at this
    have core := ArithRounded.zp_core .f32 (Or.inl rfl) ((2:Rat)^(bits-1)) hp1 hp2 hPex (minR mn 0) (maxR mx 0)
      (minBound .f32) (minR_le_right _ _) (maxR_ge_right _ _) hmb
    have hsc : asymScale .f32 bits mn mx
        = Prec.f32.rn (maxR (Prec.f32.rn (maxR mx 0 - minR mn 0)) (minBound .f32)
            / ((2:Rat)^(bits-1) - 1 - -(2:Rat)^(bits-1))) := by
      unfold asymScale asymBound asymDiff
      rw [hqx, hqn]
    have hzf : asymZpF .f32 bits mn mx
        = Prec.f32.rn (-(2:Rat)^(bits-1) - Prec.f32.rn (minR mn 0 / asymScale .f32 bits mn mx)) := by
      unfold asymZpF asymQuo
      rw [hqn]
    rw [← hsc, ← hzf] at core
    obtain ⟨c1, c2⟩ := core
    have r1 : qmin bits ≤ rhe (asymZpF .f32 bits mn mx) := by
      have := Rounding.rhe_mono (show ((qmin bits : Int) : Rat) ≤ asymZpF .f32 bits mn mx by
        rw [hqminR]; exact c1)
      rwa [Rounding.rhe_int] at this
    have r2 : rhe (asymZpF .f32 bits mn mx) ≤ qmax bits := by
      have herr := (abs_le.mp (Rounding.rhe_err (asymZpF .f32 bits mn mx))).2
      have h3 : ((rhe (asymZpF .f32 bits mn mx) : Int) : Rat) < ((qmax bits + 1 : Int) : Rat) := by
        push_cast; rw [hqmaxR]; linarith
      have h4 : rhe (asymZpF .f32 bits mn mx) < qmax bits + 1 := by exact_mod_cast h3
      omega
    have hsto := storage_ge bits (by omega)
    have hpw : (2:Int)^(bits-1) ≤ (2:Int)^(storageBits bits - 1) :=
      pow_le_pow_right₀ (by norm_num) (by omega)
    have hzp : asymZp .f32 bits mn mx = rhe (asymZpF .f32 bits mn mx) := by
      unfold asymZp; exact wrapInt_id _ (by omega) _ (by omega) (by omega)
    have hzerr : |((asymZp .f32 bits mn mx : Int) : Rat)
        - Prec.f32.rn (-(2:Rat)^(bits-1) - Prec.f32.rn (minR mn 0 / asymScale .f32 bits mn mx))| ≤ 1/2 := by
      rw [← hzf, hzp]; exact Rounding.rhe_err _
    obtain ⟨a1, a2, a3, a4⟩ := asym_core ((2:Rat)^(bits-1)) hp1 hp2 (minR mn 0) (maxR mx 0) (minBound .f32)
      (minR_le_right _ _) (maxR_ge_right _ _) hmb hmb1 (asymScale .f32 bits mn mx) hsc (asymZp .f32 bits mn mx) hzerr
    have hD100 : maxR mx 0 - minR mn 0 ≤ (2:Rat)^(100:Int) := by
      have e : (2:Rat)^(100:Int) = 2 * (2:Rat)^(99:Int) := by norm_num
      have h1 : maxR mx 0 ≤ (2:Rat)^(99:Int) := maxR_le _ _ _ (le_trans (le_abs_self _) hmx) (by positivity)
      have h2 : -(2:Rat)^(99:Int) ≤ minR mn 0 := by
        unfold minR; split_ifs
        · have : (0:Rat) ≤ (2:Rat)^(99:Int) := by positivity
          linarith
        · have := (abs_le.mp hmn).1; linarith
      rw [e]; linarith
    refine ⟨hzr.1, hzr.2, a1, a2 hD100, ?_⟩
    intro x hx1 hx2
    have hs0 : 0 < asymScale .f32 bits mn mx := lt_of_lt_of_le (zpow_pos (by norm_num) _) a1
    have e1 : (((qmin bits + (if false = true then 1 else 0) - asymZp .f32 bits mn mx : Int) : Rat)
          - (1/2 + 12 * u24 * (2:Rat)^(bits-1))) * asymScale .f32 bits mn mx
        = ((-(2:Rat)^(bits-1) - (asymZp .f32 bits mn mx : Rat)) - (1/2 + 12 * u24 * (2:Rat)^(bits-1)))
            * asymScale .f32 bits mn mx := by
      simp only [Bool.false_eq_true, if_false]; push_cast; rw [hqminR]; ring
    have e2 : (((qmax bits - asymZp .f32 bits mn mx : Int) : Rat) + (1/2 + 12 * u24 * (2:Rat)^(bits-1)))
          * asymScale .f32 bits mn mx
        = (((2:Rat)^(bits-1) - 1 - (asymZp .f32 bits mn mx : Rat)) + (1/2 + 12 * u24 * (2:Rat)^(bits-1)))
            * asymScale .f32 bits mn mx := by
      push_cast; rw [hqmaxR]
    rw [e1, e2]
    have hb1 : minR mn 0 ≤ mn := minR_le_left _ _
    have hb2' : mx ≤ maxR mx 0 := maxR_ge_left _ _
    constructor <;> linarith

/-- **dequantize ∘ quantize of ANY value between the channel's min and max** is within
    `s·(1/2 + 2^(bits+4)·2^-24)` of the value, for the parameters `tensor_zp_scale_from_min_max` computes
    from that min/max in float32 (2..16 bits, either symmetry, `|min|, |max| ≤ 2^99`): elements that are
    clipped included -/
theorem decode_minmax (bits : Nat) (hb2 : 2 ≤ bits) (hb16 : bits ≤ 16) (sym : Bool)
    (zw : Nat) (hzw : zw = 8 ∨ zw = 16) (mn mx : Rat) (hmm : mn ≤ mx)
    (zp : Int) (s : Rat) (h : zpScale1 .f32 bits sym mn mx = .ok (zp, s))
    (hmn : |mn| ≤ (2:Rat)^(99:Int)) (hmx : |mx| ≤ (2:Rat)^(99:Int)) (x : Rat) (hx1 : mn ≤ x) (hx2 : x ≤ mx) :
    |dqVal true (storageBits bits) zw .f32 (roundClip bits sym (qSum .f32 .f32 zw x s zp)) zp s - x|
      ≤ s * (1/2 + (2:Rat)^(bits + 4) * ArithRounded.u32) := by
  obtain ⟨z1, z2, s1, s2, hcov⟩ := cover bits hb2 hb16 sym mn mx hmm zp s h hmn hmx
  obtain ⟨c1, c2⟩ := hcov x hx1 hx2
  exact dq_q_ext bits hb2 hb16 sym zw hzw s s1 s2 zp z1 z2 (12 * u24 * (2:Rat)^(bits-1))
    (mul_nonneg (mul_nonneg (by norm_num) (le_of_lt u24_pos)) (by positivity)) (le_refl _) x c1 c2

end ConstCover
