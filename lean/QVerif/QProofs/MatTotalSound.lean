import QProofs.MatTotalMain
/-!
# The numeric raise sites are real: a numeric site makes `Mat.generate` fail (C08)

Converse of the inventory for the sites tagged `true`: whenever a numeric site holds, the computation it
belongs to ends in an error (`Fails`) -- possibly a different one, raised earlier in program order.
-/
open Graph Mat Arith Cfg Num Nd Pipe PipeNF GraphStep GenInstsOK

set_option autoImplicit false

namespace MatTotal

/-- the computation ends in an error -/
def Fails {α} (x : PyM α) : Prop := ∃ e, x = .error e

theorem fails_or_ok {α} (x : PyM α) : Fails x ∨ ∃ a, x = .ok a := by
  cases x with
  | error e => exact .inl ⟨e, rfl⟩
  | ok a => exact .inr ⟨a, rfl⟩

theorem Fails.error {α} (e : PyErr) : Fails (.error e : PyM α) := ⟨e, rfl⟩

theorem Fails.bind_left {α β} {x : PyM α} {f : α → PyM β} (h : Fails x) : Fails (x >>= f) := by
  obtain ⟨e, he⟩ := h
  exact ⟨e, by rw [he]; rfl⟩

theorem Fails.bind_ok {α β} {x : PyM α} {f : α → PyM β} {a : α} (hx : x = .ok a) (h : Fails (f a)) : Fails (x >>= f) := by
  rw [hx]; exact h

/-- step through a bind: the first computation fails, or it returns and the rest must fail -/
theorem Fails.bind {α β} {x : PyM α} {f : α → PyM β} (h : ∀ a, x = .ok a → Fails (f a)) : Fails (x >>= f) := by
  rcases fails_or_ok x with hf | ⟨a, ha⟩
  · exact hf.bind_left
  · exact Fails.bind_ok ha (h a ha)

theorem Fails.mapM {α β} (f : α → PyM β) : ∀ (l : List α) (a : α), a ∈ l → Fails (f a) → Fails (l.mapM f) := by
  intro l
  induction l with
  | nil => intro a ha; cases ha
  | cons x xs ih =>
    intro a ha hf
    rw [List.mapM_cons]
    rcases List.mem_cons.1 ha with rfl | ha
    · exact hf.bind_left
    · refine Fails.bind (fun b _ => ?_)
      exact (ih a ha hf).bind_left

theorem Fails.foldlM {α β} (f : β → α → PyM β) : ∀ (pre : List α) (x : α) (post : List α) (init s : β),
    pre.foldlM f init = .ok s → Fails (f s x) → Fails ((pre ++ x :: post).foldlM f init) := by
  intro pre
  induction pre with
  | nil =>
    intro x post init s h hf
    simp only [List.foldlM_nil, pure, Except.pure, Except.ok.injEq] at h
    subst h
    rw [List.nil_append, List.foldlM_cons]
    exact hf.bind_left
  | cons a as ih =>
    intro x post init s h hf
    rw [List.foldlM_cons] at h
    obtain ⟨s1, h1, h⟩ := GraphInv.bind_ok _ _ _ h
    rw [List.cons_append, List.foldlM_cons]
    exact Fails.bind_ok h1 (ih x post s1 s h hf)

/-! ## one tensor -/

open MatParams in
theorem tensorSite_sound (env : Env) (qs : Qsvs) (oi : OpInfo) (t : Tensor) (inbound : Bool) (g : Option Param)
    (e : PyErr) (h : TensorSite env qs oi t inbound g true e) : wrapper env qs oi t inbound g = .error e := by
  generalize hnum : true = num at h
  cases h with
  | zpScale tc mn mx e hg htc hs hz =>
    subst hg
    rw [wrapper_none_eq, htc]
    simp only [hs, tensorQuantParams_eq, refTensorParams, hz]
  | quantize tc d mn mx qdim qp e hg htc hd hs hq hp hb hu =>
    subst hg
    rw [wrapper_none_eq, htc]
    simp only [hs, tensorQuantParams_eq, refTensorParams]
    unfold refParams at hp
    cases hz : zpScale tc.bits.toNat tc.symmetric mn mx with
    | error e' => rw [hz] at hp; cases hp
    | ok zs =>
      rw [hz] at hp
      simp only [Except.ok.injEq] at hp
      subst hp
      rw [hd] at hq
      have hb' : (tc.gran == Gran.blockwise) = false := by
        cases hgg : tc.gran <;> simp_all
      simp only [hd, hq, refData, hb', Bool.false_eq_true, if_false, hu]
  | givenQuantize qp d e hg hd hu =>
    subst hg
    rw [wrapper_given_eq]
    simp only [hd, hu]
  | statsMissing => cases hnum
  | statsEmpty => cases hnum
  | constBlockwise => cases hnum
  | qdim => cases hnum
  | quantBlockwise => cases hnum
  | xfs => cases hnum


/-! ## `standardOp` -/

theorem single_of_match {t0 : Tensor} : ∀ {l : List Tensor},
    (match l with | [t] => (pure t : PyM Tensor) | _ => throw PyErr.valueError) = .ok t0 → l = [t0] := by
  intro l h
  rcases l with _ | ⟨a, _ | ⟨b, l⟩⟩
  · cases h
  · simp only [pure, Except.pure, Except.ok.injEq] at h
    rw [h]
  · cases h

theorem stdSite_sound (env : Env) (sg : Subgraph) (qs : Qsvs) (oi : OpInfo) (con : Constraint) (gi go : List Nat)
    (e : PyErr) (h : StdSite env sg qs oi con gi go true e) : Fails (standardOp env sg qs oi con gi go) := by
  generalize hnum : true = num at h
  cases h with
  | slot => cases hnum
  | arityIn => cases hnum
  | arityOut => cases hnum
  | copyStats => cases hnum
  | tensor num t inbound g e ts hst hF hmem hg hts =>
    subst hnum
    have hw := tensorSite_sound env qs oi t inbound g e hts
    obtain ⟨ign, sel, upd, hign, hsplit⟩ := hF
    have hts' : ts.isEmpty = false := by
      cases ts with
      | nil => cases hmem
      | cons a as => rfl
    unfold standardOp
    cases inbound with
    | false =>
      simp only [Bool.false_eq_true, if_false] at hign hsplit
      refine Fails.bind (fun inIgn hinIgn => ?_)
      refine Fails.bind_ok hign ?_
      refine Fails.bind (fun x hx => ?_)
      obtain ⟨ignInT, inT, inIgnU⟩ := x
      refine Fails.bind_ok hsplit ?_
      simp only []
      rw [if_neg (by rw [hts']; simp)]
      have hFI : FloatSlots sg oi.op.inputs gi inT := ⟨inIgn, ignInT, inIgnU, hinIgn, hx⟩
      cases con with
      | none =>
        simp only []
        have : g = none := by
          cases hg with
          | none _ _ => rfl
          | fromInput _ _ _ hc => cases hc
        subst this
        refine Fails.bind (fun ins _ => ?_)
        exact (Fails.mapM _ ts t hmem ⟨e, hw⟩).bind_left
      | sameAsInput =>
        simp only []
        refine Fails.bind (fun t0 ht0 => ?_)
        refine Fails.bind (fun ir hir => ?_)
        refine Fails.bind (fun p0 hp0 => ?_)
        cases hg with
        | none _ hh =>
          rcases hh with hh | ⟨_, hh⟩ | ⟨hh, _⟩ <;> cases hh
        | fromInput t' ir' p0' hc hFI' hwr hp =>
          have h1 := floatSlots_unique hFI hFI'
          have h2 := single_of_match ht0
          rw [h1] at h2
          cases h2
          rw [hwr] at hir
          cases hir
          rw [hp] at hp0
          cases hp0
          exact (Fails.mapM _ ts t hmem ⟨e, hw⟩).bind_left
      | sameAsOutput =>
        simp only []
        refine Fails.bind (fun t0 ht0 => ?_)
        have h2 := single_of_match ht0
        rw [h2, List.mem_singleton] at hmem
        subst hmem
        have : g = none := by
          cases hg with
          | none _ _ => rfl
          | fromInput _ _ _ hc => cases hc
        subst this
        exact Fails.bind_left ⟨e, hw⟩
    | true =>
      simp only [if_true] at hign hsplit
      refine Fails.bind_ok hign ?_
      refine Fails.bind (fun outIgn houtIgn => ?_)
      refine Fails.bind_ok hsplit ?_
      refine Fails.bind (fun x hx => ?_)
      obtain ⟨ignOutT, outT, outIgnU⟩ := x
      simp only []
      rw [if_neg (by rw [hts']; simp)]
      have hFO : FloatSlots sg oi.op.outputs go outT := ⟨outIgn, ignOutT, outIgnU, houtIgn, hx⟩
      cases con with
      | none =>
        simp only []
        have : g = none := by
          cases hg with
          | none _ _ => rfl
          | fromOutput _ _ hc => cases hc
        subst this
        exact (Fails.mapM _ ts t hmem ⟨e, hw⟩).bind_left
      | sameAsInput =>
        simp only []
        refine Fails.bind (fun t0 ht0 => ?_)
        have h2 := single_of_match ht0
        rw [h2, List.mem_singleton] at hmem
        subst hmem
        have : g = none := by
          cases hg with
          | none _ _ => rfl
          | fromOutput _ _ hc => cases hc
        subst this
        exact Fails.bind_left ⟨e, hw⟩
      | sameAsOutput =>
        simp only []
        refine Fails.bind (fun t0 ht0 => ?_)
        refine Fails.bind (fun orq horq => ?_)
        cases hg with
        | none _ hh =>
          rcases hh with hh | ⟨hh, _⟩ | ⟨_, hh⟩ <;> cases hh
        | fromOutput t' orq' hc hFO' hwr =>
          have h1 := floatSlots_unique hFO hFO'
          have h2 := single_of_match ht0
          rw [h1] at h2
          cases h2
          rw [hwr] at horq
          cases horq
          exact (Fails.mapM _ ts t hmem ⟨e, hw⟩).bind_left


/-! ## bias, fixed range, float casting -/

theorem biasSite_sound (env : Env) (sg : Subgraph) (oi : OpInfo) (reqs : List CReq) (iIn iW iB : Nat) (e : PyErr)
    (h : BiasSite env sg oi reqs iIn iW iB true e) : Fails (biasFor env sg oi reqs iIn iW iB) := by
  generalize hnum : true = num at h
  cases h with
  | quantize a bt bd rin rw qi qw di dw e hb hne hat hsrq hc hrin hrw hpin hpw he =>
    unfold biasFor
    rw [hb]
    simp only []
    rw [if_neg (by simpa using hne)]
    refine Fails.bind_ok hat ?_
    simp only [hsrq, if_true, hc, hrin, hrw, hpin, hpw]
    refine Fails.bind_ok rfl ?_
    refine Fails.bind_ok rfl ?_
    simp only []
    exact Fails.bind_left (Fails.bind_left ⟨e, he⟩)
  | slot => cases hnum
  | notConst => cases hnum
  | reqIndex => cases hnum
  | reqShape => cases hnum
  | params => cases hnum
  | xfs => cases hnum
  | position => cases hnum

theorem fixedSite_sound (env : Env) (sg : Subgraph) (qs : Qsvs) (oi : OpInfo) (sl : Bool) (e : PyErr)
    (h : FixedSite env sg qs oi sl true e) : Fails (fixedRangeOp env sg qs oi sl) := by
  generalize hnum : true = num at h
  cases h with
  | std num e h =>
    subst hnum
    have := stdSite_sound env sg qs oi .none [] [] e h
    unfold fixedRangeOp
    simp only []
    by_cases hl : oi.op.outputs.length ≠ 1
    · rw [if_pos hl]
      exact Fails.bind_left (Fails.error _)
    · rw [if_neg hl]
      exact this.bind_left
  | outputs => cases hnum
  | bits => cases hnum
  | minMax => cases hnum
  | stats => cases hnum

theorem castSite_sound (env : Env) (sg : Subgraph) (oi : OpInfo) (iIn iW iB : Nat) (e : PyErr)
    (h : CastSite env sg oi iIn iW iB true e) : Fails (floatCastOp env sg oi iIn iW iB) := by
  generalize hnum : true = num at h
  cases h with
  | f16 a tw wd x e ha hat hc hx hchk =>
    unfold floatCastOp
    simp only []
    refine Fails.bind (fun s1 _ => ?_)
    refine Fails.bind (fun tin _ => ?_)
    refine Fails.bind (fun s2 hs2 => ?_)
    rw [ha] at hs2
    simp only [pure, Except.pure, Except.ok.injEq] at hs2
    subst hs2
    refine Fails.bind_ok hat ?_
    refine Fails.bind (fun s3 _ => ?_)
    refine Fails.bind (fun tout _ => ?_)
    rw [hc]
    refine Fails.bind_ok rfl ?_
    exact (Fails.mapM _ wd.data x hx ⟨e, hchk⟩).bind_left
  | noSlot => cases hnum
  | slot => cases hnum
  | weightNotConst => cases hnum

/-! ## the dispatch, one entry, the whole run -/

theorem opSite_sound (env : Env) (sg : Subgraph) (qs : Qsvs) (oi : OpInfo) (k : Kind) (e : PyErr)
    (h : OpSite env sg qs oi k true e) : Fails (runKind env sg qs oi k) := by
  generalize hnum : true = num at h
  cases h with
  | unknown => cases hnum
  | convTArity => cases hnum
  | std num con gi e h => subst hnum; exact stdSite_sound env sg qs oi con gi [] e h
  | convStd num e h => subst hnum; exact (stdSite_sound env sg qs oi .none [2] [] e h).bind_left
  | convBias num r q e hstd hb =>
    subst hnum
    exact Fails.bind_ok hstd (biasSite_sound env sg oi r 0 1 2 e hb).bind_left
  | convTStd num e h => subst hnum; exact (stdSite_sound env sg qs oi .none [0, 3] [] e h).bind_left
  | convTBias num r q e hstd hb =>
    subst hnum
    refine Fails.bind_ok hstd ?_
    by_cases hl : r.length < 2
    · simp only [hl, if_true]; exact Fails.error _
    · simp only [hl, if_false]; exact (biasSite_sound env sg oi r 2 1 3 e hb).bind_left
  | fixed num sl e h => subst hnum; exact fixedSite_sound env sg qs oi sl e h
  | cast num a b c e h => subst hnum; exact (castSite_sound env sg oi a b c e h).bind_left

theorem stepSite_sound (rx : String → String → Bool) (env : Env) (st : Recipe.State) (sIdx : Nat) (sg : Subgraph)
    (s : GState) (q : Op × Option String × Int) (e : PyErr) (h : StepSite rx env st sIdx sg s.1 s.2 q true e) :
    Fails (opStep rx env st sIdx sg s q) := by
  generalize hnum : true = num at h
  cases h with
  | op num k scope fn ops e hk hs hne ho hf hop =>
    subst hnum
    obtain ⟨e', he'⟩ := opSite_sound env sg s.1 _ _ e hop
    have hne' : ((Recipe.resolve rx st k scope).1 == Tables.algNoQuantize) = false := by
      simpa using hne
    have : opReqs rx env st sIdx sg s.1 q = .error e' := by
      unfold opReqs
      simp only [hk, hs, hne', Bool.false_eq_true, if_false, ho, hf, materializeOp_kind]
      exact he'
    unfold opStep
    rw [this]
    exact Fails.error _
  | opcode => cases hnum
  | slot => cases hnum
  | unregistered => cases hnum
  | conflict => cases hnum

/-- **a numeric site makes `generate` fail**: the sites tagged `true` are real failures (the error
    raised may be an earlier one in program order) -/
theorem genSite_sound (rx : String → String → Bool) (env : Env) (st : Recipe.State) (qsvs : Option Qsvs) (e : PyErr)
    (h : GenSite rx env st qsvs true e) : Fails (Mat.generate rx env st qsvs) := by
  generalize hnum : true = num at h
  cases h with
  | atOp num pre post sg sIdx q s e hl hreach hsite =>
    subst hnum
    have hcore : Fails (Locality.generateCore rx env st qsvs) := by
      rw [generateCore_flat, hl]
      exact Fails.foldlM _ pre _ post _ s hreach (stepSite_sound rx env st sIdx sg s q e hsite)
    obtain ⟨e', he'⟩ := hcore
    rw [Locality.generate_eq]
    split
    · exact Fails.error _
    split
    · exact Fails.error _
    split
    · exact Fails.error _
    rw [he']
    exact Fails.error _
  | notFloat => cases hnum
  | dupNames => cases hnum
  | noStats => cases hnum
  | sharing => cases hnum
  | unreadOwn => cases hnum

/-- hence: if `generate` returns, no numeric site holds -/
theorem no_numeric_site_of_ok (rx : String → String → Bool) (env : Env) (st : Recipe.State) (qsvs : Option Qsvs)
    (reqs : List CReq) (h : Mat.generate rx env st qsvs = .ok reqs) (e : PyErr) : ¬ GenSite rx env st qsvs true e := by
  intro hsite
  obtain ⟨e', he'⟩ := genSite_sound rx env st qsvs e hsite
  rw [h] at he'
  cases he'

end MatTotal
