import QProofs.BlockwiseSpec
/-!
# BLOCKWISE as implemented is CHANNELWISE up to the data layout

* `codes_eq`: when both succeed, the codes / scales / zero points of `Blockwise.quantize` are those of the ordinary
  per-channel quantization (`Blockwise.channelwise`), transposed;
* `channelwise_of_blockwise`, `blockwise_of_channelwise`: each succeeds when the other does (and the block size is a
  positive divisor of the row length);
* `quantize_ok_iff`: the success condition.
-/
open Num Nd Arith MatParams Blockwise

set_option autoImplicit false

namespace BlockwiseL

open GraphInv (bind_ok)

theorem list_eq_of_getD {α} (l l' : List α) (x : α) (hl : l.length = l'.length)
    (h : ∀ i < l.length, l.getD i x = l'.getD i x) : l = l' := by
  apply List.ext_getElem hl
  intro i h1 h2
  have := h i h1
  rw [List.getD_eq_getElem?_getD, List.getD_eq_getElem?_getD, List.getElem?_eq_getElem h1,
    List.getElem?_eq_getElem h2, Option.getD_some, Option.getD_some] at this
  exact this

/-- **the codes of BLOCKWISE are the codes of CHANNELWISE, transposed** (both computations given) -/
theorem codes_eq (o f bs bits : Nat) (sym : Bool) (d : List Rat) (hd : d.length = o * f) (pr : Prec)
    (q : IArr) (qp' : QParams) (q' : IArr)
    (h : quantize ⟨⟨[o, f], d⟩, pr⟩ bs bits sym = .ok q)
    (h' : channelwise ⟨⟨[o, f], d⟩, pr⟩ bits sym = .ok (qp', q')) :
    ∃ qp, params ⟨⟨[o, f], d⟩, pr⟩ bs bits sym = .ok qp ∧
      qp.scale.arr.data = qp'.scale.arr.data ∧ qp.zp.arr.data = qp'.zp.arr.data ∧
      ∀ c < o, ∀ j < f, q.arr.data.getD (j * o + c) 0 = q'.arr.data.getD (c * f + j) 0 := by
  obtain ⟨qp, hp, _, _, _, hel⟩ := quantize_spec o f bs bits sym d pr q h
  obtain ⟨_, _, _, _, _, _, _, _, _, _, _, l1, l2, hzs⟩ := params_spec o f bs bits sym d pr qp hp
  obtain ⟨_, _, _, _, _, _, _, _, _, l1', l2', hzs', _, _, _, hel'⟩ := channelwise_spec o f bits sym d hd pr qp' q' h'
  have hpair : ∀ c < o, qp.zp.arr.data.getD c 0 = qp'.zp.arr.data.getD c 0 ∧
      qp.scale.arr.data.getD c 0 = qp'.scale.arr.data.getD c 0 := by
    intro c hc
    have a := hzs c hc
    rw [hzs' c hc] at a
    simp only [Except.ok.injEq, Prod.mk.injEq] at a
    exact ⟨a.1.symm, a.2.symm⟩
  refine ⟨qp, hp, ?_, ?_, ?_⟩
  · exact list_eq_of_getD _ _ 0 (l1.trans l1'.symm) (fun i hi => (hpair i (by omega)).2)
  · exact list_eq_of_getD _ _ 0 (l2.trans l2'.symm) (fun i hi => (hpair i (by omega)).1)
  · intro c hc j hj
    have a := hel c hc j hj
    rw [(hpair c hc).1, (hpair c hc).2, hel' c hc j hj] at a
    simp only [Except.ok.injEq] at a
    exact a.symm

/-! ## success transfers -/

/-- the two broadcasting `zipB`s of the quantizers succeed when the scalar core succeeds on every element -/
theorem zip2_of (g : Rat → Rat → Int → PyM Int) (x sc : Arr Rat) (zp : Arr Int) (hsh : sc.shape = zp.shape)
    (hc : NumT.Compat sc.shape x.shape)
    (hel : ∀ i < numel x.shape, ∃ c, g (x.data.getD i 0) (sc.data.getD (bindex x.shape sc.shape i) 0)
        (zp.data.getD (bindex x.shape sc.shape i) 0) = .ok c) :
    ∃ sz out, zipB (fun (s : Rat) (z : Int) => (pure (s, z) : PyM (Rat × Int))) sc zp = .ok sz ∧
      zipB (fun v (p : Rat × Int) => g v p.1 p.2) x sz = .ok out := by
  obtain ⟨sz, hsz⟩ := NumT.zipB_total (fun (s : Rat) (z : Int) => (pure (s, z) : PyM (Rat × Int))) sc zp sc.shape
    (by rw [← hsh]; exact bshapeAny_self _) (fun i _ => ⟨_, rfl⟩)
  obtain ⟨rs, hrs, hshape, hlen, hel0⟩ := zipB_ok _ _ _ _ hsz
  rw [← hsh, bshapeAny_self] at hrs
  cases hrs
  have hc' : NumT.Compat sz.shape x.shape := by rw [hshape]; exact hc
  obtain ⟨out, hout⟩ := NumT.zipB_total (fun v (p : Rat × Int) => g v p.1 p.2) x sz x.shape (NumT.bshapeAny_compat hc')
    (fun i hi => by
      have hm : bindex x.shape sz.shape i < numel sz.shape := NumT.bindex_compat_lt hc' i hi
      have hml : bindex x.shape sz.shape i < sz.data.length := by rw [hlen, ← hshape]; exact hm
      have hp := hel0 _ _ (getD_of_lt sz.data _ default hml)
      simp only [pure, Except.pure, Except.ok.injEq] at hp
      rw [← hp, ConstQuant.bindex_self _ _ hi, ← hsh, ConstQuant.bindex_self _ _ (by rw [← hshape]; exact hm), hshape]
      exact hel i hi)
  exact ⟨sz, out, hsz, hout⟩

/-- `uniform_quantize` succeeds when the scalar core succeeds on every element -/
theorem uniformQuantize_of (x : FArr) (qp : QParams) (hsh : qp.scale.arr.shape = qp.zp.arr.shape)
    (hc : NumT.Compat qp.scale.arr.shape x.arr.shape)
    (hel : ∀ i < numel x.arr.shape, ∃ c, quantize1 x.pr qp.scale.pr qp.zp.w qp.bits qp.symmetric
        (x.arr.data.getD i 0) (qp.scale.arr.data.getD (bindex x.arr.shape qp.scale.arr.shape i) 0)
        (qp.zp.arr.data.getD (bindex x.arr.shape qp.scale.arr.shape i) 0) = .ok c) :
    ∃ q, uniformQuantize x qp = .ok q := by
  have hrank : x.arr.shape.length = qp.scale.arr.rank := hc.length.symm
  unfold uniformQuantize
  have h1 : fixRank x.arr.shape qp = .ok qp := by unfold fixRank; simp only [hrank, if_true]
  have h2 : validParams x.arr.shape qp = .ok () := by
    unfold validParams
    rw [if_neg (by rw [hsh]; exact fun h => h rfl), if_neg (by rw [hrank]; exact fun h => h rfl)]
  obtain ⟨sz, out, hsz, hout⟩ := zip2_of (fun v s z => quantize1 x.pr qp.scale.pr qp.zp.w qp.bits qp.symmetric v s z)
    x.arr qp.scale.arr qp.zp.arr hsh hc hel
  have hout' : zipB (fun v (sz : Rat × Int) =>
      quantize1 x.pr qp.scale.pr qp.zp.w qp.bits qp.symmetric v sz.1 sz.2) x.arr sz = .ok out := hout
  simp only [h1, h2, hsz, hout', bind, Except.bind]
  exact ⟨_, rfl⟩

/-- `uniform_quantize_for_emulated_subchannel` succeeds when the scalar core succeeds on every element -/
theorem quantizeWith_of (o f bs : Nat) (d : List Rat) (pr : Prec) (qp : QParams) (hb : 0 < bs) (hdvd : bs ∣ f)
    (hsh : qp.scale.arr.shape = qp.zp.arr.shape) (hc : NumT.Compat qp.scale.arr.shape [1, f / bs, bs, o])
    (hel : ∀ i < f * o, ∃ c, quantize1 pr qp.scale.pr qp.zp.w qp.bits qp.symmetric
        ((tdata o f d).getD i 0) (qp.scale.arr.data.getD (bindex [1, f / bs, bs, o] qp.scale.arr.shape i) 0)
        (qp.zp.arr.data.getD (bindex [1, f / bs, bs, o] qp.scale.arr.shape i) 0) = .ok c) :
    ∃ q, quantizeWith ⟨⟨[o, f], d⟩, pr⟩ qp bs = .ok q := by
  unfold quantizeWith
  have hnum : numel [1, f / bs, bs, o] = f * o := by
    rw [numel4, Nat.one_mul, Nat.div_mul_cancel hdvd]
  obtain ⟨sz, out, hsz, hout⟩ := zip2_of (fun v s z => quantize1 pr qp.scale.pr qp.zp.w qp.bits qp.symmetric v s z)
    ⟨[1, f / bs, bs, o], tdata o f d⟩ qp.scale.arr qp.zp.arr hsh hc (fun i hi => hel i (by rw [← hnum]; exact hi))
  have hout' : zipB (fun v (sz : Rat × Int) =>
      quantize1 pr qp.scale.pr qp.zp.w qp.bits qp.symmetric v sz.1 sz.2) ⟨[1, f / bs, bs, o], tdata o f d⟩ sz = .ok out := hout
  simp only [reshaped_of o f bs d hb hdvd, hsz, hout', bind, Except.bind]
  exact ⟨_, rfl⟩

theorem reduceKeep_of (f : Rat → Rat → Rat) (a : Arr Rat) (dims : Option (List Nat)) (h : a.data ≠ []) :
    ∃ r, reduceKeep f a dims = .ok r := by
  rw [reduceKeep_eq]
  have : a.data.isEmpty = false := by
    cases hd : a.data with
    | nil => exact absurd hd h
    | cons _ _ => rfl
  rw [this]
  exact ⟨_, rfl⟩

/-- `tensor_zp_scale_from_min_max` on statistics of one shape succeeds when the scalar core does on every channel -/
theorem zpScale_of (bits : Nat) (sym : Bool) (mn mx : FArr) (s : List Nat) (hmn : mn.arr.shape = s) (hmx : mx.arr.shape = s)
    (hel : ∀ i < numel s, ∃ c, zpScale1 (mn.pr.join mx.pr) bits sym (mn.arr.data.getD i 0) (mx.arr.data.getD i 0) = .ok c) :
    ∃ zs, zpScale bits sym mn mx = .ok zs := by
  unfold zpScale
  obtain ⟨both, hb⟩ := NumT.zipB_total (fun a b => zpScale1 (mn.pr.join mx.pr) bits sym a b) mn.arr mx.arr s
    (by rw [hmn, hmx]; exact bshapeAny_self _)
    (fun i hi => by
      rw [hmn, hmx, ConstQuant.bindex_self _ _ hi]
      exact hel i hi)
  simp only [hb, bind, Except.bind]
  exact ⟨_, rfl⟩

theorem el_divmod (d : List Rat) (f i : Nat) : el d f (i / f) (i % f) = d.getD i 0 := by
  unfold el; rw [Nat.mul_comm, Nat.div_add_mod]

/-- whenever BLOCKWISE succeeds, so does the ordinary per-channel quantization of the same weight -/
theorem channelwise_of_blockwise (o f bs bits : Nat) (sym : Bool) (d : List Rat) (hd : d.length = o * f) (pr : Prec)
    (q : IArr) (h : quantize ⟨⟨[o, f], d⟩, pr⟩ bs bits sym = .ok q) :
    ∃ r, channelwise ⟨⟨[o, f], d⟩, pr⟩ bits sym = .ok r := by
  obtain ⟨qp, hp, _, _, _, hel⟩ := quantize_spec o f bs bits sym d pr q h
  obtain ⟨_, _, ho, hf, _, _, _, _, _, _, _, _, _, hzs⟩ := params_spec o f bs bits sym d pr qp hp
  have hne : (⟨[o, f], d⟩ : Arr Rat).data ≠ [] := by
    intro h0
    have h0' : d = [] := h0
    rw [h0'] at hd
    have := Nat.mul_pos ho hf
    simp at hd
    omega
  obtain ⟨mn, hmn⟩ := reduceKeep_of minR ⟨[o, f], d⟩ (some [1]) hne
  obtain ⟨mx, hmx⟩ := reduceKeep_of maxR ⟨[o, f], d⟩ (some [1]) hne
  obtain ⟨_, _, s1, l1, c1⟩ := row_stats minR _ sel_min o f d hd mn hmn
  obtain ⟨_, _, s2, l2, c2⟩ := row_stats maxR _ sel_max o f d hd mx hmx
  have hn : numel [o, 1] = o := by rw [numel2]; simp
  have hmnv : ∀ c < o, mn.data.getD c 0 = rowMin d f c :=
    fun c hc => isSel_le_unique (c1 c hc) (segMin_isSel _ f hf)
  have hmxv : ∀ c < o, mx.data.getD c 0 = rowMax d f c :=
    fun c hc => isSel_ge_unique (c2 c hc) (segMax_isSel _ f hf)
  obtain ⟨zs, hzs'⟩ := zpScale_of bits sym ⟨mn, pr⟩ ⟨mx, pr⟩ [o, 1] s1 s2 (fun i hi => by
    have hi' : i < o := by rw [hn] at hi; exact hi
    dsimp only
    rw [join_self, hmnv i hi', hmxv i hi']
    exact ⟨_, hzs i hi'⟩)
  obtain ⟨zp, scale⟩ := zs
  obtain ⟨z1, z2, z3, z4, z5, z6, helz⟩ := zpScale_same bits sym ⟨mn, pr⟩ ⟨mx, pr⟩ [o, 1] s1 s2 zp scale hzs'
  have hpair : ∀ c < o, zp.arr.data.getD c 0 = qp.zp.arr.data.getD c 0 ∧
      scale.arr.data.getD c 0 = qp.scale.arr.data.getD c 0 := by
    intro c hc
    have a := helz c (by rw [hn]; exact hc)
    dsimp only at a
    rw [join_self, hmnv c hc, hmxv c hc, hzs c hc] at a
    simp only [Except.ok.injEq, Prod.mk.injEq] at a
    exact ⟨a.1.symm, a.2.symm⟩
  have z1' : scale.pr = pr := by rw [z1]; exact join_self pr
  obtain ⟨q', hq'⟩ := uniformQuantize_of ⟨⟨[o, f], d⟩, pr⟩
    { bits := bits, qdim := some 0, scale := scale, zp := zp, symmetric := sym } (z3.trans z4.symm)
    (by show NumT.Compat scale.arr.shape [o, f]; rw [z3]; exact compat_row o f)
    (fun i hi => by
      have hi' : i < o * f := by
        have : i < numel [o, f] := hi
        rw [numel2] at this; exact this
      have hc : i / f < o := Nat.div_lt_of_lt_mul (by rw [Nat.mul_comm]; exact hi')
      have hj : i % f < f := Nat.mod_lt _ hf
      have := hel (i / f) hc (i % f) hj
      rw [el_divmod] at this
      dsimp only
      rw [z3, bindex_row o f i hi', z1', z2, (hpair _ hc).1, (hpair _ hc).2]
      exact ⟨_, this⟩)
  rw [channelwise_eq]
  simp only [hmn, hmx, hzs', hq', bind, Except.bind, pure, Except.pure]
  exact ⟨_, rfl⟩

/-- conversely: the ordinary per-channel quantization succeeds and the block size is a positive divisor of the row
    length, then BLOCKWISE succeeds -/
theorem blockwise_of_channelwise (o f bs bits : Nat) (sym : Bool) (d : List Rat) (hd : d.length = o * f) (pr : Prec)
    (hb : 0 < bs) (hdvd : bs ∣ f) (r : QParams × IArr) (h' : channelwise ⟨⟨[o, f], d⟩, pr⟩ bits sym = .ok r) :
    ∃ q, quantize ⟨⟨[o, f], d⟩, pr⟩ bs bits sym = .ok q := by
  obtain ⟨qp', q'⟩ := r
  obtain ⟨ho, hf, _, _, _, _, _, _, _, _, _, hzs', _, _, _, hel'⟩ := channelwise_spec o f bits sym d hd pr qp' q' h'
  have hne : (⟨[1, f / bs, bs, o], tdata o f d⟩ : Arr Rat).data ≠ [] := by
    intro h0
    have h0' : tdata o f d = [] := h0
    have hl := tdata_length o f d
    rw [h0'] at hl
    have := Nat.mul_pos hf ho
    simp at hl
    omega
  obtain ⟨mn, hmn⟩ := reduceKeep_of minR ⟨[1, f / bs, bs, o], tdata o f d⟩ (some [0, 1, 2]) hne
  obtain ⟨mx, hmx⟩ := reduceKeep_of maxR ⟨[1, f / bs, bs, o], tdata o f d⟩ (some [0, 1, 2]) hne
  have hmm : minMax ⟨⟨[o, f], d⟩, pr⟩ bs = .ok (⟨mn, pr⟩, ⟨mx, pr⟩) := by
    unfold minMax
    simp only [reshaped_of o f bs d hb hdvd, hmn, hmx, bind, Except.bind, pure, Except.pure]
  obtain ⟨_, _, _, _, _, _, s1, s2, l1, l2, hv⟩ := minMax_spec o f bs d pr _ _ hmm
  have hn : numel [1, 1, 1, o] = o := by rw [numel4]; simp
  obtain ⟨zs, hzs⟩ := zpScale_of bits sym ⟨mn, pr⟩ ⟨mx, pr⟩ [1, 1, 1, o] s1 s2 (fun i hi => by
    have hi' : i < o := by rw [hn] at hi; exact hi
    have a := (hv i hi').1
    have b := (hv i hi').2
    dsimp only at a b ⊢
    rw [join_self, a, b]
    exact ⟨_, hzs' i hi'⟩)
  have hp : params ⟨⟨[o, f], d⟩, pr⟩ bs bits sym
      = .ok { bits := bits, qdim := none, scale := zs.2, zp := zs.1, symmetric := sym } := by
    unfold params paramsOf
    simp only [hmm, hzs, bind, Except.bind, pure, Except.pure]
  obtain ⟨_, _, _, _, _, _, _, q4, q5, q6, q7, _, _, hzs2⟩ := params_spec o f bs bits sym d pr _ hp
  dsimp only at q4 q5 q6 q7 hzs2
  have hpair : ∀ c < o, zs.1.arr.data.getD c 0 = qp'.zp.arr.data.getD c 0 ∧
      zs.2.arr.data.getD c 0 = qp'.scale.arr.data.getD c 0 := by
    intro c hc
    have a := hzs2 c hc
    rw [hzs' c hc] at a
    simp only [Except.ok.injEq, Prod.mk.injEq] at a
    exact ⟨a.1.symm, a.2.symm⟩
  obtain ⟨q, hq⟩ := quantizeWith_of o f bs d pr
    { bits := bits, qdim := none, scale := zs.2, zp := zs.1, symmetric := sym } hb hdvd (q6.trans q7.symm)
    (by show NumT.Compat zs.2.arr.shape [1, f / bs, bs, o]; rw [q6]; exact compat_chan _ _ _)
    (fun i hi => by
      have hc : i % o < o := Nat.mod_lt _ ho
      have hj : i / o < f := Nat.div_lt_of_lt_mul (by rw [Nat.mul_comm]; exact hi)
      have := hel' (i % o) hc (i / o) hj
      dsimp only
      rw [q6, bindex_chan, tdata_getD o f d i hi, q4, q5, (hpair _ hc).1, (hpair _ hc).2]
      exact ⟨_, this⟩)
  unfold quantize
  simp only [hp, hq, bind, Except.bind]
  exact ⟨_, rfl⟩

/-- **success condition of BLOCKWISE**: the block size is a positive divisor of the row length, and the ordinary
    per-channel quantization of the weight succeeds -/
theorem quantize_ok_iff (o f bs bits : Nat) (sym : Bool) (d : List Rat) (hd : d.length = o * f) (pr : Prec) :
    (∃ q, quantize ⟨⟨[o, f], d⟩, pr⟩ bs bits sym = .ok q) ↔
      (0 < bs ∧ bs ∣ f ∧ ∃ r, channelwise ⟨⟨[o, f], d⟩, pr⟩ bits sym = .ok r) := by
  constructor
  · rintro ⟨q, h⟩
    obtain ⟨qp, hp, _⟩ := quantize_spec o f bs bits sym d pr q h
    obtain ⟨hb, hdvd, _⟩ := params_spec o f bs bits sym d pr qp hp
    exact ⟨hb, hdvd, channelwise_of_blockwise o f bs bits sym d hd pr q h⟩
  · rintro ⟨hb, hdvd, r, h'⟩
    exact blockwise_of_channelwise o f bs bits sym d hd pr hb hdvd r h'

end BlockwiseL
