import QModel.Calib
import QProofs.CalibProofs
/-!
# Calibration: exactness of the recorded statistics (C09)

* `initModel_eq`: `Calib.initModel` as a nested `foldlM` (`initFold`); `initFold_first`: the entry of a
  name is `initTensor` for the first selected operator (model order) with an operand of that name;
  `initFold_stats_const`: only constants with data get statistics at initialisation.
* `sample_exact`: one sample turns the entry `old` of a selected runtime tensor into
  `ema old (minMaxAll contents)`, exactly once; `sample_frame`: other names are untouched.
* `runtime_stats_exact`, `resumed_stats_exact`, `const_stats_exact`: the dataset-level theorems.
* `emaArr_f32_elem`: the float32 arithmetic of the moving average.

Core Lean only.  The `DecidableEq` instances at the end are for the closed instances in `QProps/C09b`.
-/
open Graph Arith Cfg Num Nd Mat Calib

namespace CalibExact
open CalibProofs

/-! ## `initModel` as a nested `foldlM` -/

/-- merging one entry of an operator's initial statistics: the first writer of a name wins -/
def initMerge (qs : Qsvs) (e : String × Qsv) : Qsvs :=
  if (Py.dictGet? qs e.1).isNone then qs ++ [e] else qs

/-- one operator of `_initialize_model_qsvs` -/
def initOpStep (rx : String → String → Bool) (env : Env) (st : Recipe.State) (p : Subgraph × Nat)
    (qs : Qsvs) (q : Op × Nat) : PyM Qsvs :=
  match opKey env q.1 with
  | .error err => .error err
  | .ok none => pure qs
  | .ok (some k) =>
    match opScope p.1 q.1 with
    | .error err => .error err
    | .ok scope =>
      if (Recipe.resolve rx st k scope).1 == Tables.algNoQuantize then pure qs
      else if !registeredFor (Recipe.resolve rx st k scope).1 k then .error .valueError
      else if collects (Recipe.resolve rx st k scope).1 then
        match initQsvsOp env p.1 { sgIdx := p.2, op := q.1, opName := k, opId := q.2,
                                   cfg := (Recipe.resolve rx st k scope).2 } with
        | .error err => .error err
        | .ok opq => pure (opq.foldl initMerge qs)
      else pure qs

def initSgStep (rx : String → String → Bool) (env : Env) (st : Recipe.State) (qs : Qsvs)
    (p : Subgraph × Nat) : PyM Qsvs :=
  p.1.ops.zipIdx.foldlM (initOpStep rx env st p) qs

def initFold (rx : String → String → Bool) (env : Env) (st : Recipe.State) : PyM Qsvs :=
  env.model.subgraphs.zipIdx.foldlM (initSgStep rx env st) []

theorem foldlM_pure_eq {α β} (g : β → α → β) : ∀ (l : List α) (init : β),
    l.foldlM (m := PyM) (fun b a => pure (g b a)) init = pure (l.foldl g init) := by
  intro l
  induction l with
  | nil => intro init; rfl
  | cons a as ih => intro init; simp only [List.foldlM_cons, List.foldl_cons, pure_bind, ih]

theorem initModel_eq (rx : String → String → Bool) (env : Env) (st : Recipe.State) :
    initModel rx env st = initFold rx env st := by
  unfold initModel initFold
  simp only [pure, Except.pure, bind, Except.bind]
  rw [forIn_eq_foldlM _ (initSgStep rx env st)]
  · generalize List.foldlM (m := PyM) _ _ _ = r
    cases r <;> rfl
  · intro p qs
    simp only [initSgStep]
    rw [forIn_eq_foldlM _ (initOpStep rx env st p)]
    · simp only [pure, Except.pure, bind, Except.bind]
    · intro q qs'
      simp only [initOpStep, pure, Except.pure, bind, Except.bind, throw, throwThe,
        MonadExceptOf.throw]
      cases opKey env q.1 with
      | error e => rfl
      | ok key =>
        cases key with
        | none => rfl
        | some k =>
          simp only []
          cases opScope p.1 q.1 with
          | error e => rfl
          | ok scope =>
            simp only []
            by_cases h1 : ((Recipe.resolve rx st k scope).1 == Tables.algNoQuantize) = true
            · simp only [if_pos h1]
            · by_cases h2 : (!registeredFor (Recipe.resolve rx st k scope).1 k) = true
              · simp only [if_neg h1, if_pos h2]
              · by_cases h3 : collects (Recipe.resolve rx st k scope).1 = true
                · simp only [if_neg h1, if_neg h2, if_pos h3]
                  generalize initQsvsOp env p.1 _ = r
                  cases r with
                  | error e => rfl
                  | ok opq =>
                    simp only []
                    rw [forIn_eq_foldlM _ (fun b a => pure (initMerge b a)), foldlM_pure_eq]
                    · rfl
                    · intro e s'
                      simp only [initMerge, pure, Except.pure, bind, Except.bind]
                      by_cases h4 : (Py.dictGet? s' e.1).isNone = true
                      · simp only [if_pos h4]
                      · simp only [if_neg h4]
                · simp only [if_neg h1, if_neg h2, if_neg h3]

/-! ## more dictionary lemmas -/

section Dict
variable {ν : Type}

theorem dictGet?_nil (n : String) : Py.dictGet? ([] : List (String × ν)) n = none := rfl

theorem dictGet?_cons (e : String × ν) (d : List (String × ν)) (n : String) :
    Py.dictGet? (e :: d) n = if e.1 = n then some e.2 else Py.dictGet? d n := by
  by_cases h : e.1 = n
  · simp [Py.dictGet?, h]
  · have hb : (e.1 == n) = false := by simpa using h
    simp [Py.dictGet?, h, hb]

theorem dictGet?_mem (d : List (String × ν)) (n : String) (v : ν)
    (h : Py.dictGet? d n = some v) : (n, v) ∈ d := by
  induction d with
  | nil => simp [dictGet?_nil] at h
  | cons e d ih =>
    rw [dictGet?_cons] at h
    by_cases hk : e.1 = n
    · simp only [if_pos hk, Option.some.injEq] at h
      obtain ⟨a, b⟩ := e
      simp only at h hk
      subst h; subst hk
      exact List.mem_cons_self
    · simp only [if_neg hk] at h
      exact List.mem_cons_of_mem _ (ih h)

theorem dictGet?_eq_none_iff (d : List (String × ν)) (n : String) :
    Py.dictGet? d n = none ↔ n ∉ d.map (·.1) := by
  induction d with
  | nil => simp [dictGet?_nil]
  | cons e d ih =>
    rw [dictGet?_cons]
    by_cases hk : e.1 = n
    · simp [hk]
    · simp only [if_neg hk, ih, List.map_cons, List.mem_cons, not_or]
      exact ⟨fun h => ⟨fun h' => hk h'.symm, h⟩, fun h => h.2⟩

theorem dictGet?_of_key (d : List (String × ν)) (n : String) (h : n ∈ d.map (·.1)) :
    ∃ v, Py.dictGet? d n = some v := by
  cases hg : Py.dictGet? d n with
  | none => exact absurd h ((dictGet?_eq_none_iff d n).1 hg)
  | some v => exact ⟨v, rfl⟩

theorem dictGet?_append (d l : List (String × ν)) (n : String) :
    Py.dictGet? (d ++ l) n = match Py.dictGet? d n with
      | some v => some v
      | none => Py.dictGet? l n := by
  induction d with
  | nil => simp [dictGet?_nil]
  | cons e d ih =>
    rw [List.cons_append, dictGet?_cons, dictGet?_cons]
    by_cases hk : e.1 = n
    · simp [hk]
    · simp only [if_neg hk, ih]

theorem dictGet?_append_ne (d : List (String × ν)) (e : String × ν) (n : String) (h : e.1 ≠ n) :
    Py.dictGet? (d ++ [e]) n = Py.dictGet? d n := by
  rw [dictGet?_append, dictGet?_cons, if_neg h, dictGet?_nil]
  cases Py.dictGet? d n <;> rfl

theorem dictGet?_append_new (d : List (String × ν)) (e : String × ν)
    (h : Py.dictGet? d e.1 = none) : Py.dictGet? (d ++ [e]) e.1 = some e.2 := by
  rw [dictGet?_append, h, dictGet?_cons, if_pos rfl]

end Dict

/-! ## merging initial statistics: the first writer wins -/

theorem initMerge_some (qs : Qsvs) (e : String × Qsv) (n : String) (v : Qsv)
    (h : Py.dictGet? qs n = some v) : Py.dictGet? (initMerge qs e) n = some v := by
  unfold initMerge
  split
  · exact dictGet?_append_some _ _ _ _ h
  · exact h

theorem initMergeAll_some (opq : List (String × Qsv)) : ∀ (qs : Qsvs) (n : String) (v : Qsv),
    Py.dictGet? qs n = some v → Py.dictGet? (opq.foldl initMerge qs) n = some v := by
  induction opq with
  | nil => intro qs n v h; exact h
  | cons e opq ih => intro qs n v h; exact ih _ n v (initMerge_some qs e n v h)

theorem initMerge_ne (qs : Qsvs) (e : String × Qsv) (n : String) (h : e.1 ≠ n) :
    Py.dictGet? (initMerge qs e) n = Py.dictGet? qs n := by
  unfold initMerge
  split
  · exact dictGet?_append_ne _ _ _ h
  · rfl

theorem initMergeAll_none (opq : List (String × Qsv)) : ∀ (qs : Qsvs) (n : String),
    Py.dictGet? qs n = none → n ∉ opq.map (·.1) → Py.dictGet? (opq.foldl initMerge qs) n = none := by
  induction opq with
  | nil => intro qs n h _; exact h
  | cons e opq ih =>
    intro qs n h hn
    simp only [List.map_cons, List.mem_cons, not_or] at hn
    refine ih _ n ?_ hn.2
    rw [initMerge_ne _ _ _ (fun h' => hn.1 h'.symm)]; exact h

theorem initMergeAll_hit (opq : List (String × Qsv)) : ∀ (qs : Qsvs) (n : String) (v : Qsv),
    Py.dictGet? qs n = none → Py.dictGet? opq n = some v →
    Py.dictGet? (opq.foldl initMerge qs) n = some v := by
  induction opq with
  | nil => intro qs n v _ h; simp [dictGet?_nil] at h
  | cons e opq ih =>
    intro qs n v h hv
    rw [dictGet?_cons] at hv
    by_cases hk : e.1 = n
    · simp only [if_pos hk, Option.some.injEq] at hv
      refine initMergeAll_some opq _ n v ?_
      subst hk
      simp only [initMerge, h, Option.isNone_none, if_true]
      rw [dictGet?_append_new _ _ h, hv]
    · simp only [if_neg hk] at hv
      refine ih _ n v ?_ hv
      rw [initMerge_ne _ _ _ hk]; exact h

/-- every entry of the merged dictionary is an old entry or an entry of the operator -/
theorem mem_initMergeAll (opq : List (String × Qsv)) : ∀ (qs : Qsvs) (e : String × Qsv),
    e ∈ opq.foldl initMerge qs → e ∈ qs ∨ e ∈ opq := by
  induction opq with
  | nil => intro qs e h; exact Or.inl h
  | cons x opq ih =>
    intro qs e h
    rcases ih _ e h with h | h
    · unfold initMerge at h
      split at h
      · rcases List.mem_append.1 h with h | h
        · exact Or.inl h
        · exact Or.inr (by simpa using Or.inl (List.mem_singleton.1 h))
      · exact Or.inl h
    · exact Or.inr (List.mem_cons_of_mem _ h)

/-! ## `initQsvsOp` -/

theorem index_mem {α} (l : List α) (i : Int) (a : α) (h : Py.index l i = .ok a) : a ∈ l := by
  unfold Py.index at h
  simp only at h
  generalize (if i < 0 then i + (l.length : Int) else i) = j at h
  split at h
  · simp at h
  · split at h
    · rename_i hj
      simp only [Except.ok.injEq] at h
      subst h
      exact List.mem_of_getElem? hj
    · simp at h

/-- the operator has an operand / result slot holding a tensor of this name -/
def UsesName (sg : Subgraph) (op : Op) (n : String) : Prop :=
  ∃ i ∈ op.inputs ++ op.outputs, i ≠ -1 ∧ ∃ t, tensorAt sg i = .ok t ∧ t.name = n

theorem mem_slots (op : Op) (i : Int) :
    i ∈ (op.inputs ++ op.outputs).filter (· != -1) ↔ i ∈ op.inputs ++ op.outputs ∧ i ≠ -1 := by
  simp only [List.mem_filter, bne_iff_ne, ne_eq]

/-- one slot of `initQsvsOp` -/
def initSlot (env : Env) (sg : Subgraph) (oi : OpInfo) (acc : List (String × Qsv)) (i : Int) :
    PyM (List (String × Qsv)) := do
  let t ← tensorAt sg i
  let q ← initTensor env oi t
  pure (Py.dictSet acc t.name q)

theorem initQsvsOp_eq (env : Env) (sg : Subgraph) (oi : OpInfo) :
    initQsvsOp env sg oi =
      ((oi.op.inputs ++ oi.op.outputs).filter (· != -1)).foldlM (initSlot env sg oi) [] := rfl

theorem initSlot_ok (env : Env) (sg : Subgraph) (oi : OpInfo) (acc acc' : List (String × Qsv)) (i : Int)
    (h : initSlot env sg oi acc i = .ok acc') :
    ∃ t q, tensorAt sg i = .ok t ∧ initTensor env oi t = .ok q ∧ acc' = Py.dictSet acc t.name q := by
  simp only [initSlot, bind, Except.bind] at h
  cases ht : tensorAt sg i with
  | error err => simp [ht] at h
  | ok t =>
    simp only [ht] at h
    cases hq : initTensor env oi t with
    | error err => simp [hq] at h
    | ok q =>
      simp only [hq, pure, Except.pure, Except.ok.injEq] at h
      exact ⟨t, q, rfl, hq, h.symm⟩

/-- the keys of an operator's initial statistics are names of its operands / results -/
theorem initQsvsOp_keys (env : Env) (sg : Subgraph) (oi : OpInfo) (opq : List (String × Qsv))
    (h : initQsvsOp env sg oi = .ok opq) (n : String) (hn : n ∈ opq.map (·.1)) :
    UsesName sg oi.op n := by
  rw [initQsvsOp_eq] at h
  have := GraphFrame.foldlM_inv (initSlot env sg oi)
    (fun acc => ∀ n ∈ acc.map (·.1), UsesName sg oi.op n) _ [] opq (fun n hn => by simp at hn) ?_ h
  · exact this n hn
  · intro i hi acc acc' hacc hstep n hn
    obtain ⟨t, q, ht, _, rfl⟩ := initSlot_ok env sg oi acc acc' i hstep
    obtain ⟨e, he, rfl⟩ := List.mem_map.1 hn
    rcases mem_dictSet _ _ _ _ he with he | he
    · exact hacc _ (List.mem_map.2 ⟨e, he, rfl⟩)
    · subst he
      obtain ⟨hi1, hi2⟩ := (mem_slots oi.op i).1 hi
      exact ⟨i, hi1, hi2, t, ht, rfl⟩

/-- every entry of an operator's initial statistics is `initTensor` of a slot tensor of that name -/
theorem initQsvsOp_vals (env : Env) (sg : Subgraph) (oi : OpInfo) (opq : List (String × Qsv))
    (h : initQsvsOp env sg oi = .ok opq) (e : String × Qsv) (he : e ∈ opq) :
    ∃ i ∈ oi.op.inputs ++ oi.op.outputs, i ≠ -1 ∧ ∃ t, tensorAt sg i = .ok t ∧ t.name = e.1 ∧
      initTensor env oi t = .ok e.2 := by
  rw [initQsvsOp_eq] at h
  have := GraphFrame.foldlM_inv (initSlot env sg oi)
    (fun acc => ∀ e ∈ acc, ∃ i ∈ oi.op.inputs ++ oi.op.outputs, i ≠ -1 ∧ ∃ t, tensorAt sg i = .ok t ∧
      t.name = e.1 ∧ initTensor env oi t = .ok e.2) _ [] opq (fun e he => by simp at he) ?_ h
  · exact this e he
  · intro i hi acc acc' hacc hstep e he
    obtain ⟨t, q, ht, hq, rfl⟩ := initSlot_ok env sg oi acc acc' i hstep
    rcases mem_dictSet _ _ _ _ he with he | he
    · exact hacc _ he
    · subst he
      obtain ⟨hi1, hi2⟩ := (mem_slots oi.op i).1 hi
      exact ⟨i, hi1, hi2, t, ht, rfl, hq⟩

/-- if every slot tensor of the name `n` is the tensor `t` (true when names are unique in the
    subgraph), the operator's entry for `n` is `initTensor` of `t` -/
theorem initQsvsOp_entry (env : Env) (sg : Subgraph) (oi : OpInfo) (opq : List (String × Qsv))
    (h : initQsvsOp env sg oi = .ok opq) (t : Tensor)
    (huses : UsesName sg oi.op t.name)
    (huniq : ∀ i ∈ oi.op.inputs ++ oi.op.outputs, ∀ t', tensorAt sg i = .ok t' → t'.name = t.name → t' = t) :
    ∃ v, Py.dictGet? opq t.name = some v ∧ initTensor env oi t = .ok v := by
  obtain ⟨i, hi, hi1, t0, ht0, hn0⟩ := huses
  have hkey : t.name ∈ opq.map (·.1) := by
    rw [initQsvsOp_eq] at h
    refine (foldlM_reach (initSlot env sg oi) (fun _ => True) (fun acc => t.name ∈ acc.map (·.1)) _ []
      opq trivial (fun _ _ _ _ _ _ => trivial) ?_ i ((mem_slots oi.op i).2 ⟨hi, hi1⟩) ?_ h).2
    · intro j _ acc acc' _ hacc hstep
      obtain ⟨t', q, _, _, rfl⟩ := initSlot_ok env sg oi acc acc' j hstep
      exact key_mem_dictSet _ _ _ _ (Or.inr hacc)
    · intro acc acc' _ hstep
      obtain ⟨t', q, ht', _, rfl⟩ := initSlot_ok env sg oi acc acc' i hstep
      rw [ht0] at ht'
      cases ht'
      exact key_mem_dictSet _ _ _ _ (Or.inl hn0.symm)
  obtain ⟨v, hv⟩ := dictGet?_of_key opq t.name hkey
  refine ⟨v, hv, ?_⟩
  obtain ⟨j, hj, _, t', ht', hn', hq'⟩ := initQsvsOp_vals env sg oi opq h _ (dictGet?_mem _ _ _ hv)
  rw [← huniq j hj t' ht' hn']
  exact hq'

/-! ## one operator of `initModel` -/

/-- the operator is selected for min/max calibration under op key `k` with configuration `cfg` -/
def Selected (rx : String → String → Bool) (env : Env) (st : Recipe.State) (sg : Subgraph) (op : Op)
    (k : String) (cfg : OpCfg) : Prop :=
  opKey env op = .ok (some k) ∧ ∃ scope, opScope sg op = .ok scope ∧
    Recipe.resolve rx st k scope = (Tables.algMinMax, cfg)

/-- a selected operator has an operand / result of this name -/
def Touches (rx : String → String → Bool) (env : Env) (st : Recipe.State) (sg : Subgraph) (op : Op)
    (n : String) : Prop :=
  ∃ k cfg, Selected rx env st sg op k cfg ∧ UsesName sg op n

theorem collects_iff (alg : String) : collects alg = true ↔ alg = Tables.algMinMax := by
  simp [collects]

theorem initOpStep_cases (rx : String → String → Bool) (env : Env) (st : Recipe.State)
    (p : Subgraph × Nat) (qs qs' : Qsvs) (q : Op × Nat)
    (h : initOpStep rx env st p qs q = .ok qs') :
    qs' = qs ∨ ∃ k cfg opq, Selected rx env st p.1 q.1 k cfg ∧
      initQsvsOp env p.1 { sgIdx := p.2, op := q.1, opName := k, opId := q.2, cfg := cfg } = .ok opq ∧
      qs' = opq.foldl initMerge qs := by
  unfold initOpStep at h
  cases hk : opKey env q.1 with
  | error err => simp [hk] at h
  | ok key =>
    cases key with
    | none =>
      simp only [hk, pure, Except.pure, Except.ok.injEq] at h
      exact Or.inl h.symm
    | some k =>
      simp only [hk] at h
      cases hs : opScope p.1 q.1 with
      | error err => simp [hs] at h
      | ok scope =>
        simp only [hs] at h
        split at h
        · simp only [pure, Except.pure, Except.ok.injEq] at h
          exact Or.inl h.symm
        · split at h
          · cases h
          · split at h
            · rename_i hc
              have halg := (collects_iff _).1 hc
              generalize hoi : OpInfo.mk p.2 q.1 k q.2 (Recipe.resolve rx st k scope).2 = oi at h
              cases hi : initQsvsOp env p.1 oi with
              | error err => simp [hi] at h
              | ok opq =>
                simp only [hi, pure, Except.pure, Except.ok.injEq] at h
                refine Or.inr ⟨k, (Recipe.resolve rx st k scope).2, opq, ⟨hk, scope, hs, ?_⟩, ?_, h.symm⟩
                · exact Prod.ext halg rfl
                · rw [hoi]; exact hi
            · simp only [pure, Except.pure, Except.ok.injEq] at h
              exact Or.inl h.symm

theorem initOpStep_selected (rx : String → String → Bool) (env : Env) (st : Recipe.State)
    (p : Subgraph × Nat) (qs qs' : Qsvs) (q : Op × Nat) (k : String) (cfg : OpCfg)
    (hsel : Selected rx env st p.1 q.1 k cfg)
    (h : initOpStep rx env st p qs q = .ok qs') :
    ∃ opq, initQsvsOp env p.1 { sgIdx := p.2, op := q.1, opName := k, opId := q.2, cfg := cfg } = .ok opq ∧
      qs' = opq.foldl initMerge qs := by
  obtain ⟨hk, scope, hs, hres⟩ := hsel
  unfold initOpStep at h
  have h1 : (Recipe.resolve rx st k scope).1 = Tables.algMinMax := by rw [hres]
  have h2 : (Recipe.resolve rx st k scope).2 = cfg := by rw [hres]
  simp only [hk, hs, h1, h2, algMinMax_ne_noQuantize, Bool.false_eq_true, if_false] at h
  split at h
  · cases h
  · have hcol : collects Tables.algMinMax = true := (collects_iff _).2 rfl
    simp only [hcol, if_true] at h
    generalize OpInfo.mk p.2 q.1 k q.2 cfg = oi at h ⊢
    cases hi : initQsvsOp env p.1 oi with
    | error err => simp [hi] at h
    | ok opq =>
      simp only [hi, pure, Except.pure, Except.ok.injEq] at h
      exact ⟨opq, rfl, h.symm⟩

/-- the first writer wins: an existing entry is never changed by `initModel` -/
theorem initOpStep_some (rx : String → String → Bool) (env : Env) (st : Recipe.State)
    (p : Subgraph × Nat) (qs qs' : Qsvs) (q : Op × Nat) (n : String) (v : Qsv)
    (h : initOpStep rx env st p qs q = .ok qs') (hv : Py.dictGet? qs n = some v) :
    Py.dictGet? qs' n = some v := by
  rcases initOpStep_cases rx env st p qs qs' q h with rfl | ⟨k, cfg, opq, _, _, rfl⟩
  · exact hv
  · exact initMergeAll_some opq qs n v hv

/-- an operator that is not selected, or has no operand of this name, does not create the entry -/
theorem initOpStep_none (rx : String → String → Bool) (env : Env) (st : Recipe.State)
    (p : Subgraph × Nat) (qs qs' : Qsvs) (q : Op × Nat) (n : String)
    (h : initOpStep rx env st p qs q = .ok qs') (hv : Py.dictGet? qs n = none)
    (hnt : ¬ Touches rx env st p.1 q.1 n) : Py.dictGet? qs' n = none := by
  rcases initOpStep_cases rx env st p qs qs' q h with rfl | ⟨k, cfg, opq, hsel, hi, rfl⟩
  · exact hv
  · refine initMergeAll_none opq qs n hv ?_
    intro hn
    exact hnt ⟨k, cfg, hsel, initQsvsOp_keys env p.1 _ opq hi n hn⟩

/-- the first selected operator with an operand of this name writes `initTensor` of that operand -/
theorem initOpStep_hit (rx : String → String → Bool) (env : Env) (st : Recipe.State)
    (p : Subgraph × Nat) (qs qs' : Qsvs) (q : Op × Nat) (k : String) (cfg : OpCfg) (t : Tensor)
    (hsel : Selected rx env st p.1 q.1 k cfg) (huses : UsesName p.1 q.1 t.name)
    (huniq : ∀ i ∈ q.1.inputs ++ q.1.outputs, ∀ t', tensorAt p.1 i = .ok t' → t'.name = t.name → t' = t)
    (h : initOpStep rx env st p qs q = .ok qs') (hv : Py.dictGet? qs t.name = none) :
    ∃ v, Py.dictGet? qs' t.name = some v ∧
      initTensor env { sgIdx := p.2, op := q.1, opName := k, opId := q.2, cfg := cfg } t = .ok v := by
  obtain ⟨opq, hi, rfl⟩ := initOpStep_selected rx env st p qs qs' q k cfg hsel h
  obtain ⟨v, hv1, hv2⟩ := initQsvsOp_entry env p.1 _ opq hi t huses huniq
  exact ⟨v, initMergeAll_hit opq qs t.name v hv hv1, hv2⟩

/-! ## the first writer of a name in `initModel` -/

theorem foldlM_first {α β} (f : β → α → PyM β) (Pn Q : β → Prop) (l1 l2 : List α) (x : α) (init r : β)
    (hinit : Pn init)
    (hpre : ∀ y ∈ l1, ∀ s s', Pn s → f s y = .ok s' → Pn s')
    (hx : ∀ s s', Pn s → f s x = .ok s' → Q s')
    (hpost : ∀ y ∈ l2, ∀ s s', Q s → f s y = .ok s' → Q s')
    (h : (l1 ++ x :: l2).foldlM f init = .ok r) : Q r := by
  rw [List.foldlM_append] at h
  simp only [bind, Except.bind] at h
  cases h1 : List.foldlM f init l1 with
  | error e => simp [h1] at h
  | ok s1 =>
    simp only [h1, List.foldlM_cons, bind, Except.bind] at h
    have hP1 : Pn s1 := GraphFrame.foldlM_inv f Pn l1 init s1 hinit hpre h1
    cases h2 : f s1 x with
    | error e => simp [h2] at h
    | ok s2 =>
      simp only [h2] at h
      exact GraphFrame.foldlM_inv f Q l2 s2 r (hx s1 s2 hP1 h2) hpost h

theorem zipIdx_split {α} (l : List α) (J : Nat) (x : α) (h : l[J]? = some x) :
    ∃ l1 l2, l.zipIdx = l1 ++ (x, J) :: l2 ∧ ∀ y ∈ l1, y.2 < J ∧ l[y.2]? = some y.1 := by
  obtain ⟨hJ, hx⟩ := List.getElem?_eq_some_iff.1 h
  refine ⟨(l.take J).zipIdx, (l.drop (J + 1)).zipIdx (J + 1), ?_, ?_⟩
  · conv => lhs; rw [← List.take_append_drop J l]
    rw [List.zipIdx_append, List.drop_eq_getElem_cons hJ, List.zipIdx_cons, hx]
    simp [Nat.min_eq_left (Nat.le_of_lt hJ)]
  · intro y hy
    obtain ⟨a, j⟩ := y
    have := List.mem_zipIdx_iff_getElem?.1 hy
    rw [List.getElem?_take] at this
    by_cases hj : j < J
    · simp only [if_pos hj] at this; exact ⟨hj, this⟩
    · simp [if_neg hj] at this

theorem mem_zipIdx_getElem? {α} (l : List α) (y : α × Nat) (h : y ∈ l.zipIdx) : l[y.2]? = some y.1 :=
  List.mem_zipIdx_iff_getElem?.1 h

/-- an existing entry survives one subgraph of `initModel` -/
theorem initSgStep_some (rx : String → String → Bool) (env : Env) (st : Recipe.State)
    (p : Subgraph × Nat) (qs qs' : Qsvs) (n : String) (v : Qsv)
    (h : initSgStep rx env st qs p = .ok qs') (hv : Py.dictGet? qs n = some v) :
    Py.dictGet? qs' n = some v :=
  GraphFrame.foldlM_inv (initOpStep rx env st p) (fun s => Py.dictGet? s n = some v) _ qs qs' hv
    (fun q _ s s' hs hstep => initOpStep_some rx env st p s s' q n v hstep hs) h

/-- **the first writer**: the entry of the name of `t` produced by `initModel` is `initTensor` of `t`
    computed for the first operator, in model order (subgraph index, then operator index), that is
    selected for min/max and has an operand / result of that name -/
theorem initFold_first (rx : String → String → Bool) (env : Env) (st : Recipe.State) (q0 : Qsvs)
    (h : initFold rx env st = .ok q0)
    (P J : Nat) (sg : Subgraph) (op : Op) (k : String) (cfg : OpCfg) (t : Tensor)
    (hsg : env.model.subgraphs[P]? = some sg) (hop : sg.ops[J]? = some op)
    (hsel : Selected rx env st sg op k cfg) (huses : UsesName sg op t.name)
    (huniq : ∀ i ∈ op.inputs ++ op.outputs, ∀ t', tensorAt sg i = .ok t' → t'.name = t.name → t' = t)
    (hfirst : ∀ P' J' sg' op', (P' < P ∨ (P' = P ∧ J' < J)) → env.model.subgraphs[P']? = some sg' →
      sg'.ops[J']? = some op' → ¬ Touches rx env st sg' op' t.name) :
    ∃ v, Py.dictGet? q0 t.name = some v ∧
      initTensor env { sgIdx := P, op := op, opName := k, opId := J, cfg := cfg } t = .ok v := by
  unfold initFold at h
  obtain ⟨l1, l2, hl, hl1⟩ := zipIdx_split env.model.subgraphs P sg hsg
  rw [hl] at h
  refine foldlM_first (initSgStep rx env st) (fun s => Py.dictGet? s t.name = none)
    (fun s => ∃ v, Py.dictGet? s t.name = some v ∧
      initTensor env { sgIdx := P, op := op, opName := k, opId := J, cfg := cfg } t = .ok v)
    l1 l2 (sg, P) [] q0 rfl ?_ ?_ ?_ h
  · intro y hy s s' hs hstep
    obtain ⟨hyP, hysg⟩ := hl1 y hy
    refine GraphFrame.foldlM_inv (initOpStep rx env st y) (fun s => Py.dictGet? s t.name = none) _ s s' hs
      ?_ hstep
    intro q hq r r' hr hq'
    exact initOpStep_none rx env st y r r' q t.name hq' hr
      (hfirst y.2 q.2 y.1 q.1 (Or.inl hyP) hysg (mem_zipIdx_getElem? _ q hq))
  · intro s s' hs hstep
    unfold initSgStep at hstep
    obtain ⟨m1, m2, hm, hm1⟩ := zipIdx_split sg.ops J op hop
    simp only at hstep
    rw [hm] at hstep
    refine foldlM_first (initOpStep rx env st (sg, P)) (fun s => Py.dictGet? s t.name = none)
      (fun s => ∃ v, Py.dictGet? s t.name = some v ∧
        initTensor env { sgIdx := P, op := op, opName := k, opId := J, cfg := cfg } t = .ok v)
      m1 m2 (op, J) s s' hs ?_ ?_ ?_ hstep
    · intro q hq r r' hr hq'
      obtain ⟨hqJ, hqop⟩ := hm1 q hq
      exact initOpStep_none rx env st (sg, P) r r' q t.name hq' hr
        (hfirst P q.2 sg q.1 (Or.inr ⟨rfl, hqJ⟩) hsg hqop)
    · intro r r' hr hq'
      exact initOpStep_hit rx env st (sg, P) r r' (op, J) k cfg t hsel huses huniq hq' hr
    · intro q _ r r' hr hq'
      obtain ⟨v, hv1, hv2⟩ := hr
      exact ⟨v, initOpStep_some rx env st (sg, P) r r' q t.name v hq' hv1, hv2⟩
  · intro y _ s s' hs hstep
    obtain ⟨v, hv1, hv2⟩ := hs
    exact ⟨v, initSgStep_some rx env st y s s' t.name v hstep hv1, hv2⟩

/-! ## entries of `initModel` that carry statistics belong to constants -/

/-- some tensor of this name, in some subgraph, is a constant with non-empty data -/
def ConstNamed (env : Env) (n : String) : Prop :=
  ∃ sg ∈ env.model.subgraphs, ∃ t ∈ sg.tensors, t.name = n ∧
    ∃ d, constAny env t = some d ∧ d.data.isEmpty = false

theorem initTensor_some (env : Env) (oi : OpInfo) (t : Tensor) (v : FArr × FArr)
    (h : initTensor env oi t = .ok (some v)) :
    ∃ d, constAny env t = some d ∧ d.data.isEmpty = false := by
  unfold initTensor at h
  cases hc : constAny env t with
  | none => simp [hc, pure, Except.pure] at h
  | some d =>
    simp only [hc] at h
    by_cases he : d.data.isEmpty = true
    · simp [he, pure, Except.pure] at h
    · exact ⟨d, rfl, by simpa using he⟩

theorem initTensor_nonconst (env : Env) (oi : OpInfo) (t : Tensor) (h : constAny env t = none) :
    initTensor env oi t = .ok none := by
  unfold initTensor; rw [h]; rfl

theorem initFold_stats_const (rx : String → String → Bool) (env : Env) (st : Recipe.State) (q0 : Qsvs)
    (h : initFold rx env st = .ok q0) :
    ∀ e ∈ q0, ∀ v, e.2 = some v → ConstNamed env e.1 := by
  unfold initFold at h
  refine GraphFrame.foldlM_inv (initSgStep rx env st)
    (fun s => ∀ e ∈ s, ∀ v, e.2 = some v → ConstNamed env e.1) _ [] q0 (fun e he => by simp at he) ?_ h
  intro p hp s s' hs hstep
  have hpm : p.1 ∈ env.model.subgraphs := List.mem_of_getElem? (mem_zipIdx_getElem? _ p hp)
  refine GraphFrame.foldlM_inv (initOpStep rx env st p)
    (fun s => ∀ e ∈ s, ∀ v, e.2 = some v → ConstNamed env e.1) _ s s' hs ?_ hstep
  intro q _ r r' hr hq e he v hev
  rcases initOpStep_cases rx env st p r r' q hq with rfl | ⟨k, cfg, opq, _, hi, rfl⟩
  · exact hr e he v hev
  · rcases mem_initMergeAll opq r e he with he | he
    · exact hr e he v hev
    · obtain ⟨i, _, _, t, ht, hn, hq⟩ := initQsvsOp_vals env p.1 _ opq hi e he
      rw [hev] at hq
      obtain ⟨d, hd1, hd2⟩ := initTensor_some env _ t v hq
      exact ⟨p.1, hpm, t, index_mem _ _ _ ht, hn, d, hd1, hd2⟩

/-- if no tensor of this name anywhere in the model is a non-empty constant, `initModel` records no
    statistics under the name (the entry is absent or `{}`) -/
theorem initFold_no_stats (rx : String → String → Bool) (env : Env) (st : Recipe.State) (q0 : Qsvs)
    (h : initFold rx env st = .ok q0) (n : String) (hn : ¬ ConstNamed env n) :
    (Py.dictGet? q0 n).join = none := by
  cases hg : Py.dictGet? q0 n with
  | none => rfl
  | some x =>
    cases x with
    | none => rfl
    | some v => exact absurd (initFold_stats_const rx env st q0 h _ (dictGet?_mem _ _ _ hg) v rfl) hn

/-! ## one sample of `calibrate`, seen from one tensor name -/

/-- the statistic one sample contributes to a runtime tensor: whole-tensor min / max of its contents -/
def sampleStat (n : String) (c : Contents) : PyM Qsv :=
  match Py.dictGet? c n with
  | none => .error .keyError
  | some d => minMaxAll d

/-- one slot of `calibrateOp` -/
def calibSlot (env : Env) (sg : Subgraph) (contents : Contents) (acc : List (String × Qsv)) (i : Int) :
    PyM (List (String × Qsv)) := do
  let t ← tensorAt sg i
  if (constAny env t).isSome then pure acc
  else match Py.dictGet? contents t.name with
    | none => throw .keyError
    | some d => do
      let q ← minMaxAll d
      pure (Py.dictSet acc t.name q)

theorem calibrateOp_eq (env : Env) (sg : Subgraph) (op : Op) (contents : Contents) :
    calibrateOp env sg op contents =
      ((op.inputs ++ op.outputs).filter (· != -1)).foldlM (calibSlot env sg contents) [] := rfl

theorem calibSlot_ok (env : Env) (sg : Subgraph) (c : Contents) (acc acc' : List (String × Qsv)) (i : Int)
    (h : calibSlot env sg c acc i = .ok acc') :
    ∃ t, tensorAt sg i = .ok t ∧
      (((constAny env t).isSome = true ∧ acc' = acc) ∨
       (constAny env t = none ∧ ∃ q, sampleStat t.name c = .ok q ∧ acc' = Py.dictSet acc t.name q)) := by
  simp only [calibSlot, bind, Except.bind] at h
  cases ht : tensorAt sg i with
  | error err => simp [ht] at h
  | ok t =>
    simp only [ht] at h
    refine ⟨t, rfl, ?_⟩
    by_cases hc : (constAny env t).isSome = true
    · simp only [if_pos hc, pure, Except.pure, Except.ok.injEq] at h
      exact Or.inl ⟨hc, h.symm⟩
    · simp only [if_neg hc] at h
      have hnc : constAny env t = none := by simpa using hc
      refine Or.inr ⟨hnc, ?_⟩
      unfold sampleStat
      cases hd : Py.dictGet? c t.name with
      | none => simp [hd, throw, throwThe, MonadExceptOf.throw] at h
      | some d =>
        simp only [hd] at h ⊢
        cases hq : minMaxAll d with
        | error err => simp [hq] at h
        | ok q =>
          simp only [hq, pure, Except.pure, Except.ok.injEq] at h
          exact ⟨q, rfl, h.symm⟩

/-- every entry an operator contributes is the sample statistic of a non-constant tensor of the subgraph -/
theorem calibrateOp_entries (env : Env) (sg : Subgraph) (op : Op) (c : Contents)
    (opq : List (String × Qsv)) (h : calibrateOp env sg op c = .ok opq) :
    ∀ e ∈ opq, sampleStat e.1 c = .ok e.2 ∧ ∃ t ∈ sg.tensors, t.name = e.1 ∧ constAny env t = none := by
  rw [calibrateOp_eq] at h
  refine GraphFrame.foldlM_inv (calibSlot env sg c)
    (fun acc => ∀ e ∈ acc, sampleStat e.1 c = .ok e.2 ∧ ∃ t ∈ sg.tensors, t.name = e.1 ∧ constAny env t = none)
    _ [] opq (fun e he => by simp at he) ?_ h
  intro i _ acc acc' hacc hstep e he
  obtain ⟨t, ht, hcase⟩ := calibSlot_ok env sg c acc acc' i hstep
  rcases hcase with ⟨_, rfl⟩ | ⟨hnc, q, hq, rfl⟩
  · exact hacc e he
  · rcases mem_dictSet _ _ _ _ he with he | he
    · exact hacc e he
    · subst he
      exact ⟨hq, t, index_mem _ _ _ ht, rfl, hnc⟩

/-- the view of one name `n` during one sample: once updated it holds `ema old new` of the entry the
    sample started from; before that it is untouched -/
def Foc (q0 : Qsvs) (c : Contents) (n : String) (s : MState) : Prop :=
  (n ∈ s.2 → ∃ m v, sampleStat n c = .ok m ∧ ema (Py.dictGet? q0 n).join m = .ok v ∧
      Py.dictGet? s.1 n = some v) ∧
  (n ∉ s.2 → Py.dictGet? s.1 n = Py.dictGet? q0 n)

theorem mergeStep_ne (s s' : MState) (e : String × Qsv) (n : String) (hne : e.1 ≠ n)
    (h : mergeStep s e = .ok s') :
    Py.dictGet? s'.1 n = Py.dictGet? s.1 n ∧ (n ∈ s'.2 ↔ n ∈ s.2) := by
  unfold mergeStep at h
  by_cases hc : s.2.contains e.1 = true
  · simp only [if_pos hc, pure, Except.pure, Except.ok.injEq] at h
    subst h; exact ⟨rfl, Iff.rfl⟩
  · simp only [if_neg hc] at h
    have hmem : ∀ l : List String, n ∈ l ++ [e.1] ↔ n ∈ l := by
      intro l
      simp only [List.mem_append, List.mem_singleton]
      exact ⟨fun h => h.elim id (fun h' => absurd h'.symm hne), Or.inl⟩
    cases hg : Py.dictGet? s.1 e.1 with
    | none =>
      simp only [hg, pure, Except.pure, Except.ok.injEq] at h
      subst h
      exact ⟨dictGet?_append_ne _ _ _ hne, hmem _⟩
    | some old =>
      simp only [hg] at h
      cases hema : ema old e.2 with
      | error err => simp [hema] at h
      | ok nv =>
        simp only [hema, pure, Except.pure, Except.ok.injEq] at h
        subst h
        refine ⟨?_, hmem _⟩
        show Py.dictGet? (Py.dictSet s.1 e.1 nv) n = _
        rw [dictGet?_dictSet, if_neg hne]

theorem mergeStep_foc (q0 : Qsvs) (c : Contents) (n : String) (s s' : MState) (e : String × Qsv)
    (he : sampleStat e.1 c = .ok e.2) (hF : Foc q0 c n s) (h : mergeStep s e = .ok s') :
    Foc q0 c n s' := by
  by_cases hne : e.1 = n
  · obtain ⟨hF1, hF2⟩ := hF
    unfold mergeStep at h
    by_cases hc : s.2.contains e.1 = true
    · simp only [if_pos hc, pure, Except.pure, Except.ok.injEq] at h
      subst h; exact ⟨hF1, hF2⟩
    · simp only [if_neg hc] at h
      have hns : n ∉ s.2 := by
        intro hm; apply hc; rw [hne]; exact List.contains_iff_mem.2 hm
      have hq0 := hF2 hns
      cases hg : Py.dictGet? s.1 e.1 with
      | none =>
        simp only [hg, pure, Except.pure, Except.ok.injEq] at h
        subst h
        refine ⟨fun _ => ⟨e.2, e.2, ?_, ?_, ?_⟩, fun hn => absurd (by simp [hne]) hn⟩
        · rw [← hne]; exact he
        · rw [← hq0, ← hne, hg]; rfl
        · show Py.dictGet? (s.1 ++ [e]) n = some e.2
          rw [← hne]; exact dictGet?_append_new _ _ hg
      | some old =>
        simp only [hg] at h
        cases hema : ema old e.2 with
        | error err => simp [hema] at h
        | ok nv =>
          simp only [hema, pure, Except.pure, Except.ok.injEq] at h
          subst h
          refine ⟨fun _ => ⟨e.2, nv, ?_, ?_, ?_⟩, fun hn => absurd (by simp [hne]) hn⟩
          · rw [← hne]; exact he
          · rw [← hq0, ← hne, hg]; exact hema
          · show Py.dictGet? (Py.dictSet s.1 e.1 nv) n = some nv
            rw [dictGet?_dictSet, if_pos hne]
  · obtain ⟨h1, h2⟩ := mergeStep_ne s s' e n hne h
    refine ⟨fun hn => ?_, fun hn => ?_⟩
    · obtain ⟨m, v, hm, hv, hg⟩ := hF.1 (h2.1 hn)
      exact ⟨m, v, hm, hv, by rw [h1]; exact hg⟩
    · rw [h1]; exact hF.2 (fun hn' => hn (h2.2 hn'))

/-- case analysis of one operator step of a sample -/
theorem opStep_cases (rx : String → String → Bool) (env : Env) (st : Recipe.State) (sg : Subgraph)
    (c : Contents) (s s' : MState) (q : Op × Option String)
    (h : opStep rx env st sg c s q = .ok s') :
    s' = s ∨ ∃ opq, calibrateOp env sg q.1 c = .ok opq ∧ opq.foldlM mergeStep s = .ok s' := by
  unfold opStep at h
  cases hk : keyOf env q with
  | error err => simp [hk] at h
  | ok key =>
    cases key with
    | none =>
      simp only [hk, pure, Except.pure, Except.ok.injEq] at h
      exact Or.inl h.symm
    | some k =>
      simp only [hk] at h
      cases hs : opScope sg q.1 with
      | error err => simp [hs] at h
      | ok scope =>
        simp only [hs] at h
        split at h
        · simp only [pure, Except.pure, Except.ok.injEq] at h
          exact Or.inl h.symm
        · split at h
          · cases h
          · split at h
            · cases hc : calibrateOp env sg q.1 c with
              | error err => simp [hc] at h
              | ok opq =>
                simp only [hc] at h
                exact Or.inr ⟨opq, rfl, h⟩
            · simp only [pure, Except.pure, Except.ok.injEq] at h
              exact Or.inl h.symm

theorem opStep_foc (rx : String → String → Bool) (env : Env) (st : Recipe.State) (sg : Subgraph)
    (c : Contents) (q0 : Qsvs) (n : String) (s s' : MState) (q : Op × Option String)
    (hF : Foc q0 c n s) (h : opStep rx env st sg c s q = .ok s') : Foc q0 c n s' := by
  rcases opStep_cases rx env st sg c s s' q h with rfl | ⟨opq, hc, hm⟩
  · exact hF
  · have hent := calibrateOp_entries env sg q.1 c opq hc
    exact GraphFrame.foldlM_inv mergeStep (Foc q0 c n) opq s s' hF
      (fun e he r r' hr hstep => mergeStep_foc q0 c n r r' e (hent e he).1 hr hstep) hm

/-- a name that no non-constant tensor of the calibrated subgraph carries is never touched by a sample -/
theorem opStep_frame (rx : String → String → Bool) (env : Env) (st : Recipe.State) (sg : Subgraph)
    (c : Contents) (n : String) (s s' : MState) (q : Op × Option String)
    (hn : ∀ t ∈ sg.tensors, t.name = n → constAny env t ≠ none)
    (h : opStep rx env st sg c s q = .ok s') : Py.dictGet? s'.1 n = Py.dictGet? s.1 n := by
  rcases opStep_cases rx env st sg c s s' q h with rfl | ⟨opq, hc, hm⟩
  · rfl
  · have hent := calibrateOp_entries env sg q.1 c opq hc
    exact GraphFrame.foldlM_inv mergeStep (fun r => Py.dictGet? r.1 n = Py.dictGet? s.1 n) opq s s' rfl
      (fun e he r r' hr hstep => by
        obtain ⟨_, t, htm, htn, htc⟩ := hent e he
        have hne : e.1 ≠ n := fun heq => hn t htm (htn.trans heq) htc
        rw [(mergeStep_ne r r' e n hne hstep).1]; exact hr) hm

theorem sampleFold_ok (rx : String → String → Bool) (env : Env) (st : Recipe.State) (sgi : Nat)
    (sg : Subgraph) (hsg : env.model.subgraphs[sgi]? = some sg) (q0 qs : Qsvs) (c : Contents)
    (h : calibrateSample rx env st sgi q0 c = .ok qs) :
    ∃ r, (allOps sg).foldlM (opStep rx env st sg c) (q0, []) = .ok r ∧ r.1 = qs := by
  rw [calibrateSample_eq] at h
  unfold sampleFold at h
  simp only [hsg] at h
  cases hf : (allOps sg).foldlM (opStep rx env st sg c) (q0, []) with
  | error err => simp [hf] at h
  | ok r =>
    simp only [hf, Except.ok.injEq] at h
    exact ⟨r, rfl, h⟩

/-- **one sample, exactly**: the entry of a non-constant operand / result of a selected operator is
    `ema old new`, where `old` is the entry before the sample (absent and `{}` both count as "no
    statistics yet") and `new` the whole-tensor min / max of the tensor's contents in this sample -/
theorem sample_exact (rx : String → String → Bool) (env : Env) (st : Recipe.State) (sgi : Nat)
    (sg : Subgraph) (hsg : env.model.subgraphs[sgi]? = some sg)
    (q0 qs : Qsvs) (c : Contents)
    (h : calibrateSample rx env st sgi q0 c = .ok qs)
    (op : Op) (k scope : String) (hop : IsOp env sg op k) (hscope : opScope sg op = .ok scope)
    (hsel : (Recipe.resolve rx st k scope).1 = Tables.algMinMax)
    (i : Int) (hi : i ∈ op.inputs ++ op.outputs) (hi1 : i ≠ -1) (t : Tensor) (ht : tensorAt sg i = .ok t)
    (hnc : constAny env t = none) :
    ∃ m v, sampleStat t.name c = .ok m ∧ ema (Py.dictGet? q0 t.name).join m = .ok v ∧
      Py.dictGet? qs t.name = some v := by
  obtain ⟨r, hf, rfl⟩ := sampleFold_ok rx env st sgi sg hsg q0 qs c h
  obtain ⟨q, hq, hq1, hqk⟩ := hop.mem_allOps
  subst hq1
  have hupd := foldlM_reach (opStep rx env st sg c) Inv (fun s => t.name ∈ s.2)
    (allOps sg) (q0, []) r (fun n hn => by simp at hn)
    (fun x _ s s' hI hs => (opStep_inv rx env st sg c s s' x hI hs).1)
    (fun x _ s s' hI hQ hs => (opStep_inv rx env st sg c s s' x hI hs).2 _ hQ)
    q hq
    (fun s s' hI hs => opStep_hit rx env st sg c s s' q k scope hqk hscope hsel i hi hi1 t
      ht hnc hI hs)
    hf
  have hfoc : Foc q0 c t.name r :=
    GraphFrame.foldlM_inv (opStep rx env st sg c) (Foc q0 c t.name) (allOps sg) (q0, []) r
      ⟨fun hn => by simp at hn, fun _ => rfl⟩
      (fun x _ s s' hs hstep => opStep_foc rx env st sg c q0 t.name s s' x hs hstep) hf
  exact hfoc.1 hupd.2

/-- a sample never changes the entry of a name that no non-constant tensor of the calibrated subgraph has -/
theorem sample_frame (rx : String → String → Bool) (env : Env) (st : Recipe.State) (sgi : Nat)
    (sg : Subgraph) (hsg : env.model.subgraphs[sgi]? = some sg) (q0 qs : Qsvs) (c : Contents)
    (h : calibrateSample rx env st sgi q0 c = .ok qs) (n : String)
    (hn : ∀ t ∈ sg.tensors, t.name = n → constAny env t ≠ none) :
    Py.dictGet? qs n = Py.dictGet? q0 n := by
  obtain ⟨r, hf, rfl⟩ := sampleFold_ok rx env st sgi sg hsg q0 qs c h
  exact GraphFrame.foldlM_inv (opStep rx env st sg c) (fun s => Py.dictGet? s.1 n = Py.dictGet? q0 n)
    (allOps sg) (q0, []) r rfl
    (fun x _ s s' hs hstep => by rw [opStep_frame rx env st sg c n s s' x hn hstep]; exact hs) hf

/-! ## the whole dataset -/

/-- the declarative value of the recorded statistics: the first sample initialises, every further
    sample is merged by `ema` (weight 0.95 on the old value), in dataset order -/
def emaSpec : List Qsv → PyM Qsv
  | [] => .ok none
  | q :: rest => rest.foldlM ema q

theorem emaSpec_eq_foldlM (vs : List Qsv) : emaSpec vs = vs.foldlM ema none := by
  cases vs with
  | nil => rfl
  | cons q rest => rfl

theorem mapM_cons_ok {α β} (f : α → PyM β) (a : α) (l : List α) (b : β) (bs : List β)
    (h1 : f a = .ok b) (h2 : l.mapM f = .ok bs) : (a :: l).mapM f = .ok (b :: bs) := by
  rw [List.mapM_cons, h1, h2]; rfl

theorem samples_exact (rx : String → String → Bool) (env : Env) (st : Recipe.State) (sgi : Nat)
    (sg : Subgraph) (hsg : env.model.subgraphs[sgi]? = some sg)
    (op : Op) (k scope : String) (hop : IsOp env sg op k) (hscope : opScope sg op = .ok scope)
    (hsel : (Recipe.resolve rx st k scope).1 = Tables.algMinMax)
    (i : Int) (hi : i ∈ op.inputs ++ op.outputs) (hi1 : i ≠ -1) (t : Tensor) (ht : tensorAt sg i = .ok t)
    (hnc : constAny env t = none) :
    ∀ (samples : List Contents) (q0 qs : Qsvs),
      samples.foldlM (calibrateSample rx env st sgi) q0 = .ok qs →
      ∃ ms, samples.mapM (sampleStat t.name) = .ok ms ∧
        ∃ v, ms.foldlM ema (Py.dictGet? q0 t.name).join = .ok v ∧
          (samples ≠ [] → Py.dictGet? qs t.name = some v) := by
  intro samples
  induction samples with
  | nil =>
    intro q0 qs _
    exact ⟨[], rfl, _, rfl, fun h => absurd rfl h⟩
  | cons c rest ih =>
    intro q0 qs h
    simp only [List.foldlM_cons, bind, Except.bind] at h
    cases h1 : calibrateSample rx env st sgi q0 c with
    | error err => simp [h1] at h
    | ok q1 =>
      simp only [h1] at h
      obtain ⟨m, v1, hm, hv1, hg1⟩ :=
        sample_exact rx env st sgi sg hsg q0 q1 c h1 op k scope hop hscope hsel i hi hi1 t ht hnc
      obtain ⟨ms, hms, v, hv, hfin⟩ := ih q1 qs h
      rw [hg1] at hv
      refine ⟨m :: ms, mapM_cons_ok _ _ _ _ _ hm hms, v, ?_, fun _ => ?_⟩
      · simp only [List.foldlM_cons, bind, Except.bind, hv1]
        exact hv
      · cases rest with
        | nil =>
          simp only [List.foldlM_nil, pure, Except.pure, Except.ok.injEq] at h
          subst h
          have : ms = [] := by
            have h0 : ([] : List Contents).mapM (sampleStat t.name) = .ok [] := rfl
            rw [h0] at hms
            exact (Except.ok.inj hms).symm
          subst this
          simp only [List.foldlM_nil, pure, Except.pure, Except.ok.injEq, Option.join_some] at hv
          rw [hg1, hv]
        | cons c' rest' => exact hfin (by simp)

/-- unfolding `calibrate` on a fresh start -/
theorem calibrate_fresh (rx : String → String → Bool) (env : Env) (st : Recipe.State) (sgi : Nat)
    (samples : List Contents) (qs : Qsvs) (hneed : Recipe.needCalibration st = true)
    (h : calibrate rx env st sgi none samples = .ok qs) :
    ∃ q0, initModel rx env st = .ok q0 ∧ samples.foldlM (calibrateSample rx env st sgi) q0 = .ok qs := by
  unfold calibrate at h
  simp only [hneed, Bool.not_true, Bool.false_eq_true, if_false, Option.getD_none, List.isEmpty_nil,
    if_true, bind, Except.bind] at h
  cases hi : initModel rx env st with
  | error err => simp [hi] at h
  | ok q0 => simp only [hi] at h; exact ⟨q0, rfl, h⟩

/-- **runtime statistics are exact** (general form: the hypothesis on `initModel` is exactly what is
    needed — the name must not start with statistics of a constant) -/
theorem runtime_stats_exact_of_init (rx : String → String → Bool) (env : Env) (st : Recipe.State)
    (sgi : Nat) (sg : Subgraph) (hsg : env.model.subgraphs[sgi]? = some sg)
    (samples : List Contents) (hne : samples ≠ []) (qs : Qsvs)
    (hneed : Recipe.needCalibration st = true)
    (h : calibrate rx env st sgi none samples = .ok qs)
    (op : Op) (k scope : String) (hop : IsOp env sg op k) (hscope : opScope sg op = .ok scope)
    (hsel : (Recipe.resolve rx st k scope).1 = Tables.algMinMax)
    (i : Int) (hi : i ∈ op.inputs ++ op.outputs) (hi1 : i ≠ -1) (t : Tensor) (ht : tensorAt sg i = .ok t)
    (hnc : constAny env t = none)
    (hinit : ∀ q0, initModel rx env st = .ok q0 → (Py.dictGet? q0 t.name).join = none) :
    ∃ vs, samples.mapM (sampleStat t.name) = .ok vs ∧
      ∃ v, emaSpec vs = .ok v ∧ Py.dictGet? qs t.name = some v := by
  obtain ⟨q0, hq0, hfold⟩ := calibrate_fresh rx env st sgi samples qs hneed h
  obtain ⟨ms, hms, v, hv, hfin⟩ := samples_exact rx env st sgi sg hsg op k scope hop hscope hsel i hi hi1
    t ht hnc samples q0 qs hfold
  rw [hinit q0 hq0] at hv
  exact ⟨ms, hms, v, by rw [emaSpec_eq_foldlM]; exact hv, hfin hne⟩

theorem runtime_stats_exact (rx : String → String → Bool) (env : Env) (st : Recipe.State)
    (sgi : Nat) (sg : Subgraph) (hsg : env.model.subgraphs[sgi]? = some sg)
    (samples : List Contents) (hne : samples ≠ []) (qs : Qsvs)
    (hneed : Recipe.needCalibration st = true)
    (h : calibrate rx env st sgi none samples = .ok qs)
    (op : Op) (k scope : String) (hop : IsOp env sg op k) (hscope : opScope sg op = .ok scope)
    (hsel : (Recipe.resolve rx st k scope).1 = Tables.algMinMax)
    (i : Int) (hi : i ∈ op.inputs ++ op.outputs) (hi1 : i ≠ -1) (t : Tensor) (ht : tensorAt sg i = .ok t)
    (hnc : constAny env t = none)
    (hname : ¬ ConstNamed env t.name) :
    ∃ vs, samples.mapM (sampleStat t.name) = .ok vs ∧
      ∃ v, emaSpec vs = .ok v ∧ Py.dictGet? qs t.name = some v :=
  runtime_stats_exact_of_init rx env st sgi sg hsg samples hne qs hneed h op k scope hop hscope hsel
    i hi hi1 t ht hnc
    (fun q0 hq0 => initFold_no_stats rx env st q0 (by rw [← initModel_eq]; exact hq0) t.name hname)

/-- **resumed calibration is exact**: continuing from the result of a first dataset gives the
    specification of the concatenated dataset -/
theorem resumed_stats_exact (rx : String → String → Bool) (env : Env) (st : Recipe.State)
    (sgi : Nat) (sg : Subgraph) (hsg : env.model.subgraphs[sgi]? = some sg)
    (D1 D2 : List Contents) (hne : D1 ++ D2 ≠ []) (q1 q2 : Qsvs)
    (hneed : Recipe.needCalibration st = true)
    (h1 : calibrate rx env st sgi none D1 = .ok q1)
    (h2 : calibrate rx env st sgi (some q1) D2 = .ok q2)
    (op : Op) (k scope : String) (hop : IsOp env sg op k) (hscope : opScope sg op = .ok scope)
    (hsel : (Recipe.resolve rx st k scope).1 = Tables.algMinMax)
    (i : Int) (hi : i ∈ op.inputs ++ op.outputs) (hi1 : i ≠ -1) (t : Tensor) (ht : tensorAt sg i = .ok t)
    (hnc : constAny env t = none)
    (hname : ¬ ConstNamed env t.name) :
    ∃ vs, (D1 ++ D2).mapM (sampleStat t.name) = .ok vs ∧
      ∃ v, emaSpec vs = .ok v ∧ Py.dictGet? q2 t.name = some v := by
  rw [resume rx env st sgi D1 D2 q1 h1] at h2
  exact runtime_stats_exact rx env st sgi sg hsg (D1 ++ D2) hne q2 hneed h2 op k scope hop hscope hsel
    i hi hi1 t ht hnc hname

/-! ## constants -/

theorem samples_frame (rx : String → String → Bool) (env : Env) (st : Recipe.State) (sgi : Nat)
    (sg : Subgraph) (hsg : env.model.subgraphs[sgi]? = some sg) (samples : List Contents) (q0 qs : Qsvs)
    (h : samples.foldlM (calibrateSample rx env st sgi) q0 = .ok qs) (n : String)
    (hn : ∀ t ∈ sg.tensors, t.name = n → constAny env t ≠ none) :
    Py.dictGet? qs n = Py.dictGet? q0 n :=
  GraphFrame.foldlM_inv (calibrateSample rx env st sgi) (fun s => Py.dictGet? s n = Py.dictGet? q0 n)
    samples q0 qs rfl
    (fun c _ s s' hs hstep => by rw [sample_frame rx env st sgi sg hsg s s' c hstep n hn]; exact hs) h

/-- **statistics of constants are exact and never touched by the samples**: the entry under the
    name of `t` is `initTensor` of `t`, computed with the `OpInfo` of the first operator in model
    order (subgraph index `P`, operator index `J`) that is selected for min/max and has an
    operand / result of that name -/
theorem const_stats_exact (rx : String → String → Bool) (env : Env) (st : Recipe.State)
    (sgi : Nat) (sgc : Subgraph) (hsgc : env.model.subgraphs[sgi]? = some sgc)
    (samples : List Contents) (qs : Qsvs) (hneed : Recipe.needCalibration st = true)
    (h : calibrate rx env st sgi none samples = .ok qs)
    (P J : Nat) (sg : Subgraph) (op : Op) (k : String) (cfg : OpCfg) (t : Tensor)
    (hsg : env.model.subgraphs[P]? = some sg) (hop : sg.ops[J]? = some op)
    (hsel : Selected rx env st sg op k cfg) (huses : UsesName sg op t.name)
    (huniq : ∀ i ∈ op.inputs ++ op.outputs, ∀ t', tensorAt sg i = .ok t' → t'.name = t.name → t' = t)
    (hfirst : ∀ P' J' sg' op', (P' < P ∨ (P' = P ∧ J' < J)) → env.model.subgraphs[P']? = some sg' →
      sg'.ops[J']? = some op' → ¬ Touches rx env st sg' op' t.name)
    (hnr : ∀ t' ∈ sgc.tensors, t'.name = t.name → constAny env t' ≠ none) :
    ∃ v, Py.dictGet? qs t.name = some v ∧
      initTensor env { sgIdx := P, op := op, opName := k, opId := J, cfg := cfg } t = .ok v := by
  obtain ⟨q0, hq0, hfold⟩ := calibrate_fresh rx env st sgi samples qs hneed h
  rw [initModel_eq] at hq0
  obtain ⟨v, hv1, hv2⟩ := initFold_first rx env st q0 hq0 P J sg op k cfg t hsg hop hsel huses huniq hfirst
  refine ⟨v, ?_, hv2⟩
  rw [samples_frame rx env st sgi sgc hsgc samples q0 qs hfold t.name hnr]
  exact hv1

/-- what `initTensor` is on a constant with data: its per-tensor / per-channel min and max -/
theorem initTensor_const (env : Env) (oi : OpInfo) (t : Tensor) (d : Arr Rat) (v : Qsv)
    (hc : constAny env t = some d) (hd : d.data.isEmpty = false)
    (h : initTensor env oi t = .ok v) :
    ∃ mn mx, initMinMax env oi t d = .ok (mn, mx) ∧
      v = some (⟨mn.arr, statPrec t⟩, ⟨mx.arr, statPrec t⟩) := by
  unfold initTensor at h
  simp only [hc, hd, Bool.false_eq_true, if_false, bind, Except.bind] at h
  cases hm : initMinMax env oi t d with
  | error err => simp [hm] at h
  | ok r =>
    obtain ⟨mn, mx⟩ := r
    simp only [hm, pure, Except.pure, Except.ok.injEq] at h
    exact ⟨mn, mx, rfl, h.symm⟩

theorem nodup_map_inj {α β} (f : α → β) : ∀ (l : List α), (l.map f).Nodup →
    ∀ a ∈ l, ∀ b ∈ l, f a = f b → a = b := by
  intro l
  induction l with
  | nil => intro _ a ha; simp at ha
  | cons x l ih =>
    intro hnd a ha b hb hab
    rw [List.map_cons, List.nodup_cons] at hnd
    rcases List.mem_cons.1 ha with ha' | ha' <;> rcases List.mem_cons.1 hb with hb' | hb'
    · rw [ha', hb']
    · subst ha'
      exact absurd (List.mem_map.2 ⟨b, hb', hab.symm⟩) hnd.1
    · subst hb'
      exact absurd (List.mem_map.2 ⟨a, ha', hab⟩) hnd.1
    · exact ih hnd.2 a ha' b hb' hab

/-- unique tensor names in a subgraph give the `huniq` hypothesis of `const_stats_exact` -/
theorem uniq_of_nodup (sg : Subgraph) (hnd : (sg.tensors.map (·.name)).Nodup) (t : Tensor)
    (ht : t ∈ sg.tensors) (op : Op) :
    ∀ i ∈ op.inputs ++ op.outputs, ∀ t', tensorAt sg i = .ok t' → t'.name = t.name → t' = t := by
  intro i _ t' ht' hn
  exact nodup_map_inj (·.name) sg.tensors hnd t' (index_mem _ _ _ ht') t ht hn

/-! ## the arithmetic of `emaArr` on float32 statistics -/

/-- the weight of the old value: the Python float `0.95` cast to float32 -/
def c1 : Rat := Prec.f32.rn (Prec.f64.rn (19/20))
/-- the weight of the new value: the Python float `1 - 0.95` cast to float32 -/
def c2 : Rat := Prec.f32.rn (Prec.f64.rn (1 - Prec.f64.rn (19/20)))

theorem emaArr_f32_unfold (w u : FArr) (hw : w.pr = .f32) (hu : u.pr = .f32) :
    emaArr w u = (do
      let a ← w.arr.mapM fun x => Prec.f32.chk (c1 * x)
      let b ← u.arr.mapM fun x => Prec.f32.chk (c2 * x)
      let s ← zipB (fun x y => Prec.f32.chk (x + y)) a b
      pure ⟨s, .f32⟩) := by
  unfold emaArr
  simp only [hw, hu]
  rfl

theorem chk_ok (pr : Prec) (x y : Rat) (h : pr.chk x = .ok y) : y = pr.rn x := by
  unfold Prec.chk at h
  split at h
  · exact (Except.ok.inj h).symm
  · cases h

theorem mapM_chk {α} (pr : Prec) (g : α → Rat) : ∀ (l : List α) (r : List Rat),
    l.mapM (fun x => pr.chk (g x)) = .ok r → r = l.map (fun x => pr.rn (g x)) := by
  intro l
  induction l with
  | nil =>
    intro r h
    have h0 : ([] : List α).mapM (fun x => pr.chk (g x)) = .ok [] := rfl
    rw [h0] at h
    exact (Except.ok.inj h).symm
  | cons a l ih =>
    intro r h
    rw [List.mapM_cons] at h
    simp only [bind, Except.bind] at h
    cases h1 : pr.chk (g a) with
    | error e => simp [h1] at h
    | ok y =>
      simp only [h1] at h
      cases h2 : l.mapM (fun x => pr.chk (g x)) with
      | error e => simp [h2] at h
      | ok ys =>
        simp only [h2, pure, Except.pure, Except.ok.injEq] at h
        subst h
        rw [List.map_cons, ← ih ys h2, chk_ok pr _ y h1]

theorem rn32_mul_zero (c : Rat) : Prec.f32.rn (c * 0) = 0 := by
  simp [Prec.rn, Num.rn]

/-- **"weight 0.95 on the old value"**: on float32 statistics every element of the result is
    `rn32 (rn32 (c1·w) + rn32 (c2·u))` with `c1 = rn32 (rn64 (19/20))`, `c2 = rn32 (rn64 (1 − rn64 (19/20)))`
    (`w` old, `u` new; numpy broadcasting of the two shapes) -/
theorem emaArr_f32_elem (w u r : FArr) (hw : w.pr = .f32) (hu : u.pr = .f32)
    (h : emaArr w u = .ok r) :
    r.pr = .f32 ∧ ∃ rs, bshapeAny w.arr.shape u.arr.shape = some rs ∧ r.arr.shape = rs ∧
      r.arr.data = (List.range (numel rs)).map fun i =>
        Prec.f32.rn (Prec.f32.rn (c1 * w.arr.data.getD (bindex rs w.arr.shape i) 0) +
                     Prec.f32.rn (c2 * u.arr.data.getD (bindex rs u.arr.shape i) 0)) := by
  rw [emaArr_f32_unfold w u hw hu] at h
  simp only [Arr.mapM, bind, Except.bind] at h
  cases ha : w.arr.data.mapM (fun x => Prec.f32.chk (c1 * x)) with
  | error e => simp [ha] at h
  | ok a =>
    simp only [ha, pure, Except.pure] at h
    cases hb : u.arr.data.mapM (fun x => Prec.f32.chk (c2 * x)) with
    | error e => simp [hb] at h
    | ok b =>
      simp only [hb] at h
      have ea := mapM_chk .f32 (fun x => c1 * x) _ a ha
      have eb := mapM_chk .f32 (fun x => c2 * x) _ b hb
      unfold zipB at h
      simp only at h
      cases hs : bshapeAny w.arr.shape u.arr.shape with
      | none => simp [hs] at h
      | some rs =>
        simp only [hs, bind, Except.bind] at h
        generalize hd : List.mapM (m := PyM) _ (List.range (numel rs)) = dr at h
        cases dr with
        | error e => simp at h
        | ok d =>
          simp only [pure, Except.pure, Except.ok.injEq] at h
          subst h
          refine ⟨rfl, rs, rfl, rfl, ?_⟩
          have ed := mapM_chk .f32 _ _ d hd
          show d = _
          rw [ed]
          refine List.map_congr_left (fun i _ => ?_)
          have e1 : ∀ j, a[j]?.getD default = Prec.f32.rn (c1 * w.arr.data.getD j 0) := by
            intro j
            rw [ea, show (default : Rat) = Prec.f32.rn (c1 * 0) from (rn32_mul_zero c1).symm,
              List.getElem?_map, Option.getD_map, List.getD_eq_getElem?_getD]
          have e2 : ∀ j, b[j]?.getD default = Prec.f32.rn (c2 * u.arr.data.getD j 0) := by
            intro j
            rw [eb, show (default : Rat) = Prec.f32.rn (c2 * 0) from (rn32_mul_zero c2).symm,
              List.getElem?_map, Option.getD_map, List.getD_eq_getElem?_getD]
          rw [List.getD_eq_getElem?_getD, List.getD_eq_getElem?_getD, e1, e2]

/-! ## decidable forms, for closed instances -/

deriving instance DecidableEq for Nd.Arr
deriving instance DecidableEq for Arith.FArr
deriving instance DecidableEq for Except

/-- Boolean form of `ConstNamed` -/
def constNamedB (env : Env) (n : String) : Bool :=
  env.model.subgraphs.any fun sg => sg.tensors.any fun t =>
    t.name == n && (match constAny env t with | some d => !d.data.isEmpty | none => false)

theorem constNamed_iff (env : Env) (n : String) : ConstNamed env n ↔ constNamedB env n = true := by
  unfold ConstNamed constNamedB
  simp only [List.any_eq_true, Bool.and_eq_true, beq_iff_eq]
  constructor
  · rintro ⟨sg, hsg, t, ht, hn, d, hd, he⟩
    exact ⟨sg, hsg, t, ht, hn, by rw [hd]; simp [he]⟩
  · rintro ⟨sg, hsg, t, ht, hn, hc⟩
    refine ⟨sg, hsg, t, ht, hn, ?_⟩
    cases hd : constAny env t with
    | none => simp [hd] at hc
    | some d => exact ⟨d, rfl, by simpa [hd] using hc⟩

end CalibExact
