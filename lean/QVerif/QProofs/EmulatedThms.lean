import QProofs.EmulatedNames
/-!
# The user-facing statements about `Emulated.apply`, derived from `EmuWF.apply_spec` and `EmuNames.tensors_spec`
-/
open Graph Perform Emulated GraphStep EmuSpec EmuSplice EmuInv EmuWF EmuNames

namespace EmuThms

theorem take_mid {α} (pre post : List α) (a : α) : (pre ++ a :: post).take pre.length = pre := by
  induction pre with
  | nil => simp
  | cons b l ih => simp [ih]

theorem drop_mid {α} (pre post : List α) (a : α) : (pre ++ a :: post).drop (pre.length + 1) = post := by
  induction pre with
  | nil => simp
  | cons b l ih => simp [ih]

section
variable (pt : PTable) (env : EmuEnv) (m m' : Model) (sgi : Nat) (sg : Subgraph) (inp : TIn) (info : TInfoOut)
  (hsg : m.subgraphs[sgi]? = some sg) (hwf : WF.modelOK m = true) (hinp : EmuOK m sg inp)
  (h : Emulated.apply pt env m sgi inp = .ok (m', info))
include hsg hwf hinp h

/-- (a) -/
theorem emulated_wf : WF.modelOK m' = true := by
  obtain ⟨pl, pre, post, N, fc, y, wT, v, bext, cext, _, _, _, _, _, _, _, _, _, _, _, _, _, _, _, hm'⟩ :=
    apply_spec pt env m m' sgi sg inp info hsg hwf hinp h
  exact hm'

/-- (b) -/
theorem emulated_frame :
    ∃ (k : Nat) (N : List Op) (sg' : Subgraph) (wT : Tensor) (c : BufContent) (bext : List BufContent)
      (cext : List Nat),
      inp.consumers = [(k : Int)] ∧ k < sg.ops.length ∧
      m'.subgraphs = m.subgraphs.set sgi sg' ∧ (∀ j, j ≠ sgi → m'.subgraphs[j]? = m.subgraphs[j]?) ∧
      m'.opcodes = m.opcodes ++ cext ∧
      sg.tensors[inp.tensor.toNat]? = some wT ∧ m'.buffers = m.buffers.set wT.buffer c ++ bext ∧
      m'.sigs = m.sigs ∧ sg'.inputs = sg.inputs ∧ sg'.outputs = sg.outputs ∧
      sg'.ops = sg.ops.take k ++ N ++ sg.ops.drop (k + 1) ∧ (∀ o ∈ N, o.orig = none) := by
  obtain ⟨pl, pre, post, N, fc, y, wT, v, bext, cext, _, hsplit, hcons, _, _, hw, hm', _, _, _, _, horig, _, _, _, _⟩ :=
    apply_spec pt env m m' sgi sg inp info hsg hwf hinp h
  subst hm'
  refine ⟨pre.length, N, ⟨(reluStep pl (biasStep pl (core env inp pl).1)).sg.tensors, pre ++ N ++ post, sg.inputs, sg.outputs⟩, wT, some v, bext, cext, hcons, by rw [hsplit]; simp, rfl, ?_, rfl, hw,
    rfl, rfl, rfl, rfl, ?_, horig⟩
  · intro j hj
    exact List.getElem?_set_ne (Ne.symm hj)
  · show pre ++ N ++ post = _
    rw [hsplit, take_mid, drop_mid]

/-- (c) -/
theorem emulated_bookkeeping :
    ∃ (k : Nat) (sg' : Subgraph), inp.consumers = [(k : Int)] ∧ m'.subgraphs[sgi]? = some sg' ∧
      info.opId = (k : Int) ∧
      sg'.ops.length = sg.ops.length + info.added ∧
      (∀ j, j < k → sg'.ops[j]? = sg.ops[j]?) ∧
      (∀ j, k ≤ j → j ≤ k + info.added → ∃ o, sg'.ops[j]? = some o ∧ o.orig = none) ∧
      (∀ j, k < j → sg'.ops[j + info.added]? = sg.ops[j]?) := by
  obtain ⟨pl, pre, post, N, fc, y, wT, v, bext, cext, _, hsplit, hcons, _, _, _, hm', hop, hadd, _, _, horig, _, _, _, _⟩ :=
    apply_spec pt env m m' sgi sg inp info hsg hwf hinp h
  have hlt : sgi < m.subgraphs.length := (List.getElem?_eq_some_iff.1 hsg).1
  subst hm'
  refine ⟨pre.length, ⟨(reluStep pl (biasStep pl (core env inp pl).1)).sg.tensors, pre ++ N ++ post, sg.inputs, sg.outputs⟩, hcons, by simp [hlt], hop, ?_, ?_, ?_, ?_⟩
  · show (pre ++ N ++ post).length = _
    rw [hsplit]; simp; omega
  · intro j hj
    show (pre ++ N ++ post)[j]? = _
    rw [hsplit, List.append_assoc, List.getElem?_append_left hj, List.getElem?_append_left hj]
  · intro j h1 h2
    have hjN : j - pre.length < N.length := by omega
    refine ⟨N[j - pre.length], ?_, horig _ (List.getElem_mem hjN)⟩
    show (pre ++ N ++ post)[j]? = _
    rw [List.append_assoc, List.getElem?_append_right h1, List.getElem?_append_left hjN,
      List.getElem?_eq_getElem hjN]
  · intro j hj
    show (pre ++ N ++ post)[j + info.added]? = _
    rw [hsplit, List.getElem?_append_right (by simp; omega), List.getElem?_append_right (by omega)]
    obtain ⟨d, hd⟩ : ∃ d, j - pre.length = d + 1 := ⟨j - pre.length - 1, by omega⟩
    rw [hd, List.getElem?_cons_succ]
    congr 1
    simp
    omega

/-- (d), the producer of the result -/
theorem emulated_result_tensor :
    ∃ (k : Nat) (fc : Op) (y : Int) (sg' : Subgraph) (last : Op),
      inp.consumers = [(k : Int)] ∧ sg.ops[k]? = some fc ∧ fc.outputs = [y] ∧
      m'.subgraphs[sgi]? = some sg' ∧ info.outTensor = y ∧
      sg'.ops[k + info.added]? = some last ∧ last.outputs = [y] ∧ last.orig = none := by
  obtain ⟨pl, pre, post, N, fc, y, wT, v, bext, cext, _, hsplit, hcons, hy, _, _, hm', _, hadd, hout, hlast, horig, _, _, _, _⟩ :=
    apply_spec pt env m m' sgi sg inp info hsg hwf hinp h
  have hlt : sgi < m.subgraphs.length := (List.getElem?_eq_some_iff.1 hsg).1
  have hN : N.length - 1 < N.length := by omega
  subst hm'
  refine ⟨pre.length, fc, y, ⟨(reluStep pl (biasStep pl (core env inp pl).1)).sg.tensors, pre ++ N ++ post, sg.inputs, sg.outputs⟩, N[N.length - 1], hcons, by rw [hsplit]; simp, hy, by simp [hlt], hout, ?_,
    hlast _ (List.getElem?_eq_getElem hN), horig _ (List.getElem_mem hN)⟩
  show (pre ++ N ++ post)[pre.length + info.added]? = _
  rw [List.append_assoc, List.getElem?_append_right (by omega), List.getElem?_append_left (by omega),
    show pre.length + info.added - pre.length = N.length - 1 by omega, List.getElem?_eq_getElem hN]

/-- (d), the names of the new tensors; the old tensors -/
theorem emulated_tensors :
    ∃ (sg' : Subgraph), m'.subgraphs[sgi]? = some sg' ∧ sg.tensors.length + 8 ≤ sg'.tensors.length ∧
      (∀ i t, sg.tensors.length ≤ i → sg'.tensors[i]? = some t → t.name ∉ sg.tensors.map (·.name)) ∧
      (∀ i, i < sg.tensors.length → i ≠ inp.tensor.toNat → i ≠ info.outTensor.toNat →
        sg'.tensors[i]? = sg.tensors[i]?) ∧
      (∀ t t', sg.tensors[info.outTensor.toNat]? = some t → sg'.tensors[info.outTensor.toNat]? = some t' →
        t'.name = t.name ∨ t'.name ∉ sg.tensors.map (·.name)) := by
  obtain ⟨pl, pre, post, N, fc, y, wT, v, bext, cext, hpl, hsplit, hcons, hy, hyne, hw, hm', _, _, hout, _, _, hlen8, _, hp, _⟩ :=
    apply_spec pt env m m' sgi sg inp info hsg hwf hinp h
  have hlt : sgi < m.subgraphs.length := (List.getElem?_eq_some_iff.1 hsg).1
  obtain ⟨_, hsgs, _⟩ := (modelOK_iff m).1 hwf
  have hok : SgOK m sg := hsgs sg (List.mem_of_getElem? hsg)
  have hfcOK : OpOK m sg pre.length fc := hok.ops _ _ (by rw [hsplit]; simp)
  have hyv : ValidT sg y := by
    rcases hfcOK.outs y (by rw [hy]; simp) with h1 | h1
    · exact absurd h1 hyne
    · exact h1.1
  have hy0 : 0 ≤ y := hyv.1
  have hyn : y < (sg.tensors.length : Int) := hyv.2
  have hv := (validT_iff _ _).1 hinp.tvalid
  have hw0 : 0 ≤ inp.tensor := hv.1
  have hwn : inp.tensor < (sg.tensors.length : Int) := hv.2
  obtain ⟨wT', ty, Told, ext, hw', hT, hTold, hext, hcase⟩ :=
    tensors_spec pt env m sg inp pl hinp hpl (by rw [hp.outId]; exact hy0) (by rw [hp.outId]; exact hyn)
  rw [hp.outId] at hcase
  subst hm'
  refine ⟨⟨(reluStep pl (biasStep pl (core env inp pl).1)).sg.tensors, pre ++ N ++ post, sg.inputs, sg.outputs⟩, by simp [hlt], hlen8, ?_, ?_, ?_⟩
  · intro i t hi ht
    change (reluStep pl (biasStep pl (core env inp pl).1)).sg.tensors[i]? = some t at ht
    rw [hT, List.getElem?_append_right (by omega)] at ht
    exact hext t (List.mem_of_getElem? ht)
  · intro i hi hiw hiy
    show (reluStep pl (biasStep pl (core env inp pl).1)).sg.tensors[i]? = _
    rw [hT, List.getElem?_append_left (by omega), hout] at *
    rcases hcase with rfl | ⟨nn, _, rfl⟩
    · rw [List.getElem?_set_ne (Ne.symm hiw)]
    · rw [List.getElem?_modify, List.getElem?_set_ne (Ne.symm hiw)]
      have : ¬ y.toNat = i := fun hh => hiy hh.symm
      simp [this]
  · intro t t' ht ht'
    change (reluStep pl (biasStep pl (core env inp pl).1)).sg.tensors[info.outTensor.toNat]? = some t' at ht'
    rw [hout] at ht ht'
    have hyT : y.toNat < Told.length := by omega
    rw [hT, List.getElem?_append_left hyT] at ht'
    -- the result tensor is not the weight: one is a constant, the other an operator result
    have hne : inp.tensor.toNat ≠ y.toNat := by
      intro heq
      have hc := hinp.wconst
      have : inp.tensor = y := by omega
      rw [this] at hc
      rcases hfcOK.outs y (by rw [hy]; simp) with h1 | h1
      · exact hyne h1
      · rw [h1.2.2.1] at hc; cases hc
    rcases hcase with rfl | ⟨nn, hnn, rfl⟩
    · rw [List.getElem?_set_ne hne, ht] at ht'
      cases ht'
      exact .inl rfl
    · rw [List.getElem?_modify, List.getElem?_set_ne hne, ht] at ht'
      simp at ht'
      rw [← ht']
      exact .inr hnn

end

end EmuThms
