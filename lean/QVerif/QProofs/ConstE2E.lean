import QProofs.ConstProv
import QProofs.ConstValue
/-!
# End to end: what the bytes of a rewritten constant buffer of `quantizePure`'s output are

`stored_core`: for `quantizePure … = .ok (m', tbl)` under `PipelineWF.NF`, every tensor `tn'` of `m'`
that references an original constant buffer `b` whose content is now `.inr p`:

* is the tensor at the same position of the input model (same name, shape, buffer), a constant with
  float data `d = constData env tn`;
* there is a parameter object `P` -- the one the materialisation attached to the request for `tn`,
  `Param.eqv`-equal (Python `==`) to the table entry `tbl[p]` and with the SAME stored bytes -- that
  was computed from `d` (`ConstProv.Src env tn d P`);
* `tn'` is typed by `p` (C15c).

Ingredients: C15c (`SharingE2E.buffer_agrees`: one parameter per rewritten buffer, every referent
retyped with it), `SharingGen.retyped_req` (a retyping instruction comes from a rewriting consumer
request), `ConstProv.generate_prov` (the data of every request has a source), C02
(`quantizePure_skeleton`: names and shapes of the original tensors are kept).
-/
open Graph Mat Cfg Pipeline InstGen GenInstsOK GraphStep GraphInv PipeNF Pipe SharingGen Arith Nd MatParams Num
open ConstBytes ConstProv

set_option autoImplicit false

namespace ConstE2E

/-! ## the entries of the parameter table come from the requests -/

/-- `x` is the parameter object of a producer or consumer entry of `r` -/
def ParamOf (r : CReq) (x : Param) : Prop :=
  (∃ o, r.producer = some o ∧ o.param = some x) ∨ (∃ cs c, r.consumers = some cs ∧ c ∈ cs ∧ c.param = some x)

theorem pidOf_mem (tbl : List Param) (p x : Param) (hx : x ∈ (pidOf tbl p).1) : x ∈ tbl ∨ x = p := by
  unfold pidOf at hx
  split at hx
  · exact .inl hx
  · rcases List.mem_append.1 hx with h | h
    · exact .inl h
    · exact .inr (List.mem_singleton.1 h)

theorem absO2T_mem (tbl : List Param) (o : CO2T) (x : Param) (hx : x ∈ (absO2T tbl o).1) :
    x ∈ tbl ∨ o.param = some x := by
  unfold absO2T at hx
  split at hx
  · exact .inl hx
  · rename_i p hp
    rcases pidOf_mem tbl p x hx with h | h
    · exact .inl h
    · exact .inr (by rw [hp, h])

theorem consFold_mem (cs : List CO2T) : ∀ (t : List Param) (acc : List O2T) (x : Param),
    x ∈ (cs.foldl (fun (st : List Param × List O2T) c => ((absO2T st.1 c).1, st.2 ++ [(absO2T st.1 c).2])) (t, acc)).1 →
    x ∈ t ∨ ∃ c ∈ cs, c.param = some x := by
  induction cs with
  | nil => intro t acc x hx; exact .inl hx
  | cons c cs ih =>
    intro t acc x hx
    rw [List.foldl_cons] at hx
    rcases ih _ _ x hx with h | ⟨c', hc', h⟩
    · rcases absO2T_mem t c x h with h | h
      · exact .inl h
      · exact .inr ⟨c, List.mem_cons_self, h⟩
    · exact .inr ⟨c', List.mem_cons_of_mem _ hc', h⟩

theorem absReq_mem (tbl : List Param) (r : CReq) (x : Param) (hx : x ∈ (absReq tbl r).1) :
    x ∈ tbl ∨ ParamOf r x := by
  rw [absReq_eq] at hx
  simp only at hx
  have hcons : x ∈ (prodStage tbl r.producer).1 ∨ ∃ cs c, r.consumers = some cs ∧ c ∈ cs ∧ c.param = some x := by
    cases hc : r.consumers with
    | none => rw [hc] at hx; exact .inl hx
    | some cs =>
      rw [hc] at hx
      rcases consFold_mem cs _ _ x hx with h | ⟨c, hc', h⟩
      · exact .inl h
      · exact .inr ⟨cs, c, rfl, hc', h⟩
  rcases hcons with h | h
  · cases hp : r.producer with
    | none => rw [hp] at h; exact .inl h
    | some o =>
      rw [hp] at h
      rcases absO2T_mem tbl o x h with h | h
      · exact .inl h
      · exact .inr (.inl ⟨o, hp, h⟩)
  · exact .inr (.inr h)

theorem absReqsFold_mem (rs : List CReq) : ∀ (t : List Param) (acc : List TReq) (x : Param),
    x ∈ (rs.foldl (fun (st : List Param × List TReq) r => ((absReq st.1 r).1, st.2 ++ [(absReq st.1 r).2])) (t, acc)).1 →
    x ∈ t ∨ ∃ r ∈ rs, ParamOf r x := by
  induction rs with
  | nil => intro t acc x hx; exact .inl hx
  | cons r rs ih =>
    intro t acc x hx
    rw [List.foldl_cons] at hx
    rcases ih _ _ x hx with h | ⟨r', hr', h⟩
    · rcases absReq_mem t r x h with h | h
      · exact .inl h
      · exact .inr ⟨r, List.mem_cons_self, h⟩
    · exact .inr ⟨r', List.mem_cons_of_mem _ hr', h⟩

/-- **every entry of the parameter table is the parameter object of some request** -/
theorem absReqs_mem (rs : List CReq) (x : Param) (hx : x ∈ (absReqs rs).1) : ∃ r ∈ rs, ParamOf r x := by
  have : absReqs rs = rs.foldl (fun (st : List Param × List TReq) r =>
      ((absReq st.1 r).1, st.2 ++ [(absReq st.1 r).2])) ([], []) := rfl
  rw [this] at hx
  rcases absReqsFold_mem rs [] [] x hx with h | h
  · cases h
  · exact h

/-! ## `Param.eqv`-equal parameter objects store the same bytes -/

/-- the quantized data has the dtype `assign_quantized_type` gives for the bit width -/
def WData (P : Param) : Prop := ∀ qp q, P = .uniform qp (some q) → q.w = storageBits qp.bits

theorem arrEq_eq {α} [BEq α] [LawfulBEq α] (a b : Arr α) (h : arrEq a b = true) : a = b := by
  unfold arrEq at h
  simp only [Bool.and_eq_true, beq_iff_eq] at h
  cases a; cases b; simp_all

/-- what `==` on uniform parameter objects with data means, field by field (`pr`/`w`, the dtypes of the
    arrays, are not compared) -/
theorem eqv_uniform (qp qp' : QParams) (q q' : IArr)
    (h : (Param.uniform qp (some q)).eqv (.uniform qp' (some q')) = true) :
    qp.bits = qp'.bits ∧ qp.qdim = qp'.qdim ∧ qp.scale.arr = qp'.scale.arr ∧ qp.zp.arr = qp'.zp.arr ∧
      qp.symmetric = qp'.symmetric ∧ q.arr = q'.arr := by
  simp only [Param.eqv, optEq, Bool.and_eq_true, beq_iff_eq] at h
  obtain ⟨⟨⟨⟨⟨h1, h2⟩, h3⟩, h4⟩, h5⟩, h6⟩ := h
  exact ⟨h1, h2, arrEq_eq _ _ h3, arrEq_eq _ _ h4, h5, arrEq_eq _ _ h6⟩

theorem eqv_bytes (P0 P : Param) (h : P0.eqv P = true) (hw0 : WData P0) (hw : WData P) :
    paramBytes P0 = paramBytes P := by
  cases P0 with
  | uniform qp0 d0 =>
    cases P with
    | nonlinear b d => simp [Param.eqv] at h
    | uniform qp d =>
      cases d0 with
      | none =>
        cases d with
        | none => rfl
        | some v => simp [Param.eqv, optEq] at h
      | some q0 =>
        cases d with
        | none => simp [Param.eqv, optEq] at h
        | some q =>
          obtain ⟨h1, _, _, _, _, h6⟩ := eqv_uniform _ _ _ _ h
          simp only [paramBytes]
          rw [hw0 qp0 q0 rfl, hw qp q rfl, h1, h6]
  | nonlinear b0 d0 =>
    cases P with
    | uniform qp d => simp [Param.eqv] at h
    | nonlinear b d =>
      simp only [Param.eqv, Bool.and_eq_true, beq_iff_eq] at h
      obtain ⟨hb, hd⟩ := h
      subst hb
      cases d0 with
      | none =>
        cases d with
        | none => rfl
        | some v => simp [optEq] at hd
      | some v0 =>
        cases d with
        | none => simp [optEq] at hd
        | some v =>
          simp only [optEq] at hd
          rw [arrEq_eq _ _ hd]

theorem eqv_pinfo (P0 P : Param) (h : P0.eqv P = true) : pinfoOf P0 = pinfoOf P := by
  cases P0 with
  | uniform qp0 d0 =>
    cases P with
    | nonlinear b d => simp [Param.eqv] at h
    | uniform qp d =>
      simp only [Param.eqv, Bool.and_eq_true, beq_iff_eq] at h
      simp only [pinfoOf, PInfo.mk.injEq, true_and]
      exact ⟨h.1.1.1.1.1, optEq_isSome _ _ _ h.2⟩
  | nonlinear b0 d0 =>
    cases P with
    | uniform qp d => simp [Param.eqv] at h
    | nonlinear b d =>
      simp only [Param.eqv, Bool.and_eq_true, beq_iff_eq] at h
      simp only [pinfoOf, PInfo.mk.injEq, true_and]
      exact ⟨h.1, optEq_isSome _ _ _ h.2⟩

/-- every source produces data of the dtype of its bit width -/
theorem src_wdata {env : Env} {t : Tensor} {d : Arr Rat} {P : Param} (h : Src env t d P) : WData P := by
  intro qp q hP
  cases h with
  | own oi tc mn mx qdim qp' q' _ _ _ _ _ hu =>
    cases hP
    exact (ConstQuant.uniformQuantize_spec _ _ _ hu).choose_spec.choose_spec.2.2.2.2.1
  | lent qp' q' hu =>
    cases hP
    exact (ConstQuant.uniformQuantize_spec _ _ _ hu).choose_spec.choose_spec.2.2.2.2.1
  | bias qi qw qp' q' hb =>
    cases hP
    exact (ConstQuant.uniformQuantize_spec _ _ _ (ConstValue.bias_spec _ _ _ _ _ hb).1).choose_spec.choose_spec.2.2.2.2.1
  | f16 hh _ => cases hP

/-! ## names and shapes of the original tensors are kept (C02) -/

theorem frame_of_skeleton (m m' : Model) (h : Skeleton.sameModelSkeleton m m' = true)
    (s : Nat) (sg sg' : Subgraph) (i : Nat) (tn tn' : Tensor)
    (h1 : m.subgraphs[s]? = some sg) (h1' : m'.subgraphs[s]? = some sg')
    (h2 : sg.tensors[i]? = some tn) (h2' : sg'.tensors[i]? = some tn') :
    tn'.name = tn.name ∧ tn'.shape = tn.shape := by
  unfold Skeleton.sameModelSkeleton at h
  simp only [Bool.and_eq_true, List.all_eq_true] at h
  obtain ⟨⟨⟨_, hall⟩, _⟩, _⟩ := h
  have hz : (sg, sg') ∈ m.subgraphs.zip m'.subgraphs := by
    apply List.mem_of_getElem? (i := s)
    rw [List.getElem?_zip_eq_some]
    exact ⟨h1, h1'⟩
  have hsk := hall _ hz
  unfold Skeleton.sameSkeleton at hsk
  simp only [Bool.and_eq_true, beq_iff_eq, decide_eq_true_eq] at hsk
  obtain ⟨⟨_, hframe⟩, _⟩ := hsk
  unfold Skeleton.tensorFrame at hframe
  have hi : i < sg.tensors.length := (List.getElem?_eq_some_iff.1 h2).1
  have e1 : ((sg'.tensors.take sg.tensors.length).map fun t => (t.name, t.shape))[i]? = some (tn'.name, tn'.shape) := by
    rw [List.getElem?_map, List.getElem?_take_of_lt hi, h2']; rfl
  have e2 : ((sg.tensors.take sg.tensors.length).map fun t => (t.name, t.shape))[i]? = some (tn.name, tn.shape) := by
    rw [List.getElem?_map, List.getElem?_take_of_lt hi, h2]; rfl
  rw [hframe, e2] at e1
  simp only [Option.some.injEq, Prod.mk.injEq] at e1
  exact ⟨e1.1.symm, e1.2.symm⟩

/-! ## the result dictionary of a successful `generate`, with provenance -/

theorem generate_res_prov (rx : String → String → Bool) (env : Env) (st : Recipe.State) (qsvs : Option Qsvs)
    (reqs : List CReq) (hg : GenHyp env st) (h : Mat.generate rx env st qsvs = .ok reqs) :
    ∃ res, reqs = res.map (·.2) ∧ checkBufferSharing env.model res = .ok () ∧
      checkUnreadOwn env.model res = .ok () ∧ Ctx env.model res ∧ SharingData.ResCD res ∧ ResProv env res := by
  obtain ⟨qs, res, hfold, hchk, hown, hreqs⟩ := SharingData.generate_ok_check rx env st qsvs reqs h
  obtain ⟨hnu, hE⟩ := generate_entryOK rx env st qsvs reqs hg h
  have hinv : SharingData.ResCD res ∧ SharingData.KeysND res :=
    GraphFrame.foldlM_inv (sgStep rx env st) (fun x : GState => SharingData.ResCD x.2 ∧ SharingData.KeysND x.2) _
      (qsvs.getD [], []) (qs, res) ⟨(by intro e he; cases he), List.nodup_nil⟩
      (fun p _ x x' hx hstep => SharingData.sgStep_inv rx env st x x' p hx hstep) hfold
  refine ⟨res, hreqs, hchk, hown, ⟨hg.wf, hnu, hg.inputsNotConst, ?_, hinv.2⟩, hinv.1,
    generate_prov rx env st qsvs hg res qs hfold⟩
  have hfoldE := foldlM_inv_idx (sgStep rx env st) _
    (fun (j : Nat) (x : GState) => ∀ e ∈ x.2, EntryOK env.model (WkAt env.model j (fun _ => False)) e.1 e.2)
    (qsvs.getD [], []) (qs, res) (by intro e he; cases he) ?_ hfold
  · intro e he
    exact (hfoldE e he).mono (fun _ _ => trivial)
  · intro j p s s' hp hP hstep
    rw [List.getElem?_zipIdx] at hp
    cases hsg : env.model.subgraphs[j]? with
    | none => rw [hsg] at hp; cases hp
    | some sg =>
      rw [hsg] at hp
      simp only [Option.map_some, Nat.zero_add, Option.some.injEq] at hp
      subst hp
      exact Pipe.sgStep_inv rx env st hg hnu j sg hsg s s' hP hstep

/-! ## the core end-to-end statement -/

/-- **what is stored in a rewritten constant buffer** -/
theorem stored_core (rx : String → String → Bool) (env : Env) (st : Recipe.State) (qsvs : Option Qsvs)
    (m' : Model) (tbl : List Param) (hnf : PipelineWF.NF env st)
    (h : quantizePure rx env st qsvs = .ok (m', tbl))
    (b k : Nat) (hb : env.model.buffers[b]? = some (some (.inl k)))
    (p : PId) (hp : m'.buffers[b]? = some (some (.inr p)))
    (s : Nat) (sg' : Subgraph) (i : Nat) (tn' : Tensor)
    (h1 : m'.subgraphs[s]? = some sg') (h2 : sg'.tensors[i]? = some tn') (h3 : tn'.buffer = b) :
    ∃ (sg : Subgraph) (tn : Tensor) (d : Arr Rat) (P P0 : Param),
      env.model.subgraphs[s]? = some sg ∧ sg.tensors[i]? = some tn ∧ tn.buffer = b ∧
      tn'.name = tn.name ∧ tn'.shape = tn.shape ∧
      constData env tn = some d ∧ Src env tn d P ∧
      tbl[p]? = some P0 ∧ P0.eqv P = true ∧ paramBytes P0 = paramBytes P ∧
      SharingE2E.TypedBy (ptableOf tbl) p tn' := by
  -- the stages of the run
  obtain ⟨reqs, hgen, htbl, hmod⟩ := PipelineWF.quantizePure_ok rx env st qsvs m' tbl h
  obtain ⟨res, hreqs, hchk, hown, C, hcd, hprov⟩ := generate_res_prov rx env st qsvs reqs hnf.genHyp hgen
  subst hreqs
  unfold Perform.modify at hmod
  obtain ⟨tis, htis, htg⟩ := bind_ok _ _ _ hmod
  subst htbl
  have hok := SharingData.tinstsOK_of_ctx C tis htis
  have hcdI := SharingData.constData_of_cd C hcd tis htis
  have hsa := sharersAgree_of_check C hchk hown tis htis
  -- C15c: the buffer is rewritten with ONE parameter, every referent is retyped with it
  rcases SharingE2E.buffer_agrees _ env.model m' tis hnf.wf hnf.tagged hok hcdI hsa htg b k hb with
    ⟨u1, -, -⟩ | ⟨p', pi, -, -, r3, -, r5⟩
  · rw [u1] at hp; cases hp
  rw [r3] at hp
  simp only [Option.some.injEq, Sum.inr.injEq] at hp
  subst hp
  obtain ⟨⟨sg, tn, hsg, htn, hbuf⟩, hret, htyped⟩ := r5 s sg' i tn' h1 h2 h3
  -- the rewriting request behind the retyping instruction
  have hconst : isConst env.model sg (i : Int) = true := isConst_of env.model sg i tn (.inl k) htn (by rw [hbuf]; exact hb)
  obtain ⟨e, he, hname, cs, c, x, P, g1, g2, g3, g4, g5, g6⟩ := retyped_req C tis htis s i p' sg tn hsg htn hconst hret
  have hdP : hasData P = true := hcd e he cs c g1 g2 x P g3 g4 g5
  -- its data has a source, at a tensor with the same name: the tensor itself
  obtain ⟨sg2, hsg2, t2, ht2, hn2, d, hd, hsrc⟩ := (hprov e he).2 cs c g1 g2 P g5 hdP
  have ht2tn : t2 = tn := by
    obtain ⟨s2, hs2⟩ := List.getElem?_of_mem hsg2
    obtain ⟨i2, hi2⟩ := List.getElem?_of_mem ht2
    have l1 : Loc env.model e.1 s2 sg2 i2 := ⟨hs2, t2, hi2, hn2⟩
    have l2 : Loc env.model e.1 s sg i := ⟨hsg, tn, htn, hname.symm⟩
    obtain ⟨rfl, rfl, rfl⟩ := loc_unique env.model C.nu e.1 _ _ _ _ _ _ l1 l2
    rw [hi2] at htn; cases htn; rfl
  subst ht2tn
  -- the table entry
  obtain ⟨hplt, heqv, -⟩ := List.findIdx?_eq_some_iff_getElem.1 g6
  have hmemT : (tblOf res)[p'] ∈ (absReqs (res.map (·.2))).1 := List.getElem_mem hplt
  obtain ⟨r0, hr0, hpar0⟩ := absReqs_mem _ _ hmemT
  obtain ⟨e0, he0, rfl⟩ := List.mem_map.1 hr0
  have hd0 : hasData (tblOf res)[p'] = true := by rw [eqv_hasData _ _ heqv]; exact hdP
  have hw0 : WData (tblOf res)[p'] := by
    have hE0 := hprov e0 he0
    rcases hpar0 with ⟨o, ho, hpo⟩ | ⟨cs0, c0, hcs0, hc0, hpc0⟩
    · obtain ⟨_, _, _, _, _, _, _, hs0⟩ := hE0.1 o ho _ hpo hd0
      exact src_wdata hs0
    · obtain ⟨_, _, _, _, _, _, _, hs0⟩ := hE0.2 cs0 c0 hcs0 hc0 _ hpc0 hd0
      exact src_wdata hs0
  -- names and shapes (C02)
  have hsk := PipelineWF.quantizePure_skeleton rx env st qsvs m' _ hnf h
  obtain ⟨hn, hshape⟩ := frame_of_skeleton env.model m' hsk s sg sg' i t2 tn' hsg h1 htn h2
  exact ⟨sg, t2, d, P, (tblOf res)[p'], hsg, htn, hbuf, hn, hshape, hd, hsrc,
    List.getElem?_eq_getElem hplt, heqv, eqv_bytes _ _ heqv hw0 (src_wdata hsrc), htyped⟩

/-! ## buffers that hold no data in the input hold none in the output -/

/-- **graph stage: a buffer without data is never written** (an instruction whose parameter carries
    data is on a constant, `InstOK.dataConst`, and only such instructions write) -/
theorem nodata_frame (pt : PTable) (m m' : Model) (tis : List TInsts)
    (hwf : WF.modelOK m = true) (htag : Skeleton.origTagged m = true)
    (hok : ∀ ti ∈ tis, TInstsOK pt m ti) (h : Perform.transformGraph pt m tis = .ok m')
    (b : Nat) (hb : ∀ c, m.buffers[b]? ≠ some (some c)) : m'.buffers[b]? = m.buffers[b]? := by
  unfold Perform.transformGraph at h
  simp only at h
  obtain ⟨st, hfold, h⟩ := bind_ok _ _ _ h
  cases h
  refine (SharingE2E.run_rule pt m tis (fun st => st.model.buffers[b]? = m.buffers[b]?)
    (fun _ _ _ => True) hwf hok ?_ (fun _ _ _ _ _ _ _ _ => trivial) (fun _ _ _ _ _ _ _ _ _ _ _ => trivial)
    (Wiring.st0 m) st (Wiring.base_init m hwf htag) rfl hfold).2.1
  · intro ti hti ins hins st st' S hJ
    obtain ⟨sg0, hsg0, hall⟩ := (hok ti hti).insts
    obtain ⟨sg, sg', tn0, tn, p, pi, ty, d1, d2, d3, d4, d5, d6, d7, d8, d9, d10, d11, d12, d13⟩ :=
      S.digest sg0 hsg0
    show st'.model.buffers[b]? = m.buffers[b]?
    rw [d13]
    cases hr : Wiring.retypes ins.xf
    · simp only [Bool.false_eq_true, if_false]; exact hJ
    · simp only [if_true]
      rw [SharingE2E.newBufs_get]
      split
      · rename_i hcond
        exfalso
        have hc := (hall ins hins).dataConst p pi d7 d8 hcond.2.1
        rw [isConst_of_get m sg0 ins.tensor tn0 d3 d4] at hc
        unfold constAt at hc
        rw [← d6, hcond.2.2.1] at hc
        cases hbb : m.buffers[b]? with
        | none => rw [hbb] at hc; cases hc
        | some v =>
          cases v with
          | none => rw [hbb] at hc; cases hc
          | some c => exact hb c hbb
      · exact hJ

/-- **end to end**: if the input model's data buffers are all original constants (`.inl k`), every
    buffer of the output that holds packed data `.inr p` was an original constant of the input -/
theorem inr_was_const (rx : String → String → Bool) (env : Env) (st : Recipe.State) (qsvs : Option Qsvs)
    (m' : Model) (tbl : List Param) (hnf : PipelineWF.NF env st)
    (h : quantizePure rx env st qsvs = .ok (m', tbl))
    (hin : ∀ (b : Nat) (q : PId), env.model.buffers[b]? ≠ some (some (Sum.inr q)))
    (b : Nat) (p : PId) (hp : m'.buffers[b]? = some (some (.inr p))) :
    ∃ k, env.model.buffers[b]? = some (some (.inl k)) := by
  obtain ⟨res, tis, _, _, _, _, _, _, htg, hok, _⟩ := SharingData.quantizePure_stages rx env st qsvs m' tbl hnf h
  by_cases hd : ∃ c, env.model.buffers[b]? = some (some c)
  · obtain ⟨c, hc⟩ := hd
    cases c with
    | inl k => exact ⟨k, hc⟩
    | inr q => exact absurd hc (hin b q)
  · exfalso
    have := nodata_frame _ env.model m' tis hnf.wf hnf.tagged hok htg b (fun c hc => hd ⟨c, hc⟩)
    rw [hp] at this
    exact hd ⟨_, this.symm⟩

end ConstE2E
