import QProofs.KernelSigBits
import QProofs.KernelSigOps
import QProofs.ParamsGraph
/-!
# Kernel signatures (C01b): the widths at the inserted operators

`inserted_widths`: under a recipe state without `skip_checks` rules, no inserted operator of the output
reads or writes an int32 / int64 tensor, and no inserted QUANTIZE an int4 tensor
(`KernelSig.InsertedWidths`).  The parameter id of every performed instruction is the id of the parameter
object of a request side (`TypingReq`, `ParamsGraph`), whose width is known from `Bits.generate_bits`;
`inst_bits` states this for one instruction.
-/
open Graph Mat Cfg Pipeline InstGen GenInstsOK GenInstsInfo Pipe SharingGen SharingData Perform
open GraphStep GraphFrame GraphInv Skeleton SkeletonProof StepTypes Wiring SharingE2E

set_option autoImplicit false

namespace KernelSig

theorem constNamed_isConst {env : Env} (hnu : namesUnique env.model) (s : Nat) (sg : Subgraph) (i : Nat) (tn : Tensor)
    (hsg : env.model.subgraphs[s]? = some sg) (htn : sg.tensors[i]? = some tn) (sg2 : Subgraph)
    (hsg2 : sg2 ∈ env.model.subgraphs) (h : Bits.ConstNamed env sg2 tn.name) :
    isConst env.model sg (i : Int) = true := by
  obtain ⟨t2, ht2, hn, hc⟩ := h
  obtain ⟨s2, hs2⟩ := List.mem_iff_getElem?.1 hsg2
  obtain ⟨i2, hi2⟩ := List.mem_iff_getElem?.1 ht2
  obtain ⟨rfl, rfl, rfl⟩ := loc_unique env.model hnu tn.name s s2 sg sg2 i i2 ⟨hsg, tn, htn, rfl⟩ ⟨hs2, t2, hi2, hn⟩
  rw [htn] at hi2
  cases hi2
  rw [← constData_isSome env sg i tn htn]
  exact hc

theorem uniform_of_pinfoOf (P : Param) (h : (pinfoOf P).uniform = true) : ∃ qp d, P = .uniform qp d := by
  cases P with
  | uniform qp d => exact ⟨qp, d, rfl⟩
  | nonlinear b d => cases h

/-- **the width of the parameter of a performed instruction**: 8 or 16 bits, or its tensor is a constant and
    it has 4 bits or is a QUANTIZE_TENSOR instruction (a bias) -/
theorem inst_bits {rx : String → String → Bool} {env : Env} {st : Recipe.State} {qsvs : Option Qsvs}
    {m' : Model} {res : List (String × CReq)} {tis : List TInsts}
    (S : TypingE2E.Stages rx env st qsvs m' (tblOf res) res tis)
    (hbits : TypingShape.DSides (Bits.Side env) (Bits.Side env) res)
    (ti : TInsts) (hti : ti ∈ tis) (ins : Inst) (hins : ins ∈ ti.insts) (hx : isInsertion ins.xf = true)
    (p : PId) (pi : PInfo) (hp : ins.param = some p) (hpi : pinfo (ptableOf (tblOf res)) p = some pi)
    (hu : pi.uniform = true) (sg : Subgraph) (hsg : env.model.subgraphs[ti.sg]? = some sg) :
    ∃ (i : Nat) (tn : Tensor), ins.tensor = (i : Int) ∧ sg.tensors[i]? = some tn ∧
      (pi.bits = 8 ∨ pi.bits = 16 ∨
        (isConst env.model sg (i : Int) = true ∧ (pi.bits = 4 ∨ ins.xf = .quantTensor))) := by
  have C := S.ctx
  obtain ⟨e, he, a, ha, hA, hreq, s', sg', i, hloc, hget, rfl⟩ := entry_of_ti C tis S.gen ti hti
  simp only at hins hsg
  have hsg' : env.model.subgraphs[s']? = some sg' := hloc.1
  rw [hsg] at hsg'; cases hsg'
  obtain ⟨hcore, -⟩ := instsOf_ok _ env.model s' sg i a hsg hget hreq
  have hten := (hcore ins hins).tensor
  obtain ⟨-, tn, htn, hname⟩ := hloc
  have hloc : Pipe.Loc env.model e.1 s' sg i := ⟨hsg, tn, htn, hname⟩
  obtain ⟨hbP, hbC⟩ := hbits e he
  refine ⟨i, tn, hten, htn, ?_⟩
  -- from a side `c` of the entry whose parameter object has id `p`
  have fromSide : ∀ (c : CO2T) (P : Param), Bits.Side env e.1 c → c.param = some P →
      (tblOf res).findIdx? (fun q => q.eqv P) = some p →
      (c.xfs = [.quantTensor] → isConst env.model sg (i : Int) = true → ins.xf = .quantTensor) →
      pi.bits = 8 ∨ pi.bits = 16 ∨
        (isConst env.model sg (i : Int) = true ∧ (pi.bits = 4 ∨ ins.xf = .quantTensor)) := by
    intro c P hside hP hidx hq
    rw [TypingE2E.pinfo_of_findIdx _ _ _ hidx] at hpi
    cases hpi
    obtain ⟨qp, d, rfl⟩ := uniform_of_pinfoOf P hu
    obtain ⟨sg2, hsg2, hS⟩ := hside
    rcases hS qp d hP with h1 | h1 | ⟨hcn, h1⟩
    · exact .inl h1
    · exact .inr (.inl h1)
    · have hc : isConst env.model sg (i : Int) = true := by
        rw [← hname] at hcn
        exact constNamed_isConst C.nu s' sg i tn hsg htn sg2 hsg2 hcn
      refine .inr (.inr ⟨hc, ?_⟩)
      rcases h1 with h1 | h1
      · exact .inl h1
      · exact .inr (hq h1 hc)
  rcases ParamsGraph.insertion_cases _ hx with hr | hq
  · rcases ParamsGraph.retype_source (tensorInfo s' sg i) a hreq.consShape hreq.prodShape ins hins hr with
      ⟨po, hpo, hpx, hpp⟩ | ⟨os, o, x, hos, ho, hox, hxr, hop, hoc⟩
    · obtain ⟨c, hc, hAO⟩ := hA.prod hpo
      rw [hp] at hpp
      obtain ⟨P, hP, hidx⟩ := hAO.param_some hpp.symm
      refine fromSide c P (hbP c hc) hP hidx ?_
      intro hcq
      rw [← hAO.2.1, hpx] at hcq
      cases hcq
    · obtain ⟨cs, c, hcs, hc, hAO⟩ := hA.cons_mem hos ho
      rw [hp] at hop
      obtain ⟨P, hP, hidx⟩ := hAO.param_some hop.symm
      refine fromSide c P (hbC cs c hcs hc) hP hidx ?_
      intro hcq hconst
      have hprod : e.2.producer = none := const_noProd C e he s' sg i hloc hconst
      have hap : a.producer = none := TypingE2E.abs_producer_none hA hprod
      have hox' : o.xfs = [.quantTensor] := by rw [hAO.2.1]; exact hcq
      exact ((TypingReq.consumer_noProd (tensorInfo s' sg i) a hreq.consShape hreq.consSameOp hap os hos o ho
        .quantTensor hox').2 ins hins hoc).1
  · obtain ⟨os, o, hos, ho, hox, hop, hoc⟩ :=
      ParamsGraph.addQuant_source (tensorInfo s' sg i) a hreq.consShape hreq.prodShape ins hins hq
    obtain ⟨cs, c, hcs, hc, hAO⟩ := hA.cons_mem hos ho
    rw [hp] at hop
    obtain ⟨P, hP, hidx⟩ := hAO.param_some hop.symm
    refine fromSide c P (hbC cs c hcs hc) hP hidx ?_
    intro hcq
    rw [← hAO.2.1, hox] at hcq
    cases hcq

theorem dtype_not_wide (d : Nat)
    (h : d = Tables.ttFloat32 ∨ d = Tables.ttFloat16 ∨ d = Tables.ttInt4 ∨ d = Tables.ttInt8 ∨ d = Tables.ttInt16) :
    d ≠ Tables.ttInt32 ∧ d ≠ Tables.ttInt64 := by
  rcases h with rfl | rfl | rfl | rfl | rfl <;> decide

theorem dtype_not_i4 (d : Nat) (h : d = Tables.ttFloat32 ∨ d = Tables.ttInt8 ∨ d = Tables.ttInt16) :
    d ≠ Tables.ttInt4 := by
  rcases h with rfl | rfl | rfl <;> decide

/-- the type written by a uniform parameter of 4, 8 or 16 bits -/
theorem dtypeOf_bits (pi : PInfo) (ty : Nat) (hu : pi.uniform = true) (h : dtypeOf pi = .ok ty) :
    (pi.bits = 4 → ty = Tables.ttInt4) ∧ (pi.bits = 8 → ty = Tables.ttInt8) ∧ (pi.bits = 16 → ty = Tables.ttInt16) := by
  obtain ⟨u, b, d⟩ := pi
  simp only at hu
  subst hu
  have := TypingE2E.dtypeOf_intOfBits b d ty h
  refine ⟨?_, ?_, ?_⟩ <;> intro hb <;> simp only at hb <;> subst hb <;> exact this

/-- **C01b, inserted operators**: under a recipe without `skip_checks` no inserted operator touches an
    int32 / int64 tensor, and no inserted QUANTIZE an int4 tensor -/
theorem inserted_widths (rx : String → String → Bool) (env : Env) (st : Recipe.State)
    (qsvs : Option Qsvs) (m' : Model) (tbl : List Param) (hnf : PipelineWF.NF env st) (hns : MatTotal.NoSkip st)
    (h : quantizePure rx env st qsvs = .ok (m', tbl)) : InsertedWidths m' := by
  obtain ⟨res, tis, S⟩ := TypingE2E.stages rx env st qsvs m' tbl hnf h
  obtain ⟨stF, rfl, F⟩ := TypingGraph.run_fin _ env.model m' tis hnf.wf hnf.tagged S.ok S.cd S.run
  have htbl := S.tbl_eq
  subst htbl
  obtain ⟨qs, hfold⟩ := S.fold
  have hbits := Bits.generate_bits rx env st hns _ qs res hfold
  have C := S.ctx
  intro sg' hsg'm o ho hn t ht
  obtain ⟨s, hsg'⟩ := List.mem_iff_getElem?.1 hsg'm
  have hs : s < env.model.subgraphs.length := by
    rw [← F.base.inv.nsg]; exact (List.getElem?_eq_some_iff.1 hsg').1
  have hsg : env.model.subgraphs[s]? = some env.model.subgraphs[s] := List.getElem?_eq_getElem hs
  generalize env.model.subgraphs[s] = sg at hsg
  obtain ⟨ci, n, ti, ins, tout, e1, e2, hti, hins, e3, hadd, e5, e6, e7⟩ :=
    TypingGraph.inserted_final _ env.model tis stF F s sg sg' hsg hsg' o ho hn
  subst e3
  obtain ⟨p, pi, ty, nm, tn0, hp, hpi, hty, hrec⟩ := e7
  obtain ⟨i, tn, f1, f2, f3, f4⟩ :=
    TypingE2E.inst_facts S ti hti ins hins (Wiring.addsOp_insertion _ hadd) p pi hp hpi _ hsg
  obtain ⟨tin, q1, -, -, -, q5, q6⟩ := TypingGraph.tensor_final _ env.model tis stF F ti.sg sg sg' hsg hsg' i tn f2
  have hdin : dtypeAt sg' (i : Int) = some tin.dtype :=
    dtypeAt_some sg' _ (Int.natCast_nonneg i) tin (by simpa using q1)
  have hdout : dtypeAt sg' (n : Int) = some tout.dtype :=
    dtypeAt_some sg' _ (Int.natCast_nonneg n) tout (by simpa using e6)
  -- the type of a retyped record of tensor `i`, for a uniform parameter of known width
  have typed : ∀ (p' : PId) (pi' : PInfo) (ty' : Nat), pinfo (ptableOf (tblOf res)) p' = some pi' →
      dtypeOf pi' = .ok ty' → tin.dtype = ty' → pi'.uniform = true →
      (pi'.bits = 4 ∨ pi'.bits = 8 ∨ pi'.bits = 16) →
      tin.dtype = Tables.ttInt4 ∧ pi'.bits = 4 ∨ tin.dtype = Tables.ttInt8 ∨ tin.dtype = Tables.ttInt16 := by
    intro p' pi' ty' _ hd ht' hu' hb
    obtain ⟨b4, b8, b16⟩ := dtypeOf_bits pi' ty' hu' hd
    rcases hb with hb | hb | hb
    · exact .inl ⟨by rw [ht', b4 hb], hb⟩
    · exact .inr (.inl (by rw [ht', b8 hb]))
    · exact .inr (.inr (by rw [ht', b16 hb]))
  -- the operator is `newOp ci i n`
  have hmem : t = (i : Int) ∨ t = (n : Int) := by
    rw [e1, f1] at ht
    simpa [SkeletonProof.newOp] using ht
  have hcode : stF.model.opcodes[o.code]? = some (TypingGraph.insCode ins.xf) := by rw [e1]; exact e5
  rcases Wiring.addsOp_cases _ hadd with hq | hd
  · -- QUANTIZE
    obtain ⟨hu, hf32, hnc⟩ := f4 hq
    rcases hmem with rfl | rfl
    · -- its operand: the original float32 tensor, or a runtime tensor produced quantized
      rw [hdin]
      rcases q5 with rfl | ⟨p', ⟨ti', hti', ins', hins', hs', hten', hr', hpar'⟩, ⟨pi', ty', t1, t2, t3, t4⟩⟩
      · have h1 := dtype_not_wide tin.dtype (.inl hf32)
        have h2 := dtype_not_i4 tin.dtype (.inl hf32)
        exact ⟨fun hh => h1.1 (Option.some.inj hh), fun hh => h1.2 (Option.some.inj hh),
          fun _ hh => h2 (Option.some.inj hh)⟩
      · have hsgi : env.model.subgraphs[ti'.sg]? = some sg := by rw [hs']; exact hsg
        obtain ⟨i2, tn2, g1, g2, g3, -⟩ := TypingE2E.inst_facts S ti' hti' ins' hins'
          (Wiring.retypes_insertion _ hr') p' pi' hpar' t1 sg hsgi
        have hi2 : i2 = i := by omega
        subst hi2
        have hu' : pi'.uniform = true := by
          rcases g3 with g | ⟨-, -, g⟩
          · exact g
          · rw [hnc] at g; cases g
        obtain ⟨i3, tn3, k1, k2, k3⟩ := inst_bits S hbits ti' hti' ins' hins'
          (Wiring.retypes_insertion _ hr') p' pi' hpar' t1 hu' sg hsgi
        have hi3 : i3 = i2 := by omega
        subst hi3
        have hb : pi'.bits = 8 ∨ pi'.bits = 16 := by
          rcases k3 with k | k | ⟨k, -⟩
          · exact .inl k
          · exact .inr k
          · rw [hnc] at k; cases k
        have := typed p' pi' ty' t1 t2 t3 hu' (hb.elim (fun x => .inr (.inl x)) (fun x => .inr (.inr x)))
        have hty' : tin.dtype = Tables.ttInt8 ∨ tin.dtype = Tables.ttInt16 := by
          rcases this with ⟨-, h4⟩ | h8 | h16
          · rcases hb with hb | hb <;> omega
          · exact .inl h8
          · exact .inr h16
        have h1 := dtype_not_wide tin.dtype (hty'.elim (fun x => .inr (.inr (.inr (.inl x)))) (fun x => .inr (.inr (.inr (.inr x)))))
        have h2 := dtype_not_i4 tin.dtype (.inr hty')
        exact ⟨fun hh => h1.1 (Option.some.inj hh), fun hh => h1.2 (Option.some.inj hh),
          fun _ hh => h2 (Option.some.inj hh)⟩
    · -- its result: the type of the instruction's parameter
      rw [hdout]
      rw [if_pos hq] at hrec
      have hdt : tout.dtype = ty := by rw [hrec, StepTypes.retype_dtype]
      obtain ⟨i3, tn3, k1, k2, k3⟩ := inst_bits S hbits ti hti ins hins (Wiring.addsOp_insertion _ hadd) p pi hp hpi hu
        sg hsg
      have hi3 : i3 = i := by omega
      subst hi3
      have hb : pi.bits = 8 ∨ pi.bits = 16 := by
        rcases k3 with k | k | ⟨k, -⟩
        · exact .inl k
        · exact .inr k
        · rw [hnc] at k; cases k
      obtain ⟨-, b8, b16⟩ := dtypeOf_bits pi ty hu hty
      have hty' : tout.dtype = Tables.ttInt8 ∨ tout.dtype = Tables.ttInt16 := by
        rcases hb with hb | hb
        · exact .inl (by rw [hdt, b8 hb])
        · exact .inr (by rw [hdt, b16 hb])
      have h1 := dtype_not_wide tout.dtype (hty'.elim (fun x => .inr (.inr (.inr (.inl x)))) (fun x => .inr (.inr (.inr (.inr x)))))
      have h2 := dtype_not_i4 tout.dtype (.inr hty')
      exact ⟨fun hh => h1.1 (Option.some.inj hh), fun hh => h1.2 (Option.some.inj hh),
        fun _ hh => h2 (Option.some.inj hh)⟩
  · -- DEQUANTIZE
    have hnq : stF.model.opcodes[o.code]? ≠ some Tables.opQuantize := by
      rw [hcode, TypingGraph.insCode, if_neg (by rw [hd]; decide)]
      decide
    rcases hmem with rfl | rfl
    · rw [hdin]
      obtain ⟨p', ⟨ti', hti', ins', hins', hs', hten', hr', hpar'⟩, ⟨pi', ty', t1, t2, t3, t4⟩⟩ :=
        q6 ⟨p, ti, hti, ins, hins, rfl, f1, by rw [hd]; rfl, hp⟩
      have hsgi : env.model.subgraphs[ti'.sg]? = some sg := by rw [hs']; exact hsg
      obtain ⟨i2, tn2, g1, g2, g3, -⟩ := TypingE2E.inst_facts S ti' hti' ins' hins'
        (Wiring.retypes_insertion _ hr') p' pi' hpar' t1 sg hsgi
      have hi2 : i2 = i := by omega
      subst hi2
      have hwide : tin.dtype ≠ Tables.ttInt32 ∧ tin.dtype ≠ Tables.ttInt64 := by
        rcases g3 with hu' | ⟨hu', hb16, -⟩
        · -- a uniform parameter
          obtain ⟨i3, tn3, k1, k2, k3⟩ := inst_bits S hbits ti' hti' ins' hins'
            (Wiring.retypes_insertion _ hr') p' pi' hpar' t1 hu' sg hsgi
          have hi3 : i3 = i2 := by omega
          subst hi3
          have hb : pi'.bits = 4 ∨ pi'.bits = 8 ∨ pi'.bits = 16 := by
            rcases k3 with k | k | ⟨kc, k | k⟩
            · exact .inr (.inl k)
            · exact .inr (.inr k)
            · exact .inl k
            · -- a QUANTIZE_TENSOR instruction on the same constant: it carries the parameter of the
              -- ADD_DEQUANTIZE instruction
              rw [f2] at g2
              cases g2
              obtain ⟨c, hc⟩ := (TypingE2E.isConst_nat env.model sg _ tn f2).1 kc
              have hsame := (S.sa.same tn.buffer c hc) ti'.sg _ p' ti.sg _ p ⟨sg, tn, hsgi, f2, rfl⟩
                ⟨sg, tn, hsg, f2, rfl⟩ ⟨ti', hti', ins', hins', rfl, hten', hr', hpar'⟩
                ⟨ti, hti, ins, hins, rfl, f1, by rw [hd]; rfl, hp⟩
              subst hsame
              rw [hpi] at t1
              cases t1
              obtain ⟨i4, tn4, l1, l2, l3⟩ := inst_bits S hbits ti hti ins hins (Wiring.addsOp_insertion _ hadd) p' pi hp hpi
                hu' sg hsg
              rcases l3 with l | l | ⟨-, l | l⟩
              · exact .inr (.inl l)
              · exact .inr (.inr l)
              · exact .inl l
              · rw [hd] at l; cases l
          rcases typed p' pi' ty' t1 t2 t3 hu' hb with ⟨h4, -⟩ | h8 | h16
          · exact dtype_not_wide _ (.inr (.inr (.inl h4)))
          · exact dtype_not_wide _ (.inr (.inr (.inr (.inl h8))))
          · exact dtype_not_wide _ (.inr (.inr (.inr (.inr h16))))
        · -- the float16 parameter of float casting
          have := TypingE2E.dtypeOf_f16 pi' ty' hu' hb16 t2
          exact dtype_not_wide _ (.inr (.inl (by rw [t3, this])))
      exact ⟨fun hh => hwide.1 (Option.some.inj hh), fun hh => hwide.2 (Option.some.inj hh),
        fun hq' => absurd hq' hnq⟩
    · rw [hdout]
      rw [if_neg (by rw [hd]; decide)] at hrec
      have hdt : tout.dtype = Tables.ttFloat32 := by rw [hrec]; rfl
      have h1 := dtype_not_wide tout.dtype (.inl hdt)
      exact ⟨fun hh => h1.1 (Option.some.inj hh), fun hh => h1.2 (Option.some.inj hh),
        fun hq' => absurd hq' hnq⟩

end KernelSig
