import QProofs.PipeDefs
import QProofs.CalibProofs
/-!
# `updateResults` preserves the dictionary invariant `EntryOK`
-/
open Graph Mat Cfg Pipeline InstGen GenInstsOK

namespace Pipe

/-- a successful lookup yields the entry itself (keys are strings) -/
theorem dictGet?_mem_key {ν} (d : List (String × ν)) (k : String) (v : ν)
    (h : Py.dictGet? d k = some v) : (k, v) ∈ d := by
  unfold Py.dictGet? at h
  cases hf : d.find? (·.1 == k) with
  | none => rw [hf] at h; cases h
  | some e =>
    rw [hf] at h
    simp only [Option.map_some, Option.some.injEq] at h
    have hk := List.find?_some hf
    have hm := List.mem_of_find?_eq_some hf
    have hk' : e.1 = k := by simpa using hk
    obtain ⟨a, b⟩ := e
    simp only at hk' h
    subst hk'; subst h; exact hm

/-- bookkeeping predicate used inside the fold: `c` is old, or was contributed by a request of
    the operator being merged -/
def WkIn (Wk : String → CO2T → Prop) (rs : List CReq) (n : String) (c : CO2T) : Prop :=
  Wk n c ∨ ∃ r0 ∈ rs, r0.name = n ∧ r0.consumers = some [c]

/-- the step function of `updateResults` -/
def stepF (res : List (String × CReq)) (r : CReq) : PyM (List (String × CReq)) :=
  match Py.dictGet? res r.name with
  | none => pure (res ++ [(r.name, r)])
  | some cur =>
    match r.producer, cur.producer with
    | some _, some _ => throw .runtimeError
    | _, _ =>
      let prod := match r.producer with | some p => some p | none => cur.producer
      let cons := match r.consumers, cur.consumers with
        | some c, none => some c
        | some c, some c0 => some (c0 ++ c)
        | none, c0 => c0
      pure (Py.dictSet res r.name { cur with producer := prod, consumers := cons })

theorem updateResults_eq (res : List (String × CReq)) (rs : List CReq) :
    updateResults res rs = rs.foldlM stepF res := rfl

/-- a fresh request of the operator is a good entry -/
theorem entry_new (m : Model) (hnu : namesUnique m) (s : Nat) (sg : Subgraph)
    (hsg : m.subgraphs[s]? = some sg) (op : Op) (opId : Int) (rs : List CReq)
    (hrs : OpReqs m sg op opId rs)
    (hcons : ∀ i : Nat, (i : Int) ∈ op.inputs → ConsumedAt sg i opId)
    (hprod : ∀ i : Nat, (i : Int) ∈ op.outputs → ProducedAt sg i opId)
    (Wk : String → CO2T → Prop) (r : CReq) (hr : r ∈ rs) :
    EntryOK m (WkIn Wk rs) r.name r := by
  obtain ⟨i, t, ht, hname, hform⟩ := hrs.each r hr
  have hloc : Loc m r.name s sg i := ⟨hsg, t, ht, hname.symm⟩
  rcases hform with ⟨hp, c, hc, hcid, hin, hshape⟩ | ⟨hc, p, hp, hpid, hout, hshape⟩
  · refine ⟨rfl, ⟨s, sg, i, hloc⟩, ?_, ?_, ?_, ?_, ?_⟩
    · intro p hp'; rw [hp] at hp'; cases hp'
    · intro cs c' hcs hc' s' sg' i' hloc'
      obtain ⟨h1, h2, h3⟩ := loc_unique m hnu _ _ _ _ _ _ _ hloc hloc'
      subst h1; subst h2; subst h3
      rw [hc] at hcs; cases hcs
      rw [List.mem_singleton] at hc'; subst hc'
      exact ⟨hshape, by rw [hcid]; exact hcons i hin⟩
    · intro cs c' hcs hc'
      rw [hc] at hcs; cases hcs
      rw [List.mem_singleton] at hc'; subst hc'
      exact Or.inr ⟨r, hr, rfl, hc⟩
    · intro cs c1 c2 hcs h1 h2 _
      rw [hc] at hcs; cases hcs
      rw [List.mem_singleton] at h1 h2; subst h1; subst h2
      exact ⟨rfl, rfl⟩
    · exact Or.inr ⟨[c], c, hc, List.mem_singleton.2 rfl⟩
  · refine ⟨rfl, ⟨s, sg, i, hloc⟩, ?_, ?_, ?_, ?_, ?_⟩
    · intro p' hp' s' sg' i' hloc'
      obtain ⟨h1, h2, h3⟩ := loc_unique m hnu _ _ _ _ _ _ _ hloc hloc'
      subst h1; subst h2; subst h3
      rw [hp] at hp'; cases hp'
      exact ⟨hshape, by rw [hpid]; exact hprod i hout⟩
    · intro cs c' hcs; rw [hc] at hcs; cases hcs
    · intro cs c' hcs; rw [hc] at hcs; cases hcs
    · intro cs c1 c2 hcs; rw [hc] at hcs; cases hcs
    · left; rw [hp]; exact fun h => by cases h

/-- setting the producer of an entry without producer -/
theorem entry_setProd (m : Model) (W : String → CO2T → Prop) (n : String) (cur : CReq) (p : CO2T)
    (hcur : EntryOK m W n cur)
    (hp : ∀ s sg i, Loc m n s sg i → ProdShape m sg i p ∧ ProducedAt sg i p.opId) :
    EntryOK m W n { cur with producer := some p, consumers := cur.consumers } := by
  refine ⟨hcur.name, hcur.loc, ?_, hcur.cons, hcur.walked, hcur.coh, ?_⟩
  · intro p' hp' s sg i hloc
    simp only [Option.some.injEq] at hp'
    subst hp'
    exact hp s sg i hloc
  · left; simp

/-- adding one consumer to an entry -/
theorem entry_addCons (m : Model) (W : String → CO2T → Prop) (n : String) (cur : CReq) (c : CO2T)
    (hcur : EntryOK m W n cur)
    (hc : ∀ s sg i, Loc m n s sg i → ConsShape m sg i c ∧ ConsumedAt sg i c.opId)
    (hw : W n c)
    (hcoh : ∀ cs c1, cur.consumers = some cs → c1 ∈ cs → c1.opId = c.opId →
      c1.xfs = c.xfs ∧ c1.param = c.param) :
    EntryOK m W n { cur with producer := cur.producer, consumers :=
      match cur.consumers with
      | none => some [c]
      | some c0 => some (c0 ++ [c]) } := by
  cases hcc : cur.consumers with
  | none =>
    refine ⟨hcur.name, hcur.loc, hcur.prod, ?_, ?_, ?_, ?_⟩
    · intro cs c' hcs hc' s sg i hloc
      simp only [Option.some.injEq] at hcs; subst hcs
      rw [List.mem_singleton] at hc'; subst hc'
      exact hc s sg i hloc
    · intro cs c' hcs hc'
      simp only [Option.some.injEq] at hcs; subst hcs
      rw [List.mem_singleton] at hc'; subst hc'
      exact hw
    · intro cs c1 c2 hcs h1 h2 _
      simp only [Option.some.injEq] at hcs; subst hcs
      rw [List.mem_singleton] at h1 h2; subst h1; subst h2
      exact ⟨rfl, rfl⟩
    · exact Or.inr ⟨[c], c, rfl, List.mem_singleton.2 rfl⟩
  | some c0 =>
    refine ⟨hcur.name, hcur.loc, hcur.prod, ?_, ?_, ?_, ?_⟩
    · intro cs c' hcs hc' s sg i hloc
      simp only [Option.some.injEq] at hcs; subst hcs
      rcases List.mem_append.1 hc' with h1 | h1
      · exact hcur.cons c0 c' hcc h1 s sg i hloc
      · rw [List.mem_singleton] at h1; subst h1
        exact hc s sg i hloc
    · intro cs c' hcs hc'
      simp only [Option.some.injEq] at hcs; subst hcs
      rcases List.mem_append.1 hc' with h1 | h1
      · exact hcur.walked c0 c' hcc h1
      · rw [List.mem_singleton] at h1; subst h1
        exact hw
    · intro cs c1 c2 hcs h1 h2 hid
      simp only [Option.some.injEq] at hcs; subst hcs
      rcases List.mem_append.1 h1 with a1 | a1 <;> rcases List.mem_append.1 h2 with a2 | a2 <;>
        clear h1 h2
      · exact hcur.coh c0 c1 c2 hcc a1 a2 hid
      · rw [List.mem_singleton] at a2; subst a2
        exact hcoh c0 c1 hcc a1 hid
      · rw [List.mem_singleton] at a1; subst a1
        obtain ⟨a, b⟩ := hcoh c0 c2 hcc a2 hid.symm
        exact ⟨a.symm, b.symm⟩
      · rw [List.mem_singleton] at a1 a2; subst a1; subst a2
        exact ⟨rfl, rfl⟩
    · exact Or.inr ⟨c0 ++ [c], c, rfl, List.mem_append.2 (Or.inr (List.mem_singleton.2 rfl))⟩

/-- one step of the fold keeps the (strengthened) invariant -/
theorem stepF_inv (m : Model) (hnu : namesUnique m) (s : Nat) (sg : Subgraph)
    (hsg : m.subgraphs[s]? = some sg) (op : Op) (opId : Int) (rs : List CReq)
    (hrs : OpReqs m sg op opId rs)
    (hcons : ∀ i : Nat, (i : Int) ∈ op.inputs → ConsumedAt sg i opId)
    (hprod : ∀ i : Nat, (i : Int) ∈ op.outputs → ProducedAt sg i opId)
    (Wk : String → CO2T → Prop)
    (hfresh : ∀ r ∈ rs, ∀ c, Wk r.name c → c.opId ≠ opId)
    (r : CReq) (hr : r ∈ rs)
    (res res' : List (String × CReq)) (hres : ∀ e ∈ res, EntryOK m (WkIn Wk rs) e.1 e.2)
    (h : stepF res r = .ok res') :
    ∀ e ∈ res', EntryOK m (WkIn Wk rs) e.1 e.2 := by
  have hnew := entry_new m hnu s sg hsg op opId rs hrs hcons hprod Wk r hr
  unfold stepF at h
  cases hg : Py.dictGet? res r.name with
  | none =>
    rw [hg] at h
    simp only [pure, Except.pure, Except.ok.injEq] at h
    subst h
    intro e he
    rcases List.mem_append.1 he with he | he
    · exact hres e he
    · rw [List.mem_singleton] at he; subst he; exact hnew
  | some cur =>
    rw [hg] at h
    simp only at h
    have hcur : EntryOK m (WkIn Wk rs) r.name cur := hres _ (dictGet?_mem_key res r.name cur hg)
    suffices hs : ∃ new, res' = Py.dictSet res r.name new ∧ EntryOK m (WkIn Wk rs) r.name new by
      obtain ⟨new, rfl, hnewOK⟩ := hs
      intro e he
      rcases CalibProofs.mem_dictSet res r.name new e he with he | he
      · exact hres e he
      · subst he; exact hnewOK
    obtain ⟨i, t, ht, hname, hform⟩ := hrs.each r hr
    rcases hform with ⟨hp, c, hc, hcid, hin, hshape⟩ | ⟨hc, p, hp, hpid, hout, hshape⟩
    · -- consumer form
      rw [hp, hc] at h
      simp only [pure, Except.pure, Except.ok.injEq] at h
      refine ⟨_, h.symm, ?_⟩
      have := entry_addCons m (WkIn Wk rs) r.name cur c hcur
        (fun s' sg' i' hloc' => hnew.cons [c] c hc (List.mem_singleton.2 rfl) s' sg' i' hloc')
        (Or.inr ⟨r, hr, rfl, hc⟩)
        (by
          intro cs c1 hcs h1 hid
          rcases hcur.walked cs c1 hcs h1 with hw | ⟨r0, hr0, hn0, hc0⟩
          · exact absurd (hid.trans hcid) (hfresh r hr c1 hw)
          · exact hrs.coherent r0 hr0 r hr hn0 c1 c hc0 hc)
      cases hcc : cur.consumers with
      | none => rw [hcc] at this; exact this
      | some c0 => rw [hcc] at this; exact this
    · -- producer form
      rw [hp, hc] at h
      cases hcp : cur.producer with
      | some p0 => rw [hcp] at h; simp [throw, throwThe, MonadExceptOf.throw] at h
      | none =>
        rw [hcp] at h
        simp only [pure, Except.pure, Except.ok.injEq] at h
        refine ⟨_, h.symm, ?_⟩
        exact entry_setProd m (WkIn Wk rs) r.name cur p hcur
          (fun s' sg' i' hloc' => hnew.prod p hp s' sg' i' hloc')

/-- merging the request list `rs` of one operator (id `opId`, subgraph `s`) into the result
    dictionary keeps every entry `EntryOK`; the bookkeeping predicate grows by
    "consumer entries with this `opId` on names of subgraph `s`" -/
theorem updateResults_inv (m : Model) (hnu : namesUnique m) (s : Nat) (sg : Subgraph)
    (hsg : m.subgraphs[s]? = some sg) (op : Op) (opId : Int) (rs : List CReq)
    (hrs : OpReqs m sg op opId rs)
    (hcons : ∀ i : Nat, (i : Int) ∈ op.inputs → ConsumedAt sg i opId)
    (hprod : ∀ i : Nat, (i : Int) ∈ op.outputs → ProducedAt sg i opId)
    (Wk : String → CO2T → Prop)
    (hfresh : ∀ r ∈ rs, ∀ c, Wk r.name c → c.opId ≠ opId)
    (res res' : List (String × CReq)) (hres : ∀ e ∈ res, EntryOK m Wk e.1 e.2)
    (h : updateResults res rs = .ok res') :
    ∀ e ∈ res', EntryOK m (fun n c => Wk n c ∨ (c.opId = opId ∧ ∃ i, Loc m n s sg i)) e.1 e.2 := by
  rw [updateResults_eq] at h
  have hfin : ∀ e ∈ res', EntryOK m (WkIn Wk rs) e.1 e.2 := by
    refine GraphFrame.foldlM_inv stepF (fun d => ∀ e ∈ d, EntryOK m (WkIn Wk rs) e.1 e.2)
      rs res res' ?_ ?_ h
    · intro e he
      exact (hres e he).mono (fun c hc => Or.inl hc)
    · intro r hr d d' hd hstep
      exact stepF_inv m hnu s sg hsg op opId rs hrs hcons hprod Wk hfresh r hr d d' hd hstep
  intro e he
  refine (hfin e he).mono ?_
  rintro c (hw | ⟨r0, hr0, hn0, hc0⟩)
  · exact Or.inl hw
  · right
    obtain ⟨i, t, ht, hname, hform⟩ := hrs.each r0 hr0
    rcases hform with ⟨_, c', hc', hcid, _, _⟩ | ⟨hcn, _⟩
    · rw [hc0] at hc'
      simp only [Option.some.injEq, List.cons.injEq, and_true] at hc'
      subst hc'
      exact ⟨hcid, i, hsg, t, ht, hname.symm.trans hn0⟩
    · rw [hc0] at hcn; cases hcn

end Pipe
