import QProofs.KernelSigRun
/-!
# Kernel signatures (C01b): what the recipe can select for an operator of the input

Under a recipe state without `skip_checks` rules (`MatTotal.NoSkip`), every operator of a well-formed
input is in exactly one of three situations (`op_mode`):
* the recipe leaves it unquantized (`TypingE2E.ResolvesNoQuant`);
* it resolves to the min/max algorithm with a config that is an entry of the default policy for its name,
  hence one of the modes of `sigMode` (`C13.modeOK` plus the operator lists of the policy: static-range
  only for the operators of `KernelSig.intOps`, 4-bit weights only where the policy lists them);
* it resolves to float casting and its name is one of `Tables.fcSupportedOps`.
-/
open Graph Mat Cfg Pipeline GraphStep

set_option autoImplicit false

namespace KernelSig

/-- the legal shapes of a min/max config (`C13.modeOK`) with the operator lists of the policy -/
def sigMode (nm : String) (c : OpCfg) : Bool :=
  C13.modeOK nm c &&
  (match c.cp, c.act, c.weight with
   | .integer, some _, some w =>
     nm == "INPUT" || nm == "OUTPUT" || (intOps.contains nm && (w.bits != 4 || staticInt4Ops.contains nm))
   | .integer, none, some w => hybridOps.contains nm && (w.bits != 4 || hybridInt4Ops.contains nm)
   | _, _, _ => true)

/-- every entry of the regenerated default policy is such a mode -/
theorem policy_sig : Tables.defaultPolicyUnrolled.all (fun e => e.2.all (sigMode e.1)) = true := by
  decide +kernel

/-- **accepted ⇒ mode of the table**, for every config -/
theorem accepted_minmax_sig (op : String) (c : OpCfg) (hs : c.skipChecks = false)
    (h : Policy.accepts Tables.algMinMax op c = true) : sigMode op c = true := by
  obtain ⟨_, fn, hfn, hchk⟩ := C13.accepts_unfold _ _ _ hs h
  have hfn' : fn = "naive_min_max_quantize.check_op_quantization_config" := by
    have : Py.dictGet? Tables.checkRegistry Tables.algMinMax
        = some "naive_min_max_quantize.check_op_quantization_config" := by decide +kernel
    rw [this] at hfn; exact (Option.some.inj hfn).symm
  subst hfn'
  rw [C13.registered_policies.1, C13.algCheck_minmax] at hchk
  simp only [Option.getD_some] at hchk
  unfold Policy.minMaxCheck at hchk
  cases hw : c.weight with
  | none => simp [hw] at hchk
  | some w =>
    simp only [hw, Bool.and_eq_true] at hchk
    have hpol := hchk.1.2
    unfold Policy.policyCheck at hpol
    simp only [] at hpol
    cases hd : Py.dictGet? Tables.defaultPolicyUnrolled op with
    | none => simp [hd] at hpol
    | some cfgs =>
      simp only [hd] at hpol
      have hmem := C13.mem_of_dictGet _ _ _ hd
      have hall := policy_sig
      rw [List.all_eq_true] at hall
      have he := hall _ hmem
      simp only [List.all_eq_true] at he
      have hc : c ∈ cfgs := by simpa using hpol
      exact he c hc

/-- the scope of a well-formed operator is computable -/
theorem opScope_ok (sg : Subgraph) (op : Op)
    (h : ∀ t ∈ op.outputs, t = -1 ∨ ValidT sg t) : ∃ scope, opScope sg op = .ok scope := by
  unfold opScope
  have hv : ∀ t ∈ op.outputs.filter (· != -1), ValidT sg t := by
    intro t ht
    obtain ⟨h1, h2⟩ := List.mem_filter.1 ht
    rcases h t h1 with h3 | h3
    · simp [h3] at h2
    · exact h3
  generalize op.outputs.filter (· != -1) = l at hv
  generalize "" = acc
  induction l generalizing acc with
  | nil => exact ⟨acc, rfl⟩
  | cons t l ih =>
    have ht := hv t (List.mem_cons_self ..)
    obtain ⟨h0, hlt⟩ := ht
    have hget : sg.tensors[t.toNat]? = some sg.tensors[t.toNat] := List.getElem?_eq_getElem (by omega)
    have hta := TypingE2E.tensorAt_of_get sg t _ h0 hget
    simp only [List.foldlM_cons, hta, bind, Except.bind, pure, Except.pure]
    exact ih (fun t' ht' => hv t' (List.mem_cons_of_mem _ ht')) _

/-- the three situations of an operator of the input -/
inductive OpMode (rx : String → String → Bool) (env : Env) (st : Recipe.State) (sg : Subgraph) (op : Op) : Prop
  | noquant : TypingE2E.ResolvesNoQuant rx env st sg op → OpMode rx env st sg op
  | minmax (nm : String) (cfg : OpCfg) : TypingE2E.ResolvesMinMax rx env st sg op nm cfg →
      sigMode nm cfg = true → OpMode rx env st sg op
  | cast (nm : String) : TypingE2E.ResolvesFloatCast rx env st sg op nm →
      Tables.fcSupportedOps.contains nm = true → OpMode rx env st sg op

theorem op_mode (rx : String → String → Bool) (env : Env) (st : Recipe.State) (hns : MatTotal.NoSkip st)
    (hwf : WF.modelOK env.model = true) (sg : Subgraph) (hsg : sg ∈ env.model.subgraphs)
    (k : Nat) (op : Op) (hop : sg.ops[k]? = some op) : OpMode rx env st sg op := by
  have hsgOK : SgOK env.model sg := ((modelOK_iff env.model).1 hwf).2.1 sg hsg
  have hO := hsgOK.ops k op hop
  obtain ⟨code, hcode⟩ : ∃ code, env.model.opcodes[op.code]? = some code :=
    ⟨_, List.getElem?_eq_getElem hO.code⟩
  cases hnm : opNameOfCode code with
  | none => exact .noquant ⟨code, hcode, .inl hnm⟩
  | some nm =>
    obtain ⟨scope, hscope⟩ := opScope_ok sg op (fun t ht => (hO.outs t ht).imp id (·.1))
    rcases MatTotal.resolve_cases rx st nm scope with h | ⟨e, he, r, hr, h, -, hacc⟩
    · exact .noquant ⟨code, hcode, .inr ⟨nm, scope, hnm, hscope, by rw [h]⟩⟩
    · rcases hacc with hacc | hacc
      · exact .noquant ⟨code, hcode, .inr ⟨nm, scope, hnm, hscope, by rw [h]; exact hacc⟩⟩
      · have hsk := hns e he r hr
        rcases MatTotal.accepts_alg r.alg nm r.cfg hsk hacc with ha | ha
        · refine .minmax nm r.cfg ⟨code, scope, hcode, hnm, hscope, by rw [h, ha]⟩ ?_
          exact accepted_minmax_sig nm r.cfg hsk (ha ▸ hacc)
        · refine .cast nm ⟨code, scope, r.cfg, hcode, hnm, hscope, by rw [h, ha]⟩ ?_
          exact (C13.accepted_float_casting nm r.cfg hsk (ha ▸ hacc)).1

end KernelSig
