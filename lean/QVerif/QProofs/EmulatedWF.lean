import QProofs.EmulatedInv
/-!
# `Emulated.apply` on a well-formed model: explicit shape of the result and well-formedness

`EmuOK`: the hypotheses on the transformation input (the weight is an existing constant tensor; the replaced
operator has exactly one result, a real tensor).
`apply_spec`: a successful run returns the model in which the operator `fc` at position `k = consumers[0]` of
`sg.ops = pre ++ fc :: post` is replaced by a non-empty list `N` whose last member produces `fc`'s result,
the buffer list is `buffers.set (weight buffer) _ ++ _`, the operator codes are `opcodes ++ _`, signatures and
graph inputs / outputs are untouched, `info = (k, |N| - 1, result)`, and the result is well-formed.
-/
open Graph Perform Emulated GraphStep EmuSpec EmuSplice EmuInv

namespace EmuWF

/-- hypotheses on the transformation input -/
structure EmuOK (m : Model) (sg : Subgraph) (inp : TIn) : Prop where
  /-- the weight tensor exists (`0 ≤ tensor_id < len(tensors)`) -/
  tvalid : WF.validT sg inp.tensor = true
  /-- … and holds constant data -/
  wconst : isConst m sg inp.tensor = true
  /-- the operator to be replaced has exactly one result, and it is a real tensor -/
  single : ∀ (k : Nat) (fc : Op), inp.consumers = [(k : Int)] → sg.ops[k]? = some fc →
    ∃ y, fc.outputs = [y] ∧ y ≠ -1

theorem isConst_via (m : Model) (sg : Subgraph) (t : Int) (b : Nat) (h0 : 0 ≤ t)
    (hb : (sg.tensors.map (·.buffer))[t.toNat]? = some b) : isConst m sg t = constAt m.buffers b := by
  rw [isConst_eq, if_neg (by omega)]
  rw [List.getElem?_map] at hb
  cases h : sg.tensors[t.toNat]? with
  | none => rw [h] at hb; simp at hb
  | some tn =>
    rw [h] at hb
    simp at hb
    show constAt m.buffers tn.buffer = _
    rw [hb]

/-- the four codes `plan` adds -/
theorem codes4 (codes : List Nat) (a b c d : Nat) :
    (∃ ext, (addOpCode (addOpCode (addOpCode (addOpCode codes a).1 b).1 c).1 d).1 = codes ++ ext) ∧
    (addOpCode codes a).2 < (addOpCode (addOpCode (addOpCode (addOpCode codes a).1 b).1 c).1 d).1.length ∧
    (addOpCode (addOpCode codes a).1 b).2 < (addOpCode (addOpCode (addOpCode (addOpCode codes a).1 b).1 c).1 d).1.length ∧
    (addOpCode (addOpCode (addOpCode codes a).1 b).1 c).2 <
      (addOpCode (addOpCode (addOpCode (addOpCode codes a).1 b).1 c).1 d).1.length ∧
    (addOpCode (addOpCode (addOpCode (addOpCode codes a).1 b).1 c).1 d).2 <
      (addOpCode (addOpCode (addOpCode (addOpCode codes a).1 b).1 c).1 d).1.length := by
  obtain ⟨a1, a2⟩ := GraphStep.addOpCode_spec codes a
  obtain ⟨b1, b2⟩ := GraphStep.addOpCode_spec (addOpCode codes a).1 b
  obtain ⟨c1, c2⟩ := GraphStep.addOpCode_spec (addOpCode (addOpCode codes a).1 b).1 c
  obtain ⟨d1, d2⟩ := GraphStep.addOpCode_spec (addOpCode (addOpCode (addOpCode codes a).1 b).1 c).1 d
  obtain ⟨e1, he1⟩ := (GraphBasics.addOpCode_spec codes a).2
  obtain ⟨e2, he2⟩ := (GraphBasics.addOpCode_spec (addOpCode codes a).1 b).2
  obtain ⟨e3, he3⟩ := (GraphBasics.addOpCode_spec (addOpCode (addOpCode codes a).1 b).1 c).2
  obtain ⟨e4, he4⟩ := (GraphBasics.addOpCode_spec (addOpCode (addOpCode (addOpCode codes a).1 b).1 c).1 d).2
  refine ⟨⟨e1 ++ e2 ++ e3 ++ e4, ?_⟩, by omega, by omega, by omega, d1⟩
  rw [he4, he3, he2, he1]; simp

theorem plan_ok (pt : PTable) (env : EmuEnv) (m : Model) (sg : Subgraph) (inp : TIn) (pl : Plan)
    (hok : SgOK m sg) (hinp : EmuOK m sg inp) (h : plan pt env m sg inp = .ok pl) :
    ∃ (fc : Op) (y : Int) (wT : Tensor) (p : PId),
      sg.ops[pl.k]? = some fc ∧ inp.consumers = [(pl.k : Int)] ∧ fc.outputs = [y] ∧ y ≠ -1 ∧
      sg.tensors[inp.tensor.toNat]? = some wT ∧
      pl.bufs = m.buffers.set wT.buffer (some (.inr p)) ++ [some (.inr p), some (.inl env.axesTok)] ∧
      (∃ ext, pl.codes = m.opcodes ++ ext) ∧
      PlanOK pl sg m.buffers.length (sg.ops.take pl.k) (sg.ops.drop (pl.k + 1)) fc y := by
  obtain ⟨hd, wr, hhd, hwr, hio, _, _, hsg2, hbufs, hk, hsc, hax, hcodes, c1, c2, c3, c4⟩ :=
    plan_spec pt env m sg inp pl h
  obtain ⟨hcons, hfc, _, _, _, _⟩ := head_spec pt m sg inp hd hhd
  have hv := (validT_iff _ _).1 hinp.tvalid
  obtain ⟨pi, ty, _, hw, hwb, hwbufs, hwsg⟩ := weight_spec env m sg inp hd.par wr hv.1 hwr
  obtain ⟨⟨rest, hfin⟩, ⟨rest', hfout⟩, ⟨inT, hinT, hrank⟩, _, _⟩ := io_spec env hd.fc (sg2 env wr) pl.io hio
  obtain ⟨y, hy1, hy2⟩ := hinp.single hd.k hd.fc hcons hfc
  obtain ⟨hsplit, hlen⟩ := split_at sg.ops hd.k hd.fc hfc
  have houtId : pl.io.outId = y := by
    rw [hy1] at hfout
    cases hfout
    rfl
  have hcs := codes4 m.opcodes opReshape opBatchMatmul opMul opSum
  rw [← hcodes, ← c1, ← c2, ← c3, ← c4] at hcs
  obtain ⟨hcext, hc1, hc2, hc3, hc4⟩ := hcs
  have hnames : wr.sg.tensors.map (·.name) = sg.tensors.map (·.name) := by
    rw [hwsg]; exact map_set_same _ _ _ _ _ hw rfl
  have hbuffers : wr.sg.tensors.map (·.buffer) = sg.tensors.map (·.buffer) := by
    rw [hwsg]; exact map_set_same _ _ _ _ _ hw rfl
  have hwlen : wr.sg.tensors.length = sg.tensors.length := by rw [hwsg]; simp
  have hblen : wr.bufs.length = m.buffers.length := by rw [hwbufs]; simp
  refine ⟨hd.fc, y, wr.w, wr.p, by rw [hk]; exact hfc, by rw [hk]; exact hcons, hy1, hy2, hw,
    by rw [hbufs, hwbufs], hcext, ?_⟩
  rw [hk]
  refine ⟨?_, ?_, ?_, ?_, ?_, ?_, ?_, ?_, ?_, houtId, ⟨?_, ?_⟩, hc1, hc2, hc3, hc4⟩
  · rw [hsg2]; simp only [sg2, addConst_ops]; rw [hwsg]; exact hsplit
  · rw [hk]; exact hlen.symm
  · rw [hsg2]; simp only [sg2, addConst_inputs]; rw [hwsg]
  · rw [hsg2]; simp only [sg2, addConst_outputs]; rw [hwsg]
  · rw [hsg2]; simp only [sg2, addConst_buffers, addConst_bufs, hbuffers]
    simp [hblen]
  · rw [hsg2]; simp only [sg2]
    exact addConst_nodup _ _ _ _ _ _ (addConst_nodup _ _ _ _ _ _ (by rw [hnames]; exact hok.names))
  · rw [hbufs]; simp [hblen]
  · rw [hsc, hwlen]
  · rw [hax, hwlen]; simp
  · rw [hfin]; simp
  · -- a data operand `-1` would make Python read the tensor added last (`_reduce_axes`, rank 1)
    intro hneg
    rw [hneg] at hinT
    have hT : (sg2 env wr).tensors =
        (addConst wr.bufs wr.sg (wr.w.name ++ "_scale") env.scaleShape Tables.ttFloat32 (.inr wr.p)).2.1.tensors ++
          [{ name := uniqueName ((addConst wr.bufs wr.sg (wr.w.name ++ "_scale") env.scaleShape Tables.ttFloat32
                (.inr wr.p)).2.1.tensors.map (·.name)) (wr.w.name ++ "_reduce_axes"),
             dtype := Tables.ttInt32, shape := [1],
             buffer := (addConst wr.bufs wr.sg (wr.w.name ++ "_scale") env.scaleShape Tables.ttFloat32
                (.inr wr.p)).1.length }] := rfl
    unfold getTensor at hinT
    rw [hT, index_last] at hinT
    cases hinT
    simp at hrank

/-- the buffer list after the transformation: data/no-data pattern -/
theorem bufs_facts (bufs : List BufContent) (wb : Nat) (v : Nat ⊕ PId) (a b c d : Nat ⊕ PId)
    (hw : constAt bufs wb = true) (hb0 : bufs[0]? = some none) :
    (∀ i, i < bufs.length → constAt (bufs.set wb (some v) ++ [some a, some b, some c, some d]) i = constAt bufs i) ∧
    (∀ i, i < 4 → constAt (bufs.set wb (some v) ++ [some a, some b, some c, some d]) (bufs.length + i) = true) ∧
    constAt (bufs.set wb (some v) ++ [some a, some b, some c, some d]) 0 = false ∧
    (bufs.set wb (some v) ++ [some a, some b, some c, some d])[0]? = some none ∧
    (bufs.set wb (some v) ++ [some a, some b, some c, some d]).length = bufs.length + 4 := by
  have hpos : 0 < bufs.length := (List.getElem?_eq_some_iff.1 hb0).1
  have h1 : ∀ i, i < bufs.length →
      constAt (bufs.set wb (some v) ++ [some a, some b, some c, some d]) i = constAt bufs i := by
    intro i hi
    have := constAt_set bufs wb i v hw
    unfold constAt at this ⊢
    rw [List.getElem?_append_left (by simpa using hi)]
    exact this
  have hc0 : constAt bufs 0 = false := by unfold constAt; rw [hb0]
  have hwb0 : wb ≠ 0 := by
    intro h0; rw [h0] at hw; rw [hw] at hc0; cases hc0
  refine ⟨h1, ?_, by rw [h1 0 hpos]; exact hc0, ?_, by simp⟩
  · intro i hi
    unfold constAt
    rw [List.getElem?_append_right (by simp)]
    simp only [List.length_set, Nat.add_sub_cancel_left]
    match i, hi with
    | 0, _ => rfl
    | 1, _ => rfl
    | 2, _ => rfl
    | 3, _ => rfl
  · rw [List.getElem?_append_left (by simpa using hpos), List.getElem?_set_ne hwb0]
    exact hb0

/-- the result of `Emulated.apply` on a well-formed model, in explicit form -/
theorem apply_spec (pt : PTable) (env : EmuEnv) (m m' : Model) (sgi : Nat) (sg : Subgraph) (inp : TIn)
    (info : TInfoOut) (hsg : m.subgraphs[sgi]? = some sg) (hwf : WF.modelOK m = true) (hinp : EmuOK m sg inp)
    (h : Emulated.apply pt env m sgi inp = .ok (m', info)) :
    ∃ (pl : Plan) (pre post N : List Op) (fc : Op) (y : Int) (wT : Tensor) (v : Nat ⊕ PId)
      (bext : List BufContent) (cext : List Nat),
      plan pt env m sg inp = .ok pl ∧
      sg.ops = pre ++ fc :: post ∧ inp.consumers = [(pre.length : Int)] ∧ fc.outputs = [y] ∧ y ≠ -1 ∧
      sg.tensors[inp.tensor.toNat]? = some wT ∧
      m' = { subgraphs := m.subgraphs.set sgi
               { tensors := (reluStep pl (biasStep pl (core env inp pl).1)).sg.tensors,
                 ops := pre ++ N ++ post, inputs := sg.inputs, outputs := sg.outputs },
             buffers := m.buffers.set wT.buffer (some v) ++ bext, opcodes := m.opcodes ++ cext, sigs := m.sigs } ∧
      info.opId = (pre.length : Int) ∧ info.added + 1 = N.length ∧ info.outTensor = y ∧
      (∀ o : Op, N[N.length - 1]? = some o → o.outputs = [y]) ∧ (∀ o ∈ N, o.orig = none) ∧
      sg.tensors.length + 8 ≤ (reluStep pl (biasStep pl (core env inp pl).1)).sg.tensors.length ∧
      pl.k = pre.length ∧
      PlanOK pl sg m.buffers.length pre post fc y ∧
      WF.modelOK m' = true := by
  unfold Emulated.apply at h
  rw [hsg] at h
  simp only at h
  split at h
  · cases h
  rename_i pl hpl
  simp only [Except.ok.injEq, Prod.mk.injEq] at h
  obtain ⟨hm', hinfo⟩ := h
  obtain ⟨hb0, hsgs, hsigs⟩ := (modelOK_iff m).1 hwf
  have hok : SgOK m sg := hsgs sg (List.mem_of_getElem? hsg)
  obtain ⟨fc, y, wT, p, hfc, hcons, hy1, hy2, hw, hbufs, ⟨cext0, hcext0⟩, hp⟩ :=
    plan_ok pt env m sg inp pl hok hinp hpl
  obtain ⟨hsplit, hlen⟩ := split_at sg.ops pl.k fc hfc
  generalize sg.ops.take pl.k = pre at hsplit hlen hp
  generalize sg.ops.drop (pl.k + 1) = post at hsplit hp
  have hinv0 := core_inv env inp pl sg m.buffers.length _ _ fc y hp
  obtain ⟨N1, hinv1⟩ := bias_inv pl sg m.buffers.length _ _ fc inp y _ _ hp.k hp.outId hinv0
  obtain ⟨N, hinv⟩ := relu_inv pl sg m.buffers.length _ _ fc inp y _ _ hp.k hp.outId hinv1
  obtain ⟨st2, hst2⟩ : ∃ st2, st2 = reluStep pl (biasStep pl (core env inp pl).1) := ⟨_, rfl⟩
  rw [← hst2] at hinv
  obtain ⟨cext1, hcext1⟩ := hinv.codesExt
  obtain ⟨j, hj4, htb⟩ := hinv.tbuf
  have hTlen : st2.sg.tensors.length = sg.tensors.length + 4 + j := by
    have := congrArg List.length htb
    simp at this
    omega
  have hv := (validT_iff _ _).1 hinp.tvalid
  have hv1 : 0 ≤ inp.tensor := hv.1
  have hv2 : inp.tensor < (sg.tensors.length : Int) := hv.2
  have hwc : constAt m.buffers wT.buffer = true := by
    rw [← isConst_of_get m sg inp.tensor wT hv.1 hw]; exact hinp.wconst
  -- the components of `finish`
  have hfin1 : (finish env inp pl).1 =
      { tensors := st2.sg.tensors, ops := pre ++ N ++ post,
        inputs := sg.inputs, outputs := sg.outputs } := by
    simp only [finish]
    rw [← hst2, hinv.ops, hinv.added, hp.k, eraseIdx_mid, hinv.inputs, hinv.outputs]
  have hfin2 : (finish env inp pl).2.1 = m.buffers.set wT.buffer (some (.inr p)) ++
      [some (.inr p), some (.inl env.axesTok), some (.inl env.shape1Tok), some (.inl env.shape2Tok)] := by
    simp only [finish]
    rw [core_bufs, hbufs]; simp
  have hfin3 : (finish env inp pl).2.2.1 = m.opcodes ++ (cext0 ++ cext1) := by
    simp only [finish]
    rw [← hst2, hcext1, hcext0, List.append_assoc]
  have hfin4 : (finish env inp pl).2.2.2 = ⟨(pl.k : Int), N.length - 1, y⟩ := by
    simp only [finish]
    rw [← hst2, hinv.added, hp.outId]
  rw [hfin1, hfin2, hfin3] at hm'
  rw [hfin4] at hinfo
  have hNpos : 0 < N.length := List.length_pos_iff.2 hinv.chain.ne
  refine ⟨pl, pre, post, N, fc, y, wT, .inr p, _, _, hpl, hsplit, by rw [hlen]; exact hcons,
    hy1, hy2, hw, by rw [← hst2]; exact hm'.symm, by rw [← hinfo, hlen], by rw [← hinfo]; show N.length - 1 + 1 = _; omega,
    by rw [← hinfo], hinv.chain.last, hinv.orig, by rw [← hst2]; omega, hlen.symm, hp, ?_⟩
  -- well-formedness
  rw [← hm']
  obtain ⟨F1, F2, F3, F0, F4⟩ := bufs_facts m.buffers wT.buffer (.inr p) (.inr p) (.inl env.axesTok)
    (.inl env.shape1Tok) (.inl env.shape2Tok) hwc hb0
  rw [modelOK_iff]
  refine ⟨F0, ?_, ?_⟩
  · intro x hx
    rcases List.mem_or_eq_of_mem_set hx with hx | rfl
    · exact SgOK_grow m _ x (by show _ ≤ List.length _; rw [F4]; omega) F1 (by simp) (hsgs x hx)
    · -- the rewritten subgraph
      have hfcOK : OpOK m sg pre.length fc := hok.ops _ _ (by rw [hlen]; exact hfc)
      have hbufAt : ∀ i : Nat, (st2.sg.tensors.map (·.buffer))[i]? =
          if i < sg.tensors.length then (sg.tensors.map (·.buffer))[i]?
          else if i < sg.tensors.length + 4 then some (m.buffers.length + (i - sg.tensors.length))
          else if i < sg.tensors.length + 4 + j then some 0 else none := by
        intro i
        rw [htb]
        by_cases h1 : i < sg.tensors.length
        · rw [if_pos h1, List.getElem?_append_left (by simp; omega), List.getElem?_append_left (by simpa using h1)]
        · rw [if_neg h1]
          by_cases h2 : i < sg.tensors.length + 4
          · rw [if_pos h2, List.getElem?_append_left (by simp; omega), List.getElem?_append_right (by simp; omega)]
            simp only [List.length_map]
            obtain ⟨d, hd⟩ : ∃ d, i = sg.tensors.length + d := ⟨i - sg.tensors.length, by omega⟩
            subst hd
            simp only [Nat.add_sub_cancel_left]
            match d, h2 with
            | 0, _ => rfl
            | 1, _ => rfl
            | 2, _ => rfl
            | 3, _ => rfl
            | d + 4, h2 => omega
          · rw [if_neg h2, List.getElem?_append_right (by simp; omega), List.getElem?_replicate]
            simp only [List.length_append, List.length_map, List.length_cons, List.length_nil]
            by_cases h3 : i < sg.tensors.length + 4 + j
            · rw [if_pos h3, if_pos (by omega)]
            · rw [if_neg h3, if_neg (by omega)]
      refine splice_ok m _ sg _ pre post N fc y (Avl fc inp sg.tensors.length)
        (sg.tensors.length + 4) hok hsplit hy1 hy2 rfl rfl rfl (by show _ ≤ st2.sg.tensors.length; omega) (by omega)
        hinv.nodup ?_ ?_ (by simp) ?_ hinv.chain ?_ ?_
      · -- buffer indices in range
        intro tn htn
        show tn.buffer < List.length _
        rw [F4]
        have hmem : tn.buffer ∈ st2.sg.tensors.map (·.buffer) := List.mem_map.2 ⟨tn, htn, rfl⟩
        rw [htb, List.mem_append, List.mem_append] at hmem
        rcases hmem with (hmem | hmem) | hmem
        · obtain ⟨t0, g1, g2⟩ := List.mem_map.1 hmem
          have := hok.bufr t0 g1
          omega
        · simp at hmem; omega
        · have := (List.mem_replicate.1 hmem).2
          omega
      · -- old tensors keep their constness
        intro t ht
        unfold ValidT at ht
        obtain ⟨tn, htn⟩ : ∃ tn, sg.tensors[t.toNat]? = some tn :=
          ⟨sg.tensors[t.toNat]'(by omega), List.getElem?_eq_getElem (by omega)⟩
        rw [isConst_via _ _ t tn.buffer ht.1 (by
            show (st2.sg.tensors.map (·.buffer))[t.toNat]? = _
            rw [hbufAt, if_pos (by omega), List.getElem?_map, htn]; rfl),
          isConst_of_get m sg t tn ht.1 htn]
        exact F1 _ (hok.bufr tn (List.mem_of_getElem? htn))
      · -- operator codes of the chain
        intro o ho
        show o.code < (m.opcodes ++ (cext0 ++ cext1)).length
        have := hinv.codes o ho
        rw [hcext1, hcext0] at this
        simpa [List.append_assoc] using this
      · -- the operands the chain reads
        intro t ht
        rcases ht with ⟨h1, h2⟩ | rfl | ⟨i, hi, rfl⟩
        · rcases hfcOK.ins t h1 with h3 | h3
          · exact absurd h3 h2
          · exact .inl h3
        · right
          have hvt : ValidT sg inp.tensor := hv
          refine ⟨⟨hv.1, by have := hv.2; show inp.tensor < (st2.sg.tensors.length : Int); omega⟩, ?_⟩
          rw [isConst_via _ _ inp.tensor wT.buffer hv.1 (by
              show (st2.sg.tensors.map (·.buffer))[inp.tensor.toNat]? = _
              rw [hbufAt, if_pos (by omega), List.getElem?_map, hw]; rfl)]
          show constAt (m.buffers.set wT.buffer _ ++ _) wT.buffer = true
          rw [F1 _ (hok.bufr wT (List.mem_of_getElem? hw))]
          exact hwc
        · right
          refine ⟨⟨by omega, by show ((sg.tensors.length + i : Nat) : Int) < (st2.sg.tensors.length : Int); omega⟩, ?_⟩
          rw [isConst_via _ _ _ (m.buffers.length + i) (by omega) (by
              show (st2.sg.tensors.map (·.buffer))[((sg.tensors.length + i : Nat) : Int).toNat]? = _
              rw [Int.toNat_natCast, hbufAt, if_neg (by omega), if_pos (by omega)]
              simp)]
          exact F2 i hi
      · -- the new activation tensors are not constants
        intro f hf1 hf2
        rw [isConst_via _ _ _ 0 (by omega) (by
            show (st2.sg.tensors.map (·.buffer))[((f : Nat) : Int).toNat]? = _
            have hf2' : f < st2.sg.tensors.length := hf2
            rw [Int.toNat_natCast, hbufAt, if_neg (by omega), if_neg (by omega), if_pos (by omega)])]
        exact F3
  · intro s hs
    exact sigOK_set m _ sgi sg _ s hsg rfl (by show _ ≤ st2.sg.tensors.length; omega) (hsigs s hs)

end EmuWF
