import QProofs.BlockwiseLaws
/-!
# When the BLOCKWISE functions succeed

* `run_ok`, `run_of_quantize`: `Blockwise.run` is `minMax`, `params`, `quantize` together;
* `run_err`: a block size that is 0 or does not divide the row length is `ValueError`;
* `channelwise_total`, `quantize_total`: on finite data (float32 / float64 / ideal arithmetic, magnitudes ≤ 2^63, 2..16 bits)
  nothing else can fail.
-/
open Num Nd Arith MatParams Blockwise

set_option autoImplicit false

namespace BlockwiseL

open GraphInv (bind_ok)

theorem run_ok (w : FArr) (bs bits : Nat) (sym : Bool) (mn mx : FArr) (qp : QParams) (q : IArr)
    (h : run w bs bits sym = .ok (mn, mx, qp, q)) :
    minMax w bs = .ok (mn, mx) ∧ params w bs bits sym = .ok qp ∧ quantize w bs bits sym = .ok q := by
  unfold run at h
  obtain ⟨mm, hmm, h⟩ := bind_ok _ _ _ h
  obtain ⟨qp0, hqp, h⟩ := bind_ok _ _ _ h
  obtain ⟨q0, hq, h⟩ := bind_ok _ _ _ h
  simp only [pure, Except.pure, Except.ok.injEq, Prod.mk.injEq] at h
  obtain ⟨h1, h2, rfl, rfl⟩ := h
  have hmm' : minMax w bs = .ok (mn, mx) := by rw [hmm, ← h1, ← h2]
  have hp : params w bs bits sym = .ok qp0 := by
    unfold params
    simp only [hmm, hqp, bind, Except.bind]
  refine ⟨hmm', hp, ?_⟩
  unfold quantize
  simp only [hp, hq, bind, Except.bind]

theorem run_of_quantize (w : FArr) (bs bits : Nat) (sym : Bool) (q : IArr) (h : quantize w bs bits sym = .ok q) :
    ∃ mn mx qp, run w bs bits sym = .ok (mn, mx, qp, q) := by
  unfold quantize at h
  obtain ⟨qp, hp, hq⟩ := bind_ok _ _ _ h
  unfold params at hp
  obtain ⟨mm, hmm, hqp⟩ := bind_ok _ _ _ hp
  refine ⟨mm.1, mm.2, qp, ?_⟩
  unfold run
  simp only [hmm, hqp, hq, bind, Except.bind, pure, Except.pure]

/-- a block size that is 0 or does not divide the row length: `ValueError`, from every entry point -/
theorem run_err (o f bs bits : Nat) (sym : Bool) (d : List Rat) (pr : Prec) (hb : ¬ (0 < bs ∧ bs ∣ f)) :
    minMax ⟨⟨[o, f], d⟩, pr⟩ bs = .error .valueError ∧ params ⟨⟨[o, f], d⟩, pr⟩ bs bits sym = .error .valueError ∧
    quantize ⟨⟨[o, f], d⟩, pr⟩ bs bits sym = .error .valueError ∧ run ⟨⟨[o, f], d⟩, pr⟩ bs bits sym = .error .valueError := by
  have h1 : minMax ⟨⟨[o, f], d⟩, pr⟩ bs = .error .valueError := by
    unfold minMax
    simp only [reshaped_err o f bs d hb, bind, Except.bind]
  have h2 : params ⟨⟨[o, f], d⟩, pr⟩ bs bits sym = .error .valueError := by
    unfold params
    simp only [h1, bind, Except.bind]
  refine ⟨h1, h2, ?_, ?_⟩
  · unfold quantize
    simp only [h2, bind, Except.bind]
  · unfold run
    simp only [h1, bind, Except.bind]

/-- a tensor that is not 2-D: `ValueError` (`np.transpose(w, (1, 0))`) -/
theorem run_err_rank (w : FArr) (bs bits : Nat) (sym : Bool) (h : w.arr.shape.length ≠ 2) :
    run w bs bits sym = .error .valueError := by
  have hr : reshaped w.arr bs = .error .valueError := by
    unfold reshaped
    split
    · rename_i o f he
      rw [he] at h
      exact absurd rfl h
    · rfl
  unfold run minMax
  simp only [hr, bind, Except.bind]

/-- **the ordinary per-channel quantization is total on finite data** -/
theorem channelwise_total (o f bits : Nat) (sym : Bool) (d : List Rat) (hd : d.length = o * f) (pr : Prec)
    (ho : 0 < o) (hf : 0 < f) (hpr : NumT.F3264 pr) (hbd : ∀ v ∈ d, |v| ≤ NumT.B) (hb2 : 2 ≤ bits) (hb16 : bits ≤ 16) :
    ∃ r, channelwise ⟨⟨[o, f], d⟩, pr⟩ bits sym = .ok r := by
  have hne : (⟨[o, f], d⟩ : Arr Rat).data ≠ [] := by
    intro h0
    have h0' : d = [] := h0
    rw [h0'] at hd
    have := Nat.mul_pos ho hf
    simp at hd
    omega
  obtain ⟨mn, hmn⟩ := reduceKeep_of minR ⟨[o, f], d⟩ (some [1]) hne
  obtain ⟨mx, hmx⟩ := reduceKeep_of maxR ⟨[o, f], d⟩ (some [1]) hne
  obtain ⟨_, _, s1, l1, c1⟩ := row_stats minR _ sel_min o f d hd mn hmn
  obtain ⟨_, _, s2, l2, c2⟩ := row_stats maxR _ sel_max o f d hd mx hmx
  have bnd : ∀ (r : Arr Rat) (R : Rat → Rat → Prop), r.data.length = o →
      (∀ c < o, IsSel R (el d f c) f (r.data.getD c 0)) → ∀ v ∈ r.data, |v| ≤ NumT.B := by
    intro r R hl hc v hv
    obtain ⟨j, hj, rfl⟩ := List.getElem_of_mem hv
    have hg : r.data.getD j 0 = r.data[j] := by
      rw [List.getD_eq_getElem?_getD, List.getElem?_eq_getElem hj, Option.getD_some]
    obtain ⟨k, _, e⟩ := (hc j (by omega)).mem
    rw [← hg, e]
    exact NumT.getD_bounded d _ hbd
  have S : NumT.StatFin ⟨mn, pr⟩ ⟨mx, pr⟩ := ⟨hpr, hpr, s1.trans s2.symm, bnd mn _ l1 c1, bnd mx _ l2 c2⟩
  obtain ⟨zs, hzs⟩ := NumT.zpScale_total bits hb2 hb16 sym _ _ S
  obtain ⟨zp, scale⟩ := zs
  obtain ⟨G, hsh, _⟩ := NumT.zpScale_good bits hb2 hb16 sym _ _ S (some 0) zp scale hzs
  have hsh' : scale.arr.shape = [o, 1] := hsh.trans s1
  have G' : NumT.QPGood ((2:Rat)^(-60:Int))
      { bits := bits, qdim := some 0, scale := scale, zp := zp, symmetric := sym } :=
    ⟨G.pr, G.shape, G.slen, G.zlen, fun s hs => le_trans NumT.sLo_ge60 (G.lo s hs), G.zp⟩
  obtain ⟨q, hq⟩ := NumT.uniformQuantize_total ⟨⟨[o, f], d⟩, pr⟩ _ hpr hbd G'
    (by show NumT.Compat scale.arr.shape [o, f]; rw [hsh']; exact compat_row o f)
  rw [channelwise_eq]
  simp only [hmn, hmx, hzs, hq, bind, Except.bind, pure, Except.pure]
  exact ⟨_, rfl⟩

/-- **BLOCKWISE is total on finite data** whenever the block size is a positive divisor of the row length -/
theorem quantize_total (o f bs bits : Nat) (sym : Bool) (d : List Rat) (hd : d.length = o * f) (pr : Prec)
    (ho : 0 < o) (hf : 0 < f) (hpr : NumT.F3264 pr) (hbd : ∀ v ∈ d, |v| ≤ NumT.B) (hb2 : 2 ≤ bits) (hb16 : bits ≤ 16)
    (hb : 0 < bs) (hdvd : bs ∣ f) : ∃ q, quantize ⟨⟨[o, f], d⟩, pr⟩ bs bits sym = .ok q :=
  (quantize_ok_iff o f bs bits sym d hd pr).2
    ⟨hb, hdvd, channelwise_total o f bits sym d hd pr ho hf hpr hbd hb2 hb16⟩

end BlockwiseL
