import QProofs.PipeWrapper
import QProofs.PipeStdShape
import QProofs.PipeNF
import Mathlib.Data.List.Basic
/-!
# The request list of one operator has the closed shape `OpReqs`

`noQuantOp`, `standardOp`, `fixedRangeOp`, `biasFor`, `floatCastOp`, and the dispatch `materializeOp`.
-/
open Graph Mat Cfg Pipeline InstGen GenInstsOK GraphStep GraphInv PipeNF

namespace Pipe

/-! ## helpers -/

/-- slots of an operator are `-1` or valid tensor indices -/
def SlotsValid (sg : Subgraph) (l : List Int) : Prop := ∀ a ∈ l, a = -1 ∨ ValidT sg a

theorem tensorAt_valid (sg : Subgraph) (a : Int) (t : Tensor) (hv : ValidT sg a) (h : tensorAt sg a = .ok t) :
    sg.tensors[a.toNat]? = some t ∧ ((a.toNat : Nat) : Int) = a :=
  ⟨tensorAt_get sg a t hv.1 h, Int.toNat_of_nonneg hv.1⟩

theorem name_inj (sg : Subgraph) (hn : (sg.tensors.map (·.name)).Nodup) (i j : Nat) (t t' : Tensor)
    (hi : sg.tensors[i]? = some t) (hj : sg.tensors[j]? = some t') (h : t.name = t'.name) : i = j := by
  obtain ⟨hi1, hi2⟩ := List.getElem?_eq_some_iff.1 hi
  obtain ⟨hj1, hj2⟩ := List.getElem?_eq_some_iff.1 hj
  have h1 : (sg.tensors.map (·.name))[i]'(by simpa using hi1) = t.name := by simp [hi2]
  have h2 : (sg.tensors.map (·.name))[j]'(by simpa using hj1) = t'.name := by simp [hj2]
  exact (List.Nodup.getElem_inj_iff hn).1 (h1.trans (h.trans h2.symm))

theorem mem_cslots (l : List Int) (p : Int × Nat) : p ∈ cslots l ↔ l[p.2]? = some p.1 ∧ p.1 ≠ -1 := by
  unfold cslots
  rw [List.mem_filter, List.mem_zipIdx_iff_getElem?]
  simp

theorem consShape_noQuant (m : Model) (sg : Subgraph) (i : Nat) (opId : Int) :
    ConsShape m sg i ⟨opId, [.noQuant], none⟩ :=
  ⟨⟨.noQuant, rfl, by decide, by rintro (h | h) <;> cases h⟩, by intro p h; cases h⟩

theorem prodShape_noQuant (m : Model) (sg : Subgraph) (i : Nat) (opId : Int) :
    ProdShape m sg i ⟨opId, [.noQuant], none⟩ :=
  ⟨.inl rfl, by intro p h; cases h⟩

/-- a consumer request made by `wrapper` -/
theorem wrapper_cons (env : Env) (sg : Subgraph) (qs : Qsvs) (oi : OpInfo) (i : Nat) (t : Tensor)
    (g : Option Param) (r : CReq) (ht : sg.tensors[i]? = some t) (hnb : NoBlockwise oi.cfg)
    (hg : ∀ p, g = some p → hasData p = false) (h : wrapper env qs oi t true g = .ok r) :
    r.name = t.name ∧ r.producer = none ∧
      ∃ c, r.consumers = some [c] ∧ c.opId = oi.opId ∧ ConsShape env.model sg i c := by
  obtain ⟨xfs, p, hx, hr, hd⟩ := wrapper_spec env qs oi t true g r h
    (fun p hp hdat => by rw [hg p hp] at hdat; cases hdat)
  obtain ⟨x, hxs, hne, hq, -⟩ := tensorXfs_spec _ _ _ _ hnb hx
  subst hr
  refine ⟨rfl, rfl, _, rfl, rfl, ⟨x, hxs, hne, ?_⟩, ?_⟩
  · intro hx'
    rw [← constData_isSome env sg i t ht]
    exact hq rfl hx'
  · intro q hq' hdq
    rw [← constData_isSome env sg i t ht]
    exact hd q hq' hdq

/-- a producer request made by `wrapper` -/
theorem wrapper_prod (env : Env) (sg : Subgraph) (qs : Qsvs) (oi : OpInfo) (i : Nat) (t : Tensor)
    (g : Option Param) (r : CReq) (ht : sg.tensors[i]? = some t) (hnb : NoBlockwise oi.cfg)
    (hg : ∀ p, g = some p → hasData p = false) (h : wrapper env qs oi t false g = .ok r) :
    r.name = t.name ∧ r.consumers = none ∧
      ∃ p, r.producer = some p ∧ p.opId = oi.opId ∧ ProdShape env.model sg i p := by
  obtain ⟨xfs, p, hx, hr, hd⟩ := wrapper_spec env qs oi t false g r h
    (fun p hp hdat => by rw [hg p hp] at hdat; cases hdat)
  obtain ⟨x, hxs, hne, -, hq⟩ := tensorXfs_spec _ _ _ _ hnb hx
  subst hr
  refine ⟨rfl, rfl, _, rfl, rfl, ?_, ?_⟩
  · rcases hq rfl with h | h <;> subst h
    · exact .inl hxs
    · exact .inr hxs
  · intro q hq' hdq
    rw [← constData_isSome env sg i t ht]
    exact hd q hq' hdq

/-- the parameter of a request made by `wrapper` for a non-constant tensor carries no data -/
theorem wrapper_param_nodata (env : Env) (sg : Subgraph) (qs : Qsvs) (oi : OpInfo) (i : Nat) (t : Tensor)
    (inbound : Bool) (r : CReq) (ht : sg.tensors[i]? = some t) (hnc : isConst env.model sg (i : Int) = false)
    (h : wrapper env qs oi t inbound none = .ok r) :
    (∀ pr q, r.producer = some pr → pr.param = some q → hasData q = false) ∧
    (∀ cs c q, r.consumers = some cs → c ∈ cs → c.param = some q → hasData q = false) := by
  obtain ⟨xfs, p, hx, hr, hd⟩ := wrapper_spec env qs oi t inbound none r h (fun p hp => by cases hp)
  rw [constData_isSome env sg i t ht, hnc] at hd
  have hp : ∀ q, p = some q → hasData q = false := by
    intro q hq
    cases hdq : hasData q with
    | false => rfl
    | true => exact absurd (hd q hq hdq) (by simp)
  subst hr
  cases inbound
  · refine ⟨?_, ?_⟩
    · intro pr q h1 h2
      simp only [Bool.false_eq_true, if_false, Option.some.injEq] at h1
      subst h1
      exact hp q h2
    · intro cs c q h1
      simp at h1
  · refine ⟨?_, ?_⟩
    · intro pr q h1
      simp at h1
    · intro cs c q h1 h2 h3
      simp only [if_true, Option.some.injEq] at h1
      subst h1
      rw [List.mem_singleton] at h2
      subst h2
      exact hp q h3

/-! ## `noQuantOp` -/

theorem noQuantOp_reqs (m : Model) (sg : Subgraph) (op : Op) (opId : Int) (rs : List CReq)
    (hin : SlotsValid sg op.inputs) (hout : SlotsValid sg op.outputs)
    (h : noQuantOp sg op opId = .ok rs) : OpReqs m sg op opId rs := by
  unfold noQuantOp at h
  obtain ⟨ins, hins, h⟩ := bind_ok _ _ _ h
  obtain ⟨outs, houts, h⟩ := bind_ok _ _ _ h
  simp only [pure, Except.pure, Except.ok.injEq] at h
  subst h
  have hI : ∀ r ∈ ins, ∃ (i : Nat) (t : Tensor), sg.tensors[i]? = some t ∧ (i : Int) ∈ op.inputs ∧
      r = noQuantReq t.name opId true := by
    intro r hr
    obtain ⟨a, ha, hf⟩ := GraphFrame.mapM_ok _ _ _ hins r hr
    obtain ⟨ha1, ha2⟩ := List.mem_filter.1 ha
    obtain ⟨t, ht, hf⟩ := bind_ok _ _ _ hf
    simp only [pure, Except.pure, Except.ok.injEq] at hf
    have hv : ValidT sg a := by
      rcases hin a ha1 with h | h
      · simp [h] at ha2
      · exact h
    obtain ⟨h1, h2⟩ := tensorAt_valid sg a t hv ht
    exact ⟨a.toNat, t, h1, h2 ▸ ha1, hf.symm⟩
  have hO : ∀ r ∈ outs, ∃ (i : Nat) (t : Tensor), sg.tensors[i]? = some t ∧ (i : Int) ∈ op.outputs ∧
      r = noQuantReq t.name opId false := by
    intro r hr
    obtain ⟨a, ha, hf⟩ := GraphFrame.mapM_ok _ _ _ houts r hr
    obtain ⟨ha1, ha2⟩ := List.mem_filter.1 ha
    obtain ⟨t, ht, hf⟩ := bind_ok _ _ _ hf
    simp only [pure, Except.pure, Except.ok.injEq] at hf
    have hv : ValidT sg a := by
      rcases hout a ha1 with h | h
      · simp [h] at ha2
      · exact h
    obtain ⟨h1, h2⟩ := tensorAt_valid sg a t hv ht
    exact ⟨a.toNat, t, h1, h2 ▸ ha1, hf.symm⟩
  refine ⟨?_, ?_⟩
  · intro r hr
    rcases List.mem_append.1 hr with hr | hr
    · obtain ⟨i, t, ht, hi, rfl⟩ := hI r hr
      exact ⟨i, t, ht, rfl, .inl ⟨rfl, _, rfl, rfl, hi, consShape_noQuant m sg i opId⟩⟩
    · obtain ⟨i, t, ht, hi, rfl⟩ := hO r hr
      exact ⟨i, t, ht, rfl, .inr ⟨rfl, _, rfl, rfl, hi, prodShape_noQuant m sg i opId⟩⟩
  · have hc : ∀ r ∈ ins ++ outs, ∀ c, r.consumers = some [c] → c = ⟨opId, [.noQuant], none⟩ := by
      intro r hr c hc
      rcases List.mem_append.1 hr with hr | hr
      · obtain ⟨i, t, ht, hi, rfl⟩ := hI r hr
        simp only [noQuantReq_cons, Option.some.injEq, List.cons.injEq, and_true] at hc
        exact hc.symm
      · obtain ⟨i, t, ht, hi, rfl⟩ := hO r hr
        simp [noQuantReq_prod] at hc
    intro r hr r' hr' _ c c' h1 h2
    rw [hc r hr c h1, hc r' hr' c' h2]
    exact ⟨rfl, rfl⟩

/-! ## `standardOp` -/

theorem reqParam0_mem (r : CReq) (g : Option Param) (h : reqParam0 r = .ok g) :
    ∃ cs c, r.consumers = some cs ∧ c ∈ cs ∧ g = c.param := by
  unfold reqParam0 at h
  split at h
  · rename_i c rest hc
    simp only [Except.ok.injEq] at h
    exact ⟨_, c, hc, List.mem_cons_self, h.symm⟩
  · cases h

/-- facts about the request of one non-`-1` slot -/
theorem slotReq_facts (env : Env) (sg : Subgraph) (qsvs : Qsvs) (oi : OpInfo) (inbound : Bool)
    (slots : List Int) (ign : List Nat) (g : Option Param) (p : Int × Nat) (r : CReq)
    (hv : SlotsValid sg slots) (hp : p ∈ cslots slots) (h : SlotReq env sg qsvs oi inbound ign g p r) :
    ∃ (i : Nat) (t : Tensor), sg.tensors[i]? = some t ∧ (i : Int) = p.1 ∧ (i : Int) ∈ slots ∧
      tensorAt sg p.1 = .ok t ∧
      ((ign.contains p.2 = true ∧ r = noQuantReq t.name oi.opId inbound) ∨
       (ign.contains p.2 = false ∧ wrapper env qsvs oi t inbound g = .ok r)) := by
  obtain ⟨hp1, hp2⟩ := (mem_cslots _ _).1 hp
  have hmem : p.1 ∈ slots := List.mem_of_getElem? hp1
  have hval : ValidT sg p.1 := by
    rcases hv _ hmem with h | h
    · exact absurd h hp2
    · exact h
  obtain ⟨t, ht, hr⟩ := h
  obtain ⟨h1, h2⟩ := tensorAt_valid sg p.1 t hval ht
  refine ⟨p.1.toNat, t, h1, h2, h2 ▸ hmem, ht, ?_⟩
  by_cases hc : ign.contains p.2 = true
  · rw [if_pos hc] at hr; exact .inl ⟨hc, hr⟩
  · rw [if_neg hc] at hr
    simp only [Bool.not_eq_true] at hc
    exact .inr ⟨hc, hr⟩

theorem pointwise_mem {α β} {R : α → β → Prop} {l1 : List α} {l2 : List β} (h : Pointwise R l1 l2)
    (b : β) (hb : b ∈ l2) : ∃ (j : Nat) (a : α), l1[j]? = some a ∧ l2[j]? = some b ∧ R a b := by
  obtain ⟨j, hj⟩ := List.mem_iff_getElem?.1 hb
  have hlt : j < l1.length := by
    rw [h.1]; exact (List.getElem?_eq_some_iff.1 hj).1
  exact ⟨j, l1[j], List.getElem?_eq_getElem hlt, hj, h.2 j _ _ (List.getElem?_eq_getElem hlt) hj⟩

/-- **`standardOp`**: closed shape of the request list, plus the positional facts needed by
    `biasFor` (operand requests come first, in slot order) -/
theorem standardOp_opReqs (env : Env) (sg : Subgraph) (qsvs : Qsvs) (oi : OpInfo) (con : Constraint)
    (gIn gOut : List Nat) (rs : List CReq) (qs' : Qsvs)
    (hnames : (sg.tensors.map (·.name)).Nodup)
    (hin : SlotsValid sg oi.op.inputs) (hout : SlotsValid sg oi.op.outputs)
    (hnb : NoBlockwise oi.cfg)
    (houtNC : ∀ a ∈ oi.op.outputs, a ≠ -1 → isConst env.model sg a = false)
    (hrole : ∀ (i j : Nat) a, oi.op.inputs[i]? = some a → oi.op.inputs[j]? = some a → a ≠ -1 →
      (i ∈ gIn ↔ j ∈ gIn))
    (h : standardOp env sg qsvs oi con gIn gOut = .ok (rs, qs')) :
    OpReqs env.model sg oi.op oi.opId rs ∧
    ∃ rin rout, rs = rin ++ rout ∧
      Pointwise (fun (p : Int × Nat) r => ∃ t, tensorAt sg p.1 = .ok t ∧ r.name = t.name)
        (cslots oi.op.inputs) rin ∧
      (∀ r ∈ rout, r.consumers = none) := by
  obtain ⟨inIgn, outIgn, rin, rout, g, gO, hI, hO, rfl, hPin, hPout, hg, hgO⟩ :=
    standardOp_shape env sg qsvs oi con gIn gOut rs qs' h
  -- the handed-over parameters carry no data
  have hgd : ∀ q, g = some q → hasData q = false := by
    rcases hg with rfl | ⟨_, p, hp, t, orq, hign, ht, hw, rfl⟩
    · intro q hq; cases hq
    · obtain ⟨hp1, hp2⟩ := (mem_cslots _ _).1 hp
      have hmem : p.1 ∈ oi.op.outputs := List.mem_of_getElem? hp1
      have hval : ValidT sg p.1 := by
        rcases hout _ hmem with h | h
        · exact absurd h hp2
        · exact h
      obtain ⟨h1, h2⟩ := tensorAt_valid sg p.1 t hval ht
      have hnc := houtNC p.1 hmem hp2
      rw [← h2] at hnc
      have := (wrapper_param_nodata env sg qsvs oi _ t false orq h1 hnc hw).1
      intro q hq
      cases hpr : orq.producer with
      | none => rw [hpr] at hq; cases hq
      | some pr => rw [hpr] at hq; exact this pr q hpr hq
  have hgOd : ∀ q, gO = some q → hasData q = false := by
    rcases hgO with rfl | ⟨_, p, _, t, ir, p0, _, _, hw, hpar, rfl⟩
    · intro q hq; cases hq
    · -- the operand's parameters are uniform (or absent), and `standardOp` strips their data; this
      -- holds whether or not the operand is a constant
      obtain ⟨cs, c, hcs, hc, rfl⟩ := reqParam0_mem ir p0 hpar
      exact stripData_nodata _ (fun q hq => (wrapper_none_uniform env qsvs oi t true ir hw).2 cs c q hcs hc hq)
  -- result requests
  have hOut : ∀ r ∈ rout, ∃ (i : Nat) (t : Tensor), sg.tensors[i]? = some t ∧ r.name = t.name ∧
      r.consumers = none ∧ ∃ p, r.producer = some p ∧ p.opId = oi.opId ∧ (i : Int) ∈ oi.op.outputs ∧
        ProdShape env.model sg i p := by
    intro r hr
    obtain ⟨j, p, hp, hrj, hS⟩ := pointwise_mem hPout r hr
    obtain ⟨i, t, ht, hip, him, _, hcase⟩ := slotReq_facts env sg qsvs oi false _ _ _ p r hout
      (List.mem_of_getElem? hp) hS
    rcases hcase with ⟨_, rfl⟩ | ⟨_, hw⟩
    · exact ⟨i, t, ht, rfl, rfl, _, rfl, rfl, him, prodShape_noQuant _ sg i _⟩
    · obtain ⟨h1, h2, q, h3, h4, h5⟩ := wrapper_prod env sg qsvs oi i t gO r ht hnb hgOd hw
      exact ⟨i, t, ht, h1, h2, q, h3, h4, him, h5⟩
  -- operand requests
  have hIn : ∀ (j : Nat) (p : Int × Nat) r, (cslots oi.op.inputs)[j]? = some p → rin[j]? = some r →
      ∃ (i : Nat) (t : Tensor), sg.tensors[i]? = some t ∧ (i : Int) = p.1 ∧ tensorAt sg p.1 = .ok t ∧
        r.name = t.name ∧ r.producer = none ∧
        (∃ c, r.consumers = some [c] ∧ c.opId = oi.opId ∧ (i : Int) ∈ oi.op.inputs ∧
          ConsShape env.model sg i c) ∧
        ((inIgn.contains p.2 = true ∧ r = noQuantReq t.name oi.opId true) ∨
         (inIgn.contains p.2 = false ∧ wrapper env qsvs oi t true g = .ok r)) := by
    intro j p r hp hrj
    have hS := hPin.2 j p r hp hrj
    obtain ⟨i, t, ht, hip, him, hta, hcase⟩ := slotReq_facts env sg qsvs oi true _ _ _ p r hin
      (List.mem_of_getElem? hp) hS
    rcases hcase with ⟨hc, rfl⟩ | ⟨hc, hw⟩
    · exact ⟨i, t, ht, hip, hta, rfl, rfl, ⟨_, rfl, rfl, him, consShape_noQuant _ sg i _⟩, .inl ⟨hc, rfl⟩⟩
    · obtain ⟨h1, h2, c, h3, h4, h5⟩ := wrapper_cons env sg qsvs oi i t g r ht hnb hgd hw
      exact ⟨i, t, ht, hip, hta, h1, h2, ⟨c, h3, h4, him, h5⟩, .inr ⟨hc, hw⟩⟩
  have hInMem : ∀ r ∈ rin, ∃ (j : Nat) (p : Int × Nat), (cslots oi.op.inputs)[j]? = some p ∧ rin[j]? = some r := by
    intro r hr
    obtain ⟨j, p, hp, hrj, _⟩ := pointwise_mem hPin r hr
    exact ⟨j, p, hp, hrj⟩
  refine ⟨⟨?_, ?_⟩, rin, rout, rfl, ⟨hPin.1, ?_⟩, fun r hr => (hOut r hr).choose_spec.choose_spec.2.2.1⟩
  · -- each
    intro r hr
    rcases List.mem_append.1 hr with hr | hr
    · obtain ⟨j, p, hp, hrj⟩ := hInMem r hr
      obtain ⟨i, t, ht, -, -, hn, hpn, hc, -⟩ := hIn j p r hp hrj
      exact ⟨i, t, ht, hn, .inl ⟨hpn, hc⟩⟩
    · obtain ⟨i, t, ht, hn, hcn, hp⟩ := hOut r hr
      exact ⟨i, t, ht, hn, .inr ⟨hcn, hp⟩⟩
  · -- coherent
    intro r hr r' hr' hname c c' hc hc'
    have hrin : r ∈ rin := by
      rcases List.mem_append.1 hr with h | h
      · exact h
      · obtain ⟨_, _, _, _, hcn, _⟩ := hOut r h
        rw [hcn] at hc; cases hc
    have hrin' : r' ∈ rin := by
      rcases List.mem_append.1 hr' with h | h
      · exact h
      · obtain ⟨_, _, _, _, hcn, _⟩ := hOut r' h
        rw [hcn] at hc'; cases hc'
    obtain ⟨j, p, hp, hrj⟩ := hInMem r hrin
    obtain ⟨j', p', hp', hrj'⟩ := hInMem r' hrin'
    obtain ⟨i, t, ht, hip, hta, hn, -, -, hcase⟩ := hIn j p r hp hrj
    obtain ⟨i', t', ht', hip', hta', hn', -, -, hcase'⟩ := hIn j' p' r' hp' hrj'
    have hii : i = i' := name_inj sg hnames i i' t t' ht ht' (by rw [← hn, ← hn', hname])
    subst hii
    have htt : t = t' := by rw [ht] at ht'; cases ht'; rfl
    subst htt
    obtain ⟨hp1, hp2⟩ := (mem_cslots _ _).1 (List.mem_of_getElem? hp)
    obtain ⟨hp1', hp2'⟩ := (mem_cslots _ _).1 (List.mem_of_getElem? hp')
    have hpp : p'.1 = p.1 := by rw [← hip, ← hip']
    rw [hpp] at hp1' hta'
    have hgiff := hrole p.2 p'.2 p.1 hp1 hp1' hp2
    have higniff : inIgn.contains p.2 = true ↔ inIgn.contains p'.2 = true := by
      rw [hI p.2 p.1 t hp1 hta, hI p'.2 p.1 t hp1' hta, hgiff]
    have hrr : r = r' := by
      rcases hcase with ⟨h1, h2⟩ | ⟨h1, h2⟩
      · rcases hcase' with ⟨h1', h2'⟩ | ⟨h1', h2'⟩
        · rw [h2, h2']
        · rw [higniff.1 h1] at h1'; cases h1'
      · rcases hcase' with ⟨h1', h2'⟩ | ⟨h1', h2'⟩
        · rw [higniff.2 h1'] at h1; cases h1
        · rw [h2] at h2'; cases h2'; rfl
    subst hrr
    rw [hc] at hc'
    cases hc'
    exact ⟨rfl, rfl⟩
  · -- positional names
    intro j p r hp hrj
    obtain ⟨i, t, _, _, hta, hn, _⟩ := hIn j p r hp hrj
    exact ⟨t, hta, hn⟩

/-! ## `fixedRangeOp` -/

/-- overriding the parameter of the last (producer) request by a data-free one keeps the shape -/
theorem opReqs_setLast (m : Model) (sg : Subgraph) (op : Op) (opId : Int) (reqs : List CReq) (last : CReq)
    (pr : CO2T) (q : Param) (hq : hasData q = false)
    (h : OpReqs m sg op opId reqs) (hlast : reqs.getLast? = some last) (hpr : last.producer = some pr) :
    OpReqs m sg op opId (reqs.dropLast ++ [{ last with producer := some { pr with param := some q } }]) := by
  have hsplit : reqs.dropLast ++ [last] = reqs := List.dropLast_append_getLast? last (by rw [hlast]; rfl)
  have hlm : last ∈ reqs := by rw [← hsplit]; simp
  have hdl : ∀ r ∈ reqs.dropLast, r ∈ reqs := fun r hr => by rw [← hsplit]; exact List.mem_append_left _ hr
  have horig : ∀ r ∈ reqs.dropLast ++ [{ last with producer := some { pr with param := some q } }],
      ∃ r0 ∈ reqs, r0.name = r.name ∧ r0.consumers = r.consumers := by
    intro r hr
    rcases List.mem_append.1 hr with hr | hr
    · exact ⟨r, hdl r hr, rfl, rfl⟩
    · rw [List.mem_singleton] at hr; subst hr
      exact ⟨last, hlm, rfl, rfl⟩
  refine ⟨?_, ?_⟩
  · intro r hr
    rcases List.mem_append.1 hr with hr | hr
    · exact h.each r (hdl r hr)
    · rw [List.mem_singleton] at hr; subst hr
      obtain ⟨i, t, ht, hn, hcase⟩ := h.each last hlm
      refine ⟨i, t, ht, hn, ?_⟩
      rcases hcase with ⟨hpn, _⟩ | ⟨hcn, p, hp, hid, him, hps⟩
      · rw [hpn] at hpr; cases hpr
      · rw [hpr] at hp; cases hp
        refine .inr ⟨hcn, _, rfl, hid, him, hps.xf, ?_⟩
        intro q' hq' hd
        simp only [Option.some.injEq] at hq'
        subst hq'
        rw [hq] at hd; cases hd
  · intro r hr r' hr' hname c c' hc hc'
    obtain ⟨r0, hr0, hn0, hc0⟩ := horig r hr
    obtain ⟨r0', hr0', hn0', hc0'⟩ := horig r' hr'
    exact h.coherent r0 hr0 r0' hr0' (by rw [hn0, hn0', hname]) c c' (by rw [hc0, hc]) (by rw [hc0', hc'])

theorem fixedRangeOp_reqs (env : Env) (sg : Subgraph) (qsvs : Qsvs) (oi : OpInfo) (b : Bool)
    (rs : List CReq) (qs' : Qsvs)
    (hnames : (sg.tensors.map (·.name)).Nodup)
    (hin : SlotsValid sg oi.op.inputs) (hout : SlotsValid sg oi.op.outputs)
    (hnb : NoBlockwise oi.cfg)
    (houtNC : ∀ a ∈ oi.op.outputs, a ≠ -1 → isConst env.model sg a = false)
    (h : fixedRangeOp env sg qsvs oi b = .ok (rs, qs')) :
    OpReqs env.model sg oi.op oi.opId rs := by
  unfold fixedRangeOp at h
  simp only [bind, Except.bind, pure, Except.pure, throw, throwThe, MonadExceptOf.throw] at h
  split at h
  · cases h
  · split at h
    · cases h
    · rename_i v hstd
      obtain ⟨reqs, qs⟩ := v
      have hR := (standardOp_opReqs env sg qsvs oi .none [] [] reqs qs hnames hin hout hnb houtNC
        (fun i j a _ _ _ => by simp) hstd).1
      simp only [] at h
      split at h
      · rename_i last a hlast hact
        split at h
        · cases h; exact hR
        · rename_i pr hpr
          split at h
          · cases h
          · rename_i fp hfp
            split at h
            · cases h
            · split at h
              · cases h
              · cases h
                exact opReqs_setLast _ sg _ _ reqs last pr _ rfl hR hlast hpr
      · cases h; exact hR

/-! ## `biasFor` -/

theorem cslots_nodup (l : List Int) : (cslots l).Nodup := by
  unfold cslots
  refine List.Nodup.filter _ ?_
  refine List.Nodup.of_map (·.2) ?_
  rw [List.zipIdx_map_snd]
  exact List.nodup_range'

/-- without `-1` among the first `n` slots, compact and raw positions coincide up to `n` -/
theorem cslots_get (l : List Int) (n : Nat) (a : Int) (hpre : ∀ i < n, l[i]? ≠ some (-1))
    (hn : l[n]? = some a) (ha : a ≠ -1) : (cslots l)[n]? = some (a, n) := by
  have hlen : n < l.length := (List.getElem?_eq_some_iff.1 hn).1
  have hsplit : l = l.take n ++ a :: l.drop (n + 1) := by
    have h1 : l.drop n = a :: l.drop (n + 1) := by
      rw [List.drop_eq_getElem_cons hlen]
      congr 1
      exact (List.getElem?_eq_some_iff.1 hn).2
    conv_lhs => rw [← List.take_append_drop n l, h1]
  have htake : ((l.take n).zipIdx).filter (fun p => p.1 != -1) = (l.take n).zipIdx := by
    rw [List.filter_eq_self]
    intro p hp
    have hp' := List.mem_zipIdx_iff_getElem?.1 hp
    have hlt : p.2 < n := by
      have := (List.getElem?_eq_some_iff.1 hp').1
      simp only [List.length_take] at this
      omega
    have hget : l[p.2]? = some p.1 := by
      rw [List.getElem?_take_of_lt hlt] at hp'
      exact hp'
    have := hpre p.2 hlt
    rw [hget] at this
    simpa using this
  unfold cslots
  rw [hsplit, List.zipIdx_append, List.filter_append, htake]
  have hl : (l.take n).zipIdx.length = n := by simp; omega
  rw [List.getElem?_append_right (by omega), hl, Nat.sub_self]
  simp only [List.length_take, Nat.zero_add, List.zipIdx_cons]
  have hmin : min n l.length = n := by omega
  rw [hmin, List.filter_cons_of_pos (by simpa using ha)]
  rfl

theorem mem_set_cases {α} (l : List α) (i : Nat) (x y : α) (h : y ∈ l.set i x) :
    y = x ∨ ∃ j, j ≠ i ∧ l[j]? = some y := by
  obtain ⟨j, hj⟩ := List.mem_iff_getElem?.1 h
  rw [List.getElem?_set] at hj
  split at hj
  · split at hj
    · simp only [Option.some.injEq] at hj; exact .inl hj.symm
    · cases hj
  · rename_i hne
    exact .inr ⟨j, fun h => hne h.symm, hj⟩

theorem biasFor_unfold (env : Env) (sg : Subgraph) (oi : OpInfo) (reqs rs : List CReq) (iIn iW iB : Nat)
    (h : biasFor env sg oi reqs iIn iW iB = .ok rs) :
    rs = reqs ∨ ∃ bslot bt bp r, oi.op.inputs[iB]? = some bslot ∧ bslot ≠ -1 ∧ tensorAt sg bslot = .ok bt ∧
      (∀ q, bp = some q → hasData q = true → (constData env bt).isSome = true) ∧
      (isSRQ oi.cfg = true → (constData env bt).isSome = true) ∧
      mkReq bt.name oi true bp (isSRQ oi.cfg) = .ok r ∧ iB < reqs.length ∧ rs = reqs.set iB r := by
  unfold biasFor at h
  split at h
  · simp only [pure, Except.pure, Except.ok.injEq] at h; exact .inl h.symm
  · rename_i bslot hb
    split at h
    · simp only [pure, Except.pure, Except.ok.injEq] at h; exact .inl h.symm
    · rename_i hne
      have hne' : bslot ≠ -1 := by simpa using hne
      obtain ⟨bt, hbt, h⟩ := bind_ok _ _ _ h
      right
      have fin : ∀ bp, (∀ q, bp = some q → hasData q = true → (constData env bt).isSome = true) →
          (isSRQ oi.cfg = true → (constData env bt).isSome = true) →
          (mkReq bt.name oi true bp (isSRQ oi.cfg) >>= fun r =>
            if iB < reqs.length then pure (reqs.set iB r) else throw PyErr.indexError) = .ok rs →
          ∃ bslot bt bp r, oi.op.inputs[iB]? = some bslot ∧ bslot ≠ -1 ∧ tensorAt sg bslot = .ok bt ∧
            (∀ q, bp = some q → hasData q = true → (constData env bt).isSome = true) ∧
            (isSRQ oi.cfg = true → (constData env bt).isSome = true) ∧
            mkReq bt.name oi true bp (isSRQ oi.cfg) = .ok r ∧ iB < reqs.length ∧ rs = reqs.set iB r := by
        intro bp h1 h2 h
        obtain ⟨r, hr, h⟩ := bind_ok _ _ _ h
        split at h
        · rename_i hlt
          simp only [pure, Except.pure, Except.ok.injEq] at h
          exact ⟨bslot, bt, bp, r, hb, hne', hbt, h1, h2, hr, hlt, h.symm⟩
        · cases h
      simp only [] at h
      split at h
      · split at h
        · obtain ⟨_, h', _⟩ := bind_ok _ _ _ h
          cases h'
        · rename_i bd hbd
          obtain ⟨pin, _, h⟩ := bind_ok _ _ _ h
          obtain ⟨pw, _, h⟩ := bind_ok _ _ _ h
          split at h
          · obtain ⟨bp, hbp, h⟩ := bind_ok _ _ _ h
            exact fin bp (fun _ _ _ => by rw [hbd]; rfl) (fun _ => by rw [hbd]; rfl) h
          · obtain ⟨_, h', _⟩ := bind_ok _ _ _ h
            cases h'
      · rename_i hsrq
        obtain ⟨bp, hbp, h⟩ := bind_ok _ _ _ h
        simp only [pure, Except.pure, Except.ok.injEq] at hbp
        subst hbp
        exact fin none (fun q hq => by cases hq) (fun h => absurd h hsrq) h

theorem biasFor_reqs (env : Env) (sg : Subgraph) (oi : OpInfo) (reqs rin rout rs : List CReq) (iIn iW iB : Nat)
    (hnames : (sg.tensors.map (·.name)).Nodup)
    (hin : SlotsValid sg oi.op.inputs) (hnb : NoBlockwise oi.cfg)
    (hR : OpReqs env.model sg oi.op oi.opId reqs)
    (hsplit : reqs = rin ++ rout)
    (hpos : Pointwise (fun (p : Int × Nat) r => ∃ t, tensorAt sg p.1 = .ok t ∧ r.name = t.name)
      (cslots oi.op.inputs) rin)
    (hrout : ∀ r ∈ rout, r.consumers = none)
    (hmand : ∀ i < iB, oi.op.inputs[i]? ≠ some (-1))
    (hbias : ∀ (j : Nat) a, oi.op.inputs[iB]? = some a → oi.op.inputs[j]? = some a → a ≠ -1 → j = iB)
    (h : biasFor env sg oi reqs iIn iW iB = .ok rs) :
    OpReqs env.model sg oi.op oi.opId rs := by
  rcases biasFor_unfold env sg oi reqs rs iIn iW iB h with rfl | ⟨bslot, bt, bp, r, hb, hne', hbt, hbpd1, hbpd2, hr, hlt, rfl⟩
  · exact hR
  have hbmem : bslot ∈ oi.op.inputs := List.mem_of_getElem? hb
  have hbval : ValidT sg bslot := by
    rcases hin _ hbmem with h | h
    · exact absurd h hne'
    · exact h
  obtain ⟨hbt1, hbt2⟩ := tensorAt_valid sg bslot bt hbval hbt
  obtain ⟨xfs, hx, hr⟩ := mkReq_spec _ _ _ _ _ _ hr
  simp only [if_true] at hr
  obtain ⟨x, hxs, hxne, hxq, -⟩ := tensorXfs_spec _ _ _ _ hnb hx
  have hcs : ConsShape env.model sg bslot.toNat ⟨oi.opId, xfs, bp⟩ := by
    refine ⟨⟨x, hxs, hxne, ?_⟩, ?_⟩
    · intro hx'
      rw [← constData_isSome env sg _ bt hbt1]
      exact hbpd2 (hxq rfl hx')
    · intro q hq hd
      rw [← constData_isSome env sg _ bt hbt1]
      exact hbpd1 q hq hd
  -- position `iB` of the compact operand list is the bias slot
  have hciB := cslots_get oi.op.inputs iB bslot hmand hb hne'
  refine ⟨?_, ?_⟩
  · intro r' hr'
    rcases List.mem_or_eq_of_mem_set hr' with hr' | hr'
    · exact hR.each r' hr'
    · subst hr'; subst hr
      exact ⟨bslot.toNat, bt, hbt1, rfl, .inl ⟨rfl, _, rfl, rfl, hbt2 ▸ hbmem, hcs⟩⟩
  · -- an old operand request at a position `≠ iB` is for a different tensor
    have hother : ∀ (j : Nat) y, j ≠ iB → reqs[j]? = some y → y.name = bt.name → ∀ c, y.consumers ≠ some [c] := by
      intro j y hj hy hn c hc
      rw [hsplit] at hy
      have hjlt : j < rin.length := by
        by_contra hge
        rw [List.getElem?_append_right (by omega)] at hy
        have := hrout y (List.mem_of_getElem? hy)
        rw [this] at hc; cases hc
      rw [List.getElem?_append_left hjlt] at hy
      have hjlt' : j < (cslots oi.op.inputs).length := by rw [hpos.1]; exact hjlt
      obtain ⟨t, ht, hnt⟩ := hpos.2 j _ y (List.getElem?_eq_getElem hjlt') hy
      obtain ⟨hp1, hp2⟩ := (mem_cslots _ _).1 (List.getElem_mem hjlt')
      have hval : ValidT sg (cslots oi.op.inputs)[j].1 := by
        rcases hin _ (List.mem_of_getElem? hp1) with h | h
        · exact absurd h hp2
        · exact h
      obtain ⟨ht1, ht2⟩ := tensorAt_valid sg _ t hval ht
      have hidx := name_inj sg hnames _ _ t bt ht1 hbt1 (by rw [← hnt, hn])
      have hslot : (cslots oi.op.inputs)[j].1 = bslot := by rw [← ht2, ← hbt2, hidx]
      rw [hslot] at hp1
      have hraw := hbias _ bslot hb hp1 hne'
      have heq : (cslots oi.op.inputs)[j]? = (cslots oi.op.inputs)[iB]? := by
        rw [hciB, List.getElem?_eq_getElem hjlt']
        congr 1
        exact Prod.ext hslot hraw
      exact hj ((List.getElem?_inj hjlt' (cslots_nodup _)).1 heq)
    intro r1 hr1 r2 hr2 hname c1 c2 hc1 hc2
    rcases mem_set_cases _ _ _ _ hr1 with h1 | ⟨j1, hj1, hg1⟩
    · rcases mem_set_cases _ _ _ _ hr2 with h2 | ⟨j2, hj2, hg2⟩
      · subst h1; subst h2
        rw [hc1] at hc2; cases hc2; exact ⟨rfl, rfl⟩
      · subst h1
        have : r2.name = bt.name := by rw [← hname, hr]
        exact absurd hc2 (hother j2 r2 hj2 hg2 this c2)
    · rcases mem_set_cases _ _ _ _ hr2 with h2 | ⟨j2, hj2, hg2⟩
      · subst h2
        have : r1.name = bt.name := by rw [hname, hr]
        exact absurd hc1 (hother j1 r1 hj1 hg1 this c1)
      · exact hR.coherent r1 (List.mem_of_getElem? hg1) r2 (List.mem_of_getElem? hg2) hname c1 c2 hc1 hc2

/-! ## `floatCastOp` -/

/-- the per-request clause of `OpReqs.each` -/
def ReqFor (m : Model) (sg : Subgraph) (op : Op) (opId : Int) (r : CReq) : Prop :=
  ∃ (i : Nat) (t : Tensor), sg.tensors[i]? = some t ∧ r.name = t.name ∧
    ((r.producer = none ∧ ∃ c, r.consumers = some [c] ∧ c.opId = opId ∧ (i : Int) ∈ op.inputs ∧
        ConsShape m sg i c) ∨
     (r.consumers = none ∧ ∃ p, r.producer = some p ∧ p.opId = opId ∧ (i : Int) ∈ op.outputs ∧
        ProdShape m sg i p))

theorem floatCastOp_unfold (env : Env) (sg : Subgraph) (oi : OpInfo) (iIn iW iB : Nat) (rs : List CReq)
    (h : floatCastOp env sg oi iIn iW iB = .ok rs) :
    ∃ sIn sW sOut tin tw tout wd p, oi.op.inputs[iIn]? = some sIn ∧ oi.op.inputs[iW]? = some sW ∧
      oi.op.outputs[0]? = some sOut ∧ tensorAt sg sIn = .ok tin ∧ tensorAt sg sW = .ok tw ∧
      tensorAt sg sOut = .ok tout ∧ constData env tw = some wd ∧
      (rs = [noQuantReq tin.name oi.opId true,
             ⟨tw.name, none, some [(⟨oi.opId, [.addDequant], some p⟩ : CO2T)]⟩,
             noQuantReq tout.name oi.opId false] ∨
       ∃ b tb, oi.op.inputs[iB]? = some b ∧ b ≠ -1 ∧ tensorAt sg b = .ok tb ∧
         rs = [noQuantReq tin.name oi.opId true,
             ⟨tw.name, none, some [(⟨oi.opId, [.addDequant], some p⟩ : CO2T)]⟩,
             noQuantReq tout.name oi.opId false] ++ [noQuantReq tb.name oi.opId true]) := by
  unfold floatCastOp at h
  simp only [] at h
  obtain ⟨sIn, hsIn, h⟩ := bind_ok _ _ _ h
  obtain ⟨tin, htin, h⟩ := bind_ok _ _ _ h
  obtain ⟨sW, hsW, h⟩ := bind_ok _ _ _ h
  obtain ⟨tw, htw, h⟩ := bind_ok _ _ _ h
  obtain ⟨sOut, hsOut, h⟩ := bind_ok _ _ _ h
  obtain ⟨tout, htout, h⟩ := bind_ok _ _ _ h
  obtain ⟨wd, hwd, h⟩ := bind_ok _ _ _ h
  obtain ⟨hh, _, h⟩ := bind_ok _ _ _ h
  have e1 : oi.op.inputs[iIn]? = some sIn := by
    split at hsIn
    · rename_i s hs; simp only [pure, Except.pure, Except.ok.injEq] at hsIn; rw [hs, hsIn]
    · cases hsIn
  have e2 : oi.op.inputs[iW]? = some sW := by
    split at hsW
    · rename_i s hs; simp only [pure, Except.pure, Except.ok.injEq] at hsW; rw [hs, hsW]
    · cases hsW
  have e3 : oi.op.outputs[0]? = some sOut := by
    split at hsOut
    · rename_i s hs; simp only [pure, Except.pure, Except.ok.injEq] at hsOut; rw [hs, hsOut]
    · cases hsOut
  have e4 : constData env tw = some wd := by
    split at hwd
    · rename_i d hd; simp only [pure, Except.pure, Except.ok.injEq] at hwd; rw [hd, hwd]
    · cases hwd
  refine ⟨sIn, sW, sOut, tin, tw, tout, wd, Param.nonlinear 16 (some ⟨wd.shape, hh⟩), e1, e2, e3, htin, htw, htout, e4, ?_⟩
  split at h
  · rename_i b hb
    split at h
    · rename_i hne
      obtain ⟨tb, htb, h⟩ := bind_ok _ _ _ h
      simp only [pure, Except.pure, Except.ok.injEq] at h
      exact .inr ⟨b, tb, hb, by simpa using hne, htb, h.symm⟩
    · simp only [pure, Except.pure, Except.ok.injEq] at h
      exact .inl h.symm
  · simp only [pure, Except.pure, Except.ok.injEq] at h
    exact .inl h.symm

theorem floatCastOp_reqs (env : Env) (sg : Subgraph) (oi : OpInfo) (iIn iW iB : Nat) (rs : List CReq)
    (hnames : (sg.tensors.map (·.name)).Nodup)
    (hin : SlotsValid sg oi.op.inputs) (hout : SlotsValid sg oi.op.outputs)
    (hIn : oi.op.inputs[iIn]? ≠ some (-1)) (hW : oi.op.inputs[iW]? ≠ some (-1))
    (hOut : oi.op.outputs[0]? ≠ some (-1))
    (hWI : ∀ a, oi.op.inputs[iW]? = some a → oi.op.inputs[iIn]? = some a → a ≠ -1 → isConst env.model sg a = false)
    (hWB : ∀ a, oi.op.inputs[iW]? = some a → oi.op.inputs[iB]? = some a → a = -1)
    (h : floatCastOp env sg oi iIn iW iB = .ok rs) :
    OpReqs env.model sg oi.op oi.opId rs := by
  obtain ⟨sIn, sW, sOut, tin, tw, tout, wd, p, e1, e2, e3, htin, htw, htout, hwd, hrs⟩ :=
    floatCastOp_unfold env sg oi iIn iW iB rs h
  have nIn : sIn ≠ -1 := fun h => hIn (h ▸ e1)
  have nW : sW ≠ -1 := fun h => hW (h ▸ e2)
  have nOut : sOut ≠ -1 := fun h => hOut (h ▸ e3)
  have mIn : sIn ∈ oi.op.inputs := List.mem_of_getElem? e1
  have mW : sW ∈ oi.op.inputs := List.mem_of_getElem? e2
  have mOut : sOut ∈ oi.op.outputs := List.mem_of_getElem? e3
  have vIn : ValidT sg sIn := (hin _ mIn).resolve_left nIn
  have vW : ValidT sg sW := (hin _ mW).resolve_left nW
  have vOut : ValidT sg sOut := (hout _ mOut).resolve_left nOut
  obtain ⟨gIn1, gIn2⟩ := tensorAt_valid sg sIn tin vIn htin
  obtain ⟨gW1, gW2⟩ := tensorAt_valid sg sW tw vW htw
  obtain ⟨gOut1, gOut2⟩ := tensorAt_valid sg sOut tout vOut htout
  have cW : isConst env.model sg (sW.toNat : Int) = true := by
    rw [← constData_isSome env sg _ tw gW1, hwd]; rfl
  have hneIn : tin.name ≠ tw.name := by
    intro hn
    have hidx := name_inj sg hnames _ _ tin tw gIn1 gW1 hn
    have hs : sIn = sW := by rw [← gIn2, ← gW2, hidx]
    have := hWI sW e2 (hs ▸ e1) nW
    rw [← gW2, cW] at this; cases this
  -- the four possible requests
  have F1 : ReqFor env.model sg oi.op oi.opId (noQuantReq tin.name oi.opId true) :=
    ⟨_, tin, gIn1, rfl, .inl ⟨rfl, _, rfl, rfl, gIn2 ▸ mIn, consShape_noQuant _ sg _ _⟩⟩
  have F2 : ReqFor env.model sg oi.op oi.opId
      ⟨tw.name, none, some [(⟨oi.opId, [.addDequant], some p⟩ : CO2T)]⟩ :=
    ⟨_, tw, gW1, rfl, .inl ⟨rfl, _, rfl, rfl, gW2 ▸ mW,
      ⟨⟨.addDequant, rfl, by decide, fun _ => cW⟩, fun _ _ _ => cW⟩⟩⟩
  have F3 : ReqFor env.model sg oi.op oi.opId (noQuantReq tout.name oi.opId false) :=
    ⟨_, tout, gOut1, rfl, .inr ⟨rfl, _, rfl, rfl, gOut2 ▸ mOut, prodShape_noQuant _ sg _ _⟩⟩
  -- consumer entries: `noQuant` for names other than the weight, the `addDequant` one for the weight
  have coh : ∀ (l : List CReq), (∀ r ∈ l, ∀ c, r.consumers = some [c] →
      (c = ⟨oi.opId, [.noQuant], none⟩ ∧ r.name ≠ tw.name) ∨ (c = ⟨oi.opId, [.addDequant], some p⟩ ∧ r.name = tw.name)) →
      ∀ r ∈ l, ∀ r' ∈ l, r.name = r'.name → ∀ c c', r.consumers = some [c] → r'.consumers = some [c'] →
        c.xfs = c'.xfs ∧ c.param = c'.param := by
    intro l hl r hr r' hr' hn c c' hc hc'
    rcases hl r hr c hc with ⟨h1, h2⟩ | ⟨h1, h2⟩ <;> rcases hl r' hr' c' hc' with ⟨h1', h2'⟩ | ⟨h1', h2'⟩
    · rw [h1, h1']; exact ⟨rfl, rfl⟩
    · exact absurd (hn.trans h2') h2
    · exact absurd (hn.symm.trans h2) h2'
    · rw [h1, h1']; exact ⟨rfl, rfl⟩
  have K1 : ∀ c, (noQuantReq tin.name oi.opId true).consumers = some [c] →
      (c = ⟨oi.opId, [.noQuant], none⟩ ∧ (noQuantReq tin.name oi.opId true).name ≠ tw.name) ∨
      (c = ⟨oi.opId, [.addDequant], some p⟩ ∧ (noQuantReq tin.name oi.opId true).name = tw.name) := by
    intro c hc
    simp only [noQuantReq_cons, Option.some.injEq, List.cons.injEq, and_true] at hc
    exact .inl ⟨hc.symm, hneIn⟩
  have K2 : ∀ c, (⟨tw.name, none, some [(⟨oi.opId, [.addDequant], some p⟩ : CO2T)]⟩ : CReq).consumers = some [c] →
      (c = ⟨oi.opId, [.noQuant], none⟩ ∧ (⟨tw.name, none, some [(⟨oi.opId, [.addDequant], some p⟩ : CO2T)]⟩ : CReq).name ≠ tw.name) ∨
      (c = ⟨oi.opId, [.addDequant], some p⟩ ∧ (⟨tw.name, none, some [(⟨oi.opId, [.addDequant], some p⟩ : CO2T)]⟩ : CReq).name = tw.name) := by
    intro c hc
    simp only [Option.some.injEq, List.cons.injEq, and_true] at hc
    exact .inr ⟨hc.symm, rfl⟩
  have K3 : ∀ c, (noQuantReq tout.name oi.opId false).consumers = some [c] →
      (c = ⟨oi.opId, [.noQuant], none⟩ ∧ (noQuantReq tout.name oi.opId false).name ≠ tw.name) ∨
      (c = ⟨oi.opId, [.addDequant], some p⟩ ∧ (noQuantReq tout.name oi.opId false).name = tw.name) := by
    intro c hc
    simp [noQuantReq_prod] at hc
  rcases hrs with rfl | ⟨b, tb, hb, nb, htb, rfl⟩
  · refine ⟨?_, coh _ ?_⟩
    · intro r hr
      simp only [List.mem_cons, List.not_mem_nil, or_false] at hr
      rcases hr with rfl | rfl | rfl
      · exact F1
      · exact F2
      · exact F3
    · intro r hr
      simp only [List.mem_cons, List.not_mem_nil, or_false] at hr
      rcases hr with rfl | rfl | rfl
      · exact K1
      · exact K2
      · exact K3
  · have mB : b ∈ oi.op.inputs := List.mem_of_getElem? hb
    have vB : ValidT sg b := (hin _ mB).resolve_left nb
    obtain ⟨gB1, gB2⟩ := tensorAt_valid sg b tb vB htb
    have hneB : tb.name ≠ tw.name := by
      intro hn
      have hidx := name_inj sg hnames _ _ tb tw gB1 gW1 hn
      have hs : b = sW := by rw [← gB2, ← gW2, hidx]
      exact nW (hWB sW e2 (hs ▸ hb))
    refine ⟨?_, coh _ ?_⟩
    · intro r hr
      simp only [List.cons_append, List.nil_append, List.mem_cons, List.not_mem_nil, or_false] at hr
      rcases hr with rfl | rfl | rfl | rfl
      · exact F1
      · exact F2
      · exact F3
      · exact ⟨_, tb, gB1, rfl, .inl ⟨rfl, _, rfl, rfl, gB2 ▸ mB, consShape_noQuant _ sg _ _⟩⟩
    · intro r hr
      simp only [List.cons_append, List.nil_append, List.mem_cons, List.not_mem_nil, or_false] at hr
      rcases hr with rfl | rfl | rfl | rfl
      · exact K1
      · exact K2
      · exact K3
      · intro c hc
        simp only [noQuantReq_cons, Option.some.injEq, List.cons.injEq, and_true] at hc
        exact .inl ⟨hc.symm, hneB⟩

end Pipe
