import QProofs.ParamsSrc
/-!
# C04 end to end, request stage: what the statistics dictionary IN FORCE contains

The materialisation works on a private copy of the calibration statistics and WRITES to it: a
same-as-input operator (RESHAPE, TRANSPOSE, AVERAGE_POOL_2D, STRIDED_SLICE, SPLIT) copies the entry of its
data operand to its results, a fixed-range operator (SOFTMAX, LOGISTIC, TANH) stores the min/max of the
fixed range for its result.  `StatSrc`: every entry of a dictionary in force (`ParamsSrc.StatsAt`) is the
caller's entry, or was copied along a chain of same-as-input operators from such an entry, or is the
min/max of a fixed range (`statsAt_src`).
-/
open Graph Mat Cfg Pipeline InstGen GenInstsOK GraphStep GraphInv PipeNF Pipe SharingGen Arith Nd MatParams Num
open ParamsSrc

set_option autoImplicit false

namespace ParamsStats

/-! ## dictionary writes -/

theorem applyW_get (w : List (String × Qsv)) : ∀ (qs : Qsvs) (n : String) (e : Qsv),
    Py.dictGet? (Locality.applyW w qs) n = some e → Py.dictGet? qs n = some e ∨ (n, e) ∈ w := by
  induction w with
  | nil => intro qs n e h; exact .inl h
  | cons x w ih =>
    intro qs n e h
    have h' : Py.dictGet? (Locality.applyW w (Py.dictSet qs x.1 x.2)) n = some e := h
    rcases ih _ n e h' with h1 | h1
    · rw [CalibProofs.dictGet?_dictSet] at h1
      by_cases hx : x.1 = n
      · rw [if_pos hx] at h1
        cases h1
        exact .inr (by rw [← hx]; exact List.mem_cons_self)
      · rw [if_neg hx] at h1
        exact .inl h1
    · exact .inr (List.mem_cons_of_mem _ h1)

/-! ## `standardOp` -/

/-- the materialize functions with the same-as-input constraint / with a fixed output range -/
def sameAsInputFns : List String :=
  ["materialize_reshape", "materialize_transpose", "materialize_average_pool_2d", "materialize_strided_slice",
   "materialize_split"]
def fixedRangeFns : List String := ["materialize_softmax_and_logistic", "materialize_tanh"]

/-- the statistics after a same-as-input operator: the entry `iq` of the data operand `t0` written under
    the names of the quantized results `outT` -/
def Copied (sg : Subgraph) (op : Op) (qs qs' : Qsvs) : Prop :=
  ∃ (t0 : Tensor) (iq : Qsv) (outT : List Tensor), SlotOf sg op true t0 ∧ Py.dictGet? qs t0.name = some iq ∧
    (∀ o ∈ outT, SlotOf sg op false o) ∧ qs' = Locality.applyW (outT.map fun o => (o.name, iq)) qs

theorem standardOp_stats (env : Env) (sg : Subgraph) (qs : Qsvs) (oi : OpInfo) (con : Constraint)
    (gIn gOut : List Nat) (rs : List CReq) (qs' : Qsvs)
    (h : standardOp env sg qs oi con gIn gOut = .ok (rs, qs')) :
    qs' = qs ∨ (con = .sameAsInput ∧ Copied sg oi.op qs qs') := by
  unfold standardOp at h
  obtain ⟨inIgn, hinIgn, h1⟩ := GraphInv.bind_ok _ _ _ h
  clear h
  obtain ⟨outIgn, houtIgn, h2⟩ := GraphInv.bind_ok _ _ _ h1
  clear h1
  obtain ⟨⟨ignInT, inT, inIgnU⟩, hsplitIn, h3⟩ := GraphInv.bind_ok _ _ _ h2
  clear h2
  obtain ⟨⟨ignOutT, outT, outIgnU⟩, hsplitOut, h⟩ := GraphInv.bind_ok _ _ _ h3
  clear h3
  simp only [] at h
  by_cases he : (inT.isEmpty && outT.isEmpty) = true
  · rw [if_pos he] at h
    simp only [pure, Except.pure, Except.ok.injEq, Prod.mk.injEq] at h
    exact .inl h.2.symm
  · rw [if_neg he] at h
    cases con with
    | none =>
      simp only [] at h
      obtain ⟨ins, hins, h1⟩ := GraphInv.bind_ok _ _ _ h
      clear h
      obtain ⟨outs, houts, h⟩ := GraphInv.bind_ok _ _ _ h1
      clear h1
      simp only [pure, Except.pure, Except.ok.injEq, Prod.mk.injEq] at h
      exact .inl h.2.symm
    | sameAsInput =>
      simp only [] at h
      obtain ⟨t, ht, h1⟩ := GraphInv.bind_ok _ _ _ h
      clear h
      obtain ⟨ir, hir, h2⟩ := GraphInv.bind_ok _ _ _ h1
      clear h1
      obtain ⟨p, hp, h3⟩ := GraphInv.bind_ok _ _ _ h2
      clear h2
      obtain ⟨outs, houts, h4⟩ := GraphInv.bind_ok _ _ _ h3
      clear h3
      obtain ⟨iq, hiq, h5⟩ := GraphInv.bind_ok _ _ _ h4
      clear h4
      obtain ⟨qs2, hqs2, h⟩ := GraphInv.bind_ok _ _ _ h5
      clear h5
      simp only [pure, Except.pure, Except.ok.injEq, Prod.mk.injEq] at h
      obtain ⟨-, rfl⟩ := h
      have hinT : inT = [t] := by
        rcases inT with _ | ⟨a, _ | ⟨b, l⟩⟩
        · cases ht
        · simp only [pure, Except.pure, Except.ok.injEq] at ht
          rw [ht]
        · cases ht
      subst hinT
      have hname : ir.name = t.name := Locality.wrapper_name _ _ _ _ _ _ _ hir
      rw [Locality.setLoop] at hqs2
      cases hqs2
      refine .inr ⟨rfl, t, iq, outT, ?_, ?_, ?_, rfl⟩
      · obtain ⟨q, hq, -, hq2⟩ := (splitTensors_spec _ _ _ _ _ _ hsplitIn).oth_mem t List.mem_cons_self
        exact ⟨q, hq, hq2⟩
      · rw [← hname]
        cases hd : Py.dictGet? qs ir.name with
        | none => rw [hd] at hiq; cases hiq
        | some v =>
          rw [hd] at hiq
          simp only [pure, Except.pure, Except.ok.injEq] at hiq
          rw [hiq]
      · intro o ho
        obtain ⟨q, hq, -, hq2⟩ := (splitTensors_spec _ _ _ _ _ _ hsplitOut).oth_mem o ho
        exact ⟨q, hq, hq2⟩
    | sameAsOutput =>
      simp only [] at h
      obtain ⟨t, ht, h1⟩ := GraphInv.bind_ok _ _ _ h
      clear h
      obtain ⟨orq, horq, h2⟩ := GraphInv.bind_ok _ _ _ h1
      clear h1
      obtain ⟨ins, hins, h⟩ := GraphInv.bind_ok _ _ _ h2
      clear h2
      simp only [pure, Except.pure, Except.ok.injEq, Prod.mk.injEq] at h
      exact .inl h.2.symm

/-! ## the dispatch -/

/-- the statistics after a fixed-range operator: the min/max of the fixed range under the name of the result -/
def Fixed (sg : Subgraph) (oi : OpInfo) (sl : Bool) (qs qs' : Qsvs) : Prop :=
  ∃ (t : Tensor) (a : TCfg) (fp : QParams) (mm : FArr × FArr), SlotOf sg oi.op false t ∧ oi.cfg.act = some a ∧
    fixedParams sl a.bits.toNat = some fp ∧ minMaxFromParams a.bits.toNat a.symmetric fp = .ok mm ∧
    qs' = Py.dictSet qs t.name (some mm)

theorem fixedRangeOp_stats (env : Env) (sg : Subgraph) (qs : Qsvs) (oi : OpInfo) (sl : Bool)
    (rs : List CReq) (qs' : Qsvs) (hnc : ConstProv.OutNC env sg oi.op.outputs)
    (h : fixedRangeOp env sg qs oi sl = .ok (rs, qs')) : qs' = qs ∨ Fixed sg oi sl qs qs' := by
  obtain ⟨-, reqs, qs1, hstd, hcase⟩ := fixedRangeOp_spec env sg qs oi sl rs qs' h
  have hq1 : qs1 = qs := by
    rcases standardOp_stats env sg qs oi .none [] [] reqs qs1 hstd with h1 | ⟨h1, -⟩
    · exact h1
    · cases h1
  subst hq1
  rcases hcase with ⟨-, h2, -⟩ | ⟨last, a, pr, fp, mm, hl, ha, hpr, hfp, hmm, -, hq⟩
  · exact .inl h2
  · right
    obtain ⟨rin, rout, hrs0, hin, hout⟩ := standardOp_src env sg qs1 oi .none [] [] reqs qs1 hnc (fun h => absurd rfl h) hstd
    have hmem : last ∈ reqs := List.mem_of_getLast? hl
    rw [hrs0] at hmem
    rcases List.mem_append.1 hmem with hm | hm
    · obtain ⟨j, p, -, -, t, -, -, hnp, -⟩ := pointwise_mem hin last hm
      rw [hnp] at hpr
      cases hpr
    · obtain ⟨j, p, hp, -, t, ht, hS, -⟩ := pointwise_mem hout last hm
      exact ⟨t, a, fp, mm, ⟨p, List.mem_of_getElem? hp, ht⟩, ha, hfp, hmm, by rw [hq, hS.1]⟩

/-- **the statistics after one materialisation**: unchanged, or a same-as-input copy, or a fixed range -/
theorem materializeOp_stats (env : Env) (sg : Subgraph) (qs : Qsvs) (oi : OpInfo) (alg fn : String)
    (rs : List CReq) (qs' : Qsvs) (hnc : ConstProv.OutNC env sg oi.op.outputs)
    (h : materializeOp env sg qs oi alg fn = .ok (rs, qs')) :
    qs' = qs ∨ (alg = Tables.algMinMax ∧ fn ∈ sameAsInputFns ∧ Copied sg oi.op qs qs') ∨
      (alg = Tables.algMinMax ∧ fn ∈ fixedRangeFns ∧
        Fixed sg oi (fn == "materialize_softmax_and_logistic") qs qs') := by
  rw [materializeOp] at h
  have fc : ∀ iIn iW iB, (floatCastOp env sg oi iIn iW iB >>= fun r => (pure (r, qs) : PyM (List CReq × Qsvs)))
      = .ok (rs, qs') → qs' = qs := by
    intro iIn iW iB h
    obtain ⟨r, hr, h⟩ := bind_ok _ _ _ h
    cases h
    rfl
  have std : ∀ con gIn, con ≠ .sameAsInput → standardOp env sg qs oi con gIn [] = .ok (rs, qs') → qs' = qs := by
    intro con gIn hcon h
    rcases standardOp_stats env sg qs oi con gIn [] rs qs' h with h1 | ⟨h1, -⟩
    · exact h1
    · exact absurd h1 hcon
  by_cases hF : (alg == Tables.algFloatCasting) = true
  · rw [if_pos hF] at h
    by_cases h1 : (fn == "materialize_fc_conv" || fn == "materialize_embedding_lookup") = true
    · rw [if_pos h1] at h
      exact .inl (fc _ _ _ h)
    · rw [if_neg h1] at h
      by_cases h2 : (fn == "materialize_conv2d_transpose") = true
      · rw [if_pos h2] at h
        exact .inl (fc _ _ _ h)
      · rw [if_neg h2] at h
        cases h
  · rw [if_neg hF] at h
    by_cases hM : (alg == Tables.algMinMax) = true
    · rw [if_pos hM] at h
      have halg : alg = Tables.algMinMax := by simpa using hM
      have sai : fn ∈ sameAsInputFns → ∀ gIn, standardOp env sg qs oi .sameAsInput gIn [] = .ok (rs, qs') →
          qs' = qs ∨ (alg = Tables.algMinMax ∧ fn ∈ sameAsInputFns ∧ Copied sg oi.op qs qs') ∨
            (alg = Tables.algMinMax ∧ fn ∈ fixedRangeFns ∧
              Fixed sg oi (fn == "materialize_softmax_and_logistic") qs qs') := by
        intro hfn gIn h
        rcases standardOp_stats env sg qs oi _ gIn [] rs qs' h with h1 | ⟨-, h1⟩
        · exact .inl h1
        · exact .inr (.inl ⟨halg, hfn, h1⟩)
      by_cases c1 : (fn == "materialize_input" || fn == "materialize_output" || fn == "materialize_add" ||
          fn == "materialize_sub" || fn == "materialize_mul" || fn == "materialize_batch_matmul" ||
          fn == "materialize_gelu" || fn == "materialize_rsqrt") = true
      · rw [if_pos c1] at h
        exact .inl (std _ _ (by decide) h)
      rw [if_neg c1] at h
      by_cases c2 : (fn == "materialize_embedding_lookup") = true
      · rw [if_pos c2] at h
        exact .inl (std _ _ (by decide) h)
      rw [if_neg c2] at h
      by_cases c3 : (fn == "materialize_mean") = true
      · rw [if_pos c3] at h
        exact .inl (std _ _ (by decide) h)
      rw [if_neg c3] at h
      by_cases c4 : (fn == "materialize_reshape" || fn == "materialize_transpose") = true
      · rw [if_pos c4] at h
        refine sai ?_ _ h
        simp only [Bool.or_eq_true, beq_iff_eq] at c4
        rcases c4 with rfl | rfl <;> decide
      rw [if_neg c4] at h
      by_cases c5 : (fn == "materialize_average_pool_2d") = true
      · rw [if_pos c5] at h
        refine sai ?_ _ h
        simp only [beq_iff_eq] at c5
        subst c5; decide
      rw [if_neg c5] at h
      by_cases c6 : (fn == "materialize_strided_slice") = true
      · rw [if_pos c6] at h
        refine sai ?_ _ h
        simp only [beq_iff_eq] at c6
        subst c6; decide
      rw [if_neg c6] at h
      by_cases c7 : (fn == "materialize_split") = true
      · rw [if_pos c7] at h
        refine sai ?_ _ h
        simp only [beq_iff_eq] at c7
        subst c7; decide
      rw [if_neg c7] at h
      by_cases c8 : (fn == "materialize_concatenation") = true
      · rw [if_pos c8] at h
        exact .inl (std _ _ (by decide) h)
      rw [if_neg c8] at h
      by_cases c9 : (fn == "materialize_fc_conv") = true
      · rw [if_pos c9] at h
        obtain ⟨⟨r, q⟩, hs, h⟩ := bind_ok _ _ _ h
        obtain ⟨r', hb, h⟩ := bind_ok _ _ _ h
        cases h
        exact .inl (by
          rcases standardOp_stats env sg qs oi _ _ [] r _ hs with h1 | ⟨h1, -⟩
          · exact h1
          · cases h1)
      rw [if_neg c9] at h
      by_cases c10 : (fn == "materialize_conv2d_transpose") = true
      · rw [if_pos c10] at h
        obtain ⟨⟨r, q⟩, hs, h⟩ := bind_ok _ _ _ h
        simp only [] at h
        split at h
        · obtain ⟨_, h', _⟩ := bind_ok _ _ _ h
          cases h'
        · obtain ⟨r', hb, h⟩ := bind_ok _ _ _ h
          cases h
          exact .inl (by
            rcases standardOp_stats env sg qs oi _ _ [] r _ hs with h1 | ⟨h1, -⟩
            · exact h1
            · cases h1)
      rw [if_neg c10] at h
      by_cases c11 : (fn == "materialize_softmax_and_logistic") = true
      · rw [if_pos c11] at h
        rcases fixedRangeOp_stats env sg qs oi true rs qs' hnc h with h1 | h1
        · exact .inl h1
        · refine .inr (.inr ⟨halg, ?_, by rw [c11]; exact h1⟩)
          simp only [beq_iff_eq] at c11
          subst c11; decide
      rw [if_neg c11] at h
      by_cases c12 : (fn == "materialize_tanh") = true
      · rw [if_pos c12] at h
        rcases fixedRangeOp_stats env sg qs oi false rs qs' hnc h with h1 | h1
        · exact .inl h1
        · have c11' : (fn == "materialize_softmax_and_logistic") = false := by simpa using c11
          refine .inr (.inr ⟨halg, ?_, by rw [c11']; exact h1⟩)
          simp only [beq_iff_eq] at c12
          subst c12; decide
      rw [if_neg c12] at h
      cases h
    · rw [if_neg hM] at h
      cases h

/-! ## one entry of the operator list -/

/-- what entry `q` (name `k`, scope `scope`, registered function `fn` of the min/max algorithm) does to the
    statistics, when it changes them -/
def Writes (rx : String → String → Bool) (env : Env) (st : Recipe.State) (s : Nat) (sg : Subgraph)
    (q : Op × Option String × Int) (k scope fn : String) (qs qs' : Qsvs) : Prop :=
  Resolves rx env st sg q k scope ∧ (Recipe.resolve rx st k scope).1 = Tables.algMinMax ∧
    Py.dictGet? minmaxOps k = some fn ∧
    ((fn ∈ sameAsInputFns ∧ Copied sg q.1 qs qs') ∨
     (fn ∈ fixedRangeFns ∧ Fixed sg (oiOf rx st s q k scope) (fn == "materialize_softmax_and_logistic") qs qs'))

theorem opReqs_stats (rx : String → String → Bool) (env : Env) (st : Recipe.State)
    (s : Nat) (sg : Subgraph) (qs : Qsvs) (q : Op × Option String × Int) (rs : List CReq) (qs' : Qsvs)
    (hnc : ConstProv.OutNC env sg q.1.outputs)
    (h : opReqs rx env st s sg qs q = .ok (rs, qs')) :
    qs' = qs ∨ ∃ k scope fn, Writes rx env st s sg q k scope fn qs qs' := by
  unfold opReqs at h
  split at h
  · cases h
  · split at h
    · cases h
    · cases h; exact .inl rfl
  · rename_i k hk
    split at h
    · cases h
    · rename_i scope hscope
      split at h
      · split at h
        · cases h
        · cases h; exact .inl rfl
      · rename_i halg
        split at h
        · cases h
        · rename_i ops hops
          split at h
          · cases h
          · rename_i fn hfn
            rcases materializeOp_stats env sg qs (oiOf rx st s q k scope) _ fn rs qs' hnc h with
              h1 | ⟨ha, hf, h1⟩ | ⟨ha, hf, h1⟩
            · exact .inl h1
            · rw [ha, registry_minmax] at hops
              cases hops
              exact .inr ⟨k, scope, fn, ⟨hk, hscope, by simpa using halg⟩, ha, hfn, .inl ⟨hf, h1⟩⟩
            · rw [ha, registry_minmax] at hops
              cases hops
              exact .inr ⟨k, scope, fn, ⟨hk, hscope, by simpa using halg⟩, ha, hfn, .inr ⟨hf, h1⟩⟩

/-! ## the entries of a statistics dictionary in force -/

/-- where an entry of a statistics dictionary in force comes from: the caller's statistics; a copy, made by
    a same-as-input operator, of the entry of its data operand `t0` to a result `t`; the min/max of the
    range fixed by the runtime kernel for the result `t` of a fixed-range operator -/
inductive StatSrc (rx : String → String → Bool) (env : Env) (st : Recipe.State) (qsvs : Option Qsvs) :
    String → Qsv → Prop
  | given (n : String) (e : Qsv) : Py.dictGet? (qsvs.getD []) n = some e → StatSrc rx env st qsvs n e
  | copied (s : Nat) (sg : Subgraph) (j : Nat) (q : Op × Option String × Int) (k scope fn : String)
      (t0 t : Tensor) (e : Qsv) :
      env.model.subgraphs[s]? = some sg → (allOps sg)[j]? = some q → Resolves rx env st sg q k scope →
      (Recipe.resolve rx st k scope).1 = Tables.algMinMax → Py.dictGet? minmaxOps k = some fn →
      fn ∈ sameAsInputFns → SlotOf sg q.1 true t0 → SlotOf sg q.1 false t →
      StatSrc rx env st qsvs t0.name e → StatSrc rx env st qsvs t.name e
  | fixed (s : Nat) (sg : Subgraph) (j : Nat) (q : Op × Option String × Int) (k scope fn : String)
      (t : Tensor) (a : TCfg) (fp : QParams) (mm : FArr × FArr) :
      env.model.subgraphs[s]? = some sg → (allOps sg)[j]? = some q → Resolves rx env st sg q k scope →
      (Recipe.resolve rx st k scope).1 = Tables.algMinMax → Py.dictGet? minmaxOps k = some fn →
      fn ∈ fixedRangeFns → SlotOf sg q.1 false t → (Recipe.resolve rx st k scope).2.act = some a →
      fixedParams (fn == "materialize_softmax_and_logistic") a.bits.toNat = some fp →
      minMaxFromParams a.bits.toNat a.symmetric fp = .ok mm → StatSrc rx env st qsvs t.name (some mm)

/-- every entry of the statistics component of a loop state has a source -/
def SInv (rx : String → String → Bool) (env : Env) (st : Recipe.State) (qsvs : Option Qsvs) (g : GState) : Prop :=
  ∀ n e, Py.dictGet? g.1 n = some e → StatSrc rx env st qsvs n e

theorem opStep_sinv (rx : String → String → Bool) (env : Env) (st : Recipe.State) (qsvs : Option Qsvs)
    (hg : GenHyp env st) (s : Nat) (sg : Subgraph) (hsg : env.model.subgraphs[s]? = some sg)
    (q : Op × Option String × Int) (hq : q ∈ allOps sg) (x x' : GState) (hx : SInv rx env st qsvs x)
    (h : opStep rx env st s sg x q = .ok x') : SInv rx env st qsvs x' := by
  obtain ⟨rs, hr, -⟩ := opStep_ok rx env st s sg x x' q h
  have hmem : sg ∈ env.model.subgraphs := List.mem_of_getElem? hsg
  obtain ⟨j, hj⟩ := List.mem_iff_getElem?.1 hq
  rcases opReqs_stats rx env st s sg x.1 q rs x'.1 (ConstProv.outNC_allOps env st hg sg hmem q hq) hr with
    h1 | ⟨k, scope, fn, hres, halg, hfn, hcase⟩
  · intro n e hn
    rw [h1] at hn
    exact hx n e hn
  · rcases hcase with ⟨hf, t0, iq, outT, ht0, hiq, hout, hq'⟩ | ⟨hf, t, a, fp, mm, ht, ha, hfp, hmm, hq'⟩
    · intro n e hn
      rw [hq'] at hn
      rcases applyW_get _ _ n e hn with h2 | h2
      · exact hx n e h2
      · obtain ⟨o, ho, heq⟩ := List.mem_map.1 h2
        simp only [Prod.mk.injEq] at heq
        obtain ⟨rfl, rfl⟩ := heq
        exact .copied s sg j q k scope fn t0 o iq hsg hj hres halg hfn hf ht0 (hout o ho) (hx _ _ hiq)
    · intro n e hn
      rw [hq', CalibProofs.dictGet?_dictSet] at hn
      by_cases hnn : t.name = n
      · rw [if_pos hnn] at hn
        cases hn
        rw [← hnn]
        exact .fixed s sg j q k scope fn t a fp mm hsg hj hres halg hfn hf ht ha hfp hmm
      · rw [if_neg hnn] at hn
        exact hx n e hn

/-- **every entry of a statistics dictionary in force has a source** -/
theorem statsAt_src (rx : String → String → Bool) (env : Env) (st : Recipe.State) (qsvs : Option Qsvs)
    (hg : GenHyp env st) (s : Nat) (sg : Subgraph) (hsg : env.model.subgraphs[s]? = some sg) (j : Nat)
    (qs : Qsvs) (h : StatsAt rx env st qsvs s sg j qs) :
    ∀ n e, Py.dictGet? qs n = some e → StatSrc rx env st qsvs n e := by
  obtain ⟨g1, res, h1, h2⟩ := h
  have hg1 : SInv rx env st qsvs g1 := by
    refine GraphFrame.foldlM_inv (sgStep rx env st) (SInv rx env st qsvs) _ _ g1
      (fun n e hn => .given n e hn) ?_ h1
    intro p hp x x' hx hstep
    have hp' : p ∈ env.model.subgraphs.zipIdx := List.mem_of_mem_take hp
    have hpsg : env.model.subgraphs[p.2]? = some p.1 := by
      have := List.mem_zipIdx_iff_getElem?.1 (show (p.1, p.2) ∈ _ from hp')
      exact this
    unfold sgStep at hstep
    exact GraphFrame.foldlM_inv (opStep rx env st p.2 p.1) (SInv rx env st qsvs) _ x x' hx
      (fun q hq y y' hy hs => opStep_sinv rx env st qsvs hg p.2 p.1 hpsg q hq y y' hy hs) hstep
  have := GraphFrame.foldlM_inv (opStep rx env st s sg) (SInv rx env st qsvs) _ g1 (qs, res) hg1
    (fun q hq y y' hy hs => opStep_sinv rx env st qsvs hg s sg hsg q (List.mem_of_mem_take hq) y y' hy hs) h2
  exact this

end ParamsStats
