import QProofs.BlockwiseIdx
/-!
# What the BLOCKWISE functions of `QModel/Blockwise.lean` compute, element by element

* `el`, `rowMin`, `rowMax`, `blockMin`, `blockMax`: elements and row / block extrema of a row-major `[o, f]` weight;
* `minMax_spec`: the library's statistics are the extrema of WHOLE rows;
* `paramsOf_spec`, `params_spec`: each channel's (zero point, scale) is the scalar core `zpScale1` on those extrema;
* `quantizeWith_spec`, `quantize_spec`: the layout `data[0][b][k][c] = q(w[c][b*bs + k])`;
* `channelwise_spec`: the same for the ordinary per-channel quantization.
-/
open Num Nd Arith MatParams Blockwise

set_option autoImplicit false

namespace BlockwiseL

open GraphInv (bind_ok)

/-- element `[c][j]` of a row-major `[o, f]` weight -/
def el (d : List Rat) (f c j : Nat) : Rat := d.getD (c * f + j) 0

/-- `min` / `max` of `g 0, …, g (n-1)` as numpy folds them -/
def segMin (g : Nat → Rat) (n : Nat) : Rat := ((List.range n).map g).foldl minR (g 0)
def segMax (g : Nat → Rat) (n : Nat) : Rat := ((List.range n).map g).foldl maxR (g 0)

/-- extrema of the WHOLE row `c` (all input features, i.e. all blocks) -/
def rowMin (d : List Rat) (f c : Nat) : Rat := segMin (el d f c) f
def rowMax (d : List Rat) (f c : Nat) : Rat := segMax (el d f c) f

/-- extrema of block `b` of row `c` -/
def blockMin (d : List Rat) (f bs c b : Nat) : Rat := segMin (fun k => el d f c (b * bs + k)) bs
def blockMax (d : List Rat) (f bs c b : Nat) : Rat := segMax (fun k => el d f c (b * bs + k)) bs

/-- `v` is one of `g 0 … g (n-1)` and `R`-related to all of them (the minimum for `≤`, the maximum for `≥`) -/
structure IsSel (R : Rat → Rat → Prop) (g : Nat → Rat) (n : Nat) (v : Rat) : Prop where
  mem : ∃ k < n, v = g k
  all : ∀ k < n, R v (g k)

theorem seg_fold (f : Rat → Rat → Rat) (R : Rat → Rat → Prop) (hf : Sel f R) (g : Nat → Rat) : ∀ n,
    ((((List.range n).map g).foldl f (g 0)) = g 0 ∨ ∃ k < n, ((List.range n).map g).foldl f (g 0) = g k) ∧
    R (((List.range n).map g).foldl f (g 0)) (g 0) ∧
    ∀ k < n, R (((List.range n).map g).foldl f (g 0)) (g k) := by
  intro n
  induction n with
  | zero => exact ⟨.inl rfl, hf.refl _, fun k hk => absurd hk (Nat.not_lt_zero _)⟩
  | succ n ih =>
    rw [List.range_succ, List.map_append, List.foldl_append]
    simp only [List.map_cons, List.map_nil, List.foldl_cons, List.foldl_nil]
    generalize ((List.range n).map g).foldl f (g 0) = v at ih
    obtain ⟨h1, h2, h3⟩ := ih
    refine ⟨?_, hf.r2 _ _ _ h2, ?_⟩
    · rcases hf.sel v (g n) with h | h
      · rw [h]
        rcases h1 with h1 | ⟨k, hk, h1⟩
        · exact .inl h1
        · exact .inr ⟨k, by omega, h1⟩
      · exact .inr ⟨n, by omega, h⟩
    · intro k hk
      by_cases hkn : k = n
      · subst hkn; exact hf.r1 _ _
      · exact hf.r2 _ _ _ (h3 k (by omega))

theorem seg_isSel (f : Rat → Rat → Rat) (R : Rat → Rat → Prop) (hf : Sel f R) (g : Nat → Rat) (n : Nat) (hn : 0 < n) :
    IsSel R g n (((List.range n).map g).foldl f (g 0)) := by
  obtain ⟨h1, _, h3⟩ := seg_fold f R hf g n
  refine ⟨?_, h3⟩
  rcases h1 with h | h
  · exact ⟨0, hn, h⟩
  · exact h

theorem segMin_isSel (g : Nat → Rat) (n : Nat) (hn : 0 < n) : IsSel (· ≤ ·) g n (segMin g n) :=
  seg_isSel minR _ sel_min g n hn
theorem segMax_isSel (g : Nat → Rat) (n : Nat) (hn : 0 < n) : IsSel (· ≥ ·) g n (segMax g n) :=
  seg_isSel maxR _ sel_max g n hn

theorem isSel_le_unique {g : Nat → Rat} {n : Nat} {v v' : Rat} (h : IsSel (· ≤ ·) g n v) (h' : IsSel (· ≤ ·) g n v') :
    v = v' := by
  obtain ⟨k, hk, e⟩ := h.mem
  obtain ⟨k', hk', e'⟩ := h'.mem
  have a : v ≤ g k' := h.all k' hk'
  have b : v' ≤ g k := h'.all k hk
  rw [← e'] at a; rw [← e] at b
  exact le_antisymm a b

theorem isSel_ge_unique {g : Nat → Rat} {n : Nat} {v v' : Rat} (h : IsSel (· ≥ ·) g n v) (h' : IsSel (· ≥ ·) g n v') :
    v = v' := by
  obtain ⟨k, hk, e⟩ := h.mem
  obtain ⟨k', hk', e'⟩ := h'.mem
  have a : g k' ≤ v := h.all k' hk'
  have b : g k ≤ v' := h'.all k hk
  rw [← e'] at a; rw [← e] at b
  exact le_antisymm b a

/-! ## `reduceKeep` with a known cell map -/

theorem reduce_cells (f : Rat → Rat → Rat) (R : Rat → Rat → Prop) (hf : Sel f R) (a : Arr Rat) (dims : Option (List Nat))
    (r : Arr Rat) (h : reduceKeep f a dims = .ok r) (J : Nat → Nat)
    (hJ : ∀ i < a.size, bindex a.shape (keepShape a.shape dims) i = J i) :
    a.data ≠ [] ∧ r.shape = keepShape a.shape dims ∧ r.data.length = numel (keepShape a.shape dims) ∧
    ∀ j < numel (keepShape a.shape dims), (∃ i < a.size, J i = j) →
      (∃ i < a.size, J i = j ∧ r.data.getD j 0 = a.data.getD i 0) ∧
      ∀ i < a.size, J i = j → R (r.data.getD j 0) (a.data.getD i 0) := by
  obtain ⟨hne, hs, hl, hc⟩ := reduceKeep_spec f R hf a dims r h
  refine ⟨hne, hs, hl, ?_⟩
  rintro j hj ⟨i0, hi0, hji0⟩
  rcases hc j hj with ⟨hno, _⟩ | ⟨⟨i, hi, hji, e⟩, hall⟩
  · exact absurd (by rw [hJ i0 hi0]; exact hji0) (hno i0 hi0)
  · refine ⟨⟨i, hi, by rw [← hJ i hi]; exact hji, e⟩, ?_⟩
    intro i' hi' hj'
    exact hall i' hi' (by rw [hJ i' hi']; exact hj')

theorem pos_of_mul_pos {a b : Nat} (h : 0 < a * b) : 0 < a ∧ 0 < b := by
  constructor
  · rcases Nat.eq_zero_or_pos a with h0 | h0
    · rw [h0, Nat.zero_mul] at h; omega
    · exact h0
  · rcases Nat.eq_zero_or_pos b with h0 | h0
    · rw [h0, Nat.mul_zero] at h; omega
    · exact h0

/-- **the library's BLOCKWISE statistics**: cell `c` of `np.min/np.max(reshaped, axis=(0,1,2))` is the extremum of the
    whole row `c` of the weight -/
theorem chan_stats (f' : Rat → Rat → Rat) (R : Rat → Rat → Prop) (hf : Sel f' R) (o f B bs : Nat) (d : List Rat) (r : Arr Rat)
    (h : reduceKeep f' ⟨[1, B, bs, o], tdata o f d⟩ (some [0, 1, 2]) = .ok r) :
    0 < o ∧ 0 < f ∧ r.shape = [1, 1, 1, o] ∧ r.data.length = o ∧ ∀ c < o, IsSel R (el d f c) f (r.data.getD c 0) := by
  obtain ⟨hne, hs, hl, hc⟩ := reduce_cells f' R hf _ _ r h (fun i => i % o) (fun i _ => bindex_chan _ _ _ i)
  have hne' : tdata o f d ≠ [] := hne
  have hlen : 0 < f * o := by
    have : (tdata o f d).length ≠ 0 := fun h0 => hne' (List.eq_nil_of_length_eq_zero h0)
    rw [tdata_length] at this; omega
  obtain ⟨hf0, ho0⟩ := pos_of_mul_pos hlen
  have hks : keepShape [1, B, bs, o] (some [0, 1, 2]) = [1, 1, 1, o] := keep012 _ _ _ _
  have hs' : r.shape = [1, 1, 1, o] := hs.trans hks
  have hnum : numel (keepShape [1, B, bs, o] (some [0, 1, 2])) = o := by rw [hks, numel4]; simp
  have hl' : r.data.length = o := hl.trans hnum
  refine ⟨ho0, hf0, hs', hl', ?_⟩
  intro c hco
  have hsize : ∀ i, i < (⟨[1, B, bs, o], tdata o f d⟩ : Arr Rat).size ↔ i < f * o := by
    intro i; show i < (tdata o f d).length ↔ _; rw [tdata_length]
  have hcf : c < f * o := lt_of_lt_of_le hco (Nat.le_mul_of_pos_left _ hf0)
  obtain ⟨⟨i, hi, hji, e⟩, hall⟩ := hc c (by rw [hnum]; exact hco) ⟨c, (hsize c).2 hcf, Nat.mod_eq_of_lt hco⟩
  have hi' : i < f * o := (hsize i).1 hi
  have hji' : i % o = c := hji
  refine ⟨⟨i / o, Nat.div_lt_of_lt_mul (by rw [Nat.mul_comm]; exact hi'), ?_⟩, ?_⟩
  · have e' : r.data.getD c 0 = (tdata o f d).getD i 0 := e
    rw [e', tdata_getD o f d i hi', hji']
    rfl
  · intro k hk
    have := hall (k * o + c) ((hsize _).2 (idx_lt o f k c hco hk)) (idx_mod o k c hco)
    have e' : R (r.data.getD c 0) ((tdata o f d).getD (k * o + c) 0) := this
    rw [tdata_el o f d k c hco hk] at e'
    exact e'

/-- the ordinary per-channel statistics of a `[o, f]` weight (`axis=(1,)`): the same row extrema -/
theorem row_stats (f' : Rat → Rat → Rat) (R : Rat → Rat → Prop) (hf : Sel f' R) (o f : Nat) (d : List Rat)
    (hd : d.length = o * f) (r : Arr Rat) (h : reduceKeep f' ⟨[o, f], d⟩ (some [1]) = .ok r) :
    0 < o ∧ 0 < f ∧ r.shape = [o, 1] ∧ r.data.length = o ∧ ∀ c < o, IsSel R (el d f c) f (r.data.getD c 0) := by
  have hsize : ∀ i, i < (⟨[o, f], d⟩ : Arr Rat).size ↔ i < o * f := by
    intro i; show i < d.length ↔ _; rw [hd]
  obtain ⟨hne, hs, hl, hc⟩ := reduce_cells f' R hf _ _ r h (fun i => i / f)
    (fun i hi => by
      have : keepShape [o, f] (some [1]) = [o, 1] := keep1 _ _
      show bindex [o, f] (keepShape [o, f] (some [1])) i = i / f
      rw [this]; exact bindex_row o f i ((hsize i).1 hi))
  have hne' : d ≠ [] := hne
  have hlen : 0 < o * f := by
    have : d.length ≠ 0 := fun h0 => hne' (List.eq_nil_of_length_eq_zero h0)
    rw [hd] at this; omega
  obtain ⟨ho0, hf0⟩ := pos_of_mul_pos hlen
  have hks : keepShape [o, f] (some [1]) = [o, 1] := keep1 _ _
  have hs' : r.shape = [o, 1] := hs.trans hks
  have hnum : numel (keepShape [o, f] (some [1])) = o := by rw [hks, numel2]; simp
  have hl' : r.data.length = o := hl.trans hnum
  refine ⟨ho0, hf0, hs', hl', ?_⟩
  intro c hco
  have hrow : ∀ k < f, c * f + k < o * f := by
    intro k hk
    calc c * f + k < c * f + f := by omega
      _ = (c + 1) * f := by rw [Nat.add_mul, Nat.one_mul]
      _ ≤ o * f := Nat.mul_le_mul_right _ hco
  have hrowdiv : ∀ k < f, (c * f + k) / f = c := by
    intro k hk
    rw [Nat.add_comm, Nat.add_mul_div_right _ _ hf0, Nat.div_eq_of_lt hk, Nat.zero_add]
  obtain ⟨⟨i, hi, hji, e⟩, hall⟩ := hc c (by rw [hnum]; exact hco)
    ⟨c * f + 0, (hsize _).2 (hrow 0 hf0), hrowdiv 0 hf0⟩
  have hji' : i / f = c := hji
  refine ⟨⟨i % f, Nat.mod_lt _ hf0, ?_⟩, ?_⟩
  · have e' : r.data.getD c 0 = d.getD i 0 := e
    rw [e']
    unfold el
    rw [← hji', Nat.mul_comm, Nat.div_add_mod]
  · intro k hk
    have := hall (c * f + k) ((hsize _).2 (hrow k hk)) (hrowdiv k hk)
    exact this

/-! ## `init_tensor_min_max`, BLOCKWISE branch -/

theorem reshaped_ok (o f bs : Nat) (d : List Rat) (r : Arr Rat) (h : reshaped ⟨[o, f], d⟩ bs = .ok r) :
    0 < bs ∧ bs ∣ f ∧ r = ⟨[1, f / bs, bs, o], tdata o f d⟩ := by
  have e : reshaped ⟨[o, f], d⟩ bs = if bs = 0 then .error .valueError
      else if f % bs ≠ 0 then .error .valueError else .ok ⟨[1, f / bs, bs, o], tdata o f d⟩ := rfl
  rw [e] at h
  split at h
  · cases h
  · rename_i hb
    split at h
    · cases h
    · rename_i hm
      simp only [Except.ok.injEq] at h
      exact ⟨by omega, Nat.dvd_of_mod_eq_zero (by omega), h.symm⟩

theorem reshaped_of (o f bs : Nat) (d : List Rat) (hb : 0 < bs) (hdvd : bs ∣ f) :
    reshaped ⟨[o, f], d⟩ bs = .ok ⟨[1, f / bs, bs, o], tdata o f d⟩ := by
  have e : reshaped ⟨[o, f], d⟩ bs = if bs = 0 then .error .valueError
      else if f % bs ≠ 0 then .error .valueError else .ok ⟨[1, f / bs, bs, o], tdata o f d⟩ := rfl
  rw [e, if_neg (by omega), if_neg (by rw [Nat.mod_eq_zero_of_dvd hdvd]; exact fun h => h rfl)]

theorem reshaped_err (o f bs : Nat) (d : List Rat) (hb : ¬ (0 < bs ∧ bs ∣ f)) :
    reshaped ⟨[o, f], d⟩ bs = .error .valueError := by
  have e : reshaped ⟨[o, f], d⟩ bs = if bs = 0 then .error .valueError
      else if f % bs ≠ 0 then .error .valueError else .ok ⟨[1, f / bs, bs, o], tdata o f d⟩ := rfl
  rw [e]
  split
  · rfl
  · split
    · rfl
    · rename_i h1 h2
      exact absurd ⟨by omega, Nat.dvd_of_mod_eq_zero (by omega)⟩ hb

/-- **`Blockwise.minMax`**: shape `[1,1,1,o]`, and channel `c` holds the extrema of the WHOLE row `c` -/
theorem minMax_spec (o f bs : Nat) (d : List Rat) (pr : Prec) (mn mx : FArr)
    (h : minMax ⟨⟨[o, f], d⟩, pr⟩ bs = .ok (mn, mx)) :
    0 < bs ∧ bs ∣ f ∧ 0 < o ∧ 0 < f ∧ mn.pr = pr ∧ mx.pr = pr ∧
    mn.arr.shape = [1, 1, 1, o] ∧ mx.arr.shape = [1, 1, 1, o] ∧ mn.arr.data.length = o ∧ mx.arr.data.length = o ∧
    ∀ c < o, mn.arr.data.getD c 0 = rowMin d f c ∧ mx.arr.data.getD c 0 = rowMax d f c := by
  unfold minMax at h
  obtain ⟨r, hr, h⟩ := bind_ok _ _ _ h
  obtain ⟨a, ha, h⟩ := bind_ok _ _ _ h
  obtain ⟨b, hb, h⟩ := bind_ok _ _ _ h
  simp only [pure, Except.pure, Except.ok.injEq, Prod.mk.injEq] at h
  obtain ⟨rfl, rfl⟩ := h
  obtain ⟨hbs, hdvd, rfl⟩ := reshaped_ok o f bs d r hr
  obtain ⟨ho, hf, s1, l1, c1⟩ := chan_stats minR _ sel_min o f _ bs d a ha
  obtain ⟨_, _, s2, l2, c2⟩ := chan_stats maxR _ sel_max o f _ bs d b hb
  refine ⟨hbs, hdvd, ho, hf, rfl, rfl, s1, s2, l1, l2, ?_⟩
  intro c hc
  exact ⟨isSel_le_unique (c1 c hc) (segMin_isSel _ f hf), isSel_ge_unique (c2 c hc) (segMax_isSel _ f hf)⟩

/-! ## the parameters -/

theorem join_self (pr : Prec) : pr.join pr = pr := by cases pr <;> rfl

theorem getD_of_lt {α} (l : List α) (i : Nat) (x : α) (h : i < l.length) : l[i]? = some (l.getD i x) := by
  rw [List.getD_eq_getElem?_getD, List.getElem?_eq_getElem h, Option.getD_some]

/-- `paramsOf` on statistics of one shape `s`: channel `i` is the scalar core on channel `i` -/
theorem paramsOf_spec (bits : Nat) (sym : Bool) (mn mx : FArr) (s : List Nat) (hmn : mn.arr.shape = s)
    (hmx : mx.arr.shape = s) (qp : QParams) (h : paramsOf bits sym mn mx = .ok qp) :
    qp.bits = bits ∧ qp.symmetric = sym ∧ qp.qdim = none ∧ qp.scale.pr = mn.pr.join mx.pr ∧ qp.zp.w = storageBits bits ∧
    qp.scale.arr.shape = s ∧ qp.zp.arr.shape = s ∧ qp.scale.arr.data.length = numel s ∧ qp.zp.arr.data.length = numel s ∧
    ∀ i < numel s, zpScale1 (mn.pr.join mx.pr) bits sym (mn.arr.data.getD i 0) (mx.arr.data.getD i 0)
      = .ok (qp.zp.arr.data.getD i 0, qp.scale.arr.data.getD i 0) := by
  unfold paramsOf at h
  obtain ⟨zs, hz, h⟩ := bind_ok _ _ _ h
  simp only [pure, Except.pure, Except.ok.injEq] at h
  subst h
  obtain ⟨zp, scale⟩ := zs
  obtain ⟨hw, hpr, rs, hrs, h1, h2, h3, h4, hel⟩ := zpScale_elems bits sym mn mx zp scale hz
  rw [hmn, hmx, bshapeAny_self] at hrs
  cases hrs
  refine ⟨rfl, rfl, rfl, hpr, hw, h2, h1, h4, h3, ?_⟩
  intro i hi
  have := hel i (zp.arr.data.getD i 0) (scale.arr.data.getD i 0) (getD_of_lt _ _ _ (by rw [h3]; exact hi))
    (getD_of_lt _ _ _ (by rw [h4]; exact hi))
  rw [hmn, hmx, ConstQuant.bindex_self s i hi] at this
  exact this

/-- **`Blockwise.params`**: one (zero point, scale) per output channel, computed from the extrema of the WHOLE row -/
theorem params_spec (o f bs bits : Nat) (sym : Bool) (d : List Rat) (pr : Prec) (qp : QParams)
    (h : params ⟨⟨[o, f], d⟩, pr⟩ bs bits sym = .ok qp) :
    0 < bs ∧ bs ∣ f ∧ 0 < o ∧ 0 < f ∧
    qp.bits = bits ∧ qp.symmetric = sym ∧ qp.qdim = none ∧ qp.scale.pr = pr ∧ qp.zp.w = storageBits bits ∧
    qp.scale.arr.shape = [1, 1, 1, o] ∧ qp.zp.arr.shape = [1, 1, 1, o] ∧
    qp.scale.arr.data.length = o ∧ qp.zp.arr.data.length = o ∧
    ∀ c < o, zpScale1 pr bits sym (rowMin d f c) (rowMax d f c)
      = .ok (qp.zp.arr.data.getD c 0, qp.scale.arr.data.getD c 0) := by
  unfold params at h
  obtain ⟨mm, hmm, h⟩ := bind_ok _ _ _ h
  obtain ⟨mn, mx⟩ := mm
  obtain ⟨hbs, hdvd, ho, hf, p1, p2, s1, s2, l1, l2, hc⟩ := minMax_spec o f bs d pr mn mx hmm
  obtain ⟨q1, q2, q3, q4, q5, q6, q7, q8, q9, hel⟩ := paramsOf_spec bits sym mn mx _ s1 s2 qp h
  have hn : numel [1, 1, 1, o] = o := by rw [numel4]; simp
  rw [p1, p2, join_self] at q4 hel
  refine ⟨hbs, hdvd, ho, hf, q1, q2, q3, q4, q5, q6, q7, q8.trans hn, q9.trans hn, ?_⟩
  intro c hco
  have := hel c (by rw [hn]; exact hco)
  rw [(hc c hco).1, (hc c hco).2] at this
  exact this

/-! ## `uniform_quantize_for_emulated_subchannel` -/

/-- **the layout**: parameters of a shape `ps` that broadcasts into `[1, f/bs, bs, o]`; the code at
    `[0][b][k][c]` (flat `j * o + c`, `j = b * bs + k`) is the scalar core on `w[c][j]` and on the parameter cell of
    that position -/
theorem quantizeWith_spec (o f bs : Nat) (d : List Rat) (pr : Prec) (qp : QParams) (ps : List Nat)
    (hs : qp.scale.arr.shape = ps) (hz : qp.zp.arr.shape = ps) (hcp : NumT.Compat ps [1, f / bs, bs, o]) (q : IArr)
    (h : quantizeWith ⟨⟨[o, f], d⟩, pr⟩ qp bs = .ok q) :
    0 < bs ∧ bs ∣ f ∧ q.w = storageBits qp.bits ∧ q.arr.shape = [1, f / bs, bs, o] ∧ q.arr.data.length = f * o ∧
    ∀ c < o, ∀ j < f,
      quantize1 pr qp.scale.pr qp.zp.w qp.bits qp.symmetric (el d f c j)
        (qp.scale.arr.data.getD (bindex [1, f / bs, bs, o] ps (j * o + c)) 0)
        (qp.zp.arr.data.getD (bindex [1, f / bs, bs, o] ps (j * o + c)) 0) = .ok (q.arr.data.getD (j * o + c) 0) := by
  unfold quantizeWith at h
  obtain ⟨r, hr, h⟩ := bind_ok _ _ _ h
  obtain ⟨sz, hsz, h⟩ := bind_ok _ _ _ h
  obtain ⟨out, hout, h⟩ := bind_ok _ _ _ h
  simp only [pure, Except.pure, Except.ok.injEq] at h
  subst h
  obtain ⟨hbs, hdvd, rfl⟩ := reshaped_ok o f bs d r hr
  -- the (scale, zero point) pairs
  obtain ⟨rs0, hrs0, hsh0, hlen0, hel0⟩ := zipB_ok _ _ _ _ hsz
  rw [hs, hz, bshapeAny_self] at hrs0
  cases hrs0
  -- the codes
  obtain ⟨rs, hrs, hsh, hlen, hel⟩ := zipB_ok _ _ _ _ hout
  rw [hsh0] at hrs
  have hrs' : bshapeAny [1, f / bs, bs, o] ps = some [1, f / bs, bs, o] := NumT.bshapeAny_compat hcp
  have hrs'' : bshapeAny [1, f / bs, bs, o] ps = some rs := hrs
  rw [hrs'] at hrs''
  cases hrs''
  have hnum : numel [1, f / bs, bs, o] = f * o := by
    rw [numel4, Nat.one_mul, Nat.div_mul_cancel hdvd]
  refine ⟨hbs, hdvd, rfl, hsh, hlen.trans hnum, ?_⟩
  intro c hco j hjf
  have hi : j * o + c < f * o := idx_lt o f j c hco hjf
  have hin : j * o + c < numel [1, f / bs, bs, o] := by rw [hnum]; exact hi
  have hil : j * o + c < out.data.length := by rw [hlen]; exact hin
  have e := hel (j * o + c) (out.data.getD (j * o + c) 0) (getD_of_lt _ _ _ hil)
  rw [hsh0] at e
  have e1 : (⟨[1, f / bs, bs, o], tdata o f d⟩ : Arr Rat).data.getD
      (bindex [1, f / bs, bs, o] (⟨[1, f / bs, bs, o], tdata o f d⟩ : Arr Rat).shape (j * o + c)) default = el d f c j := by
    show (tdata o f d).getD (bindex [1, f / bs, bs, o] [1, f / bs, bs, o] (j * o + c)) 0 = el d f c j
    rw [ConstQuant.bindex_self _ _ hin, tdata_el o f d j c hco hjf]
    rfl
  rw [e1] at e
  -- the pair at the parameter cell
  have hm : bindex [1, f / bs, bs, o] ps (j * o + c) < numel ps := NumT.bindex_compat_lt hcp _ hin
  have hml : bindex [1, f / bs, bs, o] ps (j * o + c) < sz.data.length := by rw [hlen0]; exact hm
  have hpair := hel0 _ (sz.data.getD (bindex [1, f / bs, bs, o] ps (j * o + c)) default) (getD_of_lt _ _ _ hml)
  simp only [pure, Except.pure, Except.ok.injEq] at hpair
  rw [hs, hz, ConstQuant.bindex_self ps _ hm] at hpair
  rw [← hpair] at e
  exact e

/-- **`Blockwise.quantize`**: the codes, in the layout `data[0][b][k][c] = q(w[c][b*bs + k])`, every element of row
    `c` being quantized with the ONE (zero point, scale) of channel `c` -/
theorem quantize_spec (o f bs bits : Nat) (sym : Bool) (d : List Rat) (pr : Prec) (q : IArr)
    (h : quantize ⟨⟨[o, f], d⟩, pr⟩ bs bits sym = .ok q) :
    ∃ qp, params ⟨⟨[o, f], d⟩, pr⟩ bs bits sym = .ok qp ∧
      q.w = storageBits bits ∧ q.arr.shape = [1, f / bs, bs, o] ∧ q.arr.data.length = f * o ∧
      ∀ c < o, ∀ j < f,
        quantize1 pr pr (storageBits bits) bits sym (el d f c j)
          (qp.scale.arr.data.getD c 0) (qp.zp.arr.data.getD c 0) = .ok (q.arr.data.getD (j * o + c) 0) := by
  unfold quantize at h
  obtain ⟨qp, hp, h⟩ := bind_ok _ _ _ h
  obtain ⟨_, _, _, _, q1, q2, _, q4, q5, q6, q7, _, _, _⟩ := params_spec o f bs bits sym d pr qp hp
  obtain ⟨_, _, w1, w2, w3, hel⟩ := quantizeWith_spec o f bs d pr qp _ q6 q7 (compat_chan _ _ _) q h
  refine ⟨qp, hp, by rw [w1, q1], w2, w3, ?_⟩
  intro c hc j hj
  have := hel c hc j hj
  rw [bindex_chan, idx_mod o j c hc, q1, q2, q4, q5] at this
  exact this

/-! ## the ordinary CHANNELWISE quantization of the same weight -/

theorem zpScale_same (bits : Nat) (sym : Bool) (mn mx : FArr) (s : List Nat) (hmn : mn.arr.shape = s)
    (hmx : mx.arr.shape = s) (zp : IArr) (scale : FArr) (h : zpScale bits sym mn mx = .ok (zp, scale)) :
    scale.pr = mn.pr.join mx.pr ∧ zp.w = storageBits bits ∧
    scale.arr.shape = s ∧ zp.arr.shape = s ∧ scale.arr.data.length = numel s ∧ zp.arr.data.length = numel s ∧
    ∀ i < numel s, zpScale1 (mn.pr.join mx.pr) bits sym (mn.arr.data.getD i 0) (mx.arr.data.getD i 0)
      = .ok (zp.arr.data.getD i 0, scale.arr.data.getD i 0) := by
  have hp : paramsOf bits sym mn mx = .ok { bits := bits, qdim := none, scale := scale, zp := zp, symmetric := sym } := by
    unfold paramsOf
    rw [h]
    rfl
  obtain ⟨_, _, _, q4, q5, q6, q7, q8, q9, hel⟩ := paramsOf_spec bits sym mn mx s hmn hmx _ hp
  exact ⟨q4, q5, q6, q7, q8, q9, hel⟩

theorem channelwise_eq (o f bits : Nat) (sym : Bool) (d : List Rat) (pr : Prec) :
    channelwise ⟨⟨[o, f], d⟩, pr⟩ bits sym =
      (do
        let mn ← reduceKeep minR ⟨[o, f], d⟩ (some [1])
        let mx ← reduceKeep maxR ⟨[o, f], d⟩ (some [1])
        let zs ← zpScale bits sym ⟨mn, pr⟩ ⟨mx, pr⟩
        let q ← uniformQuantize ⟨⟨[o, f], d⟩, pr⟩
          { bits := bits, qdim := some 0, scale := zs.2, zp := zs.1, symmetric := sym }
        pure ({ bits := bits, qdim := some 0, scale := zs.2, zp := zs.1, symmetric := sym }, q)) := rfl

theorem row_idx_lt (o f c j : Nat) (hc : c < o) (hj : j < f) : c * f + j < o * f := by
  calc c * f + j < c * f + f := by omega
    _ = (c + 1) * f := by rw [Nat.add_mul, Nat.one_mul]
    _ ≤ o * f := Nat.mul_le_mul_right _ hc

theorem row_idx_div (f c j : Nat) (hj : j < f) : (c * f + j) / f = c := by
  have hf : 0 < f := by omega
  rw [Nat.add_comm, Nat.add_mul_div_right _ _ hf, Nat.div_eq_of_lt hj, Nat.zero_add]

/-- **the ordinary per-channel quantization** (quantized dimension 0) of a well-formed `[o, f]` weight -/
theorem channelwise_spec (o f bits : Nat) (sym : Bool) (d : List Rat) (hd : d.length = o * f) (pr : Prec)
    (qp : QParams) (q : IArr) (h : channelwise ⟨⟨[o, f], d⟩, pr⟩ bits sym = .ok (qp, q)) :
    0 < o ∧ 0 < f ∧
    qp.bits = bits ∧ qp.symmetric = sym ∧ qp.qdim = some 0 ∧ qp.scale.pr = pr ∧ qp.zp.w = storageBits bits ∧
    qp.scale.arr.shape = [o, 1] ∧ qp.zp.arr.shape = [o, 1] ∧ qp.scale.arr.data.length = o ∧ qp.zp.arr.data.length = o ∧
    (∀ c < o, zpScale1 pr bits sym (rowMin d f c) (rowMax d f c)
      = .ok (qp.zp.arr.data.getD c 0, qp.scale.arr.data.getD c 0)) ∧
    q.w = storageBits bits ∧ q.arr.shape = [o, f] ∧ q.arr.data.length = o * f ∧
    ∀ c < o, ∀ j < f,
      quantize1 pr pr (storageBits bits) bits sym (el d f c j)
        (qp.scale.arr.data.getD c 0) (qp.zp.arr.data.getD c 0) = .ok (q.arr.data.getD (c * f + j) 0) := by
  rw [channelwise_eq] at h
  obtain ⟨mn, hmn, h⟩ := bind_ok _ _ _ h
  obtain ⟨mx, hmx, h⟩ := bind_ok _ _ _ h
  obtain ⟨zs, hzs, h⟩ := bind_ok _ _ _ h
  obtain ⟨q0, hq, h⟩ := bind_ok _ _ _ h
  simp only [pure, Except.pure, Except.ok.injEq, Prod.mk.injEq] at h
  obtain ⟨rfl, rfl⟩ := h
  obtain ⟨zp, scale⟩ := zs
  obtain ⟨ho, hf, s1, l1, c1⟩ := row_stats minR _ sel_min o f d hd mn hmn
  obtain ⟨_, _, s2, l2, c2⟩ := row_stats maxR _ sel_max o f d hd mx hmx
  obtain ⟨z1, z2, z3, z4, z5, z6, hel⟩ := zpScale_same bits sym ⟨mn, pr⟩ ⟨mx, pr⟩ [o, 1] s1 s2 zp scale hzs
  have hn : numel [o, 1] = o := by rw [numel2]; simp
  have z1' : scale.pr = pr := by rw [z1]; exact join_self pr
  obtain ⟨ss, rs, hss, hrs, _, _, hw, hsh, hlen, hcodes⟩ := ConstQuant.uniformQuantize_spec _ _ _ hq
  dsimp only at hss hrs hw hsh hlen hcodes
  have hss' : ss = [o, 1] := by rw [hss (by rw [z3]; rfl)]; exact z3
  subst hss'
  have hrs' : rs = [o, f] := by
    have := NumT.bshape_compat (compat_row o f)
    rw [this] at hrs
    exact (Option.some.inj hrs).symm
  subst hrs'
  have hnum : numel [o, f] = o * f := numel2 o f
  refine ⟨ho, hf, rfl, rfl, rfl, z1', z2, z3, z4, z5.trans hn, z6.trans hn, ?_, hw, hsh, hlen.trans hnum, ?_⟩
  · intro c hc
    have := hel c (by rw [hn]; exact hc)
    dsimp only at this
    rw [join_self, isSel_le_unique (c1 c hc) (segMin_isSel _ f hf), isSel_ge_unique (c2 c hc) (segMax_isSel _ f hf)] at this
    exact this
  · intro c hc j hj
    have hi : c * f + j < numel [o, f] := by rw [hnum]; exact row_idx_lt o f c j hc hj
    have := hcodes (c * f + j) (q0.arr.data.getD (c * f + j) 0) (getD_of_lt _ _ _ (by rw [hlen]; exact hi))
    rw [ConstQuant.bindex_self _ _ hi, bindex_row o f _ (by rw [← hnum]; exact hi), row_idx_div f c j hj, z1', z2] at this
    exact this

end BlockwiseL
