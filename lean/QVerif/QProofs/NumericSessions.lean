import QProofs.NumericCalib2
/-!
# What a user has in hand after calibrating a multi-signature model satisfies the hypotheses of the totality theorem

From a calibration history (`calibrateSessions`: any list of `(subgraph index, samples)` sessions, each resumed from the
result of the previous one) to the statistics hypotheses of `C08.quantize_total`:

* `statsComplete_of_sessions` -- `Hyp.stats`, when every subgraph of the model is calibrated by some session with at least
  one sample;
* `stats_of_sessions` -- `Bounded.stats` (and more: `min ≤ max`, one format for `min` and `max`, the RANK of the recorded
  arrays is the rank of the tensor contents), when the contents of the float32 runtime tensors are finite;
* `concat_of_rank` -- `Bounded.concat` follows from the rank clause: the parameters of a result that are lent to a constant
  operand of a CONCATENATION have the rank of that operand, so `fix_quantization_params_rank` returns them unchanged
  (`fixRank_calibrated`); its rank-1 expansion branch is not reachable from calibrated statistics -- and it could not
  succeed on them anyway (`fixRank_expand_fails`: for per-tensor parameters `np.expand_dims` yields rank `r + 1`, which
  `_is_valid_quantization_params` rejects);
* `hyp_of_sessions`, `bounded_of_sessions` -- the two hypotheses assembled from conditions on the MODEL (`HypModel`,
  `BoundedModel`) and on the sample CONTENTS (`ContOK`).
-/
open Graph Mat Arith Cfg Num Nd Calib CalibExact NumT MatParams Pipe PipeNF GenInstsOK

set_option autoImplicit false

namespace MatTotal

/-! ## names -/

/-- under unique tensor names a name determines the tensor -/
theorem tensor_unique (m : Model) (hnu : namesUnique m) (sg sg' : Subgraph) (hsg : sg ∈ m.subgraphs) (hsg' : sg' ∈ m.subgraphs)
    (t t' : Tensor) (ht : t ∈ sg.tensors) (ht' : t' ∈ sg'.tensors) (hn : t.name = t'.name) : t = t' := by
  obtain ⟨s, hs⟩ := List.mem_iff_getElem?.1 hsg
  obtain ⟨s', hs'⟩ := List.mem_iff_getElem?.1 hsg'
  obtain ⟨i, hi⟩ := List.mem_iff_getElem?.1 ht
  obtain ⟨i', hi'⟩ := List.mem_iff_getElem?.1 ht'
  obtain ⟨_, rfl, rfl⟩ := loc_unique m hnu t.name s s' sg sg' i i' ⟨hs, t, hi, rfl⟩ ⟨hs', t', hi', hn.symm⟩
  rw [hi] at hi'
  exact Option.some.inj hi'

/-- the same-as-input operators (RESHAPE, TRANSPOSE, …) selected for quantization act on RUNTIME float tensors (the
    converter folds a reshape of a float constant); nothing is asked of their integer operands -/
def PassRuntime (rx : String → String → Bool) (env : Env) (st : Recipe.State) : Prop :=
  ∀ sg ∈ env.model.subgraphs, ∀ q ∈ allOps sg, ∀ k scope ops fn, Selected rx env st sg q k scope ops fn →
    (kindOf (Recipe.resolve rx st k scope).1 fn).isPass = true →
    ∀ a ∈ q.1.inputs ++ q.1.outputs, a ≠ -1 → ∀ t, tensorAt sg a = .ok t → t.dtype = Tables.ttFloat32 → constData env t = none

/-- a name whose statistics matter is the name of a runtime tensor, not of a constant -/
theorem statName_not_const (rx : String → String → Bool) (env : Env) (st : Recipe.State) (hnu : namesUnique env.model)
    (hp : PassRuntime rx env st) (n : String) (h : StatName rx env st n) : ¬ ConstNamed env n := by
  obtain ⟨sg, hsg, q, hq, k, scope, ops, fn, S, _, a, ha, hane, t, hat, rfl, hfl, hc⟩ := h
  rintro ⟨sg2, hsg2, t2, ht2, hn2, d, hd, _⟩
  have hnc : constData env t = none := by
    rcases hc with hc | ⟨hpass, _⟩
    · exact hc
    · exact hp sg hsg q hq k scope ops fn S hpass a ha hane t hat hfl
  have := tensor_unique env.model hnu sg2 sg hsg2 hsg t2 t ht2 (Locality.tensorAt_mem sg a t hat) hn2
  subst this
  unfold constAny at hd
  rw [hnc] at hd
  cases hd

/-! ## completeness -/

theorem isOp_of_selected (rx : String → String → Bool) (env : Env) (st : Recipe.State) (sg : Subgraph)
    (q : Op × Option String × Int) (hq : q ∈ allOps sg) (k scope fn : String) (ops : List (String × String))
    (S : Selected rx env st sg q k scope ops fn) : CalibProofs.IsOp env sg q.1 k := by
  rcases mem_allOps sg q hq with ⟨j, op, hop, rfl⟩ | rfl | rfl
  · refine .real op k (List.mem_of_getElem? hop) ?_
    have := S.hkey
    unfold keyOf at this
    unfold opKey
    exact this
  · have : k = "INPUT" := by
      have := S.hkey; simp only [keyOf, inEntry, pure, Except.pure, Except.ok.injEq, Option.some.injEq] at this
      exact this.symm
    subst this
    exact .input
  · have : k = "OUTPUT" := by
      have := S.hkey; simp only [keyOf, outEntry, pure, Except.pure, Except.ok.injEq, Option.some.injEq] at this
      exact this.symm
    subst this
    exact .output

/-- **after the sessions the statistics are complete** (`Hyp.stats`): every subgraph of the model is calibrated, on at least
    one sample, by one of the sessions -/
theorem statsComplete_of_sessions (rx : String → String → Bool) (env : Env) (st : Recipe.State) (hns : NoSkip st)
    (hp : PassRuntime rx env st) (hneed : Recipe.needCalibration st = true)
    (previous : Option Qsvs) (L : List (Nat × List Contents)) (r : Option Qsvs)
    (h : calibrateSessions rx env st previous L = .ok r)
    (hcov : ∀ i sg, env.model.subgraphs[i]? = some sg → ∃ s ∈ L, s.1 = i ∧ s.2 ≠ []) :
    StatsComplete rx env st (r.getD []) := by
  intro sg hsg q hq k scope ops fn S hact a ha hane t hat hfl hc
  obtain ⟨i, hi⟩ := List.mem_iff_getElem?.1 hsg
  obtain ⟨s, hs, rfl, hne⟩ := hcov i sg hi
  have hop := isOp_of_selected rx env st sg q hq k scope fn ops S
  have halg : (Recipe.resolve rx st k scope).1 = Tables.algMinMax := by
    obtain ⟨hgood, _⟩ := resolve_selected rx st hns k scope S.halg
    rcases hgood.alg with h1 | h1
    · exact h1
    · obtain ⟨_, _, hnone, _⟩ := hgood.cast h1
      rw [hnone] at hact
      cases hact
  have hnc : constAny env t = none := by
    rcases hc with hc | hc
    · exact hc
    · exact hp sg hsg q hq k scope ops fn S hc a ha hane t hat hfl
  exact sessions_complete rx env st hneed previous L r h s hs hne sg hi q.1 k scope hop S.hscope halg a ha hane t hat hnc

/-- the history returns a dictionary (not `None`) as soon as there is one session -/
theorem sessions_isSome (rx : String → String → Bool) (env : Env) (st : Recipe.State) :
    ∀ (L : List (Nat × List Contents)) (previous r : Option Qsvs), (L ≠ [] ∨ previous.isSome = true) →
    calibrateSessions rx env st previous L = .ok r → r.isSome = true := by
  intro L
  induction L with
  | nil =>
    intro previous r hne h
    rcases hne with hne | hne
    · exact absurd rfl hne
    · unfold calibrateSessions at h
      simp only [List.foldlM_nil, pure, Except.pure, Except.ok.injEq] at h
      subst h; exact hne
  | cons s L ih =>
    intro previous r _ h
    unfold calibrateSessions at h
    rw [List.foldlM_cons] at h
    obtain ⟨p', hstep, h⟩ := GraphInv.bind_ok _ _ _ h
    obtain ⟨q, _, rfl⟩ := session_step rx env st previous p' s hstep
    exact ih (some q) r (.inr rfl) h

/-! ## boundedness -/

/-- **after the sessions the recorded statistics of every float32 tensor that matters are good, ordered, and of the rank of
    the contents** -/
theorem stats_of_sessions (rx : String → String → Bool) (env : Env) (st : Recipe.State) (hnu : namesUnique env.model)
    (hp : PassRuntime rx env st) (hneed : Recipe.needCalibration st = true) (rk : String → Nat)
    (previous : Option Qsvs) (L : List (Nat × List Contents)) (r : Option Qsvs)
    (hprev : SInv (StatName rx env st) rk (previous.getD []))
    (hcont : ∀ s ∈ L, ∀ c ∈ s.2, ContOK (StatName rx env st) rk c)
    (h : calibrateSessions rx env st previous L = .ok r) : SInv (StatName rx env st) rk (r.getD []) :=
  sessions_sinv (StatName rx env st) rk rx env st (statName_not_const rx env st hnu hp) hneed previous L r hprev hcont h

/-! ## the rank of lent parameters: `fix_quantization_params_rank` -/

/-- parameters of the tensor's rank are returned unchanged … -/
theorem fixRank_same (sh : List Nat) (qp : QParams) (h : sh.length = qp.scale.arr.rank) : fixRank sh qp = .ok qp := by
  unfold fixRank
  simp only [h, if_true]

/-- … and this is the branch taken for parameters computed from calibrated statistics of rank `k` on a tensor of rank `k` -/
theorem fixRank_calibrated (k : Nat) (mn mx : FArr) (O : StatOrdK k mn mx) (bits : Nat) (sym : Bool) (qdim : Option Nat)
    (zp : IArr) (scale : FArr) (h : zpScale bits sym mn mx = .ok (zp, scale)) (sh : List Nat) (hk : sh.length = k) :
    fixRank sh { bits := bits, qdim := qdim, scale := scale, zp := zp, symmetric := sym } =
      .ok { bits := bits, qdim := qdim, scale := scale, zp := zp, symmetric := sym } := by
  obtain ⟨_, _, rs, hrs, _, hss, _⟩ := zpScale_elems bits sym mn mx zp scale h
  rw [← O.shape, bshapeAny_self] at hrs
  cases hrs
  refine fixRank_same _ _ ?_
  show sh.length = scale.arr.shape.length
  rw [hss, O.rank, hk]

theorem expandShape_none_length (r n : Nat) : (expandShape r none n).length = r + 1 := by
  simp [expandShape]

theorem expandShape_ge_length (r q n : Nat) (h : r ≤ q) : (expandShape r (some q) n).length = r + 1 := by
  unfold expandShape
  simp only [if_neg (by omega : ¬ q < r)]
  simp

/-- **the rank-1 expansion branch cannot succeed on per-tensor parameters**: for `quantized_dimension = None` (all that
    statistics of runtime tensors ever give) `np.expand_dims(scale, axis=range(r))` has rank `r + 1`, which
    `_is_valid_quantization_params` rejects -- `uniform_quantize` raises ValueError -/
theorem fixRank_expand_fails (x : FArr) (qp : QParams) (h0 : x.arr.shape.length ≠ 0)
    (h1 : x.arr.shape.length ≠ qp.scale.arr.rank) (hr : qp.scale.arr.rank = 1 ∧ qp.zp.arr.rank = 1)
    (hq : qp.qdim = none ∨ ∃ q, qp.qdim = some q ∧ x.arr.shape.length ≤ q) :
    uniformQuantize x qp = .error .valueError := by
  unfold uniformQuantize
  have hfix : fixRank x.arr.shape qp = .ok
      { qp with scale := { qp.scale with arr := ⟨expandShape x.arr.shape.length qp.qdim qp.scale.arr.size, qp.scale.arr.data⟩ },
                zp := { qp.zp with arr := ⟨expandShape x.arr.shape.length qp.qdim qp.zp.arr.size, qp.zp.arr.data⟩ } } := by
    unfold fixRank
    simp only []
    rw [if_neg h1, if_neg h0, if_pos hr]
  rw [hfix]
  simp only [bind, Except.bind]
  have hlen : (expandShape x.arr.shape.length qp.qdim qp.scale.arr.size).length = x.arr.shape.length + 1 := by
    rcases hq with hq | ⟨q, hq, hle⟩
    · rw [hq]; exact expandShape_none_length _ _
    · rw [hq]; exact expandShape_ge_length _ _ _ hle
  have hv : validParams x.arr.shape
      { qp with scale := { qp.scale with arr := ⟨expandShape x.arr.shape.length qp.qdim qp.scale.arr.size, qp.scale.arr.data⟩ },
                zp := { qp.zp with arr := ⟨expandShape x.arr.shape.length qp.qdim qp.zp.arr.size, qp.zp.arr.data⟩ } } =
      .error .valueError := by
    unfold validParams
    split
    · rfl
    · rw [if_pos]
      show x.arr.shape.length ≠ (expandShape x.arr.shape.length qp.qdim qp.scale.arr.size).length
      rw [hlen]; omega
  rw [hv]

/-! ## conditions on the model alone -/

/-- the hypotheses of the totality theorem that speak of the model and the recipe only (`Hyp` without its two clauses about
    the statistics) -/
structure HypModel (rx : String → String → Bool) (env : Env) (st : Recipe.State) : Prop where
  nf : PipelineWF.NF env st
  float : (env.model.subgraphs.any fun sg => sg.tensors.any (·.quant.isSome)) = false
  names : namesUnique env.model
  noSkip : NoSkip st
  inputsNodup : ∀ sg ∈ env.model.subgraphs, sg.inputs.Nodup
  tensorsNE : ∀ sg ∈ env.model.subgraphs, sg.tensors ≠ []
  constNE : ∀ sg ∈ env.model.subgraphs, ∀ t ∈ sg.tensors, ∀ d, constData env t = some d → d.data ≠ []
  shape : ∀ sg ∈ env.model.subgraphs, ∀ (j : Nat) (op : Op), sg.ops[j]? = some op → ∀ k scope ops fn,
    Selected rx env st sg (op, none, (j : Int)) k scope ops fn →
    OpShape env sg op (Recipe.resolve rx st k scope).2 (kindOf (Recipe.resolve rx st k scope).1 fn)

theorem HypModel.hyp {rx : String → String → Bool} {env : Env} {st : Recipe.State} (M : HypModel rx env st) (qs : Qsvs)
    (hs : StatsComplete rx env st qs) : Hyp rx env st (some qs) :=
  { nf := M.nf, float := M.float, names := M.names, statsGiven := fun _ => rfl, noSkip := M.noSkip,
    inputsNodup := M.inputsNodup, tensorsNE := M.tensorsNE, constNE := M.constNE, stats := hs, shape := M.shape }

theorem Hyp.model {rx : String → String → Bool} {env : Env} {st : Recipe.State} {qsvs : Option Qsvs}
    (H : Hyp rx env st qsvs) : HypModel rx env st :=
  ⟨H.nf, H.float, H.names, H.noSkip, H.inputsNodup, H.tensorsNE, H.constNE, H.shape⟩

/-- the clauses of `Bounded` that speak of the model only; `rk n` is the rank of the contents of the tensor named `n` (its
    declared rank).  `cat`: the result of a same-as-output operator (CONCATENATION) that has a CONSTANT float operand is a
    float32 runtime tensor of the operand's rank. -/
structure BoundedModel (rx : String → String → Bool) (env : Env) (st : Recipe.State) (rk : String → Nat) : Prop where
  consts : ∀ sg ∈ env.model.subgraphs, ∀ t ∈ sg.tensors, ∀ d, constData env t = some d → ∀ x ∈ d.data, |x| ≤ B
  cat : ∀ sg ∈ env.model.subgraphs, ∀ q ∈ allOps sg, ∀ k scope ops fn, Selected rx env st sg q k scope ops fn →
    ∀ gi, kindOf (Recipe.resolve rx st k scope).1 fn = .std .sameAsOutput gi →
    ∀ a ∈ q.1.inputs, a ≠ -1 → ∀ t, tensorAt sg a = .ok t → t.dtype = Tables.ttFloat32 → constData env t ≠ none →
    ∀ b ∈ q.1.outputs, b ≠ -1 → ∀ t', tensorAt sg b = .ok t' →
      t'.dtype = Tables.ttFloat32 ∧ constData env t' = none ∧ rk t'.name = t.shape.length
  bias : ∀ sg ∈ env.model.subgraphs, ∀ q ∈ allOps sg, ∀ k scope ops fn, Selected rx env st sg q k scope ops fn →
    isSRQ (Recipe.resolve rx st k scope).2 = true →
    ∀ iIn iW iB, convSlots (kindOf (Recipe.resolve rx st k scope).1 fn) = some (iIn, iW, iB) →
    ∀ a bt, q.1.inputs[iB]? = some a → a ≠ -1 → tensorAt sg a = .ok bt →
      (∃ n, shapeNat bt = [n] ∧ ∀ aw tW, q.1.inputs[iW]? = some aw → tensorAt sg aw = .ok tW →
        ∀ qd, Py.dictGet? Tables.weightQDim k = some qd → (shapeNat tW).getD qd 1 = n) ∧
      (∀ ai tI, q.1.inputs[iIn]? = some ai → tensorAt sg ai = .ok tI → constData env tI = none)
  cast : ∀ sg ∈ env.model.subgraphs, ∀ q ∈ allOps sg, ∀ k scope ops fn, Selected rx env st sg q k scope ops fn →
    ∀ a b c, kindOf (Recipe.resolve rx st k scope).1 fn = .cast a b c →
    ∀ slot tw d, q.1.inputs[b]? = some slot → tensorAt sg slot = .ok tw → constData env tw = some d → ∀ x ∈ d.data, |x| ≤ 65504

/-- **`Bounded.concat` from the rank clause of the invariant**: the statistics of the result have the rank of the constant
    operand, so the lent parameters need no rank fixing -/
theorem concat_of_rank (rx : String → String → Bool) (env : Env) (st : Recipe.State) (rk : String → Nat)
    (BM : BoundedModel rx env st rk) (qs : Qsvs) (hI : SInv (StatName rx env st) rk qs) :
    ∀ sg ∈ env.model.subgraphs, ∀ q ∈ allOps sg, ∀ k scope ops fn, Selected rx env st sg q k scope ops fn →
    ∀ gi, kindOf (Recipe.resolve rx st k scope).1 fn = .std .sameAsOutput gi →
    ∀ a ∈ q.1.inputs, a ≠ -1 → ∀ t, tensorAt sg a = .ok t → t.dtype = Tables.ttFloat32 → constData env t ≠ none →
    ∀ b ∈ q.1.outputs, b ≠ -1 → ∀ t', tensorAt sg b = .ok t' →
    ∀ mn mx, Py.dictGet? qs t'.name = some (some (mn, mx)) → mn.arr.shape.length = t.shape.length := by
  intro sg hsg q hq k scope ops fn S gi hk a ha hane t hat hfl hc b hb hbne t' hbt mn mx hget
  obtain ⟨hfl', hrun, hrk⟩ := BM.cat sg hsg q hq k scope ops fn S gi hk a ha hane t hat hfl hc b hb hbne t' hbt
  have hspec := (kindSpec_of_registry _ k fn ops S.hops S.hfn).1
  rw [hk] at hspec
  simp only [kindSpec, Bool.and_eq_true, beq_iff_eq] at hspec
  have hsn : StatName rx env st t'.name :=
    ⟨sg, hsg, q, hq, k, scope, ops, fn, S, hspec.1, b, List.mem_append_right _ hb, hbne, t', hbt, rfl, hfl', .inl hrun⟩
  rw [← hrk]
  exact (hI t'.name hsn mn mx hget).rank

/-- **`Bounded` after the sessions** -/
theorem bounded_of_sessions (rx : String → String → Bool) (env : Env) (st : Recipe.State) (hnu : namesUnique env.model)
    (hp : PassRuntime rx env st) (hneed : Recipe.needCalibration st = true) (rk : String → Nat)
    (BM : BoundedModel rx env st rk)
    (previous : Option Qsvs) (L : List (Nat × List Contents)) (r : Option Qsvs)
    (hprev : SInv (StatName rx env st) rk (previous.getD []))
    (hcont : ∀ s ∈ L, ∀ c ∈ s.2, ContOK (StatName rx env st) rk c)
    (h : calibrateSessions rx env st previous L = .ok r) : Bounded rx env st r := by
  have hI := stats_of_sessions rx env st hnu hp hneed rk previous L r hprev hcont h
  exact { consts := BM.consts
          stats := fun n hn mn mx hget => (hI n hn mn mx hget).good
          concat := concat_of_rank rx env st rk BM (r.getD []) hI
          bias := BM.bias
          cast := BM.cast }

/-- **`Hyp` after the sessions** -/
theorem hyp_of_sessions (rx : String → String → Bool) (env : Env) (st : Recipe.State) (M : HypModel rx env st)
    (hp : PassRuntime rx env st) (hneed : Recipe.needCalibration st = true)
    (previous : Option Qsvs) (L : List (Nat × List Contents)) (qs : Qsvs)
    (h : calibrateSessions rx env st previous L = .ok (some qs))
    (hcov : ∀ i sg, env.model.subgraphs[i]? = some sg → ∃ s ∈ L, s.1 = i ∧ s.2 ≠ []) : Hyp rx env st (some qs) :=
  M.hyp qs (statsComplete_of_sessions rx env st M.noSkip hp hneed previous L (some qs) h hcov)

/-! ## statistics saved and restored: the same numbers in another format -/

/-- one entry in format `p` -/
def reformatQsv (p : Prec) (v : Qsv) : Qsv := v.map fun mm => (⟨mm.1.arr, p⟩, ⟨mm.2.arr, p⟩)

/-- **the same statistics in another array format** -- what comes back when a calibration result is saved and restored:
    JSON keeps the values (float32 values are python floats) and forgets the dtype (`f64`: the lists become float64 arrays;
    `exact`: python numbers) -/
def reformat (p : Prec) (qs : Qsvs) : Qsvs := qs.map fun e => (e.1, reformatQsv p e.2)

theorem dictGet?_reformat (p : Prec) (qs : Qsvs) (n : String) :
    Py.dictGet? (reformat p qs) n = (Py.dictGet? qs n).map (reformatQsv p) := by
  induction qs with
  | nil => rfl
  | cons e qs ih =>
    have h1 : reformat p (e :: qs) = (e.1, reformatQsv p e.2) :: reformat p qs := rfl
    rw [h1, dictGet?_cons, dictGet?_cons]
    by_cases h : e.1 = n
    · simp only [h, if_true, Option.map_some]
    · simp only [h, if_false]
      exact ih

theorem reformat_get (p : Prec) (qs : Qsvs) (n : String) (mn mx : FArr)
    (h : Py.dictGet? (reformat p qs) n = some (some (mn, mx))) :
    ∃ mn0 mx0, Py.dictGet? qs n = some (some (mn0, mx0)) ∧ mn = ⟨mn0.arr, p⟩ ∧ mx = ⟨mx0.arr, p⟩ := by
  rw [dictGet?_reformat] at h
  cases hg : Py.dictGet? qs n with
  | none => rw [hg] at h; cases h
  | some v =>
    rw [hg] at h
    cases v with
    | none => cases h
    | some mm =>
      simp only [Option.map_some, reformatQsv, Option.some.injEq, Prod.mk.injEq] at h
      exact ⟨mm.1, mm.2, rfl, h.1.symm, h.2.symm⟩

theorem StatGood.reformat {mn mx : FArr} (h : StatGood mn mx) (p : Prec) (hp : F3264 p) : StatGood ⟨mn.arr, p⟩ ⟨mx.arr, p⟩ :=
  ⟨⟨hp, hp, h.fin.shape, h.fin.bMn, h.fin.bMx⟩, h.ones⟩

theorem StatOrdK.reformat {k : Nat} {mn mx : FArr} (h : StatOrdK k mn mx) (p : Prec) (hp : F3264 p) :
    StatOrdK k ⟨mn.arr, p⟩ ⟨mx.arr, p⟩ :=
  ⟨hp, rfl, h.shape, h.ones, h.rank, h.bMn, h.bMx, h.ord⟩

/-- restored statistics can be RESUMED: the invariant of calibration survives the change of format -/
theorem sInv_reformat (P : String → Prop) (rk : String → Nat) (qs : Qsvs) (h : SInv P rk qs) (p : Prec) (hp : F3264 p) :
    SInv P rk (reformat p qs) := by
  intro n hn mn mx hget
  obtain ⟨mn0, mx0, h0, rfl, rfl⟩ := reformat_get p qs n mn mx hget
  exact (h n hn mn0 mx0 h0).reformat p hp

theorem statsComplete_reformat (rx : String → String → Bool) (env : Env) (st : Recipe.State) (qs : Qsvs)
    (h : StatsComplete rx env st qs) (p : Prec) : StatsComplete rx env st (reformat p qs) := by
  intro sg hsg q hq k scope ops fn S hact a ha hane t hat hfl hc
  obtain ⟨mm, hmm⟩ := h sg hsg q hq k scope ops fn S hact a ha hane t hat hfl hc
  exact ⟨_, by rw [dictGet?_reformat, hmm]; rfl⟩

/-- **`Hyp` survives saving and restoring the statistics** -/
theorem hyp_reformat (rx : String → String → Bool) (env : Env) (st : Recipe.State) (qs : Qsvs)
    (H : Hyp rx env st (some qs)) (p : Prec) : Hyp rx env st (some (reformat p qs)) :=
  H.model.hyp _ (statsComplete_reformat rx env st qs H.stats p)

/-- **`Bounded` survives saving and restoring the statistics**, in every format float32 / float64 / `exact` -/
theorem bounded_reformat (rx : String → String → Bool) (env : Env) (st : Recipe.State) (qs : Qsvs)
    (Bd : Bounded rx env st (some qs)) (p : Prec) (hp : F3264 p) : Bounded rx env st (some (reformat p qs)) :=
  { consts := Bd.consts
    stats := by
      intro n hn mn mx hget
      obtain ⟨mn0, mx0, h0, rfl, rfl⟩ := reformat_get p qs n mn mx hget
      exact (Bd.stats n hn mn0 mx0 h0).reformat p hp
    concat := by
      intro sg hsg q hq k scope ops fn S gi hk a ha hane t hat hfl hc b hb hbne t' hbt mn mx hget
      obtain ⟨mn0, mx0, h0, rfl, rfl⟩ := reformat_get p qs t'.name mn mx hget
      exact Bd.concat sg hsg q hq k scope ops fn S gi hk a ha hane t hat hfl hc b hb hbne t' hbt mn0 mx0 h0
    bias := Bd.bias
    cast := Bd.cast }

end MatTotal
