import QModel.Materialize
/-!
# Soundness of `checkBufferSharing`

What is guaranteed when `Mat.checkBufferSharing m res = .ok ()`:
(1) all operand occurrences of one constant buffer are `compatReq`-compatible with the first one,
(2) a constant with one operand occurrence carries a self-compatible request,
(3) a constant that no operator reads never shares a buffer that is rewritten for an operand.
Also: what `compatReq a b = .ok true` says about the consumer lists.
-/
open Graph Mat

namespace SharingProofs

/-! ## generic rule for state-less `for` loops in `PyM` -/

/-- a `for` loop over a list with trivial state: if every successful run of the body continues
    (no `break`/`return`) and establishes `Q`, a successful loop establishes `Q` for all elements -/
theorem forIn_unit_all {α} (f : α → PUnit → PyM (ForInStep PUnit)) (Q : α → Prop)
    (hQ : ∀ a s, f a PUnit.unit = .ok s → s = .yield PUnit.unit ∧ Q a) :
    ∀ (l : List α) (r : PUnit), forIn l PUnit.unit f = .ok r → ∀ a ∈ l, Q a := by
  intro l
  induction l with
  | nil => intro r _ a ha; cases ha
  | cons x xs ih =>
    intro r h a ha
    simp only [List.forIn_cons, bind, Except.bind] at h
    cases hf : f x PUnit.unit with
    | error e => simp [hf] at h
    | ok s =>
      obtain ⟨hs, hq⟩ := hQ x s hf
      subst hs
      simp only [hf] at h
      rcases List.mem_cons.1 ha with rfl | ha
      · exact hq
      · exact ih r h a ha

/-- a `for` loop with an early `return false` (state `Option Bool × Unit`): if the loop finishes
    without having returned, the test succeeded on every element -/
theorem forIn_noReturn {α} (g : α → PyM Bool) :
    ∀ (l : List α) (s : Option Bool × Unit),
      forIn l ((none, ()) : Option Bool × Unit) (fun c _ => do
          let r ← g c
          if (!r) = true then pure (ForInStep.done (some false, ())) else pure (ForInStep.yield (none, ())))
        = .ok s → s.1 = none → ∀ c ∈ l, g c = .ok true := by
  intro l
  induction l with
  | nil => intro s _ _ c hc; cases hc
  | cons x xs ih =>
    intro s h hs c hc
    simp only [List.forIn_cons, bind, Except.bind] at h
    cases hg : g x with
    | error e => simp [hg] at h
    | ok r =>
      simp only [hg] at h
      cases r with
      | false =>
        simp only [Bool.not_false, if_true, pure, Except.pure, Except.ok.injEq] at h
        subst h; cases hs
      | true =>
        simp only [Bool.not_true, Bool.false_eq_true, if_false, pure, Except.pure] at h
        rcases List.mem_cons.1 hc with rfl | hc
        · exact hg
        · exact ih s h hs c hc

/-- the early `return` of such a loop only ever returns `false` -/
theorem forIn_retFalse {α} (g : α → PyM Bool) :
    ∀ (l : List α) (s : Option Bool × Unit),
      forIn l ((none, ()) : Option Bool × Unit) (fun c _ => do
          let r ← g c
          if (!r) = true then pure (ForInStep.done (some false, ())) else pure (ForInStep.yield (none, ())))
        = .ok s → s.1 ≠ some true := by
  intro l
  induction l with
  | nil =>
    intro s h
    simp only [List.forIn_nil, pure, Except.pure, Except.ok.injEq] at h
    subst h; simp
  | cons x xs ih =>
    intro s h
    simp only [List.forIn_cons, bind, Except.bind] at h
    cases hg : g x with
    | error e => simp [hg] at h
    | ok r =>
      simp only [hg] at h
      cases r with
      | false =>
        simp only [Bool.not_false, if_true, pure, Except.pure, Except.ok.injEq] at h
        subst h; simp
      | true =>
        simp only [Bool.not_true, Bool.false_eq_true, if_false, pure, Except.pure] at h
        exact ih s h

/-! ## `compatReq` on the consumer side -/

/-- compatible requests: both have consumers or neither has; when both have, all consumers of each
    are compatible with the first consumer of the same request, and the two first consumers are
    compatible -/
theorem compatReq_consumers (a b : CReq) (h : compatReq a b = .ok true) :
    (a.consumers = none ∧ b.consumers = none) ∨
    ∃ ca cb a0 b0, a.consumers = some ca ∧ b.consumers = some cb ∧ ca.head? = some a0 ∧ cb.head? = some b0 ∧
      (∀ c ∈ ca, compatO2T c a0 = .ok true) ∧ (∀ c ∈ cb, compatO2T c b0 = .ok true) ∧
      compatO2T a0 b0 = .ok true := by
  unfold compatReq at h
  generalize hjp : (fun __r : Unit => (_ : PyM Bool)) = jp at h
  have h2 : jp () = .ok true := by
    dsimp only at h
    split at h
    · simp only [bind, Except.bind] at h
      split at h
      · cases h
      · split at h
        · cases h
        · exact h
    · exact h
    · cases h
  subst hjp
  clear h
  dsimp only at h2
  split at h2
  · rename_i ca cb hca hcb
    right
    cases ha0 : ca.head? with
    | none => simp [ha0, bind, Except.bind, throw, throwThe, MonadExceptOf.throw] at h2
    | some a0 =>
      cases hb0 : cb.head? with
      | none => simp [ha0, hb0, bind, Except.bind, throw, throwThe, MonadExceptOf.throw, pure, Except.pure] at h2
      | some b0 =>
        simp only [ha0, hb0, bind, Except.bind, pure, Except.pure] at h2
        split at h2
        · cases h2
        · rename_i s1 hs1
          split at h2
          · rename_i r hr
            simp only [Except.ok.injEq] at h2
            subst h2
            exact absurd hr (forIn_retFalse (fun c => compatO2T c a0) ca s1 hs1)
          · rename_i hr
            have hA := forIn_noReturn (fun c => compatO2T c a0) ca s1 hs1 hr
            split at h2
            · cases h2
            · rename_i s2 hs2
              split at h2
              · rename_i r hr2
                simp only [Except.ok.injEq] at h2
                subst h2
                exact absurd hr2 (forIn_retFalse (fun c => compatO2T c b0) cb s2 hs2)
              · rename_i hr2
                have hB := forIn_noReturn (fun c => compatO2T c b0) cb s2 hs2 hr2
                refine ⟨ca, cb, a0, b0, hca, hcb, ha0, hb0, hA, hB, ?_⟩
                split at h2
                · cases h2
                · rename_i v hv
                  cases v with
                  | true => exact hv
                  | false => simp at h2
  · left; rename_i ha hb; exact ⟨ha, hb⟩
  · cases h2

/-! ## the three parts of `checkBufferSharing` -/

/-- what the first loop establishes for one entry of `bufferToTensors` -/
def EntryOK (m : Model) (res : List (String × CReq)) (e : Nat × List String) : Prop :=
  (∃ c, m.buffers[e.1]? = some (some c)) →
    (∀ only, e.2 = [only] → ∀ p, Py.dictGet? res only = some p → compatReq p p = .ok true) ∧
    (∀ first rest, e.2 = first :: rest → rest ≠ [] →
      ∃ fp, Py.dictGet? res first = some fp ∧
        ∀ n ∈ rest, ∃ tp, Py.dictGet? res n = some tp ∧ compatReq fp tp = .ok true)

/-- what the second loop establishes for one tensor -/
def UnreadOK (m : Model) (res : List (String × CReq)) (t : Tensor) : Prop :=
  t.name ∉ (bufferToTensors m).flatMap (·.2) → (∃ c, m.buffers[t.buffer]? = some (some c)) →
    ∀ n ∈ (Py.dictGet? (bufferToTensors m) t.buffer).getD [], ∀ sp, Py.dictGet? res n = some sp →
      ∀ c ∈ sp.consumers.getD [], ∀ x, c.xfs.head? = some x → x ≠ .quantTensor ∧ x ≠ .addDequant

theorem check_sound (m : Model) (res : List (String × CReq)) (h : checkBufferSharing m res = .ok ()) :
    (∀ e ∈ bufferToTensors m, EntryOK m res e) ∧
    (∀ sg ∈ m.subgraphs, ∀ t ∈ sg.tensors, UnreadOK m res t) := by
  unfold checkBufferSharing at h
  simp only [bind, Except.bind] at h
  split at h
  · cases h
  · rename_i u1 h1
    split at h
    · cases h
    · rename_i u2 h2
      clear h
      constructor
      · refine forIn_unit_all _ (EntryOK m res) ?_ _ _ h1
        intro e s he
        obtain ⟨b, l⟩ := e
        dsimp only at he
        have nodata : ∀ o, m.buffers[b]? = o → (∀ c, o ≠ some (some c)) → EntryOK m res (b, l) := by
          intro o ho hne hd
          obtain ⟨c, hc⟩ := hd
          dsimp only at hc
          rw [ho] at hc
          exact absurd hc (hne c)
        match l, he with
        | [], he =>
          simp only [pure, Except.pure, Except.ok.injEq] at he
          refine ⟨he.symm, ?_⟩
          intro _
          refine ⟨?_, ?_⟩
          · intro only ho; cases ho
          · intro f r ho; cases ho
        | [only], he =>
          dsimp only at he
          split at he
          · rename_i cdat hbuf
            have key : s = ForInStep.yield PUnit.unit ∧
                ∀ p, Py.dictGet? res only = some p → compatReq p p = .ok true := by
              split at he
              · rename_i p hp
                split at he
                · cases he
                · rename_i v hv
                  cases v with
                  | false =>
                    simp [throw, throwThe, MonadExceptOf.throw] at he
                  | true =>
                    simp only [Bool.not_true, Bool.false_eq_true, if_false, pure, Except.pure,
                      Except.ok.injEq] at he
                    refine ⟨he.symm, ?_⟩
                    intro p' hp'
                    rw [hp] at hp'
                    cases hp'
                    exact hv
              · rename_i hp
                simp only [pure, Except.pure, Except.ok.injEq] at he
                refine ⟨he.symm, ?_⟩
                intro p' hp'
                rw [hp] at hp'
                cases hp'
            refine ⟨key.1, ?_⟩
            intro _
            refine ⟨?_, ?_⟩
            · intro only' ho
              cases ho
              exact key.2
            · intro f r ho hr
              cases ho
              exact absurd rfl hr
          · rename_i hbuf
            simp only [pure, Except.pure, Except.ok.injEq] at he
            exact ⟨he.symm, nodata _ rfl (fun c hc => hbuf c hc)⟩
        | first :: second :: rest, he =>
          dsimp only at he
          split at he
          · rename_i cdat hbuf
            cases hfp : Py.dictGet? res first with
            | none => simp [hfp, throw, throwThe, MonadExceptOf.throw] at he
            | some fp =>
              simp only [hfp, pure, Except.pure] at he
              split at he
              · cases he
              · rename_i u hloop
                simp only [Except.ok.injEq] at he
                refine ⟨he.symm, ?_⟩
                intro _
                refine ⟨?_, ?_⟩
                · intro only' ho; cases ho
                · intro f r ho _
                  cases ho
                  refine ⟨fp, hfp, ?_⟩
                  refine forIn_unit_all _
                    (fun n => ∃ tp, Py.dictGet? res n = some tp ∧ compatReq fp tp = .ok true) ?_ _ _ hloop
                  intro n sn hn
                  cases htp : Py.dictGet? res n with
                  | none => simp [htp, throw, throwThe, MonadExceptOf.throw] at hn
                  | some tp =>
                    simp only [htp] at hn
                    split at hn
                    · cases hn
                    · rename_i v hv
                      cases v with
                      | false => simp [throw, throwThe, MonadExceptOf.throw] at hn
                      | true =>
                        simp only [Bool.not_true, Bool.false_eq_true, if_false, Except.ok.injEq] at hn
                        exact ⟨hn.symm, tp, rfl, hv⟩
          · rename_i hbuf
            simp only [pure, Except.pure, Except.ok.injEq] at he
            exact ⟨he.symm, nodata _ rfl (fun c hc => hbuf c hc)⟩
      · refine forIn_unit_all _ (fun sg => ∀ t ∈ sg.tensors, UnreadOK m res t) ?_ _ _ h2
        intro sg s hsg
        split at hsg
        · cases hsg
        · rename_i u hts
          simp only [pure, Except.pure, Except.ok.injEq] at hsg
          refine ⟨hsg.symm, ?_⟩
          refine forIn_unit_all _ (UnreadOK m res) ?_ _ _ hts
          intro t st ht
          split at ht
          · rename_i hop
            simp only [pure, Except.pure, Except.ok.injEq] at ht
            refine ⟨ht.symm, ?_⟩
            intro hun
            exact absurd (List.contains_iff_mem.1 hop) hun
          · split at ht
            · rename_i cdat hbuf
              split at ht
              · cases ht
              · rename_i u' hns
                simp only [pure, Except.pure, Except.ok.injEq] at ht
                refine ⟨ht.symm, ?_⟩
                intro _ _
                refine forIn_unit_all _ (fun n => ∀ sp, Py.dictGet? res n = some sp →
                  ∀ c ∈ sp.consumers.getD [], ∀ x, c.xfs.head? = some x →
                    x ≠ .quantTensor ∧ x ≠ .addDequant) ?_ _ _ hns
                intro n sn hn
                split at hn
                · rename_i hsp
                  simp only [pure, Except.pure, Except.ok.injEq] at hn
                  refine ⟨hn.symm, ?_⟩
                  intro sp hsp'
                  rw [hsp] at hsp'
                  cases hsp'
                · rename_i sp hsp
                  split at hn
                  · simp [throw, throwThe, MonadExceptOf.throw] at hn
                  · rename_i hany
                    simp only [pure, Except.pure, Except.ok.injEq] at hn
                    refine ⟨hn.symm, ?_⟩
                    intro sp' hsp'
                    rw [hsp] at hsp'
                    cases hsp'
                    intro c hc x hx
                    simp only [List.any_eq_true, not_exists, not_and] at hany
                    have := hany c hc
                    simp only [hx, Bool.or_eq_true, beq_iff_eq, not_or] at this
                    exact this
            · rename_i hbuf
              simp only [pure, Except.pure, Except.ok.injEq] at ht
              refine ⟨ht.symm, ?_⟩
              intro _ hd
              obtain ⟨c, hc⟩ := hd
              exact absurd hc (hbuf c)

/-- a dictionary lookup returns an entry of the association list -/
theorem dictGet?_mem {κ ν} [BEq κ] [LawfulBEq κ] (d : List (κ × ν)) (k : κ) (v : ν)
    (h : Py.dictGet? d k = some v) : (k, v) ∈ d := by
  unfold Py.dictGet? at h
  cases hf : d.find? (·.1 == k) with
  | none => simp [hf] at h
  | some e =>
    simp only [hf, Option.map_some, Option.some.injEq] at h
    have hk := List.find?_some hf
    have hm := List.mem_of_find?_eq_some hf
    simp only [beq_iff_eq] at hk
    obtain ⟨k', v'⟩ := e
    simp only at hk h
    subst hk; subst h
    exact hm

/-! ## `bufferToTensors` is a dictionary: keys are unique, so membership and lookup coincide -/

theorem dictSet_keys {κ ν} [BEq κ] [LawfulBEq κ] (d : List (κ × ν)) (k : κ) (v : ν) (k' : κ) :
    k' ∈ (Py.dictSet d k v).map (·.1) ↔ k' ∈ d.map (·.1) ∨ k' = k := by
  induction d with
  | nil => simp [Py.dictSet]
  | cons e es ih =>
    obtain ⟨k0, v0⟩ := e
    simp only [Py.dictSet]
    by_cases hk : (k0 == k) = true
    · simp only [hk, if_true, List.map_cons, List.mem_cons]
      have : k0 = k := by simpa using hk
      subst this
      constructor
      · intro h; exact Or.inl h
      · rintro (h | h)
        · exact h
        · exact Or.inl h
    · simp only [hk, Bool.false_eq_true, if_false, List.map_cons, List.mem_cons, ih]
      constructor
      · rintro (h | h | h)
        · exact Or.inl (Or.inl h)
        · exact Or.inl (Or.inr h)
        · exact Or.inr h
      · rintro ((h | h) | h)
        · exact Or.inl h
        · exact Or.inr (Or.inl h)
        · exact Or.inr (Or.inr h)

theorem dictSet_nodup {κ ν} [BEq κ] [LawfulBEq κ] (d : List (κ × ν)) (k : κ) (v : ν)
    (h : (d.map (·.1)).Nodup) : ((Py.dictSet d k v).map (·.1)).Nodup := by
  induction d with
  | nil => simp [Py.dictSet]
  | cons e es ih =>
    obtain ⟨k0, v0⟩ := e
    simp only [List.map_cons, List.nodup_cons] at h
    simp only [Py.dictSet]
    by_cases hk : (k0 == k) = true
    · simp only [hk, if_true, List.map_cons, List.nodup_cons]
      exact h
    · simp only [hk, Bool.false_eq_true, if_false, List.map_cons, List.nodup_cons]
      refine ⟨?_, ih h.2⟩
      intro hm
      rcases (dictSet_keys es k v k0).1 hm with hm | hm
      · exact h.1 hm
      · exact hk (by simp [hm])

theorem foldl_inv {α β} (P : β → Prop) (f : β → α → β) (hf : ∀ acc x, P acc → P (f acc x)) :
    ∀ (l : List α) (init : β), P init → P (l.foldl f init) := by
  intro l
  induction l with
  | nil => intro init h; exact h
  | cons x xs ih => intro init h; exact ih _ (hf _ _ h)

/-- keys of a dictionary are pairwise distinct -/
def KeysNodup (acc : List (Nat × List String)) : Prop := (acc.map (·.1)).Nodup

theorem bufferToTensors_nodup (m : Model) : ((bufferToTensors m).map (·.1)).Nodup := by
  show KeysNodup (bufferToTensors m)
  unfold bufferToTensors
  refine foldl_inv KeysNodup _ ?_ _ _ List.nodup_nil
  intro acc sg hacc
  refine foldl_inv KeysNodup _ ?_ _ _ hacc
  intro acc op hacc
  refine foldl_inv KeysNodup _ ?_ _ _ hacc
  intro acc i hacc
  split
  · exact dictSet_nodup _ _ _ hacc
  · exact hacc

theorem mem_dictGet? {κ ν} [BEq κ] [LawfulBEq κ] (d : List (κ × ν)) (k : κ) (v : ν)
    (hnd : (d.map (·.1)).Nodup) (h : (k, v) ∈ d) : Py.dictGet? d k = some v := by
  induction d with
  | nil => cases h
  | cons e es ih =>
    obtain ⟨k0, v0⟩ := e
    simp only [List.map_cons, List.nodup_cons] at hnd
    rcases List.mem_cons.1 h with h | h
    · cases h
      simp [Py.dictGet?]
    · have hne : (k0 == k) = false := by
        apply Bool.eq_false_iff.2
        intro hk
        have : k0 = k := by simpa using hk
        subst this
        exact hnd.1 (List.mem_map.2 ⟨(k0, v), h, rfl⟩)
      have := ih hnd.2 h
      simp only [Py.dictGet?] at this ⊢
      simp only [List.find?_cons, hne]
      exact this

/-- entries of `bufferToTensors m` are exactly its successful lookups -/
theorem b2t_mem_iff (m : Model) (b : Nat) (l : List String) :
    (b, l) ∈ bufferToTensors m ↔ Py.dictGet? (bufferToTensors m) b = some l :=
  ⟨mem_dictGet? _ _ _ (bufferToTensors_nodup m), dictGet?_mem _ _ _⟩

/-- (1) all operand occurrences of one constant buffer are compatible with the first one -/
theorem sharing_pairwise (m : Model) (res : List (String × CReq)) (h : checkBufferSharing m res = .ok ())
    (b : Nat) (first : String) (rest : List String) (hb : (b, first :: rest) ∈ bufferToTensors m)
    (hne : rest ≠ []) (hdata : ∃ c, m.buffers[b]? = some (some c)) :
    ∃ fp, Py.dictGet? res first = some fp ∧
      ∀ n ∈ rest, ∃ tp, Py.dictGet? res n = some tp ∧ compatReq fp tp = .ok true :=
  (((check_sound m res h).1 _ hb) hdata).2 first rest rfl hne

/-- (2) a constant with a single operand occurrence carries a self-compatible request -/
theorem sharing_single (m : Model) (res : List (String × CReq)) (h : checkBufferSharing m res = .ok ())
    (b : Nat) (only : String) (hb : (b, [only]) ∈ bufferToTensors m)
    (hdata : ∃ c, m.buffers[b]? = some (some c))
    (p : CReq) (hp : Py.dictGet? res only = some p) : compatReq p p = .ok true :=
  (((check_sound m res h).1 _ hb) hdata).1 only rfl p hp

/-- (3) a constant that no operator reads never shares a buffer that is rewritten for an operand -/
theorem sharing_unread (m : Model) (res : List (String × CReq)) (h : checkBufferSharing m res = .ok ())
    (sg : Subgraph) (hsg : sg ∈ m.subgraphs) (t : Tensor) (ht : t ∈ sg.tensors)
    (hun : t.name ∉ (bufferToTensors m).flatMap (·.2))
    (hdata : ∃ c, m.buffers[t.buffer]? = some (some c))
    (n : String) (hn : n ∈ (Py.dictGet? (bufferToTensors m) t.buffer).getD [])
    (sp : CReq) (hsp : Py.dictGet? res n = some sp) :
    ∀ c ∈ sp.consumers.getD [], ∀ x, c.xfs.head? = some x → x ≠ .quantTensor ∧ x ≠ .addDequant :=
  (check_sound m res h).2 sg hsg t ht hun hdata n hn sp hsp

end SharingProofs
