import QProofs.NumericArray
import QProofs.ConstQuant
import QModel.Blockwise
/-!
# Index arithmetic of the BLOCKWISE layout

`[o, f]` weight, transposed and reshaped to `[1, f / bs, bs, o]`; statistics of shape `[1, 1, 1, o]`
(the library) or `[1, f / bs, 1, o]` (the per-block reference); per-channel statistics `[o, 1]` of the
ordinary CHANNELWISE quantization.
-/
open Num Nd Arith MatParams

set_option autoImplicit false

namespace BlockwiseL

/-! ## decidable equality of results (for closed instances checked by `decide`); the model derives `BEq` only -/

scoped instance decArr {α} [DecidableEq α] : DecidableEq (Arr α) := fun a b =>
  match a, b with
  | ⟨s, d⟩, ⟨s', d'⟩ =>
    if h : s = s' ∧ d = d' then isTrue (by rw [h.1, h.2])
    else isFalse (by intro e; cases e; exact h ⟨rfl, rfl⟩)

scoped instance decIArr : DecidableEq IArr := fun a b =>
  match a, b with
  | ⟨x, w⟩, ⟨x', w'⟩ =>
    if h : x = x' ∧ w = w' then isTrue (by rw [h.1, h.2])
    else isFalse (by intro e; cases e; exact h ⟨rfl, rfl⟩)

scoped instance decExcept {ε α} [DecidableEq ε] [DecidableEq α] : DecidableEq (Except ε α) := fun a b =>
  match a, b with
  | .ok x, .ok y => if h : x = y then isTrue (by rw [h]) else isFalse (by intro e; cases e; exact h rfl)
  | .error x, .error y => if h : x = y then isTrue (by rw [h]) else isFalse (by intro e; cases e; exact h rfl)
  | .ok _, .error _ => isFalse (by intro e; cases e)
  | .error _, .ok _ => isFalse (by intro e; cases e)

theorem numel2 (a b : Nat) : numel [a, b] = a * b := by simp [numel]
theorem numel4 (a b c d : Nat) : numel [a, b, c, d] = a * b * c * d := by simp [numel]

/-! ## shapes -/

theorem keep012 (a b c d : Nat) : keepShape [a, b, c, d] (some [0, 1, 2]) = [1, 1, 1, d] := by
  simp [keepShape, List.range, List.range.loop]

theorem keep02 (a b c d : Nat) : keepShape [a, b, c, d] (some [0, 2]) = [1, b, 1, d] := by
  simp [keepShape, List.range, List.range.loop]

theorem keep1 (a b : Nat) : keepShape [a, b] (some [1]) = [a, 1] := by
  simp [keepShape, List.range, List.range.loop]

/-! ## cells -/

/-- the cell of the library's statistics `[1,1,1,o]` an element of the reshaped weight belongs to: its channel -/
theorem bindex_chan (B bs o i : Nat) : bindex [1, B, bs, o] [1, 1, 1, o] i = i % o := by
  simp only [bindex, padLeft, unravel, bproj, ravel, numel, List.foldl, List.length, Nat.sub_self, List.replicate,
    List.nil_append, Nat.one_mul, Nat.zero_mul, Nat.zero_add, Nat.add_zero, if_true, Nat.div_one, Nat.mul_one]
  by_cases ho : o = 1
  · subst ho; simp [Nat.mod_one]
  · rw [if_neg ho, Nat.mod_mod_of_dvd _ (Dvd.intro_left _ rfl), Nat.mod_mod_of_dvd _ (Dvd.intro_left _ rfl)]

/-- the cell of the per-channel statistics `[o,1]` an element of the `[o,f]` weight belongs to: its row -/
theorem bindex_row (o f i : Nat) (hi : i < o * f) : bindex [o, f] [o, 1] i = i / f := by
  simp only [bindex, padLeft, unravel, bproj, ravel, numel, List.foldl, List.length, Nat.sub_self, List.replicate,
    List.nil_append, Nat.one_mul, Nat.zero_add, Nat.add_zero, if_true, Nat.div_one, Nat.mul_one]
  by_cases ho : o = 1
  · subst ho
    rw [if_pos rfl]
    rw [Nat.one_mul] at hi
    exact (Nat.div_eq_of_lt hi).symm
  · rw [if_neg ho]

/-- the cell of the per-block statistics `[1,B,1,o]` an element of the reshaped weight belongs to: (block, channel) -/
theorem bindex_block (B bs o i : Nat) (hi : i < B * bs * o) :
    bindex [1, B, bs, o] [1, B, 1, o] i = i / (bs * o) * o + i % o := by
  simp only [bindex, padLeft, unravel, bproj, ravel, numel, List.foldl, List.length, Nat.sub_self, List.replicate,
    List.nil_append, Nat.one_mul, Nat.zero_mul, Nat.zero_add, Nat.add_zero, if_true, Nat.div_one, Nat.mul_one]
  have hmod : i % (B * bs * o) = i := Nat.mod_eq_of_lt hi
  rw [hmod, Nat.mod_mod_of_dvd _ (Dvd.intro_left _ rfl)]
  have h1 : (if B = 1 then 0 else i / (bs * o)) = i / (bs * o) := by
    split
    · rename_i hB
      subst hB
      rw [Nat.one_mul] at hi
      exact (Nat.div_eq_of_lt hi).symm
    · rfl
  have h2 : (if o = 1 then 0 else i % o) = i % o := by
    split
    · rename_i ho; subst ho; rw [Nat.mod_one]
    · rfl
  rw [h1, h2]

theorem compat_chan (B bs o : Nat) : NumT.Compat [1, 1, 1, o] [1, B, bs, o] :=
  .cons (.inl rfl) (.cons (.inl rfl) (.cons (.inl rfl) (.cons (.inr rfl) .nil)))

theorem compat_block (B bs o : Nat) : NumT.Compat [1, B, 1, o] [1, B, bs, o] :=
  .cons (.inl rfl) (.cons (.inr rfl) (.cons (.inl rfl) (.cons (.inr rfl) .nil)))

theorem compat_row (o f : Nat) : NumT.Compat [o, 1] [o, f] :=
  .cons (.inr rfl) (.cons (.inl rfl) .nil)

/-! ## the transposed data -/

theorem tdata_length (o f : Nat) (d : List Rat) : (Blockwise.tdata o f d).length = f * o := by
  simp [Blockwise.tdata]

/-- element `[j][c]` of the transposed weight is element `[c][j]` of the weight -/
theorem tdata_getD (o f : Nat) (d : List Rat) (i : Nat) (hi : i < f * o) :
    (Blockwise.tdata o f d).getD i 0 = d.getD (i % o * f + i / o) 0 := by
  unfold Blockwise.tdata
  rw [List.getD_eq_getElem?_getD, List.getElem?_map, List.getElem?_range hi]
  rfl

theorem idx_mod (o j c : Nat) (hc : c < o) : (j * o + c) % o = c := by
  rw [Nat.add_comm, Nat.add_mul_mod_self_right, Nat.mod_eq_of_lt hc]

theorem idx_div (o j c : Nat) (hc : c < o) : (j * o + c) / o = j := by
  have ho : 0 < o := by omega
  rw [Nat.add_comm, Nat.add_mul_div_right _ _ ho, Nat.div_eq_of_lt hc, Nat.zero_add]

theorem idx_lt (o f j c : Nat) (hc : c < o) (hj : j < f) : j * o + c < f * o := by
  calc j * o + c < j * o + o := by omega
    _ = (j + 1) * o := by rw [Nat.add_mul, Nat.one_mul]
    _ ≤ f * o := Nat.mul_le_mul_right _ hj

theorem tdata_el (o f : Nat) (d : List Rat) (j c : Nat) (hc : c < o) (hj : j < f) :
    (Blockwise.tdata o f d).getD (j * o + c) 0 = d.getD (c * f + j) 0 := by
  rw [tdata_getD o f d _ (idx_lt o f j c hc hj), idx_mod o j c hc, idx_div o j c hc]

end BlockwiseL
