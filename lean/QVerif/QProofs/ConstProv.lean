import QProofs.SharingData
import QProofs.MatParams
/-!
# Provenance of the quantized data carried by the requests of `Mat.generate`

`Src env t d P`: the parameter object `P` (WITH quantized data) was computed from the constant data
`d` of tensor `t`, in one of the four ways the materialisation knows:

* `own`  -- `wrapper` without given parameters on a constant (`C04.weight_params_reference`): reference
  parameters of the constant's true min/max, and `uniform_quantize(d, qp)`;
* `lent` -- a constant that borrows data-free parameters (repair D21): `uniform_quantize(d, qp)`;
* `bias` -- `symmetric_quantize_bias_tensor(d, input params, weight params)`;
* `f16`  -- float casting: `d.astype(float16)`.

`EProv env n r`: every parameter object with data in request `r` for the tensor named `n` has such a
source, for a tensor of the model with that name.  It holds for every request emitted by the
materialisation functions (given that results of operators are not constants, which `WF.modelOK` and
`inputsNotConst` provide), hence for every entry of the result dictionary of `Mat.generate`
(`generate_prov`).
-/
open Graph Mat Cfg Pipeline InstGen GenInstsOK GraphStep GraphInv PipeNF Pipe SharingGen Arith Nd MatParams Num

set_option autoImplicit false

namespace ConstProv

/-- where a parameter object with quantized data comes from -/
inductive Src (env : Env) (t : Tensor) (d : Arr Rat) : Param → Prop
  | own (oi : OpInfo) (tc : TCfg) (mn mx : FArr) (qdim : Option Nat) (qp : QParams) (q : IArr) :
      tcfgOf env oi t = some tc → initMinMax env oi t d = .ok (mn, mx) →
      refQDim env oi tc (some d) = .ok qdim →
      refParams tc.bits.toNat tc.symmetric qdim mn mx = .ok qp → tc.gran ≠ Gran.blockwise →
      uniformQuantize ⟨d, .f32⟩ qp = .ok q → Src env t d (.uniform qp (some q))
  | lent (qp : QParams) (q : IArr) :
      uniformQuantize ⟨d, .f32⟩ qp = .ok q → Src env t d (.uniform qp (some q))
  | bias (qi qw qp : QParams) (q : IArr) :
      quantizeBias ⟨d, .f32⟩ qi qw = .ok (qp, q) → Src env t d (.uniform qp (some q))
  | f16 (h : List Rat) :
      d.data.mapM Prec.f16.chk = .ok h → Src env t d (.nonlinear 16 (some ⟨d.shape, h⟩))

/-- provenance of one producer / consumer request of the tensor named `n` -/
def OProv (env : Env) (n : String) (o : CO2T) : Prop :=
  ∀ P, o.param = some P → hasData P = true →
    ∃ sg ∈ env.model.subgraphs, ∃ t ∈ sg.tensors, t.name = n ∧ ∃ d, constData env t = some d ∧ Src env t d P

/-- provenance of all parameter objects of request `r`, filed under the name `n` -/
def EProv (env : Env) (n : String) (r : CReq) : Prop :=
  (∀ o, r.producer = some o → OProv env n o) ∧ (∀ cs c, r.consumers = some cs → c ∈ cs → OProv env n c)

abbrev ReqProv (env : Env) (r : CReq) : Prop := EProv env r.name r

/-! ## helpers -/

theorem index_mem {α} (l : List α) (i : Int) (a : α) (h : Py.index l i = .ok a) : a ∈ l := by
  unfold Py.index at h
  simp only [] at h
  by_cases hc : (if i < 0 then i + (l.length : Int) else i) < 0 ∨ (if i < 0 then i + (l.length : Int) else i) ≥ (l.length : Int)
  · rw [if_pos hc] at h; cases h
  · rw [if_neg hc] at h
    cases hx : l[(if i < 0 then i + (l.length : Int) else i).toNat]? with
    | none => rw [hx] at h; cases h
    | some x =>
      rw [hx] at h
      simp only [Except.ok.injEq] at h
      subst h
      exact List.mem_of_getElem? hx

theorem tensorAt_mem (sg : Subgraph) (a : Int) (t : Tensor) (h : tensorAt sg a = .ok t) : t ∈ sg.tensors :=
  index_mem _ _ _ h

theorem oprov_nodata (env : Env) (n : String) (o : CO2T) (h : ∀ P, o.param = some P → hasData P = false) :
    OProv env n o := by
  intro P hP hd
  rw [h P hP] at hd; cases hd

theorem noQuantReq_prov (env : Env) (n name : String) (opId : Int) (inbound : Bool) :
    EProv env n (noQuantReq name opId inbound) := by
  cases inbound
  · rw [noQuantReq_prod]
    refine ⟨?_, fun cs c h => by cases h⟩
    intro o ho; cases ho
    exact oprov_nodata _ _ _ (fun P hP => by cases hP)
  · rw [noQuantReq_cons]
    refine ⟨fun o h => (by cases h), ?_⟩
    intro cs c hcs hc
    cases hcs
    rw [List.mem_singleton.1 hc]
    exact oprov_nodata _ _ _ (fun P hP => by cases hP)

/-- a request with one producer / consumer entry carrying `p` -/
theorem eprov_single (env : Env) (name : String) (opId : Int) (xfs : List Xf) (p : Option Param) (inbound : Bool)
    (hp : OProv env name ⟨opId, xfs, p⟩) :
    EProv env name (if inbound then ⟨name, none, some [(⟨opId, xfs, p⟩ : CO2T)]⟩
      else ⟨name, some (⟨opId, xfs, p⟩ : CO2T), none⟩) := by
  cases inbound
  · refine ⟨?_, fun cs c h => by simp at h⟩
    intro o ho
    simp only [Bool.false_eq_true, if_false, Option.some.injEq] at ho
    subst ho; exact hp
  · refine ⟨fun o h => (by simp at h), ?_⟩
    intro cs c hcs hc
    simp only [if_true, Option.some.injEq] at hcs
    subst hcs
    rw [List.mem_singleton.1 hc]; exact hp

/-! ## `wrapper` -/

/-- **the data of a request made by `wrapper`** (given parameters without data): the tensor is a
    constant and the parameter object is `own` (nothing given) or `lent` (data-free parameters given) -/
theorem wrapper_src (env : Env) (qs : Qsvs) (oi : OpInfo) (t : Tensor) (inbound : Bool) (g : Option Param)
    (r : CReq) (h : wrapper env qs oi t inbound g = .ok r) (hg : ∀ p, g = some p → hasData p = false) :
    ∃ xfs p, r = (if inbound then ⟨t.name, none, some [(⟨oi.opId, xfs, p⟩ : CO2T)]⟩
        else ⟨t.name, some (⟨oi.opId, xfs, p⟩ : CO2T), none⟩) ∧
      ∀ P, p = some P → hasData P = true → ∃ d, constData env t = some d ∧ Src env t d P := by
  cases g with
  | none =>
    rcases (wrapper_none_ok_iff env qs oi t inbound r).1 h with ⟨_, hm⟩ |
      ⟨tc, mn, mx, qdim, qp, dat, htc, hst, hq, hp, hdat, hm⟩
    · obtain ⟨xfs, _, hr⟩ := mkReq_spec _ _ _ _ _ _ hm
      exact ⟨xfs, none, hr, fun P hP => by cases hP⟩
    · obtain ⟨xfs, _, hr⟩ := mkReq_spec _ _ _ _ _ _ hm
      refine ⟨xfs, _, hr, ?_⟩
      intro P hP hd
      cases hP
      cases hc : constData env t with
      | none =>
        rw [hc] at hdat
        simp only [refData, Except.ok.injEq] at hdat
        subst hdat
        cases hd
      | some d =>
        rw [hc] at hdat hq
        obtain ⟨hb, q, hu, rfl⟩ := (refData_some _ _ _ _).1 hdat
        exact ⟨d, rfl, Src.own oi tc mn mx qdim qp q htc ((statsOf_const env qs oi t d mn mx hc).1 hst) hq hp hb hu⟩
  | some p0 =>
    have hnd := hg p0 rfl
    rw [wrapper_given_eq] at h
    cases p0 with
    | nonlinear b dd =>
      simp only [] at h
      obtain ⟨xfs, _, hr⟩ := mkReq_spec _ _ _ _ _ _ h
      refine ⟨xfs, _, hr, ?_⟩
      intro P hP hd
      cases hP
      rw [hnd] at hd; cases hd
    | uniform qp dd =>
      cases dd with
      | some v => cases hnd
      | none =>
        cases hc : constData env t with
        | none =>
          rw [hc] at h
          simp only [] at h
          obtain ⟨xfs, _, hr⟩ := mkReq_spec _ _ _ _ _ _ h
          refine ⟨xfs, _, hr, ?_⟩
          intro P hP hd
          cases hP
          cases hd
        | some d =>
          rw [hc] at h
          simp only [] at h
          cases hu : uniformQuantize ⟨d, .f32⟩ qp with
          | error e => rw [hu] at h; cases h
          | ok q =>
            rw [hu] at h
            simp only [] at h
            obtain ⟨xfs, _, hr⟩ := mkReq_spec _ _ _ _ _ _ h
            refine ⟨xfs, _, hr, ?_⟩
            intro P hP _
            cases hP
            exact ⟨d, rfl, Src.lent qp q hu⟩

theorem wrapper_prov (env : Env) (sg : Subgraph) (qs : Qsvs) (oi : OpInfo) (t : Tensor) (inbound : Bool)
    (g : Option Param) (r : CReq) (hsg : sg ∈ env.model.subgraphs) (ht : t ∈ sg.tensors)
    (h : wrapper env qs oi t inbound g = .ok r) (hg : ∀ p, g = some p → hasData p = false) :
    ReqProv env r := by
  obtain ⟨xfs, p, hr, hsrc⟩ := wrapper_src env qs oi t inbound g r h hg
  have hname : r.name = t.name := by rw [hr]; cases inbound <;> rfl
  show EProv env r.name r
  rw [hname, hr]
  refine eprov_single env t.name oi.opId xfs p inbound ?_
  intro P hP hd
  obtain ⟨d, hd1, hd2⟩ := hsrc P hP hd
  exact ⟨sg, hsg, t, ht, rfl, d, hd1, hd2⟩

/-- a request made by `wrapper` for a non-constant tensor carries no data -/
theorem wrapper_nodata (env : Env) (qs : Qsvs) (oi : OpInfo) (t : Tensor) (inbound : Bool)
    (g : Option Param) (r : CReq) (hnc : constData env t = none)
    (h : wrapper env qs oi t inbound g = .ok r) (hg : ∀ p, g = some p → hasData p = false) :
    (∀ pr q, r.producer = some pr → pr.param = some q → hasData q = false) ∧
    (∀ cs c q, r.consumers = some cs → c ∈ cs → c.param = some q → hasData q = false) := by
  obtain ⟨xfs, p, hr, hsrc⟩ := wrapper_src env qs oi t inbound g r h hg
  have hp : ∀ q, p = some q → hasData q = false := by
    intro q hq
    cases hdq : hasData q with
    | false => rfl
    | true =>
      obtain ⟨d, hd, _⟩ := hsrc q hq hdq
      rw [hnc] at hd; cases hd
  subst hr
  cases inbound
  · refine ⟨?_, fun cs c q h1 => by simp at h1⟩
    intro pr q h1 h2
    simp only [Bool.false_eq_true, if_false, Option.some.injEq] at h1
    subst h1; exact hp q h2
  · refine ⟨fun pr q h1 => (by simp at h1), ?_⟩
    intro cs c q h1 h2 h3
    simp only [if_true, Option.some.injEq] at h1
    subst h1
    rw [List.mem_singleton.1 h2] at h3
    exact hp q h3

/-! ## the materialisation functions -/

/-- results of the operator are not constants -/
def OutNC (env : Env) (sg : Subgraph) (outs : List Int) : Prop :=
  ∀ p ∈ cslots outs, ∀ t, tensorAt sg p.1 = .ok t → constData env t = none

theorem standardOp_prov (env : Env) (sg : Subgraph) (qsvs : Qsvs) (oi : OpInfo) (con : Constraint)
    (gIn gOut : List Nat) (rs : List CReq) (qs' : Qsvs) (hsg : sg ∈ env.model.subgraphs)
    (hnc : OutNC env sg oi.op.outputs)
    (h : standardOp env sg qsvs oi con gIn gOut = .ok (rs, qs')) : ∀ r ∈ rs, ReqProv env r := by
  obtain ⟨inIgn, outIgn, rin, rout, g, gO, -, -, hrs, hrin, hrout, hg, hgO⟩ :=
    standardOp_shape env sg qsvs oi con gIn gOut rs qs' h
  have hgd : ∀ q, g = some q → hasData q = false := by
    rcases hg with rfl | ⟨_, p, hp, t, orq, _, ht, hw, rfl⟩
    · intro q hq; cases hq
    · have := (wrapper_nodata env qsvs oi t false none orq (hnc p hp t ht) hw (fun p hp => by cases hp)).1
      intro q hq
      cases hpr : orq.producer with
      | none => rw [hpr] at hq; cases hq
      | some pr => rw [hpr] at hq; exact this pr q hpr hq
  have hgOd : ∀ q, gO = some q → hasData q = false := by
    rcases hgO with rfl | ⟨_, p, _, t, ir, p0, _, _, hw, hpar, rfl⟩
    · intro q hq; cases hq
    · obtain ⟨cs, c, hcs, hc, rfl⟩ := reqParam0_mem ir p0 hpar
      exact stripData_nodata _ (fun q hq => (wrapper_none_uniform env qsvs oi t true ir hw).2 cs c q hcs hc hq)
  intro r hr
  subst hrs
  rcases List.mem_append.1 hr with hr | hr
  · obtain ⟨j, p, _, _, t, ht, hS⟩ := pointwise_mem hrin r hr
    split at hS
    · subst hS; exact noQuantReq_prov _ _ _ _ _
    · exact wrapper_prov env sg qsvs oi t true g r hsg (tensorAt_mem _ _ _ ht) hS hgd
  · obtain ⟨j, p, _, _, t, ht, hS⟩ := pointwise_mem hrout r hr
    split at hS
    · subst hS; exact noQuantReq_prov _ _ _ _ _
    · exact wrapper_prov env sg qsvs oi t false gO r hsg (tensorAt_mem _ _ _ ht) hS hgOd

theorem noQuantOp_prov (env : Env) (sg : Subgraph) (op : Op) (opId : Int) (rs : List CReq)
    (h : noQuantOp sg op opId = .ok rs) : ∀ r ∈ rs, ReqProv env r := by
  unfold noQuantOp at h
  obtain ⟨ins, hins, h⟩ := bind_ok _ _ _ h
  obtain ⟨outs, houts, h⟩ := bind_ok _ _ _ h
  simp only [pure, Except.pure, Except.ok.injEq] at h
  subst h
  intro r hr
  rcases List.mem_append.1 hr with hr | hr
  · obtain ⟨i, _, hf⟩ := GraphFrame.mapM_ok _ _ _ hins r hr
    obtain ⟨t, _, hf⟩ := bind_ok _ _ _ hf
    simp only [pure, Except.pure, Except.ok.injEq] at hf
    subst hf; exact noQuantReq_prov _ _ _ _ _
  · obtain ⟨i, _, hf⟩ := GraphFrame.mapM_ok _ _ _ houts r hr
    obtain ⟨t, _, hf⟩ := bind_ok _ _ _ hf
    simp only [pure, Except.pure, Except.ok.injEq] at hf
    subst hf; exact noQuantReq_prov _ _ _ _ _

theorem mkReq_prov (env : Env) (name : String) (oi : OpInfo) (inbound : Bool) (bp : Option Param) (isC : Bool)
    (r : CReq) (h : mkReq name oi inbound bp isC = .ok r)
    (hbp : ∀ xfs, OProv env name ⟨oi.opId, xfs, bp⟩) : ReqProv env r := by
  obtain ⟨xfs, _, hr⟩ := mkReq_spec _ _ _ _ _ _ h
  have hname : r.name = name := by rw [hr]; cases inbound <;> rfl
  show EProv env r.name r
  rw [hname, hr]
  exact eprov_single env name oi.opId xfs bp inbound (hbp xfs)

theorem biasFor_prov (env : Env) (sg : Subgraph) (oi : OpInfo) (reqs rs : List CReq) (iIn iW iB : Nat)
    (hsg : sg ∈ env.model.subgraphs)
    (hR : ∀ r ∈ reqs, ReqProv env r) (h : biasFor env sg oi reqs iIn iW iB = .ok rs) :
    ∀ r ∈ rs, ReqProv env r := by
  unfold biasFor at h
  split at h
  · simp only [pure, Except.pure, Except.ok.injEq] at h; subst h; exact hR
  · rename_i bslot hb
    split at h
    · simp only [pure, Except.pure, Except.ok.injEq] at h; subst h; exact hR
    · obtain ⟨bt, hbt, h⟩ := bind_ok _ _ _ h
      have fin : ∀ bp, (∀ xfs, OProv env bt.name ⟨oi.opId, xfs, bp⟩) →
          (mkReq bt.name oi true bp (isSRQ oi.cfg) >>= fun r =>
            if iB < reqs.length then pure (reqs.set iB r) else throw PyErr.indexError) = .ok rs →
          ∀ r ∈ rs, ReqProv env r := by
        intro bp hbp h
        obtain ⟨r, hr, h⟩ := bind_ok _ _ _ h
        split at h
        · simp only [pure, Except.pure, Except.ok.injEq] at h
          subst h
          intro y hy
          rcases mem_set_cases _ _ _ _ hy with rfl | ⟨j, _, hj⟩
          · exact mkReq_prov _ _ _ _ _ _ _ hr hbp
          · exact hR y (List.mem_of_getElem? hj)
        · cases h
      simp only [] at h
      split at h
      · split at h
        · obtain ⟨_, h', _⟩ := bind_ok _ _ _ h
          cases h'
        · rename_i bd hbd
          obtain ⟨pin, _, h⟩ := bind_ok _ _ _ h
          obtain ⟨pw, _, h⟩ := bind_ok _ _ _ h
          split at h
          · obtain ⟨bp, hbp, h⟩ := bind_ok _ _ _ h
            obtain ⟨v, hv, hbp⟩ := bind_ok _ _ _ hbp
            simp only [pure, Except.pure, Except.ok.injEq] at hbp
            subst hbp
            refine fin _ ?_ h
            intro xfs P hP _
            cases hP
            exact ⟨sg, hsg, bt, tensorAt_mem _ _ _ hbt, rfl, bd, hbd, Src.bias _ _ v.1 v.2 hv⟩
          · obtain ⟨_, h', _⟩ := bind_ok _ _ _ h
            cases h'
      · obtain ⟨bp, hbp, h⟩ := bind_ok _ _ _ h
        simp only [pure, Except.pure, Except.ok.injEq] at hbp
        subst hbp
        exact fin none (fun xfs => oprov_nodata _ _ _ (fun P hP => by cases hP)) h

theorem fixedRangeOp_prov (env : Env) (sg : Subgraph) (qsvs : Qsvs) (oi : OpInfo) (b : Bool)
    (rs : List CReq) (qs' : Qsvs) (hsg : sg ∈ env.model.subgraphs) (hnc : OutNC env sg oi.op.outputs)
    (h : fixedRangeOp env sg qsvs oi b = .ok (rs, qs')) : ∀ r ∈ rs, ReqProv env r := by
  unfold fixedRangeOp at h
  simp only [bind, Except.bind, pure, Except.pure, throw, throwThe, MonadExceptOf.throw] at h
  split at h
  · cases h
  · split at h
    · cases h
    · rename_i v hstd
      obtain ⟨reqs, qs⟩ := v
      have hR := standardOp_prov env sg qsvs oi .none [] [] reqs qs hsg hnc hstd
      simp only [] at h
      split at h
      · rename_i last a hlast hact
        split at h
        · cases h; exact hR
        · rename_i pr hpr
          split at h
          · cases h
          · rename_i fp hfp
            split at h
            · cases h
            · split at h
              · cases h
              · cases h
                have hlm : last ∈ reqs := List.mem_of_getLast? hlast
                intro r hr
                rcases List.mem_append.1 hr with hr | hr
                · exact hR r (List.dropLast_subset _ hr)
                · rw [List.mem_singleton.1 hr]
                  refine ⟨?_, ?_⟩
                  · intro o ho
                    simp only [Option.some.injEq] at ho
                    subst ho
                    exact oprov_nodata _ _ _ (fun P hP => by cases hP; rfl)
                  · intro cs c hcs hc
                    exact (hR last hlm).2 cs c hcs hc
      · cases h; exact hR

theorem floatCastOp_prov (env : Env) (sg : Subgraph) (oi : OpInfo) (iIn iW iB : Nat) (rs : List CReq)
    (hsg : sg ∈ env.model.subgraphs)
    (h : floatCastOp env sg oi iIn iW iB = .ok rs) : ∀ r ∈ rs, ReqProv env r := by
  unfold floatCastOp at h
  simp only [] at h
  obtain ⟨sIn, hsIn, h⟩ := bind_ok _ _ _ h
  obtain ⟨tin, htin, h⟩ := bind_ok _ _ _ h
  obtain ⟨sW, hsW, h⟩ := bind_ok _ _ _ h
  obtain ⟨tw, htw, h⟩ := bind_ok _ _ _ h
  obtain ⟨sOut, hsOut, h⟩ := bind_ok _ _ _ h
  obtain ⟨tout, htout, h⟩ := bind_ok _ _ _ h
  obtain ⟨wd, hwd, h⟩ := bind_ok _ _ _ h
  obtain ⟨hh, hmap, h⟩ := bind_ok _ _ _ h
  have e4 : constData env tw = some wd := by
    split at hwd
    · rename_i d hd; simp only [pure, Except.pure, Except.ok.injEq] at hwd; rw [hd, hwd]
    · cases hwd
  have hw : ReqProv env ⟨tw.name, none, some [(⟨oi.opId, [.addDequant],
      some (Param.nonlinear 16 (some ⟨wd.shape, hh⟩))⟩ : CO2T)]⟩ := by
    refine ⟨fun o ho => (by cases ho), ?_⟩
    intro cs c hcs hc P hP _
    cases hcs
    rw [List.mem_singleton.1 hc] at hP
    cases hP
    exact ⟨sg, hsg, tw, tensorAt_mem _ _ _ htw, rfl, wd, e4, Src.f16 hh hmap⟩
  have base : ∀ r ∈ [noQuantReq tin.name oi.opId true,
      (⟨tw.name, none, some [(⟨oi.opId, [.addDequant], some (Param.nonlinear 16 (some ⟨wd.shape, hh⟩))⟩ : CO2T)]⟩ : CReq),
      noQuantReq tout.name oi.opId false], ReqProv env r := by
    intro r hr
    simp only [List.mem_cons, List.mem_nil_iff, or_false] at hr
    rcases hr with rfl | rfl | rfl
    · exact noQuantReq_prov _ _ _ _ _
    · exact hw
    · exact noQuantReq_prov _ _ _ _ _
  split at h
  · split at h
    · obtain ⟨tb, htb, h⟩ := bind_ok _ _ _ h
      simp only [pure, Except.pure, Except.ok.injEq] at h
      subst h
      intro r hr
      rcases List.mem_append.1 hr with hr | hr
      · exact base r hr
      · rw [List.mem_singleton.1 hr]; exact noQuantReq_prov _ _ _ _ _
    · simp only [pure, Except.pure, Except.ok.injEq] at h
      subst h; exact base
  · simp only [pure, Except.pure, Except.ok.injEq] at h
    subst h; exact base

theorem materializeOp_prov (env : Env) (sg : Subgraph) (qsvs : Qsvs) (oi : OpInfo) (alg fn : String)
    (rs : List CReq) (qs' : Qsvs) (hsg : sg ∈ env.model.subgraphs) (hnc : OutNC env sg oi.op.outputs)
    (h : materializeOp env sg qsvs oi alg fn = .ok (rs, qs')) : ∀ r ∈ rs, ReqProv env r := by
  rw [materializeOp] at h
  have fc : ∀ iIn iW iB, (floatCastOp env sg oi iIn iW iB >>= fun r => (pure (r, qsvs) : PyM (List CReq × Qsvs)))
      = .ok (rs, qs') → ∀ r ∈ rs, ReqProv env r := by
    intro iIn iW iB h
    obtain ⟨r, hr, h⟩ := bind_ok _ _ _ h
    cases h
    exact floatCastOp_prov env sg oi iIn iW iB _ hsg hr
  have conv : ∀ gIn iIn iW iB, (standardOp env sg qsvs oi .none gIn [] >>= fun x =>
      (biasFor env sg oi x.1 iIn iW iB >>= fun r' => (pure (r', x.2) : PyM (List CReq × Qsvs))))
      = .ok (rs, qs') → ∀ r ∈ rs, ReqProv env r := by
    intro gIn iIn iW iB h
    obtain ⟨⟨r, q⟩, hs, h⟩ := bind_ok _ _ _ h
    obtain ⟨r', hb, h⟩ := bind_ok _ _ _ h
    cases h
    exact biasFor_prov env sg oi r _ iIn iW iB hsg (standardOp_prov env sg qsvs oi .none gIn [] r q hsg hnc hs) hb
  by_cases hF : (alg == Tables.algFloatCasting) = true
  · rw [if_pos hF] at h
    by_cases h1 : (fn == "materialize_fc_conv" || fn == "materialize_embedding_lookup") = true
    · rw [if_pos h1] at h
      exact fc _ _ _ h
    · rw [if_neg h1] at h
      by_cases h2 : (fn == "materialize_conv2d_transpose") = true
      · rw [if_pos h2] at h
        exact fc _ _ _ h
      · rw [if_neg h2] at h
        cases h
  · rw [if_neg hF] at h
    by_cases hM : (alg == Tables.algMinMax) = true
    · rw [if_pos hM] at h
      by_cases c1 : (fn == "materialize_input" || fn == "materialize_output" || fn == "materialize_add" ||
          fn == "materialize_sub" || fn == "materialize_mul" || fn == "materialize_batch_matmul" ||
          fn == "materialize_gelu" || fn == "materialize_rsqrt") = true
      · rw [if_pos c1] at h
        exact standardOp_prov _ _ _ _ _ _ _ _ _ hsg hnc h
      rw [if_neg c1] at h
      by_cases c2 : (fn == "materialize_embedding_lookup") = true
      · rw [if_pos c2] at h
        exact standardOp_prov _ _ _ _ _ _ _ _ _ hsg hnc h
      rw [if_neg c2] at h
      by_cases c3 : (fn == "materialize_mean") = true
      · rw [if_pos c3] at h
        exact standardOp_prov _ _ _ _ _ _ _ _ _ hsg hnc h
      rw [if_neg c3] at h
      by_cases c4 : (fn == "materialize_reshape" || fn == "materialize_transpose") = true
      · rw [if_pos c4] at h
        exact standardOp_prov _ _ _ _ _ _ _ _ _ hsg hnc h
      rw [if_neg c4] at h
      by_cases c5 : (fn == "materialize_average_pool_2d") = true
      · rw [if_pos c5] at h
        exact standardOp_prov _ _ _ _ _ _ _ _ _ hsg hnc h
      rw [if_neg c5] at h
      by_cases c6 : (fn == "materialize_strided_slice") = true
      · rw [if_pos c6] at h
        exact standardOp_prov _ _ _ _ _ _ _ _ _ hsg hnc h
      rw [if_neg c6] at h
      by_cases c7 : (fn == "materialize_split") = true
      · rw [if_pos c7] at h
        exact standardOp_prov _ _ _ _ _ _ _ _ _ hsg hnc h
      rw [if_neg c7] at h
      by_cases c8 : (fn == "materialize_concatenation") = true
      · rw [if_pos c8] at h
        exact standardOp_prov _ _ _ _ _ _ _ _ _ hsg hnc h
      rw [if_neg c8] at h
      by_cases c9 : (fn == "materialize_fc_conv") = true
      · rw [if_pos c9] at h
        exact conv _ _ _ _ h
      rw [if_neg c9] at h
      by_cases c10 : (fn == "materialize_conv2d_transpose") = true
      · rw [if_pos c10] at h
        obtain ⟨⟨r, q⟩, hs, h⟩ := bind_ok _ _ _ h
        simp only [] at h
        split at h
        · obtain ⟨_, h', _⟩ := bind_ok _ _ _ h
          cases h'
        · obtain ⟨r', hb, h⟩ := bind_ok _ _ _ h
          cases h
          exact biasFor_prov env sg oi r _ _ _ _ hsg (standardOp_prov env sg qsvs oi .none _ [] r _ hsg hnc hs) hb
      rw [if_neg c10] at h
      by_cases c11 : (fn == "materialize_softmax_and_logistic") = true
      · rw [if_pos c11] at h
        exact fixedRangeOp_prov _ _ _ _ _ _ _ hsg hnc h
      rw [if_neg c11] at h
      by_cases c12 : (fn == "materialize_tanh") = true
      · rw [if_pos c12] at h
        exact fixedRangeOp_prov _ _ _ _ _ _ _ hsg hnc h
      rw [if_neg c12] at h
      cases h
    · rw [if_neg hM] at h
      cases h

theorem opReqs_prov (rx : String → String → Bool) (env : Env) (st : Recipe.State)
    (sIdx : Nat) (sg : Subgraph) (qs : Qsvs) (q : Op × Option String × Int) (rs : List CReq) (qs' : Qsvs)
    (hsg : sg ∈ env.model.subgraphs) (hnc : OutNC env sg q.1.outputs)
    (h : opReqs rx env st sIdx sg qs q = .ok (rs, qs')) : ∀ r ∈ rs, ReqProv env r := by
  unfold opReqs at h
  split at h
  · cases h
  · split at h
    · cases h
    · rename_i r hr
      cases h
      exact noQuantOp_prov env sg _ _ _ hr
  · split at h
    · cases h
    · split at h
      · split at h
        · cases h
        · rename_i r hr
          cases h
          exact noQuantOp_prov env sg _ _ _ hr
      · split at h
        · cases h
        · split at h
          · cases h
          · exact materializeOp_prov env sg qs _ _ _ rs qs' hsg hnc h

/-! ## the result dictionary -/

def ResProv (env : Env) (res : List (String × CReq)) : Prop := ∀ e ∈ res, EProv env e.1 e.2

theorem stepF_prov (env : Env) (res res' : List (String × CReq)) (r : CReq) (hres : ResProv env res)
    (hr : ReqProv env r) (h : stepF res r = .ok res') : ResProv env res' := by
  unfold stepF at h
  split at h
  · simp only [pure, Except.pure, Except.ok.injEq] at h
    subst h
    intro e he
    rcases List.mem_append.1 he with he | he
    · exact hres e he
    · rw [List.mem_singleton.1 he]; exact hr
  · rename_i cur hcur
    have hcm : (r.name, cur) ∈ res := dictGet?_mem_key _ _ _ hcur
    have hcur' : EProv env r.name cur := hres _ hcm
    split at h
    · cases h
    · simp only [pure, Except.pure, Except.ok.injEq] at h
      subst h
      intro e he
      rcases SharingGen.mem_dictSet _ _ _ _ he with he | rfl
      · exact hres e he
      · refine ⟨?_, ?_⟩
        · intro o ho
          simp only at ho
          cases hrp : r.producer with
          | none => rw [hrp] at ho; exact hcur'.1 o ho
          | some p => rw [hrp] at ho; cases ho; exact hr.1 _ hrp
        · intro cs c hcs hc
          simp only at hcs
          cases hrc : r.consumers with
          | none =>
            rw [hrc] at hcs
            exact hcur'.2 cs c hcs hc
          | some rc =>
            rw [hrc] at hcs
            cases hcc : cur.consumers with
            | none =>
              rw [hcc] at hcs
              cases hcs
              exact hr.2 _ c hrc hc
            | some c0 =>
              rw [hcc] at hcs
              cases hcs
              rcases List.mem_append.1 hc with hc | hc
              · exact hcur'.2 _ c hcc hc
              · exact hr.2 _ c hrc hc

theorem updateResults_prov (env : Env) (res res' : List (String × CReq)) (rs : List CReq)
    (hres : ResProv env res) (hrs : ∀ r ∈ rs, ReqProv env r) (h : updateResults res rs = .ok res') :
    ResProv env res' := by
  rw [updateResults_eq] at h
  exact GraphFrame.foldlM_inv stepF (ResProv env) rs res res' hres
    (fun r hr d d' hd hstep => stepF_prov env d d' r hd (hrs r hr) hstep) h

/-- results of every entry of the operator list of a subgraph are not constants -/
theorem outNC_allOps (env : Env) (st : Recipe.State) (hg : GenHyp env st) (sg : Subgraph)
    (hsg : sg ∈ env.model.subgraphs) (q : Op × Option String × Int) (hq : q ∈ allOps sg) :
    OutNC env sg q.1.outputs := by
  have hSg : SgOK env.model sg := ((modelOK_iff _).1 hg.wf).2.1 sg hsg
  have key : ∀ a ∈ q.1.outputs, a ≠ -1 → ValidT sg a ∧ isConst env.model sg a = false := by
    unfold allOps at hq
    rcases List.mem_append.1 hq with hq | hq
    · obtain ⟨⟨op, k⟩, hk, rfl⟩ := List.mem_map.1 hq
      have hop : sg.ops[k]? = some op := by
        have := List.mem_zipIdx_iff_getElem?.1 hk
        simpa using this
      intro a ha hne
      rcases (hSg.ops k op hop).outs a ha with h | h
      · exact absurd h hne
      · exact ⟨h.1, h.2.2.1⟩
    · simp only [List.mem_cons, List.mem_nil_iff, or_false] at hq
      rcases hq with rfl | rfl
      · intro a ha _
        exact ⟨hSg.ins a ha, hg.inputsNotConst sg hsg a ha⟩
      · intro a ha; cases ha
  intro p hp t ht
  obtain ⟨hp1, hp2⟩ := (mem_cslots _ _).1 hp
  obtain ⟨hv, hc⟩ := key p.1 (List.mem_of_getElem? hp1) hp2
  obtain ⟨h1, h2⟩ := tensorAt_valid sg p.1 t hv ht
  have := constData_isSome env sg p.1.toNat t h1
  rw [h2, hc] at this
  cases hcd : constData env t with
  | none => rfl
  | some d => rw [hcd] at this; cases this

theorem sgStep_prov (rx : String → String → Bool) (env : Env) (st : Recipe.State) (hg : GenHyp env st)
    (s s' : GState) (p : Subgraph × Nat) (hp : p.1 ∈ env.model.subgraphs) (hs : ResProv env s.2)
    (h : sgStep rx env st s p = .ok s') : ResProv env s'.2 := by
  unfold sgStep at h
  refine GraphFrame.foldlM_inv (opStep rx env st p.2 p.1) (fun x : GState => ResProv env x.2)
    _ s s' hs ?_ h
  intro q hq x x' hx hstep
  obtain ⟨rs, hr, hu⟩ := opStep_ok rx env st p.2 p.1 x x' q hstep
  exact updateResults_prov env _ _ rs hx
    (opReqs_prov rx env st p.2 p.1 x.1 q rs x'.1 hp (outNC_allOps env st hg p.1 hp q hq) hr) hu

/-- **every parameter object with data in the result dictionary of a successful `generate` has a
    source** -/
theorem generate_prov (rx : String → String → Bool) (env : Env) (st : Recipe.State) (qsvs : Option Qsvs)
    (hg : GenHyp env st)
    (res : List (String × CReq)) (qs : Qsvs)
    (hfold : env.model.subgraphs.zipIdx.foldlM (sgStep rx env st) (qsvs.getD [], []) = .ok (qs, res)) :
    ResProv env res := by
  refine GraphFrame.foldlM_inv (sgStep rx env st) (fun x : GState => ResProv env x.2) _
    (qsvs.getD [], []) (qs, res) (by intro e he; cases he) ?_ hfold
  intro p hp x x' hx hstep
  have hmem : p.1 ∈ env.model.subgraphs := by
    have := List.mem_zipIdx_iff_getElem?.1 hp
    exact List.mem_of_getElem? (by simpa using this)
  exact sgStep_prov rx env st hg x x' p hmem hx hstep

end ConstProv
