import QProofs.ValidateProofs
/-!
# validate(): the whole `compare` (C18b)

`collect` is restated as "evaluate the list of all comparisons (`allPairs`) left to right
(`List.mapM`, first error wins), then group the values by name (`groupVals`)"; `popGroup` /
`fileGroups` are characterised exactly (remaining dictionary = filter, group = the popped entries,
success of the unguarded pops); the two are combined into the specification of `compare`.
-/
open Validate

namespace ValidateE2E

/-! ## association lists -/
section dict
variable {ν : Type}

theorem dictGet?_cons (e : String × ν) (d : List (String × ν)) (n : String) :
    Py.dictGet? (e :: d) n = if e.1 == n then some e.2 else Py.dictGet? d n := by
  by_cases h : e.1 == n <;> simp [Py.dictGet?, List.find?, h]

theorem dictGet?_eq_none_iff (d : List (String × ν)) (n : String) :
    Py.dictGet? d n = none ↔ n ∉ d.map (·.1) := by
  induction d with
  | nil => simp [Py.dictGet?]
  | cons e t ih =>
    rw [dictGet?_cons]
    by_cases h : e.1 = n
    · simp [h]
    · have hb : (e.1 == n) = false := by simpa using h
      have h' : ¬ n = e.1 := fun hh => h hh.symm
      simp [hb, ih, h']

theorem dictGet?_mem (d : List (String × ν)) (n : String) (v : ν) (h : Py.dictGet? d n = some v) :
    (n, v) ∈ d := by
  induction d with
  | nil => simp [Py.dictGet?] at h
  | cons e t ih =>
    rw [dictGet?_cons] at h
    by_cases hb : e.1 = n
    · simp only [hb, beq_self_eq_true, if_true, Option.some.injEq] at h
      subst hb; subst h; exact List.mem_cons_self
    · have hb' : (e.1 == n) = false := by simpa using hb
      simp only [hb', Bool.false_eq_true, if_false] at h
      exact List.mem_cons_of_mem _ (ih h)

/-- in a dictionary with distinct keys, membership is lookup -/
theorem mem_iff_dictGet? (d : List (String × ν)) (hnd : (d.map (·.1)).Nodup) (n : String) (v : ν) :
    (n, v) ∈ d ↔ Py.dictGet? d n = some v := by
  refine ⟨fun hm => ?_, dictGet?_mem d n v⟩
  induction d with
  | nil => simp at hm
  | cons e t ih =>
    simp only [List.map_cons, List.nodup_cons] at hnd
    rw [dictGet?_cons]
    rcases List.mem_cons.1 hm with rfl | hm
    · simp
    · have hne : e.1 ≠ n := fun hh => hnd.1 (hh ▸ List.mem_map_of_mem (f := (·.1)) hm)
      have hb' : (e.1 == n) = false := by simpa using hne
      simp only [hb', Bool.false_eq_true, if_false]
      exact ih hnd.2 hm

theorem dictGet?_dictSet (d : List (String × ν)) (k n : String) (v : ν) :
    Py.dictGet? (Py.dictSet d k v) n = if k == n then some v else Py.dictGet? d n := by
  induction d with
  | nil => simp [Py.dictSet, Py.dictGet?]
  | cons e t ih =>
    obtain ⟨k', v'⟩ := e
    by_cases hk : k' = k
    · subst hk
      simp only [Py.dictSet, beq_self_eq_true, if_true, dictGet?_cons]
      by_cases hn : k' = n <;> simp [hn]
    · have hb : (k' == k) = false := by simpa using hk
      simp only [Py.dictSet, hb, Bool.false_eq_true, if_false, dictGet?_cons, ih]
      by_cases hn : k' = n
      · subst hn
        have : (k == k') = false := by simpa using fun hh : k = k' => hk hh.symm
        simp [this]
      · have hb2 : (k' == n) = false := by simpa using hn
        simp [hb2]

theorem keys_dictSet (d : List (String × ν)) (k : String) (v : ν) :
    (Py.dictSet d k v).map (·.1) = if k ∈ d.map (·.1) then d.map (·.1) else d.map (·.1) ++ [k] := by
  induction d with
  | nil => simp [Py.dictSet]
  | cons e t ih =>
    obtain ⟨k', v'⟩ := e
    by_cases hk : k' = k
    · subst hk; simp [Py.dictSet]
    · have hb : (k' == k) = false := by simpa using hk
      have hk' : ¬ k = k' := fun hh => hk hh.symm
      simp only [Py.dictSet, hb, Bool.false_eq_true, if_false, List.map_cons, ih, List.mem_cons, hk',
        false_or]
      split <;> simp

theorem nodup_dictSet (d : List (String × ν)) (k : String) (v : ν) (h : (d.map (·.1)).Nodup) :
    ((Py.dictSet d k v).map (·.1)).Nodup := by
  rw [keys_dictSet]
  split
  · exact h
  · rename_i hk
    rw [List.nodup_append]
    exact ⟨h, by simp, fun a ha b hb => by simp at hb; subst hb; exact fun hh => hk (hh ▸ ha)⟩

theorem dictGet?_map {μ : Type} (f : ν → μ) (d : List (String × ν)) (n : String) :
    Py.dictGet? (d.map fun e => (e.1, f e.2)) n = (Py.dictGet? d n).map f := by
  induction d with
  | nil => rfl
  | cons e t ih =>
    rw [List.map_cons, dictGet?_cons, dictGet?_cons, ih]
    split <;> simp

theorem keys_map {μ : Type} (f : ν → μ) (d : List (String × ν)) :
    (d.map fun e => (e.1, f e.2)).map (·.1) = d.map (·.1) := by
  simp [List.map_map, Function.comp_def]

end dict

/-! ## folds in `PyM` -/

theorem foldlM_flatMap {α β γ} (g : α → List β) (f : γ → β → PyM γ) : ∀ (l : List α) (init : γ),
    (l.flatMap g).foldlM f init = l.foldlM (fun acc a => (g a).foldlM f acc) init := by
  intro l
  induction l with
  | nil => intro init; rfl
  | cons a as ih =>
    intro init
    rw [List.flatMap_cons, List.foldlM_append, List.foldlM_cons]
    cases (g a).foldlM f init with
    | error e => rfl
    | ok s => exact ih s

/-- a fold whose step is "evaluate, then update purely" is "evaluate all, then fold purely" -/
theorem foldlM_eq_mapM {α β γ} (f : α → PyM β) (g : γ → β → γ) : ∀ (l : List α) (init : γ),
    l.foldlM (fun acc a => do let v ← f a; pure (g acc v)) init
      = (do let vs ← l.mapM f; pure (vs.foldl g init)) := by
  intro l
  induction l with
  | nil => intro init; rfl
  | cons a as ih =>
    intro init
    rw [List.foldlM_cons, List.mapM_cons]
    cases hf : f a with
    | error e => rfl
    | ok v =>
      simp only [bind, Except.bind, pure, Except.pure]
      have := ih (g init v)
      simp only [bind, Except.bind, pure, Except.pure] at this
      rw [this]
      cases as.mapM f with
      | error e => rfl
      | ok vs => rfl

theorem mapM_ok_iff {α β} (f : α → PyM β) : ∀ (l : List α) (vs : List β),
    l.mapM f = .ok vs ↔ List.Forall₂ (fun a v => f a = .ok v) l vs := by
  intro l
  induction l with
  | nil =>
    intro vs
    simp only [List.mapM_nil, pure, Except.pure, Except.ok.injEq]
    constructor
    · rintro rfl; exact .nil
    · intro h; cases h; rfl
  | cons a as ih =>
    intro vs
    rw [List.mapM_cons]
    cases hf : f a with
    | error e =>
      simp only [bind, Except.bind]
      constructor
      · intro h; cases h
      · intro h; cases h with | cons h1 _ => rw [hf] at h1; cases h1
    | ok v =>
      simp only [bind, Except.bind]
      cases hm : as.mapM f with
      | error e =>
        simp only
        constructor
        · intro h; cases h
        · intro h
          cases h with
          | cons h1 h2 => rw [← ih] at h2; rw [hm] at h2; cases h2
      | ok ws =>
        simp only [pure, Except.pure, Except.ok.injEq]
        constructor
        · rintro rfl; exact .cons hf ((ih ws).1 hm)
        · intro h
          cases h with
          | cons h1 h2 =>
            rw [hf] at h1; cases h1
            rw [← ih, hm] at h2; cases h2; rfl

/-- `mapM` fails with the error of the first failing element -/
theorem mapM_error_iff {α β} (f : α → PyM β) : ∀ (l : List α) (e : PyErr),
    l.mapM f = .error e ↔
      ∃ l1 a l2, l = l1 ++ a :: l2 ∧ (∀ b ∈ l1, ∃ v, f b = .ok v) ∧ f a = .error e := by
  intro l
  induction l with
  | nil =>
    intro e
    simp only [List.mapM_nil, pure, Except.pure]
    constructor
    · intro h; cases h
    · rintro ⟨l1, a, l2, h, _⟩; cases l1 <;> cases h
  | cons a as ih =>
    intro e
    rw [List.mapM_cons]
    cases hf : f a with
    | error e' =>
      simp only [bind, Except.bind]
      constructor
      · intro h; cases h; exact ⟨[], a, as, rfl, by simp, hf⟩
      · rintro ⟨l1, b, l2, h, hok, hb⟩
        cases l1 with
        | nil => simp only [List.nil_append, List.cons.injEq] at h; rw [← h.1, hf] at hb; cases hb; rfl
        | cons c l1 =>
          simp only [List.cons_append, List.cons.injEq] at h
          obtain ⟨v, hv⟩ := hok c (by simp)
          rw [← h.1, hf] at hv; cases hv
    | ok v =>
      simp only [bind, Except.bind]
      cases hm : as.mapM f with
      | error e' =>
        simp only
        obtain ⟨l1, b, l2, h, hok, hb⟩ := (ih e').1 hm
        constructor
        · intro he; cases he
          refine ⟨a :: l1, b, l2, by simp [h], ?_, hb⟩
          intro c hc
          rcases List.mem_cons.1 hc with rfl | hc
          · exact ⟨v, hf⟩
          · exact hok c hc
        · rintro ⟨l1', b', l2', h', hok', hb'⟩
          cases l1' with
          | nil => simp only [List.nil_append, List.cons.injEq] at h'; rw [← h'.1, hf] at hb'; cases hb'
          | cons c l1' =>
            simp only [List.cons_append, List.cons.injEq] at h'
            have : as.mapM f = .error e := (ih e).2 ⟨l1', b', l2', h'.2, fun x hx => hok' x (by simp [hx]), hb'⟩
            rw [hm] at this; cases this; rfl
      | ok ws =>
        simp only [pure, Except.pure]
        constructor
        · intro h; cases h
        · rintro ⟨l1', b', l2', h', hok', hb'⟩
          cases l1' with
          | nil => simp only [List.nil_append, List.cons.injEq] at h'; rw [← h'.1, hf] at hb'; cases hb'
          | cons c l1' =>
            simp only [List.cons_append, List.cons.injEq] at h'
            have : as.mapM f = .error e := (ih e).2 ⟨l1', b', l2', h'.2, fun x hx => hok' x (by simp [hx]), hb'⟩
            rw [hm] at this; cases this

theorem mapM_ok_all_iff {α β} (f : α → PyM β) (l : List α) :
    (∃ vs, l.mapM f = .ok vs) ↔ ∀ a ∈ l, ∃ v, f a = .ok v := by
  induction l with
  | nil => simp [pure, Except.pure]
  | cons a as ih =>
    constructor
    · rintro ⟨vs, h⟩
      rw [mapM_ok_iff] at h
      cases h with
      | cons h1 h2 =>
        intro b hb
        rcases List.mem_cons.1 hb with rfl | hb
        · exact ⟨_, h1⟩
        · exact ih.1 ⟨_, (mapM_ok_iff f _ _).2 h2⟩ b hb
    · intro h
      obtain ⟨v, hv⟩ := h a (by simp)
      obtain ⟨vs, hvs⟩ := ih.2 (fun b hb => h b (by simp [hb]))
      exact ⟨v :: vs, (mapM_ok_iff f _ _).2 (.cons hv ((mapM_ok_iff f _ _).1 hvs))⟩

/-! ## `collect` as "evaluate all comparisons, then group" -/

/-- one comparison: dequantize/flatten the reference tensor, then the target tensor, then the
    metric (in this order — it fixes which error is reported) -/
def pairVal (m : Metric) (td rd : TData) : PyM Rat := do
  let r ← values rd
  let t ← values td
  metric m t r

/-- the comparisons performed on one sample: the tensors of the reference side, in order, whose
    name also occurs on the target side (the others are skipped), paired with the (first) target
    tensor of that name -/
def samplePairs (s : Sample) : List (String × TData × TData) :=
  s.ref.filterMap fun e => (Py.dictGet? s.target e.1).map fun td => (e.1, td, e.2)

/-- all comparisons of a run, in evaluation order -/
def allPairs (samples : List Sample) : List (String × TData × TData) := samples.flatMap samplePairs

def evalPair (m : Metric) (p : String × TData × TData) : PyM (String × Rat) := do
  let v ← pairVal m p.2.1 p.2.2
  pure (p.1, v)

/-- `comparison_results[name].append(v)` -/
def push (acc : List (String × List Rat)) (p : String × Rat) : List (String × List Rat) :=
  Py.dictSet acc p.1 ((Py.dictGet? acc p.1).getD [] ++ [p.2])

def groupVals (vs : List (String × Rat)) : List (String × List Rat) := vs.foldl push []

/-- the loop body of `collect` -/
def collectStep (m : Metric) (s : Sample) (acc : List (String × List Rat)) (e : String × TData) :
    PyM (List (String × List Rat)) :=
  match Py.dictGet? s.target e.1 with
  | none => pure acc
  | some td => do
    let r ← values e.2
    let t ← values td
    let v ← metric m t r
    pure (Py.dictSet acc e.1 ((Py.dictGet? acc e.1).getD [] ++ [v]))

theorem collect_unfold (m : Metric) (samples : List Sample) :
    collect m samples = samples.foldlM (fun acc s => s.ref.foldlM (collectStep m s) acc) [] := rfl

theorem inner_eq (m : Metric) (s : Sample) : ∀ (l : List (String × TData)) (acc : List (String × List Rat)),
    l.foldlM (collectStep m s) acc =
      (l.filterMap fun e => (Py.dictGet? s.target e.1).map fun td => (e.1, td, e.2)).foldlM
        (fun acc p => do let v ← evalPair m p; pure (push acc v)) acc := by
  intro l
  induction l with
  | nil => intro acc; rfl
  | cons e es ih =>
    intro acc
    rw [List.foldlM_cons, List.filterMap_cons]
    cases hg : Py.dictGet? s.target e.1 with
    | none =>
      simp only [Option.map_none]
      have : collectStep m s acc e = pure acc := by simp only [collectStep, hg]
      rw [this]
      exact ih acc
    | some td =>
      simp only [Option.map_some, List.foldlM_cons]
      have : collectStep m s acc e =
          (do let v ← evalPair m (e.1, td, e.2); pure (push acc v)) := by
        simp only [collectStep, hg, evalPair, pairVal, push, bind_assoc, pure_bind]
      rw [this]
      cases (do let v ← evalPair m (e.1, td, e.2); pure (push acc v) : PyM _) with
      | error x => rfl
      | ok a => exact ih a

/-- **`collect` restated**: evaluate all comparisons in order (first error wins), group by name -/
theorem collect_eq (m : Metric) (samples : List Sample) :
    collect m samples = (do let vs ← (allPairs samples).mapM (evalPair m); pure (groupVals vs)) := by
  rw [collect_unfold]
  have h1 : (fun acc (s : Sample) => s.ref.foldlM (collectStep m s) acc) =
      (fun acc s => (samplePairs s).foldlM (fun acc p => do let v ← evalPair m p; pure (push acc v)) acc) := by
    funext acc s
    exact inner_eq m s s.ref acc
  rw [h1, ← foldlM_flatMap samplePairs, foldlM_eq_mapM]
  rfl

/-! ## grouping by name -/

/-- the values recorded for `n`, in evaluation order -/
def valsOf (vs : List (String × Rat)) (n : String) : List Rat := (vs.filter (·.1 == n)).map (·.2)

theorem valsOf_cons (p : String × Rat) (vs : List (String × Rat)) (n : String) :
    valsOf (p :: vs) n = if p.1 == n then p.2 :: valsOf vs n else valsOf vs n := by
  unfold valsOf
  rw [List.filter_cons]
  split <;> simp

theorem dictGet?_push (acc : List (String × List Rat)) (p : String × Rat) (n : String) :
    Py.dictGet? (push acc p) n =
      if p.1 == n then some ((Py.dictGet? acc n).getD [] ++ [p.2]) else Py.dictGet? acc n := by
  unfold push
  rw [dictGet?_dictSet]
  by_cases h : p.1 = n
  · subst h; simp
  · have hb : (p.1 == n) = false := by simpa using h
    simp [hb]

theorem dictGet?_foldl_push (n : String) : ∀ (vs : List (String × Rat)) (acc : List (String × List Rat)),
    Py.dictGet? (vs.foldl push acc) n =
      if valsOf vs n = [] then Py.dictGet? acc n
      else some ((Py.dictGet? acc n).getD [] ++ valsOf vs n) := by
  intro vs
  induction vs with
  | nil => intro acc; simp [valsOf]
  | cons p ps ih =>
    intro acc
    rw [List.foldl_cons, ih, dictGet?_push, valsOf_cons]
    by_cases h : p.1 = n
    · subst h
      simp only [beq_self_eq_true, if_true, Option.getD_some, List.append_assoc, List.singleton_append,
        reduceCtorEq, if_false]
      split <;> simp_all
    · have hb : (p.1 == n) = false := by simpa using h
      simp only [hb, Bool.false_eq_true, if_false]

theorem nodup_foldl_push : ∀ (vs : List (String × Rat)) (acc : List (String × List Rat)),
    (acc.map (·.1)).Nodup → ((vs.foldl push acc).map (·.1)).Nodup := by
  intro vs
  induction vs with
  | nil => intro acc h; exact h
  | cons p ps ih => intro acc h; exact ih _ (nodup_dictSet _ _ _ h)

theorem dictGet?_groupVals (vs : List (String × Rat)) (n : String) :
    Py.dictGet? (groupVals vs) n = if valsOf vs n = [] then none else some (valsOf vs n) := by
  unfold groupVals
  rw [dictGet?_foldl_push]
  simp [Py.dictGet?]

theorem nodup_groupVals (vs : List (String × Rat)) : ((groupVals vs).map (·.1)).Nodup :=
  nodup_foldl_push vs [] (by simp)

theorem valsOf_eq_nil_iff (vs : List (String × Rat)) (n : String) :
    valsOf vs n = [] ↔ n ∉ vs.map (·.1) := by
  unfold valsOf
  simp only [List.map_eq_nil_iff, List.filter_eq_nil_iff, beq_iff_eq, List.mem_map, not_exists, not_and]

/-- the dictionary handed to `add_new_signature_results` -/
def aggregated (vs : List (String × Rat)) : List (String × Rat) :=
  (groupVals vs).map fun e => (e.1, meanR e.2)

theorem nodup_aggregated (vs : List (String × Rat)) : ((aggregated vs).map (·.1)).Nodup := by
  unfold aggregated
  rw [keys_map]
  exact nodup_groupVals vs

/-- **the aggregated dictionary**: one entry per name that was compared at least once, holding the
    mean of the recorded values -/
theorem mem_aggregated (vs : List (String × Rat)) (n : String) (v : Rat) :
    (n, v) ∈ aggregated vs ↔ valsOf vs n ≠ [] ∧ v = meanR (valsOf vs n) := by
  rw [mem_iff_dictGet? _ (nodup_aggregated vs)]
  unfold aggregated
  rw [dictGet?_map, dictGet?_groupVals]
  split
  · rename_i h; simp [h]
  · rename_i h
    simp only [Option.map_some, Option.some.injEq, ne_eq, h, not_false_eq_true, true_and]
    exact eq_comm

theorem key_aggregated (vs : List (String × Rat)) (n : String) :
    n ∈ (aggregated vs).map (·.1) ↔ n ∈ vs.map (·.1) := by
  constructor
  · intro h
    obtain ⟨e, he, hen⟩ := List.mem_map.1 h
    obtain ⟨k, v⟩ := e
    simp only at hen; subst hen
    have := ((mem_aggregated vs k v).1 he).1
    rw [ne_eq, valsOf_eq_nil_iff] at this
    exact not_not.1 this
  · intro h
    have h1 : valsOf vs n ≠ [] := by rw [ne_eq, valsOf_eq_nil_iff]; exact not_not.2 h
    exact List.mem_map.2 ⟨(n, meanR (valsOf vs n)), (mem_aggregated vs n _).2 ⟨h1, rfl⟩, rfl⟩

/-! ## `popGroup`, exactly -/

open ValidateProofs (Dict popStep popGroup_eq foldlM_cons_ok)

theorem popStep_false_error (st : Dict × Dict) (n : String) (e : PyErr)
    (h : popStep false st n = .error e) : e = .keyError ∧ n ∉ st.1.map (·.1) := by
  unfold popStep at h
  cases hg : Py.dictGet? st.1 n with
  | some v => simp [hg, pure, Except.pure] at h
  | none =>
    simp only [hg, Bool.false_eq_true, if_false, throw, throwThe, MonadExceptOf.throw,
      Except.error.injEq] at h
    exact ⟨h.symm, (dictGet?_eq_none_iff _ _).1 hg⟩

theorem popStep_ok (g : Bool) (st st' : Dict × Dict) (n : String) (h : popStep g st n = .ok st') :
    st'.1 = st.1.filter (·.1 != n) ∧ (g = false → n ∈ st.1.map (·.1)) := by
  unfold popStep at h
  cases hg : Py.dictGet? st.1 n with
  | some v =>
    simp only [hg, pure, Except.pure, Except.ok.injEq] at h
    subst h
    exact ⟨rfl, fun _ => List.mem_map_of_mem (f := (·.1)) (dictGet?_mem _ _ _ hg)⟩
  | none =>
    have hn := (dictGet?_eq_none_iff _ _).1 hg
    cases g with
    | false => simp [hg, throw, throwThe, MonadExceptOf.throw] at h
    | true =>
      simp only [hg, if_true, pure, Except.pure, Except.ok.injEq] at h
      subst h
      refine ⟨?_, fun hf => by cases hf⟩
      symm
      rw [List.filter_eq_self]
      intro e he
      simp only [bne_iff_ne, ne_eq]
      intro hen
      exact hn (hen ▸ List.mem_map_of_mem (f := (·.1)) he)

theorem popStep_true_ok (st : Dict × Dict) (n : String) : ∃ st', popStep true st n = .ok st' := by
  unfold popStep
  cases Py.dictGet? st.1 n with
  | some v => exact ⟨_, rfl⟩
  | none => exact ⟨_, rfl⟩

theorem popStep_false_ok (st : Dict × Dict) (n : String) (h : n ∈ st.1.map (·.1)) :
    ∃ st', popStep false st n = .ok st' := by
  unfold popStep
  cases hg : Py.dictGet? st.1 n with
  | some v => exact ⟨_, rfl⟩
  | none => exact absurd h ((dictGet?_eq_none_iff _ _).1 hg)

/-- what is left after the pops: the entries whose name was not asked for -/
theorem popFold_rest (g : Bool) : ∀ (names : List String) (st r : Dict × Dict),
    names.foldlM (popStep g) st = .ok r → r.1 = st.1.filter (fun e => !names.contains e.1) := by
  intro names
  induction names with
  | nil =>
    intro st r h
    simp only [List.foldlM_nil, pure, Except.pure, Except.ok.injEq] at h
    subst h; simp
  | cons n ns ih =>
    intro st r h
    obtain ⟨s, hs, hr⟩ := foldlM_cons_ok _ _ _ _ _ h
    rw [ih s r hr, (popStep_ok g st s n hs).1, List.filter_filter]
    congr 1
    funext e
    simp only [List.contains_cons, Bool.not_or, bne, Bool.and_comm]

theorem keys_filter_ne (d : Dict) (n m : String) :
    m ∈ (d.filter (·.1 != n)).map (·.1) ↔ m ∈ d.map (·.1) ∧ m ≠ n := by
  simp only [List.mem_map, List.mem_filter, bne_iff_ne, ne_eq]
  constructor
  · rintro ⟨e, ⟨he, hen⟩, rfl⟩; exact ⟨⟨e, he, rfl⟩, hen⟩
  · rintro ⟨⟨e, he, rfl⟩, hen⟩; exact ⟨e, ⟨he, hen⟩, rfl⟩

/-- the unguarded pops succeed iff the names are distinct and all present -/
theorem popFold_false_ok_iff : ∀ (names : List String) (st : Dict × Dict),
    (∃ r, names.foldlM (popStep false) st = .ok r) ↔
      names.Nodup ∧ ∀ n ∈ names, n ∈ st.1.map (·.1) := by
  intro names
  induction names with
  | nil => intro st; simp [pure, Except.pure]
  | cons n ns ih =>
    intro st
    constructor
    · rintro ⟨r, h⟩
      obtain ⟨s, hs, hr⟩ := foldlM_cons_ok _ _ _ _ _ h
      obtain ⟨h1, h2⟩ := popStep_ok false st s n hs
      obtain ⟨hnd, hall⟩ := (ih s).1 ⟨r, hr⟩
      rw [h1] at hall
      refine ⟨List.nodup_cons.2 ⟨fun hn => ?_, hnd⟩, ?_⟩
      · exact ((keys_filter_ne _ _ _).1 (hall n hn)).2 rfl
      · intro k hk
        rcases List.mem_cons.1 hk with rfl | hk
        · exact h2 rfl
        · exact ((keys_filter_ne _ _ _).1 (hall k hk)).1
    · rintro ⟨hnd, hall⟩
      obtain ⟨s, hs⟩ := popStep_false_ok st n (hall n (by simp))
      obtain ⟨h1, _⟩ := popStep_ok false st s n hs
      have hnd' := List.nodup_cons.1 hnd
      obtain ⟨r, hr⟩ := (ih s).2 ⟨hnd'.2, fun k hk => by
        rw [h1]
        exact (keys_filter_ne _ _ _).2 ⟨hall k (by simp [hk]), fun hkn => hnd'.1 (hkn ▸ hk)⟩⟩
      refine ⟨r, ?_⟩
      rw [List.foldlM_cons, hs]
      exact hr

/-- the only error of the unguarded pops is `KeyError` -/
theorem popFold_false_error : ∀ (names : List String) (st : Dict × Dict) (e : PyErr),
    names.foldlM (popStep false) st = .error e → e = .keyError := by
  intro names
  induction names with
  | nil => intro st e h; simp [pure, Except.pure] at h
  | cons n ns ih =>
    intro st e h
    rw [List.foldlM_cons] at h
    cases hs : popStep false st n with
    | error e' =>
      rw [hs] at h
      simp only [bind, Except.bind, Except.error.injEq] at h
      subst h
      exact (popStep_false_error st n e' hs).1
    | ok s =>
      rw [hs] at h
      exact ih s e h

/-- the guarded pops never fail -/
theorem popFold_true_ok : ∀ (names : List String) (st : Dict × Dict),
    ∃ r, names.foldlM (popStep true) st = .ok r := by
  intro names
  induction names with
  | nil => intro st; exact ⟨st, rfl⟩
  | cons n ns ih =>
    intro st
    obtain ⟨s, hs⟩ := popStep_true_ok st n
    obtain ⟨r, hr⟩ := ih s
    exact ⟨r, by rw [List.foldlM_cons, hs]; exact hr⟩

/-- **`popGroup`, exactly** (dictionary with distinct keys): what remains is the filter, and the
    group consists of the entries whose name was asked for -/
theorem popGroup_spec (g : Bool) (result : Dict) (hnd : (result.map (·.1)).Nodup)
    (names : List String) (r : Dict × Dict) (h : popGroup g result names = .ok r) :
    r.1 = result.filter (fun e => !names.contains e.1) ∧
    ∀ e, e ∈ r.2 ↔ e ∈ result ∧ e.1 ∈ names := by
  have hp := ValidateProofs.popGroup_perm g result hnd names r h
  rw [popGroup_eq] at h
  have hrest := popFold_rest g names (result, []) r h
  simp only at hrest
  refine ⟨hrest, fun e => ?_⟩
  have hnd' : ((r.1 ++ r.2).map (·.1)).Nodup := (hp.map (·.1)).nodup_iff.2 hnd
  rw [List.map_append, List.nodup_append] at hnd'
  obtain ⟨_, _, hdisj⟩ := hnd'
  have hmem : e ∈ r.1 ↔ e ∈ result ∧ e.1 ∉ names := by
    rw [hrest]; simp [List.mem_filter]
  constructor
  · intro he
    have her : e ∈ result := hp.mem_iff.1 (List.mem_append_right _ he)
    refine ⟨her, ?_⟩
    by_contra hn
    have : e ∈ r.1 := hmem.2 ⟨her, hn⟩
    exact hdisj e.1 (List.mem_map_of_mem (f := (·.1)) this) e.1 (List.mem_map_of_mem (f := (·.1)) he) rfl
  · rintro ⟨her, hn⟩
    rcases List.mem_append.1 (hp.mem_iff.2 her) with h1 | h2
    · exact absurd hn (hmem.1 h1).2
    · exact h2

/-! ## `fileGroups`, exactly -/

/-- the four groups of a comparison result -/
inductive Tag where | inputs | outputs | constants | intermediates
  deriving DecidableEq, Repr

def get (g : Groups) : Tag → List (String × Rat)
  | .inputs => g.inputs
  | .outputs => g.outputs
  | .constants => g.constants
  | .intermediates => g.intermediates

/-- the group a tensor name is filed under: inputs win over outputs, outputs over constants -/
def classify (ins outs cs : List String) (n : String) : Tag :=
  if n ∈ ins then .inputs else if n ∈ outs then .outputs else if n ∈ cs then .constants
  else .intermediates

theorem nodup_filter_keys (d : Dict) (p : String × Rat → Bool) (h : (d.map (·.1)).Nodup) :
    ((d.filter p).map (·.1)).Nodup :=
  (List.Sublist.map (fun x : String × Rat => x.1) List.filter_sublist).nodup h

theorem fileGroups_spec (result : Dict) (hnd : (result.map (·.1)).Nodup)
    (ins outs cs : List String) (g : Groups) (h : fileGroups result ins outs cs = .ok g)
    (t : Tag) (e : String × Rat) :
    e ∈ get g t ↔ e ∈ result ∧ classify ins outs cs e.1 = t := by
  obtain ⟨r1, r2, h1, h2, h3⟩ := ValidateProofs.fileGroups_ok result ins outs cs g h
  obtain ⟨e1, m1⟩ := popGroup_spec false result hnd ins _ h1
  simp only at e1 m1
  have hnd1 : (r1.map (·.1)).Nodup := e1 ▸ nodup_filter_keys _ _ hnd
  obtain ⟨e2, m2⟩ := popGroup_spec true r1 hnd1 outs _ h2
  simp only at e2 m2
  have hnd2 : (r2.map (·.1)).Nodup := e2 ▸ nodup_filter_keys _ _ hnd1
  obtain ⟨e3, m3⟩ := popGroup_spec true r2 hnd2 cs _ h3
  simp only at e3 m3
  have k1 : e ∈ r1 ↔ e ∈ result ∧ e.1 ∉ ins := by rw [e1]; simp [List.mem_filter]
  have k2 : e ∈ r2 ↔ e ∈ r1 ∧ e.1 ∉ outs := by rw [e2]; simp [List.mem_filter]
  have k3 : e ∈ g.intermediates ↔ e ∈ r2 ∧ e.1 ∉ cs := by rw [e3]; simp [List.mem_filter]
  unfold classify
  cases t with
  | inputs =>
    simp only [get, m1]
    by_cases hi : e.1 ∈ ins <;> by_cases ho : e.1 ∈ outs <;> by_cases hc : e.1 ∈ cs <;> simp [hi, ho, hc]
  | outputs =>
    simp only [get, m2, k1]
    by_cases hi : e.1 ∈ ins <;> by_cases ho : e.1 ∈ outs <;> by_cases hc : e.1 ∈ cs <;> simp [hi, ho, hc]
  | constants =>
    simp only [get, m3, k2, k1]
    by_cases hi : e.1 ∈ ins <;> by_cases ho : e.1 ∈ outs <;> by_cases hc : e.1 ∈ cs <;> simp [hi, ho, hc]
  | intermediates =>
    simp only [get, k3, k2, k1]
    by_cases hi : e.1 ∈ ins <;> by_cases ho : e.1 ∈ outs <;> by_cases hc : e.1 ∈ cs <;> simp [hi, ho, hc]

/-- `add_new_signature_results` succeeds iff the input names are distinct and all present -/
theorem fileGroups_ok_iff (result : Dict) (ins outs cs : List String) :
    (∃ g, fileGroups result ins outs cs = .ok g) ↔
      ins.Nodup ∧ ∀ n ∈ ins, n ∈ result.map (·.1) := by
  rw [← popFold_false_ok_iff ins (result, [])]
  constructor
  · rintro ⟨g, h⟩
    obtain ⟨r1, r2, h1, _, _⟩ := ValidateProofs.fileGroups_ok result ins outs cs g h
    exact ⟨_, h1⟩
  · rintro ⟨r, h⟩
    obtain ⟨r2, h2⟩ := popFold_true_ok outs (r.1, [])
    obtain ⟨r3, h3⟩ := popFold_true_ok cs (r2.1, [])
    refine ⟨⟨r.2, r2.2, r3.2, r3.1⟩, ?_⟩
    unfold fileGroups
    rw [popGroup_eq, h]
    simp only [bind, Except.bind]
    rw [popGroup_eq, h2]
    simp only
    rw [popGroup_eq, h3]
    rfl

/-- … and its only error is `KeyError` -/
theorem fileGroups_error (result : Dict) (ins outs cs : List String) (e : PyErr)
    (h : fileGroups result ins outs cs = .error e) : e = .keyError := by
  unfold fileGroups at h
  rw [popGroup_eq] at h
  cases h1 : ins.foldlM (popStep false) (result, []) with
  | error e' =>
    rw [h1] at h
    simp only [bind, Except.bind, Except.error.injEq] at h
    subst h
    exact popFold_false_error _ _ _ h1
  | ok r =>
    rw [h1] at h
    simp only [bind, Except.bind] at h
    obtain ⟨r2, h2⟩ := popFold_true_ok outs (r.1, [])
    rw [popGroup_eq, h2] at h
    simp only at h
    obtain ⟨r3, h3⟩ := popFold_true_ok cs (r2.1, [])
    rw [popGroup_eq, h3] at h
    simp [pure, Except.pure] at h

/-! ## `compare` -/

theorem compare_eq (m : Metric) (samples : List Sample) (ins outs cs : List String) :
    compare m samples ins outs cs =
      (do let vs ← (allPairs samples).mapM (evalPair m); fileGroups (aggregated vs) ins outs cs) := by
  have : compare m samples ins outs cs =
      (do let per ← collect m samples
          fileGroups (per.map fun e => (e.1, meanR e.2)) ins outs cs) := rfl
  rw [this, collect_eq]
  cases (allPairs samples).mapM (evalPair m) with
  | error e => rfl
  | ok vs => rfl

theorem compare_ok (m : Metric) (samples : List Sample) (ins outs cs : List String) (g : Groups) :
    compare m samples ins outs cs = .ok g ↔
      ∃ vs, (allPairs samples).mapM (evalPair m) = .ok vs ∧ fileGroups (aggregated vs) ins outs cs = .ok g := by
  rw [compare_eq]
  cases (allPairs samples).mapM (evalPair m) with
  | error e => simp [bind, Except.bind]
  | ok vs => simp [bind, Except.bind]

theorem evalPair_ok (m : Metric) (p : String × TData × TData) (v : String × Rat) :
    evalPair m p = .ok v ↔ v.1 = p.1 ∧ pairVal m p.2.1 p.2.2 = .ok v.2 := by
  unfold evalPair
  cases pairVal m p.2.1 p.2.2 with
  | error e => simp [bind, Except.bind]
  | ok x =>
    simp only [bind, Except.bind, pure, Except.pure, Except.ok.injEq]
    constructor
    · rintro rfl; exact ⟨rfl, rfl⟩
    · rintro ⟨h1, h2⟩; exact Prod.ext h1.symm h2

theorem evalPair_ok_iff (m : Metric) (p : String × TData × TData) :
    (∃ v, evalPair m p = .ok v) ↔ ∃ x, pairVal m p.2.1 p.2.2 = .ok x := by
  constructor
  · rintro ⟨v, h⟩; exact ⟨v.2, ((evalPair_ok m p v).1 h).2⟩
  · rintro ⟨x, h⟩; exact ⟨(p.1, x), (evalPair_ok m p _).2 ⟨rfl, h⟩⟩

theorem evalPair_error (m : Metric) (p : String × TData × TData) (e : PyErr) :
    evalPair m p = .error e ↔ pairVal m p.2.1 p.2.2 = .error e := by
  unfold evalPair
  cases pairVal m p.2.1 p.2.2 with
  | error e' => simp [bind, Except.bind]
  | ok x => simp [bind, Except.bind, pure, Except.pure]

/-- the results of all comparisons of the tensor `n`, in evaluation order -/
def trace (m : Metric) (samples : List Sample) (n : String) : List (PyM Rat) :=
  ((allPairs samples).filter (·.1 == n)).map fun p => pairVal m p.2.1 p.2.2

theorem forall₂_trace (m : Metric) (n : String) : ∀ (l : List (String × TData × TData)) (vs : List (String × Rat)),
    List.Forall₂ (fun p v => evalPair m p = .ok v) l vs →
      (l.filter (·.1 == n)).map (fun p => pairVal m p.2.1 p.2.2) = (valsOf vs n).map .ok ∧
      vs.map (·.1) = l.map (·.1) := by
  intro l vs h
  induction h with
  | nil => exact ⟨rfl, rfl⟩
  | @cons p v l vs hpv _ ih =>
    obtain ⟨h1, h2⟩ := (evalPair_ok m p v).1 hpv
    rw [valsOf_cons, List.filter_cons, h1]
    refine ⟨?_, by simp [h1, ih.2]⟩
    split
    · simp [h2, ih.1]
    · exact ih.1

theorem map_ok_injective {l1 l2 : List Rat} (h : l1.map (Except.ok (ε := PyErr)) = l2.map .ok) : l1 = l2 :=
  List.map_injective_iff.2 (fun a b hab => by cases hab; rfl) h

/-- a tensor name is compared at all iff, in some sample, it names a tensor on both sides -/
def present (samples : List Sample) (n : String) : Prop :=
  ∃ s ∈ samples, n ∈ s.ref.map (·.1) ∧ n ∈ s.target.map (·.1)

theorem mem_samplePairs (s : Sample) (p : String × TData × TData) :
    p ∈ samplePairs s ↔ ∃ e ∈ s.ref, Py.dictGet? s.target e.1 = some p.2.1 ∧ p.1 = e.1 ∧ p.2.2 = e.2 := by
  unfold samplePairs
  simp only [List.mem_filterMap, Option.map_eq_some_iff]
  constructor
  · rintro ⟨e, he, td, htd, rfl⟩; exact ⟨e, he, htd, rfl, rfl⟩
  · rintro ⟨e, he, htd, h1, h2⟩
    exact ⟨e, he, p.2.1, htd, by obtain ⟨a, b, c⟩ := p; simp only at h1 h2; subst h1; subst h2; rfl⟩

theorem mem_allPairs (samples : List Sample) (p : String × TData × TData) :
    p ∈ allPairs samples ↔
      ∃ s ∈ samples, ∃ e ∈ s.ref, Py.dictGet? s.target e.1 = some p.2.1 ∧ p.1 = e.1 ∧ p.2.2 = e.2 := by
  unfold allPairs
  simp only [List.mem_flatMap, mem_samplePairs]

theorem key_allPairs (samples : List Sample) (n : String) :
    n ∈ (allPairs samples).map (·.1) ↔ present samples n := by
  unfold present
  simp only [List.mem_map, mem_allPairs]
  constructor
  · rintro ⟨p, ⟨s, hs, e, he, htd, h1, _⟩, rfl⟩
    refine ⟨s, hs, ⟨e, he, h1.symm⟩, ?_⟩
    have := dictGet?_mem _ _ _ htd
    exact ⟨_, this, h1.symm⟩
  · rintro ⟨s, hs, ⟨e, he, rfl⟩, ht⟩
    cases hg : Py.dictGet? s.target e.1 with
    | none => exact absurd (List.mem_map.2 ht) ((dictGet?_eq_none_iff _ _).1 hg)
    | some td => exact ⟨(e.1, td, e.2), ⟨s, hs, e, he, hg, rfl, rfl⟩, rfl⟩

theorem trace_ne_nil_iff (m : Metric) (samples : List Sample) (n : String) :
    trace m samples n ≠ [] ↔ present samples n := by
  rw [← key_allPairs]
  unfold trace
  simp only [ne_eq, List.map_eq_nil_iff, List.filter_eq_nil_iff, beq_iff_eq, List.mem_map, not_forall]
  constructor
  · rintro ⟨p, hp, hn⟩; exact ⟨p, hp, not_not.1 hn⟩
  · rintro ⟨p, hp, hn⟩; exact ⟨p, hp, not_not.2 hn⟩

/-- **`compare`, per tensor name** (no assumption on the samples): all comparisons of `n` succeeded,
    and `n` is filed — iff it was compared at least once — in exactly the group `classify n`, with
    the mean of the values of its comparisons -/
theorem compare_spec_general (m : Metric) (samples : List Sample) (ins outs cs : List String) (g : Groups)
    (h : compare m samples ins outs cs = .ok g) (n : String) :
    ∃ xs : List Rat, trace m samples n = xs.map .ok ∧
      ∀ (t : Tag) (v : Rat), (n, v) ∈ get g t ↔
        xs ≠ [] ∧ t = classify ins outs cs n ∧ v = meanR xs := by
  obtain ⟨vs, hvs, hf⟩ := (compare_ok m samples ins outs cs g).1 h
  have hF := (mapM_ok_iff _ _ _).1 hvs
  refine ⟨valsOf vs n, (forall₂_trace m n _ _ hF).1, fun t v => ?_⟩
  rw [fileGroups_spec _ (nodup_aggregated vs) ins outs cs g hf t (n, v), mem_aggregated]
  constructor
  · rintro ⟨⟨h1, h2⟩, h3⟩; exact ⟨h1, h3.symm, h2⟩
  · rintro ⟨h1, h3, h2⟩; exact ⟨⟨h1, h2⟩, h3.symm⟩

/-- no tensor name is reported twice, across all four groups -/
theorem compare_nodup (m : Metric) (samples : List Sample) (ins outs cs : List String) (g : Groups)
    (h : compare m samples ins outs cs = .ok g) :
    ((g.inputs ++ g.outputs ++ g.constants ++ g.intermediates).map (·.1)).Nodup := by
  obtain ⟨vs, _, hf⟩ := (compare_ok m samples ins outs cs g).1 h
  exact (ValidateProofs.fileGroups_partition _ (nodup_aggregated vs) ins outs cs g hf).1

/-! ### per-sample form (distinct tensor names on the reference side) -/

/-- the comparison of tensor `n` on one sample: skipped when `n` is missing on either side -/
def sampleVal (m : Metric) (s : Sample) (n : String) : List (PyM Rat) :=
  match Py.dictGet? s.ref n, Py.dictGet? s.target n with
  | some rd, some td => [pairVal m td rd]
  | _, _ => []

def perSample (m : Metric) (samples : List Sample) (n : String) : List (PyM Rat) :=
  samples.flatMap (sampleVal m · n)

theorem filter_pairs_nodup (T : List (String × TData)) (n : String) :
    ∀ (l : List (String × TData)), (l.map (·.1)).Nodup →
      ((l.filterMap fun e => (Py.dictGet? T e.1).map fun td => (e.1, td, e.2)).filter (·.1 == n))
        = match Py.dictGet? l n, Py.dictGet? T n with
          | some rd, some td => [(n, td, rd)]
          | _, _ => [] := by
  intro l
  induction l with
  | nil => intro _; simp [Py.dictGet?]
  | cons e es ih =>
    intro hnd
    simp only [List.map_cons, List.nodup_cons] at hnd
    rw [List.filterMap_cons, dictGet?_cons]
    by_cases hen : e.1 = n
    · subst hen
      have hnone : Py.dictGet? es e.1 = none := (dictGet?_eq_none_iff _ _).2 hnd.1
      have hrest := ih hnd.2
      rw [hnone] at hrest
      simp only [beq_self_eq_true, if_true]
      cases hg : Py.dictGet? T e.1 with
      | none => simp only [Option.map_none]; rw [hrest]
      | some td =>
        simp only [Option.map_some, List.filter_cons, beq_self_eq_true, if_true]
        rw [hrest]
    · have hb : (e.1 == n) = false := by simpa using hen
      simp only [hb, Bool.false_eq_true, if_false]
      cases hg : Py.dictGet? T e.1 with
      | none => simp only [Option.map_none]; exact ih hnd.2
      | some td =>
        simp only [Option.map_some, List.filter_cons, hb, Bool.false_eq_true, if_false]
        exact ih hnd.2

theorem trace_eq_perSample (m : Metric) (samples : List Sample)
    (hnd : ∀ s ∈ samples, (s.ref.map (·.1)).Nodup) (n : String) :
    trace m samples n = perSample m samples n := by
  unfold trace perSample allPairs
  rw [List.filter_flatMap, List.map_flatMap]
  apply List.flatMap_congr
  intro s hs
  unfold samplePairs sampleVal
  rw [filter_pairs_nodup s.target n s.ref (hnd s hs)]
  cases Py.dictGet? s.ref n with
  | none => rfl
  | some rd =>
    cases Py.dictGet? s.target n with
    | none => rfl
    | some td => rfl

/-! ### success and errors -/

theorem metric_ok_length (m : Metric) (t r : List Rat) :
    (∃ v, metric m t r = .ok v) ↔ t.length = r.length := by
  cases m <;> simp only [metric, mse, mdr] <;> by_cases h : t.length = r.length <;> simp [h] <;>
    split <;> simp

theorem metric_error (m : Metric) (t r : List Rat) (e : PyErr) :
    metric m t r = .error e ↔ t.length ≠ r.length ∧ e = .valueError := by
  cases m <;> simp only [metric, mse, mdr] <;> by_cases h : t.length = r.length <;> simp [h] <;>
    first | exact eq_comm | (split <;> simp)

/-- a comparison succeeds iff both tensors can be read (dequantized) and have the same number of
    elements -/
theorem pairVal_ok_iff (m : Metric) (td rd : TData) (v : Rat) :
    pairVal m td rd = .ok v ↔
      ∃ t r, values td = .ok t ∧ values rd = .ok r ∧ metric m t r = .ok v := by
  unfold pairVal
  cases values rd with
  | error e => simp [bind, Except.bind]
  | ok r =>
    cases values td with
    | error e => simp [bind, Except.bind]
    | ok t => simp [bind, Except.bind]

theorem pairVal_ok_exists (m : Metric) (td rd : TData) :
    (∃ v, pairVal m td rd = .ok v) ↔
      ∃ t r, values td = .ok t ∧ values rd = .ok r ∧ t.length = r.length := by
  constructor
  · rintro ⟨v, h⟩
    obtain ⟨t, r, h1, h2, h3⟩ := (pairVal_ok_iff m td rd v).1 h
    exact ⟨t, r, h1, h2, (metric_ok_length m t r).1 ⟨v, h3⟩⟩
  · rintro ⟨t, r, h1, h2, h3⟩
    obtain ⟨v, hv⟩ := (metric_ok_length m t r).2 h3
    exact ⟨v, (pairVal_ok_iff m td rd v).2 ⟨t, r, h1, h2, hv⟩⟩

/-- the error of a failing comparison: the reference tensor is read first, then the target tensor;
    a different number of elements is `ValueError` -/
theorem pairVal_error_iff (m : Metric) (td rd : TData) (e : PyErr) :
    pairVal m td rd = .error e ↔
      values rd = .error e ∨
      (∃ r, values rd = .ok r ∧ values td = .error e) ∨
      (∃ r t, values rd = .ok r ∧ values td = .ok t ∧ t.length ≠ r.length ∧ e = .valueError) := by
  unfold pairVal
  cases values rd with
  | error e' => simp [bind, Except.bind]
  | ok r =>
    cases values td with
    | error e' => simp [bind, Except.bind]
    | ok t => simp [bind, Except.bind, metric_error]

/-- **when `compare` succeeds**: every comparison succeeds, and the input names are distinct and
    each compared at least once -/
theorem compare_ok_iff (m : Metric) (samples : List Sample) (ins outs cs : List String) :
    (∃ g, compare m samples ins outs cs = .ok g) ↔
      (∀ p ∈ allPairs samples, ∃ v, pairVal m p.2.1 p.2.2 = .ok v) ∧
      ins.Nodup ∧ ∀ n ∈ ins, present samples n := by
  constructor
  · rintro ⟨g, h⟩
    obtain ⟨vs, hvs, hf⟩ := (compare_ok m samples ins outs cs g).1 h
    have hall := (mapM_ok_all_iff _ _).1 ⟨vs, hvs⟩
    obtain ⟨hnd, hin⟩ := (fileGroups_ok_iff _ ins outs cs).1 ⟨g, hf⟩
    have hk := (forall₂_trace m "" _ _ ((mapM_ok_iff _ _ _).1 hvs)).2
    refine ⟨fun p hp => (evalPair_ok_iff m p).1 (hall p hp), hnd, fun n hn => ?_⟩
    rw [← key_allPairs, ← hk, ← key_aggregated]
    exact hin n hn
  · rintro ⟨hall, hnd, hin⟩
    obtain ⟨vs, hvs⟩ := (mapM_ok_all_iff (evalPair m) _).2 (fun p hp => (evalPair_ok_iff m p).2 (hall p hp))
    have hk := (forall₂_trace m "" _ _ ((mapM_ok_iff _ _ _).1 hvs)).2
    obtain ⟨g, hg⟩ := (fileGroups_ok_iff (aggregated vs) ins outs cs).2 ⟨hnd, fun n hn => by
      rw [key_aggregated, hk, key_allPairs]; exact hin n hn⟩
    exact ⟨g, (compare_ok m samples ins outs cs g).2 ⟨vs, hvs, hg⟩⟩

/-- **which error**: the error of the first failing comparison (in evaluation order); if all
    comparisons succeed, `KeyError` — exactly when the input names are not distinct or one of them
    was never compared -/
theorem compare_error_iff (m : Metric) (samples : List Sample) (ins outs cs : List String) (e : PyErr) :
    compare m samples ins outs cs = .error e ↔
      (∃ l1 p l2, allPairs samples = l1 ++ p :: l2 ∧
          (∀ q ∈ l1, ∃ v, pairVal m q.2.1 q.2.2 = .ok v) ∧ pairVal m p.2.1 p.2.2 = .error e) ∨
      ((∀ p ∈ allPairs samples, ∃ v, pairVal m p.2.1 p.2.2 = .ok v) ∧ e = .keyError ∧
          ¬ (ins.Nodup ∧ ∀ n ∈ ins, present samples n)) := by
  have hok := compare_ok_iff m samples ins outs cs
  rw [compare_eq] at hok ⊢
  cases hm : (allPairs samples).mapM (evalPair m) with
  | error e' =>
    have herr := (mapM_error_iff (evalPair m) (allPairs samples) e').1 hm
    simp only [bind, Except.bind, Except.error.injEq]
    constructor
    · rintro rfl
      obtain ⟨l1, p, l2, h1, h2, h3⟩ := herr
      exact Or.inl ⟨l1, p, l2, h1, fun q hq => (evalPair_ok_iff m q).1 (h2 q hq), (evalPair_error m p e').1 h3⟩
    · rintro (⟨l1, p, l2, h1, h2, h3⟩ | ⟨hall, _, _⟩)
      · have : (allPairs samples).mapM (evalPair m) = .error e :=
          (mapM_error_iff (evalPair m) _ e).2
            ⟨l1, p, l2, h1, fun q hq => (evalPair_ok_iff m q).2 (h2 q hq), (evalPair_error m p e).2 h3⟩
        rw [hm] at this; cases this; rfl
      · obtain ⟨vs, hvs⟩ := (mapM_ok_all_iff (evalPair m) _).2
          (fun p hp => (evalPair_ok_iff m p).2 (hall p hp))
        rw [hm] at hvs; cases hvs
  | ok vs =>
    rw [hm] at hok
    simp only [bind, Except.bind] at hok ⊢
    have hall : ∀ p ∈ allPairs samples, ∃ v, pairVal m p.2.1 p.2.2 = .ok v := fun p hp =>
      (evalPair_ok_iff m p).1 ((mapM_ok_all_iff _ _).1 ⟨vs, hm⟩ p hp)
    constructor
    · intro h
      refine Or.inr ⟨hall, fileGroups_error _ _ _ _ _ h, fun hc => ?_⟩
      obtain ⟨g, hg⟩ := hok.2 ⟨hall, hc⟩
      rw [h] at hg; cases hg
    · rintro (⟨l1, p, l2, h1, _, h3⟩ | ⟨_, he, hc⟩)
      · obtain ⟨v, hv⟩ := hall p (by rw [h1]; simp)
        rw [hv] at h3; cases h3
      · cases hf : fileGroups (aggregated vs) ins outs cs with
        | ok g => exact absurd (hok.1 ⟨g, hf⟩).2 hc
        | error e' => rw [fileGroups_error _ _ _ _ _ hf, he]

/-! ## non-negativity -/

theorem metric_nonneg (m : Metric) (t r : List Rat) (v : Rat) (h : metric m t r = .ok v) : 0 ≤ v := by
  cases m
  · exact ValidateProofs.mse_nonneg t r v h
  · exact ValidateProofs.mdr_nonneg t r v h

theorem pairVal_nonneg (m : Metric) (td rd : TData) (v : Rat) (h : pairVal m td rd = .ok v) : 0 ≤ v := by
  obtain ⟨t, r, _, _, h3⟩ := (pairVal_ok_iff m td rd v).1 h
  exact metric_nonneg m t r v h3

theorem meanR_nonneg (l : List Rat) (h : ∀ x ∈ l, 0 ≤ x) : 0 ≤ meanR l := by
  unfold meanR
  split
  · exact le_refl _
  · exact div_nonneg (ValidateProofs.foldl_add_nonneg l 0 (le_refl _) h) (Nat.cast_nonneg _)

/-- every element of the trace is the result of a comparison of the run -/
theorem mem_trace (m : Metric) (samples : List Sample) (n : String) (xs : List Rat)
    (h : trace m samples n = xs.map .ok) (x : Rat) (hx : x ∈ xs) :
    ∃ p ∈ allPairs samples, p.1 = n ∧ pairVal m p.2.1 p.2.2 = .ok x := by
  have : (Except.ok x : PyM Rat) ∈ trace m samples n := by rw [h]; exact List.mem_map_of_mem hx
  unfold trace at this
  obtain ⟨p, hp, hpx⟩ := List.mem_map.1 this
  rw [List.mem_filter] at hp
  exact ⟨p, hp.1, by simpa using hp.2, hpx⟩

theorem compare_nonneg (m : Metric) (samples : List Sample) (ins outs cs : List String) (g : Groups)
    (h : compare m samples ins outs cs = .ok g) (t : Tag) (e : String × Rat) (he : e ∈ get g t) :
    0 ≤ e.2 := by
  obtain ⟨n, v⟩ := e
  obtain ⟨xs, htr, hspec⟩ := compare_spec_general m samples ins outs cs g h n
  obtain ⟨_, _, hv⟩ := (hspec t v).1 he
  simp only; rw [hv]
  apply meanR_nonneg
  intro x hx
  obtain ⟨p, _, _, hp⟩ := mem_trace m samples n xs htr x hx
  exact pairVal_nonneg m _ _ x hp

/-! ## comparing a model with itself -/

theorem pairVal_self (m : Metric) (d : TData) (v : Rat) (h : pairVal m d d = .ok v) : v = 0 := by
  obtain ⟨t, r, h1, h2, h3⟩ := (pairVal_ok_iff m d d v).1 h
  rw [h1] at h2; cases h2
  cases m
  · have := ValidateProofs.mse_refl t
    simp only [metric] at h3; rw [this] at h3; cases h3; rfl
  · have := ValidateProofs.mdr_refl t
    simp only [metric] at h3; rw [this] at h3; cases h3; rfl

theorem pairVal_self_ok (m : Metric) (d : TData) : (∃ v, pairVal m d d = .ok v) ↔ ∃ t, values d = .ok t := by
  rw [pairVal_ok_exists]
  constructor
  · rintro ⟨t, _, h, _⟩; exact ⟨t, h⟩
  · rintro ⟨t, h⟩; exact ⟨t, t, h, h, rfl⟩

theorem dictGet?_of_mem_nodup {ν : Type} (d : List (String × ν)) (hnd : (d.map (·.1)).Nodup)
    (e : String × ν) (he : e ∈ d) : Py.dictGet? d e.1 = some e.2 :=
  (mem_iff_dictGet? d hnd e.1 e.2).1 he

/-- in a self-comparison every comparison is of a tensor with itself -/
theorem allPairs_self (samples : List Sample) (hself : ∀ s ∈ samples, s.target = s.ref)
    (hnd : ∀ s ∈ samples, (s.ref.map (·.1)).Nodup) (p : String × TData × TData) :
    p ∈ allPairs samples ↔ p.2.1 = p.2.2 ∧ ∃ s ∈ samples, (p.1, p.2.2) ∈ s.ref := by
  rw [mem_allPairs]
  constructor
  · rintro ⟨s, hs, e, he, htd, h1, h2⟩
    rw [hself s hs, dictGet?_of_mem_nodup _ (hnd s hs) e he] at htd
    simp only [Option.some.injEq] at htd
    exact ⟨by rw [h2, htd], s, hs, by rw [h1, h2]; exact he⟩
  · rintro ⟨h1, s, hs, he⟩
    refine ⟨s, hs, (p.1, p.2.2), he, ?_, rfl, rfl⟩
    rw [hself s hs, h1]
    exact dictGet?_of_mem_nodup _ (hnd s hs) _ he

theorem present_self (samples : List Sample) (hself : ∀ s ∈ samples, s.target = s.ref) (n : String) :
    present samples n ↔ ∃ s ∈ samples, n ∈ s.ref.map (·.1) := by
  unfold present
  constructor
  · rintro ⟨s, hs, h, _⟩; exact ⟨s, hs, h⟩
  · rintro ⟨s, hs, h⟩; exact ⟨s, hs, h, by rw [hself s hs]; exact h⟩

/-- **self-comparison**: every reported value is 0, and every tensor of (any sample of) the model
    is reported, in its group -/
theorem self_compare (m : Metric) (samples : List Sample) (ins outs cs : List String) (g : Groups)
    (hself : ∀ s ∈ samples, s.target = s.ref) (hnd : ∀ s ∈ samples, (s.ref.map (·.1)).Nodup)
    (h : compare m samples ins outs cs = .ok g) :
    (∀ t, ∀ e ∈ get g t, e.2 = 0) ∧
    (∀ s ∈ samples, ∀ n ∈ s.ref.map (·.1), (n, 0) ∈ get g (classify ins outs cs n)) := by
  have hzero : ∀ (n : String) (xs : List Rat), trace m samples n = xs.map .ok → ∀ x ∈ xs, x = 0 := by
    intro n xs htr x hx
    obtain ⟨p, hp, _, hpv⟩ := mem_trace m samples n xs htr x hx
    rw [((allPairs_self samples hself hnd p).1 hp).1] at hpv
    exact pairVal_self m _ x hpv
  constructor
  · intro t e he
    obtain ⟨n, v⟩ := e
    obtain ⟨xs, htr, hspec⟩ := compare_spec_general m samples ins outs cs g h n
    obtain ⟨_, _, hv⟩ := (hspec t v).1 he
    simp only; rw [hv]
    exact ValidateProofs.meanR_zeros xs (hzero n xs htr)
  · intro s hs n hn
    obtain ⟨xs, htr, hspec⟩ := compare_spec_general m samples ins outs cs g h n
    have hp : present samples n := (present_self samples hself n).2 ⟨s, hs, hn⟩
    have hne : xs ≠ [] := by
      have := (trace_ne_nil_iff m samples n).2 hp
      rw [htr] at this
      simpa using this
    have := (hspec (classify ins outs cs n) (meanR xs)).2 ⟨hne, rfl, rfl⟩
    rwa [ValidateProofs.meanR_zeros xs (hzero n xs htr)] at this

/-- a self-comparison succeeds iff every tensor can be read and the input names are distinct
    tensors of the model -/
theorem self_compare_ok_iff (m : Metric) (samples : List Sample) (ins outs cs : List String)
    (hself : ∀ s ∈ samples, s.target = s.ref) (hnd : ∀ s ∈ samples, (s.ref.map (·.1)).Nodup) :
    (∃ g, compare m samples ins outs cs = .ok g) ↔
      (∀ s ∈ samples, ∀ e ∈ s.ref, ∃ t, values e.2 = .ok t) ∧
      ins.Nodup ∧ ∀ n ∈ ins, ∃ s ∈ samples, n ∈ s.ref.map (·.1) := by
  rw [compare_ok_iff]
  have h2 : (∀ n ∈ ins, present samples n) ↔ ∀ n ∈ ins, ∃ s ∈ samples, n ∈ s.ref.map (·.1) :=
    forall₂_congr fun n _ => present_self samples hself n
  rw [h2]
  have h1 : (∀ p ∈ allPairs samples, ∃ v, pairVal m p.2.1 p.2.2 = .ok v) ↔
      ∀ s ∈ samples, ∀ e ∈ s.ref, ∃ t, values e.2 = .ok t := by
    constructor
    · intro hall s hs e he
      have hp : (e.1, e.2, e.2) ∈ allPairs samples := (allPairs_self samples hself hnd _).2 ⟨rfl, s, hs, he⟩
      exact (pairVal_self_ok m e.2).1 (hall _ hp)
    · intro hall p hp
      obtain ⟨h1, s, hs, he⟩ := (allPairs_self samples hself hnd p).1 hp
      rw [h1]
      exact (pairVal_self_ok m p.2.2).2 (hall s hs _ he)
  rw [h1]

/-! ## symmetry of the MSE comparison -/

/-- exchange the roles of reference and target -/
def swap (s : Sample) : Sample := ⟨s.target, s.ref⟩

theorem pairVal_mse_symm (a b : TData) (v : Rat) : pairVal .mse a b = .ok v ↔ pairVal .mse b a = .ok v := by
  rw [pairVal_ok_iff, pairVal_ok_iff]
  constructor
  · rintro ⟨t, r, h1, h2, h3⟩
    exact ⟨r, t, h2, h1, by simp only [metric] at h3 ⊢; rw [ValidateProofs.mse_symm]; exact h3⟩
  · rintro ⟨t, r, h1, h2, h3⟩
    exact ⟨r, t, h2, h1, by simp only [metric] at h3 ⊢; rw [ValidateProofs.mse_symm]; exact h3⟩

def flip (p : String × TData × TData) : String × TData × TData := (p.1, p.2.2, p.2.1)

/-- with the same (distinct) tensor names in the same order on both sides, the swapped run performs
    the same comparisons with the two arguments exchanged -/
theorem pairs_swap (R T : List (String × TData)) (hR : (R.map (·.1)).Nodup) (hT : (T.map (·.1)).Nodup) :
    ∀ (l l' : List (String × TData)), l.map (·.1) = l'.map (·.1) → (∀ e ∈ l, e ∈ R) → (∀ e ∈ l', e ∈ T) →
      (l'.filterMap fun e => (Py.dictGet? R e.1).map fun td => (e.1, td, e.2)) =
        (l.filterMap fun e => (Py.dictGet? T e.1).map fun td => (e.1, td, e.2)).map flip := by
  intro l
  induction l with
  | nil => intro l' h _ _; cases l' with | nil => rfl | cons _ _ => cases h
  | cons e es ih =>
    intro l' h hl hl'
    cases l' with
    | nil => cases h
    | cons e' es' =>
      simp only [List.map_cons, List.cons.injEq] at h
      have h1 : Py.dictGet? R e'.1 = some e.2 := by
        rw [← h.1]; exact dictGet?_of_mem_nodup R hR e (hl e (by simp))
      have h2 : Py.dictGet? T e.1 = some e'.2 := by
        rw [h.1]; exact dictGet?_of_mem_nodup T hT e' (hl' e' (by simp))
      rw [List.filterMap_cons, List.filterMap_cons, h1, h2]
      simp only [Option.map_some, List.map_cons]
      rw [ih es' h.2 (fun x hx => hl x (by simp [hx])) (fun x hx => hl' x (by simp [hx]))]
      simp only [flip, h.1]

theorem allPairs_swap (samples : List Sample)
    (hnames : ∀ s ∈ samples, s.ref.map (·.1) = s.target.map (·.1))
    (hnd : ∀ s ∈ samples, (s.ref.map (·.1)).Nodup) :
    allPairs (samples.map swap) = (allPairs samples).map flip := by
  unfold allPairs
  rw [List.flatMap_map, List.map_flatMap]
  apply List.flatMap_congr
  intro s hs
  unfold samplePairs swap
  simp only
  exact pairs_swap s.ref s.target (hnd s hs) (hnames s hs ▸ hnd s hs) s.ref s.target (hnames s hs)
    (fun _ h => h) (fun _ h => h)

theorem mapM_evalPair_flip (l : List (String × TData × TData)) (vs : List (String × Rat)) :
    (l.map flip).mapM (evalPair .mse) = .ok vs ↔ l.mapM (evalPair .mse) = .ok vs := by
  rw [mapM_ok_iff, mapM_ok_iff, List.forall₂_map_left_iff]
  apply Iff.of_eq
  congr 1
  funext p v
  rw [evalPair_ok, evalPair_ok]
  simp only [flip]
  rw [pairVal_mse_symm]

/-- **MSE comparison is symmetric** (same distinct tensor names, in the same order, on both sides of
    every sample): exchanging reference and target gives exactly the same groups -/
theorem compare_mse_symmetric (samples : List Sample) (ins outs cs : List String) (g : Groups)
    (hnames : ∀ s ∈ samples, s.ref.map (·.1) = s.target.map (·.1))
    (hnd : ∀ s ∈ samples, (s.ref.map (·.1)).Nodup) :
    compare .mse (samples.map swap) ins outs cs = .ok g ↔ compare .mse samples ins outs cs = .ok g := by
  rw [compare_ok, compare_ok, allPairs_swap samples hnames hnd]
  simp only [mapM_evalPair_flip]

/-! ### symmetry without assuming equal name lists (distinct names on each side) -/

theorem sampleVal_swap_rel (s : Sample) (n : String) :
    List.Forall₂ (fun a b : PyM Rat => ∀ v, a = .ok v ↔ b = .ok v)
      (sampleVal .mse (swap s) n) (sampleVal .mse s n) := by
  unfold sampleVal swap
  simp only
  cases Py.dictGet? s.ref n with
  | none => cases Py.dictGet? s.target n <;> exact .nil
  | some rd =>
    cases Py.dictGet? s.target n with
    | none => exact .nil
    | some td => exact .cons (fun v => pairVal_mse_symm rd td v) .nil

theorem forall₂_append' {α β} {R : α → β → Prop} {l1 l2 : List α} {m1 m2 : List β}
    (h1 : List.Forall₂ R l1 m1) (h2 : List.Forall₂ R l2 m2) : List.Forall₂ R (l1 ++ l2) (m1 ++ m2) := by
  induction h1 with
  | nil => exact h2
  | cons h _ ih => exact .cons h ih

theorem perSample_swap_rel (samples : List Sample) (n : String) :
    List.Forall₂ (fun a b : PyM Rat => ∀ v, a = .ok v ↔ b = .ok v)
      (perSample .mse (samples.map swap) n) (perSample .mse samples n) := by
  unfold perSample
  induction samples with
  | nil => exact .nil
  | cons s ss ih =>
    rw [List.map_cons, List.flatMap_cons, List.flatMap_cons]
    exact forall₂_append' (sampleVal_swap_rel s n) ih

theorem forall₂_ok_eq : ∀ (xs ys : List Rat),
    List.Forall₂ (fun a b : PyM Rat => ∀ v, a = .ok v ↔ b = .ok v) (xs.map .ok) (ys.map .ok) → xs = ys := by
  intro xs
  induction xs with
  | nil => intro ys h; cases ys with | nil => rfl | cons _ _ => cases h
  | cons x xs ih =>
    intro ys h
    cases ys with
    | nil => cases h
    | cons y ys =>
      simp only [List.map_cons] at h
      cases h with
      | cons h1 h2 =>
        have := (h1 x).1 rfl
        cases this
        rw [ih ys h2]

theorem present_swap (samples : List Sample) (n : String) :
    present (samples.map swap) n ↔ present samples n := by
  unfold present
  simp only [List.mem_map]
  constructor
  · rintro ⟨_, ⟨s, hs, rfl⟩, h1, h2⟩; exact ⟨s, hs, h2, h1⟩
  · rintro ⟨s, hs, h1, h2⟩; exact ⟨swap s, ⟨s, hs, rfl⟩, h2, h1⟩

/-- with distinct names on the reference side, the comparisons are the name-wise lookups -/
theorem mem_allPairs_nodup (samples : List Sample) (hnd : ∀ s ∈ samples, (s.ref.map (·.1)).Nodup)
    (p : String × TData × TData) :
    p ∈ allPairs samples ↔
      ∃ s ∈ samples, Py.dictGet? s.ref p.1 = some p.2.2 ∧ Py.dictGet? s.target p.1 = some p.2.1 := by
  rw [mem_allPairs]
  constructor
  · rintro ⟨s, hs, e, he, htd, h1, h2⟩
    refine ⟨s, hs, ?_, h1 ▸ htd⟩
    rw [h1, h2]; exact dictGet?_of_mem_nodup _ (hnd s hs) e he
  · rintro ⟨s, hs, h1, h2⟩
    exact ⟨s, hs, (p.1, p.2.2), dictGet?_mem _ _ _ h1, h2, rfl, rfl⟩

/-- **MSE comparison is symmetric, as finite maps** (distinct tensor names on each side of every
    sample; the two sides need not have the same names, nor the same order): the swapped run succeeds
    iff the original does, and both file the same entries in the same groups -/
theorem compare_mse_symmetric_mem (samples : List Sample) (ins outs cs : List String)
    (hR : ∀ s ∈ samples, (s.ref.map (·.1)).Nodup) (hT : ∀ s ∈ samples, (s.target.map (·.1)).Nodup) :
    ((∃ g', compare .mse (samples.map swap) ins outs cs = .ok g') ↔
      (∃ g, compare .mse samples ins outs cs = .ok g)) ∧
    ∀ g g', compare .mse (samples.map swap) ins outs cs = .ok g' → compare .mse samples ins outs cs = .ok g →
      ∀ t e, e ∈ get g' t ↔ e ∈ get g t := by
  have hR' : ∀ s ∈ samples.map swap, (s.ref.map (·.1)).Nodup := by
    intro s hs
    obtain ⟨s0, hs0, rfl⟩ := List.mem_map.1 hs
    exact hT s0 hs0
  constructor
  · rw [compare_ok_iff, compare_ok_iff]
    have h2 : (∀ n ∈ ins, present (samples.map swap) n) ↔ ∀ n ∈ ins, present samples n :=
      forall₂_congr fun n _ => present_swap samples n
    rw [h2]
    have hflip : ∀ p, p ∈ allPairs (samples.map swap) ↔ flip p ∈ allPairs samples := by
      intro p
      rw [mem_allPairs_nodup _ hR', mem_allPairs_nodup _ hR]
      simp only [List.mem_map, flip]
      constructor
      · rintro ⟨_, ⟨s, hs, rfl⟩, h1, h2⟩; exact ⟨s, hs, h2, h1⟩
      · rintro ⟨s, hs, h1, h2⟩; exact ⟨swap s, ⟨s, hs, rfl⟩, h2, h1⟩
    have hsym : ∀ a b : TData, (∃ v, pairVal .mse a b = .ok v) ↔ ∃ v, pairVal .mse b a = .ok v :=
      fun a b => exists_congr fun v => pairVal_mse_symm a b v
    have h1 : (∀ p ∈ allPairs (samples.map swap), ∃ v, pairVal .mse p.2.1 p.2.2 = .ok v) ↔
        ∀ p ∈ allPairs samples, ∃ v, pairVal .mse p.2.1 p.2.2 = .ok v := by
      constructor
      · intro h p hp
        have : flip p ∈ allPairs (samples.map swap) := (hflip (flip p)).2 (by simpa [flip] using hp)
        have := h _ this
        simp only [flip] at this
        exact (hsym _ _).1 this
      · intro h p hp
        have := h _ ((hflip p).1 hp)
        simp only [flip] at this
        exact (hsym _ _).1 this
    rw [h1]
  · intro g g' hg' hg t e
    obtain ⟨n, v⟩ := e
    obtain ⟨xs, htr, hspec⟩ := compare_spec_general .mse samples ins outs cs g hg n
    obtain ⟨xs', htr', hspec'⟩ := compare_spec_general .mse (samples.map swap) ins outs cs g' hg' n
    rw [trace_eq_perSample _ _ hR] at htr
    rw [trace_eq_perSample _ _ hR'] at htr'
    have hrel := perSample_swap_rel samples n
    rw [htr, htr'] at hrel
    have := forall₂_ok_eq xs' xs hrel
    subst this
    rw [hspec, hspec']

/-! ### the mean is over the samples in which the tensor occurs on both sides -/

theorem perSample_length (m : Metric) (samples : List Sample) (n : String) :
    (perSample m samples n).length =
      (samples.filter fun s => (Py.dictGet? s.ref n).isSome && (Py.dictGet? s.target n).isSome).length := by
  unfold perSample
  induction samples with
  | nil => rfl
  | cons s ss ih =>
    rw [List.flatMap_cons, List.length_append, ih, List.filter_cons]
    unfold sampleVal
    cases Py.dictGet? s.ref n with
    | none => simp
    | some rd =>
      cases Py.dictGet? s.target n with
      | none => simp
      | some td => simp [Nat.add_comm]

theorem dictGet?_isSome_iff {ν : Type} (d : List (String × ν)) (n : String) :
    (Py.dictGet? d n).isSome ↔ n ∈ d.map (·.1) := by
  rw [← not_iff_not, ← dictGet?_eq_none_iff]
  cases Py.dictGet? d n <;> simp

/-- **`compare`, per tensor name, per sample** (distinct tensor names on the reference side, as in a
    Python dict) -/
theorem compare_spec (m : Metric) (samples : List Sample) (ins outs cs : List String) (g : Groups)
    (hnd : ∀ s ∈ samples, (s.ref.map (·.1)).Nodup)
    (h : compare m samples ins outs cs = .ok g) (n : String) :
    ∃ xs : List Rat, perSample m samples n = xs.map .ok ∧ (xs ≠ [] ↔ present samples n) ∧
      ∀ (t : Tag) (v : Rat), (n, v) ∈ get g t ↔
        present samples n ∧ t = classify ins outs cs n ∧ v = meanR xs := by
  obtain ⟨xs, htr, hspec⟩ := compare_spec_general m samples ins outs cs g h n
  have hne : xs ≠ [] ↔ present samples n := by
    rw [← trace_ne_nil_iff m, htr]; simp
  refine ⟨xs, by rw [← trace_eq_perSample m samples hnd n]; exact htr, hne, fun t v => ?_⟩
  rw [hspec, hne]

end ValidateE2E
