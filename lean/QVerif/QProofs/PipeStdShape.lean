import QProofs.PipeDefs
import QProofs.CalibProofs
/-!
# Shape of the request list of `Mat.standardOp` (purely computational; no well-formedness needed)

`standardOp` splits the operand / result slots into ignored ones (→ `noQuantReq`) and the others
(→ `wrapper`), and `mergeReqs` puts the requests back **in slot order**.  `standardOp_shape` says
exactly that: the result is `rin ++ rout`, position by position the request of the corresponding
non-`-1` slot.
-/
open Graph Mat Cfg Pipeline InstGen GenInstsOK

namespace Pipe

/-- the non-`-1` slots with their raw positions -/
def cslots (slots : List Int) : List (Int × Nat) := slots.zipIdx.filter (fun p => p.1 != -1)

/-- what `ignoredSlots` computes: slot position `i` is ignored iff its tensor is not float32 or `i`
    is one of the given positions -/
def IgnSpec (sg : Subgraph) (slots : List Int) (given ign : List Nat) : Prop :=
  ∀ (i : Nat) (a : Int) (t : Tensor), slots[i]? = some a → tensorAt sg a = .ok t →
    (ign.contains i = true ↔ (t.dtype ≠ Tables.ttFloat32 ∨ i ∈ given))

/-- the request of one non-`-1` slot `p = (tensor index, raw position)` -/
def SlotReq (env : Env) (sg : Subgraph) (qsvs : Qsvs) (oi : OpInfo) (inbound : Bool) (ign : List Nat)
    (g : Option Param) (p : Int × Nat) (r : CReq) : Prop :=
  ∃ t, tensorAt sg p.1 = .ok t ∧
    (if ign.contains p.2 = true then r = noQuantReq t.name oi.opId inbound
     else wrapper env qsvs oi t inbound g = .ok r)

/-! ## `ignoredSlots` -/

theorem filterMapM_ok {α β} (f : α → PyM (Option β)) : ∀ (l : List α) (r : List β),
    l.filterMapM f = .ok r → ∀ b, b ∈ r ↔ ∃ a ∈ l, f a = .ok (some b) := by
  intro l
  induction l with
  | nil =>
    intro r h b
    simp only [List.filterMapM_nil, pure, Except.pure, Except.ok.injEq] at h
    subst h; simp
  | cons a as ih =>
    intro r h b
    simp only [List.filterMapM_cons, bind, Except.bind, pure, Except.pure] at h
    cases ha : f a with
    | error e => simp [ha] at h
    | ok o =>
      simp only [ha] at h
      cases o with
      | none =>
        simp only at h
        rw [ih r h b]
        simp [ha]
      | some b' =>
        simp only at h
        cases has : as.filterMapM f with
        | error e => simp [has] at h
        | ok bs =>
          simp only [has, Except.ok.injEq] at h
          subst h
          simp only [List.mem_cons, ih bs has b, exists_eq_or_imp, ha, Except.ok.injEq, Option.some.injEq]
          constructor
          · rintro (h | h)
            · exact Or.inl h.symm
            · exact Or.inr h
          · rintro (h | h)
            · exact Or.inl h.symm
            · exact Or.inr h

theorem ignoredSlots_spec (sg : Subgraph) (slots : List Int) (given ign : List Nat)
    (h : ignoredSlots sg slots given = .ok ign) : IgnSpec sg slots given ign := by
  unfold ignoredSlots at h
  obtain ⟨keep, hk, h⟩ := GraphInv.bind_ok _ _ _ h
  simp only [pure, Except.pure, Except.ok.injEq] at h
  subst h
  have hkeep := filterMapM_ok _ _ _ hk
  intro i a t hia hat
  have hi : i < slots.length := (List.getElem?_eq_some_iff.1 hia).1
  have hmem : keep.contains i = true ↔ (t.dtype == Tables.ttFloat32 && !given.contains i) = true := by
    rw [List.contains_iff_mem, hkeep i]
    constructor
    · rintro ⟨p, hp, hf⟩
      obtain ⟨a', j⟩ := p
      rw [List.mem_zipIdx_iff_getElem?] at hp
      simp only [bind, Except.bind, pure, Except.pure] at hf hp
      cases hat' : tensorAt sg a' with
      | error e => simp [hat'] at hf
      | ok t' =>
        simp only [hat', Except.ok.injEq] at hf
        by_cases hc : (t'.dtype == Tables.ttFloat32 && !given.contains j) = true
        · simp only [if_pos hc, Option.some.injEq] at hf
          subst hf
          rw [hia] at hp
          cases hp
          rw [hat] at hat'
          cases hat'
          exact hc
        · simp only [if_neg hc] at hf
          cases hf
    · intro hc
      refine ⟨(a, i), List.mem_zipIdx_iff_getElem?.2 hia, ?_⟩
      simp only [bind, Except.bind, pure, Except.pure, hat, if_pos hc]
  rw [List.contains_iff_mem, List.mem_filter, List.mem_range]
  simp only [hi, true_and]
  cases hc : keep.contains i with
  | true =>
    have := hmem.1 hc
    simp only [Bool.and_eq_true, beq_iff_eq, Bool.not_eq_true', List.contains_eq_mem, decide_eq_false_iff_not] at this
    simp [this.1, this.2]
  | false =>
    have : ¬ ((t.dtype == Tables.ttFloat32 && !given.contains i) = true) := by
      intro h'; rw [hmem.2 h'] at hc; cases hc
    simp only [Bool.and_eq_true, beq_iff_eq, Bool.not_eq_true', List.contains_eq_mem, decide_eq_false_iff_not, not_and, not_not] at this
    simp only [Bool.not_false, true_iff]
    by_cases hd : t.dtype = Tables.ttFloat32
    · exact Or.inr (this hd)
    · exact Or.inl hd

/-! ## `splitTensors` -/

inductive Split (sg : Subgraph) (ign : List Nat) : Nat → List (Int × Nat) → List Tensor → List Tensor → List Nat → Prop
  | nil (k) : Split sg ign k [] [] [] []
  | yes (k p t cs sel oth upd) : tensorAt sg p.1 = .ok t → ign.contains p.2 = true →
      Split sg ign (k+1) cs sel oth upd → Split sg ign k (p :: cs) (t :: sel) oth (k :: upd)
  | no (k p t cs sel oth upd) : tensorAt sg p.1 = .ok t → ign.contains p.2 = false →
      Split sg ign (k+1) cs sel oth upd → Split sg ign k (p :: cs) sel (t :: oth) upd

abbrev SplitSt := List Tensor × List Tensor × List Nat × Nat

def splitBody (sg : Subgraph) (ign : List Nat) (x : Int × Nat) (s : SplitSt) : PyM (ForInStep SplitSt) :=
  if (x.fst == -1) = true then .ok (ForInStep.yield (s.1, s.2.1, s.2.2.1, s.2.2.2))
  else
    tensorAt sg x.fst >>= fun v =>
      if ign.contains x.snd = true then
        .ok (ForInStep.yield (s.1 ++ [v], s.2.1, s.2.2.1 ++ [s.2.2.2], s.2.2.2 + 1))
      else .ok (ForInStep.yield (s.1, s.2.1 ++ [v], s.2.2.1, s.2.2.2 + 1))

theorem splitTensors_eq (sg : Subgraph) (slots : List Int) (ign : List Nat) :
    splitTensors sg slots ign =
      (forIn slots.zipIdx (([], [], [], 0) : SplitSt) (splitBody sg ign) >>= fun v =>
        pure (v.1, v.2.1, v.2.2.1)) := by
  unfold splitTensors
  simp only [bind, Except.bind, pure, Except.pure]
  have : (fun (x : Int × Nat) (__s : SplitSt) => splitBody sg ign x __s) = splitBody sg ign := rfl
  rw [← this]
  simp only [splitBody, bind, Except.bind]

theorem split_loop (sg : Subgraph) (ign : List Nat) : ∀ (l : List (Int × Nat)) (sel0 oth0 : List Tensor)
    (upd0 : List Nat) (k0 : Nat) (r : SplitSt),
    forIn l ((sel0, oth0, upd0, k0) : SplitSt) (splitBody sg ign) = .ok r →
    ∃ sel oth upd, Split sg ign k0 (l.filter (fun p => p.1 != -1)) sel oth upd ∧
      r = (sel0 ++ sel, oth0 ++ oth, upd0 ++ upd, k0 + (l.filter (fun p => p.1 != -1)).length) := by
  intro l
  induction l with
  | nil =>
    intro sel0 oth0 upd0 k0 r h
    simp only [List.forIn_nil, pure, Except.pure, Except.ok.injEq] at h
    subst h
    exact ⟨[], [], [], Split.nil k0, by simp⟩
  | cons x xs ih =>
    intro sel0 oth0 upd0 k0 r h
    simp only [List.forIn_cons, bind, Except.bind] at h
    by_cases hx : (x.fst == -1) = true
    · simp only [splitBody, if_pos hx] at h
      obtain ⟨sel, oth, upd, hS, hr⟩ := ih _ _ _ _ _ h
      have hf : List.filter (fun p => p.1 != -1) (x :: xs) = List.filter (fun p => p.1 != -1) xs := by
        rw [List.filter_cons_of_neg]; simpa using hx
      rw [hf]
      exact ⟨sel, oth, upd, hS, hr⟩
    · have hf : List.filter (fun p => p.1 != -1) (x :: xs) = x :: List.filter (fun p => p.1 != -1) xs := by
        rw [List.filter_cons_of_pos]; simp [bne, hx]
      rw [hf]
      simp only [splitBody, if_neg hx, bind, Except.bind] at h
      cases ht : tensorAt sg x.fst with
      | error e => simp [ht] at h
      | ok t =>
        simp only [ht] at h
        by_cases hc : ign.contains x.snd = true
        · simp only [if_pos hc] at h
          obtain ⟨sel, oth, upd, hS, hr⟩ := ih _ _ _ _ _ h
          refine ⟨t :: sel, oth, k0 :: upd, Split.yes _ _ _ _ _ _ _ ht hc hS, ?_⟩
          rw [hr]; simp [Nat.add_assoc, Nat.add_comm 1]
        · simp only [if_neg hc] at h
          obtain ⟨sel, oth, upd, hS, hr⟩ := ih _ _ _ _ _ h
          refine ⟨sel, t :: oth, upd, Split.no _ _ _ _ _ _ _ ht (by simpa using hc) hS, ?_⟩
          rw [hr]; simp [Nat.add_assoc, Nat.add_comm 1]

theorem splitTensors_spec (sg : Subgraph) (slots : List Int) (ign : List Nat) (sel oth : List Tensor) (upd : List Nat)
    (h : splitTensors sg slots ign = .ok (sel, oth, upd)) : Split sg ign 0 (cslots slots) sel oth upd := by
  rw [splitTensors_eq] at h
  simp only [bind, Except.bind, pure, Except.pure] at h
  cases hl : forIn slots.zipIdx (([], [], [], 0) : SplitSt) (splitBody sg ign) with
  | error e => simp [hl] at h
  | ok v =>
    simp only [hl, Except.ok.injEq, Prod.mk.injEq] at h
    obtain ⟨sel', oth', upd', hS, hr⟩ := split_loop sg ign _ _ _ _ _ _ hl
    subst hr
    simp only [List.nil_append] at h
    obtain ⟨rfl, rfl, rfl⟩ := h
    exact hS

/-! ## facts about `Split` -/

theorem Split.facts {sg : Subgraph} {ign : List Nat} : ∀ {k cs sel oth upd}, Split sg ign k cs sel oth upd →
    (∀ u ∈ upd, k ≤ u) ∧ (∀ j p, cs[j]? = some p → upd.contains (k + j) = ign.contains p.2) ∧
    upd.length = sel.length ∧ sel.length + oth.length = cs.length := by
  intro k cs sel oth upd h
  induction h with
  | nil k => simp
  | yes k p t cs sel oth upd ht hc hS ih =>
    obtain ⟨ih1, ih2, ih3, ih4⟩ := ih
    refine ⟨?_, ?_, by simp [ih3], by simp only [List.length_cons]; omega⟩
    · intro u hu
      rcases List.mem_cons.1 hu with rfl | hu
      · exact Nat.le_refl _
      · exact Nat.le_of_succ_le (ih1 u hu)
    · intro j q hj
      cases j with
      | zero =>
        simp only [List.getElem?_cons_zero, Option.some.injEq] at hj
        subst hj
        rw [hc]; simp
      | succ j =>
        simp only [List.getElem?_cons_succ] at hj
        rw [← ih2 j q hj]
        have : k + (j + 1) = k + 1 + j := by omega
        rw [this, List.contains_cons]
        have : (k + 1 + j == k) = false := by simp; omega
        rw [this, Bool.false_or]
  | no k p t cs sel oth upd ht hc hS ih =>
    obtain ⟨ih1, ih2, ih3, ih4⟩ := ih
    refine ⟨fun u hu => Nat.le_of_succ_le (ih1 u hu), ?_, ih3, by simp only [List.length_cons]; omega⟩
    intro j q hj
    cases j with
    | zero =>
      simp only [List.getElem?_cons_zero, Option.some.injEq] at hj
      subst hj
      rw [hc, Nat.add_zero]
      cases hk : upd.contains k with
      | false => rfl
      | true =>
        have := ih1 k (List.contains_iff_mem.1 hk)
        omega
    | succ j =>
      simp only [List.getElem?_cons_succ] at hj
      rw [← ih2 j q hj]
      have : k + (j + 1) = k + 1 + j := by omega
      rw [this]

theorem Split.oth_mem {sg : Subgraph} {ign : List Nat} : ∀ {k cs sel oth upd}, Split sg ign k cs sel oth upd →
    ∀ t ∈ oth, ∃ p ∈ cs, ign.contains p.2 = false ∧ tensorAt sg p.1 = .ok t := by
  intro k cs sel oth upd h
  induction h with
  | nil k => simp
  | yes k p t cs sel oth upd ht hc hS ih =>
    intro t' ht'
    obtain ⟨q, hq, h1, h2⟩ := ih t' ht'
    exact ⟨q, List.mem_cons_of_mem _ hq, h1, h2⟩
  | no k p t cs sel oth upd ht hc hS ih =>
    intro t' ht'
    rcases List.mem_cons.1 ht' with rfl | ht'
    · exact ⟨p, List.mem_cons_self, hc, ht⟩
    · obtain ⟨q, hq, h1, h2⟩ := ih t' ht'
      exact ⟨q, List.mem_cons_of_mem _ hq, h1, h2⟩

/-- relation between a slot and its request -/
def SlotRel (sg : Subgraph) (ign : List Nat) (W : Tensor → PyM CReq) (f : Tensor → CReq) (p : Int × Nat) (r : CReq) : Prop :=
  ∃ t, tensorAt sg p.1 = .ok t ∧ (if ign.contains p.2 = true then r = f t else W t = .ok r)

/-- nothing ignored: the requests of the others are the requests of all slots -/
theorem Split.noIgn {sg : Subgraph} {ign : List Nat} (W : Tensor → PyM CReq) (f : Tensor → CReq) :
    ∀ {k cs sel oth upd}, Split sg ign k cs sel oth upd → upd = [] →
    ∀ A, List.Forall₂ (fun t r => W t = .ok r) oth A → List.Forall₂ (SlotRel sg ign W f) cs A := by
  intro k cs sel oth upd h
  induction h with
  | nil k => intro _ A hA; cases hA; exact List.Forall₂.nil
  | yes k p t cs sel oth upd ht hc hS ih => intro hu; cases hu
  | no k p t cs sel oth upd ht hc hS ih =>
    intro hu A hA
    cases hA with
    | cons h1 h2 =>
      refine List.Forall₂.cons ⟨t, ht, ?_⟩ (ih hu _ h2)
      rw [hc]; simpa using h1

/-- the interleaving fold of `mergeReqs` on one side -/
theorem Split.merge {sg : Subgraph} {ign : List Nat} (W : Tensor → PyM CReq) (f : Tensor → CReq)
    (U : List Nat) (reqs ignR : List CReq) (F : List CReq × Nat × Nat → Nat → List CReq × Nat × Nat)
    (hF : ∀ acc ii gi i, F (acc, ii, gi) i =
      if U.contains i then (acc ++ [ignR.getD gi default], ii, gi + 1) else (acc ++ [reqs.getD ii default], ii + 1, gi)) :
    ∀ {k cs sel oth upd}, Split sg ign k cs sel oth upd →
    ∀ (A preA postA preB postB acc : List CReq), List.Forall₂ (fun t r => W t = .ok r) oth A →
      reqs = preA ++ A ++ postA → ignR = preB ++ sel.map f ++ postB →
      (∀ j p, cs[j]? = some p → U.contains (k + j) = ign.contains p.2) →
      ∃ X, (List.range' k cs.length).foldl F (acc, preA.length, preB.length) =
          (acc ++ X, preA.length + A.length, preB.length + sel.length) ∧
        List.Forall₂ (SlotRel sg ign W f) cs X := by
  intro k cs sel oth upd h
  induction h with
  | nil k =>
    intro A preA postA preB postB acc hA _ _ _
    cases hA
    exact ⟨[], by simp, List.Forall₂.nil⟩
  | yes k p t cs sel oth upd ht hc hS ih =>
    intro A preA postA preB postB acc hA hreqs hign hU
    have hUk : U.contains k = true := by
      have := hU 0 p rfl
      rw [Nat.add_zero] at this
      rw [this, hc]
    have hget : ignR.getD preB.length default = f t := by
      rw [hign]; simp
    obtain ⟨X, hX, hXr⟩ := ih A preA postA (preB ++ [f t]) postB (acc ++ [f t]) hA hreqs
      (by rw [hign]; simp) (fun j q hj => by
        have := hU (j + 1) q (by simpa using hj)
        rw [← this]; congr 1; omega)
    refine ⟨f t :: X, ?_, List.Forall₂.cons ⟨t, ht, by rw [if_pos hc]⟩ hXr⟩
    rw [List.length_cons, List.range'_succ, List.foldl_cons, hF, if_pos hUk, hget]
    simp only [List.length_append, List.length_cons, List.length_nil] at hX
    rw [hX]
    simp [Nat.add_assoc, Nat.add_comm 1]
  | no k p t cs sel oth upd ht hc hS ih =>
    intro A preA postA preB postB acc hA hreqs hign hU
    cases hA with
    | @cons _ r _ A' h1 h2 =>
    have hUk : U.contains k = false := by
      have := hU 0 p rfl
      rw [Nat.add_zero] at this
      rw [this, hc]
    have hget : reqs.getD preA.length default = r := by
      rw [hreqs]; simp
    obtain ⟨X, hX, hXr⟩ := ih A' (preA ++ [r]) postA preB postB (acc ++ [r]) h2
      (by rw [hreqs]; simp) hign (fun j q hj => by
        have := hU (j + 1) q (by simpa using hj)
        rw [← this]; congr 1; omega)
    refine ⟨r :: X, ?_, List.Forall₂.cons ⟨t, ht, by rw [hc]; simpa using h1⟩ hXr⟩
    rw [List.length_cons, List.range'_succ, List.foldl_cons, hF, hUk]
    simp only [List.length_append, List.length_cons, List.length_nil] at hX
    simp only [Bool.false_eq_true, if_false, hget]
    rw [hX]
    simp [Nat.add_assoc, Nat.add_comm 1]

theorem mapM_forall₂ {α β} (f : α → PyM β) : ∀ (l : List α) (r : List β), l.mapM f = .ok r →
    List.Forall₂ (fun a b => f a = .ok b) l r := by
  intro l
  induction l with
  | nil =>
    intro r h
    simp only [List.mapM_nil, pure, Except.pure, Except.ok.injEq] at h
    subst h; exact List.Forall₂.nil
  | cons a as ih =>
    intro r h
    simp only [List.mapM_cons, bind, Except.bind, pure, Except.pure] at h
    cases ha : f a with
    | error e => simp [ha] at h
    | ok b =>
      simp only [ha] at h
      cases has : as.mapM f with
      | error e => simp [has] at h
      | ok bs =>
        simp only [has, Except.ok.injEq] at h
        subst h
        exact List.Forall₂.cons ha (ih bs has)

theorem pointwise_of_forall₂ {α β} {R : α → β → Prop} {l1 : List α} {l2 : List β}
    (h : List.Forall₂ R l1 l2) : Pointwise R l1 l2 := by
  induction h with
  | nil => exact ⟨rfl, by simp⟩
  | cons h1 _ ih =>
    refine ⟨by simp [ih.1], ?_⟩
    intro j a b ha hb
    cases j with
    | zero =>
      simp only [List.getElem?_cons_zero, Option.some.injEq] at ha hb
      subst ha; subst hb; exact h1
    | succ j =>
      simp only [List.getElem?_cons_succ] at ha hb
      exact ih.2 j a b ha hb

theorem forall₂_length {α β} {R : α → β → Prop} {l1 : List α} {l2 : List β}
    (h : List.Forall₂ R l1 l2) : l1.length = l2.length := (pointwise_of_forall₂ h).1

/-- the step of the interleaving fold of `mergeReqs` -/
def mstep (U : List Nat) (reqs ignR : List CReq) (st : List CReq × Nat × Nat) (i : Nat) : List CReq × Nat × Nat :=
  if U.contains i then (st.1 ++ [ignR.getD st.2.2 default], st.2.1, st.2.2 + 1)
  else (st.1 ++ [reqs.getD st.2.1 default], st.2.1 + 1, st.2.2)

/-- one side (operands or results) of `mergeReqs` -/
theorem Split.side {sg : Subgraph} {ign : List Nat} (W : Tensor → PyM CReq) (f : Tensor → CReq)
    {cs sel oth upd} (hS : Split sg ign 0 cs sel oth upd)
    (A preA postA reqs : List CReq) (start : Nat) (hA : List.Forall₂ (fun t r => W t = .ok r) oth A)
    (hreqs : reqs = preA ++ A ++ postA) (hstart : start = preA.length) :
    ∃ X, List.Forall₂ (SlotRel sg ign W f) cs X ∧
      (upd.isEmpty = true → X = A) ∧
      (upd.isEmpty = false → ∀ (F : List CReq × Nat × Nat → Nat → List CReq × Nat × Nat),
        (∀ acc ii gi i, F (acc, ii, gi) i =
          if upd.contains i then (acc ++ [(sel.map f).getD gi default], ii, gi + 1)
          else (acc ++ [reqs.getD ii default], ii + 1, gi)) →
        ((List.range cs.length).foldl F ([], start, 0)).1 = X) := by
  subst hreqs hstart
  by_cases hu : upd = []
  · exact ⟨A, hS.noIgn W f hu A hA, fun _ => rfl, fun h => by simp [hu] at h⟩
  · have hdef : ∀ acc ii gi i, mstep upd (preA ++ A ++ postA) (sel.map f) (acc, ii, gi) i =
          if upd.contains i then (acc ++ [(sel.map f).getD gi default], ii, gi + 1)
          else (acc ++ [(preA ++ A ++ postA).getD ii default], ii + 1, gi) := fun _ _ _ _ => rfl
    obtain ⟨X, hX, hXr⟩ := hS.merge W f upd (preA ++ A ++ postA) (sel.map f) _ hdef A preA postA [] [] [] hA rfl
      (by simp) (fun j p hj => by simpa using hS.facts.2.1 j p hj)
    refine ⟨X, hXr, fun h => absurd (List.isEmpty_iff.1 h) hu, ?_⟩
    intro _ F hF
    have e : F = mstep upd (preA ++ A ++ postA) (sel.map f) := funext fun st => funext fun i => by
      obtain ⟨acc, ii, gi⟩ := st
      exact (hF acc ii gi i).trans (hdef acc ii gi i).symm
    rw [List.range_eq_range', e]
    simp only [List.length_nil, List.nil_append] at hX
    rw [hX]

/-- `mergeReqs` puts the requests back in slot order -/
theorem mergeReqs_shape {sg : Subgraph} {ignI ignO : List Nat} (WI WO : Tensor → PyM CReq) (fI fO : Tensor → CReq)
    {csI selI othI updI} (hSI : Split sg ignI 0 csI selI othI updI)
    {csO selO othO updO} (hSO : Split sg ignO 0 csO selO othO updO)
    (A B : List CReq) (hA : List.Forall₂ (fun t r => WI t = .ok r) othI A)
    (hB : List.Forall₂ (fun t r => WO t = .ok r) othO B) :
    ∃ rin rout, mergeReqs (A ++ B) (selI.map fI) (selO.map fO) csI.length csO.length updI updO = rin ++ rout ∧
      List.Forall₂ (SlotRel sg ignI WI fI) csI rin ∧ List.Forall₂ (SlotRel sg ignO WO fO) csO rout := by
  have hlenA : csI.length - updI.length = A.length := by
    have := hSI.facts.2.2
    have := forall₂_length hA
    omega
  obtain ⟨XI, hXI, hXI1, hXI2⟩ := hSI.side WI fI A [] B (A ++ B) 0 hA rfl rfl
  obtain ⟨XO, hXO, hXO1, hXO2⟩ := hSO.side WO fO B A [] (A ++ B) (csI.length - updI.length) hB (by simp) hlenA
  refine ⟨XI, XO, ?_, hXI, hXO⟩
  unfold mergeReqs
  cases hI : updI.isEmpty with
  | true =>
    have hcs : csI.length = A.length := by
      rw [← hlenA, List.isEmpty_iff.1 hI]; rfl
    cases hO : updO.isEmpty with
    | true => simp only [Bool.and_self, if_true, hXI1 hI, hXO1 hO]
    | false =>
      simp only [Bool.and_false, Bool.false_eq_true, if_false, Bool.not_true, Bool.not_false, if_true]
      rw [hXO2 hO _ (fun _ _ _ _ => rfl), hXI1 hI, hcs]
      simp
  | false =>
    cases hO : updO.isEmpty with
    | true =>
      simp only [Bool.false_and, Bool.false_eq_true, if_false, Bool.not_true, Bool.not_false, if_true]
      rw [hXI2 hI _ (fun _ _ _ _ => rfl), hXO1 hO, hlenA]
      simp
    | false =>
      simp only [Bool.false_and, Bool.false_eq_true, if_false, Bool.not_false, if_true]
      rw [hXI2 hI _ (fun _ _ _ _ => rfl), hXO2 hO _ (fun _ _ _ _ => rfl)]

theorem cslots_length (slots : List Int) : (slots.filter (· != -1)).length = (cslots slots).length := by
  unfold cslots
  generalize 0 = n
  induction slots generalizing n with
  | nil => rfl
  | cons a as ih =>
    rw [List.zipIdx_cons]
    by_cases ha : (a != -1) = true
    · simp only [List.filter_cons, ha, if_true, List.length_cons, ih (n + 1)]
    · simp only [List.filter_cons, ha, Bool.false_eq_true, if_false, ih (n + 1)]

/-- the requests handed to `mergeReqs` -/
theorem standardOp_reqs (env : Env) (sg : Subgraph) (qsvs : Qsvs) (oi : OpInfo) (con : Constraint)
    (gIn gOut : List Nat) (rs : List CReq) (qs' : Qsvs)
    (h : standardOp env sg qsvs oi con gIn gOut = .ok (rs, qs')) :
    ∃ (inIgn outIgn : List Nat) (ignInT inT ignOutT outT : List Tensor) (inIgnU outIgnU : List Nat)
      (A B : List CReq) (g gO : Option Param),
      ignoredSlots sg oi.op.inputs gIn = .ok inIgn ∧ ignoredSlots sg oi.op.outputs gOut = .ok outIgn ∧
      splitTensors sg oi.op.inputs inIgn = .ok (ignInT, inT, inIgnU) ∧
      splitTensors sg oi.op.outputs outIgn = .ok (ignOutT, outT, outIgnU) ∧
      rs = mergeReqs (A ++ B) (ignInT.map fun t => noQuantReq t.name oi.opId true)
        (ignOutT.map fun t => noQuantReq t.name oi.opId false)
        (oi.op.inputs.filter (· != -1)).length (oi.op.outputs.filter (· != -1)).length inIgnU outIgnU ∧
      List.Forall₂ (fun t r => wrapper env qsvs oi t true g = .ok r) inT A ∧
      List.Forall₂ (fun t r => wrapper env qsvs oi t false gO = .ok r) outT B ∧
      (g = none ∨ (con = .sameAsOutput ∧ ∃ t orq, outT = [t] ∧ wrapper env qsvs oi t false none = .ok orq ∧
          g = (match orq.producer with | some pr => pr.param | none => none))) ∧
      (gO = none ∨ (con = .sameAsInput ∧ ∃ t ir p0, inT = [t] ∧ wrapper env qsvs oi t true none = .ok ir ∧
          reqParam0 ir = .ok p0 ∧ gO = stripData p0)) := by
  unfold standardOp at h
  obtain ⟨inIgn, hinIgn, h1⟩ := GraphInv.bind_ok _ _ _ h
  clear h
  obtain ⟨outIgn, houtIgn, h2⟩ := GraphInv.bind_ok _ _ _ h1
  clear h1
  obtain ⟨⟨ignInT, inT, inIgnU⟩, hsplitIn, h3⟩ := GraphInv.bind_ok _ _ _ h2
  clear h2
  obtain ⟨⟨ignOutT, outT, outIgnU⟩, hsplitOut, h⟩ := GraphInv.bind_ok _ _ _ h3
  clear h3
  simp only [] at h
  refine ⟨inIgn, outIgn, ignInT, inT, ignOutT, outT, inIgnU, outIgnU, ?_⟩
  by_cases he : (inT.isEmpty && outT.isEmpty) = true
  · rw [if_pos he] at h
    simp only [pure, Except.pure, Except.ok.injEq, Prod.mk.injEq] at h
    simp only [Bool.and_eq_true, List.isEmpty_iff] at he
    obtain ⟨rfl, rfl⟩ := he
    exact ⟨[], [], none, none, hinIgn, houtIgn, hsplitIn, hsplitOut, h.1.symm, List.Forall₂.nil, List.Forall₂.nil,
      Or.inl rfl, Or.inl rfl⟩
  · rw [if_neg he] at h
    clear he
    cases con with
    | none =>
      simp only [] at h
      obtain ⟨ins, hins, h1⟩ := GraphInv.bind_ok _ _ _ h
      clear h
      obtain ⟨outs, houts, h⟩ := GraphInv.bind_ok _ _ _ h1
      clear h1
      simp only [pure, Except.pure, Except.ok.injEq, Prod.mk.injEq] at h
      exact ⟨ins, outs, none, none, hinIgn, houtIgn, hsplitIn, hsplitOut, h.1.symm, mapM_forall₂ _ _ _ hins,
        mapM_forall₂ _ _ _ houts, Or.inl rfl, Or.inl rfl⟩
    | sameAsInput =>
      simp only [] at h
      obtain ⟨t, ht, h1⟩ := GraphInv.bind_ok _ _ _ h
      clear h
      obtain ⟨ir, hir, h2⟩ := GraphInv.bind_ok _ _ _ h1
      clear h1
      obtain ⟨p, hp, h3⟩ := GraphInv.bind_ok _ _ _ h2
      clear h2
      obtain ⟨outs, houts, h4⟩ := GraphInv.bind_ok _ _ _ h3
      clear h3
      obtain ⟨iq, hiq, h5⟩ := GraphInv.bind_ok _ _ _ h4
      clear h4
      obtain ⟨qs2, hqs2, h⟩ := GraphInv.bind_ok _ _ _ h5
      clear h5
      simp only [pure, Except.pure, Except.ok.injEq, Prod.mk.injEq] at h
      have hinT : inT = [t] := by
        rcases inT with _ | ⟨a, _ | ⟨b, l⟩⟩
        · cases ht
        · simp only [pure, Except.pure, Except.ok.injEq] at ht
          rw [ht]
        · cases ht
      refine ⟨[ir], outs, none, stripData p, hinIgn, houtIgn, hsplitIn, hsplitOut, h.1.symm, ?_,
        mapM_forall₂ _ _ _ houts, Or.inl rfl, Or.inr ⟨rfl, t, ir, p, hinT, hir, hp, rfl⟩⟩
      rw [hinT]
      exact List.Forall₂.cons hir List.Forall₂.nil
    | sameAsOutput =>
      simp only [] at h
      obtain ⟨t, ht, h1⟩ := GraphInv.bind_ok _ _ _ h
      clear h
      obtain ⟨orq, horq, h2⟩ := GraphInv.bind_ok _ _ _ h1
      clear h1
      obtain ⟨ins, hins, h⟩ := GraphInv.bind_ok _ _ _ h2
      clear h2
      simp only [pure, Except.pure, Except.ok.injEq, Prod.mk.injEq] at h
      have houtT : outT = [t] := by
        rcases outT with _ | ⟨a, _ | ⟨b, l⟩⟩
        · cases ht
        · simp only [pure, Except.pure, Except.ok.injEq] at ht
          rw [ht]
        · cases ht
      refine ⟨ins, [orq], _, none, hinIgn, houtIgn, hsplitIn, hsplitOut, h.1.symm,
        mapM_forall₂ _ _ _ hins, ?_, Or.inr ⟨rfl, t, orq, houtT, horq, rfl⟩, Or.inl rfl⟩
      rw [houtT]
      exact List.Forall₂.cons horq List.Forall₂.nil

/-- **shape of `standardOp`'s result** -/
theorem standardOp_shape (env : Env) (sg : Subgraph) (qsvs : Qsvs) (oi : OpInfo) (con : Constraint)
    (gIn gOut : List Nat) (rs : List CReq) (qs' : Qsvs)
    (h : standardOp env sg qsvs oi con gIn gOut = .ok (rs, qs')) :
    ∃ (inIgn outIgn : List Nat) (rin rout : List CReq) (g gO : Option Param),
      IgnSpec sg oi.op.inputs gIn inIgn ∧ IgnSpec sg oi.op.outputs gOut outIgn ∧
      rs = rin ++ rout ∧
      Pointwise (SlotReq env sg qsvs oi true inIgn g) (cslots oi.op.inputs) rin ∧
      Pointwise (SlotReq env sg qsvs oi false outIgn gO) (cslots oi.op.outputs) rout ∧
      -- the parameter handed to the operand requests: none, or (same-as-output) the one of a result
      (g = none ∨ (con = .sameAsOutput ∧ ∃ p ∈ cslots oi.op.outputs, ∃ t orq, outIgn.contains p.2 = false ∧
          tensorAt sg p.1 = .ok t ∧ wrapper env qsvs oi t false none = .ok orq ∧
          g = (match orq.producer with | some pr => pr.param | none => none))) ∧
      -- the parameter handed to the result requests: none, or (same-as-input) the one of an operand,
      -- stripped of its quantized values
      (gO = none ∨ (con = .sameAsInput ∧ ∃ p ∈ cslots oi.op.inputs, ∃ t ir p0, inIgn.contains p.2 = false ∧
          tensorAt sg p.1 = .ok t ∧ wrapper env qsvs oi t true none = .ok ir ∧ reqParam0 ir = .ok p0 ∧
          gO = stripData p0)) := by
  obtain ⟨inIgn, outIgn, ignInT, inT, ignOutT, outT, inIgnU, outIgnU, A, B, g, gO, hinIgn, houtIgn, hsplitIn, hsplitOut,
    hrs, hA, hB, hg, hgO⟩ := standardOp_reqs env sg qsvs oi con gIn gOut rs qs' h
  have hSI := splitTensors_spec _ _ _ _ _ _ hsplitIn
  have hSO := splitTensors_spec _ _ _ _ _ _ hsplitOut
  obtain ⟨rin, rout, hm, hrin, hrout⟩ := mergeReqs_shape
    (fun t => wrapper env qsvs oi t true g) (fun t => wrapper env qsvs oi t false gO)
    (fun t => noQuantReq t.name oi.opId true) (fun t => noQuantReq t.name oi.opId false) hSI hSO A B hA hB
  rw [cslots_length, cslots_length, hm] at hrs
  refine ⟨inIgn, outIgn, rin, rout, g, gO, ignoredSlots_spec _ _ _ _ hinIgn, ignoredSlots_spec _ _ _ _ houtIgn, hrs,
    pointwise_of_forall₂ hrin, pointwise_of_forall₂ hrout, ?_, ?_⟩
  · rcases hg with hg | ⟨hc, t, orq, hT, hw, hg⟩
    · exact Or.inl hg
    · obtain ⟨p, hp, h1, h2⟩ := hSO.oth_mem t (by rw [hT]; exact List.mem_cons_self)
      exact Or.inr ⟨hc, p, hp, t, orq, h1, h2, hw, hg⟩
  · rcases hgO with hg | ⟨hc, t, ir, p0, hT, hw, hp0, hg⟩
    · exact Or.inl hg
    · obtain ⟨p, hp, h1, h2⟩ := hSI.oth_mem t (by rw [hT]; exact List.mem_cons_self)
      exact Or.inr ⟨hc, p, hp, t, ir, p0, h1, h2, hw, hp0, hg⟩
end Pipe
