import QModel.EmuSem
import Mathlib.Tactic.Ring
import Mathlib.Tactic.Linarith
/-!
# What the EMULATED_SUBCHANNEL operator pattern computes (lemmas of C06c)

Layers: finite sums (`sumN`), row-major index bookkeeping (`flat4`, `tab4`, `tab2`), one `_spec` lemma per
operator of `QModel/EmuSem.lean` (the operator succeeds on fitting shapes; shape, data length and every
element of the result), the algebraic core (`block_algebra`), the main equivalence (`pattern_eq_fc`) and the
perturbation bound (`pattern_close_to_fc`).
-/

namespace EmuSemProofs
open EmuSem

/-! ## finite sums -/

theorem sumN_congr {n : Nat} {f g : Nat → Rat} (h : ∀ i, i < n → f i = g i) : sumN n f = sumN n g := by
  induction n with
  | zero => rfl
  | succ n ih =>
    simp only [sumN]
    rw [ih (fun i hi => h i (Nat.lt_succ_of_lt hi)), h n (Nat.lt_succ_self n)]

theorem sumN_mul_right (n : Nat) (f : Nat → Rat) (s : Rat) : sumN n f * s = sumN n (fun i => f i * s) := by
  induction n with
  | zero => simp [sumN]
  | succ n ih => simp only [sumN]; rw [← ih]; ring

theorem sumN_add_index (m n : Nat) (f : Nat → Rat) :
    sumN (m + n) f = sumN m f + sumN n (fun i => f (m + i)) := by
  induction n with
  | zero => simp [sumN]
  | succ n ih => rw [← Nat.add_assoc]; simp only [sumN]; rw [ih]; ring

/-- a sum over `b*s` indices is the sum over the `b` blocks of the sums over the `s` positions in a block -/
theorem sumN_prod (b s : Nat) (f : Nat → Rat) :
    sumN (b * s) f = sumN b fun j => sumN s fun k => f (j * s + k) := by
  induction b with
  | zero => simp [sumN]
  | succ b ih => rw [Nat.succ_mul, sumN_add_index, ih]; simp only [sumN]

theorem sumN_sub (n : Nat) (f g : Nat → Rat) : sumN n f - sumN n g = sumN n (fun i => f i - g i) := by
  induction n with
  | zero => simp [sumN]
  | succ n ih => simp only [sumN]; rw [← ih]; ring

theorem abs_sumN_le (n : Nat) (f : Nat → Rat) : |sumN n f| ≤ sumN n (fun i => |f i|) := by
  induction n with
  | zero => simp [sumN]
  | succ n ih => simp only [sumN]; exact le_trans (abs_add_le _ _) (by linarith)

theorem sumN_le_sumN {n : Nat} {f g : Nat → Rat} (h : ∀ i, i < n → f i ≤ g i) : sumN n f ≤ sumN n g := by
  induction n with
  | zero => simp [sumN]
  | succ n ih =>
    simp only [sumN]
    have h1 := ih (fun i hi => h i (Nat.lt_succ_of_lt hi))
    have h2 := h n (Nat.lt_succ_self n)
    linarith

/-! ## row-major index bookkeeping -/

theorem mul_add_lt {a m r d : Nat} (ha : a < m) (hr : r < d) : a * d + r < m * d := by
  have h1 : (a + 1) * d ≤ m * d := Nat.mul_le_mul_right d ha
  have h2 : (a + 1) * d = a * d + d := by ring
  omega

theorem mul_add_div {a r d : Nat} (hr : r < d) : (a * d + r) / d = a := by
  rw [Nat.add_comm, Nat.add_mul_div_right _ _ (by omega), Nat.div_eq_of_lt hr, Nat.zero_add]

theorem mul_add_mod {a r d : Nat} (hr : r < d) : (a * d + r) % d = r := by
  rw [Nat.add_comm, Nat.add_mul_mod_self_right, Nat.mod_eq_of_lt hr]

theorem flat4_lt {d0 d1 d2 d3 i0 i1 i2 i3 : Nat} (h0 : i0 < d0) (h1 : i1 < d1) (h2 : i2 < d2) (h3 : i3 < d3) :
    flat4 d1 d2 d3 i0 i1 i2 i3 < d0 * d1 * d2 * d3 :=
  mul_add_lt (mul_add_lt (mul_add_lt h0 h1) h2) h3

theorem flat4_c3 {d1 d2 d3 i0 i1 i2 i3 : Nat} (h3 : i3 < d3) : flat4 d1 d2 d3 i0 i1 i2 i3 % d3 = i3 :=
  mul_add_mod h3

theorem flat4_c2 {d1 d2 d3 i0 i1 i2 i3 : Nat} (h2 : i2 < d2) (h3 : i3 < d3) :
    flat4 d1 d2 d3 i0 i1 i2 i3 / d3 % d2 = i2 := by
  unfold flat4; rw [mul_add_div h3, mul_add_mod h2]

theorem flat4_c1 {d1 d2 d3 i0 i1 i2 i3 : Nat} (h1 : i1 < d1) (h2 : i2 < d2) (h3 : i3 < d3) :
    flat4 d1 d2 d3 i0 i1 i2 i3 / (d2 * d3) % d1 = i1 := by
  unfold flat4
  rw [Nat.mul_comm d2 d3, ← Nat.div_div_eq_div_mul, mul_add_div h3, mul_add_div h2, mul_add_mod h1]

theorem flat4_c0 {d1 d2 d3 i0 i1 i2 i3 : Nat} (h1 : i1 < d1) (h2 : i2 < d2) (h3 : i3 < d3) :
    flat4 d1 d2 d3 i0 i1 i2 i3 / (d1 * d2 * d3) = i0 := by
  unfold flat4
  have e : d1 * d2 * d3 = d3 * d2 * d1 := by ring
  rw [e, ← Nat.div_div_eq_div_mul, ← Nat.div_div_eq_div_mul, mul_add_div h3, mul_add_div h2, mul_add_div h1]

theorem bi_of_lt {e i : Nat} (h : i < e) : bi e i = i := by
  unfold bi; split
  · omega
  · rfl

theorem bi_one (i : Nat) : bi 1 i = 0 := by simp [bi]

/-! ## reading tabulated data -/

theorem get_mk (s : List Nat) (d : List Rat) (i : Nat) : get ⟨s, d⟩ i = d.getD i 0 := rfl

theorem tab_length (n : Nat) (f : Nat → Rat) : (tab n f).length = n := by simp [tab]

theorem tab_getD {n : Nat} (f : Nat → Rat) {i : Nat} (h : i < n) : (tab n f).getD i 0 = f i := by
  simp [tab, List.getD_eq_getElem?_getD, h]

theorem tab4_length (d0 d1 d2 d3 : Nat) (f : Nat → Nat → Nat → Nat → Rat) :
    (tab4 d0 d1 d2 d3 f).length = d0 * d1 * d2 * d3 := tab_length _ _

theorem tab2_length (d0 d1 : Nat) (f : Nat → Nat → Rat) : (tab2 d0 d1 f).length = d0 * d1 := tab_length _ _

theorem tab4_getD {d0 d1 d2 d3 : Nat} (f : Nat → Nat → Nat → Nat → Rat) {i0 i1 i2 i3 : Nat}
    (h0 : i0 < d0) (h1 : i1 < d1) (h2 : i2 < d2) (h3 : i3 < d3) :
    (tab4 d0 d1 d2 d3 f).getD (flat4 d1 d2 d3 i0 i1 i2 i3) 0 = f i0 i1 i2 i3 := by
  unfold tab4
  rw [tab_getD _ (flat4_lt h0 h1 h2 h3), flat4_c0 h1 h2 h3, flat4_c1 h1 h2 h3, flat4_c2 h2 h3, flat4_c3 h3]

theorem tab2_getD {d0 d1 : Nat} (f : Nat → Nat → Rat) {i j : Nat} (hi : i < d0) (hj : j < d1) :
    (tab2 d0 d1 f).getD (i * d1 + j) 0 = f i j := by
  unfold tab2
  rw [tab_getD _ (mul_add_lt hi hj), mul_add_div hj, mul_add_mod hj]

/-- two tensors of the same shape `… × c` with `n*c` elements agree when they agree at every `[i][j]` -/
theorem ext2 {a b : T} {n c : Nat} (hs : a.shape = b.shape) (ha : a.data.length = n * c)
    (hb : b.data.length = n * c) (h : ∀ i j, i < n → j < c → get a (i * c + j) = get b (i * c + j)) : a = b := by
  cases a with | mk sa da => cases b with | mk sb db =>
  simp only at hs ha hb
  subst hs
  congr 1
  apply List.ext_getElem (by rw [ha, hb])
  intro t h1 h2
  have ht : t < n * c := ha ▸ h1
  have hc : 0 < c := by
    rcases Nat.eq_zero_or_pos c with h0 | h0
    · subst h0; simp at ht
    · exact h0
  have hq : t / c < n := Nat.div_lt_of_lt_mul (by rwa [Nat.mul_comm] at ht)
  have := h (t / c) (t % c) hq (Nat.mod_lt _ hc)
  rw [Nat.div_add_mod' t c] at this
  rw [get_mk, get_mk, List.getD_eq_getElem?_getD, List.getD_eq_getElem?_getD, List.getElem?_eq_getElem h1,
    List.getElem?_eq_getElem h2] at this
  simpa using this

/-! ## one specification per operator -/

theorem numel2 (a b : Nat) : Nd.numel [a, b] = a * b := by simp [Nd.numel]
theorem numel3 (a b c : Nat) : Nd.numel [a, b, c] = a * b * c := by simp [Nd.numel]
theorem numel4 (a b c d : Nat) : Nd.numel [a, b, c, d] = a * b * c * d := by simp [Nd.numel]

/-- shape of the proofs below: the operator is `if <shapes fit> then some X else none` -/
theorem ite_some_spec {c : Prop} [Decidable c] {X : T} {P : T → Prop} (hc : c) (hP : P X) :
    ∃ t, (if c then some X else none) = some t ∧ P t := ⟨X, by simp [hc], hP⟩

theorem reshape_spec {a : T} {s : List Nat} (h : Nd.numel a.shape = Nd.numel s) :
    reshape a s = some ⟨s, a.data⟩ := by
  simp [reshape, h]

theorem batchMatMul_spec {a b : T} {n p m k c : Nat} (ha : a.shape = [n, p, m, k]) (hb : b.shape = [1, p, k, c]) :
    ∃ t, batchMatMul a b = some t ∧ t.shape = [n, p, m, c] ∧ t.data.length = n * p * m * c ∧
      ∀ i0 i1 i2 i3, i0 < n → i1 < p → i2 < m → i3 < c →
        get t (flat4 p m c i0 i1 i2 i3) =
          sumN k fun j => get a (flat4 p m k i0 i1 i2 j) * get b (flat4 p k c 0 i1 j i3) := by
  simp only [batchMatMul, ha, hb]
  refine ite_some_spec (by simp) ⟨rfl, by simp [tab4_length], ?_⟩
  intro i0 i1 i2 i3 h0 h1 h2 h3
  rw [get_mk, tab4_getD _ h0 h1 h2 h3]
  simp only [bi_one]

theorem mulBroadcast_spec {a b : T} {d0 d1 d2 d3 e0 e1 e2 e3 : Nat} (ha : a.shape = [d0, d1, d2, d3])
    (hb : b.shape = [e0, e1, e2, e3]) (h0 : e0 = 1 ∨ e0 = d0) (h1 : e1 = 1 ∨ e1 = d1) (h2 : e2 = 1 ∨ e2 = d2)
    (h3 : e3 = 1 ∨ e3 = d3) :
    ∃ t, mulBroadcast a b = some t ∧ t.shape = [d0, d1, d2, d3] ∧ t.data.length = d0 * d1 * d2 * d3 ∧
      ∀ i0 i1 i2 i3, i0 < d0 → i1 < d1 → i2 < d2 → i3 < d3 →
        get t (flat4 d1 d2 d3 i0 i1 i2 i3) =
          get a (flat4 d1 d2 d3 i0 i1 i2 i3) *
            get b (flat4 e1 e2 e3 (bi e0 i0) (bi e1 i1) (bi e2 i2) (bi e3 i3)) := by
  simp only [mulBroadcast, ha, hb]
  refine ite_some_spec ⟨h0, h1, h2, h3⟩ ⟨rfl, by simp [tab4_length], ?_⟩
  intro i0 i1 i2 i3 g0 g1 g2 g3
  rw [get_mk, tab4_getD _ g0 g1 g2 g3]

theorem sumAxis1_spec {a : T} {d0 d1 d2 d3 : Nat} (ha : a.shape = [d0, d1, d2, d3]) :
    ∃ t, sumAxis1KeepDims a = some t ∧ t.shape = [d0, 1, d2, d3] ∧ t.data.length = d0 * 1 * d2 * d3 ∧
      ∀ i0 i2 i3, i0 < d0 → i2 < d2 → i3 < d3 →
        get t (flat4 1 d2 d3 i0 0 i2 i3) = sumN d1 fun j => get a (flat4 d1 d2 d3 i0 j i2 i3) := by
  simp only [sumAxis1KeepDims, sumAxisKeepDims, ha]
  refine ite_some_spec (by decide) ⟨rfl, by simp [tab4_length, keep1], ?_⟩
  intro i0 i2 i3 g0 g2 g3
  show (tab4 d0 1 d2 d3 (fun i0 _ i2 i3 => sumN d1 fun j => get a (flat4 d1 d2 d3 i0 j i2 i3))).getD _ 0 = _
  rw [tab4_getD _ g0 Nat.one_pos g2 g3]

theorem addBias_spec {y b : T} {c : Nat} (hb : b.shape = [c]) (hy : y.shape.getLast? = some c) :
    ∃ t, addBias y b = some t ∧ t.shape = y.shape ∧ t.data.length = Nd.numel y.shape ∧
      ∀ i, i < Nd.numel y.shape → get t i = get y i + get b (i % c) := by
  simp only [addBias, hb]
  refine ite_some_spec hy ⟨rfl, tab_length _ _, ?_⟩
  intro i hi
  rw [get_mk, tab_getD _ hi]

theorem relu_shape (a : T) : (relu a).shape = a.shape := rfl
theorem relu_length (a : T) : (relu a).data.length = a.data.length := by simp [relu, Nd.Arr.map]

theorem relu_get (a : T) (i : Nat) : get (relu a) i = if get a i < 0 then 0 else get a i := by
  simp only [EmuSem.get, relu, Nd.Arr.map, List.getD_eq_getElem?_getD, List.getElem?_map]
  cases a.data[i]? <;> simp

theorem fullyConnected_spec {x w : T} {bias : Option T} {d0 d1 f c : Nat} (keep : Bool)
    (hx : x.shape = [d0, d1, f]) (hw : w.shape = [c, f]) (hb : biasOK bias c = true) :
    ∃ t, fullyConnected keep x w bias = some t ∧ t.shape = fcOutShape keep d0 d1 c ∧
      t.data.length = d0 * d1 * c ∧
      ∀ n j, n < d0 * d1 → j < c →
        get t (n * c + j) = sumN f (fun k => get x (n * f + k) * get w (j * f + k)) + biasAt bias j := by
  simp only [fullyConnected, hx, hw]
  refine ite_some_spec (by simp [hb]) ⟨rfl, by simp [tab2_length], ?_⟩
  intro n j hn hj
  rw [get_mk, tab2_getD _ hn hj]

theorem dequantBlock_spec {q scale : T} {b s c e : Nat} (hq : q.shape = [1, b, s, c])
    (hs : scale.shape = [1, e, 1, c]) (he : e = 1 ∨ e = b) :
    ∃ t, dequantBlock q scale = some t ∧ t.shape = [c, b * s] ∧ t.data.length = c * (b * s) ∧
      ∀ j i k, j < c → i < b → k < s →
        get t (j * (b * s) + (i * s + k)) =
          get q (flat4 b s c 0 i k j) * get scale (flat4 e 1 c 0 (bi e i) 0 j) := by
  simp only [dequantBlock, hq, hs]
  refine ite_some_spec (by simp [he]) ⟨rfl, by simp [tab2_length], ?_⟩
  intro j i k hj hi hk
  rw [get_mk, tab2_getD _ hj (mul_add_lt hi hk), mul_add_div hk, mul_add_mod hk]

/-! ## the algebraic core -/

/-- `Σ_b (Σ_k x[b][k] * Q[b][k]) * s[b] = Σ_f X[f] * W[f]` when `X[b*S+k] = x[b][k]` and `W[b*S+k] = Q[b][k] * s[b]` -/
theorem block_algebra (B S : Nat) (xv qv : Nat → Nat → Rat) (sv : Nat → Rat) (X W : Nat → Rat)
    (hX : ∀ b k, b < B → k < S → X (b * S + k) = xv b k)
    (hW : ∀ b k, b < B → k < S → W (b * S + k) = qv b k * sv b) :
    sumN B (fun b => sumN S (fun k => xv b k * qv b k) * sv b) = sumN (B * S) fun f => X f * W f := by
  rw [sumN_prod]
  apply sumN_congr; intro b hb
  rw [sumN_mul_right]
  apply sumN_congr; intro k hk
  rw [hX b k hb hk, hW b k hb hk]; ring

/-! ## RESHAPE → BATCH_MATMUL → MUL → SUM -/

theorem get_data (s : List Nat) (a : T) (i : Nat) : get ⟨s, a.data⟩ i = get a i := rfl

theorem flat4_rows (B S n b k : Nat) : flat4 B 1 S n b 0 k = n * (B * S) + (b * S + k) := by
  simp only [flat4]; ring

theorem flat4_row (C n c : Nat) : flat4 1 1 C n 0 0 c = n * C + c := by
  simp only [flat4]; ring

/-- the first four operators, with the rest of the pattern as a continuation `κ` -/
theorem pattern_core {x q scale : T} {d0 d1 B S C e : Nat} (hx : x.shape = [d0, d1, B * S])
    (hq : q.shape = [1, B, S, C]) (hs : scale.shape = [1, e, 1, C]) (he : e = 1 ∨ e = B) :
    ∃ t4 : T, t4.shape = [d0 * d1, 1, 1, C] ∧ t4.data.length = d0 * d1 * C ∧
      (∀ n c, n < d0 * d1 → c < C →
        get t4 (n * C + c) =
          sumN B fun b => (sumN S fun k => get x (n * (B * S) + (b * S + k)) * get q (flat4 B S C 0 b k c)) *
            get scale (flat4 e 1 C 0 (bi e b) 0 c)) ∧
      ∀ {β : Type} (κ : T → Option β),
        ((reshape x [d0 * d1, B, 1, S]).bind fun t1 => (batchMatMul t1 q).bind fun t2 =>
          (mulBroadcast t2 scale).bind fun t3 => (sumAxis1KeepDims t3).bind κ) = κ t4 := by
  have h1 := reshape_spec (a := x) (s := [d0 * d1, B, 1, S]) (by rw [hx, numel3, numel4]; ring)
  obtain ⟨t2, e2, sh2, _, g2⟩ := batchMatMul_spec (a := ⟨[d0 * d1, B, 1, S], x.data⟩) (b := q) rfl hq
  obtain ⟨t3, e3, sh3, _, g3⟩ := mulBroadcast_spec (a := t2) (b := scale) sh2 hs (Or.inl rfl) he (Or.inl rfl)
    (Or.inr rfl)
  obtain ⟨t4, e4, sh4, l4, g4⟩ := sumAxis1_spec (a := t3) sh3
  refine ⟨t4, sh4, by rw [l4]; ring, ?_, ?_⟩
  · intro n c hn hc
    have h := g4 n 0 c hn Nat.one_pos hc
    rw [flat4_row] at h
    rw [h]
    apply sumN_congr; intro b hb
    rw [g3 n b 0 c hn hb Nat.one_pos hc, g2 n b 0 c hn hb Nat.one_pos hc]
    simp only [bi_one, bi_of_lt hc, get_data, flat4_rows]
  · intro β κ
    simp only [h1, e2, e3, e4, Option.bind_some]

end EmuSemProofs

