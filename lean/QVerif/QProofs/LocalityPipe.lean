import QProofs.LocalityMat
import QProofs.LocalityShare
import QProofs.LocalityRename
import QProofs.PipeAbs
/-!
# C19 — end to end: `Pipeline.quantizePure` treats every subgraph as if it stood alone

The big run and the stand-alone run number their parameter objects independently (ids = order of
first appearance, `Pipeline.absReqs`), so the two results can only be compared up to a renaming of
the ids.  We construct the renaming `ρ` (`Locality.rho`): the id `i` of the stand-alone run is sent to
the id of the `Param.eqv`-class of its parameter object in the table of the big run.  `ρ` is
injective, it respects the parameter objects up to `Param.eqv`, and under it subgraph `j` of the big
result is subgraph 0 of the stand-alone result.
-/
open Graph Mat Cfg Pipe Pipeline GenInstsOK Perform Rename

namespace Locality

/-! ## `performer_local` for any small model that looks like the extracted one -/

theorem performer_local' (pt : PTable) (m m' m1 : Model) (tis : List TInsts) (j : Nat) (sg : Subgraph)
    (hsg : m.subgraphs[j]? = some sg) (hcodes : ∀ o ∈ sg.ops, o.code < m.opcodes.length)
    (h1 : m1.subgraphs = [sg]) (h2 : m1.opcodes = m.opcodes) (h3 : m1.buffers.length = m.buffers.length)
    (h4 : m1.sigs = sigsOf m j) (h : transformGraph pt m tis = .ok m') :
    ∃ m1', transformGraph pt m1 (restrict tis j) = .ok m1' ∧ view m' j = view m1' 0 ∧ sigsOf m' j = m1'.sigs := by
  have hinit : Sim j (initSt m) (initSt m1) := by
    refine ⟨⟨sg, sg, hsg, by simp only [initSt, h1, List.getElem?_cons_zero], rfl, rfl, rfl, ?_⟩, ?_, ?_, h3.symm,
      h4.symm⟩
    · simp only [initSt, h2]
      exact OpsRel.refl_of hcodes
    · simp only [initSt, List.getElem?_map, hsg, h1, Option.map_some, List.map_cons, List.map_nil,
        List.getElem?_cons_zero]
    · simp only [initSt, List.getElem?_map, hsg, h1, Option.map_some, List.map_cons, List.map_nil,
        List.getElem?_cons_zero]
  have e1 : ∀ pt m tis, transformGraph pt m tis = (tis.foldlM (applyAll pt) (initSt m) >>= fun st => pure st.model) :=
    fun _ _ _ => rfl
  rw [e1] at h ⊢
  obtain ⟨st, hfold, h⟩ := GraphInv.bind_ok _ _ _ h
  cases h
  obtain ⟨st1, hfold1, hS⟩ := foldl_sim pt j tis _ _ st hinit hfold
  refine ⟨st1.model, ?_, view_of_sim j st st1 hS, hS.sigs⟩
  rw [hfold1]
  rfl

/-! ## `Param.eqv` is an equivalence relation -/

abbrev AKey (α : Type) := List Nat × List α

/-- what `Param.eqv` compares -/
def pkey : Param → (Nat × Option Nat × AKey Rat × AKey Int × Bool × Option (AKey Int)) ⊕ (Nat × Option (AKey Rat))
  | .uniform p d => .inl (p.bits, p.qdim, (p.scale.arr.shape, p.scale.arr.data), (p.zp.arr.shape, p.zp.arr.data),
      p.symmetric, d.map fun a => (a.arr.shape, a.arr.data))
  | .nonlinear b d => .inr (b, d.map fun a => (a.shape, a.data))

theorem arrEq_iff {α} [BEq α] [LawfulBEq α] (a b : Nd.Arr α) :
    arrEq a b = true ↔ (a.shape, a.data) = (b.shape, b.data) := by
  simp only [arrEq, Bool.and_eq_true, beq_iff_eq, Prod.mk.injEq]

theorem optEq_iff {α β} (f : α → α → Bool) (k : α → β) (hf : ∀ a b, f a b = true ↔ k a = k b) (x y : Option α) :
    optEq f x y = true ↔ x.map k = y.map k := by
  cases x <;> cases y <;> simp [optEq, hf]

theorem eqv_iff (p q : Param) : p.eqv q = true ↔ pkey p = pkey q := by
  cases p with
  | uniform p d =>
    cases q with
    | uniform q e =>
      simp only [Param.eqv, Bool.and_eq_true, beq_iff_eq, arrEq_iff, pkey, Sum.inl.injEq, Prod.mk.injEq,
        optEq_iff (fun a b : Arith.IArr => arrEq a.arr b.arr) (fun a => (a.arr.shape, a.arr.data))
          (fun a b => arrEq_iff a.arr b.arr)]
      constructor
      · rintro ⟨⟨⟨⟨⟨h1, h2⟩, h3, h4⟩, h5, h6⟩, h7⟩, h8⟩
        exact ⟨h1, h2, ⟨h3, h4⟩, ⟨h5, h6⟩, h7, h8⟩
      · rintro ⟨h1, h2, ⟨h3, h4⟩, ⟨h5, h6⟩, h7, h8⟩
        exact ⟨⟨⟨⟨⟨h1, h2⟩, h3, h4⟩, h5, h6⟩, h7⟩, h8⟩
    | nonlinear b e => simp [Param.eqv, pkey]
  | nonlinear b d =>
    cases q with
    | uniform q e => simp [Param.eqv, pkey]
    | nonlinear c e =>
      simp only [Param.eqv, Bool.and_eq_true, beq_iff_eq, pkey, Sum.inr.injEq, Prod.mk.injEq,
        optEq_iff (fun a b : Nd.Arr Rat => arrEq a b) (fun a => (a.shape, a.data)) (fun a b => arrEq_iff a b)]

/-- the first entry of the table in the class of `p` -/
theorem findIdx_eqv_congr (tbl : List Param) (p q : Param) (h : pkey p = pkey q) :
    tbl.findIdx? (fun x => x.eqv p) = tbl.findIdx? (fun x => x.eqv q) := by
  have : (fun x : Param => x.eqv p) = (fun x : Param => x.eqv q) := by
    funext x
    rw [Bool.eq_iff_iff, eqv_iff, eqv_iff, h]
  rw [this]

theorem eqv_pinfoOf (p q : Param) (h : p.eqv q = true) : pinfoOf p = pinfoOf q := by
  have hd := eqv_hasData p q h
  cases p <;> cases q <;> simp only [Param.eqv, Bool.and_eq_true, beq_iff_eq] at h
  · simp only [pinfoOf, h.1.1.1.1.1]
    simp only [hasData] at hd
    rw [hd]
  · exact absurd h (by simp)
  · exact absurd h (by simp)
  · simp only [pinfoOf, h.1]
    simp only [hasData] at hd
    rw [hd]

/-! ## invariants of the parameter table built by `absReqs` -/

/-- the parameter objects occurring in a request -/
def paramsOfR (r : CReq) : List Param := (r.producer.toList ++ r.consumers.getD []).filterMap (·.param)

def paramsOf (rs : List CReq) : List Param := rs.flatMap paramsOfR

/-- the entries of the table are pairwise non-`eqv` and all of them satisfy `S` -/
structure TInv (S : Param → Prop) (tbl : List Param) : Prop where
  nodup : (tbl.map pkey).Nodup
  sub : ∀ P ∈ tbl, S P

theorem pidOf_inv (S : Param → Prop) (tbl : List Param) (p : Param) (h : TInv S tbl) (hp : S p) :
    TInv S (pidOf tbl p).1 := by
  unfold pidOf
  cases hf : tbl.findIdx? (fun q => q.eqv p) with
  | some i => exact h
  | none =>
    simp only []
    refine ⟨?_, ?_⟩
    · rw [List.map_append, List.map_cons, List.map_nil]
      refine List.Nodup.append h.nodup (List.nodup_singleton _) ?_
      intro k hk hk'
      rw [List.mem_singleton] at hk'
      subst hk'
      obtain ⟨q, hq, hqk⟩ := List.mem_map.1 hk
      have := (List.findIdx?_eq_none_iff.1 hf) q hq
      rw [(eqv_iff q p).2 hqk] at this
      cases this
    · intro P hP
      rcases List.mem_append.1 hP with hP | hP
      · exact h.sub P hP
      · rw [List.mem_singleton.1 hP]; exact hp

theorem absO2T_inv (S : Param → Prop) (tbl : List Param) (o : CO2T) (h : TInv S tbl)
    (hp : ∀ p, o.param = some p → S p) : TInv S (absO2T tbl o).1 := by
  unfold absO2T
  cases ho : o.param with
  | none => exact h
  | some p => exact pidOf_inv S tbl p h (hp p ho)

theorem absReq_inv (S : Param → Prop) (tbl : List Param) (r : CReq) (h : TInv S tbl)
    (hp : ∀ p ∈ paramsOfR r, S p) : TInv S (absReq tbl r).1 := by
  rw [absReq_eq]
  simp only []
  have h1 : TInv S (prodStage tbl r.producer).1 := by
    cases hpr : r.producer with
    | none => exact h
    | some o =>
      refine absO2T_inv S tbl o h ?_
      intro p hop
      refine hp p ?_
      simp only [paramsOfR, hpr, Option.toList_some, List.mem_filterMap]
      exact ⟨o, by simp, hop⟩
  cases hc : r.consumers with
  | none => exact h1
  | some cs =>
    simp only [consStage]
    refine GenInstsInfo.foldl_inv _ (fun st : List Param × List O2T => TInv S st.1) cs _ ?_ h1
    intro c hcm acc hacc
    refine absO2T_inv S acc.1 c hacc ?_
    intro p hop
    refine hp p ?_
    simp only [paramsOfR, hc, Option.getD_some, List.mem_filterMap, List.mem_append]
    exact ⟨c, Or.inr hcm, hop⟩

theorem absReqs_inv (reqs : List CReq) : TInv (fun P => P ∈ paramsOf reqs) (absReqs reqs).1 := by
  unfold absReqs
  refine GenInstsInfo.foldl_inv _ (fun st : List Param × List TReq => TInv (fun P => P ∈ paramsOf reqs) st.1)
    reqs _ ?_ ⟨by simp, by simp⟩
  intro r hr acc hacc
  refine absReq_inv _ acc.1 r hacc ?_
  intro p hp
  exact List.mem_flatMap.2 ⟨r, hr, hp⟩

/-- every parameter object of the requests has an id in the final table -/
theorem absReqs_found (reqs : List CReq) (p : Param) (hp : p ∈ paramsOf reqs) :
    ∃ i, (absReqs reqs).1.findIdx? (fun q => q.eqv p) = some i := by
  obtain ⟨r, hr, hpr⟩ := List.mem_flatMap.1 hp
  obtain ⟨j, hj⟩ := List.mem_iff_getElem?.1 hr
  have hspec := absReqs_spec reqs
  have hlt : j < (absReqs reqs).2.length := by
    rw [← hspec.1]; exact (List.getElem?_eq_some_iff.1 hj).1
  obtain ⟨h1, h2, h3⟩ := hspec.2 j r _ hj (List.getElem?_eq_getElem hlt)
  simp only [paramsOfR, List.mem_filterMap, List.mem_append] at hpr
  obtain ⟨o, ho, hop⟩ := hpr
  rcases ho with ho | ho
  · cases hpr' : r.producer with
    | none => rw [hpr'] at ho; simp at ho
    | some c =>
      rw [hpr'] at ho h2
      simp only [Option.toList_some, List.mem_singleton] at ho
      subst ho
      cases hap : ((absReqs reqs).2[j]).producer with
      | none => rw [hap] at h2; exact absurd h2 (by simp)
      | some a =>
        rw [hap] at h2
        obtain ⟨_, _, h2⟩ := h2
        rw [hop] at h2
        cases hpa : a.param with
        | none => rw [hpa] at h2; exact absurd h2 (by simp)
        | some i => rw [hpa] at h2; exact ⟨i, h2⟩
  · cases hc : r.consumers with
    | none => rw [hc] at ho; simp at ho
    | some cs =>
      rw [hc] at ho h3
      simp only [Option.getD_some] at ho
      cases hac : ((absReqs reqs).2[j]).consumers with
      | none => rw [hac] at h3; exact absurd h3 (by simp)
      | some os =>
        rw [hac] at h3
        obtain ⟨a, _, hao⟩ : ∃ a ∈ os, AbsO (absReqs reqs).1 o a := by
          obtain ⟨k, hk⟩ := List.mem_iff_getElem?.1 ho
          have hlt' : k < os.length := by rw [← h3.1]; exact (List.getElem?_eq_some_iff.1 hk).1
          exact ⟨os[k], List.getElem_mem hlt', h3.2 k o _ hk (List.getElem?_eq_getElem hlt')⟩
        obtain ⟨_, _, h4⟩ := hao
        rw [hop] at h4
        cases hpa : a.param with
        | none => rw [hpa] at h4; exact absurd h4 (by simp)
        | some i => rw [hpa] at h4; exact ⟨i, h4⟩

/-! ## the renaming of the stand-alone ids into the ids of the big run -/

/-- id `i` of the table `tbl1` ↦ the id, in `tbl`, of the `eqv`-class of `tbl1[i]`
    (ids that are not in use are sent to fresh, pairwise different ids) -/
def rho (tbl tbl1 : List Param) (i : Nat) : Nat :=
  match tbl1[i]? with
  | some P =>
    match tbl.findIdx? (fun q => q.eqv P) with
    | some k => k
    | none => tbl.length + i
  | none => tbl.length + i

theorem findIdx_spec {tbl : List Param} {f : Param → Bool} {k : Nat} (h : tbl.findIdx? f = some k) :
    ∃ Q, tbl[k]? = some Q ∧ f Q = true := by
  obtain ⟨hlt, hf, _⟩ := List.findIdx?_eq_some_iff_getElem.1 h
  exact ⟨tbl[k], List.getElem?_eq_getElem hlt, hf⟩

theorem rho_cases (tbl tbl1 : List Param) (i : Nat) :
    (∃ P Q, tbl1[i]? = some P ∧ tbl[rho tbl tbl1 i]? = some Q ∧ Q.eqv P = true) ∨
      rho tbl tbl1 i = tbl.length + i := by
  unfold rho
  cases hi : tbl1[i]? with
  | none => exact Or.inr rfl
  | some P =>
    simp only []
    cases hf : tbl.findIdx? (fun q => q.eqv P) with
    | none => exact Or.inr rfl
    | some k =>
      obtain ⟨Q, hQ, hQP⟩ := findIdx_spec hf
      exact Or.inl ⟨P, Q, rfl, hQ, hQP⟩

/-- injective, as soon as the entries of `tbl1` are pairwise non-`eqv` -/
theorem rho_injective (tbl tbl1 : List Param) (hnd : (tbl1.map pkey).Nodup) : Function.Injective (rho tbl tbl1) := by
  intro i i' h
  rcases rho_cases tbl tbl1 i with ⟨P, Q, hi, hQ, hQP⟩ | hi
  · have hlt := (List.getElem?_eq_some_iff.1 hQ).1
    rcases rho_cases tbl tbl1 i' with ⟨P', Q', hi', hQ', hQP'⟩ | hi'
    · rw [← h, hQ] at hQ'
      cases hQ'
      have hk : pkey P = pkey P' := ((eqv_iff Q P).1 hQP).symm.trans ((eqv_iff Q P').1 hQP')
      obtain ⟨hl, hPi⟩ := List.getElem?_eq_some_iff.1 hi
      obtain ⟨hl', hPi'⟩ := List.getElem?_eq_some_iff.1 hi'
      have h1 : (tbl1.map pkey)[i]'(by simpa using hl) = pkey P := by simp [hPi]
      have h2 : (tbl1.map pkey)[i']'(by simpa using hl') = pkey P' := by simp [hPi']
      exact (List.Nodup.getElem_inj_iff hnd).1 (h1.trans (hk.trans h2.symm))
    · omega
  · rcases rho_cases tbl tbl1 i' with ⟨P', Q', hi', hQ', hQP'⟩ | hi'
    · have hlt := (List.getElem?_eq_some_iff.1 hQ').1
      omega
    · omega

/-- `ρ` respects the parameter objects up to `eqv`, provided every entry of `tbl1` has a class in `tbl` -/
theorem rho_eqv (tbl tbl1 : List Param) (hfound : ∀ P ∈ tbl1, ∃ k, tbl.findIdx? (fun q => q.eqv P) = some k)
    (i : PId) (P : Param) (hi : tbl1[i]? = some P) : ∃ Q, tbl[rho tbl tbl1 i]? = some Q ∧ Q.eqv P = true := by
  obtain ⟨k, hk⟩ := hfound P (List.mem_of_getElem? hi)
  unfold rho
  rw [hi]
  simp only [hk]
  exact findIdx_spec hk

theorem rho_pinfo (tbl tbl1 : List Param) (hfound : ∀ P ∈ tbl1, ∃ k, tbl.findIdx? (fun q => q.eqv P) = some k)
    (i : PId) : pinfo (ptableOf tbl) (rho tbl tbl1 i) = pinfo (ptableOf tbl1) i := by
  rw [pinfo_ptableOf, pinfo_ptableOf]
  cases hi : tbl1[i]? with
  | none =>
    unfold rho
    rw [hi]
    simp only []
    rw [List.getElem?_eq_none (by omega)]
  | some P =>
    obtain ⟨Q, hQ, hQP⟩ := rho_eqv tbl tbl1 hfound i P hi
    rw [hQ]
    simp only [Option.map_some, eqv_pinfoOf Q P hQP]

/-- the id of `p` in `tbl` is the image of its id in `tbl1` -/
theorem rho_id (tbl tbl1 : List Param) (p : Param) (i i1 : PId)
    (h : tbl.findIdx? (fun q => q.eqv p) = some i) (h1 : tbl1.findIdx? (fun q => q.eqv p) = some i1) :
    rho tbl tbl1 i1 = i := by
  obtain ⟨P1, hP1, hP1p⟩ := findIdx_spec h1
  unfold rho
  rw [hP1]
  simp only []
  rw [findIdx_eqv_congr tbl P1 p ((eqv_iff P1 p).1 hP1p), h]

/-! ## the abstract requests of the two runs -/

theorem absO_rho {tbl tbl1 : List Param} {c : CO2T} {o o1 : O2T} (h : AbsO tbl c o) (h1 : AbsO tbl1 c o1) :
    o = rnO (rho tbl tbl1) o1 := by
  obtain ⟨a1, a2, a3⟩ := h
  obtain ⟨b1, b2, b3⟩ := h1
  obtain ⟨oid, oxfs, op⟩ := o
  obtain ⟨oid1, oxfs1, op1⟩ := o1
  simp only at a1 a2 a3 b1 b2 b3
  simp only [rnO, O2T.mk.injEq]
  refine ⟨a1.trans b1.symm, a2.trans b2.symm, ?_⟩
  cases hc : c.param with
  | none =>
    rw [hc] at a3 b3
    cases op <;> cases op1 <;> simp_all
  | some p =>
    rw [hc] at a3 b3
    cases op with
    | none => exact absurd a3 (by simp)
    | some i =>
      cases op1 with
      | none => exact absurd b3 (by simp)
      | some i1 =>
        simp only at a3 b3
        simp only [Option.map_some, Option.some.injEq]
        exact (rho_id tbl tbl1 p i i1 a3 b3).symm

theorem pointwise_ext {α β} {R : α → β → Prop} {S : α → β → Prop} (f : β → β) {l : List α} {l1 l2 : List β}
    (h1 : Pointwise R l l1) (h2 : Pointwise S l l2) (hRS : ∀ a b b', R a b → S a b' → b = f b') :
    l1 = l2.map f := by
  apply List.ext_getElem?
  intro k
  rw [List.getElem?_map]
  by_cases hk : k < l.length
  · have hk1 : k < l1.length := h1.1 ▸ hk
    have hk2 : k < l2.length := h2.1 ▸ hk
    rw [List.getElem?_eq_getElem hk1, List.getElem?_eq_getElem hk2, Option.map_some]
    exact congrArg some (hRS l[k] _ _ (h1.2 k _ _ (List.getElem?_eq_getElem hk) (List.getElem?_eq_getElem hk1))
      (h2.2 k _ _ (List.getElem?_eq_getElem hk) (List.getElem?_eq_getElem hk2)))
  · have hk1 : ¬ k < l1.length := h1.1 ▸ hk
    have hk2 : ¬ k < l2.length := h2.1 ▸ hk
    rw [List.getElem?_eq_none (by omega), List.getElem?_eq_none (by omega)]
    rfl

theorem absR_rho {tbl tbl1 : List Param} {r : CReq} {a a1 : TReq} (h : AbsR tbl r a) (h1 : AbsR tbl1 r a1) :
    a = rnReq (rho tbl tbl1) a1 := by
  obtain ⟨n1, p1, c1⟩ := h
  obtain ⟨n2, p2, c2⟩ := h1
  obtain ⟨an, ap, ac⟩ := a
  obtain ⟨an1, ap1, ac1⟩ := a1
  simp only at n1 p1 c1 n2 p2 c2
  simp only [rnReq, TReq.mk.injEq]
  refine ⟨n1.trans n2.symm, ?_, ?_⟩
  · cases hp : r.producer with
    | none =>
      rw [hp] at p1 p2
      cases ap <;> cases ap1 <;> simp_all
    | some c =>
      rw [hp] at p1 p2
      cases ap with
      | none => exact absurd p1 (by simp)
      | some o =>
        cases ap1 with
        | none => exact absurd p2 (by simp)
        | some o1 =>
          simp only at p1 p2
          simp only [Option.map_some, Option.some.injEq]
          exact absO_rho p1 p2
  · cases hc : r.consumers with
    | none =>
      rw [hc] at c1 c2
      cases ac <;> cases ac1 <;> simp_all
    | some cs =>
      rw [hc] at c1 c2
      cases ac with
      | none => exact absurd c1 (by simp)
      | some os =>
        cases ac1 with
        | none => exact absurd c2 (by simp)
        | some os1 =>
          simp only at c1 c2
          simp only [Option.map_some, Option.some.injEq]
          exact pointwise_ext (rnO (rho tbl tbl1)) c1 c2 (fun _ _ _ h h' => absO_rho h h')

theorem forall₂_of_pointwise {α β} {R : α → β → Prop} : ∀ {l1 : List α} {l2 : List β}, Pointwise R l1 l2 →
    List.Forall₂ R l1 l2 := by
  intro l1
  induction l1 with
  | nil =>
    intro l2 h
    cases l2 with
    | nil => exact List.Forall₂.nil
    | cons b bs => exact absurd h.1 (by simp)
  | cons a as ih =>
    intro l2 h
    cases l2 with
    | nil => exact absurd h.1 (by simp)
    | cons b bs =>
      refine List.Forall₂.cons (h.2 0 a b rfl rfl) (ih ⟨by simpa using h.1, ?_⟩)
      intro j x y hx hy
      exact h.2 (j + 1) x y (by simpa using hx) (by simpa using hy)

theorem forall₂_filter {α β} {R : α → β → Prop} (f : α → Bool) (g : β → Bool) (hfg : ∀ a b, R a b → f a = g b)
    {l1 : List α} {l2 : List β} (h : List.Forall₂ R l1 l2) : List.Forall₂ R (l1.filter f) (l2.filter g) := by
  induction h with
  | nil => exact List.Forall₂.nil
  | @cons a b as bs hab _ ih =>
    have := hfg a b hab
    cases hf : f a with
    | true =>
      rw [List.filter_cons_of_pos hf, List.filter_cons_of_pos (this ▸ hf)]
      exact List.Forall₂.cons hab ih
    | false =>
      rw [List.filter_cons_of_neg (by simp [hf]), List.filter_cons_of_neg (by simp [← this, hf])]
      exact ih

/-- **the abstract requests of the big run for the tensors of subgraph `j` are the abstract requests of
    the stand-alone run, renamed** -/
theorem absReqs_restrict (reqs : List CReq) (sg : Subgraph) :
    restrictReqs (absReqs reqs).2 sg =
      (absReqs (restrictCReqs reqs sg)).2.map
        (rnReq (rho (absReqs reqs).1 (absReqs (restrictCReqs reqs sg)).1)) := by
  have hbig := forall₂_of_pointwise (absReqs_spec reqs)
  have hbig' : List.Forall₂ (AbsR (absReqs reqs).1) (restrictCReqs reqs sg) (restrictReqs (absReqs reqs).2 sg) :=
    forall₂_filter _ _ (fun r a h => by rw [h.1]) hbig
  exact pointwise_ext _ (pointwise_of_forall₂ hbig') (absReqs_spec (restrictCReqs reqs sg))
    (fun _ _ _ h h' => absR_rho h h')

/-! ## `quantizePure` -/

theorem quantizePure_eq (rx : String → String → Bool) (env : Env) (st : Recipe.State) (qsvs : Option Qsvs) :
    quantizePure rx env st qsvs =
      if (Recipe.getRecipe st).isEmpty then .error .runtimeError
      else Mat.generate rx env st qsvs >>= fun reqs =>
        Perform.modify (ptableOf (absReqs reqs).1) env.model (absReqs reqs).2 >>= fun m' =>
          pure (m', (absReqs reqs).1) := by
  unfold quantizePure
  by_cases hc : (Recipe.getRecipe st).isEmpty = true
  · rw [if_pos hc, if_pos hc]; rfl
  · rw [if_neg hc, if_neg hc]

theorem generate_noQuant (rx : String → String → Bool) (env : Env) (st : Recipe.State) (qsvs : Option Qsvs)
    (reqs : List CReq) (h : Mat.generate rx env st qsvs = .ok reqs) :
    ∀ sg ∈ env.model.subgraphs, ∀ t ∈ sg.tensors, t.quant = none := by
  rw [generate_eq] at h
  split at h
  · cases h
  rename_i hq
  intro sg hsg t ht
  cases hqt : t.quant with
  | none => rfl
  | some p =>
    exfalso
    apply hq
    rw [List.any_eq_true]
    refine ⟨sg, hsg, ?_⟩
    rw [List.any_eq_true]
    exact ⟨t, ht, by rw [hqt]; rfl⟩

theorem rnSg_noQuant (ρ : PId → PId) (sg : Subgraph) (h : ∀ t ∈ sg.tensors, t.quant = none) : rnSg ρ sg = sg := by
  unfold rnSg
  have : sg.tensors.map (rnTensor ρ) = sg.tensors := by
    conv => rhs; rw [← List.map_id sg.tensors]
    refine List.map_congr_left ?_
    intro t ht
    obtain ⟨n, d, s, b, q⟩ := t
    have := h _ ht
    simp only at this
    subst this
    rfl
  rw [this]

theorem map_ok {α β} (f : α → β) (x : PyM α) (b : β) (h : x.map f = .ok b) : ∃ a, x = .ok a ∧ f a = b := by
  cases x with
  | error e => cases h
  | ok a =>
    simp only [Except.map, Except.ok.injEq] at h
    exact ⟨a, rfl, h⟩

/-- **C19, end to end.**  If the big run succeeds and the materialisation stage of the stand-alone run of
    subgraph `j` succeeds (i.e. its buffer-sharing check passes), then the whole stand-alone run succeeds,
    and there is an injective renaming `ρ` of its parameter ids into those of the big run, respecting
    the parameter objects up to `Param.eqv`, under which subgraph 0 of its result is subgraph `j` of
    the big result (tensors with dtypes and quantization parameters, operators with resolved opcodes,
    wiring, inputs/outputs) and the signatures agree. -/
theorem quantize_local (rx : String → String → Bool) (env : Env) (st : Recipe.State) (qsvs : Option Qsvs)
    (j : Nat) (sg : Subgraph) (hsg : env.model.subgraphs[j]? = some sg)
    (hcodes : ∀ o ∈ sg.ops, o.code < env.model.opcodes.length)
    (m' : Model) (tbl : List Param) (h : quantizePure rx env st qsvs = .ok (m', tbl))
    (r1 : List CReq) (hgen1 : Mat.generate rx (extractEnv env j sg) st qsvs = .ok r1) :
    ∃ (m1' : Model) (tbl1 : List Param) (ρ : PId → PId),
      quantizePure rx (extractEnv env j sg) st qsvs = .ok (m1', tbl1) ∧
      Function.Injective ρ ∧
      (∀ i P, tbl1[i]? = some P → ∃ Q, tbl[ρ i]? = some Q ∧ Q.eqv P = true) ∧
      view m' j = view (rnModel ρ m1') 0 ∧ sigsOf m' j = m1'.sigs := by
  rw [quantizePure_eq] at h ⊢
  by_cases hc : (Recipe.getRecipe st).isEmpty = true
  · rw [if_pos hc] at h; cases h
  rw [if_neg hc] at h ⊢
  obtain ⟨reqs, hgen, h⟩ := GraphInv.bind_ok _ _ _ h
  obtain ⟨mm, hmod, h⟩ := GraphInv.bind_ok _ _ _ h
  simp only [pure, Except.pure, Except.ok.injEq, Prod.mk.injEq] at h
  obtain ⟨rfl, rfl⟩ := h
  have hr1 := generate_local_ok rx env st qsvs j sg hsg reqs r1 hgen hgen1
  subst hr1
  have hnu := (generate_ok rx env st qsvs reqs hgen).1
  have hnq := generate_noQuant rx env st qsvs reqs hgen sg (List.mem_of_getElem? hsg)
  -- names
  generalize htbl : (absReqs reqs).1 = tbl at hmod ⊢
  generalize hareqs : (absReqs reqs).2 = areqs at hmod
  generalize htbl1 : (absReqs (restrictCReqs reqs sg)).1 = tbl1
  generalize hareqs1 : (absReqs (restrictCReqs reqs sg)).2 = areqs1
  have hrestr : restrictReqs areqs sg = areqs1.map (rnReq (rho tbl tbl1)) := by
    rw [← hareqs, ← hareqs1, ← htbl, ← htbl1]; exact absReqs_restrict reqs sg
  have hinv1 : TInv (fun P => P ∈ paramsOf (restrictCReqs reqs sg)) tbl1 := htbl1 ▸ absReqs_inv _
  have hsub : ∀ P ∈ paramsOf (restrictCReqs reqs sg), P ∈ paramsOf reqs := by
    intro P hP
    obtain ⟨r, hr, hPr⟩ := List.mem_flatMap.1 hP
    exact List.mem_flatMap.2 ⟨r, (List.mem_filter.1 hr).1, hPr⟩
  have hfound : ∀ P ∈ tbl1, ∃ k, tbl.findIdx? (fun q => q.eqv P) = some k := by
    intro P hP
    rw [← htbl]
    exact absReqs_found reqs P (hsub P (hinv1.sub P hP))
  have hinj : Function.Injective (rho tbl tbl1) := rho_injective tbl tbl1 hinv1.nodup
  have hpt : ∀ p, pinfo (ptableOf tbl) (rho tbl tbl1 p) = pinfo (ptableOf tbl1) p := rho_pinfo tbl tbl1 hfound
  -- the big `modify`
  unfold Perform.modify at hmod
  obtain ⟨tis, htis, htg⟩ := GraphInv.bind_ok _ _ _ hmod
  have hloc := genInsts_local env.model hnu j sg hsg areqs tis htis
  rw [hrestr, genInsts_rn hinj] at hloc
  obtain ⟨tis1, htis1, htis1'⟩ := map_ok _ _ _ hloc
  -- the performer on the renamed extracted model
  have hE : rnModel (rho tbl tbl1) (extract env.model j sg) =
      { extract env.model j sg with buffers := (extract env.model j sg).buffers.map (rnBuf (rho tbl tbl1)) } := by
    simp only [rnModel, extract, List.map_cons, List.map_nil, rnSg_noQuant _ sg hnq]
  obtain ⟨m1'', hrun, hview, hsigs⟩ := performer_local' (ptableOf tbl) env.model mm
    (rnModel (rho tbl tbl1) (extract env.model j sg)) tis j sg hsg hcodes
    (by rw [hE]; rfl) (by rw [hE]; rfl) (by rw [hE]; simp [extract]) (by rw [hE]; rfl) htg
  rw [← htis1', transformGraph_rn (ptableOf tbl) (ptableOf tbl1) hpt] at hrun
  obtain ⟨m1', hrun1, rfl⟩ := map_ok _ _ _ hrun
  refine ⟨m1', tbl1, rho tbl tbl1, ?_, hinj, ?_, hview, hsigs⟩
  · rw [hgen1]
    show (Perform.modify (ptableOf (absReqs (restrictCReqs reqs sg)).1) (extractEnv env j sg).model
      (absReqs (restrictCReqs reqs sg)).2 >>= fun m' => pure (m', (absReqs (restrictCReqs reqs sg)).1)) = _
    rw [htbl1, hareqs1]
    unfold Perform.modify
    have : (extractEnv env j sg).model = extract env.model j sg := rfl
    rw [this, htis1]
    show (transformGraph (ptableOf tbl1) (extract env.model j sg) tis1 >>= fun m' => pure (m', tbl1)) = _
    rw [hrun1]
    rfl
  · intro i P hi
    exact rho_eqv tbl tbl1 hfound i P hi

/-- **C19, end to end, without sharing**: when no constant buffer of subgraph `j` is shared with another
    subgraph, the success of the big run alone implies everything. -/
theorem quantize_local_noShare (rx : String → String → Bool) (env : Env) (st : Recipe.State) (qsvs : Option Qsvs)
    (j : Nat) (sg : Subgraph) (hsg : env.model.subgraphs[j]? = some sg)
    (hcodes : ∀ o ∈ sg.ops, o.code < env.model.opcodes.length) (hshare : NoCrossShare env.model j sg)
    (m' : Model) (tbl : List Param) (h : quantizePure rx env st qsvs = .ok (m', tbl)) :
    ∃ (m1' : Model) (tbl1 : List Param) (ρ : PId → PId),
      quantizePure rx (extractEnv env j sg) st qsvs = .ok (m1', tbl1) ∧
      Function.Injective ρ ∧
      (∀ i P, tbl1[i]? = some P → ∃ Q, tbl[ρ i]? = some Q ∧ Q.eqv P = true) ∧
      view m' j = view (rnModel ρ m1') 0 ∧ sigsOf m' j = m1'.sigs := by
  have h0 := h
  rw [quantizePure_eq] at h0
  by_cases hc : (Recipe.getRecipe st).isEmpty = true
  · rw [if_pos hc] at h0; cases h0
  rw [if_neg hc] at h0
  obtain ⟨reqs, hgen, _⟩ := GraphInv.bind_ok _ _ _ h0
  exact quantize_local rx env st qsvs j sg hsg hcodes m' tbl h _
    (generate_local_noShare rx env st qsvs j sg hsg hshare reqs hgen)

end Locality
