import QProofs.Rounding
/-!
# Monotonicity of the model's rounding operator
-/
open Num

namespace Rounding

theorem two_zpow_pos (e : Int) : (0:Rat) < (2:Rat)^e := zpow_pos (by norm_num) _

theorem flog2_mono {x y : Rat} (hx : 0 < x) (hxy : x ≤ y) : flog2 x ≤ flog2 y := by
  obtain ⟨hx1, _⟩ := flog2_spec x hx
  obtain ⟨_, hy2⟩ := flog2_spec y (lt_of_lt_of_le hx hxy)
  have h : (2:Rat)^(flog2 x) < (2:Rat)^(flog2 y + 1) := lt_of_le_of_lt hx1 (lt_of_le_of_lt hxy hy2)
  have := (zpow_lt_zpow_iff_right₀ (by norm_num : (1:Rat) < 2)).mp h
  omega

/-- `rhe` of `2^k` (k ≥ 0) is exact -/
theorem rhe_two_pow (k : Nat) : rhe ((2:Rat)^k) = (2:Int)^k := by
  have : ((2:Rat)^k) = (((2:Int)^k : Int) : Rat) := by push_cast; rfl
  rw [this, rhe_int]

/-- claim A: the rounded value does not leave the (clamped) binade upwards -/
theorem rnPos_le_top (p : Nat) (hp : 1 ≤ p) (emin : Int) (x : Rat) (hx : 0 < x) :
    rnPos p emin x ≤ (2:Rat)^(max (flog2 x) emin + 1) := by
  obtain ⟨_, hhi⟩ := flog2_spec x hx
  set e := max (flog2 x) emin with he
  have hxe : x ≤ (2:Rat)^(e + 1) := by
    have : (2:Rat)^(flog2 x + 1) ≤ (2:Rat)^(e + 1) :=
      zpow_le_zpow_right₀ (by norm_num) (by have := le_max_left (flog2 x) emin; omega)
    linarith
  unfold rnPos
  simp only [← he]
  set q : Rat := (2:Rat)^(e - ((p:Int) - 1)) with hq
  have hqpos : 0 < q := two_zpow_pos _
  have hdiv : (2:Rat)^(e+1) / q = (2:Rat)^p := by
    rw [hq, ← zpow_sub₀ (by norm_num), ← zpow_natCast]; congr 1; ring
  have h1 : x / q ≤ (2:Rat)^p := by
    rw [← hdiv]; exact div_le_div_of_nonneg_right hxe (le_of_lt hqpos)
  have h2 : rhe (x / q) ≤ (2:Int)^p := by
    have := rhe_mono h1; rwa [rhe_two_pow] at this
  have h3 : ((rhe (x / q) : Int) : Rat) ≤ (2:Rat)^p := by exact_mod_cast h2
  calc ((rhe (x / q) : Int) : Rat) * q ≤ (2:Rat)^p * q := mul_le_mul_of_nonneg_right h3 (le_of_lt hqpos)
    _ = (2:Rat)^(e+1) := by rw [← hdiv]; field_simp

/-- claim B: in the normal range the rounded value does not leave the binade downwards -/
theorem rnPos_ge_bot (p : Nat) (hp : 1 ≤ p) (emin : Int) (x : Rat) (hx : 0 < x)
    (hn : emin ≤ flog2 x) : (2:Rat)^(flog2 x) ≤ rnPos p emin x := by
  obtain ⟨hlo, _⟩ := flog2_spec x hx
  unfold rnPos
  simp only [max_eq_left hn]
  set q : Rat := (2:Rat)^(flog2 x - ((p:Int) - 1)) with hq
  have hqpos : 0 < q := two_zpow_pos _
  have hdiv : (2:Rat)^(flog2 x) / q = (2:Rat)^(p-1) := by
    rw [hq, ← zpow_sub₀ (by norm_num), ← zpow_natCast]; congr 1
    have : ((p - 1 : Nat) : Int) = (p:Int) - 1 := by omega
    rw [this]; ring
  have h1 : (2:Rat)^(p-1) ≤ x / q := by
    rw [← hdiv]; exact div_le_div_of_nonneg_right hlo (le_of_lt hqpos)
  have h2 : (2:Int)^(p-1) ≤ rhe (x / q) := by
    have := rhe_mono h1; rwa [rhe_two_pow] at this
  have h3 : (2:Rat)^(p-1) ≤ ((rhe (x / q) : Int) : Rat) := by exact_mod_cast h2
  calc (2:Rat)^(flog2 x) = (2:Rat)^(p-1) * q := by rw [← hdiv]; field_simp
    _ ≤ ((rhe (x / q) : Int) : Rat) * q := mul_le_mul_of_nonneg_right h3 (le_of_lt hqpos)

theorem rnPos_mono (p : Nat) (hp : 1 ≤ p) (emin : Int) {x y : Rat} (hx : 0 < x) (hxy : x ≤ y) :
    rnPos p emin x ≤ rnPos p emin y := by
  have hy : 0 < y := lt_of_lt_of_le hx hxy
  have hf := flog2_mono hx hxy
  by_cases heq : max (flog2 x) emin = max (flog2 y) emin
  · unfold rnPos
    simp only [heq]
    have hqpos : (0:Rat) < (2:Rat)^(max (flog2 y) emin - ((p:Int) - 1)) := two_zpow_pos _
    apply mul_le_mul_of_nonneg_right _ (le_of_lt hqpos)
    have := rhe_mono (div_le_div_of_nonneg_right hxy (le_of_lt hqpos))
    exact_mod_cast this
  · have hlt : max (flog2 x) emin < max (flog2 y) emin := by
      have : max (flog2 x) emin ≤ max (flog2 y) emin := max_le_max hf (le_refl _)
      omega
    have hyn : emin ≤ flog2 y := by
      by_contra hc
      have h1 : max (flog2 y) emin = emin := max_eq_right (by omega)
      have h2 : emin ≤ max (flog2 x) emin := le_max_right _ _
      omega
    have hye : max (flog2 y) emin = flog2 y := max_eq_left hyn
    calc rnPos p emin x ≤ (2:Rat)^(max (flog2 x) emin + 1) := rnPos_le_top p hp emin x hx
      _ ≤ (2:Rat)^(flog2 y) := zpow_le_zpow_right₀ (by norm_num) (by omega)
      _ ≤ rnPos p emin y := rnPos_ge_bot p hp emin y hy hyn

theorem rn_mono (p : Nat) (hp : 1 ≤ p) (emin : Int) {x y : Rat} (hxy : x ≤ y) :
    rn p emin x ≤ rn p emin y := by
  rcases lt_trichotomy x 0 with hx | hx | hx
  · rcases lt_trichotomy y 0 with hy | hy | hy
    · -- both negative
      have h := rnPos_mono p hp emin (x := -y) (y := -x) (by linarith) (by linarith)
      unfold rn
      rw [if_neg (ne_of_lt hx), if_neg (not_lt.mpr (le_of_lt hx)),
          if_neg (ne_of_lt hy), if_neg (not_lt.mpr (le_of_lt hy))]
      linarith
    · subst hy
      have := rn_nonpos p emin x (le_of_lt hx)
      have h0 : rn p emin 0 = 0 := by simp [rn]
      rw [h0]; exact this
    · have h1 := rn_nonpos p emin x (le_of_lt hx)
      have h2 := rn_nonneg p emin y (le_of_lt hy)
      linarith
  · subst hx
    have h0 : rn p emin 0 = 0 := by simp [rn]
    rw [h0]; exact rn_nonneg p emin y hxy
  · have hy : 0 < y := lt_of_lt_of_le hx hxy
    unfold rn
    rw [if_neg (ne_of_gt hx), if_pos hx, if_neg (ne_of_gt hy), if_pos hy]
    exact rnPos_mono p hp emin hx hxy

/-- integers below `2^p` (in absolute value) are exactly representable -/
theorem rnPos_nat_exact (p : Nat) (emin : Int) (hemin : emin ≤ (p:Int) - 1) (n : Nat) (hn0 : 0 < n)
    (hn : n < 2^p) : rnPos p emin (n : Rat) = n := by
  have hx : (0:Rat) < n := by exact_mod_cast hn0
  obtain ⟨hlo, _⟩ := flog2_spec (n:Rat) hx
  have hfl : flog2 (n:Rat) ≤ (p:Int) - 1 := by
    by_contra hc
    have h1 : (2:Rat)^(p:Int) ≤ (2:Rat)^(flog2 (n:Rat)) := zpow_le_zpow_right₀ (by norm_num) (by omega)
    have h2 : ((n:Rat)) < (2:Rat)^(p:Int) := by rw [zpow_natCast]; exact_mod_cast hn
    linarith
  unfold rnPos
  simp only []
  set e := max (flog2 (n:Rat)) emin with he
  have hek : e ≤ (p:Int) - 1 := max_le hfl hemin
  obtain ⟨k, hk⟩ : ∃ k : Nat, (k:Int) = (p:Int) - 1 - e := ⟨((p:Int) - 1 - e).toNat, by omega⟩
  have hq : (2:Rat)^(e - ((p:Int) - 1)) = ((2:Rat)^k)⁻¹ := by
    rw [← zpow_natCast, ← zpow_neg]; congr 1; omega
  rw [hq]
  have hdiv : (n:Rat) / ((2:Rat)^k)⁻¹ = (((n * 2^k : Nat) : Int) : Rat) := by
    rw [div_inv_eq_mul]; push_cast; ring
  rw [hdiv, rhe_int]
  push_cast
  have : ((2:Rat)^k) ≠ 0 := by positivity
  field_simp

end Rounding
