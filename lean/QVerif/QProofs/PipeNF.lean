import QModel.Materialize
/-!
# Operand-slot roles of the registered materialisation functions

The materialisation treats the operand slots of some operators differently *by position*:
* **index slots** (shape / axis / index operands): always left alone (`noQuantReq`), whatever the
  tensor is;
* the **bias slot** of the convolution-like operators: handled by `biasFor` (min-max) resp. left
  alone (float casting);
* every other slot is **regular**: the request is a function of the tensor only (`wrapper`, or
  `noQuantReq` for non-float32 tensors).
These tables restate, per operator name, the position lists hard-coded in `Mat.materializeOp`
(`[2]`, `[0, 3]`, `[0]`, `[1]`, `[1, 2, 3]`, `biasFor … 0 1 2`, `floatCastOp … 2 1 3`, …).
-/

namespace PipeNF

/-- operand positions that are ignored by position -/
def indexSlots (k : String) : List Nat :=
  if k = "STRIDED_SLICE" then [1, 2, 3]
  else if k = "MEAN" ∨ k = "RESHAPE" ∨ k = "TRANSPOSE" then [1]
  else if k = "CONV_2D_TRANSPOSE" ∨ k = "EMBEDDING_LOOKUP" ∨ k = "SPLIT" then [0]
  else []

/-- the bias position of the convolution-like operators (= the operators registered for float
    casting; EMBEDDING_LOOKUP shares the FULLY_CONNECTED code path there, so a third operand would
    be treated as a bias) -/
def biasSlot (k : String) : Option Nat :=
  if k = "CONV_2D_TRANSPOSE" then some 3
  else if k = "FULLY_CONNECTED" ∨ k = "CONV_2D" ∨ k = "DEPTHWISE_CONV_2D" ∨ k = "EMBEDDING_LOOKUP" then some 2
  else none

/-- the data-operand position of the convolution-like operators (the weight is at position 1) -/
def dataSlot (k : String) : Nat := if k = "CONV_2D_TRANSPOSE" then 2 else 0

/-- 0 = regular, 1 = index, 2 = bias -/
def slotRole (k : String) (i : Nat) : Nat :=
  if i ∈ indexSlots k then 1 else if biasSlot k = some i then 2 else 0

/-- operator `op` of model `m` is named `k` in the quantizer's operator table -/
def OpNamed (m : Graph.Model) (op : Graph.Op) (k : String) : Prop :=
  ∃ code, m.opcodes[op.code]? = some code ∧ Mat.opNameOfCode code = some k

end PipeNF
