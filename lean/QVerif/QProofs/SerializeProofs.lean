import QModel.Serialize
/-!
# Large-model serialisation: the external constants are where the offsets say (C16)

Fully proved (no `sorry`, no new axioms, no `native_decide`).

Proof structure:
* `pad`, `offsAux`, `fieldsAux`: structurally recursive reformulations of the `foldl`s of the model
  (`offsets_eq`, `fields_eq`);
* `fieldsAux_isSome`: the `isSome` pattern of the fields depends only on the *length* of the offset
  list, hence (with `LenInvariant`) the final flatbuffer is as long as the dummy (`final_length`);
* `appendConsts_layout`: joint description of `appendConsts`/`offsAux` by induction over the
  constants with a generalised, 16-aligned, starting byte list;
* `fieldsAux_index`: buffer `i` (non-empty) is the `k`-th external constant and its field is `offs[k]?`.
-/
open Ser

namespace SerializeProofs

/-- the writer's output length does not depend on the *values* of the offset/size fields, only on
    which buffers have them (true of the flatbuffers writer as long as no real field value equals the
    default 0, which is why empty buffers are not externalised) -/
def LenInvariant (fb : List (Option (Nat × Nat)) → List Nat) : Prop :=
  ∀ f g : List (Option (Nat × Nat)), f.map Option.isSome = g.map Option.isSome → (fb f).length = (fb g).length

/-! ## rounding up to a multiple of 16 -/

/-- `n` rounded up to a multiple of 16 (the local `pad` of `Ser.offsets`) -/
def pad (n : Nat) : Nat := n + (16 - n % 16) % 16

theorem pad_mod (n : Nat) : pad n % 16 = 0 := by unfold pad; omega

theorem le_pad (n : Nat) : n ≤ pad n := by unfold pad; omega

theorem pad16_length (l : List Nat) : (pad16 l).length = pad l.length := by
  simp [pad16, pad]

/-! ## recursive form of `offsets` -/

def offsAux (start : Nat) : List Nat → List (Nat × Nat)
  | [] => []
  | s :: rest => (start, s) :: offsAux (pad (start + s)) rest

theorem offsets_foldl : ∀ (sizes : List Nat) (st : Nat) (acc : List (Nat × Nat)),
    (sizes.foldl (fun (st : Nat × List (Nat × Nat)) s => (pad (st.1 + s), st.2 ++ [(st.1, s)]))
      (st, acc)).2 = acc ++ offsAux st sizes
  | [], st, acc => by simp [offsAux]
  | s :: rest, st, acc => by
    rw [List.foldl_cons, offsets_foldl rest]
    simp [offsAux]

theorem offsets_eq (d : Nat) (sizes : List Nat) : offsets d sizes = offsAux (pad d) sizes := by
  have h := offsets_foldl sizes (pad d) []
  rw [List.nil_append] at h
  exact h

theorem offsAux_length : ∀ (sizes : List Nat) (st : Nat), (offsAux st sizes).length = sizes.length
  | [], _ => rfl
  | _ :: rest, st => by simp [offsAux, offsAux_length rest]

theorem offsAux_head (st : Nat) (sizes : List Nat) (o s : Nat)
    (h : (offsAux st sizes)[0]? = some (o, s)) : o = st := by
  cases sizes with
  | nil => simp [offsAux] at h
  | cons a rest =>
    simp [offsAux] at h
    exact h.1.symm

/-! ## recursive form of `fields` -/

def fieldsAux : List (Option (List Nat)) → List (Nat × Nat) → List (Option (Nat × Nat))
  | [], _ => []
  | none :: rest, offs => none :: fieldsAux rest offs
  | some d :: rest, offs =>
    if d.isEmpty then none :: fieldsAux rest offs else offs.head? :: fieldsAux rest offs.tail

theorem fields_foldl : ∀ (bufs : List (Option (List Nat))) (offs : List (Nat × Nat))
    (acc : List (Option (Nat × Nat))),
    (bufs.foldl (fun (st : List (Nat × Nat) × List (Option (Nat × Nat))) b =>
      match b with
      | some d => if d.isEmpty then (st.1, st.2 ++ [none])
                  else (st.1.tail, st.2 ++ [st.1.head?])
      | none => (st.1, st.2 ++ [none])) (offs, acc)).2 = acc ++ fieldsAux bufs offs
  | [], offs, acc => by simp [fieldsAux]
  | none :: rest, offs, acc => by
    rw [List.foldl_cons]
    simp only []
    rw [fields_foldl rest]
    simp [fieldsAux]
  | some d :: rest, offs, acc => by
    rw [List.foldl_cons]
    by_cases hd : d.isEmpty
    · simp only [hd, if_true]
      rw [fields_foldl rest]
      simp [fieldsAux, hd]
    · simp only [hd]
      rw [fields_foldl rest]
      simp [fieldsAux, hd]

theorem fields_eq (bufs : List (Option (List Nat))) (offs : List (Nat × Nat)) :
    fields bufs offs = fieldsAux bufs offs := by
  have h := fields_foldl bufs offs []
  rw [List.nil_append] at h
  exact h

/-- the `isSome` pattern depends only on the number of offsets available -/
theorem fieldsAux_isSome : ∀ (bufs : List (Option (List Nat))) (o o' : List (Nat × Nat)),
    o.length = o'.length →
    (fieldsAux bufs o).map Option.isSome = (fieldsAux bufs o').map Option.isSome
  | [], _, _, _ => rfl
  | none :: rest, o, o', h => by
    simp only [fieldsAux, List.map_cons, fieldsAux_isSome rest o o' h]
  | some d :: rest, o, o', h => by
    have ht : o.tail.length = o'.tail.length := by simp [h]
    have hh : o.head?.isSome = o'.head?.isSome := by
      cases o <;> cases o' <;> simp_all
    by_cases hd : d.isEmpty
    · simp only [fieldsAux, hd, if_true, List.map_cons, fieldsAux_isSome rest o o' h]
    · have := fieldsAux_isSome rest _ _ ht
      simp [fieldsAux, hd, hh, this]

theorem external_nil : external [] = [] := rfl

theorem external_none (rest : List (Option (List Nat))) : external (none :: rest) = external rest := by
  simp [external]

theorem external_some (d : List Nat) (rest : List (Option (List Nat))) :
    external (some d :: rest) = if d.isEmpty then external rest else d :: external rest := by
  by_cases hd : d = []
  · subst hd; simp [external]
  · simp [external, hd]

/-- buffer `i` with non-empty data `d` is some `k`-th external constant and its field is `offs[k]?` -/
theorem fieldsAux_index : ∀ (bufs : List (Option (List Nat))) (offs : List (Nat × Nat)) (i : Nat)
    (d : List Nat), bufs[i]? = some (some d) → d ≠ [] →
    ∃ k : Nat, (external bufs)[k]? = some d ∧ (fieldsAux bufs offs)[i]? = some (offs[k]?)
  | [], _, _, _, h, _ => by simp at h
  | none :: rest, offs, 0, d, h, _ => by simp at h
  | none :: rest, offs, i + 1, d, h, hne => by
    have h' : rest[i]? = some (some d) := by simpa using h
    obtain ⟨k, hk1, hk2⟩ := fieldsAux_index rest offs i d h' hne
    exact ⟨k, by rw [external_none]; exact hk1, by simpa [fieldsAux] using hk2⟩
  | some d0 :: rest, offs, 0, d, h, hne => by
    have h' : d0 = d := by simpa using h
    subst h'
    have hd : d0.isEmpty = false := by
      cases d0 with
      | nil => exact absurd rfl hne
      | cons _ _ => rfl
    refine ⟨0, ?_, ?_⟩
    · rw [external_some]; simp [hd]
    · simp [fieldsAux, hd, List.head?_eq_getElem?]
  | some d0 :: rest, offs, i + 1, d, h, hne => by
    have h' : rest[i]? = some (some d) := by simpa using h
    by_cases hd : d0.isEmpty
    · obtain ⟨k, hk1, hk2⟩ := fieldsAux_index rest offs i d h' hne
      refine ⟨k, ?_, ?_⟩
      · rw [external_some]; simpa [hd] using hk1
      · simpa [fieldsAux, hd] using hk2
    · obtain ⟨k, hk1, hk2⟩ := fieldsAux_index rest offs.tail i d h' hne
      refine ⟨k + 1, ?_, ?_⟩
      · rw [external_some]; simpa [hd] using hk1
      · simpa [fieldsAux, hd] using hk2

/-! ## `appendConsts` -/

theorem appendConsts_cons (b c : List Nat) (cs : List (List Nat)) :
    appendConsts b (c :: cs) = appendConsts (pad16 (b ++ c)) cs := rfl

theorem appendConsts_prefix : ∀ (cs : List (List Nat)) (b : List Nat),
    ∃ rest, appendConsts b cs = b ++ rest
  | [], b => ⟨[], by simp [appendConsts]⟩
  | c :: cs, b => by
    obtain ⟨r, hr⟩ := appendConsts_prefix cs (pad16 (b ++ c))
    refine ⟨c ++ List.replicate ((16 - (b ++ c).length % 16) % 16) 0 ++ r, ?_⟩
    rw [appendConsts_cons, hr]
    simp [pad16]

theorem appendConsts_layout : ∀ (cs : List (List Nat)) (b : List Nat), b.length % 16 = 0 →
    ∀ k c off size, cs[k]? = some c →
      (offsAux b.length (cs.map (·.length)))[k]? = some (off, size) →
      size = c.length ∧ off % 16 = 0 ∧ b.length ≤ off ∧
      off + size ≤ (appendConsts b cs).length ∧ slice (appendConsts b cs) off size = c ∧
      (∀ off' size', (offsAux b.length (cs.map (·.length)))[k+1]? = some (off', size') →
        off + size ≤ off')
  | [], _, _, k, c, off, size, hc, _ => by simp at hc
  | c0 :: cs, b, hb, 0, c, off, size, hc, ho => by
    have hc' : c0 = c := by simpa using hc
    subst hc'
    simp only [List.map_cons, offsAux, List.getElem?_cons_zero, Option.some.injEq,
      Prod.mk.injEq] at ho
    obtain ⟨rfl, rfl⟩ := ho
    obtain ⟨r, hr⟩ := appendConsts_prefix cs (pad16 (b ++ c0))
    have hout : appendConsts b (c0 :: cs)
        = b ++ (c0 ++ (List.replicate ((16 - (b ++ c0).length % 16) % 16) 0 ++ r)) := by
      rw [appendConsts_cons, hr]; simp [pad16]
    refine ⟨rfl, hb, Nat.le_refl _, ?_, ?_, ?_⟩
    · rw [hout]; simp only [List.length_append]; omega
    · rw [hout, slice, List.drop_left, List.take_left]
    · intro off' size' h
      simp only [List.map_cons, offsAux, List.getElem?_cons_succ] at h
      have := offsAux_head _ _ _ _ h
      rw [this]
      exact le_pad _
  | c0 :: cs, b, hb, k + 1, c, off, size, hc, ho => by
    have hb' : (pad16 (b ++ c0)).length = pad (b.length + c0.length) := by
      rw [pad16_length, List.length_append]
    have hc' : cs[k]? = some c := by simpa using hc
    have ih := appendConsts_layout cs (pad16 (b ++ c0)) (by rw [hb']; exact pad_mod _) k c off size hc'
    rw [hb'] at ih
    simp only [List.map_cons, offsAux, List.getElem?_cons_succ] at ho ⊢
    obtain ⟨h1, h2, h3, h4, h5, h6⟩ := ih ho
    rw [appendConsts_cons]
    refine ⟨h1, h2, ?_, h4, h5, h6⟩
    have := le_pad (b.length + c0.length)
    omega

/-! ## the two theorems -/

/-- with `LenInvariant` the final flatbuffer is exactly as long as the dummy one -/
theorem final_length (fb : List (Option (Nat × Nat)) → List Nat) (hfb : LenInvariant fb)
    (bufs : List (Option (List Nat))) (offs : List (Nat × Nat))
    (hlen : offs.length = (external bufs).length) :
    (fb (fields bufs offs)).length
      = (fb (fields bufs ((external bufs).map fun _ => (1, 1)))).length := by
  apply hfb
  rw [fields_eq, fields_eq]
  apply fieldsAux_isSome
  simp [hlen]

/-- **layout theorem**: under `LenInvariant`, for the k-th external constant `c` with recorded
    field `(off, size)`: `size = |c|`, `off` is 16-byte aligned, lies behind the flatbuffer, the
    slice is in bounds and is exactly `c`; consecutive constants do not overlap -/
theorem layout (fb : List (Option (Nat × Nat)) → List Nat) (hfb : LenInvariant fb)
    (bufs : List (Option (List Nat))) :
    let ext := external bufs
    let dummyLen := (fb (fields bufs (ext.map fun _ => (1, 1)))).length
    let offs := offsets dummyLen (ext.map (·.length))
    let out := serializeLarge fb bufs
    offs.length = ext.length ∧
    ∀ k c off size, ext[k]? = some c → offs[k]? = some (off, size) →
      size = c.length ∧ off % 16 = 0 ∧ dummyLen ≤ off ∧ off + size ≤ out.length ∧ slice out off size = c ∧
      (∀ off' size', offs[k+1]? = some (off', size') → off + size ≤ off') := by
  intro ext dummyLen offs out
  have hlen : offs.length = ext.length := by
    show (offsets dummyLen (ext.map (·.length))).length = ext.length
    rw [offsets_eq, offsAux_length, List.length_map]
  refine ⟨hlen, ?_⟩
  intro k c off size hc ho
  have hF : (fb (fields bufs offs)).length = dummyLen := final_length fb hfb bufs offs hlen
  have hP : (pad16 (fb (fields bufs offs))).length = pad dummyLen := by
    rw [pad16_length, hF]
  have hoffs : offs = offsAux (pad16 (fb (fields bufs offs))).length (ext.map (·.length)) := by
    rw [hP]; exact offsets_eq _ _
  have hout : out = appendConsts (pad16 (fb (fields bufs offs))) ext := rfl
  have key := appendConsts_layout ext (pad16 (fb (fields bufs offs)))
    (by rw [hP]; exact pad_mod _) k c off size hc (by rw [← hoffs]; exact ho)
  rw [← hoffs, ← hout, hP] at key
  obtain ⟨h1, h2, h3, h4, h5, h6⟩ := key
  refine ⟨h1, h2, ?_, h4, h5, h6⟩
  have := le_pad dummyLen
  omega

/-- the per-buffer fields of the final flatbuffer point each externalised buffer at its own data -/
theorem fields_point_to_data (fb : List (Option (Nat × Nat)) → List Nat) (hfb : LenInvariant fb)
    (bufs : List (Option (List Nat))) (i : Nat) (d : List Nat) (hd : bufs[i]? = some (some d)) (hne : d ≠ []) :
    let ext := external bufs
    let dummyLen := (fb (fields bufs (ext.map fun _ => (1, 1)))).length
    let offs := offsets dummyLen (ext.map (·.length))
    ∃ off, (fields bufs offs)[i]? = some (some (off, d.length)) ∧ slice (serializeLarge fb bufs) off d.length = d := by
  intro ext dummyLen offs
  obtain ⟨hlen, hlay⟩ := layout fb hfb bufs
  obtain ⟨k, hk1, hk2⟩ := fieldsAux_index bufs offs i d hd hne
  have hk : k < offs.length := by
    have hlen' : offs.length = ext.length := hlen
    rw [hlen']
    have := List.getElem?_eq_some_iff.mp hk1
    exact this.1
  obtain ⟨⟨off, size⟩, hos⟩ : ∃ p, offs[k]? = some p := ⟨offs[k], List.getElem?_eq_getElem hk⟩
  obtain ⟨h1, _, _, _, h5, _⟩ := hlay k d off size hk1 hos
  subst h1
  refine ⟨off, ?_, h5⟩
  rw [fields_eq, hk2, hos]

end SerializeProofs
