import QProofs.LocalityCompat
/-!
# C19 — `generate` never gives a constant tensor an `add_quant` side

Every request side built by the materialisation stage has a singleton transformation list, and the
transformation is `add_quant` only for a tensor WITHOUT constant data (`tensorXfs` is called with the
tensor's own constness, the bias path never yields `add_quant`).  The property is carried through
`updateResults` into the result dictionary (`generateCore_shape`), and specialises to `RNoAQ` for the
requests of tensors over constant buffers (`dshape_const`).
-/
open Graph Mat Cfg Pipe

namespace Locality

/-- shape of one request side for the tensor named `n` of `sg` -/
def OShape (env : Env) (sg : Subgraph) (n : String) (o : CO2T) : Prop :=
  ∃ x, o.xfs = [x] ∧ (x = .addQuant → ∃ t ∈ sg.tensors, t.name = n ∧ (constData env t).isSome = false)

def RShape (env : Env) (sg : Subgraph) (r : CReq) : Prop := ∀ o ∈ allO r, OShape env sg r.name o

/-- a property of all requests of a successful run -/
def AllReqs (P : CReq → Prop) (x : PyM (List CReq × Qsvs)) : Prop := ∀ rs q, x = .ok (rs, q) → ∀ r ∈ rs, P r

theorem tensorXfs_shape (c : OpCfg) (inbound isC : Bool) (xfs : List Xf) (h : tensorXfs c inbound isC = .ok xfs) :
    ∃ x, xfs = [x] ∧ (x = .addQuant → isC = false) := by
  unfold tensorXfs at h
  cases inbound <;> cases isC <;> simp only [Bool.and_false, Bool.and_true, Bool.false_eq_true, if_false, if_true] at h <;>
    (repeat' split at h) <;> cases h <;> exact ⟨_, rfl, by simp⟩

theorem tensorXfs_bias (c : OpCfg) (xfs : List Xf) (h : tensorXfs c true (isSRQ c) = .ok xfs) :
    ∃ x, xfs = [x] ∧ x ≠ .addQuant := by
  unfold tensorXfs at h
  by_cases hs : (c.cp == CP.integer && c.act.isSome) = true
  · have : isSRQ c = true := hs
    rw [this] at h
    simp only [hs, if_true] at h
    cases h
    exact ⟨_, rfl, by simp⟩
  · have : isSRQ c = false := by simpa [isSRQ] using hs
    rw [this] at h
    simp only [hs, Bool.and_false, Bool.false_eq_true, if_false] at h
    (repeat' split at h) <;> cases h <;> exact ⟨_, rfl, by simp⟩

theorem allO_noQuantReq (n : String) (o : Int) (b : Bool) : allO (noQuantReq n o b) = [⟨o, [.noQuant], none⟩] := by
  cases b <;> rfl

theorem rshape_noQuantReq (env : Env) (sg : Subgraph) (n : String) (o : Int) (b : Bool) :
    RShape env sg (noQuantReq n o b) := by
  intro c hc
  rw [allO_noQuantReq, List.mem_singleton] at hc
  subst hc
  exact ⟨.noQuant, rfl, by simp⟩

theorem mkReq_allO (n : String) (oi : OpInfo) (b : Bool) (p : Option Param) (isC : Bool) (r : CReq)
    (h : mkReq n oi b p isC = .ok r) :
    ∃ xfs, tensorXfs oi.cfg b isC = .ok xfs ∧ allO r = [⟨oi.opId, xfs, p⟩] := by
  obtain ⟨xfs, hx, hr⟩ := mkReq_spec n oi b p isC r h
  refine ⟨xfs, hx, ?_⟩
  subst hr
  cases b <;> rfl

theorem wrapper_rshape (env : Env) (sg : Subgraph) (qs : Qsvs) (oi : OpInfo) (t : Tensor) (ht : t ∈ sg.tensors)
    (b : Bool) (g : Option Param) (r : CReq) (h : wrapper env qs oi t b g = .ok r) : RShape env sg r := by
  obtain ⟨p, hp⟩ := wrapper_mkReq env qs oi t b g r h
  obtain ⟨xfs, hx, hall⟩ := mkReq_allO _ _ _ _ _ _ hp
  obtain ⟨x, rfl, hxa⟩ := tensorXfs_shape _ _ _ _ hx
  intro o ho
  rw [hall, List.mem_singleton] at ho
  subst ho
  exact ⟨x, rfl, fun hq => ⟨t, ht, (mkReq_name _ _ _ _ _ _ hp).symm, hxa hq⟩⟩

theorem standardOp_rshape (env : Env) (sg : Subgraph) (qs : Qsvs) (oi : OpInfo) (con : Constraint)
    (gIn gOut : List Nat) : AllReqs (RShape env sg) (standardOp env sg qs oi con gIn gOut) := by
  intro rs q h
  obtain ⟨inIgn, outIgn, rin, rout, g, gO, _, _, hrs, hin, hout, _, _⟩ :=
    standardOp_shape env sg qs oi con gIn gOut rs q h
  have key : ∀ (b : Bool) (ign : List Nat) (g : Option Param) (p : Int × Nat) (r : CReq),
      SlotReq env sg qs oi b ign g p r → RShape env sg r := by
    intro b ign g p r hs
    obtain ⟨t, ht, hr⟩ := hs
    split at hr
    · rw [hr]; exact rshape_noQuantReq env sg _ _ _
    · exact wrapper_rshape env sg qs oi t (tensorAt_mem sg p.1 t ht) b g r hr
  intro r hr
  rw [hrs] at hr
  rcases List.mem_append.1 hr with hr | hr
  · obtain ⟨p, _, hp⟩ := hin.mem_right hr
    exact key _ _ _ _ _ hp
  · obtain ⟨p, _, hp⟩ := hout.mem_right hr
    exact key _ _ _ _ _ hp

theorem noQuantOp_rshape (env : Env) (sg : Subgraph) (op : Op) (opId : Int) (rs : List CReq)
    (h : noQuantOp sg op opId = .ok rs) : ∀ r ∈ rs, RShape env sg r := by
  unfold noQuantOp at h
  obtain ⟨ins, hins, h⟩ := GraphInv.bind_ok _ _ _ h
  obtain ⟨outs, houts, h⟩ := GraphInv.bind_ok _ _ _ h
  simp only [pure, Except.pure, Except.ok.injEq] at h
  subst h
  intro r hr
  rcases List.mem_append.1 hr with hr | hr
  · obtain ⟨a, _, hf⟩ := GraphFrame.mapM_ok _ _ _ hins r hr
    obtain ⟨t, ht, hf⟩ := GraphInv.bind_ok _ _ _ hf
    simp only [pure, Except.pure, Except.ok.injEq] at hf
    rw [← hf]; exact rshape_noQuantReq env sg _ _ _
  · obtain ⟨a, _, hf⟩ := GraphFrame.mapM_ok _ _ _ houts r hr
    obtain ⟨t, ht, hf⟩ := GraphInv.bind_ok _ _ _ hf
    simp only [pure, Except.pure, Except.ok.injEq] at hf
    rw [← hf]; exact rshape_noQuantReq env sg _ _ _

theorem biasFor_rshape (env : Env) (sg : Subgraph) (oi : OpInfo) (reqs rs : List CReq) (iIn iW iB : Nat)
    (hreqs : ∀ r ∈ reqs, RShape env sg r)
    (h : biasFor env sg oi reqs iIn iW iB = .ok rs) : ∀ r ∈ rs, RShape env sg r := by
  rcases biasFor_unfold env sg oi reqs rs iIn iW iB h with rfl | ⟨bslot, bt, bp, r, _, _, hbt, _, _, hmk, _, rfl⟩
  · exact hreqs
  · intro r' hr'
    rcases mem_set_cases _ _ _ _ hr' with h | ⟨j, _, hj⟩
    · subst h
      obtain ⟨xfs, hx, hall⟩ := mkReq_allO _ _ _ _ _ _ hmk
      obtain ⟨x, rfl, hxa⟩ := tensorXfs_bias _ _ hx
      intro o ho
      rw [hall, List.mem_singleton] at ho
      subst ho
      exact ⟨x, rfl, fun hq => absurd hq hxa⟩
    · exact hreqs r' (List.mem_of_getElem? hj)

theorem floatCastOp_rshape (env : Env) (sg : Subgraph) (oi : OpInfo) (iIn iW iB : Nat) (rs : List CReq)
    (h : floatCastOp env sg oi iIn iW iB = .ok rs) : ∀ r ∈ rs, RShape env sg r := by
  obtain ⟨sIn, sW, sOut, tin, tw, tout, wd, p, _, _, _, _, _, _, _, hrs⟩ :=
    floatCastOp_unfold env sg oi iIn iW iB rs h
  have hw : RShape env sg ⟨tw.name, none, some [(⟨oi.opId, [.addDequant], some p⟩ : CO2T)]⟩ := by
    intro o ho
    have : o = ⟨oi.opId, [.addDequant], some p⟩ := by simpa [allO] using ho
    subst this
    exact ⟨.addDequant, rfl, by simp⟩
  rcases hrs with rfl | ⟨b, tb, _, _, _, rfl⟩
  · intro r hr
    simp only [List.mem_cons, List.not_mem_nil, or_false] at hr
    rcases hr with rfl | rfl | rfl
    · exact rshape_noQuantReq env sg _ _ _
    · exact hw
    · exact rshape_noQuantReq env sg _ _ _
  · intro r hr
    simp only [List.cons_append, List.nil_append, List.mem_cons, List.not_mem_nil, or_false] at hr
    rcases hr with rfl | rfl | rfl | rfl
    · exact rshape_noQuantReq env sg _ _ _
    · exact hw
    · exact rshape_noQuantReq env sg _ _ _
    · exact rshape_noQuantReq env sg _ _ _

theorem fixPost_rshape (env : Env) (sg : Subgraph) (oi : OpInfo) (b : Bool) (reqs : List CReq) (q : Qsvs)
    (hreqs : ∀ r ∈ reqs, RShape env sg r) (rs : List CReq) (q' : Qsvs)
    (h : fixPost oi b (reqs, q) = .ok (rs, q')) : ∀ r ∈ rs, RShape env sg r := by
  unfold fixPost at h
  simp only [] at h
  split at h
  · rename_i last a hlast hact
    have hlastS : RShape env sg last := hreqs last (List.mem_of_getLast? hlast)
    split at h
    · simp only [pure, Except.pure, Except.ok.injEq, Prod.mk.injEq] at h
      obtain ⟨rfl, rfl⟩ := h
      exact hreqs
    · rename_i pr hpr
      split at h
      · cases h
      · rename_i fp hfp
        obtain ⟨mm, hmm, h⟩ := GraphInv.bind_ok _ _ _ h
        split at h
        · cases h
        · simp only [pure, Except.pure, Except.ok.injEq, Prod.mk.injEq] at h
          obtain ⟨rfl, rfl⟩ := h
          intro r hr
          rcases List.mem_append.1 hr with hr | hr
          · exact hreqs r (List.dropLast_subset _ hr)
          · rw [List.mem_singleton.1 hr]
            intro o ho
            simp only [allO, Option.toList_some, List.cons_append, List.nil_append, List.mem_cons] at ho
            rcases ho with rfl | ho
            · obtain ⟨x, hx, hxa⟩ := hlastS pr (mem_allO_prod hpr)
              exact ⟨x, hx, hxa⟩
            · exact hlastS o (by simp [allO, ho])
  · simp only [pure, Except.pure, Except.ok.injEq, Prod.mk.injEq] at h
    obtain ⟨rfl, rfl⟩ := h
    exact hreqs

theorem fixedRangeOp_rshape (env : Env) (sg : Subgraph) (qs : Qsvs) (oi : OpInfo) (b : Bool) :
    AllReqs (RShape env sg) (fixedRangeOp env sg qs oi b) := by
  intro rs q h
  rw [fixedRangeOp_eq] at h
  by_cases hc : oi.op.outputs.length ≠ 1
  · rw [if_pos hc] at h; cases h
  · rw [if_neg hc] at h
    obtain ⟨⟨reqs, q0⟩, hstd, h⟩ := GraphInv.bind_ok _ _ _ h
    exact fixPost_rshape env sg oi b reqs q0 (standardOp_rshape env sg qs oi .none [] [] reqs q0 hstd) rs q h

/-! ## the dispatch, for any property of requests -/

theorem AllReqs.ite {P : CReq → Prop} (c : Prop) [Decidable c] {a b : PyM (List CReq × Qsvs)}
    (h1 : c → AllReqs P a) (h2 : ¬ c → AllReqs P b) : AllReqs P (if c then a else b) := by
  by_cases hc : c
  · rw [if_pos hc]; exact h1 hc
  · rw [if_neg hc]; exact h2 hc

theorem AllReqs.error {P : CReq → Prop} (e : PyErr) : AllReqs P (.error e) := by
  intro rs q h; cases h

theorem AllReqs.pure_of {P : CReq → Prop} (x : PyM (List CReq)) (qs : Qsvs)
    (h : ∀ rs, x = .ok rs → ∀ r ∈ rs, P r) : AllReqs P (x >>= fun r => pure (r, qs)) := by
  intro rs q hx
  obtain ⟨r, hr, hx⟩ := GraphInv.bind_ok _ _ _ hx
  simp only [pure, Except.pure, Except.ok.injEq, Prod.mk.injEq] at hx
  obtain ⟨rfl, rfl⟩ := hx
  exact h r hr

theorem AllReqs.bindF {P : CReq → Prop} {x : PyM (List CReq × Qsvs)} (h : AllReqs P x)
    (F : List CReq × Qsvs → PyM (List CReq × Qsvs)) (f : List CReq → PyM (List CReq))
    (hF : ∀ r q, F (r, q) = (f r >>= fun r' => pure (r', q)))
    (hf : ∀ r r', (∀ a ∈ r, P a) → f r = .ok r' → ∀ a ∈ r', P a) : AllReqs P (x >>= F) := by
  intro rs q hx
  obtain ⟨⟨r0, q0⟩, hx0, hx⟩ := GraphInv.bind_ok _ _ _ hx
  rw [hF] at hx
  obtain ⟨r, hr, hx⟩ := GraphInv.bind_ok _ _ _ hx
  simp only [pure, Except.pure, Except.ok.injEq, Prod.mk.injEq] at hx
  obtain ⟨rfl, rfl⟩ := hx
  exact hf r0 r (h r0 q0 hx0) hr

theorem materializeOp_all (P : CReq → Prop) (env : Env) (sg : Subgraph) (qs : Qsvs) (oi : OpInfo) (alg fn : String)
    (std : ∀ con gi go, AllReqs P (standardOp env sg qs oi con gi go))
    (fix : ∀ b, AllReqs P (fixedRangeOp env sg qs oi b))
    (hfc : ∀ a b c rs, floatCastOp env sg oi a b c = .ok rs → ∀ r ∈ rs, P r)
    (hbias : ∀ r r' a b c, (∀ x ∈ r, P x) → biasFor env sg oi r a b c = .ok r' → ∀ x ∈ r', P x) :
    AllReqs P (materializeOp env sg qs oi alg fn) := by
  have fc : ∀ a b c, AllReqs P (floatCastOp env sg oi a b c >>= fun r => pure (r, qs)) :=
    fun a b c => AllReqs.pure_of _ _ (fun rs h => hfc a b c rs h)
  unfold materializeOp
  refine AllReqs.ite _ (fun _ => ?_) (fun _ => AllReqs.ite _ (fun _ => ?_) (fun _ => AllReqs.error _))
  · exact AllReqs.ite _ (fun _ => fc _ _ _) (fun _ => AllReqs.ite _ (fun _ => fc _ _ _) (fun _ => AllReqs.error _))
  · refine AllReqs.ite _ (fun _ => std _ _ _) (fun _ => ?_)
    refine AllReqs.ite _ (fun _ => std _ _ _) (fun _ => ?_)
    refine AllReqs.ite _ (fun _ => std _ _ _) (fun _ => ?_)
    refine AllReqs.ite _ (fun _ => std _ _ _) (fun _ => ?_)
    refine AllReqs.ite _ (fun _ => std _ _ _) (fun _ => ?_)
    refine AllReqs.ite _ (fun _ => std _ _ _) (fun _ => ?_)
    refine AllReqs.ite _ (fun _ => std _ _ _) (fun _ => ?_)
    refine AllReqs.ite _ (fun _ => std _ _ _) (fun _ => ?_)
    refine AllReqs.ite _ (fun _ => ?_) (fun _ => ?_)
    · exact (std _ _ _).bindF _ (fun r => biasFor env sg oi r 0 1 2) (fun r q => rfl)
        (fun r r' hr h => hbias r r' 0 1 2 hr h)
    refine AllReqs.ite _ (fun _ => ?_) (fun _ => ?_)
    · refine (std _ _ _).bindF _ (fun r => if r.length < 2 then throw .valueError else biasFor env sg oi r 2 1 3) ?_ ?_
      · intro r q
        by_cases hl : r.length < 2
        · simp only [hl, if_true]; rfl
        · simp only [hl, if_false]
      · intro r r' hr h
        by_cases hl : r.length < 2
        · rw [if_pos hl] at h; cases h
        · rw [if_neg hl] at h
          exact hbias r r' 2 1 3 hr h
    refine AllReqs.ite _ (fun _ => fix _) (fun _ => ?_)
    exact AllReqs.ite _ (fun _ => fix _) (fun _ => AllReqs.error _)

theorem opReqs_rshape (rx : String → String → Bool) (env : Env) (st : Recipe.State) (s : Nat) (sg : Subgraph)
    (qs : Qsvs) (q : Op × Option String × Int) : AllReqs (RShape env sg) (opReqs rx env st s sg qs q) := by
  have nq : AllReqs (RShape env sg)
      (match noQuantOp sg q.1 q.2.2 with | .error e => .error e | .ok r => .ok (r, qs)) := by
    intro rs q' h
    cases hn : noQuantOp sg q.1 q.2.2 with
    | error e => rw [hn] at h; cases h
    | ok r =>
      rw [hn] at h
      simp only [Except.ok.injEq, Prod.mk.injEq] at h
      obtain ⟨rfl, rfl⟩ := h
      exact noQuantOp_rshape env sg q.1 q.2.2 r hn
  unfold opReqs
  cases keyOf env q with
  | error e => exact AllReqs.error _
  | ok key =>
    cases key with
    | none => exact nq
    | some k =>
      simp only []
      cases opScope sg q.1 with
      | error e => exact AllReqs.error _
      | ok scope =>
        simp only []
        refine AllReqs.ite _ (fun _ => nq) (fun _ => ?_)
        cases Py.dictGet? Tables.registry (Recipe.resolve rx st k scope).1 with
        | none => exact AllReqs.error _
        | some ops =>
          simp only []
          cases Py.dictGet? ops k with
          | none => exact AllReqs.error _
          | some fn =>
            exact materializeOp_all _ env sg qs _ _ fn (fun con gi go => standardOp_rshape env sg qs _ con gi go)
              (fun b => fixedRangeOp_rshape env sg qs _ b)
              (fun a b c rs h => floatCastOp_rshape env sg _ a b c rs h)
              (fun r r' a b c hr h => biasFor_rshape env sg _ r r' a b c hr h)

/-! ## the result dictionary -/

/-- every side of every entry has the shape, for some subgraph of the model -/
def DShape (env : Env) (res : List (String × CReq)) : Prop :=
  ∀ e ∈ res, ∀ o ∈ allO e.2, ∃ sg ∈ env.model.subgraphs, OShape env sg e.1 o

theorem stepF_dshape (env : Env) (res res' : List (String × CReq)) (r : CReq) (hd : DShape env res)
    (hr : ∀ o ∈ allO r, ∃ sg ∈ env.model.subgraphs, OShape env sg r.name o)
    (h : stepF res r = .ok res') : DShape env res' := by
  unfold stepF at h
  cases hg : Py.dictGet? res r.name with
  | none =>
    rw [hg] at h
    simp only [pure, Except.pure, Except.ok.injEq] at h
    subst h
    intro e he
    rcases List.mem_append.1 he with he | he
    · exact hd e he
    · rw [List.mem_singleton.1 he]; exact hr
  | some cur =>
    rw [hg] at h
    simp only [] at h
    have hcur := hd (r.name, cur) (dictGet?_mem_key _ _ _ hg)
    split at h
    · cases h
    · simp only [pure, Except.pure, Except.ok.injEq] at h
      subst h
      intro e he
      rcases CalibProofs.mem_dictSet _ _ _ _ he with he | he
      · exact hd e he
      · subst he
        intro o ho
        simp only [allO, List.mem_append, Option.mem_toList] at ho hcur hr
        rcases ho with ho | ho
        · cases hrp : r.producer with
          | some p =>
            rw [hrp] at ho
            simp only [Option.some.injEq] at ho
            exact hr o (Or.inl (by rw [hrp, ho]))
          | none =>
            rw [hrp] at ho
            exact hcur o (Or.inl ho)
        · cases hrc : r.consumers with
          | none =>
            rw [hrc] at ho
            exact hcur o (Or.inr ho)
          | some c =>
            rw [hrc] at ho
            cases hcc : cur.consumers with
            | none =>
              rw [hcc] at ho
              exact hr o (Or.inr (by rw [hrc]; exact ho))
            | some c0 =>
              rw [hcc] at ho
              simp only [Option.getD_some, List.mem_append] at ho
              rcases ho with ho | ho
              · exact hcur o (Or.inr (by rw [hcc]; exact ho))
              · exact hr o (Or.inr (by rw [hrc]; exact ho))

theorem updateResults_dshape (env : Env) : ∀ (rs : List CReq) (res res' : List (String × CReq)), DShape env res →
    (∀ r ∈ rs, ∀ o ∈ allO r, ∃ sg ∈ env.model.subgraphs, OShape env sg r.name o) →
    updateResults res rs = .ok res' → DShape env res' := by
  intro rs
  induction rs with
  | nil =>
    intro res res' hd _ h
    simp only [updateResults_eq, List.foldlM_nil, pure, Except.pure, Except.ok.injEq] at h
    rw [← h]; exact hd
  | cons r rs ih =>
    intro res res' hd hrs h
    rw [updateResults_eq, List.foldlM_cons] at h
    obtain ⟨res2, h2, h⟩ := GraphInv.bind_ok _ _ _ h
    exact ih res2 res' (stepF_dshape env res res2 r hd (hrs r List.mem_cons_self) h2)
      (fun r' hr' => hrs r' (List.mem_cons_of_mem _ hr')) h

theorem generateCore_shape (rx : String → String → Bool) (env : Env) (st : Recipe.State) (qsvs : Option Qsvs)
    (s : GState) (h : generateCore rx env st qsvs = .ok s) : DShape env s.2 := by
  unfold generateCore at h
  refine foldlM_inv _ (fun s : GState => DShape env s.2) _ _ _ (by intro e he; cases he) ?_ h
  intro p hp s s' hs hstep
  have hpm : p.1 ∈ env.model.subgraphs := List.mem_of_getElem? (List.mem_zipIdx_iff_getElem?.1 hp)
  unfold sgStep at hstep
  refine foldlM_inv _ (fun s : GState => DShape env s.2) _ _ _ hs ?_ hstep
  intro q _ s s' hs hq
  unfold opStep at hq
  cases ho : opReqs rx env st p.2 p.1 s.1 q with
  | error e => rw [ho] at hq; cases hq
  | ok v =>
    obtain ⟨rs, qs'⟩ := v
    rw [ho] at hq
    simp only [] at hq
    cases hu : updateResults s.2 rs with
    | error e => rw [hu] at hq; cases hq
    | ok res' =>
      rw [hu] at hq
      simp only [Except.ok.injEq] at hq
      subst hq
      refine updateResults_dshape env rs s.2 res' hs ?_ hu
      intro r hr o ho'
      exact ⟨p.1, hpm, opReqs_rshape rx env st p.2 p.1 s.1 q rs qs' ho r hr o ho'⟩

/-- **no request on a tensor over a constant buffer has an `add_quant` side** -/
theorem dshape_const (env : Env) (res : List (String × CReq)) (hd : DShape env res)
    (hnu : GenInstsOK.namesUnique env.model) (b : Nat) (n : String) (hocc : (b, n) ∈ occ env.model)
    (hb : ∃ c, env.model.buffers[b]? = some (some c)) (r : CReq) (hr : Py.dictGet? res n = some r) : RNoAQ r := by
  obtain ⟨sgk, hk, he⟩ := List.mem_flatMap.1 hocc
  obtain ⟨t, ht, htb, htn⟩ := occSg_name sgk _ he
  simp only at htb htn
  have hconst : (constData env t).isSome = true := by
    obtain ⟨c, hc⟩ := hb
    unfold constData
    rw [htb, hc]
    simp only []
    cases List.find? (fun x => x.1 == b) env.consts <;> rfl
  intro o ho
  obtain ⟨sg', hsg', x, hx, hxa⟩ := hd (n, r) (dictGet?_mem_key _ _ _ hr) o ho
  refine ⟨x, hx, ?_⟩
  intro hq
  obtain ⟨t', ht', htn', hnc⟩ := hxa hq
  obtain ⟨k, hk'⟩ := List.mem_iff_getElem?.1 hk
  obtain ⟨k', hk''⟩ := List.mem_iff_getElem?.1 hsg'
  obtain ⟨i, hi⟩ := List.mem_iff_getElem?.1 ht
  obtain ⟨i', hi'⟩ := List.mem_iff_getElem?.1 ht'
  obtain ⟨rfl, rfl, rfl⟩ := loc_unique env.model hnu n k k' sgk sg' i i' ⟨hk', t, hi, htn⟩ ⟨hk'', t', hi', htn'⟩
  rw [hi] at hi'
  cases hi'
  rw [hconst] at hnc
  cases hnc

/-! ## the unconditional statements -/

/-- **`Mat.generate` is local**: if the run on the whole model succeeds, the run on the extracted subgraph
    succeeds and returns exactly the requests for the tensors of that subgraph, in the same order. -/
theorem generate_local_full (rx : String → String → Bool) (env : Env) (st : Recipe.State) (qsvs : Option Qsvs)
    (j : Nat) (sg : Subgraph) (hsg : env.model.subgraphs[j]? = some sg) (reqs : List CReq)
    (h : Mat.generate rx env st qsvs = .ok reqs) :
    Mat.generate rx (extractEnv env j sg) st qsvs = .ok (restrictCReqs reqs sg) := by
  obtain ⟨res, ⟨qs, hcore⟩, hchk, hchk2, _, heq⟩ := generate_local_core rx env st qsvs j sg hsg reqs h
  have hnu := (Pipe.generate_ok rx env st qsvs reqs h).1
  have hd : DShape env res := generateCore_shape rx env st qsvs (qs, res) hcore
  rw [heq, check_local_full env.model res hnu j sg hsg
      (fun b n hocc hb r hr => dshape_const env res hd hnu b n hocc hb r hr) hchk,
    own_local env.model res hnu j sg hsg hchk2]

/-- **C19, end to end, unconditionally**: the success of the run on the whole model alone implies the success
    of the stand-alone run of any subgraph `j`, and the two results agree on subgraph `j` up to an
    injective renaming of the parameter ids that respects the parameter objects. -/
theorem quantize_local_full (rx : String → String → Bool) (env : Env) (st : Recipe.State) (qsvs : Option Qsvs)
    (j : Nat) (sg : Subgraph) (hsg : env.model.subgraphs[j]? = some sg)
    (hcodes : ∀ o ∈ sg.ops, o.code < env.model.opcodes.length)
    (m' : Model) (tbl : List Param) (h : Pipeline.quantizePure rx env st qsvs = .ok (m', tbl)) :
    ∃ (m1' : Model) (tbl1 : List Param) (ρ : PId → PId),
      Pipeline.quantizePure rx (extractEnv env j sg) st qsvs = .ok (m1', tbl1) ∧
      Function.Injective ρ ∧
      (∀ i P, tbl1[i]? = some P → ∃ Q, tbl[ρ i]? = some Q ∧ Q.eqv P = true) ∧
      view m' j = view (Rename.rnModel ρ m1') 0 ∧ sigsOf m' j = m1'.sigs := by
  have h0 := h
  rw [quantizePure_eq] at h0
  by_cases hc : (Recipe.getRecipe st).isEmpty = true
  · rw [if_pos hc] at h0; cases h0
  rw [if_neg hc] at h0
  obtain ⟨reqs, hgen, _⟩ := GraphInv.bind_ok _ _ _ h0
  exact quantize_local rx env st qsvs j sg hsg hcodes m' tbl h _
    (generate_local_full rx env st qsvs j sg hsg reqs hgen)

end Locality
