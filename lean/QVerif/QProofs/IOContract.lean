import QProofs.IOInv
import QProofs.TypingE2E
/-!
# C02, the I/O contract end to end on `Pipeline.quantizePure`

Composition of the graph-stage invariants of `IOInv` with the request stage (`TypingReq`, `TypingE2E`):
* `io_shape`: graph inputs are never retargeted; every graph output position holds the original tensor or
  a NEW tensor that an inserted QUANTIZE / DEQUANTIZE derives from it, with the original shape and the
  name `uniqueName (names of the tensors before it) (original name ++ "_quantized" / "_dequant")`;
* `io_signatures`: signatures keep key, subgraph, inputs and output names; an output entry that denoted
  graph output position `j` denotes position `j` of the output, any other entry is unchanged;
* `input_float` / `output_float`: when the recipe resolves the INPUT / OUTPUT pseudo-operator to
  `no_quantize`, the graph inputs / outputs of the result are not quantized.
-/
open Graph Mat Cfg Pipeline InstGen GenInstsOK GenInstsInfo Pipe SharingGen SharingData Perform
open IOStep IOInv

namespace IOContract

/-! ## the names `uniqueName` produces -/

theorem uniqueNameAux_form (names : List String) (base : String) (fuel k : Nat) :
    uniqueNameAux names base fuel k = longName names base ∨
    ∃ k', k ≤ k' ∧ uniqueNameAux names base fuel k = base ++ "_" ++ toString k' := by
  induction fuel generalizing k with
  | zero => exact .inl rfl
  | succ f ih =>
    unfold uniqueNameAux
    simp only []
    split
    · rcases ih (k + 1) with h | ⟨k', hk, h⟩
      · exact .inl h
      · exact .inr ⟨k', by omega, h⟩
    · exact .inr ⟨k, Nat.le_refl _, rfl⟩

/-- **the form of a made-unique name**: the base name itself when it is free, else the base name followed
    by `_k` for some `k ≥ 1` (the smallest free one), or -- a fall-back that the search bound makes
    unreachable in Python -- by underscores only -/
theorem uniqueName_form (names : List String) (base : String) :
    (base ∉ names ∧ uniqueName names base = base) ∨
    (base ∈ names ∧ ((∃ k, 1 ≤ k ∧ uniqueName names base = base ++ "_" ++ toString k) ∨
      uniqueName names base = longName names base)) := by
  unfold uniqueName
  split
  · rename_i h
    right
    refine ⟨by simpa using h, ?_⟩
    rcases uniqueNameAux_form names base (names.length + 1) 1 with h | h
    · exact .inr h
    · exact .inl h
  · rename_i h
    exact .inl ⟨by simpa using h, rfl⟩

/-! ## the pseudo-operators -/

/-- the INPUT pseudo-operator of `Mat.generate`: no operand, results = graph inputs -/
def inputOp (sg : Subgraph) : Op := { code := 0, inputs := [], outputs := sg.inputs }
/-- the OUTPUT pseudo-operator: operands = graph outputs, no result -/
def outputOp (sg : Subgraph) : Op := { code := 0, inputs := sg.outputs, outputs := [] }

theorem mem_allOps_input (sg : Subgraph) : (inputOp sg, some "INPUT", (-1 : Int)) ∈ allOps sg := by
  unfold allOps inputOp
  exact List.mem_append_right _ List.mem_cons_self

theorem mem_allOps_output (sg : Subgraph) : (outputOp sg, some "OUTPUT", (-1 : Int)) ∈ allOps sg := by
  unfold allOps outputOp
  exact List.mem_append_right _ (List.mem_cons_of_mem _ List.mem_cons_self)

/-- the scope of the OUTPUT pseudo-operator is the empty string (it has no result) -/
theorem outputScope (sg : Subgraph) : opScope sg (outputOp sg) = .ok "" := rfl

/-- the recipe leaves the INPUT pseudo-operator of `sg` unquantized (its scope is the concatenation of the
    graph-input names, each followed by `;`) -/
def InputNoQuant (rx : String → String → Bool) (st : Recipe.State) (sg : Subgraph) : Prop :=
  ∃ scope, opScope sg (inputOp sg) = .ok scope ∧ (Recipe.resolve rx st "INPUT" scope).1 = Tables.algNoQuantize

/-- the recipe leaves the OUTPUT pseudo-operator unquantized (its scope is `""`) -/
def OutputNoQuant (rx : String → String → Bool) (st : Recipe.State) : Prop :=
  (Recipe.resolve rx st "OUTPUT" "").1 = Tables.algNoQuantize

/-- a recipe none of whose regexes matches `scope` resolves every operator with that scope to
    `no_quantize` -/
theorem resolve_nomatch (rx : String → String → Bool) (st : Recipe.State) (op scope : String)
    (h : ∀ e ∈ st, rx e.1 scope = false) : Recipe.resolve rx st op scope = (Tables.algNoQuantize, {}) := by
  unfold Recipe.resolve
  generalize (Tables.algNoQuantize, ({} : OpCfg)) = acc
  induction st generalizing acc with
  | nil => rfl
  | cons e st ih =>
    rw [List.foldl_cons, h e List.mem_cons_self]
    exact ih (fun e' he' => h e' (List.mem_cons_of_mem _ he')) acc

/-- the scope of OUTPUT is `""`: a recipe none of whose regexes matches the EMPTY string leaves OUTPUT
    unquantized (a rule written for a name scope such as `"dense/"` never covers the graph outputs) -/
theorem outputNoQuant_of_nomatch (rx : String → String → Bool) (st : Recipe.State)
    (h : ∀ e ∈ st, rx e.1 "" = false) : OutputNoQuant rx st := by
  unfold OutputNoQuant
  rw [resolve_nomatch rx st "OUTPUT" "" h]

theorem opReqs_pseudo_noquant (rx : String → String → Bool) (env : Env) (st : Recipe.State) (s : Nat)
    (sg : Subgraph) (op : Op) (k scope : String) (id : Int) (hsc : opScope sg op = .ok scope)
    (hres : (Recipe.resolve rx st k scope).1 = Tables.algNoQuantize) (qs0 qs1 : Qsvs) (rs : List CReq)
    (h : opReqs rx env st s sg qs0 (op, some k, id) = .ok (rs, qs1)) : noQuantOp sg op id = .ok rs := by
  unfold opReqs keyOf at h
  simp only [pure, Except.pure, hsc, hres, beq_self_eq_true, if_true] at h
  cases hq : noQuantOp sg op id with
  | error e => rw [hq] at h; cases h
  | ok r => rw [hq] at h; cases h; rfl

open TypingE2E in
/-- INPUT unquantized: every graph input has the `[NO_QUANTIZE]` producer side of the pseudo-operator -/
theorem input_requests {rx : String → String → Bool} {env : Env} {st : Recipe.State} {qsvs : Option Qsvs}
    {m' : Model} {tbl : List Param} {res : List (String × CReq)} {tis : List TInsts}
    (S : Stages rx env st qsvs m' tbl res tis) (s : Nat) (sg : Subgraph)
    (hsg : env.model.subgraphs[s]? = some sg) (hnq : InputNoQuant rx st sg) :
    ∀ t ∈ sg.inputs, ∃ tn e, 0 ≤ t ∧ sg.tensors[t.toNat]? = some tn ∧ (tn.name, e) ∈ res ∧
      e.producer = some ⟨(-1 : Int), [.noQuant], none⟩ := by
  obtain ⟨qs, hfold⟩ := S.fold
  obtain ⟨qs0, rs, qs1, hreq, hhas⟩ := TypingReq.generate_has rx env st _ qs res hfold s sg hsg _
    (mem_allOps_input sg)
  obtain ⟨scope, hsc, hres⟩ := hnq
  have hnqo := opReqs_pseudo_noquant rx env st s sg _ _ scope _ hsc hres qs0 qs1 rs hreq
  obtain ⟨-, hout⟩ := TypingReq.noQuantOp_mem sg _ _ rs hnqo
  have hsgOK : GraphStep.SgOK env.model sg :=
    ((GraphStep.modelOK_iff env.model).1 S.ctx.wf).2.1 sg (List.mem_of_getElem? hsg)
  intro t ht
  have hv := hsgOK.ins t ht
  unfold GraphStep.ValidT at hv
  obtain ⟨tn, htn, hr⟩ := hout t ht (by omega)
  obtain ⟨e, he, hp, -⟩ := hhas _ hr
  have hname : (noQuantReq tn.name (-1 : Int) false).name = tn.name := rfl
  rw [hname] at he
  exact ⟨tn, e, hv.1, tensorAt_get sg t tn hv.1 htn, dictGet?_mem_key _ _ _ he, hp _ rfl⟩

open TypingE2E in
/-- OUTPUT unquantized: every graph output has a `[NO_QUANTIZE]` consumer side with id `-1` -/
theorem output_requests {rx : String → String → Bool} {env : Env} {st : Recipe.State} {qsvs : Option Qsvs}
    {m' : Model} {tbl : List Param} {res : List (String × CReq)} {tis : List TInsts}
    (S : Stages rx env st qsvs m' tbl res tis) (s : Nat) (sg : Subgraph)
    (hsg : env.model.subgraphs[s]? = some sg) (hnq : OutputNoQuant rx st) :
    ∀ t ∈ sg.outputs, ∃ tn e cs, 0 ≤ t ∧ sg.tensors[t.toNat]? = some tn ∧ (tn.name, e) ∈ res ∧
      e.consumers = some cs ∧ (⟨(-1 : Int), [.noQuant], none⟩ : CO2T) ∈ cs := by
  obtain ⟨qs, hfold⟩ := S.fold
  obtain ⟨qs0, rs, qs1, hreq, hhas⟩ := TypingReq.generate_has rx env st _ qs res hfold s sg hsg _
    (mem_allOps_output sg)
  have hnqo := opReqs_pseudo_noquant rx env st s sg _ _ "" _ (outputScope sg) hnq qs0 qs1 rs hreq
  obtain ⟨hin, -⟩ := TypingReq.noQuantOp_mem sg _ _ rs hnqo
  have hsgOK : GraphStep.SgOK env.model sg :=
    ((GraphStep.modelOK_iff env.model).1 S.ctx.wf).2.1 sg (List.mem_of_getElem? hsg)
  intro t ht
  have hv := hsgOK.outs t ht
  unfold GraphStep.ValidT at hv
  obtain ⟨tn, htn, hr⟩ := hin t ht (by omega)
  obtain ⟨e, he, -, hc⟩ := hhas _ hr
  have hname : (noQuantReq tn.name (-1 : Int) true).name = tn.name := rfl
  rw [hname] at he
  obtain ⟨ecs, hecs, hsub⟩ := hc _ rfl
  exact ⟨tn, e, ecs, hv.1, tensorAt_get sg t tn hv.1 htn, dictGet?_mem_key _ _ _ he, hecs,
    hsub _ List.mem_cons_self⟩

/-! ## the instructions that concern the `[NO_QUANTIZE]` graph-output consumer -/

/-- an instruction generated for tensor `i` lists a negative consumer only as `-1` -/
theorem listsOut_iff {m : Model} {res : List (String × CReq)} (C : Ctx m res) (tis : List TInsts)
    (hgen : genInsts m (areqsOf res) = .ok tis) (ti : TInsts) (hti : ti ∈ tis) (ins : Inst)
    (hins : ins ∈ ti.insts) : ListsOut ins ↔ (-1 : Int) ∈ ins.consumers := by
  constructor
  · rintro ⟨c, hc, hc0⟩
    obtain ⟨e, he, a, ha, hA, hreq, s, sg, i, hloc, hget, rfl⟩ := entry_of_ti C tis hgen ti hti
    obtain ⟨hcore, -⟩ := instsOf_ok _ m s sg i a hloc.1 hget hreq
    have hmem := (hcore ins hins).consumers c hc
    rcases (tensorInfo_consumers s sg i).1 c hmem with ⟨rfl, -⟩ | ⟨k, o, rfl, -⟩
    · exact hc
    · omega
  · intro h
    exact ⟨-1, h, by omega⟩

open TypingE2E in
/-- the instructions that concern a `[NO_QUANTIZE]` graph-output consumer of tensor `i`: if the tensor is
    not produced quantized, no op-adding instruction lists the graph output and the tensor has no
    retyping instruction; if it is, an ADD_DEQUANTIZE instruction lists the graph output and every
    op-adding instruction listing it is one -/
theorem noQuant_out_insts {m : Model} {res : List (String × CReq)} (C : Ctx m res) (tis : List TInsts)
    (hgen : genInsts m (areqsOf res) = .ok tis)
    (s : Nat) (sg : Subgraph) (hsg : m.subgraphs[s]? = some sg)
    (i : Nat) (tn : Tensor) (htn : sg.tensors[i]? = some tn) (e : CReq) (he : (tn.name, e) ∈ res)
    (cs : List CO2T) (hcs : e.consumers = some cs)
    (c : CO2T) (hc : c ∈ cs) (hck : c.opId = -1) (hcx : c.xfs = [.noQuant]) :
    ((e.producer = none ∨ ∃ p, e.producer = some p ∧ p.xfs = [.noQuant]) ∧
      ¬ WiresOut tis s (i : Int) ∧ ∀ p, ¬ SharingE2E.Retyped tis s i p) ∨
    ((∃ p, e.producer = some p ∧ p.xfs = [.addDequant]) ∧ WiresOut tis s (i : Int) ∧
      ∀ ti ∈ tis, ti.sg = s → ∀ ins ∈ ti.insts, ins.tensor = (i : Int) → Wiring.addsOp ins.xf = true →
        ListsOut ins → ins.xf = .addDequant) := by
  have hloc : Loc m tn.name s sg i := ⟨hsg, tn, htn, rfl⟩
  obtain ⟨a, hA, hreq, hvalid, hti, hall⟩ := tensor_entry C tis hgen (tn.name, e) he s sg i hloc
  obtain ⟨os, o, hos, ho, hAO⟩ := abs_consumer hA hcs hc
  have hoid : o.opId = -1 := hAO.1.trans hck
  have hox : o.xfs = [.noQuant] := by rw [hAO.2.1]; exact hcx
  have hshape := hreq.consShape
  have hsame := hreq.consSameOp
  have hprodCases : (e.producer = none ∨ ∃ p, e.producer = some p ∧ p.xfs = [.noQuant]) ∨
      ∃ p, e.producer = some p ∧ p.xfs = [.addDequant] := by
    cases hp : e.producer with
    | none => exact .inl (.inl rfl)
    | some p =>
      obtain ⟨po, hpo, hAP⟩ := abs_producer_some hA hp
      rcases hreq.prodShape po hpo with h | h
      · exact .inl (.inr ⟨p, rfl, by rw [← hAP.2.1]; exact h⟩)
      · exact .inr ⟨p, rfl, by rw [← hAP.2.1]; exact h⟩
  rcases hprodCases with hfl | ⟨p, hp, hpx⟩
  · left
    have hfl' : a.producer = none ∨ ∃ p, a.producer = some p ∧ p.xfs = [.noQuant] := by
      rcases hfl with h | ⟨p, hp, hpx⟩
      · exact .inl (abs_producer_none hA h)
      · obtain ⟨po, hpo, hAP⟩ := abs_producer_some hA hp
        exact .inr ⟨po, hpo, by rw [hAP.2.1]; exact hpx⟩
    obtain ⟨hnq, hnw⟩ := TypingReq.noQuant_float (tensorInfo s sg i) a hshape hsame os hos o ho hox hfl'
    refine ⟨hfl, ?_, ?_⟩
    · rintro ⟨ti, hti', ins, hins, hs, ht, hadd, hk⟩
      exact hnw ins (hall ti hti' hs ins hins ht) hadd
        (hoid ▸ (listsOut_iff C tis hgen ti hti' ins hins).1 hk)
    · rintro p ⟨ti, hti', ins, hins, hs, ht, hr, -⟩
      have := TypingReq.instsValid_noRetype _ hvalid hnq ins (hall ti hti' hs ins hins ht)
      rw [hr] at this; cases this
  · right
    obtain ⟨po, hpo, hAP⟩ := abs_producer_some hA hp
    obtain ⟨⟨ins, hins, h1, h2, h3⟩, hu⟩ := TypingReq.noQuant_dequant (tensorInfo s sg i) a hshape hsame
      os hos o ho hox po hpo (by rw [hAP.2.1]; exact hpx)
    refine ⟨⟨p, hp, hpx⟩, ⟨_, hti, ins, hins, rfl, h3, by rw [h1]; rfl, ⟨-1, hoid ▸ h2, by omega⟩⟩, ?_⟩
    intro ti hti' hs ins' hins' ht hadd hk
    exact hu ins' (hall ti hti' hs ins' hins' ht) hadd
      (hoid ▸ (listsOut_iff C tis hgen ti hti' ins' hins').1 hk)

/-! ## what a successful run consists of, for the I/O contract -/

/-- both final-state descriptions of a successful run: `TypingGraph.Final` and `IOInv.IOFin` -/
theorem finals {rx : String → String → Bool} {env : Env} {st : Recipe.State} {qsvs : Option Qsvs}
    {m' : Model} {tbl : List Param} {res : List (String × CReq)} {tis : List TInsts}
    (S : TypingE2E.Stages rx env st qsvs m' tbl res tis) (hnf : PipelineWF.NF env st) :
    (∃ stF, stF.model = m' ∧ TypingGraph.Final (ptableOf tbl) env.model tis stF) ∧
    (∃ stO, stO.model = m' ∧ IOFin (ptableOf tbl) env.model tis stO) :=
  ⟨TypingGraph.run_fin _ env.model m' tis hnf.wf hnf.tagged S.ok S.cd S.run,
   run_io _ env.model m' tis hnf.wf hnf.tagged S.ok S.run⟩

/-! ## C02.io_counts_names_shapes -/

/-- what graph output position `j` (original tensor `o`, record `tn`) holds in the output:
    * `o` itself, which keeps name and shape; or
    * a NEW tensor `n` (index ≥ the number of original tensors), the result of exactly one inserted operator
      `op(o) → n` that is a QUANTIZE or a DEQUANTIZE, which `Skeleton.root` maps back to `o`; `n` has the
      shape of `o`, references the empty buffer 0, and is named
      `uniqueName (names of the tensors 0 … n-1 of the output) (name of o ++ "_quantized" / "_dequant")`;
      the result of a DEQUANTIZE is float32 without quantization parameters. -/
def OutputSlot (m' : Model) (sg sg' : Subgraph) (j : Nat) (o : Int) : Prop :=
  ∃ tn, 0 ≤ o ∧ sg.tensors[o.toNat]? = some tn ∧
    ((∃ tn', sg'.outputs[j]? = some o ∧ sg'.tensors[o.toNat]? = some tn' ∧ tn'.name = tn.name ∧
        tn'.shape = tn.shape) ∨
     (∃ (n ci : Nat) (tn' : Tensor), sg'.outputs[j]? = some (n : Int) ∧ sg.tensors.length ≤ n ∧
        sg'.tensors[n]? = some tn' ∧ tn'.shape = tn.shape ∧ tn'.buffer = 0 ∧
        ({ code := ci, inputs := [o], outputs := [(n : Int)], orig := none } : Op) ∈ sg'.ops ∧
        Skeleton.root sg' (n : Int) = o ∧
        ((m'.opcodes[ci]? = some Tables.opQuantize ∧
            tn'.name = uniqueName ((sg'.tensors.take n).map (·.name)) (tn.name ++ "_quantized")) ∨
         (m'.opcodes[ci]? = some Tables.opDequantize ∧
            tn'.name = uniqueName ((sg'.tensors.take n).map (·.name)) (tn.name ++ "_dequant") ∧
            tn'.dtype = Tables.ttFloat32 ∧ tn'.quant = none))))

/-- the facts about a NEW graph-output tensor, from its `NewT` -/
theorem newT_slot {pt : PTable} {tis : List TInsts} {st : PState} {s : Nat} {sg sg' : Subgraph}
    {n : Nat} {ti : TInsts} {ins : Inst} (N : NewT pt tis st s sg sg' n ti ins)
    (K : SkeletonProof.SkInv sg sg') (tn : Tensor) (htn : sg.tensors[ins.tensor.toNat]? = some tn) :
    ∃ (ci : Nat) (tn' : Tensor), sg'.tensors[n]? = some tn' ∧ tn'.shape = tn.shape ∧ tn'.buffer = 0 ∧
      tn'.name = uniqueName ((sg'.tensors.take n).map (·.name)) (tn.name ++ sfx ins.xf) ∧
      (ins.xf ≠ .addQuant → tn' = Wiring.fresh (uniqueName ((sg'.tensors.take n).map (·.name))
        (tn.name ++ sfx ins.xf)) tn) ∧
      SkeletonProof.newOp ci ins.tensor (n : Int) ∈ sg'.ops ∧ Skeleton.root sg' (n : Int) = ins.tensor ∧
      st.model.opcodes[ci]? = some (TypingGraph.insCode ins.xf) := by
  obtain ⟨tn0, p, pi, ty, r1, r2, r3, r4, r5⟩ := N.record
  rw [htn] at r1; cases r1
  obtain ⟨ci, o1, o2⟩ := N.op
  refine ⟨ci, _, r5, newRecord_shape _ _ _ _ _ _, ?_, newRecord_name _ _ _ _ _ _, ?_, o1,
    SkeletonProof.root_derived sg.tensors.length sg' K.ins _ ins.tensor (n : Int) o1 rfl rfl rfl, o2⟩
  · unfold newRecord
    split
    · rw [StepTypes.retype_buffer]; rfl
    · rfl
  · intro hx
    unfold newRecord
    rw [if_neg hx]

theorem insCode_cases (x : Xf) (h : Wiring.addsOp x = true) :
    (x = .addQuant ∧ TypingGraph.insCode x = Tables.opQuantize ∧ sfx x = "_quantized") ∨
    (x = .addDequant ∧ TypingGraph.insCode x = Tables.opDequantize ∧ sfx x = "_dequant") := by
  rcases Wiring.addsOp_cases x h with rfl | rfl
  · exact .inl ⟨rfl, rfl, rfl⟩
  · exact .inr ⟨rfl, rfl, rfl⟩

/-- **C02.io_counts_names_shapes** (see `QProps/C02b.lean`) -/
theorem io_shape (rx : String → String → Bool) (env : Env) (st : Recipe.State)
    (qsvs : Option Qsvs) (m' : Model) (tbl : List Param) (hnf : PipelineWF.NF env st)
    (h : quantizePure rx env st qsvs = .ok (m', tbl))
    (s : Nat) (sg sg' : Subgraph) (hsg : env.model.subgraphs[s]? = some sg) (hsg' : m'.subgraphs[s]? = some sg') :
    sg'.inputs = sg.inputs ∧ sg'.outputs.length = sg.outputs.length ∧
    sg'.outputs.map (Skeleton.root sg') = sg.outputs ∧
    (∀ i ∈ sg.inputs, ∃ tn tn', 0 ≤ i ∧ sg.tensors[i.toNat]? = some tn ∧ sg'.tensors[i.toNat]? = some tn' ∧
      tn'.name = tn.name ∧ tn'.shape = tn.shape ∧ tn'.buffer = tn.buffer) ∧
    ∀ (j : Nat) (o : Int), sg.outputs[j]? = some o → OutputSlot m' sg sg' j o := by
  obtain ⟨res, tis, S⟩ := TypingE2E.stages rx env st qsvs m' tbl hnf h
  obtain ⟨⟨stF, hF, F⟩, ⟨stO, hO, G⟩⟩ := finals S hnf
  have hsgF : stF.model.subgraphs[s]? = some sg' := by rw [hF]; exact hsg'
  have hsgO : stO.model.subgraphs[s]? = some sg' := by rw [hO]; exact hsg'
  have K := F.base.sk.sgs s sg sg' hsg hsgF
  have hsgOK : GraphStep.SgOK env.model sg :=
    ((GraphStep.modelOK_iff env.model).1 hnf.wf).2.1 sg (List.mem_of_getElem? hsg)
  have hlen : sg'.outputs.length = sg.outputs.length := by
    have := congrArg List.length K.outs
    unfold Skeleton.eraseOutputs at this
    simpa using this
  refine ⟨K.inputs, hlen, K.outs, ?_, ?_⟩
  · intro i hi
    have hv := hsgOK.ins i hi
    unfold GraphStep.ValidT at hv
    have hlt : i.toNat < sg.tensors.length := by omega
    obtain ⟨tn', q1, q2, q3, q4, -⟩ := TypingGraph.tensor_final _ env.model tis stF F s sg sg' hsg hsgF
      i.toNat _ (List.getElem?_eq_getElem hlt)
    exact ⟨_, tn', hv.1, List.getElem?_eq_getElem hlt, q1, q2, q3, q4⟩
  · intro j o hj
    have hv := hsgOK.outs o (List.mem_of_getElem? hj)
    unfold GraphStep.ValidT at hv
    have hlt : o.toNat < sg.tensors.length := by omega
    have htn : sg.tensors[o.toNat]? = some sg.tensors[o.toNat] := List.getElem?_eq_getElem hlt
    refine ⟨sg.tensors[o.toNat], hv.1, htn, ?_⟩
    rcases out_final G hnf.wf s sg sg' hsg hsgO j o hj with ⟨hout, -⟩ | ⟨n, ti, ins, hout, ht, -, N⟩
    · left
      obtain ⟨tn', q1, q2, q3, -⟩ := TypingGraph.tensor_final _ env.model tis stF F s sg sg' hsg hsgF
        o.toNat _ htn
      exact ⟨tn', hout, q1, q2, q3⟩
    · right
      subst ht
      obtain ⟨ci, tn', a1, a2, a3, a4, a5, a6, a7, a8⟩ := newT_slot N K _ htn
      rw [hO] at a8
      refine ⟨n, ci, tn', hout, N.ge, a1, a2, a3, a6, a7, ?_⟩
      rcases insCode_cases ins.xf N.adds with ⟨hx, hc, hs⟩ | ⟨hx, hc, hs⟩
      · exact .inl ⟨by rw [a8, hc], by rw [a4, hs]⟩
      · refine .inr ⟨by rw [a8, hc], by rw [a4, hs], ?_, ?_⟩
        · rw [a5 (by rw [hx]; decide)]; rfl
        · rw [a5 (by rw [hx]; decide)]; rfl

/-! ## signatures -/

/-- **signatures** (see `QProps/C02b.lean`) -/
theorem io_signatures (rx : String → String → Bool) (env : Env) (st : Recipe.State)
    (qsvs : Option Qsvs) (m' : Model) (tbl : List Param) (hnf : PipelineWF.NF env st)
    (h : quantizePure rx env st qsvs = .ok (m', tbl)) :
    m'.sigs.length = env.model.sigs.length ∧
    ∀ (i : Nat) (s0 : Sig), env.model.sigs[i]? = some s0 →
      ∃ (s1 : Sig) (sg sg' : Subgraph), m'.sigs[i]? = some s1 ∧ env.model.subgraphs[s0.sg]? = some sg ∧
        m'.subgraphs[s0.sg]? = some sg' ∧
        s1.key = s0.key ∧ s1.sg = s0.sg ∧ s1.inputs = s0.inputs ∧ sg'.inputs = sg.inputs ∧
        s1.outputs.length = s0.outputs.length ∧
        ∀ (k : Nat) (e0 : String × Int), s0.outputs[k]? = some e0 →
          ∃ e1, s1.outputs[k]? = some e1 ∧ e1.1 = e0.1 ∧
            (∀ j : Nat, sg.outputs[j]? = some e0.2 → sg'.outputs[j]? = some e1.2) ∧
            (e0.2 ∉ sg.outputs → e1 = e0) := by
  obtain ⟨res, tis, S⟩ := TypingE2E.stages rx env st qsvs m' tbl hnf h
  obtain ⟨-, ⟨stO, hO, G⟩⟩ := finals S hnf
  subst hO
  have hns := G.base.sk.nsig
  refine ⟨hns, ?_⟩
  intro i s0 h0
  have hil : i < stO.model.sigs.length := by rw [hns]; exact (List.getElem?_eq_some_iff.1 h0).1
  have h1 : stO.model.sigs[i]? = some stO.model.sigs[i] := List.getElem?_eq_getElem hil
  have hsigOK := ((GraphStep.modelOK_iff env.model).1 hnf.wf).2.2 s0 (List.mem_of_getElem? h0)
  unfold WF.sigOK at hsigOK
  cases hsg : env.model.subgraphs[s0.sg]? with
  | none => simp [hsg] at hsigOK
  | some sg =>
    obtain ⟨sg', -, hsg', -, -⟩ := G.base.cur s0.sg sg hsg
    have R := G.base.sk.sigs i s0 _ sg sg' h0 h1 hsg hsg'
    have K := G.base.sk.sgs s0.sg sg sg' hsg hsg'
    have hlen : stO.model.sigs[i].outputs.length = s0.outputs.length := by
      have := congrArg List.length R.names
      simpa using this
    have hol : sg'.outputs.length = sg.outputs.length := by
      have := congrArg List.length K.outs
      unfold Skeleton.eraseOutputs at this
      simpa using this
    refine ⟨_, sg, sg', h1, rfl, hsg', R.key, R.sgi, R.inputs, K.inputs, hlen, ?_⟩
    intro k e0 hk
    have hkl : k < stO.model.sigs[i].outputs.length := by
      rw [hlen]; exact (List.getElem?_eq_some_iff.1 hk).1
    have hk1 : stO.model.sigs[i].outputs[k]? = some stO.model.sigs[i].outputs[k] :=
      List.getElem?_eq_getElem hkl
    refine ⟨_, hk1, ?_, ?_, ?_⟩
    · have := congrArg (·[k]?) R.names
      simp only [List.getElem?_map, hk1, hk, Option.map_some, Option.some.injEq] at this
      exact this
    · intro j hj
      have hjl : j < sg'.outputs.length := by rw [hol]; exact (List.getElem?_eq_some_iff.1 hj).1
      have hj' : sg'.outputs[j]? = some sg'.outputs[j] := List.getElem?_eq_getElem hjl
      rw [hj', R.outs k j e0 _ e0.2 _ hk hk1 hj hj' rfl]
    · intro hne
      have := G.sigk i s0 _ sg h0 h1 hsg k e0 hk hne
      rw [hk1] at this
      exact Option.some.inj this

/-- corollary: a signature whose outputs are the subgraph outputs, in order, still is one -/
theorem sig_outputs_aligned (rx : String → String → Bool) (env : Env) (st : Recipe.State)
    (qsvs : Option Qsvs) (m' : Model) (tbl : List Param) (hnf : PipelineWF.NF env st)
    (h : quantizePure rx env st qsvs = .ok (m', tbl))
    (i : Nat) (s0 s1 : Sig) (sg sg' : Subgraph) (h0 : env.model.sigs[i]? = some s0)
    (h1 : m'.sigs[i]? = some s1) (hsg : env.model.subgraphs[s0.sg]? = some sg)
    (hsg' : m'.subgraphs[s0.sg]? = some sg')
    (hal : s0.outputs.map (·.2) = sg.outputs) : s1.outputs.map (·.2) = sg'.outputs := by
  obtain ⟨-, hall⟩ := io_signatures rx env st qsvs m' tbl hnf h
  obtain ⟨s1x, sgx, sgx', a1, a2, a3, -, -, -, -, a8, a9⟩ := hall i s0 h0
  rw [h1] at a1; cases a1
  rw [hsg] at a2; cases a2
  rw [hsg'] at a3; cases a3
  obtain ⟨-, hol, -, -, -⟩ := io_shape rx env st qsvs m' tbl hnf h s0.sg sg sg' hsg hsg'
  have hl0 : s0.outputs.length = sg.outputs.length := by
    have := congrArg List.length hal
    simpa using this
  apply List.ext_getElem?
  intro k
  by_cases hk : k < s0.outputs.length
  · have hk0 : s0.outputs[k]? = some s0.outputs[k] := List.getElem?_eq_getElem hk
    obtain ⟨e1, b1, -, b3, -⟩ := a9 k _ hk0
    have hgk : sg.outputs[k]? = some s0.outputs[k].2 := by
      have := congrArg (·[k]?) hal
      simp only [List.getElem?_map, hk0, Option.map_some] at this
      exact this.symm
    rw [List.getElem?_map, b1, b3 k hgk]
    rfl
  · rw [List.getElem?_eq_none (by simp; omega), List.getElem?_eq_none (by omega)]

/-! ## C02.io_float_unless_covered -/

/-- **INPUT unquantized** (see `QProps/C02b.lean`) -/
theorem input_float (rx : String → String → Bool) (env : Env) (st : Recipe.State)
    (qsvs : Option Qsvs) (m' : Model) (tbl : List Param) (hnf : PipelineWF.NF env st)
    (h : quantizePure rx env st qsvs = .ok (m', tbl))
    (s : Nat) (sg sg' : Subgraph) (hsg : env.model.subgraphs[s]? = some sg) (hsg' : m'.subgraphs[s]? = some sg')
    (hin : InputNoQuant rx st sg) :
    sg'.inputs = sg.inputs ∧
    ∀ i ∈ sg.inputs, ∃ tn, 0 ≤ i ∧ sg.tensors[i.toNat]? = some tn ∧ sg'.tensors[i.toNat]? = some tn ∧
      tn.quant = none := by
  obtain ⟨res, tis, S⟩ := TypingE2E.stages rx env st qsvs m' tbl hnf h
  obtain ⟨stF, rfl, F⟩ := TypingGraph.run_fin _ env.model m' tis hnf.wf hnf.tagged S.ok S.cd S.run
  have htbl := S.tbl_eq
  subst htbl
  have K := F.base.sk.sgs s sg sg' hsg hsg'
  refine ⟨K.inputs, ?_⟩
  intro i hi
  obtain ⟨tn, e, h0, htn, he, hp⟩ := input_requests S s sg hsg hin i hi
  have hnr := TypingE2E.noQuant_producer_insts S.ctx tis S.gen s sg hsg i.toNat tn htn e he _ hp rfl
  obtain ⟨tn', q1, -, -, -, q5, -⟩ := TypingGraph.tensor_final _ env.model tis stF F s sg sg' hsg hsg' _ tn htn
  refine ⟨tn, h0, htn, ?_, S.noq _ (List.mem_of_getElem? hsg) _ (List.mem_of_getElem? htn)⟩
  rcases q5 with rfl | ⟨p, hr, -⟩
  · exact q1
  · exact absurd hr (hnr p)

/-- what graph output position `j` (original tensor `o`) holds when OUTPUT is unquantized:
    * `o` itself with its ORIGINAL record, or
    * (`o` a float32 runtime tensor that is produced quantized) a NEW float32 tensor without quantization
      parameters over buffer 0, the result of an inserted `DEQUANTIZE(o)` -/
def FloatOutput (env : Env) (m' : Model) (sg sg' : Subgraph) (j : Nat) (o : Int) : Prop :=
  ∃ tn, 0 ≤ o ∧ sg.tensors[o.toNat]? = some tn ∧ tn.quant = none ∧
    ((sg'.outputs[j]? = some o ∧ sg'.tensors[o.toNat]? = some tn) ∨
     (tn.dtype = Tables.ttFloat32 ∧ isConst env.model sg o = false ∧
       ∃ (n ci : Nat), sg'.outputs[j]? = some (n : Int) ∧ sg.tensors.length ≤ n ∧
         sg'.tensors[n]? = some (Wiring.fresh (uniqueName ((sg'.tensors.take n).map (·.name))
           (tn.name ++ "_dequant")) tn) ∧
         ({ code := ci, inputs := [o], outputs := [(n : Int)], orig := none } : Op) ∈ sg'.ops ∧
         m'.opcodes[ci]? = some Tables.opDequantize ∧ Skeleton.root sg' (n : Int) = o))

/-- **OUTPUT unquantized** (see `QProps/C02b.lean`) -/
theorem output_float (rx : String → String → Bool) (env : Env) (st : Recipe.State)
    (qsvs : Option Qsvs) (m' : Model) (tbl : List Param) (hnf : PipelineWF.NF env st)
    (h : quantizePure rx env st qsvs = .ok (m', tbl))
    (s : Nat) (sg sg' : Subgraph) (hsg : env.model.subgraphs[s]? = some sg) (hsg' : m'.subgraphs[s]? = some sg')
    (hout : OutputNoQuant rx st) :
    ∀ (j : Nat) (o : Int), sg.outputs[j]? = some o → FloatOutput env m' sg sg' j o := by
  obtain ⟨res, tis, S⟩ := TypingE2E.stages rx env st qsvs m' tbl hnf h
  obtain ⟨⟨stF, hF, F⟩, ⟨stO, hO, G⟩⟩ := finals S hnf
  have htbl := S.tbl_eq
  subst htbl
  have hsgF : stF.model.subgraphs[s]? = some sg' := by rw [hF]; exact hsg'
  have hsgO : stO.model.subgraphs[s]? = some sg' := by rw [hO]; exact hsg'
  have K := F.base.sk.sgs s sg sg' hsg hsgF
  have C := S.ctx
  intro j o hj
  obtain ⟨tn, e, cs, h0, htn, he, hcs, hc⟩ := output_requests S s sg hsg hout o (List.mem_of_getElem? hj)
  have hcast : ((o.toNat : Nat) : Int) = o := by omega
  refine ⟨tn, h0, htn, S.noq _ (List.mem_of_getElem? hsg) _ (List.mem_of_getElem? htn), ?_⟩
  have hfin := out_final G hnf.wf s sg sg' hsg hsgO j o hj
  rcases noQuant_out_insts C tis S.gen s sg hsg o.toNat tn htn e he cs hcs _ hc rfl rfl with
    ⟨-, hnw, hnr⟩ | ⟨⟨p, hp, hpx⟩, hw, hu⟩
  · -- not produced quantized: the output is the original tensor, untouched
    left
    rw [hcast] at hnw
    rcases hfin with ⟨ho, -⟩ | ⟨n, ti, ins, -, ht, hl, N⟩
    · refine ⟨ho, ?_⟩
      obtain ⟨tn', q1, -, -, -, q5, -⟩ :=
        TypingGraph.tensor_final _ env.model tis stF F s sg sg' hsg hsgF _ tn htn
      rcases q5 with rfl | ⟨p, hr, -⟩
      · exact q1
      · exact absurd hr (hnr p)
    · exact absurd ⟨ti, N.hti, ins, N.hins, N.hs, ht, N.adds, hl⟩ hnw
  · -- produced quantized: the output is the result of an inserted DEQUANTIZE
    right
    rw [hcast] at hw
    have hnc : isConst env.model sg o = false := by
      cases hcc : isConst env.model sg o with
      | false => rfl
      | true =>
        rw [← hcast] at hcc
        have := const_noProd C (tn.name, e) he s sg o.toNat ⟨hsg, tn, htn, rfl⟩ hcc
        rw [hp] at this; cases this
    have hf32 : tn.dtype = Tables.ttFloat32 :=
      TypingE2E.f32_loc C.nu s sg o.toNat tn hsg htn
        (((S.typ _ he).1 p hp).elim fun sgq hq => ⟨sgq, hq.1, hq.2.1 hpx⟩)
    refine ⟨hf32, hnc, ?_⟩
    rcases hfin with ⟨-, hno⟩ | ⟨n, ti, ins, hon, ht, hl, N⟩
    · exact absurd hw hno
    · have hxf : ins.xf = .addDequant := hu ti N.hti N.hs ins N.hins (by rw [ht, hcast]) N.adds hl
      subst ht
      obtain ⟨ci, tn', a1, -, -, -, a5, a6, a7, a8⟩ := newT_slot N K _ htn
      rw [hO] at a8
      have hs : sfx ins.xf = "_dequant" := by rw [hxf]; rfl
      rw [a5 (by rw [hxf]; decide), hs] at a1
      exact ⟨n, ci, hon, N.ge, a1, a6, by rw [a8, hxf]; rfl, a7⟩

end IOContract
