import QProofs.GenInstsGroup
/-!
# Instruction generation produces consistent, chain-free instruction lists; `modify` preserves WF

`genInsts_ok` and `modify_ok`, proved without `sorry`, extra axioms or `native_decide`.

Structure (helper files `QProofs/GenInstsInfo.lean`, `QProofs/GenInstsGroup.lean`):
* `GenInstsInfo`: every value of `nameMap m` is the `tensorInfo` of an existing tensor; what
  `WF.modelOK` says about `tensorInfo` (`instOK_of_core`);
* `GenInstsGroup`: with one transformation per consumer, `groupConsumers` has depth ≤ 2 and the
  depth-1 groups are homogeneous / pairwise different in `(param, xfs)` (`groups_shape`);
* here: `removeEach`, a closed form of `applyVertical` (`applyVertical_eq`), the consumer-side rules
  (`rules_facts`), `applyVertical_ok`, and the assembly.
`namesUnique` turns out not to be needed: whatever tensor the name map returns for a name, the
requests are stated relative to that same entry.
-/
open Graph InstGen Perform GraphInv GraphStep GenInstsInfo GenInstsGroup

namespace GenInstsOK

/-- all tensor names of the model are distinct (ParamsGenerator rejects other models) -/
def namesUnique (m : Model) : Prop := (m.subgraphs.flatMap fun sg => sg.tensors.map (·.name)).Nodup

/-- request `r` has the closed shape produced by the registered algorithms and is consistent with
    the model -/
structure ReqOK (pt : PTable) (m : Model) (r : TReq) : Prop where
  /-- the tensor exists … -/
  known : ∃ info, Py.dictGet? (nameMap m) r.name = some info
  /-- … and is referenced by the graph: produced, consumed, a graph output, or a graph input
      (the INPUT pseudo-operator emits a producer request for every graph input, also for one that
      no operator consumes; all the graph stage needs is that the tensor is available at position
      `producer + 1`, which holds for graph inputs) -/
  referenced : ∀ info, Py.dictGet? (nameMap m) r.name = some info →
    0 ≤ info.producer ∨ info.consumers ≠ [] ∨
      ∃ sg, m.subgraphs[info.sg]? = some sg ∧ (info.tensorId : Int) ∈ sg.inputs
  /-- producer side: left float, or produced quantized (static range) -/
  prodShape : ∀ p, r.producer = some p → p.xfs = [.noQuant] ∨ p.xfs = [.addDequant]
  /-- consumer side: exactly one transformation each, never op replacement -/
  consShape : ∀ cs c, r.consumers = some cs → c ∈ cs → ∃ x, c.xfs = [x] ∧ x ≠ .emulated
  /-- a consumer entry names an operator that really consumes the tensor (-1 = graph output) -/
  consReal : ∀ cs c info, r.consumers = some cs → c ∈ cs → Py.dictGet? (nameMap m) r.name = some info →
    c.opId ∈ info.consumers
  /-- one operator makes one request per tensor (repeated operands carry identical requests) -/
  consSameOp : ∀ cs c c', r.consumers = some cs → c ∈ cs → c' ∈ cs → c.opId = c'.opId →
    c.xfs = c'.xfs ∧ c.param = c'.param
  /-- a tensor produced quantized is consumed either quantized or float (never as a constant) -/
  prodCons : ∀ p cs c, r.producer = some p → p.xfs = [.addDequant] → r.consumers = some cs → c ∈ cs →
    c.xfs = [.addQuant] ∨ c.xfs = [.noQuant]
  /-- parameters that carry data are only requested for constant tensors -/
  dataConst : ∀ info sg (o : O2T) p pi, Py.dictGet? (nameMap m) r.name = some info → m.subgraphs[info.sg]? = some sg →
    (r.producer = some o ∨ ∃ cs, r.consumers = some cs ∧ o ∈ cs) → o.param = some p → pinfo pt p = some pi →
    pi.hasData = true → isConst m sg info.tensorId = true


/-! ## `removeEach` -/

theorem removeEach_spec (cs : List Int) : ∀ (l : List Int), l.Nodup →
    (removeEach l cs).Sublist l ∧ ∀ c ∈ cs, c ∉ removeEach l cs := by
  induction cs with
  | nil => intro l _; exact ⟨List.Sublist.refl _, by simp⟩
  | cons c cs ih =>
    intro l hl
    have hstep : removeEach l (c :: cs) = removeEach (if l.contains c then l.erase c else l) cs := rfl
    rw [hstep]
    have hsub : (if l.contains c then l.erase c else l).Sublist l := by
      split
      · exact List.erase_sublist
      · exact List.Sublist.refl _
    have hnd : (if l.contains c then l.erase c else l).Nodup := List.Nodup.sublist hsub hl
    have hc : c ∉ (if l.contains c then l.erase c else l) := by
      split
      · intro hmem
        exact ((List.Nodup.mem_erase_iff hl).1 hmem).1 rfl
      · rename_i hn
        intro hmem
        exact hn (List.contains_iff_mem.2 hmem)
    obtain ⟨h1, h2⟩ := ih _ hnd
    refine ⟨h1.trans hsub, ?_⟩
    intro c' hc'
    rcases List.mem_cons.1 hc' with rfl | hc'
    · exact fun hmem => hc (h1.subset hmem)
    · exact h2 c' hc'

/-! ## closed form of `applyVertical` -/

/-- the instructions one consumer rule `r` turns into -/
def vstep (P r : Inst) : List Inst :=
  if P.xf == .addDequant && r.xf == .addQuant && P.param == r.param then
    [{ xf := .quantTensor, tensor := r.tensor, producer := r.producer, consumers := r.consumers, param := r.param }]
  else if P.xf == .addDequant && r.xf == .addQuant then
    [{ xf := .quantTensor, tensor := r.tensor, producer := r.producer, consumers := r.consumers, param := P.param },
     { xf := .addQuant, tensor := r.tensor, producer := r.producer, consumers := r.consumers, param := r.param }]
  else if P.xf == .addDequant && r.xf == .noQuant then
    [{ xf := .addDequant, tensor := r.tensor, producer := r.producer, consumers := r.consumers, param := P.param }]
  else [r]

/-- does rule `r` interact with the producer rule `P` -/
def interacts (P r : Inst) : Bool := P.xf == .addDequant && (r.xf == .addQuant || r.xf == .noQuant)

/-- what one consumer rule `r` does to the producer's remaining consumers -/
def vrem (P r : Inst) (rem : List Int) : List Int :=
  if interacts P r then removeEach rem r.consumers else rem

/-- the loop body of `applyVertical` -/
def vfold (P : Inst) (st : List Inst × List Int) (r : Inst) : List Inst × List Int :=
  let (out, rem) := st
  let dqP := P.xf == .addDequant
  if dqP && r.xf == .addQuant && P.param == r.param then
    (out ++ [{ xf := .quantTensor, tensor := r.tensor, producer := r.producer, consumers := r.consumers, param := r.param }],
     removeEach rem r.consumers)
  else if dqP && r.xf == .addQuant then
    (out ++ [{ xf := .quantTensor, tensor := r.tensor, producer := r.producer, consumers := r.consumers, param := P.param },
             { xf := .addQuant, tensor := r.tensor, producer := r.producer, consumers := r.consumers, param := r.param }],
     removeEach rem r.consumers)
  else if dqP && r.xf == .noQuant then
    (out ++ [{ xf := .addDequant, tensor := r.tensor, producer := r.producer, consumers := r.consumers, param := P.param }],
     removeEach rem r.consumers)
  else (out ++ [r], rem)

theorem vfold_eq (P r : Inst) (out : List Inst) (rem : List Int) :
    vfold P (out, rem) r = (out ++ vstep P r, vrem P r rem) := by
  unfold vfold vstep vrem interacts
  cases (P.xf == Xf.addDequant) <;> cases (r.xf == Xf.addQuant) <;> cases (P.param == r.param) <;>
    cases (r.xf == Xf.noQuant) <;> rfl

theorem vfoldl_eq (P : Inst) : ∀ (rules : List Inst) (out0 : List Inst) (rem0 : List Int),
    rules.foldl (vfold P) (out0, rem0) =
      (out0 ++ rules.flatMap (vstep P), rules.foldl (fun rem r => vrem P r rem) rem0) := by
  intro rules
  induction rules with
  | nil => intro out0 rem0; simp
  | cons r rs ih =>
    intro out0 rem0
    simp only [List.foldl_cons, vfold_eq, ih, List.flatMap_cons, List.append_assoc]

/-- the producer's remaining consumers after all rules -/
def vremAll (P : Inst) (rules : List Inst) : List Int :=
  rules.foldl (fun rem r => vrem P r rem) P.consumers

theorem applyVertical_eq (P : Inst) (rules : List Inst) :
    applyVertical P rules =
      if !(vremAll P rules).isEmpty then
        ({ P with consumers := vremAll P rules } :: rules.flatMap (vstep P), vremAll P rules)
      else if (rules.flatMap (vstep P)).isEmpty && P.xf == .addDequant then
        ([{ xf := .quantTensor, tensor := P.tensor, producer := P.producer, consumers := [], param := P.param }],
          vremAll P rules)
      else (rules.flatMap (vstep P), vremAll P rules) := by
  have h : applyVertical P rules =
      (let (out, rem) := rules.foldl (vfold P) ([], P.consumers)
       if !rem.isEmpty then ({ P with consumers := rem } :: out, rem)
       else if out.isEmpty && P.xf == .addDequant then
         ([{ xf := .quantTensor, tensor := P.tensor, producer := P.producer, consumers := [], param := P.param }], rem)
       else (out, rem)) := rfl
  rw [h, vfoldl_eq]
  rfl

theorem vstep_mem (P r x : Inst) (hx : x ∈ vstep P r) :
    x.tensor = r.tensor ∧ x.producer = r.producer ∧ x.consumers = r.consumers ∧
      (x.param = r.param ∨ x.param = P.param) ∧
      (x.xf = r.xf ∨ x.xf = .quantTensor ∨ x.xf = .addQuant ∨ x.xf = .addDequant) := by
  unfold vstep at hx
  split at hx
  · rw [List.mem_singleton.1 hx]; simp
  · split at hx
    · rcases List.mem_cons.1 hx with rfl | hx
      · simp
      · rw [List.mem_singleton.1 hx]; simp
    · split at hx
      · rw [List.mem_singleton.1 hx]; simp
      · rw [List.mem_singleton.1 hx]; simp

/-- the relation `NoChain` demands of an earlier / a later instruction -/
def Rch (a b : Inst) : Prop := (a.xf = .addQuant ∨ a.xf = .addDequant) → ∀ c ∈ b.consumers, c ∉ a.consumers

/-- disjoint consumers -/
def DisjC (a b : Inst) : Prop := ∀ c ∈ b.consumers, c ∉ a.consumers

theorem vstep_pw (P r : Inst) : (vstep P r).Pairwise Rch := by
  unfold vstep
  split
  · exact List.pairwise_singleton _ _
  · split
    · refine List.pairwise_cons.2 ⟨?_, List.pairwise_singleton _ _⟩
      intro b _ hxf
      rcases hxf with h | h <;> cases h
    · split <;> exact List.pairwise_singleton _ _

theorem noChain_of_pairwise (l : List Inst) (h : l.Pairwise Rch) : NoChain l := by
  intro i j a b hij ha hb hxf
  obtain ⟨hi, rfl⟩ := List.getElem?_eq_some_iff.1 ha
  obtain ⟨hj, rfl⟩ := List.getElem?_eq_some_iff.1 hb
  exact List.pairwise_iff_getElem.1 h i j hi hj hij hxf

theorem vremAll_spec (P : Inst) (rules : List Inst) : ∀ (l : List Int), l.Nodup →
    (rules.foldl (fun rem r => vrem P r rem) l).Sublist l ∧
    ∀ r ∈ rules, interacts P r = true → ∀ c ∈ r.consumers, c ∉ rules.foldl (fun rem r => vrem P r rem) l := by
  induction rules with
  | nil => intro l _; exact ⟨List.Sublist.refl _, by simp⟩
  | cons r rs ih =>
    intro l hl
    simp only [List.foldl_cons]
    have hsub : (vrem P r l).Sublist l := by
      unfold vrem; split
      · exact (removeEach_spec _ l hl).1
      · exact List.Sublist.refl _
    obtain ⟨h1, h2⟩ := ih _ (List.Nodup.sublist hsub hl)
    refine ⟨h1.trans hsub, ?_⟩
    intro r' hr' hint c hc
    rcases List.mem_cons.1 hr' with rfl | hr'
    · intro hmem
      have := h1.subset hmem
      unfold vrem at this
      rw [if_pos hint] at this
      exact (removeEach_spec _ l hl).2 c hc this
    · exact h2 r' hr' hint c hc

/-! ## `applyVertical` keeps the instructions consistent and chain-free -/

theorem applyVertical_ok (pt : PTable) (m : Model) (sg : Subgraph) (info : TInfo) (P : Inst) (rules : List Inst)
    (hnd : info.consumers.Nodup)
    (hPx : P.xf = .noQuant ∨ P.xf = .addDequant) (hPt : P.tensor = info.tensorId)
    (hPp : P.producer = info.producer) (hPc : P.consumers = info.consumers)
    (hPd : ∀ p pi, P.param = some p → pinfo pt p = some pi → pi.hasData = true →
      isConst m sg info.tensorId = true)
    (R1 : ∀ r ∈ rules, Core pt m sg info r) (R2 : rules.Pairwise DisjC)
    (R3 : P.xf = .addDequant → ∀ r ∈ rules, r.xf = .addQuant ∨ r.xf = .noQuant) :
    (∀ ins ∈ (applyVertical P rules).1, Core pt m sg info ins) ∧ (applyVertical P rules).1.Pairwise Rch := by
  obtain ⟨hsub, hrem⟩ := vremAll_spec P rules P.consumers (hPc ▸ hnd)
  have hPne : P.xf ≠ .emulated := by rcases hPx with h | h <;> rw [h] <;> decide
  -- the instructions coming from the consumer rules
  have hout : ∀ x ∈ rules.flatMap (vstep P), Core pt m sg info x := by
    intro x hx
    obtain ⟨r, hr, hxr⟩ := List.mem_flatMap.1 hx
    obtain ⟨h1, h2, h3, h4, h5⟩ := vstep_mem P r x hxr
    have hr1 := R1 r hr
    refine ⟨?_, h1.trans hr1.tensor, h2.trans hr1.producer, h3 ▸ hr1.consumers, ?_⟩
    · rcases h5 with h | h | h | h
      · rw [h]; exact hr1.notEmulated
      · rw [h]; decide
      · rw [h]; decide
      · rw [h]; decide
    · rcases h4 with h | h
      · rw [h]; exact hr1.dataConst
      · rw [h]; exact hPd
  have hpw : (rules.flatMap (vstep P)).Pairwise Rch := by
    refine List.pairwise_flatMap.2 ⟨fun r _ => vstep_pw P r, ?_⟩
    refine R2.imp ?_
    intro r1 r2 hd x hx y hy _
    rw [(vstep_mem P r1 x hx).2.2.1, (vstep_mem P r2 y hy).2.2.1]
    exact hd
  rw [applyVertical_eq]
  split
  · refine ⟨?_, ?_⟩
    · intro ins hins
      rcases List.mem_cons.1 hins with rfl | hins
      · exact ⟨hPne, hPt, hPp, fun c hc => hPc ▸ hsub.subset hc, hPd⟩
      · exact hout ins hins
    · refine List.pairwise_cons.2 ⟨?_, hpw⟩
      intro y hy hxf
      have hdq : P.xf = .addDequant := by
        rcases hPx with h | h
        · rcases hxf with h' | h' <;> · rw [show ({ P with consumers := vremAll P rules } : Inst).xf = P.xf from rfl, h] at h'; cases h'
        · exact h
      obtain ⟨r, hr, hyr⟩ := List.mem_flatMap.1 hy
      rw [(vstep_mem P r y hyr).2.2.1]
      have hint : interacts P r = true := by
        unfold interacts
        rw [hdq]
        rcases R3 hdq r hr with h | h <;> rw [h] <;> rfl
      exact hrem r hr hint
  · split
    · refine ⟨?_, List.pairwise_singleton _ _⟩
      intro ins hins
      rw [List.mem_singleton.1 hins]
      exact ⟨fun h => (by cases h), hPt, hPp, fun c hc => (by cases hc), hPd⟩
    · exact ⟨hout, hpw⟩

/-! ## the consumer-side rules -/

theorem getD_consumers (req : TReq) (c : O2T) (hc : c ∈ req.consumers.getD []) :
    ∃ cs, req.consumers = some cs ∧ c ∈ cs := by
  cases h : req.consumers with
  | none => rw [h] at hc; simp at hc
  | some cs => rw [h] at hc; exact ⟨cs, rfl, hc⟩

theorem rules_facts (pt : PTable) (m : Model) (sg : Subgraph) (info : TInfo) (cs : List O2T) (G : List (List Nat))
    (hG : GInv cs G)
    (hshape : ∀ c ∈ cs, ∃ x, c.xfs = [x] ∧ x ≠ .emulated)
    (hreal : ∀ c ∈ cs, c.opId ∈ info.consumers)
    (hsame : ∀ c ∈ cs, ∀ c' ∈ cs, c.opId = c'.opId → c.xfs = c'.xfs ∧ c.param = c'.param)
    (hdc : ∀ c ∈ cs, ∀ p pi, c.param = some p → pinfo pt p = some pi → pi.hasData = true →
      isConst m sg info.tensorId = true) :
    (∀ r ∈ G.map (instOfGroup cs info 0), Core pt m sg info r) ∧
    (G.map (instOfGroup cs info 0)).Pairwise DisjC ∧
    ((∀ c ∈ cs, c.xfs = [.addQuant] ∨ c.xfs = [.noQuant]) →
      ∀ r ∈ G.map (instOfGroup cs info 0), r.xf = .addQuant ∨ r.xf = .noQuant) := by
  have hcons : ∀ g ∈ G, ∀ c ∈ (instOfGroup cs info 0 g).consumers, ∃ i ∈ g, c = (cs.getD i default).opId := by
    intro g _ c hc
    obtain ⟨i, hi, rfl⟩ := List.mem_map.1 hc
    exact ⟨i, hi, rfl⟩
  have hfirst : ∀ g ∈ G, ∃ f ∈ cs, (instOfGroup cs info 0 g).xf = f.xfs.getD 0 .noQuant ∧
      (instOfGroup cs info 0 g).param = f.param := by
    intro g hg
    obtain ⟨h, tl, rfl⟩ := List.exists_cons_of_ne_nil (hG.ne g hg)
    exact ⟨_, getD_mem cs h (hG.lt _ hg h List.mem_cons_self), rfl, rfl⟩
  refine ⟨?_, ?_, ?_⟩
  · intro r hr
    obtain ⟨g, hg, rfl⟩ := List.mem_map.1 hr
    obtain ⟨f, hf, hxf, hpar⟩ := hfirst g hg
    obtain ⟨x, hx, hne⟩ := hshape f hf
    refine ⟨?_, rfl, rfl, ?_, ?_⟩
    · rw [hxf, hx]; exact hne
    · intro c hc
      obtain ⟨i, hi, rfl⟩ := hcons g hg c hc
      exact hreal _ (getD_mem cs i (hG.lt g hg i hi))
    · rw [hpar]; exact hdc f hf
  · rw [List.pairwise_map]
    refine List.Pairwise.imp_of_mem ?_ hG.diff
    intro g1 g2 hg1 hg2 hd c hc2 hc1
    obtain ⟨i, hi, rfl⟩ := hcons g2 hg2 c hc2
    obtain ⟨j, hj, hij⟩ := hcons g1 hg1 _ hc1
    have h := hsame _ (getD_mem cs i (hG.lt g2 hg2 i hi)) _ (getD_mem cs j (hG.lt g1 hg1 j hj)) hij
    refine hd j hj i hi ?_
    unfold K
    rw [h.1, h.2]
  · intro hq r hr
    obtain ⟨g, hg, rfl⟩ := List.mem_map.1 hr
    obtain ⟨f, hf, hxf, _⟩ := hfirst g hg
    rw [hxf]
    rcases hq f hf with h | h <;> rw [h]
    · exact .inl rfl
    · exact .inr rfl

/-! ## one tensor -/

/-- the instruction list computed by `tensorInsts` -/
def instsOf (info : TInfo) (req : TReq) : List Inst :=
  let groups := groupConsumers req.consumers
  let cs := req.consumers.getD []
  let avail := vertAvail groups cs info
  let other := vertUnavail groups cs info
  let prodRules : List Inst := match req.producer with
    | some p => p.xfs.map fun x =>
        { xf := x, tensor := info.tensorId, producer := info.producer, consumers := info.consumers, param := p.param }
    | none => []
  let insts : List Inst :=
    match prodRules.getLast? with
    | some P =>
      let (vo, rem) := applyVertical P avail
      (prodRules.dropLast.map fun r => { r with consumers := rem }) ++ vo
    | none => avail
  insts ++ other

theorem tensorInsts_eq (nm : List (String × TInfo)) (req : TReq) :
    tensorInsts nm req =
      match Py.dictGet? nm req.name with
      | none => .error .keyError
      | some info =>
        if instsValid (instsOf info req) then .ok ⟨req.name, info.sg, instsOf info req⟩
        else .error .valueError := rfl

theorem instsOf_ok (pt : PTable) (m : Model) (s : Nat) (sg : Subgraph) (t : Nat) (req : TReq)
    (hsg : m.subgraphs[s]? = some sg)
    (hinfo : Py.dictGet? (nameMap m) req.name = some (tensorInfo s sg t))
    (hreq : ReqOK pt m req) :
    (∀ ins ∈ instsOf (tensorInfo s sg t) req, Core pt m sg (tensorInfo s sg t) ins) ∧
    (instsOf (tensorInfo s sg t) req).Pairwise Rch := by
  -- consumer-side facts
  have hshape : ∀ c ∈ req.consumers.getD [], ∃ x, c.xfs = [x] ∧ x ≠ .emulated := by
    intro c hc
    obtain ⟨cs, h1, h2⟩ := getD_consumers req c hc
    exact hreq.consShape cs c h1 h2
  have hlen : ∀ cs, req.consumers = some cs → ∀ c ∈ cs, c.xfs.length = 1 := by
    intro cs h1 c h2
    obtain ⟨x, hx, _⟩ := hreq.consShape cs c h1 h2
    rw [hx]; rfl
  have hreal : ∀ c ∈ req.consumers.getD [], c.opId ∈ (tensorInfo s sg t).consumers := by
    intro c hc
    obtain ⟨cs, h1, h2⟩ := getD_consumers req c hc
    exact hreq.consReal cs c _ h1 h2 hinfo
  have hsame : ∀ c ∈ req.consumers.getD [], ∀ c' ∈ req.consumers.getD [], c.opId = c'.opId →
      c.xfs = c'.xfs ∧ c.param = c'.param := by
    intro c hc c' hc'
    obtain ⟨cs, h1, h2⟩ := getD_consumers req c hc
    obtain ⟨cs', h1', h2'⟩ := getD_consumers req c' hc'
    rw [h1] at h1'; cases h1'
    exact hreq.consSameOp cs c c' h1 h2 h2'
  have hdc : ∀ c ∈ req.consumers.getD [], ∀ p pi, c.param = some p → pinfo pt p = some pi →
      pi.hasData = true → isConst m sg (tensorInfo s sg t).tensorId = true := by
    intro c hc p pi h3 h4 h5
    obtain ⟨cs, h1, h2⟩ := getD_consumers req c hc
    exact hreq.dataConst _ sg c p pi hinfo hsg (.inr ⟨cs, h1, h2⟩) h3 h4 h5
  obtain ⟨hun, G, hG, hav⟩ := groups_shape req.consumers (tensorInfo s sg t) hlen
  obtain ⟨R1, R2, R3⟩ := rules_facts pt m sg (tensorInfo s sg t) _ G hG hshape hreal hsame hdc
  have hnone : (∀ ins ∈ G.map (instOfGroup (req.consumers.getD []) (tensorInfo s sg t) 0),
        Core pt m sg (tensorInfo s sg t) ins) ∧
      (G.map (instOfGroup (req.consumers.getD []) (tensorInfo s sg t) 0)).Pairwise Rch :=
    ⟨R1, R2.imp (fun {a b} (hd : DisjC a b) => (fun _ => hd : Rch a b))⟩
  unfold instsOf
  simp only [hun, hav, List.append_nil]
  cases hp : req.producer with
  | none => exact hnone
  | some p =>
    have hx : ∃ x, p.xfs = [x] ∧ (x = .noQuant ∨ x = .addDequant) := by
      rcases hreq.prodShape p hp with h | h
      · exact ⟨_, h, .inl rfl⟩
      · exact ⟨_, h, .inr rfl⟩
    obtain ⟨x, hxs, hxv⟩ := hx
    simp only [hxs, List.map_cons, List.map_nil, List.getLast?_singleton, List.dropLast_singleton,
      List.nil_append]
    refine applyVertical_ok pt m sg (tensorInfo s sg t) _ _ (tensorInfo_consumers s sg t).2 hxv rfl rfl rfl
      ?_ R1 R2 ?_
    · intro q pi h3 h4 h5
      exact hreq.dataConst _ sg p q pi hinfo hsg (.inl hp) h3 h4 h5
    · intro hdq
      have hdq' : x = .addDequant := hdq
      refine R3 ?_
      intro c hc
      obtain ⟨cs, h1, h2⟩ := getD_consumers req c hc
      exact hreq.prodCons p cs c hp (by rw [hxs, hdq']) h1 h2

theorem tensorInsts_ok (pt : PTable) (m : Model) (req : TReq) (ti : TInsts)
    (hwf : WF.modelOK m = true) (hreq : ReqOK pt m req)
    (h : tensorInsts (nameMap m) req = .ok ti) : TInstsOK pt m ti := by
  obtain ⟨info, hinfo⟩ := hreq.known
  obtain ⟨s, sg, t, hsg, ht, rfl⟩ := nameMap_get m _ _ hinfo
  have hSg : SgOK m sg := ((modelOK_iff m).1 hwf).2.1 sg (List.mem_of_getElem? hsg)
  have href : 0 ≤ (tensorInfo s sg t).producer ∨ (tensorInfo s sg t).consumers ≠ [] ∨ (t : Int) ∈ sg.inputs := by
    rcases hreq.referenced _ hinfo with h | h | ⟨sg', hsg', hin⟩
    · exact .inl h
    · exact .inr (.inl h)
    · have hsg'' : m.subgraphs[s]? = some sg' := hsg'
      rw [hsg] at hsg''
      cases hsg''
      exact .inr (.inr hin)
  obtain ⟨hcore, hpw⟩ := instsOf_ok pt m s sg t req hsg hinfo hreq
  rw [tensorInsts_eq] at h
  simp only [hinfo] at h
  split at h
  · cases h
    refine ⟨⟨sg, hsg, ?_⟩, noChain_of_pairwise _ hpw⟩
    intro ins hins
    exact instOK_of_core pt m s sg t ins hSg ht href (hcore ins hins)
  · cases h

/-- the generated instruction lists satisfy the hypotheses of `GraphInv.transformGraph_ok` -/
theorem genInsts_ok (pt : PTable) (m : Model) (reqs : List TReq) (tis : List TInsts)
    (hwf : WF.modelOK m = true) (hnames : namesUnique m)
    (hreq : ∀ r ∈ reqs, ReqOK pt m r)
    (h : genInsts m reqs = .ok tis) : ∀ ti ∈ tis, TInstsOK pt m ti := by
  have _ := hnames
  intro ti hti
  obtain ⟨r, hr, hri⟩ := GraphFrame.mapM_ok _ _ _ h ti hti
  exact tensorInsts_ok pt m r ti hwf (hreq r hr) hri

/-- **the graph part of `ModelModifier.modify_model` returns a well-formed graph or raises** -/
theorem modify_ok (pt : PTable) (m m' : Model) (reqs : List TReq)
    (hwf : WF.modelOK m = true) (hnames : namesUnique m)
    (hreq : ∀ r ∈ reqs, ReqOK pt m r)
    (h : Perform.modify pt m reqs = .ok m') : WF.modelOK m' = true := by
  unfold Perform.modify at h
  obtain ⟨tis, htis, h⟩ := bind_ok _ _ _ h
  exact transformGraph_ok pt m m' tis hwf (genInsts_ok pt m reqs tis hwf hnames hreq htis) h

end GenInstsOK
