import QProofs.PipelineWF
/-!
# `PipelineWF.NF`: a witness that it is satisfiable, and why the added fields are needed

* `nfA`: a FULLY_CONNECTED-with-bias model and a weight-only recipe satisfy `NF` (machine-checked);
  `quantizePure` succeeds on it (evaluated below).
* Counterexamples (evaluated with `#eval`, outputs pinned by `#guard_msgs`): inputs that satisfy the
  three original fields of `NF` (`wf`, `tagged`, `noBlockwise`) but violate one added field, and on
  which a field of `GenInstsOK.ReqOK` (C, D, F) fails.
* B is a *former* counterexample (RESHAPE of a constant), kept as a regression: since the repair of
  D22 in `Mat.standardOp` it yields a well-formed result, and `NF` has no field about it any more.
  These evaluations are illustrations (compiled evaluation), not part of any proof.
-/
open Graph Mat Cfg Pipeline PipeNF

namespace PipelineWFExample
def T (n : String) (dt : Nat) (sh : List Int) (b : Nat) : Tensor := { name := n, dtype := dt, shape := sh, buffer := b }
def cfgWO : OpCfg := { act := none, weight := some { bits := 8, symmetric := true, gran := .channelwise }, cp := .integer, skipChecks := true }
def stA : Recipe.State := [(".*", [⟨".*", "*", Tables.algMinMax, cfgWO⟩])]
def opA : Op := { code := 0, inputs := [0,1,2], outputs := [3], orig := some 0 }
def sgA : Subgraph := { tensors := [T "x" 0 [1,2] 0, T "w" 0 [2,2] 1, T "b" 0 [2] 2, T "y" 0 [1,2] 0], ops := [opA], inputs := [0], outputs := [3] }
def mA : Model := { subgraphs := [sgA], buffers := [none, some (.inl 0), some (.inl 1)], opcodes := [9], sigs := [] }
def envA : Env := { model := mA, consts := [(1, [1,2,3,4]), (2, [1,1])], adjY := [] }

theorem named (op : Op) (hop : op ∈ sgA.ops) (k : String) (h : OpNamed envA.model op k) :
    op = opA ∧ k = "FULLY_CONNECTED" := by
  have : op = opA := by simpa [sgA] using hop
  subst this
  obtain ⟨code, hc, hn⟩ := h
  have hc' : code = 9 := by
    have : envA.model.opcodes[opA.code]? = some 9 := by decide
    rw [this] at hc; cases hc; rfl
  subst hc'
  have : opNameOfCode 9 = some "FULLY_CONNECTED" := by decide
  rw [this] at hn; cases hn
  exact ⟨rfl, rfl⟩

theorem slots (i : Nat) (a : Int) (h : opA.inputs[i]? = some a) : (i = 0 ∧ a = 0) ∨ (i = 1 ∧ a = 1) ∨ (i = 2 ∧ a = 2) := by
  rcases i with _ | _ | _ | i <;> simp [opA] at h <;> simp [h]

theorem nfA : PipelineWF.NF envA stA := by
  have hsgs : ∀ sg ∈ envA.model.subgraphs, sg = sgA := by
    intro sg h; simpa [envA, mA] using h
  refine ⟨by decide, by decide, ?_, ?_, ?_, ?_, ?_⟩
  · intro e he r hr w hw
    have : e = (".*", [⟨".*", "*", Tables.algMinMax, cfgWO⟩]) := by simpa [stA] using he
    subst this
    have : r = ⟨".*", "*", Tables.algMinMax, cfgWO⟩ := by simpa using hr
    subst this
    have : w = { bits := 8, symmetric := true, gran := .channelwise } := by
      simp [cfgWO] at hw; exact hw.symm
    subst this
    decide
  · intro sg hsg t ht
    rw [hsgs sg hsg] at ht ⊢
    have : t = 0 := by simpa [sgA] using ht
    subst this
    decide
  · intro sg hsg op hop k hk i j a hi hj hne
    rw [hsgs sg hsg] at hop
    obtain ⟨rfl, rfl⟩ := named op hop k hk
    rcases slots i a hi with ⟨rfl, rfl⟩ | ⟨rfl, rfl⟩ | ⟨rfl, rfl⟩ <;>
      rcases slots j _ hj with ⟨rfl, h⟩ | ⟨rfl, h⟩ | ⟨rfl, h⟩ <;> first | rfl | cases h
  · intro sg hsg op hop k hk b a hb h1 h0 hne
    rw [hsgs sg hsg] at hop
    obtain ⟨rfl, rfl⟩ := named op hop k hk
    have hd : dataSlot "FULLY_CONNECTED" = 0 := by decide
    rw [hd] at h0
    rcases slots 1 a h1 with ⟨h, _⟩ | ⟨_, rfl⟩ | ⟨h, _⟩
    · cases h
    · rcases slots 0 _ h0 with ⟨_, h⟩ | ⟨h, _⟩ | ⟨h, _⟩ <;> cases h
    · cases h
  · intro sg hsg op hop k hk b hb
    rw [hsgs sg hsg] at hop
    obtain ⟨rfl, rfl⟩ := named op hop k hk
    have : biasSlot "FULLY_CONNECTED" = some 2 := by decide
    rw [this] at hb; cases hb
    refine ⟨?_, by decide⟩
    intro i hi
    rcases i with _ | _ | i
    · decide
    · decide
    · omega

/-! ## evaluations -/
def f32 (sh : List Nat) (l : List Rat) : Arith.FArr := ⟨⟨sh, l⟩, .f32⟩
def rxAll : String → String → Bool := fun _ _ => true
def cfgSRQ : OpCfg := { act := some { bits := 8, symmetric := false }, weight := some { bits := 8, symmetric := true, gran := .tensorwise }, cp := .integer, skipChecks := true }
def cfgFC : OpCfg := { act := none, weight := some { bits := 16, dtype := .float }, cp := .float, explicitDeq := true, skipChecks := true }
def stOf (alg : String) (c : OpCfg) (op : String := "*") : Recipe.State := [(".*", [⟨".*", op, alg, c⟩])]
def okOf {α β} (x : PyM α) (f : α → β) : Option β := match x with | .ok a => some (f a) | .error _ => none

-- A: the run on the `NF` witness succeeds with a well-formed result of the same skeleton
/-- info: some (true, true) -/
#guard_msgs in
#eval okOf (quantizePure rxAll envA stA none) fun r => (WF.modelOK r.1, Skeleton.sameModelSkeleton mA r.1)

/-! ### B (no `NF` field any more): RESHAPE of a float constant under static-range quantization, the
result tensor having its own (empty) buffer.  Before the repair of D22 the result's producer request
carried the operand's quantized data, `quantize_tensor` wrote it into the result's buffer (turning an
operator result into a constant) and the returned graph was NOT well-formed, which is why `NF` used
to require a non-constant data operand for the pass-through operators.  Now `Mat.standardOp` hands
the results the operand's parameters without the quantized values: the run returns a well-formed
graph of the same skeleton, no producer request carries data, and the constant operand's consumer
request still does. -/
def mB : Model :=
  { subgraphs := [{ tensors := [T "c" 0 [2,2] 1, T "s" 2 [1] 2, T "y" 0 [4] 3],
                    ops := [{ code := 0, inputs := [0,1], outputs := [2], orig := some 0 }],
                    inputs := [], outputs := [2] }],
    buffers := [none, some (.inl 0), some (.inl 1), none], opcodes := [22], sigs := [] }
def envB : Env := { model := mB, consts := [(1, [1,2,3,4])], adjY := [] }
def qsB : Qsvs := [("c", some (f32 [1,1] [1], f32 [1,1] [4])), ("y", some (f32 [1] [1], f32 [1] [4]))]

/-- info: (true, true, some (true, true)) -/
#guard_msgs in
#eval (WF.modelOK mB, Skeleton.origTagged mB,
  okOf (quantizePure rxAll envB (stOf Tables.algMinMax cfgSRQ) (some qsB)) fun r =>
    (WF.modelOK r.1, Skeleton.sameModelSkeleton mB r.1))

/-- info: some (true, true) -/
#guard_msgs in
#eval okOf (generate rxAll envB (stOf Tables.algMinMax cfgSRQ) (some qsB)) fun rs =>
  (rs.all fun r => r.producer.all fun p => p.param.all fun q => !Pipe.hasData q,
   rs.any fun r => r.name == "c" && (r.consumers.getD []).any fun c => c.param.any Pipe.hasData)

/-! ### C (`inputsNotConst`): a constant graph input: producer request `[addDequant]` (INPUT
pseudo-operator) but consumer request `[quantTensor]`: `ReqOK.prodCons` fails. -/
def mC : Model :=
  { subgraphs := [{ tensors := [T "x" 0 [1,2] 1, T "w" 0 [2,2] 2, T "y" 0 [1,2] 0],
                    ops := [{ code := 0, inputs := [0,1,-1], outputs := [2], orig := some 0 }],
                    inputs := [0], outputs := [2] }],
    buffers := [none, some (.inl 0), some (.inl 1)], opcodes := [9], sigs := [] }
def envC : Env := { model := mC, consts := [(1, [1,2]), (2, [1,2,3,4])], adjY := [] }
def qsC : Qsvs := [("x", some (f32 [1,1] [1], f32 [1,1] [2])), ("w", some (f32 [1,1] [1], f32 [1,1] [4])),
  ("y", some (f32 [1,1] [1], f32 [1,1] [4]))]

/-- info: (true, true, some true) -/
#guard_msgs in
#eval (WF.modelOK mC, Skeleton.origTagged mC,
  okOf (generate rxAll envC (stOf Tables.algMinMax cfgSRQ) (some qsC)) fun rs => rs.any fun r =>
    r.producer.any (fun p => p.xfs == [.addDequant]) && (r.consumers.getD []).any (fun c => c.xfs == [.quantTensor]))

/-! ### D (`mandatory`): float casting of a FULLY_CONNECTED whose data operand is `-1`: Python
indexing reads the *last* tensor `z`, which gets a consumer request of operator 0 although operator
0 does not consume it: `ReqOK.consReal` fails. -/
def mD : Model :=
  { subgraphs := [{ tensors := [T "w" 0 [2,2] 1, T "y" 0 [1,2] 0, T "z" 0 [1,2] 0],
                    ops := [{ code := 0, inputs := [-1,0], outputs := [1], orig := some 0 }],
                    inputs := [2], outputs := [1] }],
    buffers := [none, some (.inl 0)], opcodes := [9], sigs := [] }
def envD : Env := { model := mD, consts := [(1, [1,2,3,4])], adjY := [] }

/-- info: (true, true, some true) -/
#guard_msgs in
#eval (WF.modelOK mD, Skeleton.origTagged mD,
  okOf (generate rxAll envD (stOf Tables.algFloatCasting cfgFC "FULLY_CONNECTED") none) fun rs => rs.any fun r =>
    r.name == "z" && (r.consumers.getD []).any (fun c => c.opId == 0))

/-! ### F (`slotRoles`): a RESHAPE whose shape operand is its (float, non-constant) data operand: two
different consumer requests of operator 0 for one tensor: `ReqOK.consSameOp` fails. -/
def mF : Model :=
  { subgraphs := [{ tensors := [T "x" 0 [2] 0, T "y" 0 [2] 0],
                    ops := [{ code := 0, inputs := [0,0], outputs := [1], orig := some 0 }],
                    inputs := [0], outputs := [1] }],
    buffers := [none], opcodes := [22], sigs := [] }
def envF : Env := { model := mF, consts := [], adjY := [] }
def qsF : Qsvs := [("x", some (f32 [1] [1], f32 [1] [2])), ("y", some (f32 [1] [1], f32 [1] [4]))]

/-- info: (true, true, some true) -/
#guard_msgs in
#eval (WF.modelOK mF, Skeleton.origTagged mF,
  okOf (generate rxAll envF (stOf Tables.algMinMax cfgSRQ) (some qsF)) fun rs => rs.any fun r =>
    r.name == "x" && (r.consumers.getD []).any (fun c => c.opId == 0 && c.xfs == [.addQuant]) &&
      (r.consumers.getD []).any (fun c => c.opId == 0 && c.xfs == [.noQuant]))

end PipelineWFExample
