import QProofs.ArithLemmas
import Mathlib.Tactic.NormNum
/-!
# Scalar totality of the arithmetic (C08, numeric half)

Powers of two inside the normal exponent range are fixed points of `Prec.rn`; with monotonicity
(`PrecL.rn_mono`) this bounds every rounded intermediate by a power of two, without any loss.

`NumT.B = 2^63`: the magnitude bound on data and statistics under which no intermediate of
`zpScale1`, `quantize1`, the bias-scale product and the bias quantization leaves the float32 range.
-/
open Num Arith PrecL ArithL

set_option autoImplicit false

namespace NumT

/-! ## powers of two are representable -/

theorem two_pos (k : Int) : (0:Rat) < (2:Rat)^k := zpow_pos (by norm_num) _

theorem flog2_two_zpow (k : Int) : flog2 ((2:Rat)^k) = k := by
  obtain ⟨h1, h2⟩ := Rounding.flog2_spec ((2:Rat)^k) (two_pos k)
  have a := (zpow_le_zpow_iff_right₀ (by norm_num : (1:Rat) < 2)).mp h1
  have b := (zpow_lt_zpow_iff_right₀ (by norm_num : (1:Rat) < 2)).mp h2
  omega

theorem rnPos_two_zpow (p : Nat) (hp : 1 ≤ p) (emin k : Int) (hk : emin ≤ k) :
    rnPos p emin ((2:Rat)^k) = (2:Rat)^k := by
  unfold rnPos
  simp only [flog2_two_zpow, max_eq_left hk]
  have hdiv : (2:Rat)^k / (2:Rat)^(k - ((p:Int) - 1)) = (2:Rat)^(p-1) := by
    rw [← zpow_sub₀ (by norm_num), ← zpow_natCast]; congr 1
    have : ((p - 1 : Nat) : Int) = (p:Int) - 1 := by omega
    rw [this]; ring
  rw [hdiv, Rounding.rhe_two_pow]
  have : (((2:Int)^(p-1) : Int) : Rat) = (2:Rat)^(p-1) := by push_cast; rfl
  rw [this, ← hdiv]
  have hq : (2:Rat)^(k - ((p:Int) - 1)) ≠ 0 := ne_of_gt (two_pos _)
  field_simp

/-- **a power of two in the normal range is a floating-point number** -/
theorem rn_two_zpow (pr : Prec) (k : Int) (hk : pr.emin ≤ k) : pr.rn ((2:Rat)^k) = (2:Rat)^k := by
  by_cases he : pr = .exact
  · subst he; rfl
  · rw [rn_eq pr he]
    unfold Num.rn
    rw [if_neg (ne_of_gt (two_pos k)), if_pos (two_pos k)]
    exact rnPos_two_zpow pr.p (p_pos pr) pr.emin k hk

theorem rn_neg (pr : Prec) (x : Rat) : pr.rn (-x) = - pr.rn x := by
  by_cases he : pr = .exact
  · subst he; rfl
  · rw [rn_eq pr he, rn_eq pr he]
    unfold Num.rn
    rcases lt_trichotomy x 0 with h | h | h
    · rw [if_neg (by linarith : ¬ -x = 0), if_pos (by linarith : -x > 0), if_neg (ne_of_lt h),
        if_neg (by linarith : ¬ x > 0)]
      simp
    · subst h; simp
    · rw [if_neg (by linarith : ¬ -x = 0), if_neg (by linarith : ¬ -x > 0), if_neg (ne_of_gt h), if_pos h]
      simp

/-- the exponent `k` is normal in the format (`exact` has no exponent range) -/
abbrev ExpOK (pr : Prec) (k : Int) : Prop := pr = .exact ∨ pr.emin ≤ k

theorem rn_two_zpow' (pr : Prec) (k : Int) (hk : ExpOK pr k) : pr.rn ((2:Rat)^k) = (2:Rat)^k := by
  rcases hk with rfl | hk
  · rfl
  · exact rn_two_zpow pr k hk

theorem rn_le_pow (pr : Prec) (k : Int) (hk : ExpOK pr k) {x : Rat} (h : x ≤ (2:Rat)^k) : pr.rn x ≤ (2:Rat)^k := by
  have := rn_mono pr h
  rwa [rn_two_zpow' pr k hk] at this

theorem rn_ge_pow (pr : Prec) (k : Int) (hk : ExpOK pr k) {x : Rat} (h : (2:Rat)^k ≤ x) : (2:Rat)^k ≤ pr.rn x := by
  have := rn_mono pr h
  rwa [rn_two_zpow' pr k hk] at this

theorem rn_abs_le_pow (pr : Prec) (k : Int) (hk : ExpOK pr k) {x : Rat} (h : |x| ≤ (2:Rat)^k) :
    |pr.rn x| ≤ (2:Rat)^k := by
  obtain ⟨h1, h2⟩ := abs_le.mp h
  refine abs_le.mpr ⟨?_, rn_le_pow pr k hk h2⟩
  have := rn_le_pow pr k hk (x := -x) (by linarith)
  rw [rn_neg] at this
  linarith

/-- the formats of scales and statistics: float32, float64, or `exact` (statistics of integer tensors; python numbers) -/
abbrev F3264 (pr : Prec) : Prop := pr = .f32 ∨ pr = .f64 ∨ pr = .exact

theorem emin_le_of (pr : Prec) (hpr : F3264 pr) (k : Int) (hk : -126 ≤ k) : ExpOK pr k := by
  rcases hpr with rfl | rfl | rfl
  · right; simp only [Prec.emin]; omega
  · right; simp only [Prec.emin]; omega
  · left; rfl

theorem F3264.join {a b : Prec} (ha : F3264 a) (hb : F3264 b) : F3264 (a.join b) := by
  rcases ha with rfl | rfl | rfl <;> rcases hb with rfl | rfl | rfl <;> simp [F3264, Prec.join]

theorem F3264.promote {a : Prec} (ha : F3264 a) (w : Nat) : F3264 (promoteInt a w) := by
  rcases ha with rfl | rfl | rfl
  · unfold promoteInt; simp only []; split <;> simp [F3264]
  · right; left; rfl
  · right; right; rfl

/-- whatever stays within `2^127` is finite in float32 and float64 -/
theorem isFin_of_abs_le (pr : Prec) (hpr : F3264 pr) {x : Rat} (h : |x| ≤ (2:Rat)^(127:Int)) : pr.isFin x = true := by
  obtain ⟨h1, h2⟩ := abs_le.mp h
  rcases hpr with rfl | rfl | rfl
  · have hm : (2:Rat)^(127:Int) ≤ Prec.f32.maxFinite := by norm_num [Prec.maxFinite, Prec.p, Prec.emax]
    simp only [Prec.isFin, Bool.and_eq_true, decide_eq_true_eq]
    constructor <;> linarith
  · have hm : (2:Rat)^(127:Int) ≤ Prec.f64.maxFinite := by
      have e : Prec.f64.maxFinite = ((2:Rat)^(53:Int) - 1) * (2:Rat)^(971:Int) := by
        norm_num [Prec.maxFinite, Prec.p, Prec.emax]
      rw [e]
      have h971 : (2:Rat)^(127:Int) ≤ (2:Rat)^(971:Int) := zpow_le_zpow_right₀ (by norm_num) (by norm_num)
      have h53 : (1:Rat) ≤ (2:Rat)^(53:Int) - 1 := by norm_num
      have hpos := two_pos 971
      calc (2:Rat)^(127:Int) ≤ 1 * (2:Rat)^(971:Int) := by rw [one_mul]; exact h971
        _ ≤ ((2:Rat)^(53:Int) - 1) * (2:Rat)^(971:Int) := mul_le_mul_of_nonneg_right h53 (le_of_lt hpos)
    simp only [Prec.isFin, Bool.and_eq_true, decide_eq_true_eq]
    constructor <;> linarith
  · rfl

theorem pow_le_pow {a b : Int} (h : a ≤ b) : (2:Rat)^a ≤ (2:Rat)^b := zpow_le_zpow_right₀ (by norm_num) h

theorem pow_mul (a b : Int) : (2:Rat)^a * (2:Rat)^b = (2:Rat)^(a + b) := (zpow_add₀ (by norm_num) a b).symm

/-! ## the bound -/

/-- **the magnitude bound**: `2^63 ≈ 9.2e18` -/
def B : Rat := (2:Rat)^(63:Int)

theorem B_pos : 0 < B := two_pos 63
theorem one_le_B : 1 ≤ B := by unfold B; norm_num

/-- lower bound of every scale `tensor_zp_scale_from_min_max` returns: `2^-30` -/
def sLo : Rat := (2:Rat)^(-30:Int)

theorem sLo_pos : 0 < sLo := two_pos _

theorem minBound_ge14 (pr : Prec) (hpr : F3264 pr) : (2:Rat)^(-14:Int) ≤ minBound pr := by
  have h0 : (2:Rat)^(-14:Int) ≤ 1/10000 := by norm_num
  have h64 := rn_ge_pow .f64 (-14) (.inr (by simp [Prec.emin])) h0
  have := rn_ge_pow pr (-14) (emin_le_of pr hpr _ (by norm_num)) h64
  unfold minBound weakScalar
  rcases hpr with rfl | rfl | rfl
  · exact this
  · exact this
  · exact h0

theorem minBound_le1 (pr : Prec) (hpr : F3264 pr) : minBound pr ≤ 1 := by
  have h0 : (1:Rat)/10000 ≤ (2:Rat)^(0:Int) := by norm_num
  have h64 := rn_le_pow .f64 0 (.inr (by simp [Prec.emin])) h0
  have := rn_le_pow pr 0 (emin_le_of pr hpr _ (by norm_num)) h64
  unfold minBound weakScalar
  rcases hpr with rfl | rfl | rfl
  · simpa using this
  · simpa using this
  · norm_num

theorem absR_le {x b : Rat} (h : |x| ≤ b) : absR x ≤ b := by rw [absR_eq]; exact h
theorem maxR_le {a b c : Rat} (h1 : a ≤ c) (h2 : b ≤ c) : maxR a b ≤ c := by unfold maxR; split <;> assumption
theorem le_minR {a b c : Rat} (h1 : c ≤ a) (h2 : c ≤ b) : c ≤ minR a b := by unfold minR; split <;> assumption

/-! ## `tensor_zp_scale_from_min_max`, one channel -/

/-- **the scalar core of `tensor_zp_scale_from_min_max` is total on bounded statistics**, for 2 to 16
    bits, symmetric or not, `min ≤ max` or not; the scale it returns lies in `[2^-30, 2^63]` -/
theorem zpScale1_total (pr : Prec) (hpr : F3264 pr) (bits : Nat) (hb2 : 2 ≤ bits) (hb16 : bits ≤ 16) (sym : Bool)
    (mn mx : Rat) (hmn : |mn| ≤ B) (hmx : |mx| ≤ B) :
    ∃ z s, zpScale1 pr bits sym mn mx = .ok (z, s) ∧ sLo ≤ s ∧ s ≤ B := by
  have hmb1 := minBound_ge14 pr hpr
  have hmb2 := minBound_le1 pr hpr
  obtain ⟨hp1, hp2⟩ := pow_bounds bits hb2 hb16
  have hqmax := qmaxF_eq bits (by omega)
  have hqmin := qminF_eq bits (by omega)
  have e63 : ExpOK pr 63 := emin_le_of pr hpr _ (by norm_num)
  have e30 : ExpOK pr (-30) := emin_le_of pr hpr _ (by norm_num)
  have h14 : (0:Rat) < (2:Rat)^(-14:Int) := two_pos _
  have hB127 : B ≤ (2:Rat)^(127:Int) := pow_le_pow (by norm_num)
  obtain ⟨hmn1, hmn2⟩ := abs_le.mp hmn
  obtain ⟨hmx1, hmx2⟩ := abs_le.mp hmx
  cases sym with
  | true =>
    -- symmetric
    have hb1 : minBound pr ≤ symBound pr mn mx := maxR_ge_right _ _
    have hb2' : symBound pr mn mx ≤ B :=
      maxR_le (maxR_le (absR_le hmn) (absR_le hmx)) (le_trans hmb2 one_le_B)
    have hq1 : (1:Rat) ≤ qmaxF bits := by rw [hqmax]; linarith
    have hq2 : qmaxF bits ≤ (2:Rat)^(16:Int) := by rw [hqmax]; norm_num; linarith
    have hq0 : 0 < qmaxF bits := by linarith
    have hraw1 : sLo ≤ symBound pr mn mx / qmaxF bits := by
      rw [le_div_iff₀ hq0]
      calc sLo * qmaxF bits ≤ sLo * (2:Rat)^(16:Int) := mul_le_mul_of_nonneg_left hq2 (le_of_lt sLo_pos)
        _ = (2:Rat)^(-14:Int) := by unfold sLo; rw [pow_mul]; norm_num
        _ ≤ symBound pr mn mx := le_trans hmb1 hb1
    have hraw2 : symBound pr mn mx / qmaxF bits ≤ B := by
      rw [div_le_iff₀ hq0]
      have := B_pos
      nlinarith
    have hs1 : sLo ≤ symScale pr bits mn mx := rn_ge_pow pr _ e30 hraw1
    have hs2 : symScale pr bits mn mx ≤ B := rn_le_pow pr _ e63 hraw2
    have hfin : fin pr (symScale pr bits mn mx) = true :=
      isFin_of_abs_le pr hpr (by
        rw [abs_of_nonneg (le_trans (le_of_lt sLo_pos) hs1)]; exact le_trans hs2 hB127)
    refine ⟨0, symScale pr bits mn mx, ?_, hs1, hs2⟩
    unfold zpScale1
    simp only [if_true, hfin]
  | false =>
    -- asymmetric
    have hD0 : 0 ≤ maxR mx 0 - minR mn 0 := by
      have := maxR_ge_right mx 0
      have := minR_le_right mn 0
      linarith
    have hD1 : maxR mx 0 - minR mn 0 ≤ (2:Rat)^(64:Int) := by
      have a : maxR mx 0 ≤ B := maxR_le hmx2 (le_of_lt B_pos)
      have b : -B ≤ minR mn 0 := le_minR hmn1 (by linarith [B_pos])
      have : (2:Rat)^(64:Int) = 2 * B := by unfold B; norm_num
      rw [this]; linarith
    have e64 : ExpOK pr 64 := emin_le_of pr hpr _ (by norm_num)
    have hd0 : 0 ≤ asymDiff pr mn mx := rn_nonneg pr hD0
    have hd1 : asymDiff pr mn mx ≤ (2:Rat)^(64:Int) := rn_le_pow pr _ e64 hD1
    have hb1 : minBound pr ≤ asymBound pr mn mx := maxR_ge_right _ _
    have hb2' : asymBound pr mn mx ≤ (2:Rat)^(64:Int) :=
      maxR_le hd1 (le_trans hmb2 (by norm_num))
    have hN1 : (3:Rat) ≤ qmaxF bits - qminF bits := by rw [hqmax, hqmin]; linarith
    have hN2 : qmaxF bits - qminF bits ≤ (2:Rat)^(16:Int) := by rw [hqmax, hqmin]; norm_num; linarith
    have hN0 : 0 < qmaxF bits - qminF bits := by linarith
    have hraw1 : sLo ≤ asymBound pr mn mx / (qmaxF bits - qminF bits) := by
      rw [le_div_iff₀ hN0]
      calc sLo * (qmaxF bits - qminF bits) ≤ sLo * (2:Rat)^(16:Int) := mul_le_mul_of_nonneg_left hN2 (le_of_lt sLo_pos)
        _ = (2:Rat)^(-14:Int) := by unfold sLo; rw [pow_mul]; norm_num
        _ ≤ asymBound pr mn mx := le_trans hmb1 hb1
    have hraw2 : asymBound pr mn mx / (qmaxF bits - qminF bits) ≤ B := by
      rw [div_le_iff₀ hN0]
      have : (2:Rat)^(64:Int) = 2 * B := by unfold B; norm_num
      have := B_pos
      nlinarith
    have hs1 : sLo ≤ asymScale pr bits mn mx := rn_ge_pow pr _ e30 hraw1
    have hs2 : asymScale pr bits mn mx ≤ B := rn_le_pow pr _ e63 hraw2
    have hs0 : 0 < asymScale pr bits mn mx := lt_of_lt_of_le sLo_pos hs1
    -- the quotient
    have hm0 : minR mn 0 ≤ 0 := minR_le_right mn 0
    have hm1 : -B ≤ minR mn 0 := le_minR hmn1 (by linarith [B_pos])
    have hquo : |minR mn 0 / asymScale pr bits mn mx| ≤ (2:Rat)^(93:Int) := by
      rw [abs_div, abs_of_pos hs0, div_le_iff₀ hs0, abs_of_nonpos hm0]
      calc -minR mn 0 ≤ B := by linarith
        _ = (2:Rat)^(93:Int) * sLo := by unfold B sLo; rw [pow_mul]; norm_num
        _ ≤ (2:Rat)^(93:Int) * asymScale pr bits mn mx := mul_le_mul_of_nonneg_left hs1 (le_of_lt (two_pos _))
    have e93 : ExpOK pr 93 := emin_le_of pr hpr _ (by norm_num)
    have hq : |asymQuo pr bits mn mx| ≤ (2:Rat)^(93:Int) := rn_abs_le_pow pr _ e93 hquo
    have e94 : ExpOK pr 94 := emin_le_of pr hpr _ (by norm_num)
    have hzraw : |qminF bits - asymQuo pr bits mn mx| ≤ (2:Rat)^(94:Int) := by
      obtain ⟨a, b⟩ := abs_le.mp hq
      have h94 : (2:Rat)^(94:Int) = 2 * (2:Rat)^(93:Int) := by
        rw [show (94:Int) = 1 + 93 by norm_num, ← pow_mul]; norm_num
      have h93 : (32768:Rat) ≤ (2:Rat)^(93:Int) := by
        calc (32768:Rat) = (2:Rat)^(15:Int) := by norm_num
          _ ≤ (2:Rat)^(93:Int) := pow_le_pow (by norm_num)
      rw [hqmin, h94]
      refine abs_le.mpr ⟨by linarith, by linarith⟩
    have hz : |asymZpF pr bits mn mx| ≤ (2:Rat)^(94:Int) := rn_abs_le_pow pr _ e94 hzraw
    have f1 : fin pr (asymDiff pr mn mx) = true :=
      isFin_of_abs_le pr hpr (by rw [abs_of_nonneg hd0]; exact le_trans hd1 (pow_le_pow (by norm_num)))
    have f2 : fin pr (asymScale pr bits mn mx) = true :=
      isFin_of_abs_le pr hpr (by rw [abs_of_pos hs0]; exact le_trans hs2 hB127)
    have f3 : fin pr (asymQuo pr bits mn mx) = true :=
      isFin_of_abs_le pr hpr (le_trans hq (pow_le_pow (by norm_num)))
    have f4 : fin pr (asymZpF pr bits mn mx) = true :=
      isFin_of_abs_le pr hpr (le_trans hz (pow_le_pow (by norm_num)))
    refine ⟨asymZp pr bits mn mx, asymScale pr bits mn mx, ?_, hs1, hs2⟩
    unfold zpScale1
    simp only [Bool.false_eq_true, if_false, f1, f2, f3, f4, Bool.and_self, if_true]

/-! ## `uniform_quantize`, one element -/

/-- **the scalar core of `uniform_quantize` is total**: data within `2^63`, a scale of at least `2^-60`
    (every scale of `zpScale1_total`, and every bias scale `s_in · s_w`), a zero point within the
    64-bit range -/
theorem quantize1_total (xpr spr : Prec) (hx : F3264 xpr) (hs : F3264 spr) (zw bits : Nat) (narrow : Bool)
    (x scale : Rat) (zp : Int) (hxb : |x| ≤ B) (hs1 : (2:Rat)^(-60:Int) ≤ scale)
    (hz : |(zp : Rat)| ≤ (2:Rat)^(63:Int)) :
    ∃ q, quantize1 xpr spr zw bits narrow x scale zp = .ok q := by
  have hs0 : 0 < scale := lt_of_lt_of_le (two_pos _) hs1
  have hj := F3264.join hx hs
  have hpj := F3264.promote hj zw
  -- 1/scale
  have hinv0 : 0 ≤ 1 / scale := le_of_lt (one_div_pos.mpr hs0)
  have hinv1 : 1 / scale ≤ (2:Rat)^(60:Int) := by
    rw [div_le_iff₀ hs0]
    calc (1:Rat) = (2:Rat)^(60:Int) * (2:Rat)^(-60:Int) := by rw [pow_mul]; norm_num
      _ ≤ (2:Rat)^(60:Int) * scale := mul_le_mul_of_nonneg_left hs1 (le_of_lt (two_pos _))
  have hi0 : 0 ≤ qInv spr scale := rn_nonneg spr hinv0
  have hi1 : qInv spr scale ≤ (2:Rat)^(60:Int) := rn_le_pow spr _ (emin_le_of spr hs _ (by norm_num)) hinv1
  have f1 : fin spr (qInv spr scale) = true :=
    isFin_of_abs_le spr hs (by rw [abs_of_nonneg hi0]; exact le_trans hi1 (pow_le_pow (by norm_num)))
  -- x / scale
  have hpraw : |x * qInv spr scale| ≤ (2:Rat)^(123:Int) := by
    rw [abs_mul, abs_of_nonneg hi0]
    calc |x| * qInv spr scale ≤ B * (2:Rat)^(60:Int) := mul_le_mul hxb hi1 hi0 (le_of_lt B_pos)
      _ = (2:Rat)^(123:Int) := by unfold B; rw [pow_mul]; norm_num
  have hp : |qProd xpr spr x scale| ≤ (2:Rat)^(123:Int) :=
    rn_abs_le_pow _ _ (emin_le_of _ hj _ (by norm_num)) hpraw
  have f2 : fin (xpr.join spr) (qProd xpr spr x scale) = true :=
    isFin_of_abs_le _ hj (le_trans hp (pow_le_pow (by norm_num)))
  -- + zero point
  have hsraw : |qProd xpr spr x scale + (zp : Rat)| ≤ (2:Rat)^(124:Int) := by
    have h124 : (2:Rat)^(124:Int) = 2 * (2:Rat)^(123:Int) := by
      rw [show (124:Int) = 1 + 123 by norm_num, ← pow_mul]; norm_num
    have h63 : (2:Rat)^(63:Int) ≤ (2:Rat)^(123:Int) := pow_le_pow (by norm_num)
    rw [h124]
    calc |qProd xpr spr x scale + (zp : Rat)| ≤ |qProd xpr spr x scale| + |(zp : Rat)| := abs_add_le _ _
      _ ≤ (2:Rat)^(123:Int) + (2:Rat)^(63:Int) := add_le_add hp hz
      _ ≤ 2 * (2:Rat)^(123:Int) := by linarith
  have hsum : |qSum xpr spr zw x scale zp| ≤ (2:Rat)^(124:Int) :=
    rn_abs_le_pow _ _ (emin_le_of _ hpj _ (by norm_num)) hsraw
  have f3 : fin (promoteInt (xpr.join spr) zw) (qSum xpr spr zw x scale zp) = true :=
    isFin_of_abs_le _ hpj (le_trans hsum (pow_le_pow (by norm_num)))
  refine ⟨roundClip bits narrow (qSum xpr spr zw x scale zp), ?_⟩
  unfold quantize1
  rw [if_neg (ne_of_gt hs0)]
  simp only [f1, f2, f3, Bool.and_self, if_true]

theorem sLo_ge60 : (2:Rat)^(-60:Int) ≤ sLo := pow_le_pow (by norm_num)

/-! ## the bias scale `s_in · s_w` -/

/-- **the product of two scales neither overflows nor underflows to 0**: for scales in `[2^-30, 2^63]`
    (what `zpScale1_total` returns) the rounded product lies in `[2^-60, 2^126]` -/
theorem scaleProd_total (pr : Prec) (hpr : F3264 pr) (a b : Rat) (ha1 : sLo ≤ a) (ha2 : a ≤ B) (hb1 : sLo ≤ b) (hb2 : b ≤ B) :
    ∃ s, pr.chk (a * b) = .ok s ∧ (2:Rat)^(-60:Int) ≤ s := by
  have ha0 : 0 < a := lt_of_lt_of_le sLo_pos ha1
  have hb0 : 0 < b := lt_of_lt_of_le sLo_pos hb1
  have h1 : (2:Rat)^(-60:Int) ≤ a * b := by
    calc (2:Rat)^(-60:Int) = sLo * sLo := by unfold sLo; rw [pow_mul]; norm_num
      _ ≤ a * b := mul_le_mul ha1 hb1 (le_of_lt sLo_pos) (le_of_lt ha0)
  have h2 : a * b ≤ (2:Rat)^(126:Int) := by
    calc a * b ≤ B * B := mul_le_mul ha2 hb2 (le_of_lt hb0) (le_of_lt B_pos)
      _ = (2:Rat)^(126:Int) := by unfold B; rw [pow_mul]; norm_num
  have r1 := rn_ge_pow pr _ (emin_le_of pr hpr _ (by norm_num)) h1
  have r2 := rn_le_pow pr _ (emin_le_of pr hpr _ (by norm_num)) h2
  have hf : pr.isFin (pr.rn (a * b)) = true :=
    isFin_of_abs_le pr hpr (by
      rw [abs_of_nonneg (le_trans (le_of_lt (two_pos _)) r1)]
      exact le_trans r2 (pow_le_pow (by norm_num)))
  refine ⟨pr.rn (a * b), ?_, r1⟩
  unfold Prec.chk
  rw [if_pos hf]

/-! ## the float16 cast -/

theorem f16_max : Prec.f16.maxFinite = 65504 := by norm_num [Prec.maxFinite, Prec.p, Prec.emax]

theorem rn16_max : Prec.f16.rn 65504 = 65504 := by decide +kernel

/-- **the float16 cast is total on `[-65504, 65504]`** (the finite float16 range; beyond `65520` IEEE
    arithmetic yields `inf`, which the model reports as `nonfinite`: "outside the model") -/
theorem f16_total (x : Rat) (h : |x| ≤ 65504) : ∃ y, Prec.f16.chk x = .ok y := by
  obtain ⟨h1, h2⟩ := abs_le.mp h
  have a : Prec.f16.rn x ≤ 65504 := by
    have := rn_mono .f16 h2
    rwa [rn16_max] at this
  have b : -65504 ≤ Prec.f16.rn x := by
    have := rn_mono .f16 (show -x ≤ 65504 by linarith)
    rw [rn_neg, rn16_max] at this
    linarith
  refine ⟨Prec.f16.rn x, ?_⟩
  unfold Prec.chk
  have : Prec.f16.isFin (Prec.f16.rn x) = true := by
    simp only [Prec.isFin, f16_max, Bool.and_eq_true, decide_eq_true_eq]
    exact ⟨a, b⟩
  rw [if_pos this]

/-! ## integers -/

theorem wrapInt_abs (w : Nat) (hw : 1 ≤ w) (z : Int) : |((wrapInt w z : Int) : Rat)| ≤ (2:Rat)^(w-1) := by
  have hm : (2:Int)^w = 2 * (2:Int)^(w-1) := by
    conv_lhs => rw [show w = (w-1) + 1 by omega]
    rw [pow_succ]; ring
  have hpos : (0:Int) < (2:Int)^(w-1) := by positivity
  have h1 := Int.emod_nonneg (z + (2:Int)^(w-1)) (show (2:Int)^w ≠ 0 by positivity)
  have h2 := Int.emod_lt_of_pos (z + (2:Int)^(w-1)) (show (0:Int) < (2:Int)^w by positivity)
  have hr : -((2:Int)^(w-1)) ≤ wrapInt w z ∧ wrapInt w z ≤ (2:Int)^(w-1) := by
    unfold wrapInt
    simp only []
    omega
  have : |wrapInt w z| ≤ (2:Int)^(w-1) := abs_le.mpr hr
  exact_mod_cast this

theorem storageBits_cases (bits : Nat) :
    storageBits bits = 8 ∨ storageBits bits = 16 ∨ storageBits bits = 32 ∨ storageBits bits = 64 := by
  unfold storageBits; split_ifs <;> simp

/-- a zero point stored in the storage type of `bits` is within the 64-bit range -/
theorem storage_zp_abs (bits : Nat) (z : Int) : |((wrapInt (storageBits bits) z : Int) : Rat)| ≤ (2:Rat)^(63:Int) := by
  have hw : 1 ≤ storageBits bits ∧ storageBits bits ≤ 64 := by
    rcases storageBits_cases bits with h | h | h | h <;> omega
  refine le_trans (wrapInt_abs _ hw.1 z) ?_
  rw [← zpow_natCast]
  exact pow_le_pow (by omega)

/-! ## closed witnesses -/

/-- beyond the float32 range the formula really fails (finding D14: IEEE arithmetic yields `inf`) … -/
def isNonfinite {α} (x : PyM α) : Bool := match x with | .error .nonfinite => true | _ => false

theorem zpScale1_overflow :
    isNonfinite (zpScale1 .f32 8 false (-(2:Rat)^127) ((2:Rat)^127)) = true ∧
    isNonfinite (zpScale1 .f32 8 true (-(2:Rat)^135) ((2:Rat)^135)) = true := by
  constructor <;> decide +kernel

/-- … `min ≤ max` is NOT needed: inverted statistics are accepted (the range is widened to contain 0) -/
theorem zpScale1_inverted :
    (match zpScale1 .f32 8 false 5 (-3) with | .ok _ => true | .error _ => false) = true := by decide +kernel

/-- a scale that underflows to 0 makes `uniform_quantize` fail (`1/scale` is infinite) -/
theorem quantize1_zero_scale : quantize1 .f32 .f32 32 32 true 1 0 0 = .error .nonfinite := rfl

end NumT
