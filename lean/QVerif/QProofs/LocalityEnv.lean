import QProofs.Locality
import QProofs.PipeGenEq
/-!
# C19 — the materialisation of one operator reads the environment only through the constant data
and the `adj_y` flag of that operator

`EnvEq env env1 oi oi1`: the two environments have the same buffer table and constant data, the two
operator records differ at most in the subgraph index, and the `adj_y` flag of the operator is the
same in both.  Then every function of `Mat` below `materializeOp` computes the same thing.
-/
open Graph Mat Cfg Pipe

namespace Locality

structure EnvEq (env env1 : Env) (oi oi1 : OpInfo) : Prop where
  bufs : env1.model.buffers = env.model.buffers
  consts : env1.consts = env.consts
  adj : opAdjY env1 oi1 = opAdjY env oi
  op : oi1.op = oi.op
  opName : oi1.opName = oi.opName
  opId : oi1.opId = oi.opId
  cfg : oi1.cfg = oi.cfg

variable {env env1 : Env} {oi oi1 : OpInfo}

theorem constData_env (h : EnvEq env env1 oi oi1) (t : Tensor) : constData env1 t = constData env t := by
  unfold constData
  rw [h.bufs, h.consts]

theorem initMinMax_env (h : EnvEq env env1 oi oi1) (t : Tensor) (d : Nd.Arr Rat) :
    initMinMax env1 oi1 t d = initMinMax env oi t d := by
  unfold initMinMax
  simp only [h.adj, h.opName, h.cfg]

theorem tensorQuantParams_env (h : EnvEq env env1 oi oi1) (mm : Qsv) (tc : TCfg) (c : Option (Nd.Arr Rat)) :
    tensorQuantParams env1 oi1 mm tc c = tensorQuantParams env oi mm tc c := by
  unfold tensorQuantParams
  simp only [h.adj, h.opName]

theorem mkReq_env (h : EnvEq env env1 oi oi1) (n : String) (b : Bool) (p : Option Param) (c : Bool) :
    mkReq n oi1 b p c = mkReq n oi b p c := by
  unfold mkReq
  simp only [h.cfg, h.opId]

theorem wrapper_env (h : EnvEq env env1 oi oi1) (qs : Qsvs) (t : Tensor) (b : Bool) (g : Option Param) :
    wrapper env1 qs oi1 t b g = wrapper env qs oi t b g := by
  unfold wrapper
  simp only [constData_env h, initMinMax_env h, tensorQuantParams_env h, mkReq_env h, h.opName, h.cfg]

theorem standardOp_env (h : EnvEq env env1 oi oi1) (sg : Subgraph) (qs : Qsvs) (con : Constraint)
    (gi go : List Nat) : standardOp env1 sg qs oi1 con gi go = standardOp env sg qs oi con gi go := by
  unfold standardOp
  simp only [wrapper_env h, h.op, h.opId]

theorem biasFor_env (h : EnvEq env env1 oi oi1) (sg : Subgraph) (reqs : List CReq) (a b c : Nat) :
    biasFor env1 sg oi1 reqs a b c = biasFor env sg oi reqs a b c := by
  unfold biasFor
  simp only [constData_env h, mkReq_env h, h.op, h.cfg]

theorem fixedRangeOp_env (h : EnvEq env env1 oi oi1) (sg : Subgraph) (qs : Qsvs) (b : Bool) :
    fixedRangeOp env1 sg qs oi1 b = fixedRangeOp env sg qs oi b := by
  unfold fixedRangeOp
  simp only [standardOp_env h, h.op, h.cfg]

theorem floatCastOp_env (h : EnvEq env env1 oi oi1) (sg : Subgraph) (a b c : Nat) :
    floatCastOp env1 sg oi1 a b c = floatCastOp env sg oi a b c := by
  unfold floatCastOp
  simp only [constData_env h, h.op, h.opId]

theorem materializeOp_env (h : EnvEq env env1 oi oi1) (sg : Subgraph) (qs : Qsvs) (alg fn : String) :
    materializeOp env1 sg qs oi1 alg fn = materializeOp env sg qs oi alg fn := by
  unfold materializeOp
  simp only [standardOp_env h, biasFor_env h, fixedRangeOp_env h, floatCastOp_env h]

end Locality
