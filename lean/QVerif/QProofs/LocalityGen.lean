import QProofs.Locality
import QProofs.PipeNameMap
/-!
# C19 — instruction generation is local

`InstGen.genInsts` looks every request up in the name map of the WHOLE model.  With model-wide unique
tensor names the entry found for a tensor of subgraph `j` is the graph information of that tensor
inside subgraph `j`; the same request given to the extracted single-subgraph model finds the same
information, with subgraph index `0`.  Hence the instructions generated for the tensors of subgraph
`j` (`Locality.restrict`) are exactly the instructions generated, for the extracted model, from the
requests that name a tensor of subgraph `j` (`Locality.restrictReqs`).
-/
open Graph InstGen Perform GenInstsOK

namespace Locality

/-! ## vocabulary -/

/-- `n` is the name of a tensor of `sg` -/
def nameIn (sg : Subgraph) (n : String) : Bool := sg.tensors.any (·.name == n)

/-- the requests that name a tensor of `sg` (order kept) -/
def restrictReqs (reqs : List TReq) (sg : Subgraph) : List TReq := reqs.filter fun r => nameIn sg r.name

theorem nameIn_iff (sg : Subgraph) (n : String) :
    nameIn sg n = true ↔ ∃ (i : Nat) (t : Tensor), sg.tensors[i]? = some t ∧ t.name = n := by
  unfold nameIn
  rw [List.any_eq_true]
  constructor
  · rintro ⟨t, ht, hn⟩
    obtain ⟨i, hi, hti⟩ := List.getElem_of_mem ht
    exact ⟨i, t, by rw [List.getElem?_eq_getElem hi, hti], by simpa using hn⟩
  · rintro ⟨i, t, ht, hn⟩
    exact ⟨t, List.mem_of_getElem? ht, by simpa using hn⟩

theorem namesUnique_extract (m : Model) (hnu : namesUnique m) (j : Nat) (sg : Subgraph)
    (hsg : m.subgraphs[j]? = some sg) : namesUnique (extract m j sg) := by
  unfold namesUnique at hnu ⊢
  have := (List.nodup_flatMap.1 hnu).1 sg (List.mem_of_getElem? hsg)
  simpa [extract] using this

theorem loc_extract (m : Model) (j : Nat) (sg : Subgraph) (n : String) (i : Nat) (t : Tensor)
    (ht : sg.tensors[i]? = some t) (hn : t.name = n) : Pipe.Loc (extract m j sg) n 0 sg i :=
  ⟨rfl, t, ht, hn⟩

/-! ## one request -/

/-- the instruction list of a request, given the graph information of its tensor -/
def instsList (info : TInfo) (req : TReq) : List Inst :=
  let groups := groupConsumers req.consumers
  let cs := req.consumers.getD []
  let avail := vertAvail groups cs info
  let other := vertUnavail groups cs info
  let prodRules : List Inst := match req.producer with
    | some p => p.xfs.map fun x =>
        { xf := x, tensor := info.tensorId, producer := info.producer, consumers := info.consumers, param := p.param }
    | none => []
  let insts : List Inst :=
    match prodRules.getLast? with
    | some P =>
      let (vo, rem) := applyVertical P avail
      (prodRules.dropLast.map fun r => { r with consumers := rem }) ++ vo
    | none => avail
  insts ++ other

theorem tensorInsts_eq (nm : List (String × TInfo)) (req : TReq) :
    tensorInsts nm req =
      match Py.dictGet? nm req.name with
      | none => .error .keyError
      | some info =>
        if instsValid (instsList info req) then .ok ⟨req.name, info.sg, instsList info req⟩
        else .error .valueError := rfl

/-- the subgraph index of the graph information only shows in the `sg` field of the result -/
theorem instsList_reindex (info : TInfo) (req : TReq) (s : Nat) :
    instsList { info with sg := s } req = instsList info req := rfl

/-- the instructions of one request depend on the name map only through the entry of the request's
    name, and on that entry's subgraph index only in the `sg` field of the result -/
theorem tensorInsts_reindex (nm nm1 : List (String × TInfo)) (req : TReq) (info : TInfo) (ti : TInsts)
    (h1 : Py.dictGet? nm req.name = some info)
    (h2 : Py.dictGet? nm1 req.name = some { info with sg := 0 })
    (h : tensorInsts nm req = .ok ti) :
    tensorInsts nm1 req = .ok { ti with sg := 0 } ∧ ti.sg = info.sg := by
  rw [tensorInsts_eq] at h ⊢
  simp only [h1, h2, instsList_reindex] at h ⊢
  by_cases hv : instsValid (instsList info req) = true
  · simp only [hv, if_true, Except.ok.injEq] at h ⊢
    subst h
    exact ⟨rfl, rfl⟩
  · simp [hv] at h

/-- the request of a tensor of subgraph `j` -/
theorem tensorInsts_same (m : Model) (hnu : namesUnique m) (j : Nat) (sg : Subgraph)
    (hsg : m.subgraphs[j]? = some sg) (req : TReq) (ti : TInsts) (hin : nameIn sg req.name = true)
    (h : tensorInsts (nameMap m) req = .ok ti) :
    tensorInsts (nameMap (extract m j sg)) req = .ok { ti with sg := 0 } ∧ ti.sg = j := by
  obtain ⟨i, t, ht, hn⟩ := (nameIn_iff sg req.name).1 hin
  have h1 := Pipe.nameMap_loc m hnu req.name j sg i ⟨hsg, t, ht, hn⟩
  have h2 := Pipe.nameMap_loc (extract m j sg) (namesUnique_extract m hnu j sg hsg) req.name 0 sg i
    (loc_extract m j sg req.name i t ht hn)
  exact tensorInsts_reindex _ _ req _ ti h1 h2 h

/-- the request of a tensor of another subgraph -/
theorem tensorInsts_other (m : Model) (j : Nat) (sg : Subgraph)
    (hsg : m.subgraphs[j]? = some sg) (req : TReq) (ti : TInsts) (hin : nameIn sg req.name = false)
    (h : tensorInsts (nameMap m) req = .ok ti) : ti.sg ≠ j := by
  rw [tensorInsts_eq] at h
  cases hg : Py.dictGet? (nameMap m) req.name with
  | none => rw [hg] at h; cases h
  | some info =>
    obtain ⟨s, sg', i, hloc, rfl⟩ := Pipe.nameMap_some m req.name info hg
    simp only [hg] at h
    by_cases hv : instsValid (instsList (tensorInfo s sg' i) req) = true
    · simp only [hv, if_true, Except.ok.injEq] at h
      subst h
      intro hs
      have hs' : s = j := hs
      subst hs'
      obtain ⟨hsg', t, ht, hn⟩ := hloc
      rw [hsg] at hsg'
      cases hsg'
      have := (nameIn_iff sg req.name).2 ⟨i, t, ht, hn⟩
      rw [hin] at this
      cases this
    · simp [hv] at h

/-! ## the request list -/

theorem mapM_local (m : Model) (hnu : namesUnique m) (j : Nat) (sg : Subgraph)
    (hsg : m.subgraphs[j]? = some sg) : ∀ (reqs : List TReq) (tis : List TInsts),
    reqs.mapM (tensorInsts (nameMap m)) = .ok tis →
    (restrictReqs reqs sg).mapM (tensorInsts (nameMap (extract m j sg))) = .ok (restrict tis j) := by
  intro reqs
  induction reqs with
  | nil =>
    intro tis h
    simp only [List.mapM_nil, pure, Except.pure, Except.ok.injEq] at h
    subst h
    rfl
  | cons r rs ih =>
    intro tis h
    simp only [List.mapM_cons, bind, Except.bind, pure, Except.pure] at h
    cases hr : tensorInsts (nameMap m) r with
    | error e => simp [hr] at h
    | ok ti =>
      simp only [hr] at h
      cases hrs : rs.mapM (tensorInsts (nameMap m)) with
      | error e => simp [hrs] at h
      | ok tis' =>
        simp only [hrs, Except.ok.injEq] at h
        subst h
        have ih' := ih tis' hrs
        cases hin : nameIn sg r.name with
        | true =>
          obtain ⟨h1, h2⟩ := tensorInsts_same m hnu j sg hsg r ti hin hr
          have e1 : restrictReqs (r :: rs) sg = r :: restrictReqs rs sg := by
            simp only [restrictReqs, List.filter_cons, hin, if_true]
          rw [e1, restrict_cons_same ti tis' j h2]
          simp only [List.mapM_cons, bind, Except.bind, pure, Except.pure, h1, ih']
        | false =>
          have h2 := tensorInsts_other m j sg hsg r ti hin hr
          have e1 : restrictReqs (r :: rs) sg = restrictReqs rs sg := by
            simp only [restrictReqs, List.filter_cons, hin, Bool.false_eq_true, if_false]
          rw [e1, restrict_cons_other ti tis' j h2]
          exact ih'

/-- **instruction generation is local** -/
theorem genInsts_local (m : Model) (hnu : namesUnique m) (j : Nat) (sg : Subgraph)
    (hsg : m.subgraphs[j]? = some sg) (reqs : List TReq) (tis : List TInsts)
    (h : genInsts m reqs = .ok tis) :
    genInsts (extract m j sg) (restrictReqs reqs sg) = .ok (restrict tis j) :=
  mapM_local m hnu j sg hsg reqs tis h

/-- **`Perform.modify` is local** -/
theorem modify_local (pt : PTable) (m m' : Model) (hnu : namesUnique m) (j : Nat) (sg : Subgraph)
    (hsg : m.subgraphs[j]? = some sg) (hcodes : ∀ o ∈ sg.ops, o.code < m.opcodes.length)
    (reqs : List TReq) (h : modify pt m reqs = .ok m') :
    ∃ m1', modify pt (extract m j sg) (restrictReqs reqs sg) = .ok m1' ∧
      view m' j = view m1' 0 ∧ sigsOf m' j = m1'.sigs := by
  unfold Perform.modify at h ⊢
  obtain ⟨tis, htis, h⟩ := GraphInv.bind_ok _ _ _ h
  obtain ⟨m1', h1, h2, h3⟩ := performer_local pt m m' tis j sg hsg hcodes h
  refine ⟨m1', ?_, h2, h3⟩
  rw [genInsts_local m hnu j sg hsg reqs tis htis]
  exact h1

end Locality
