import QProofs.SharingE2E
import QProofs.SharingProofs
import QProofs.PipeNameMap
/-!
# From the buffer-sharing check to `SharersAgree` (C15, request / instruction-generation stage)

* `Param.eqv` is an equivalence relation, so `==`-equal parameter objects get the same id
  (`findIdx_eqv`);
* what `compatO2T` says about the source class (`compat_Q`) and the parameters (`compat_P`);
* `bufferToTensors`: every listed name is a tensor of that buffer (`b2t_sound`), every operand of a
  real operator is listed (`b2t_complete`);
* the instructions generated for a CONSTANT tensor (no producer request): retyping instructions
  correspond to consumer requests whose transformation is QUANTIZE_TENSOR / ADD_DEQUANTIZE
  (`retyped_req`, `req_retyped`);
* `unreadOwn_sound`: soundness of `checkUnreadOwn` (repair D35);
* `sharersAgree_of_check`.
-/
open Graph Mat Cfg Pipeline InstGen GenInstsOK Pipe

namespace SharingGen

/-! ## `Param.eqv` is an equivalence -/

theorem arrEq_iff {α} [BEq α] [LawfulBEq α] (a b : Nd.Arr α) :
    arrEq a b = true ↔ a.shape = b.shape ∧ a.data = b.data := by
  simp [arrEq]

theorem optEq_arr_iff {α β} [BEq α] [LawfulBEq α] (f : β → Nd.Arr α) (x y : Option β) :
    optEq (fun a b => arrEq (f a) (f b)) x y = true ↔
      x.map (fun a => ((f a).shape, (f a).data)) = y.map (fun a => ((f a).shape, (f a).data)) := by
  cases x <;> cases y <;> simp [optEq, arrEq_iff]

/-- everything `Param.eqv` compares -/
def pkey : Param →
    Sum (Nat × Option Nat × (List Nat × List Rat) × (List Nat × List Int) × Bool × Option (List Nat × List Int))
      (Nat × Option (List Nat × List Rat))
  | .uniform p d => .inl (p.bits, p.qdim, (p.scale.arr.shape, p.scale.arr.data),
      (p.zp.arr.shape, p.zp.arr.data), p.symmetric, d.map fun a => (a.arr.shape, a.arr.data))
  | .nonlinear b d => .inr (b, d.map fun a => (a.shape, a.data))

theorem eqv_iff (p q : Param) : p.eqv q = true ↔ pkey p = pkey q := by
  cases p with
  | uniform p d =>
    cases q with
    | uniform q d' => simp [Param.eqv, pkey, arrEq_iff, optEq_arr_iff, and_assoc]
    | nonlinear b' d' => simp [Param.eqv, pkey]
  | nonlinear b d =>
    cases q with
    | uniform q d' => simp [Param.eqv, pkey]
    | nonlinear b' d' =>
      have := optEq_arr_iff (fun (a : Nd.Arr Rat) => a) d d'
      simp only [Param.eqv, pkey, Bool.and_eq_true, beq_iff_eq, Sum.inr.injEq, Prod.mk.injEq]
      rw [this]

theorem eqv_symm (p q : Param) (h : p.eqv q = true) : q.eqv p = true :=
  (eqv_iff q p).2 ((eqv_iff p q).1 h).symm

theorem eqv_trans (p q r : Param) (h1 : p.eqv q = true) (h2 : q.eqv r = true) : p.eqv r = true :=
  (eqv_iff p r).2 (((eqv_iff p q).1 h1).trans ((eqv_iff q r).1 h2))

/-- `==`-equal parameter objects get the same id -/
theorem findIdx_eqv (tbl : List Param) (p q : Param) (h : p.eqv q = true) :
    tbl.findIdx? (fun x => x.eqv p) = tbl.findIdx? (fun x => x.eqv q) := by
  congr 1
  funext x
  rw [Bool.eq_iff_iff, eqv_iff, eqv_iff, (eqv_iff p q).1 h]

/-- `optParamEq` on two present parameters -/
theorem optParamEq_some (a b : Option Param) (p : Param) (h : optParamEq a b = true) (ha : a = some p) :
    ∃ q, b = some q ∧ p.eqv q = true := by
  subst ha
  cases b with
  | none => simp [optParamEq, optEq] at h
  | some q => exact ⟨q, rfl, by simpa [optParamEq, optEq] using h⟩

theorem optParamEq_some' (a b : Option Param) (q : Param) (h : optParamEq a b = true) (hb : b = some q) :
    ∃ p, a = some p ∧ p.eqv q = true := by
  subst hb
  cases a with
  | none => simp [optParamEq, optEq] at h
  | some p => exact ⟨p, rfl, by simpa [optParamEq, optEq] using h⟩

/-! ## `compatO2T` -/

/-- the transformation rewrites the tensor's own record / buffer -/
def quantSrc (x : Xf) : Bool := x == .quantTensor || x == .addDequant

theorem quantSrc_retypes (x : Xf) : quantSrc x = Wiring.retypes x := by
  cases x <;> rfl

/-- compatible requests are both rewriting or both not -/
theorem compat_Q (a b : CO2T) (xa xb : Xf) (ha : a.xfs = [xa]) (hb : b.xfs = [xb])
    (h : compatO2T a b = .ok true) : quantSrc xa = quantSrc xb := by
  unfold compatO2T at h
  simp only [bind, Except.bind, pure, Except.pure, ha, hb, List.head?_cons] at h
  by_cases h1 : (([xa] : List Xf) == [xb] && optParamEq a.param b.param) = true
  · simp only [Bool.and_eq_true, beq_iff_eq, List.cons.injEq, and_true] at h1
    rw [h1.1]
  · simp only [h1] at h
    by_cases h2 : (xa != Xf.noQuant && xb != Xf.noQuant && !optParamEq a.param b.param) = true
    · simp [h2] at h
    · simp only [h2, Bool.false_eq_true, if_false, Except.ok.injEq] at h
      revert h
      cases xa <;> cases xb <;> decide

/-- two compatible rewriting requests carry `==`-equal parameters -/
theorem compat_P (a b : CO2T) (xa xb : Xf) (ha : a.xfs = [xa]) (hb : b.xfs = [xb])
    (hqa : quantSrc xa = true) (h : compatO2T a b = .ok true) : optParamEq a.param b.param = true := by
  have hqb : quantSrc xb = true := by rw [← compat_Q a b xa xb ha hb h]; exact hqa
  unfold compatO2T at h
  simp only [bind, Except.bind, pure, Except.pure, ha, hb, List.head?_cons] at h
  by_cases h1 : (([xa] : List Xf) == [xb] && optParamEq a.param b.param) = true
  · simp only [Bool.and_eq_true] at h1; exact h1.2
  · simp only [h1] at h
    by_cases hp : optParamEq a.param b.param = true
    · exact hp
    · have hna : xa ≠ .noQuant := by intro e; subst e; cases hqa
      have hnb : xb ≠ .noQuant := by intro e; subst e; cases hqb
      have : (xa != Xf.noQuant && xb != Xf.noQuant && !optParamEq a.param b.param) = true := by
        simp [hna, hnb, hp]
      simp [this] at h

/-! ## `bufferToTensors` -/

theorem mem_dictSet {κ ν} [BEq κ] [LawfulBEq κ] (d : List (κ × ν)) (k : κ) (v : ν) (e : κ × ν)
    (h : e ∈ Py.dictSet d k v) : e ∈ d ∨ e = (k, v) := by
  induction d with
  | nil => simpa [Py.dictSet] using h
  | cons e' d ih =>
    obtain ⟨k', v'⟩ := e'
    simp only [Py.dictSet] at h
    split at h
    · rename_i hk
      have hk' : k' = k := by simpa using hk
      rcases List.mem_cons.1 h with rfl | h
      · exact .inr (by rw [hk'])
      · exact .inl (List.mem_cons_of_mem _ h)
    · rcases List.mem_cons.1 h with rfl | h
      · exact .inl List.mem_cons_self
      · rcases ih h with h | h
        · exact .inl (List.mem_cons_of_mem _ h)
        · exact .inr h

/-- the step of the innermost loop of `bufferToTensors` -/
def b2tStep (sg : Subgraph) (acc : List (Nat × List String)) (i : Int) : List (Nat × List String) :=
  match sg.tensors[i.toNat]? with
  | some t => Py.dictSet acc t.buffer ((Py.dictGet? acc t.buffer).getD [] ++ [t.name])
  | none => acc

def b2tOp (sg : Subgraph) (acc : List (Nat × List String)) (op : Op) : List (Nat × List String) :=
  ((op.outputs ++ op.inputs).filter (· != -1)).foldl (b2tStep sg) acc

def b2tSg (acc : List (Nat × List String)) (sg : Subgraph) : List (Nat × List String) :=
  sg.ops.foldl (b2tOp sg) acc

theorem b2t_eq (m : Model) : bufferToTensors m = m.subgraphs.foldl b2tSg [] := rfl

/-- every name listed under buffer `b` is the name of a tensor that references `b` -/
def B2TSound (m : Model) (acc : List (Nat × List String)) : Prop :=
  ∀ e ∈ acc, ∀ n ∈ e.2, ∃ sg ∈ m.subgraphs, ∃ t ∈ sg.tensors, t.name = n ∧ t.buffer = e.1

theorem b2t_sound (m : Model) : B2TSound m (bufferToTensors m) := by
  rw [b2t_eq]
  refine GenInstsInfo.foldl_inv _ (B2TSound m) _ _ ?_ (by simp [B2TSound])
  intro sg hsg acc hacc
  refine GenInstsInfo.foldl_inv _ (B2TSound m) _ _ ?_ hacc
  intro op _ acc1 hacc1
  refine GenInstsInfo.foldl_inv _ (B2TSound m) _ _ ?_ hacc1
  intro i _ acc2 hacc2
  unfold b2tStep
  split
  · rename_i t ht
    intro e he n hn
    rcases mem_dictSet _ _ _ _ he with he | rfl
    · exact hacc2 e he n hn
    · simp only [List.mem_append, List.mem_singleton] at hn
      rcases hn with hn | rfl
      · cases hg : Py.dictGet? acc2 t.buffer with
        | none => rw [hg] at hn; simp at hn
        | some l0 =>
          rw [hg] at hn
          exact hacc2 (t.buffer, l0) (SharingProofs.dictGet?_mem _ _ _ hg) n hn
      · exact ⟨sg, hsg, t, List.mem_of_getElem? ht, rfl, rfl⟩
  · exact hacc2

theorem flat_dictSet (d : List (Nat × List String)) (k : Nat) (x : String) :
    ∀ n, (n = x ∨ n ∈ d.flatMap (·.2)) →
      n ∈ (Py.dictSet d k ((Py.dictGet? d k).getD [] ++ [x])).flatMap (·.2) := by
  induction d with
  | nil =>
    intro n hn
    rcases hn with rfl | hn
    · simp [Py.dictSet, Py.dictGet?]
    · simp at hn
  | cons e d ih =>
    obtain ⟨k', v'⟩ := e
    intro n hn
    by_cases hk : k' = k
    · subst hk
      have hg : Py.dictGet? ((k', v') :: d) k' = some v' := by simp [Py.dictGet?]
      simp only [hg, Option.getD_some, Py.dictSet, beq_self_eq_true, if_true, List.flatMap_cons,
        List.mem_append, List.mem_singleton]
      rcases hn with rfl | hn
      · exact .inl (.inr rfl)
      · simp only [List.flatMap_cons, List.mem_append] at hn
        rcases hn with hn | hn
        · exact .inl (.inl hn)
        · exact .inr hn
    · have hb : (k' == k) = false := by simpa using hk
      have hg : Py.dictGet? ((k', v') :: d) k = Py.dictGet? d k := by
        simp [Py.dictGet?, hb]
      simp only [hg, Py.dictSet, hb, Bool.false_eq_true, if_false, List.flatMap_cons, List.mem_append]
      rcases hn with rfl | hn
      · exact .inr (ih _ (.inl rfl))
      · simp only [List.flatMap_cons, List.mem_append] at hn
        rcases hn with hn | hn
        · exact .inl hn
        · exact .inr (ih _ (.inr hn))

theorem b2tStep_mono (sg : Subgraph) (acc : List (Nat × List String)) (i : Int) (n : String)
    (h : n ∈ acc.flatMap (·.2)) : n ∈ (b2tStep sg acc i).flatMap (·.2) := by
  unfold b2tStep
  split
  · exact flat_dictSet _ _ _ n (.inr h)
  · exact h

theorem b2tOp_mono (sg : Subgraph) (acc : List (Nat × List String)) (op : Op) (n : String)
    (h : n ∈ acc.flatMap (·.2)) : n ∈ (b2tOp sg acc op).flatMap (·.2) :=
  SharingProofs.foldl_inv (fun a : List (Nat × List String) => n ∈ a.flatMap (·.2)) _
    (fun a i ha => b2tStep_mono sg a i n ha) _ _ h

theorem b2tSg_mono (acc : List (Nat × List String)) (sg : Subgraph) (n : String)
    (h : n ∈ acc.flatMap (·.2)) : n ∈ (b2tSg acc sg).flatMap (·.2) :=
  SharingProofs.foldl_inv (fun a : List (Nat × List String) => n ∈ a.flatMap (·.2)) _
    (fun a op ha => b2tOp_mono sg a op n ha) _ _ h

/-- every operand / result of a real operator is listed -/
theorem b2t_complete (m : Model) (sg : Subgraph) (hsg : sg ∈ m.subgraphs) (op : Op) (hop : op ∈ sg.ops)
    (i : Nat) (hi : (i : Int) ∈ op.outputs ++ op.inputs) (t : Tensor) (ht : sg.tensors[i]? = some t) :
    t.name ∈ (bufferToTensors m).flatMap (·.2) := by
  rw [b2t_eq]
  refine foldl_reach b2tSg (fun a : List (Nat × List String) => t.name ∈ a.flatMap (·.2)) _ _ sg hsg
    (fun sg' a ha => b2tSg_mono a sg' _ ha) ?_
  intro acc
  refine foldl_reach (b2tOp sg) (fun a : List (Nat × List String) => t.name ∈ a.flatMap (·.2)) _ _ op hop
    (fun op' a ha => b2tOp_mono sg a op' _ ha) ?_
  intro acc1
  have hne : ((i : Int) != -1) = true := by
    simp
  have hmem : (i : Int) ∈ (op.outputs ++ op.inputs).filter (· != -1) := List.mem_filter.2 ⟨hi, hne⟩
  refine foldl_reach (b2tStep sg) (fun a : List (Nat × List String) => t.name ∈ a.flatMap (·.2)) _ _
    (i : Int) hmem (fun j a ha => b2tStep_mono sg a j _ ha) ?_
  intro acc2
  unfold b2tStep
  rw [Int.toNat_natCast, ht]
  exact flat_dictSet _ _ _ _ (.inl rfl)

/-! ## the consumer groups of a non-empty consumer list are non-empty -/

theorem placeInto_ne_nil (cs : List O2T) (d : Nat) (cur : List Nat) (ci : Nat) (G : List (List Nat)) :
    placeInto cs d cur ci G ≠ [] := by
  cases G with
  | nil => simp [placeInto]
  | cons ng rest =>
    simp only [placeInto]
    split
    · split <;> simp
    · simp

theorem nextDepth_ne_nil (c : O2T) (cs' : List O2T) (hlen : ∀ x ∈ c :: cs', x.xfs.length = 1) :
    nextDepth (c :: cs') 0 [List.range (c :: cs').length] ≠ [] := by
  unfold nextDepth
  rw [List.length_cons, List.range_succ_eq_map, List.foldl_cons]
  refine SharingProofs.foldl_inv (fun a : List (List Nat) => a ≠ []) _ ?_ _ _ ?_
  · intro acc ci hacc
    simp only [List.foldl_cons, List.foldl_nil]
    split
    · split
      · exact placeInto_ne_nil _ _ _ _ _
      · exact hacc
    · exact hacc
  · have h0 : 0 < ((c :: cs').getD 0 default).xfs.length := by
      simp only [List.getD_cons_zero]
      rw [hlen c List.mem_cons_self]; exact Nat.one_pos
    simp only [h0, if_true, List.foldl_cons, List.foldl_nil]
    split
    · exact placeInto_ne_nil _ _ _ _ _
    · rename_i hc
      exfalso
      apply hc
      rw [List.contains_iff_mem]
      simp

/-- the instruction list of a tensor WITHOUT producer request: one instruction per consumer group -/
theorem instsOf_noProd (info : TInfo) (a : TReq) (hprod : a.producer = none)
    (hlen : ∀ cs, a.consumers = some cs → ∀ c ∈ cs, c.xfs.length = 1) :
    ∃ G, GenInstsGroup.GInv (a.consumers.getD []) G ∧
      instsOf info a = G.map (instOfGroup (a.consumers.getD []) info 0) ∧
      (a.consumers.getD [] ≠ [] → G ≠ []) := by
  obtain ⟨hun, -⟩ := GenInstsGroup.groups_shape a.consumers info hlen
  have key : ∃ G, GenInstsGroup.GInv (a.consumers.getD []) G ∧
      vertAvail (groupConsumers a.consumers) (a.consumers.getD []) info =
        G.map (instOfGroup (a.consumers.getD []) info 0) ∧ (a.consumers.getD [] ≠ [] → G ≠ []) := by
    cases hc : a.consumers with
    | none => exact ⟨[], GenInstsGroup.GInv_nil _, rfl, fun h => absurd rfl h⟩
    | some cs =>
      cases cs with
      | nil => exact ⟨[], GenInstsGroup.GInv_nil _, rfl, fun h => absurd rfl h⟩
      | cons c cs' =>
        have hl := hlen _ hc
        rw [GenInstsGroup.groupConsumers_cons c cs' hl]
        exact ⟨_, GenInstsGroup.nextDepth_inv _ hl, rfl, fun _ => nextDepth_ne_nil c cs' hl⟩
  obtain ⟨G, hG, hav, hne⟩ := key
  refine ⟨G, hG, ?_, hne⟩
  unfold instsOf
  simp only [hun, hav, List.append_nil, hprod, List.getLast?_nil]

/-! ## requests and generated instructions of a constant tensor -/

/-- the standing assumptions on the result dictionary of `Mat.generate` -/
structure Ctx (m : Model) (res : List (String × CReq)) : Prop where
  wf : WF.modelOK m = true
  nu : namesUnique m
  inp : ∀ sg ∈ m.subgraphs, ∀ t ∈ sg.inputs, isConst m sg t = false
  entries : ∀ e ∈ res, EntryOK m (fun _ _ => True) e.1 e.2
  keys : (res.map (·.1)).Nodup

/-- the parameter table / the abstract requests of a result dictionary -/
abbrev tblOf (res : List (String × CReq)) : List Param := (absReqs (res.map (·.2))).1
abbrev areqsOf (res : List (String × CReq)) : List TReq := (absReqs (res.map (·.2))).2

/-- a constant tensor has no producer request -/
theorem const_noProd {m : Model} {res : List (String × CReq)} (C : Ctx m res) (e : String × CReq)
    (he : e ∈ res) (s : Nat) (sg : Subgraph) (i : Nat) (hloc : Loc m e.1 s sg i)
    (hc : isConst m sg i = true) : e.2.producer = none := by
  cases hp : e.2.producer with
  | none => rfl
  | some p =>
    have hsgOK : GraphStep.SgOK m sg :=
      ((GraphStep.modelOK_iff m).1 C.wf).2.1 sg (List.mem_of_getElem? hloc.1)
    have := produced_notConst m sg i p.opId hsgOK (C.inp sg (List.mem_of_getElem? hloc.1))
      ((C.entries e he).prod p hp s sg i hloc).2
    rw [this] at hc; cases hc

/-- every generated entry comes from a dictionary entry -/
theorem entry_of_ti {m : Model} {res : List (String × CReq)} (C : Ctx m res) (tis : List TInsts)
    (hgen : genInsts m (areqsOf res) = .ok tis) (ti : TInsts) (hti : ti ∈ tis) :
    ∃ e ∈ res, ∃ a ∈ areqsOf res, AbsR (tblOf res) e.2 a ∧ ReqOK (ptableOf (tblOf res)) m a ∧
      ∃ s sg i, Loc m e.1 s sg i ∧
        Py.dictGet? (nameMap m) a.name = some (tensorInfo s sg i) ∧
        ti = ⟨a.name, s, instsOf (tensorInfo s sg i) a⟩ := by
  obtain ⟨a, ha, hta⟩ := GraphFrame.mapM_ok _ _ _ hgen ti hti
  obtain ⟨r, hr, hA⟩ := (absReqs_spec (res.map (·.2))).mem_right ha
  obtain ⟨e, he, rfl⟩ := List.mem_map.1 hr
  have hE := C.entries e he
  have hE' : EntryOK m (fun _ _ => True) e.2.name e.2 := by rw [hE.name]; exact hE
  have hreq := reqOK_of_abs m C.wf C.nu C.inp _ e.2 a hE' hA
  obtain ⟨s, sg, i, hloc⟩ := hE.loc
  have hget : Py.dictGet? (nameMap m) a.name = some (tensorInfo s sg i) := by
    rw [hA.1, hE.name]; exact nameMap_loc m C.nu _ _ _ _ hloc
  refine ⟨e, he, a, ha, hA, hreq, s, sg, i, hloc, hget, ?_⟩
  rw [tensorInsts_eq] at hta
  simp only [hget] at hta
  split at hta
  · cases hta; rfl
  · cases hta

/-- **retyping instruction ⇒ rewriting request**: a retyping instruction with parameter id `p` on
    the constant tensor `i` of subgraph `s` comes from a consumer request of that tensor whose
    transformation is QUANTIZE_TENSOR / ADD_DEQUANTIZE and whose parameter object has id `p` -/
theorem retyped_req {m : Model} {res : List (String × CReq)} (C : Ctx m res) (tis : List TInsts)
    (hgen : genInsts m (areqsOf res) = .ok tis)
    (s i : Nat) (p : PId) (sg : Subgraph) (tn : Tensor) (hsg : m.subgraphs[s]? = some sg)
    (htn : sg.tensors[i]? = some tn) (hc : isConst m sg i = true)
    (hR : SharingE2E.Retyped tis s i p) :
    ∃ e ∈ res, e.1 = tn.name ∧ ∃ cs c x P, e.2.consumers = some cs ∧ c ∈ cs ∧ c.xfs = [x] ∧
      quantSrc x = true ∧ c.param = some P ∧ (tblOf res).findIdx? (fun q => q.eqv P) = some p := by
  obtain ⟨ti, hti, ins, hins, e1, e2, e3, e4⟩ := hR
  obtain ⟨e, he, a, ha, hA, hreq, s0, sg0, i0, hloc, hget, rfl⟩ := entry_of_ti C tis hgen ti hti
  simp only at e1 hins
  subst e1
  have hsg0 : m.subgraphs[s0]? = some sg0 := hloc.1
  rw [hsg] at hsg0; cases hsg0
  obtain ⟨hcore, -⟩ := instsOf_ok _ m s0 sg i0 a hsg hget hreq
  have hten := (hcore ins hins).tensor
  have hi0 : i0 = i := by
    have : (tensorInfo s0 sg i0).tensorId = i0 := rfl
    rw [this, e2] at hten; omega
  subst hi0
  obtain ⟨-, t, ht, hname⟩ := hloc
  rw [htn] at ht; cases ht
  have hprod : a.producer = none := by
    have := const_noProd C e he s0 sg i0 ⟨hsg, tn, htn, hname⟩ hc
    cases hap : a.producer with
    | none => rfl
    | some o =>
      obtain ⟨c, hc', -⟩ := hA.prod hap
      rw [this] at hc'; cases hc'
  have hlen : ∀ cs, a.consumers = some cs → ∀ c ∈ cs, c.xfs.length = 1 := by
    intro cs h1 c h2
    obtain ⟨x, hx, _⟩ := hreq.consShape cs c h1 h2
    rw [hx]; rfl
  obtain ⟨G, hG, hI, -⟩ := instsOf_noProd (tensorInfo s0 sg i0) a hprod hlen
  rw [hI] at hins
  obtain ⟨g, hg, rfl⟩ := List.mem_map.1 hins
  obtain ⟨h, tl, rfl⟩ := List.exists_cons_of_ne_nil (hG.ne g hg)
  have hfirst : (a.consumers.getD []).getD h default ∈ a.consumers.getD [] :=
    GenInstsGroup.getD_mem _ h (hG.lt _ hg h List.mem_cons_self)
  obtain ⟨os, hos, hfo⟩ := getD_consumers a _ hfirst
  obtain ⟨x, hx, -⟩ := hreq.consShape os _ hos hfo
  have hxf : (instOfGroup (a.consumers.getD []) (tensorInfo s0 sg i0) 0 (h :: tl)).xf = x := by
    show ((a.consumers.getD []).getD h default).xfs.getD 0 .noQuant = x
    rw [hx]; rfl
  have hpar : ((a.consumers.getD []).getD h default).param = some p := e4
  rw [hxf] at e3
  obtain ⟨cs, c, hcs, hcm, hAO⟩ := hA.cons_mem hos hfo
  obtain ⟨P, hP, hidx⟩ := hAO.param_some hpar
  refine ⟨e, he, hname.symm, cs, c, x, P, hcs, hcm, ?_, by rw [quantSrc_retypes]; exact e3, hP, hidx⟩
  rw [← hAO.2.1, hx]

theorem Pointwise.mem_left {α β} {R : α → β → Prop} {l1 : List α} {l2 : List β} (h : Pointwise R l1 l2)
    {a : α} (ha : a ∈ l1) : ∃ b ∈ l2, R a b := by
  obtain ⟨j, hj⟩ := List.mem_iff_getElem?.1 ha
  have hlt : j < l2.length := by
    have := (List.getElem?_eq_some_iff.1 hj).1
    rw [← h.1]; exact this
  exact ⟨l2[j], List.getElem_mem hlt, h.2 j _ _ hj (List.getElem?_eq_getElem hlt)⟩

/-- **rewriting requests ⇒ retyping instruction**: a constant tensor all of whose (at least one)
    consumer requests are QUANTIZE_TENSOR / ADD_DEQUANTIZE with a parameter gets a retyping instruction -/
theorem req_retyped {m : Model} {res : List (String × CReq)} (C : Ctx m res) (tis : List TInsts)
    (hgen : genInsts m (areqsOf res) = .ok tis)
    (e : String × CReq) (he : e ∈ res) (s : Nat) (sg : Subgraph) (i : Nat) (hloc : Loc m e.1 s sg i)
    (hc : isConst m sg i = true) (cs : List CO2T) (hcs : e.2.consumers = some cs) (hne : cs ≠ [])
    (hall : ∀ c ∈ cs, ∃ x P, c.xfs = [x] ∧ quantSrc x = true ∧ c.param = some P) :
    ∃ p, SharingE2E.Retyped tis s i p := by
  have hr : e.2 ∈ res.map (·.2) := List.mem_map.2 ⟨e, he, rfl⟩
  obtain ⟨a, ha, hA⟩ := Pointwise.mem_left (absReqs_spec (res.map (·.2))) hr
  obtain ⟨ti, hti, hta⟩ := Wiring.mapM_ok' _ _ _ hgen a ha
  have hE := C.entries e he
  have hget : Py.dictGet? (nameMap m) a.name = some (tensorInfo s sg i) := by
    rw [hA.1, hE.name]; exact nameMap_loc m C.nu _ _ _ _ hloc
  have hE' : EntryOK m (fun _ _ => True) e.2.name e.2 := by rw [hE.name]; exact hE
  have hreq := reqOK_of_abs m C.wf C.nu C.inp _ e.2 a hE' hA
  rw [tensorInsts_eq] at hta
  simp only [hget] at hta
  split at hta
  swap
  · cases hta
  cases hta
  have hprod : a.producer = none := by
    have := const_noProd C e he s sg i hloc hc
    cases hap : a.producer with
    | none => rfl
    | some o =>
      obtain ⟨c, hc', -⟩ := hA.prod hap
      rw [this] at hc'; cases hc'
  have hlen : ∀ cs, a.consumers = some cs → ∀ c ∈ cs, c.xfs.length = 1 := by
    intro cs h1 c h2
    obtain ⟨x, hx, _⟩ := hreq.consShape cs c h1 h2
    rw [hx]; rfl
  -- the abstract consumer list
  obtain ⟨os, hos, hpw⟩ : ∃ os, a.consumers = some os ∧ Pointwise (AbsO (tblOf res)) cs os := by
    obtain ⟨_, _, h3⟩ := hA
    rw [hcs] at h3
    cases hao : a.consumers with
    | none => rw [hao] at h3; exact h3.elim
    | some os => rw [hao] at h3; exact ⟨os, rfl, h3⟩
  have hosne : a.consumers.getD [] ≠ [] := by
    rw [hos]
    intro h0
    have : os = [] := h0
    have hl := hpw.1
    rw [this] at hl
    exact hne (List.length_eq_zero_iff.1 hl)
  obtain ⟨G, hG, hI, hGne⟩ := instsOf_noProd (tensorInfo s sg i) a hprod hlen
  obtain ⟨g, G', rfl⟩ := List.exists_cons_of_ne_nil (hGne hosne)
  obtain ⟨h, tl, rfl⟩ := List.exists_cons_of_ne_nil (hG.ne g List.mem_cons_self)
  have hfirst : (a.consumers.getD []).getD h default ∈ a.consumers.getD [] :=
    GenInstsGroup.getD_mem _ h (hG.lt _ List.mem_cons_self h List.mem_cons_self)
  have hfo : (a.consumers.getD []).getD h default ∈ os := by
    have := hfirst
    have e0 : a.consumers.getD [] = os := by rw [hos]; rfl
    rw [e0] at this ⊢; exact this
  obtain ⟨c, hcm, hAO⟩ := hpw.mem_right hfo
  obtain ⟨x, P, hx, hq, hP⟩ := hall c hcm
  have hpar : ∃ p, ((a.consumers.getD []).getD h default).param = some p := by
    obtain ⟨_, _, h3⟩ := hAO
    rw [hP] at h3
    cases hfp : ((a.consumers.getD []).getD h default).param with
    | none => rw [hfp] at h3; exact h3.elim
    | some p => exact ⟨p, rfl⟩
  obtain ⟨p, hp⟩ := hpar
  refine ⟨p, _, hti, instOfGroup (a.consumers.getD []) (tensorInfo s sg i) 0 (h :: tl), ?_, rfl, rfl, ?_, hp⟩
  · show _ ∈ instsOf (tensorInfo s sg i) a
    rw [hI]; exact List.mem_cons_self
  · show Wiring.retypes (((a.consumers.getD []).getD h default).xfs.getD 0 .noQuant) = true
    rw [hAO.2.1, hx, ← quantSrc_retypes]; exact hq

/-! ## the compatibility relation as a symmetric, transitive "same class, same parameters" relation -/

theorem optParamEq_symm (a b : Option Param) (h : optParamEq a b = true) : optParamEq b a = true := by
  cases a <;> cases b <;> simp only [optParamEq, optEq] at h ⊢
  · cases h
  · cases h
  · exact eqv_symm _ _ h

theorem optParamEq_trans (a b c : Option Param) (h1 : optParamEq a b = true) (h2 : optParamEq b c = true) :
    optParamEq a c = true := by
  cases a with
  | none =>
    cases b with
    | none => exact h2
    | some _ => simp [optParamEq, optEq] at h1
  | some pa =>
    cases b with
    | none => simp [optParamEq, optEq] at h1
    | some pb =>
      cases c with
      | none => simp [optParamEq, optEq] at h2
      | some pc => exact eqv_trans pa pb pc h1 h2

/-- same source class, and `==`-equal parameters when rewriting -/
def S (a b : CO2T) : Prop :=
  ∀ xa xb, a.xfs = [xa] → b.xfs = [xb] →
    quantSrc xa = quantSrc xb ∧ (quantSrc xa = true → optParamEq a.param b.param = true)

theorem S_compat (a b : CO2T) (h : compatO2T a b = .ok true) : S a b :=
  fun xa xb ha hb => ⟨compat_Q a b xa xb ha hb h, fun hq => compat_P a b xa xb ha hb hq h⟩

theorem S_symm (a b : CO2T) (h : S a b) : S b a := by
  intro xb xa hb ha
  obtain ⟨h1, h2⟩ := h xa xb ha hb
  exact ⟨h1.symm, fun hq => optParamEq_symm _ _ (h2 (by rw [h1]; exact hq))⟩

theorem S_trans (a b c : CO2T) (hb : ∃ y, b.xfs = [y]) (h1 : S a b) (h2 : S b c) : S a c := by
  obtain ⟨y, hy⟩ := hb
  intro xa xc ha hc
  obtain ⟨g1, g2⟩ := h1 xa y ha hy
  obtain ⟨g3, g4⟩ := h2 y xc hy hc
  exact ⟨g1.trans g3, fun hq => optParamEq_trans _ _ _ (g2 hq) (g4 (by rw [← g1]; exact hq))⟩

/-- **what the first loop of the check delivers for one buffer**: if one listed tensor has consumer
    requests, then EVERY listed tensor has a non-empty list of consumer requests, all in relation
    `S` with one hub request -/
theorem family (m : Model) (res : List (String × CReq)) (hchk : checkBufferSharing m res = .ok ())
    (b : Nat) (l : List String) (hb : (b, l) ∈ bufferToTensors m)
    (hdata : ∃ c, m.buffers[b]? = some (some c))
    (hshape : ∀ n ∈ l, ∀ r, Py.dictGet? res n = some r → ∀ cs c, r.consumers = some cs → c ∈ cs →
      ∃ x, c.xfs = [x])
    (n : String) (hn : n ∈ l) (r : CReq) (hr : Py.dictGet? res n = some r) (cs : List CO2T)
    (hcs : r.consumers = some cs) (hne : cs ≠ []) :
    ∃ hub : CO2T, (∃ y, hub.xfs = [y]) ∧ ∀ n' ∈ l, ∃ r', Py.dictGet? res n' = some r' ∧
      ∃ cs', r'.consumers = some cs' ∧ cs' ≠ [] ∧ ∀ c' ∈ cs', S c' hub := by
  cases l with
  | nil => cases hn
  | cons first rest =>
    by_cases hrest : rest = []
    · subst hrest
      have hn1 : n = first := by simpa using hn
      subst hn1
      have hself := SharingProofs.sharing_single m res hchk b n hb hdata r hr
      rcases SharingProofs.compatReq_consumers r r hself with ⟨h0, -⟩ | ⟨ca, cb, a0, b0, h1, -, h3, -, h5, -, -⟩
      · rw [h0] at hcs; cases hcs
      · rw [hcs] at h1; cases h1
        have ha0 : a0 ∈ cs := List.mem_of_mem_head? h3
        refine ⟨a0, hshape n hn r hr cs a0 hcs ha0, ?_⟩
        intro n' hn'
        have : n' = n := by simpa using hn'
        subst this
        exact ⟨r, hr, cs, hcs, hne, fun c' hc' => S_compat _ _ (h5 c' hc')⟩
    · obtain ⟨fp, hfp, hall⟩ := SharingProofs.sharing_pairwise m res hchk b first rest hb hrest hdata
      -- the first tensor has consumer requests
      have hfirst : ∃ ca a0, fp.consumers = some ca ∧ ca.head? = some a0 ∧
          ∀ c ∈ ca, compatO2T c a0 = .ok true := by
        rcases List.mem_cons.1 hn with rfl | hnr
        · obtain ⟨n2, hn2⟩ := List.exists_mem_of_ne_nil rest hrest
          obtain ⟨tp, -, hc⟩ := hall n2 hn2
          rw [hfp] at hr
          have hfr : fp = r := Option.some.inj hr
          subst hfr
          rcases SharingProofs.compatReq_consumers fp tp hc with ⟨h0, -⟩ | ⟨ca, cb, a0, b0, h1, -, h3, -, h5, -, -⟩
          · rw [h0] at hcs; cases hcs
          · exact ⟨ca, a0, h1, h3, h5⟩
        · obtain ⟨tp, htp, hc⟩ := hall n hnr
          rw [hr] at htp; cases htp
          rcases SharingProofs.compatReq_consumers fp r hc with ⟨-, h0⟩ | ⟨ca, cb, a0, b0, h1, -, h3, -, h5, -, -⟩
          · rw [h0] at hcs; cases hcs
          · exact ⟨ca, a0, h1, h3, h5⟩
      obtain ⟨ca, a0, hca, ha0h, hA⟩ := hfirst
      have ha0 : a0 ∈ ca := List.mem_of_mem_head? ha0h
      have hsh0 := hshape first List.mem_cons_self fp hfp ca a0 hca ha0
      refine ⟨a0, hsh0, ?_⟩
      intro n' hn'
      rcases List.mem_cons.1 hn' with rfl | hn'r
      · exact ⟨fp, hfp, ca, hca, List.ne_nil_of_mem ha0, fun c' hc' => S_compat _ _ (hA c' hc')⟩
      · obtain ⟨tp, htp, hc⟩ := hall n' hn'r
        rcases SharingProofs.compatReq_consumers fp tp hc with ⟨h0, -⟩ | ⟨ca', cb, a0', b0, h1, h2, h3, h4, -, h6, h7⟩
        · rw [h0] at hca; cases hca
        · rw [hca] at h1; cases h1
          rw [ha0h] at h3; cases h3
          have hb0 : b0 ∈ cb := List.mem_of_mem_head? h4
          have hshb := hshape n' hn' tp htp cb b0 h2 hb0
          refine ⟨tp, htp, cb, h2, List.ne_nil_of_mem hb0, fun c' hc' => ?_⟩
          exact S_trans _ _ _ hshb (S_compat _ _ (h6 c' hc')) (S_symm _ _ (S_compat _ _ h7))

/-! ## soundness of `checkUnreadOwn` (repair D35) -/

/-- what `checkUnreadOwn` establishes for one tensor: an unread constant whose OWN request rewrites its
    buffer is the only tensor of the model that references that buffer -/
def UnreadOwnOK (m : Model) (res : List (String × CReq)) (t : Tensor) : Prop :=
  t.name ∉ (bufferToTensors m).flatMap (·.2) → (∃ c, m.buffers[t.buffer]? = some (some c)) →
    ∀ own, Py.dictGet? res t.name = some own →
      (∃ c ∈ own.consumers.getD [], ∃ x, c.xfs.head? = some x ∧ (x = .quantTensor ∨ x = .addDequant)) →
      (m.subgraphs.flatMap (·.tensors)).countP (fun u => u.buffer == t.buffer) ≤ 1

theorem unreadOwn_sound (m : Model) (res : List (String × CReq)) (h : checkUnreadOwn m res = .ok ()) :
    ∀ sg ∈ m.subgraphs, ∀ t ∈ sg.tensors, UnreadOwnOK m res t := by
  unfold checkUnreadOwn at h
  simp only [bind, Except.bind] at h
  split at h
  · cases h
  rename_i u0 h0
  clear h
  refine SharingProofs.forIn_unit_all _ (fun (sg : Subgraph) => ∀ t ∈ sg.tensors, UnreadOwnOK m res t)
    ?_ _ _ h0
  intro sg s hsg
  split at hsg
  · cases hsg
  · rename_i u hts
    simp only [pure, Except.pure, Except.ok.injEq] at hsg
    refine ⟨hsg.symm, ?_⟩
    refine SharingProofs.forIn_unit_all _ (UnreadOwnOK m res) ?_ _ _ hts
    intro t st ht
    split at ht
    · rename_i hop
      simp only [pure, Except.pure, Except.ok.injEq] at ht
      refine ⟨ht.symm, ?_⟩
      intro hun
      exact absurd (List.contains_iff_mem.1 hop) hun
    · split at ht
      · rename_i cdat hbuf
        split at ht
        · rename_i hown
          simp only [pure, Except.pure, Except.ok.injEq] at ht
          refine ⟨ht.symm, ?_⟩
          intro _ _ own ho
          rw [hown] at ho; cases ho
        · rename_i own hown
          split at ht
          · simp [throw, throwThe, MonadExceptOf.throw] at ht
          · rename_i hcond
            simp only [pure, Except.pure, Except.ok.injEq] at ht
            refine ⟨ht.symm, ?_⟩
            intro _ _ own' ho ⟨c, hc, x, hx, hq⟩
            rw [hown] at ho; cases ho
            by_contra hgt
            apply hcond
            simp only [Bool.and_eq_true, decide_eq_true_eq, List.any_eq_true]
            refine ⟨by omega, c, hc, ?_⟩
            rw [hx]
            rcases hq with rfl | rfl <;> rfl
      · rename_i hbuf
        simp only [pure, Except.pure, Except.ok.injEq] at ht
        refine ⟨ht.symm, ?_⟩
        intro _ hd
        obtain ⟨c, hc⟩ := hd
        exact absurd hc (hbuf c)

theorem two_le_length {α} (l : List α) (a b : α) (ha : a ∈ l) (hb : b ∈ l) (hab : a ≠ b) : 2 ≤ l.length := by
  match l, ha, hb with
  | [], ha, _ => cases ha
  | [x], ha, hb =>
    rw [List.mem_singleton] at ha hb
    exact absurd (ha.trans hb.symm) hab
  | _ :: _ :: _, _, _ => simp

/-- two tensors of the model that reference one buffer which at most one tensor references are equal -/
theorem sole_referent (m : Model) (b : Nat)
    (hcnt : (m.subgraphs.flatMap (·.tensors)).countP (fun u => u.buffer == b) ≤ 1)
    (sg sg' : Subgraph) (hsg : sg ∈ m.subgraphs) (hsg' : sg' ∈ m.subgraphs) (t t' : Tensor)
    (ht : t ∈ sg.tensors) (ht' : t' ∈ sg'.tensors) (hb : t.buffer = b) (hb' : t'.buffer = b) : t = t' := by
  by_contra hne
  rw [List.countP_eq_length_filter] at hcnt
  have h1 : t ∈ (m.subgraphs.flatMap (·.tensors)).filter (fun u => u.buffer == b) :=
    List.mem_filter.2 ⟨List.mem_flatMap.2 ⟨sg, hsg, ht⟩, by simp [hb]⟩
  have h2 : t' ∈ (m.subgraphs.flatMap (·.tensors)).filter (fun u => u.buffer == b) :=
    List.mem_filter.2 ⟨List.mem_flatMap.2 ⟨sg', hsg', ht'⟩, by simp [hb']⟩
  have := two_le_length _ t t' h1 h2 hne
  omega

/-! ## assembling `SharersAgree` -/

theorem isConst_of (m : Model) (sg : Subgraph) (i : Nat) (tn : Tensor) (c : Nat ⊕ PId)
    (htn : sg.tensors[i]? = some tn) (hb : m.buffers[tn.buffer]? = some (some c)) :
    isConst m sg (i : Int) = true := by
  unfold isConst
  simp [htn, hb]

theorem shape_of_lookup {m : Model} {res : List (String × CReq)} (C : Ctx m res) (n : String) (r : CReq)
    (hr : Py.dictGet? res n = some r) (cs : List CO2T) (c : CO2T) (hcs : r.consumers = some cs)
    (hc : c ∈ cs) : ∃ x, c.xfs = [x] := by
  have hE := C.entries (n, r) (SharingProofs.dictGet?_mem _ _ _ hr)
  obtain ⟨s, sg, i, hloc⟩ := hE.loc
  obtain ⟨x, hx, -⟩ := (hE.cons cs c hcs hc s sg i hloc).1.xf
  exact ⟨x, hx⟩

/-- the entry of `bufferToTensors` that lists an operand is the entry of the operand's own buffer -/
theorem entry_of_listed {m : Model} {res : List (String × CReq)} (C : Ctx m res) (s : Nat) (sg : Subgraph)
    (i : Nat) (tn : Tensor) (hsg : m.subgraphs[s]? = some sg) (htn : sg.tensors[i]? = some tn)
    (hflat : tn.name ∈ (bufferToTensors m).flatMap (·.2)) :
    ∃ l, (tn.buffer, l) ∈ bufferToTensors m ∧ tn.name ∈ l := by
  obtain ⟨⟨b0, l⟩, hbl, hnl⟩ := List.mem_flatMap.1 hflat
  obtain ⟨sg', hsg', t', ht', hname, hbuf⟩ := b2t_sound m _ hbl _ hnl
  obtain ⟨s', hs'⟩ := List.mem_iff_getElem?.1 hsg'
  obtain ⟨i', hi'⟩ := List.mem_iff_getElem?.1 ht'
  obtain ⟨-, rfl, rfl⟩ := loc_unique m C.nu tn.name s s' sg sg' i i' ⟨hsg, tn, htn, rfl⟩ ⟨hs', t', hi', hname⟩
  rw [htn] at hi'; cases hi'
  have hbuf' : tn.buffer = b0 := hbuf
  exact ⟨l, by rw [hbuf']; exact hbl, hnl⟩

/-- a consumer request of a tensor comes from a real operator (then the tensor is listed in
    `bufferToTensors`) or from the OUTPUT pseudo-operator (id `-1`) -/
theorem listed_or_output {m : Model} {res : List (String × CReq)} (C : Ctx m res)
    (e : String × CReq) (he : e ∈ res) (s : Nat) (sg : Subgraph) (i : Nat) (tn : Tensor)
    (hsg : m.subgraphs[s]? = some sg) (htn : sg.tensors[i]? = some tn) (hname : e.1 = tn.name)
    (cs : List CO2T) (c : CO2T) (hcs : e.2.consumers = some cs) (hcm : c ∈ cs) :
    tn.name ∈ (bufferToTensors m).flatMap (·.2) ∨ c.opId = -1 := by
  have hloc : Loc m e.1 s sg i := ⟨hsg, tn, htn, hname.symm⟩
  have hsgm : sg ∈ m.subgraphs := List.mem_of_getElem? hsg
  rcases ((C.entries e he).cons cs c hcs hcm s sg i hloc).2 with ⟨_, op, hop, hmem⟩ | ⟨h1, _⟩
  · exact .inl (b2t_complete m sg hsgm op (List.mem_of_getElem? hop) i (List.mem_append_right _ hmem) tn htn)
  · exact .inr h1

theorem quantSrc_cases (x : Xf) (h : quantSrc x = true) : x = .quantTensor ∨ x = .addDequant := by
  cases x <;> simp [quantSrc] at h ⊢

/-- **soundness of the two sharing checks for the generated instructions**: for a result dictionary
    that passes `checkBufferSharing` and `checkUnreadOwn`, the generated instruction lists satisfy
    `SharersAgree`.  No hypothesis on the model beyond `Ctx` is needed. -/
theorem sharersAgree_of_check {m : Model} {res : List (String × CReq)} (C : Ctx m res)
    (hchk : checkBufferSharing m res = .ok ()) (hown : checkUnreadOwn m res = .ok ()) (tis : List TInsts)
    (hgen : genInsts m (areqsOf res) = .ok tis) : SharingE2E.SharersAgree m tis := by
  have hlook : ∀ e ∈ res, Py.dictGet? res e.1 = some e.2 := fun e he =>
    SharingProofs.mem_dictGet? res e.1 e.2 C.keys he
  have hshape : ∀ (l : List String), ∀ n ∈ l, ∀ r, Py.dictGet? res n = some r → ∀ cs c,
      r.consumers = some cs → c ∈ cs → ∃ x, c.xfs = [x] :=
    fun _ n _ r hr cs c hcs hc => shape_of_lookup C n r hr cs c hcs hc
  -- what a retyped referent of a data buffer gives
  have hkey : ∀ b c0, m.buffers[b]? = some (some c0) → ∀ s i p, SharingE2E.Referent m b s i →
      SharingE2E.Retyped tis s i p →
      ∃ (e : String × CReq) (sg : Subgraph) (tn : Tensor) (cs : List CO2T) (c : CO2T) (x : Xf) (P : Param),
        e ∈ res ∧ m.subgraphs[s]? = some sg ∧ sg.tensors[i]? = some tn ∧ tn.buffer = b ∧
        e.1 = tn.name ∧ e.2.consumers = some cs ∧ c ∈ cs ∧
        c.xfs = [x] ∧ quantSrc x = true ∧ c.param = some P ∧
        (tblOf res).findIdx? (fun q => q.eqv P) = some p := by
    intro b c0 hb s i p ⟨sg, tn, h1, h2, h3⟩ hR
    have hc : isConst m sg i = true := isConst_of m sg i tn c0 h2 (by rw [h3]; exact hb)
    obtain ⟨e, he, hname, cs, c, x, P, g1, g2, g3, g4, g5, g6⟩ :=
      retyped_req C tis hgen s i p sg tn h1 h2 hc hR
    exact ⟨e, sg, tn, cs, c, x, P, he, h1, h2, h3, hname, g1, g2, g3, g4, g5, g6⟩
  -- a listed tensor lies in the entry of its buffer
  have hentry : ∀ (b s : Nat) (sg : Subgraph) (i : Nat) (tn : Tensor), m.subgraphs[s]? = some sg → sg.tensors[i]? = some tn → tn.buffer = b →
      tn.name ∈ (bufferToTensors m).flatMap (·.2) → ∃ l, (b, l) ∈ bufferToTensors m ∧ tn.name ∈ l := by
    intro b s sg i tn h1 h2 h3 hflat
    obtain ⟨l, hl, hnl⟩ := entry_of_listed C s sg i tn h1 h2 hflat
    exact ⟨l, by rw [← h3]; exact hl, hnl⟩
  have hluniq : ∀ (b : Nat) (l l' : List String), (b, l) ∈ bufferToTensors m → (b, l') ∈ bufferToTensors m → l' = l := by
    intro b l l' hl hl'
    have a1 := (SharingProofs.b2t_mem_iff m b l).1 hl
    have a2 := (SharingProofs.b2t_mem_iff m b l').1 hl'
    rw [a1] at a2; cases a2; rfl
  -- an UNREAD retyped tensor is the only referent of its buffer (`checkUnreadOwn`)
  have hsole : ∀ b c0, m.buffers[b]? = some (some c0) → ∀ (e : String × CReq) (s : Nat) (sg : Subgraph)
      (i : Nat) (tn : Tensor) (cs : List CO2T) (c : CO2T) (x : Xf),
      e ∈ res → m.subgraphs[s]? = some sg → sg.tensors[i]? = some tn → tn.buffer = b → e.1 = tn.name →
      e.2.consumers = some cs → c ∈ cs → c.xfs = [x] → quantSrc x = true →
      tn.name ∉ (bufferToTensors m).flatMap (·.2) →
      ∀ s' i', SharingE2E.Referent m b s' i' → s' = s ∧ i' = i := by
    intro b c0 hb e s sg i tn cs c x he h1 h2 h3 hname g1 g2 g3 g4 hun s' i' ⟨sg', tn', h1', h2', h3'⟩
    have hcnt := unreadOwn_sound m res hown sg (List.mem_of_getElem? h1) tn (List.mem_of_getElem? h2) hun
      ⟨c0, by rw [h3]; exact hb⟩ e.2 (by rw [← hname]; exact hlook e he)
      ⟨c, by rw [g1]; exact g2, x, by rw [g3]; rfl, quantSrc_cases x g4⟩
    have heq : tn = tn' := sole_referent m tn.buffer hcnt sg sg' (List.mem_of_getElem? h1)
      (List.mem_of_getElem? h1') tn tn' (List.mem_of_getElem? h2) (List.mem_of_getElem? h2') rfl
      (by rw [h3', h3])
    subst heq
    obtain ⟨e1, -, e3⟩ := loc_unique m C.nu tn.name s s' sg sg' i i' ⟨h1, tn, h2, rfl⟩ ⟨h1', tn, h2', rfl⟩
    exact ⟨e1.symm, e3.symm⟩
  -- two dictionary entries with the same key are the same entry
  have hsame_entry : ∀ (e e' : String × CReq), e ∈ res → e' ∈ res → e.1 = e'.1 → e.2 = e'.2 := by
    intro e e' he he' h
    have a1 := hlook e he
    have a2 := hlook e' he'
    rw [h, a2] at a1
    exact (Option.some.inj a1).symm
  constructor
  · -- one parameter per buffer
    intro b c0 hb s i p s' i' p' hR hR' hT hT'
    obtain ⟨e, sg, tn, cs, c, x, P, he, h1, h2, h3, hname, g1, g2, g3, g4, g5, g6⟩ := hkey b c0 hb s i p hR hT
    obtain ⟨e', sg', tn', cs', c', x', P', he', h1', h2', h3', hname', g1', g2', g3', g4', g5', g6'⟩ :=
      hkey b c0 hb s' i' p' hR' hT'
    -- the case of an unread tensor: it is the only referent, all its requests come from OUTPUT
    have unread : ∀ (e e' : String × CReq) (s : Nat) (sg : Subgraph) (i : Nat) (tn : Tensor) (cs : List CO2T)
        (c : CO2T) (x : Xf) (P : Param) (s' : Nat) (sg' : Subgraph) (i' : Nat) (tn' : Tensor)
        (cs' : List CO2T) (c' : CO2T) (P' : Param) (p p' : PId),
        e ∈ res → m.subgraphs[s]? = some sg → sg.tensors[i]? = some tn → tn.buffer = b → e.1 = tn.name →
        e.2.consumers = some cs → c ∈ cs → c.xfs = [x] → quantSrc x = true → c.param = some P →
        (tblOf res).findIdx? (fun q => q.eqv P) = some p →
        e' ∈ res → m.subgraphs[s']? = some sg' → sg'.tensors[i']? = some tn' → tn'.buffer = b →
        e'.1 = tn'.name → e'.2.consumers = some cs' → c' ∈ cs' → c'.param = some P' →
        (tblOf res).findIdx? (fun q => q.eqv P') = some p' →
        tn.name ∉ (bufferToTensors m).flatMap (·.2) → p = p' := by
      intro e e' s sg i tn cs c x P s' sg' i' tn' cs' c' P' p p' he h1 h2 h3 hname g1 g2 g3 g4 g5 g6
        he' h1' h2' h3' hname' g1' g2' g5' g6' hun
      obtain ⟨rfl, rfl⟩ := hsole b c0 hb e s sg i tn cs c x he h1 h2 h3 hname g1 g2 g3 g4 hun s' i'
        ⟨sg', tn', h1', h2', h3'⟩
      rw [h1] at h1'; cases h1'
      rw [h2] at h2'; cases h2'
      have h2e := hsame_entry e e' he he' (hname.trans hname'.symm)
      rw [← h2e, g1] at g1'; cases g1'
      have o1 : c.opId = -1 := by
        rcases listed_or_output C e he _ _ _ _ h1 h2 hname cs c g1 g2 with h | h
        · exact absurd h hun
        · exact h
      have o2 : c'.opId = -1 := by
        rcases listed_or_output C e he _ _ _ _ h1 h2 hname cs c' g1 g2' with h | h
        · exact absurd h hun
        · exact h
      have hpp := ((C.entries e he).coh cs c c' g1 g2 g2' (o1.trans o2.symm)).2
      rw [g5, g5'] at hpp
      cases hpp
      rw [g6] at g6'; cases g6'; rfl
    by_cases hfl : tn.name ∈ (bufferToTensors m).flatMap (·.2)
    · by_cases hfl' : tn'.name ∈ (bufferToTensors m).flatMap (·.2)
      · obtain ⟨l, hl, hnl⟩ := hentry b s sg i tn h1 h2 h3 hfl
        obtain ⟨l', hl', hnl'⟩ := hentry b s' sg' i' tn' h1' h2' h3' hfl'
        obtain rfl := hluniq b l l' hl hl'
        rw [← hname] at hnl
        rw [← hname'] at hnl'
        obtain ⟨hub, hhub, hfam⟩ := family m res hchk b l' hl ⟨c0, hb⟩ (hshape l') e.1 hnl e.2 (hlook e he)
          cs g1 (List.ne_nil_of_mem g2)
        obtain ⟨r1, hr1, cs1, hcs1, -, hS1⟩ := hfam e.1 hnl
        rw [hlook e he] at hr1; cases hr1
        rw [g1] at hcs1; cases hcs1
        obtain ⟨r2, hr2, cs2, hcs2, -, hS2⟩ := hfam e'.1 hnl'
        rw [hlook e' he'] at hr2; cases hr2
        rw [g1'] at hcs2; cases hcs2
        have hS : S c c' := S_trans _ _ _ hhub (hS1 c g2) (S_symm _ _ (hS2 c' g2'))
        obtain ⟨-, hpe⟩ := hS x x' g3 g3'
        have hpe' := hpe g4
        rw [g5, g5'] at hpe'
        have heq : P.eqv P' = true := hpe'
        rw [findIdx_eqv _ P P' heq, g6'] at g6
        cases g6; rfl
      · exact (unread e' e s' sg' i' tn' cs' c' x' P' s sg i tn cs c P p' p he' h1' h2' h3' hname' g1' g2'
          g3' g4' g5' g6' he h1 h2 h3 hname g1 g2 g5 g6 hfl').symm
    · exact unread e e' s sg i tn cs c x P s' sg' i' tn' cs' c' P' p p' he h1 h2 h3 hname g1 g2 g3 g4 g5 g6
        he' h1' h2' h3' hname' g1' g2' g5' g6' hfl
  · -- all or none
    intro b c0 hb s i p s' i' hR hR' hT
    obtain ⟨e, sg, tn, cs, c, x, P, he, h1, h2, h3, hname, g1, g2, g3, g4, g5, g6⟩ := hkey b c0 hb s i p hR hT
    by_cases hfl : tn.name ∈ (bufferToTensors m).flatMap (·.2)
    swap
    · -- the retyped tensor is unread: it is the only referent
      obtain ⟨rfl, rfl⟩ := hsole b c0 hb e s sg i tn cs c x he h1 h2 h3 hname g1 g2 g3 g4 hfl s' i' hR'
      exact ⟨p, hT⟩
    obtain ⟨l, hl, hnl⟩ := hentry b s sg i tn h1 h2 h3 hfl
    rw [← hname] at hnl
    obtain ⟨sg', tn', h1', h2', h3'⟩ := hR'
    have hc' : isConst m sg' i' = true := isConst_of m sg' i' tn' c0 h2' (by rw [h3']; exact hb)
    obtain ⟨hub, hhub, hfam⟩ := family m res hchk b l hl ⟨c0, hb⟩ (hshape l) e.1 hnl e.2 (hlook e he)
      cs g1 (List.ne_nil_of_mem g2)
    obtain ⟨r1, hr1, cs1, hcs1, -, hS1⟩ := hfam e.1 hnl
    rw [hlook e he] at hr1; cases hr1
    rw [g1] at hcs1; cases hcs1
    by_cases hflat : tn'.name ∈ (bufferToTensors m).flatMap (·.2)
    · obtain ⟨l', hl', hnl'⟩ := hentry b s' sg' i' tn' h1' h2' h3' hflat
      obtain rfl := hluniq b l l' hl hl'
      obtain ⟨r2, hr2, cs2, hcs2, hne2, hS2⟩ := hfam tn'.name hnl'
      have he2 : (tn'.name, r2) ∈ res := SharingProofs.dictGet?_mem _ _ _ hr2
      refine req_retyped C tis hgen (tn'.name, r2) he2 s' sg' i' ⟨h1', tn', h2', rfl⟩ hc' cs2 hcs2 hne2 ?_
      intro c2 hc2
      obtain ⟨x2, hx2⟩ := shape_of_lookup C _ r2 hr2 cs2 c2 hcs2 hc2
      have hS : S c c2 := S_trans _ _ _ hhub (hS1 c g2) (S_symm _ _ (hS2 c2 hc2))
      obtain ⟨hq, hpe⟩ := hS x x2 g3 hx2
      have hpe' := hpe g4
      obtain ⟨P2, hP2, -⟩ := optParamEq_some _ _ P hpe' g5
      exact ⟨x2, P2, hx2, by rw [← hq]; exact g4, hP2⟩
    · -- an unread tensor never shares a buffer that is rewritten for an operand
      exfalso
      have hun := SharingProofs.sharing_unread m res hchk sg' (List.mem_of_getElem? h1') tn'
        (List.mem_of_getElem? h2') hflat ⟨c0, by rw [h3']; exact hb⟩ e.1
        (by rw [h3', (SharingProofs.b2t_mem_iff m b l).1 hl]; exact hnl) e.2 (hlook e he)
        c (by rw [g1]; exact g2) x (by rw [g3]; rfl)
      rcases quantSrc_cases x g4 with rfl | rfl
      · exact hun.1 rfl
      · exact hun.2 rfl

end SharingGen
