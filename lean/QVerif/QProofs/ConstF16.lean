import Mathlib.Tactic.Ring
import Mathlib.Tactic.Linarith
import Mathlib.Tactic.NormNum
import Mathlib.Tactic.Positivity
import QProofs.BytesProofs
import QProofs.RoundingMono
/-!
# Every finite value of the model's float16 rounding is a binary16 number

`Prec.f16.chk x = .ok r` (round to nearest even with 11 significand bits, minimal exponent -14, no
overflow) implies that `r` is zero, a normal binary16 number `±m·2^(e-10)` (`1024 ≤ m < 2048`,
`-14 ≤ e ≤ 15`) or a sub-normal one `±m·2^-24` (`0 < m < 1024`): the hypothesis of the storage round
trip `BytesProofs.f16Val_f16Bits`.
-/
open Num Bytes

set_option autoImplicit false

namespace ConstF16

/-- `x` is a finite IEEE binary16 number -/
def F16Repr (x : Rat) : Prop :=
  x = 0 ∨
  (∃ (s : Bool) (m : Nat) (e : Int), 1024 ≤ m ∧ m < 2048 ∧ -14 ≤ e ∧ e ≤ 15 ∧
    x = (if s then -1 else 1) * (m : Rat) * (2:Rat)^(e - 10)) ∨
  (∃ (s : Bool) (m : Nat), 0 < m ∧ m < 1024 ∧
    x = (if s then -1 else 1) * (m : Rat) * (2:Rat)^(-24 : Int))

theorem F16Repr.neg {x : Rat} (h : F16Repr x) : F16Repr (-x) := by
  rcases h with rfl | ⟨s, m, e, h1, h2, h3, h4, rfl⟩ | ⟨s, m, h1, h2, rfl⟩
  · exact .inl (by simp)
  · refine .inr (.inl ⟨!s, m, e, h1, h2, h3, h4, ?_⟩)
    cases s <;> simp
  · refine .inr (.inr ⟨!s, m, h1, h2, ?_⟩)
    cases s <;> simp

/-- the storage round trip for binary16 numbers -/
theorem F16Repr.roundtrip {x : Rat} (h : F16Repr x) : BytesProofs.f16Val (f16Bits x) = x :=
  BytesProofs.f16Val_f16Bits x h

theorem zpow_split (e : Int) : (2:Rat)^e = 1024 * (2:Rat)^(e - 10) := by
  rw [zpow_sub₀ (by norm_num)]; norm_num; ring

/-- positive case -/
theorem rnPos_repr (x : Rat) (hx : 0 < x) (hfin : rnPos 11 (-14) x ≤ 65504) :
    F16Repr (rnPos 11 (-14) x) := by
  obtain ⟨hlo, hhi⟩ := Rounding.flog2_spec x hx
  unfold rnPos at hfin ⊢
  simp only [] at hfin ⊢
  set e : Int := max (flog2 x) (-14) with he
  have he14 : -14 ≤ e := le_max_right _ _
  have hef : flog2 x ≤ e := le_max_left _ _
  have hq : (((11:Nat) : Int) - 1) = 10 := by norm_num
  rw [hq] at hfin ⊢
  set q : Rat := (2:Rat)^(e - 10) with hqdef
  have hqpos : 0 < q := Rounding.two_zpow_pos _
  -- the significand
  have hxq0 : (0:Rat) ≤ x / q := le_of_lt (div_pos hx hqpos)
  have hxq2 : x / q ≤ (2048 : Rat) := by
    rw [div_le_iff₀ hqpos]
    have h1 : (2:Rat)^(flog2 x + 1) ≤ (2:Rat)^(e + 1) := zpow_le_zpow_right₀ (by norm_num) (by omega)
    have h2 : (2:Rat)^(e + 1) = 2048 * q := by
      rw [hqdef, zpow_add₀ (by norm_num), zpow_split e]; ring
    linarith
  have hM0 : 0 ≤ rhe (x / q) := by
    have := Rounding.rhe_mono hxq0
    rwa [show ((0:Rat)) = ((0:Int) : Rat) by norm_num, Rounding.rhe_int] at this
  have hM2 : rhe (x / q) ≤ 2048 := by
    have := Rounding.rhe_mono hxq2
    rwa [show ((2048:Rat)) = ((2048:Int) : Rat) by norm_num, Rounding.rhe_int] at this
  obtain ⟨m, hm⟩ : ∃ m : Nat, rhe (x / q) = (m : Int) := ⟨(rhe (x / q)).toNat, by omega⟩
  rw [hm] at hfin ⊢
  have hm2 : m ≤ 2048 := by omega
  have hcast : (((m : Nat) : Int) : Rat) = (m : Rat) := by norm_cast
  rw [hcast] at hfin ⊢
  -- in the normal range the significand is at least 1024
  have hnorm : -14 < e → 1024 ≤ m := by
    intro hgt
    have hfe : e = flog2 x := by
      rcases max_cases (flog2 x) (-14) with ⟨h, _⟩ | ⟨h, _⟩
      · rw [he, h]
      · rw [he, h] at hgt; omega
    have : (1024 : Rat) ≤ x / q := by
      rw [le_div_iff₀ hqpos]
      have h1 : (2:Rat)^e = 1024 * q := by rw [hqdef]; exact zpow_split e
      have h2 : (2:Rat)^e ≤ x := by rw [hfe]; exact hlo
      linarith
    have := Rounding.rhe_mono this
    rw [show ((1024:Rat)) = ((1024:Int) : Rat) by norm_num, Rounding.rhe_int, hm] at this
    omega
  by_cases h0 : m = 0
  · subst h0
    exact .inl (by simp)
  by_cases h1 : m < 1024
  · -- sub-normal: then `e = -14`
    have he' : e = -14 := by
      by_contra hne
      have := hnorm (by omega)
      omega
    refine .inr (.inr ⟨false, m, by omega, h1, ?_⟩)
    rw [hqdef, he']
    norm_num
  by_cases h2 : m < 2048
  · -- normal with exponent `e`
    have he15 : e ≤ 15 := by
      by_contra hgt
      have h16 : (2:Rat)^(16:Int) ≤ (2:Rat)^e := zpow_le_zpow_right₀ (by norm_num) (by omega)
      have hme : (2:Rat)^e ≤ (m : Rat) * q := by
        rw [zpow_split e]
        exact mul_le_mul_of_nonneg_right (by exact_mod_cast (by omega : 1024 ≤ m)) (le_of_lt hqpos)
      have : (2:Rat)^(16:Int) = 65536 := by norm_num
      linarith
    exact .inr (.inl ⟨false, m, e, by omega, h2, he14, he15, by simp [hqdef]⟩)
  · -- carry into the next binade
    have hm' : m = 2048 := by omega
    subst hm'
    have hval : ((2048 : Nat) : Rat) * q = ((1024 : Nat) : Rat) * (2:Rat)^((e + 1) - 10) := by
      rw [hqdef, show (e + 1) - 10 = (e - 10) + 1 by ring, zpow_add₀ (by norm_num)]
      push_cast; ring
    have he15 : e + 1 ≤ 15 := by
      by_contra hgt
      have h16 : (2:Rat)^(16:Int) ≤ (2:Rat)^(e + 1) := zpow_le_zpow_right₀ (by norm_num) (by omega)
      have hme : (2:Rat)^(e + 1) = ((2048 : Nat) : Rat) * q := by
        rw [hqdef, zpow_add₀ (by norm_num), zpow_split e]; push_cast; ring
      have : (2:Rat)^(16:Int) = 65536 := by norm_num
      linarith
    exact .inr (.inl ⟨false, 1024, e + 1, by omega, by omega, by omega, he15, by rw [hval]; simp⟩)

theorem maxFinite_f16 : Prec.f16.maxFinite = 65504 := by
  unfold Prec.maxFinite Prec.p Prec.emax
  norm_num

/-- **every finite result of the model's float16 rounding is a binary16 number** -/
theorem chk_repr (x r : Rat) (h : Prec.f16.chk x = .ok r) : r = Prec.f16.rn x ∧ F16Repr r := by
  unfold Prec.chk at h
  split at h
  · rename_i hfin
    simp only [Except.ok.injEq] at h
    subst h
    refine ⟨rfl, ?_⟩
    have hf : Prec.f16.rn x ≤ 65504 ∧ -65504 ≤ Prec.f16.rn x := by
      have : (decide (Prec.f16.rn x ≤ Prec.f16.maxFinite) && decide (-Prec.f16.maxFinite ≤ Prec.f16.rn x)) = true := hfin
      rw [maxFinite_f16] at this
      simpa using this
    have hrn : Prec.f16.rn x = Num.rn 11 (-14) x := rfl
    rw [hrn] at hf ⊢
    unfold Num.rn at hf ⊢
    by_cases h0 : x = 0
    · rw [if_pos h0]; exact .inl rfl
    · rw [if_neg h0] at hf ⊢
      by_cases hp : x > 0
      · rw [if_pos hp] at hf ⊢
        exact rnPos_repr x hp hf.1
      · rw [if_neg hp] at hf ⊢
        have hneg : 0 < -x := by
          rcases lt_trichotomy x 0 with h | h | h
          · linarith
          · exact absurd h h0
          · exact absurd h hp
        exact (rnPos_repr (-x) hneg (by linarith [hf.2])).neg
  · cases h

/-- list form -/
theorem mapM_chk_repr : ∀ (d h : List Rat), d.mapM Prec.f16.chk = .ok h →
    h.length = d.length ∧ ∀ (i : Nat) (hi : i < h.length) (hd : i < d.length),
      h[i] = Prec.f16.rn d[i] ∧ F16Repr h[i] := by
  intro d
  induction d with
  | nil => intro h hh; cases hh; exact ⟨rfl, fun i hi => by simp at hi⟩
  | cons x xs ih =>
    intro h hh
    rw [List.mapM_cons] at hh
    simp only [bind, Except.bind, pure, Except.pure] at hh
    cases hx : Prec.f16.chk x with
    | error e => rw [hx] at hh; cases hh
    | ok r =>
      rw [hx] at hh
      simp only [] at hh
      cases hr : xs.mapM Prec.f16.chk with
      | error e => rw [hr] at hh; cases hh
      | ok rs =>
        rw [hr] at hh
        simp only [Except.ok.injEq] at hh
        subst hh
        obtain ⟨hl, hel⟩ := ih rs hr
        refine ⟨by simp [hl], ?_⟩
        intro i hi hd
        cases i with
        | zero => exact chk_repr x r hx
        | succ j =>
          simp only [List.getElem_cons_succ]
          exact hel j (by simpa using hi) (by simpa using hd)

end ConstF16
