import QProofs.MatTotalMain
import QProofs.GraphTotal
/-!
# Every quantizing request side carries usable parameters (C08: `ReqParamsKnown`, `NoMixed` for the graph stage)
-/
open Graph Mat Arith Cfg Num Nd Pipe PipeNF GraphStep GenInstsOK SharingGen SharingData Perform

set_option autoImplicit false

namespace MatTotal

/-- the bit width the graph stage can map to a tensor type -/
def bitsOK : Param → Prop
  | .uniform qp _ => qp.bits ≤ 64
  | .nonlinear b _ => b = 16 ∨ b = 32

/-- a request side: its parameters (if any) have a usable bit width, and it has parameters when it
    asks for a quantizing transformation -/
def SideGood (o : CO2T) : Prop :=
  (∀ P, o.param = some P → bitsOK P) ∧ ((∃ x ∈ o.xfs, isInsertion x = true) → o.param.isSome = true)

def ReqGood (r : CReq) : Prop := ∀ o ∈ Locality.allO r, SideGood o

theorem reqGood_noQuantReq (n : String) (o : Int) (b : Bool) : ReqGood (noQuantReq n o b) := by
  intro c hc
  rw [Locality.allO_noQuantReq, List.mem_singleton] at hc
  subst hc
  refine ⟨fun P h => (by cases h), ?_⟩
  rintro ⟨x, hx, hi⟩
  simp only [List.mem_singleton] at hx
  subst hx
  cases hi

theorem reqGood_mkReq (n : String) (oi : OpInfo) (b : Bool) (p : Option Param) (isC : Bool) (r : CReq)
    (h : mkReq n oi b p isC = .ok r) (hp : ∀ P, p = some P → bitsOK P)
    (hx : p = none → ∀ xfs, tensorXfs oi.cfg b isC = .ok xfs → xfs = [.noQuant]) : ReqGood r := by
  obtain ⟨xfs, hxf, hall⟩ := Locality.mkReq_allO n oi b p isC r h
  intro o ho
  rw [hall, List.mem_singleton] at ho
  subst ho
  refine ⟨hp, ?_⟩
  rintro ⟨x, hxm, hi⟩
  cases hpp : p with
  | some P => rfl
  | none =>
    have := hx hpp xfs hxf
    simp only [] at hxm
    rw [this, List.mem_singleton] at hxm
    subst hxm
    cases hi

open MatParams in
/-- a per-tensor request made without given parameters is good under a legal min/max mode -/
theorem reqGood_wrapper_none (env : Env) (qs : Qsvs) (oi : OpInfo) (t : Tensor) (b : Bool) (r : CReq)
    (hmode : C13.modeOK oi.opName oi.cfg = true) (h : wrapper env qs oi t b none = .ok r) :
    ReqGood r ∧ ∀ o ∈ Locality.allO r, oi.cfg.act.isSome = true → o.param.isSome = true := by
  obtain ⟨w, hw, _, hwb, hmodes⟩ := modeOK_facts _ _ hmode
  rcases (wrapper_none_ok_iff env qs oi t b r).1 h with ⟨h0, hmk⟩ | ⟨tc, mn, mx, qdim, qp, dat, htc, _, _, hrp, _, hmk⟩
  · -- no tensor config: activation config absent and not the weight of a weight operator
    have hact : oi.cfg.act = none ∧ ¬ ((constData env t).isSome = true ∧ weightOp oi.opName = true) := by
      unfold tcfgOf at h0
      split at h0
      · rw [hw] at h0; cases h0
      · rename_i hc
        refine ⟨h0, fun hh => hc ?_⟩
        have := hh.2
        unfold weightOp at this
        simp only [Bool.and_eq_true, hh.1, this, and_self]
    refine ⟨reqGood_mkReq _ oi b none _ r hmk (fun P hP => by cases hP) ?_, ?_⟩
    · intro _ xfs hx
      unfold tensorXfs at hx
      rcases hmodes with ⟨_, a, ha, _⟩ | ⟨hcp, ha, hd⟩ | ⟨hcp, ha, hd, hed⟩
      · rw [hact.1] at ha; cases ha
      · have hwo : weightOp oi.opName = true := by unfold weightOp; rw [hd]; simp
        have hnc : (constData env t).isSome = false := by
          cases hcc : (constData env t).isSome with
          | false => rfl
          | true => exact absurd ⟨hcc, hwo⟩ hact.2
        simp only [hcp, ha, hnc, beq_self_eq_true, Option.isSome_none, Bool.and_false, Bool.false_eq_true, if_false,
          Option.isNone_none, Bool.and_self, if_true] at hx
        cases hx; rfl
      · have hwo : weightOp oi.opName = true := by unfold weightOp; rw [hd]; simp
        have hnc : (constData env t).isSome = false := by
          cases hcc : (constData env t).isSome with
          | false => rfl
          | true => exact absurd ⟨hcc, hwo⟩ hact.2
        have hwg' : (w.gran == Gran.blockwise) = false := by
          cases hgg : w.gran <;> simp_all
        simp only [hcp, ha, hw, hed, hnc, hwg', show (CP.float == CP.integer) = false by decide, Bool.false_and,
          Bool.false_eq_true, if_false, beq_self_eq_true, Bool.and_self, if_true, Bool.and_false] at hx
        cases hx; rfl
    · intro o _ hsome
      rw [hact.1] at hsome
      cases hsome
  · have hbits : qp.bits ≤ 64 := by
      unfold refParams at hrp
      cases hz : zpScale tc.bits.toNat tc.symmetric mn mx with
      | error e => rw [hz] at hrp; cases hrp
      | ok zs =>
        rw [hz] at hrp
        simp only [Except.ok.injEq] at hrp
        subst hrp
        simp only []
        -- the config is the weight (4 or 8 bits) or the activation config (8 or 16 bits)
        unfold tcfgOf at htc
        split at htc
        · rw [hw] at htc; cases htc
          rcases hwb with h | h <;> rw [h] <;> decide
        · rcases hmodes with ⟨_, a, ha, hb, _⟩ | ⟨_, ha, _⟩ | ⟨_, ha, _⟩
          · rw [ha] at htc; cases htc
            rcases hb with h | h <;> rw [h] <;> decide
          · rw [ha] at htc; cases htc
          · rw [ha] at htc; cases htc
    obtain ⟨xfs, _, hall⟩ := Locality.mkReq_allO _ oi b _ _ r hmk
    refine ⟨reqGood_mkReq _ oi b _ _ r hmk (fun P hP => by cases hP; exact hbits) (fun hn => by cases hn), ?_⟩
    intro o ho _
    rw [hall, List.mem_singleton] at ho
    subst ho
    rfl

open MatParams in
/-- … and one made with given (good) parameters is good -/
theorem reqGood_wrapper_given (env : Env) (qs : Qsvs) (oi : OpInfo) (t : Tensor) (b : Bool) (P : Param) (r : CReq)
    (hP : bitsOK P) (h : wrapper env qs oi t b (some P) = .ok r) : ReqGood r := by
  rw [wrapper_given_eq] at h
  split at h
  · rename_i qp d _
    cases hu : uniformQuantize ⟨d, .f32⟩ qp with
    | error e => rw [hu] at h; cases h
    | ok q =>
      rw [hu] at h
      exact reqGood_mkReq _ oi b _ _ r h (fun P' hP' => by cases hP'; exact hP) (fun hn => by cases hn)
  · exact reqGood_mkReq _ oi b _ _ r h (fun P' hP' => by cases hP'; exact hP) (fun hn => by cases hn)

theorem bitsOK_stripData (p : Option Param) (h : ∀ P, p = some P → bitsOK P) : ∀ P, stripData p = some P → bitsOK P := by
  intro P hP
  cases p with
  | none => cases hP
  | some q =>
    cases q with
    | nonlinear b d => cases hP; exact h _ rfl
    | uniform qp d =>
      cases d with
      | none => cases hP; exact h _ rfl
      | some v => cases hP; exact (h _ rfl : bitsOK (.uniform qp (some v)))

theorem reqParam0_good (r : CReq) (hr : ReqGood r) (p : Option Param) (h : reqParam0 r = .ok p) :
    ∀ P, p = some P → bitsOK P := by
  unfold reqParam0 at h
  split at h
  · rename_i c cs hc
    cases h
    exact (hr c (by simp [Locality.allO, hc])).1
  · cases h

/-- the requests of `standardOp` are good -/
theorem reqGood_standardOp (env : Env) (sg : Subgraph) (qs : Qsvs) (oi : OpInfo) (con : Constraint) (gi go : List Nat)
    (rs : List CReq) (qs' : Qsvs) (hmode : C13.modeOK oi.opName oi.cfg = true)
    (h : standardOp env sg qs oi con gi go = .ok (rs, qs')) : ∀ r ∈ rs, ReqGood r := by
  obtain ⟨inIgn, outIgn, rin, rout, g, gO, _, _, hrs, hrin, hrout, hg, hgO⟩ := standardOp_shape env sg qs oi con gi go rs qs' h
  have hgood : ∀ (b : Bool) (gg : Option Param), (∀ P, gg = some P → bitsOK P) → ∀ (ign : List Nat) (p : Int × Nat) (r : CReq),
      SlotReq env sg qs oi b ign gg p r → ReqGood r := by
    intro b gg hgg ign p r ⟨t, _, hreq⟩
    split at hreq
    · rw [hreq]; exact reqGood_noQuantReq _ _ _
    · cases gg with
      | none => exact (reqGood_wrapper_none env qs oi t b r hmode hreq).1
      | some P => exact reqGood_wrapper_given env qs oi t b P r (hgg P rfl) hreq
  have hgB : ∀ P, g = some P → bitsOK P := by
    rcases hg with rfl | ⟨_, p, _, t, orq, _, _, hw, rfl⟩
    · intro P hP; cases hP
    · intro P hP
      have := (reqGood_wrapper_none env qs oi t false orq hmode hw).1
      cases hpr : orq.producer with
      | none => rw [hpr] at hP; cases hP
      | some pr =>
        rw [hpr] at hP
        exact (this pr (by simp [Locality.allO, hpr])).1 P hP
  have hgOB : ∀ P, gO = some P → bitsOK P := by
    rcases hgO with rfl | ⟨_, p, _, t, ir, p0, _, _, hw, hp0, rfl⟩
    · intro P hP; cases hP
    · exact bitsOK_stripData p0 (reqParam0_good ir (reqGood_wrapper_none env qs oi t true ir hmode hw).1 p0 hp0)
  intro r hr
  rw [hrs] at hr
  rcases List.mem_append.1 hr with hr | hr
  · obtain ⟨p, _, hp⟩ := hrin.mem_right hr
    exact hgood true g hgB inIgn p r hp
  · obtain ⟨p, _, hp⟩ := hrout.mem_right hr
    exact hgood false gO hgOB outIgn p r hp


theorem quantizeBias_bits (bias : FArr) (qi qw qp : QParams) (q : IArr) (h : quantizeBias bias qi qw = .ok (qp, q)) :
    qp.bits ≤ 64 := by
  unfold quantizeBias at h
  obtain ⟨prod, _, h⟩ := GraphInv.bind_ok _ _ _ h
  simp only [] at h
  obtain ⟨q', _, h⟩ := GraphInv.bind_ok _ _ _ h
  simp only [pure, Except.pure, Except.ok.injEq, Prod.mk.injEq] at h
  rw [← h.1]
  simp only []
  split <;> decide

theorem mem_set_cases' {α} (l : List α) (i : Nat) (x y : α) (h : y ∈ l.set i x) : y = x ∨ y ∈ l := by
  rcases Pipe.mem_set_cases l i x y h with h | ⟨j, _, hj⟩
  · exact .inl h
  · exact .inr (List.mem_of_getElem? hj)

theorem reqGood_biasFor (env : Env) (sg : Subgraph) (oi : OpInfo) (reqs rs : List CReq) (iIn iW iB : Nat)
    (hmode : C13.modeOK oi.opName oi.cfg = true) (hreqs : ∀ r ∈ reqs, ReqGood r)
    (h : biasFor env sg oi reqs iIn iW iB = .ok rs) : ∀ r ∈ rs, ReqGood r := by
  cases hb : oi.op.inputs[iB]? with
  | none =>
    unfold biasFor at h
    rw [hb] at h
    simp only [pure, Except.pure, Except.ok.injEq] at h
    subst h; exact hreqs
  | some bslot =>
    by_cases hne : bslot = -1
    · unfold biasFor at h
      rw [hb] at h
      simp only [hne, beq_self_eq_true, if_true, pure, Except.pure, Except.ok.injEq] at h
      subst h; exact hreqs
    · by_cases hsrq : isSRQ oi.cfg = true
      · obtain ⟨bt, bd, rin, rw', qi, di, qw, dw, qp, q, _, _, _, _, _, _, hqb, _, hrs⟩ :=
          MatParams.biasFor_srq env sg oi reqs rs iIn iW iB bslot hsrq hb hne h
        subst hrs
        intro r hr
        rcases mem_set_cases' _ _ _ _ hr with rfl | hr
        · intro o ho
          simp only [MatParams.srqReq, if_true, Locality.allO, Option.toList_none, List.nil_append, Option.getD_some,
            List.mem_singleton] at ho
          subst ho
          exact ⟨fun P hP => by cases hP; exact quantizeBias_bits _ _ _ _ _ hqb, fun _ => rfl⟩
        · exact hreqs r hr
      · -- no static-range quantization: the bias stays float
        obtain ⟨w, hw, _, _, hmodes⟩ := modeOK_facts _ _ hmode
        unfold biasFor at h
        rw [hb] at h
        simp only [] at h
        rw [if_neg (by simpa using hne)] at h
        obtain ⟨bt, _, h⟩ := GraphInv.bind_ok _ _ _ h
        simp only [hsrq, Bool.false_eq_true, if_false] at h
        obtain ⟨bp, hbp, h⟩ := GraphInv.bind_ok _ _ _ h
        simp only [pure, Except.pure, Except.ok.injEq] at hbp
        subst hbp
        obtain ⟨r0, hr0, h⟩ := GraphInv.bind_ok _ _ _ h
        split at h
        · simp only [pure, Except.pure, Except.ok.injEq] at h
          subst h
          have hsrq' : isSRQ oi.cfg = false := by simpa using hsrq
          have hgood : ReqGood r0 := by
            refine reqGood_mkReq _ oi true none false r0 hr0 (fun P hP => by cases hP) ?_
            intro _ xfs hx
            unfold tensorXfs at hx
            rcases hmodes with ⟨hcp, a, ha, _⟩ | ⟨hcp, ha, _⟩ | ⟨hcp, ha, _, hed⟩
            · unfold isSRQ at hsrq'; rw [hcp, ha] at hsrq'; cases hsrq'
            · simp only [hcp, ha, beq_self_eq_true, Option.isSome_none, Bool.and_false, Bool.false_eq_true, if_false,
                Option.isNone_none, Bool.and_self, if_true] at hx
              cases hx; rfl
            · have hwg' : (w.gran == Gran.blockwise) = false := by
                cases hgg : w.gran <;> simp_all
              simp only [hcp, ha, hw, hed, hwg', show (CP.float == CP.integer) = false by decide, Bool.false_and,
                Bool.false_eq_true, if_false, beq_self_eq_true, Bool.and_self, if_true, Bool.and_false] at hx
              cases hx; rfl
          intro r hr
          rcases mem_set_cases' _ _ _ _ hr with rfl | hr
          · exact hgood
          · exact hreqs r hr
        · cases h

theorem reqGood_fixedRangeOp (env : Env) (sg : Subgraph) (qs : Qsvs) (oi : OpInfo) (sl : Bool) (rs : List CReq) (qs' : Qsvs)
    (hmode : C13.modeOK oi.opName oi.cfg = true) (h : fixedRangeOp env sg qs oi sl = .ok (rs, qs')) :
    ∀ r ∈ rs, ReqGood r := by
  obtain ⟨_, reqs, q, hstd, hcase⟩ := MatParams.fixedRangeOp_spec env sg qs oi sl rs qs' h
  have hgood := reqGood_standardOp env sg qs oi .none [] [] reqs q hmode hstd
  rcases hcase with ⟨rfl, _, _⟩ | ⟨last, a, pr, fp, mm, hl, ha, hpr, hfp, _, rfl, _⟩
  · exact hgood
  · obtain ⟨_, _, _, _, hmodes⟩ := modeOK_facts _ _ hmode
    have hbits : a.bits = 8 ∨ a.bits = 16 := by
      rcases hmodes with ⟨_, a', ha', hb, _⟩ | ⟨_, ha', _⟩ | ⟨_, ha', _⟩
      · rw [ha] at ha'; cases ha'; exact hb
      · rw [ha] at ha'; cases ha'
      · rw [ha] at ha'; cases ha'
    have hbn : a.bits.toNat = 8 ∨ a.bits.toNat = 16 := by
      rcases hbits with hb | hb <;> rw [hb]
      · exact .inl rfl
      · exact .inr rfl
    have hfpb : fp.bits ≤ 64 := by
      have key : ∀ (b : Nat), (b = 8 ∨ b = 16) → ∀ fp', fixedParams sl b = some fp' → fp'.bits = b := by
        intro b hb fp' hf
        unfold fixedParams at hf
        simp only [] at hf
        rcases hb with rfl | rfl <;> cases sl <;> simp only [Bool.false_eq_true, if_false, if_true] at hf
        all_goals (cases hf; rfl)
      rw [key _ hbn fp hfp]
      rcases hbn with h | h <;> rw [h] <;> decide
    intro r hr
    rcases List.mem_append.1 hr with hr | hr
    · exact hgood r (List.mem_of_mem_dropLast hr)
    · rw [List.mem_singleton] at hr
      subst hr
      have hlast := hgood last (List.mem_of_getLast? hl)
      intro o ho
      simp only [Locality.allO, Option.toList_some, List.singleton_append, List.mem_cons] at ho
      rcases ho with rfl | ho
      · exact ⟨fun P hP => by cases hP; exact hfpb, fun _ => rfl⟩
      · exact hlast o (by simp only [Locality.allO, List.mem_append]; exact .inr ho)

theorem reqGood_castWeight (n : String) (o : Int) (p : Param) (hp : bitsOK p) :
    ReqGood ⟨n, none, some [(⟨o, [.addDequant], some p⟩ : CO2T)]⟩ := by
  intro c hc
  simp only [Locality.allO, Option.toList_none, List.nil_append, Option.getD_some, List.mem_singleton] at hc
  subst hc
  exact ⟨fun P hP => by cases hP; exact hp, fun _ => rfl⟩

theorem reqGood_floatCastOp (env : Env) (sg : Subgraph) (oi : OpInfo) (iIn iW iB : Nat) (rs : List CReq)
    (h : floatCastOp env sg oi iIn iW iB = .ok rs) : ∀ r ∈ rs, ReqGood r := by
  unfold floatCastOp at h
  simp only [] at h
  obtain ⟨sIn, _, h⟩ := GraphInv.bind_ok _ _ _ h
  obtain ⟨tin, _, h⟩ := GraphInv.bind_ok _ _ _ h
  obtain ⟨sW, _, h⟩ := GraphInv.bind_ok _ _ _ h
  obtain ⟨tw, _, h⟩ := GraphInv.bind_ok _ _ _ h
  obtain ⟨sOut, _, h⟩ := GraphInv.bind_ok _ _ _ h
  obtain ⟨tout, _, h⟩ := GraphInv.bind_ok _ _ _ h
  obtain ⟨wd, _, h⟩ := GraphInv.bind_ok _ _ _ h
  obtain ⟨hh, _, h⟩ := GraphInv.bind_ok _ _ _ h
  have hW : ReqGood ⟨tw.name, none, some [(⟨oi.opId, [.addDequant], some (.nonlinear 16 (some ⟨wd.shape, hh⟩))⟩ : CO2T)]⟩ :=
    reqGood_castWeight _ _ _ (.inl rfl)
  have base : ∀ r ∈ [noQuantReq tin.name oi.opId true,
      (⟨tw.name, none, some [(⟨oi.opId, [.addDequant], some (.nonlinear 16 (some ⟨wd.shape, hh⟩))⟩ : CO2T)]⟩ : CReq),
      noQuantReq tout.name oi.opId false], ReqGood r := by
    intro r hr
    simp only [List.mem_cons, List.mem_nil_iff, or_false] at hr
    rcases hr with rfl | rfl | rfl
    · exact reqGood_noQuantReq _ _ _
    · exact hW
    · exact reqGood_noQuantReq _ _ _
  split at h
  · split at h
    · obtain ⟨tb, _, h⟩ := GraphInv.bind_ok _ _ _ h
      simp only [pure, Except.pure, Except.ok.injEq] at h
      subst h
      intro r hr
      rcases List.mem_append.1 hr with hr | hr
      · exact base r hr
      · rw [List.mem_singleton] at hr; subst hr; exact reqGood_noQuantReq _ _ _
    · simp only [pure, Except.pure, Except.ok.injEq] at h
      subst h; exact base
  · simp only [pure, Except.pure, Except.ok.injEq] at h
    subst h; exact base

/-- every request of one step of the walk is good -/
theorem reqGood_opReqs (rx : String → String → Bool) (env : Env) (st : Recipe.State) (qsvs : Option Qsvs)
    (H : Hyp rx env st qsvs) (sg : Subgraph) (hsg : sg ∈ env.model.subgraphs) (sIdx : Nat)
    (q : Op × Option String × Int) (hq : q ∈ allOps sg) (qs : Qsvs) (rs : List CReq) (qs' : Qsvs)
    (hQ : ∀ n, Present (qsvs.getD []) n → Present qs n)
    (h : opReqs rx env st sIdx sg qs q = .ok (rs, qs')) : ∀ r ∈ rs, ReqGood r := by
  rcases opReqs_ok_cases rx env st sIdx sg qs q rs qs' h with ⟨hn, _⟩ | ⟨k, scope, ops, fn, S, hrun⟩
  · unfold noQuantOp at hn
    obtain ⟨ins, hins, hn⟩ := GraphInv.bind_ok _ _ _ hn
    obtain ⟨outs, houts, hn⟩ := GraphInv.bind_ok _ _ _ hn
    simp only [pure, Except.pure, Except.ok.injEq] at hn
    subst hn
    intro r hr
    rcases List.mem_append.1 hr with hr | hr
    · obtain ⟨a, _, hf⟩ := GraphFrame.mapM_ok _ _ _ hins r hr
      obtain ⟨t, _, hf⟩ := GraphInv.bind_ok _ _ _ hf
      simp only [pure, Except.pure, Except.ok.injEq] at hf
      subst hf; exact reqGood_noQuantReq _ _ _
    · obtain ⟨a, _, hf⟩ := GraphFrame.mapM_ok _ _ _ houts r hr
      obtain ⟨t, _, hf⟩ := GraphInv.bind_ok _ _ _ hf
      simp only [pure, Except.pure, Except.ok.injEq] at hf
      subst hf; exact reqGood_noQuantReq _ _ _
  · have C := entry_ctx rx env st qsvs H sg hsg sIdx q hq k scope fn ops S qs hQ
    cases hk : kindOf (Recipe.resolve rx st k scope).1 fn with
    | unknown => rw [hk] at hrun; cases hrun
    | std con gi =>
      rw [hk] at hrun C
      exact reqGood_standardOp env sg qs _ con gi [] rs qs' C.mode hrun
    | conv =>
      rw [hk] at hrun C
      simp only [runKind] at hrun
      obtain ⟨⟨r, q'⟩, hs, hrun⟩ := GraphInv.bind_ok _ _ _ hrun
      obtain ⟨r', hb, hrun⟩ := GraphInv.bind_ok _ _ _ hrun
      simp only [pure, Except.pure, Except.ok.injEq, Prod.mk.injEq] at hrun
      rw [← hrun.1]
      exact reqGood_biasFor env sg _ r r' 0 1 2 C.1.mode (reqGood_standardOp env sg qs _ .none [2] [] r q' C.1.mode hs) hb
    | convT =>
      rw [hk] at hrun C
      simp only [runKind] at hrun
      obtain ⟨⟨r, q'⟩, hs, hrun⟩ := GraphInv.bind_ok _ _ _ hrun
      split at hrun
      · cases hrun
      · obtain ⟨r', hb, hrun⟩ := GraphInv.bind_ok _ _ _ hrun
        simp only [pure, Except.pure, Except.ok.injEq, Prod.mk.injEq] at hrun
        rw [← hrun.1]
        exact reqGood_biasFor env sg _ r r' 2 1 3 C.1.mode (reqGood_standardOp env sg qs _ .none [0, 3] [] r q' C.1.mode hs) hb
    | fixed sl =>
      rw [hk] at hrun C
      exact reqGood_fixedRangeOp env sg qs _ sl rs qs' C.std.mode hrun
    | cast a b c =>
      rw [hk] at hrun
      simp only [runKind] at hrun
      obtain ⟨r, hr, hrun⟩ := GraphInv.bind_ok _ _ _ hrun
      simp only [pure, Except.pure, Except.ok.injEq, Prod.mk.injEq] at hrun
      rw [← hrun.1]
      exact reqGood_floatCastOp env sg _ a b c r hr

/-! ## through `updateResults` and the walk -/

/-- every side of every entry is good -/
def ResGood (res : List (String × CReq)) : Prop := ∀ e ∈ res, ReqGood e.2

theorem stepF_resGood (res res' : List (String × CReq)) (r : CReq) (hd : ResGood res) (hr : ReqGood r)
    (h : stepF res r = .ok res') : ResGood res' := by
  unfold stepF at h
  cases hg : Py.dictGet? res r.name with
  | none =>
    rw [hg] at h
    simp only [pure, Except.pure, Except.ok.injEq] at h
    subst h
    intro e he
    rcases List.mem_append.1 he with he | he
    · exact hd e he
    · rw [List.mem_singleton.1 he]; exact hr
  | some cur =>
    rw [hg] at h
    simp only [] at h
    have hcur := hd (r.name, cur) (SharingProofs.dictGet?_mem _ _ _ hg)
    split at h
    · cases h
    · simp only [pure, Except.pure, Except.ok.injEq] at h
      subst h
      intro e he
      rcases CalibProofs.mem_dictSet _ _ _ _ he with he | he
      · exact hd e he
      · subst he
        intro o ho
        simp only [Locality.allO, List.mem_append, Option.mem_toList] at ho hcur hr
        unfold ReqGood Locality.allO at hcur hr
        simp only [List.mem_append, Option.mem_toList] at hcur hr
        rcases ho with ho | ho
        · cases hrp : r.producer with
          | some p =>
            rw [hrp] at ho
            simp only [Option.some.injEq] at ho
            exact hr o (Or.inl (by rw [hrp, ho]))
          | none =>
            rw [hrp] at ho
            exact hcur o (Or.inl ho)
        · cases hrc : r.consumers with
          | none =>
            rw [hrc] at ho
            exact hcur o (Or.inr ho)
          | some c =>
            rw [hrc] at ho
            cases hcc : cur.consumers with
            | none =>
              rw [hcc] at ho
              exact hr o (Or.inr (by rw [hrc]; exact ho))
            | some c0 =>
              rw [hcc] at ho
              simp only [Option.getD_some, List.mem_append] at ho
              rcases ho with ho | ho
              · exact hcur o (Or.inr (by rw [hcc]; exact ho))
              · exact hr o (Or.inr (by rw [hrc]; exact ho))

theorem updateResults_resGood : ∀ (rs : List CReq) (res res' : List (String × CReq)), ResGood res →
    (∀ r ∈ rs, ReqGood r) → updateResults res rs = .ok res' → ResGood res' := by
  intro rs
  induction rs with
  | nil =>
    intro res res' hd _ h
    simp only [updateResults_eq, List.foldlM_nil, pure, Except.pure, Except.ok.injEq] at h
    rw [← h]; exact hd
  | cons r rs ih =>
    intro res res' hd hrs h
    rw [updateResults_eq, List.foldlM_cons] at h
    obtain ⟨res2, h2, h⟩ := GraphInv.bind_ok _ _ _ h
    exact ih res2 res' (stepF_resGood res res2 r hd (hrs r List.mem_cons_self) h2)
      (fun r' hr' => hrs r' (List.mem_cons_of_mem _ hr')) h

/-- **every entry of the result dictionary of a completed walk is good** -/
theorem reach_resGood (rx : String → String → Bool) (env : Env) (st : Recipe.State) (qsvs : Option Qsvs)
    (H : Hyp rx env st qsvs) : ∀ (l acc : List ((Subgraph × Nat) × (Op × Option String × Int))) (s0 s : GState),
    (∀ x ∈ l, x ∈ flatOps env.model) → Inv qsvs acc s0 → ResGood s0.2 → l.foldlM (flatStep rx env st) s0 = .ok s →
    ResGood s.2 := by
  intro l
  induction l with
  | nil =>
    intro acc s0 s _ _ hg h
    simp only [List.foldlM_nil, pure, Except.pure, Except.ok.injEq] at h
    subst h; exact hg
  | cons x xs ih =>
    intro acc s0 s hmem hI hg h
    rw [List.foldlM_cons] at h
    obtain ⟨s1, h1, h⟩ := GraphInv.bind_ok _ _ _ h
    have hx := hmem x List.mem_cons_self
    obtain ⟨hsg, hq⟩ := mem_flatOps env.model x hx
    have hsgm : x.1.1 ∈ env.model.subgraphs := List.mem_of_getElem? hsg
    obtain ⟨rs, hr, hu⟩ := opStep_ok rx env st x.1.2 x.1.1 s0 s1 x.2 h1
    have hg1 : ResGood s1.2 := updateResults_resGood rs s0.2 s1.2 hg
      (reqGood_opReqs rx env st qsvs H x.1.1 hsgm x.1.2 x.2 hq s0.1 rs s1.1 hI.present hr) hu
    exact ih (acc ++ [x]) s1 s (fun y hy => hmem y (List.mem_cons_of_mem _ hy))
      (inv_step rx env st qsvs H acc x hx s0 s1 hI h1) hg1 h

end MatTotal
