import QProofs.BlockwiseLaws
import QProofs.ArithRounded
/-!
# Symmetric quantization of one channel: every element of the channel's range is in the integer range

* `sym_exact`: ideal arithmetic. The scale is `max(|min|, |max|, 1e-4) / qmax`; every `x ∈ [min, max]` satisfies
  `|x| ≤ qmax · s` (so the C17 half-step law `dq_q_ideal` applies to it);
* `dq_q_sym_f32`: float32 arithmetic as numpy performs it. The rounded scale may be one ulp too small, so the extreme
  element may exceed `qmax · s` by a relative `2^-23`; the half-step law (with the float32 slack of C17b) holds for
  it all the same (`dqq_core_sym` is `ArithRounded.dqq_core` with that overshoot allowed).
-/
open Num Nd Arith PrecL ArithL RAux

set_option autoImplicit false

namespace BlockwiseL

theorem abs_le_maxAbs {mn mx x : Rat} (h1 : mn ≤ x) (h2 : x ≤ mx) : |x| ≤ maxR (absR mn) (absR mx) := by
  rw [absR_eq, absR_eq]
  rcases le_total 0 x with h | h
  · rw [abs_of_nonneg h]; exact le_trans (le_trans h2 (le_abs_self mx)) (maxR_ge_right _ _)
  · rw [abs_of_nonpos h]; exact le_trans (le_trans (neg_le_neg h1) (neg_le_abs mn)) (maxR_ge_left _ _)

theorem abs_le_symBound (pr : Prec) {mn mx x : Rat} (h1 : mn ≤ x) (h2 : x ≤ mx) : |x| ≤ symBound pr mn mx :=
  le_trans (abs_le_maxAbs h1 h2) (maxR_ge_left _ _)

theorem qmax_ge_one (bits : Nat) (hb2 : 2 ≤ bits) : (1:Int) ≤ qmax bits := by
  unfold qmax
  have : (2:Int) ≤ 2^(bits-1) := by
    calc (2:Int) = 2^1 := by norm_num
      _ ≤ 2^(bits-1) := pow_le_pow_right₀ (by norm_num) (by omega)
  omega

theorem zpScale1_sym (pr : Prec) (bits : Nat) (mn mx : Rat) (z : Int) (s : Rat)
    (h : zpScale1 pr bits true mn mx = .ok (z, s)) : z = 0 ∧ s = symScale pr bits mn mx := by
  unfold zpScale1 at h
  simp only [if_true] at h
  split at h
  · simp only [Except.ok.injEq, Prod.mk.injEq] at h
    exact ⟨h.1.symm, h.2.symm⟩
  · cases h

/-- **symmetric, ideal arithmetic**: zero point 0, the reference scale, and the whole range `[mn, mx]` is in range -/
theorem sym_exact (bits : Nat) (hb2 : 2 ≤ bits) (hb : bits ≤ 53) (mn mx : Rat) (z : Int) (s : Rat)
    (h : zpScale1 .exact bits true mn mx = .ok (z, s)) :
    z = 0 ∧ s = maxR (maxR (absR mn) (absR mx)) (1/10000) / ((qmax bits : Int) : Rat) ∧ 0 < s ∧
    ∀ x, mn ≤ x → x ≤ mx → -(((qmax bits : Int) : Rat) * s) ≤ x ∧ x ≤ ((qmax bits : Int) : Rat) * s := by
  obtain ⟨hz, hs⟩ := zpScale1_sym .exact bits mn mx z s h
  have hq : qmaxF bits = ((qmax bits : Int) : Rat) := by unfold qmaxF; rw [if_pos hb]
  have hs' : s = symBound .exact mn mx / ((qmax bits : Int) : Rat) := by
    rw [hs, ← hq]; rfl
  have hQ : (1:Rat) ≤ ((qmax bits : Int) : Rat) := by exact_mod_cast qmax_ge_one bits hb2
  have hb0 : 0 < symBound .exact mn mx := by
    have : (1:Rat)/40000 ≤ minBound .exact := minBound_ge .exact (by decide)
    have h2 : minBound .exact ≤ symBound .exact mn mx := maxR_ge_right _ _
    linarith
  have hs0 : 0 < s := by rw [hs']; exact div_pos hb0 (by linarith)
  refine ⟨hz, hs', hs0, ?_⟩
  intro x h1 h2
  have hx := abs_le_symBound .exact h1 h2
  have e : ((qmax bits : Int) : Rat) * s = symBound .exact mn mx := by
    rw [hs']; field_simp
  rw [e]
  rw [abs_le] at hx
  exact ⟨hx.1, hx.2⟩

/-! ## float32 -/

theorem clip_near_eps (r lo hi : Int) (y ε : Rat) (hε : 0 ≤ ε) (h1 : (lo:Rat) - ε ≤ y) (h2 : y ≤ (hi:Rat) + ε) :
    |((clipI r lo hi : Int) : Rat) - y| ≤ |(r:Rat) - y| + ε := by
  have hn := neg_abs_le ((r:Rat) - y)
  have hp := le_abs_self ((r:Rat) - y)
  have h0 := abs_nonneg ((r:Rat) - y)
  unfold clipI
  split_ifs with a b
  · have : (r:Rat) < lo := by exact_mod_cast a
    rw [abs_le]; constructor <;> linarith
  · have : (hi:Rat) < r := by exact_mod_cast b
    rw [abs_le]; constructor <;> linarith
  · linarith

/-- `ArithRounded.dqq_core` for the symmetric (narrow) range and zero point 0, with the input allowed to exceed the
    range by the relative `2·2^-24` a rounded scale can cause -/
theorem dqq_core_sym (s : Rat) (hs1 : (2:Rat)^(-100:Int) ≤ s) (hs2 : s ≤ (2:Rat)^(100:Int))
    (P L H : Int) (hP : 2 ≤ P) (hP2 : P ≤ 32768) (hL : L = -P + 1) (hH : H = P - 1) (x : Rat)
    (hlo : -(((P - 1 : Int) : Rat) * s * (1 + 2 * u24)) ≤ x) (hhi : x ≤ ((P - 1 : Int) : Rat) * s * (1 + 2 * u24)) :
    |Prec.f64.rn (((clipI (rhe (Prec.f32.rn (Prec.f32.rn (x * Prec.f32.rn (1 / s)) + ((0:Int):Rat)))) L H - 0 : Int) : Rat) * s) - x|
      ≤ s * (1/2 + 16 * u24 * P) := by
  have hs0 : 0 < s := lt_of_lt_of_le (zpow_pos (by norm_num) _) hs1
  obtain ⟨w, rfl⟩ : ∃ w, x = w * s := ⟨x / s, by field_simp⟩
  have hu := le_of_lt u24_pos
  have i5 : (2 : Rat) ≤ (P : Rat) := by exact_mod_cast hP
  have i6 : (P : Rat) ≤ 32768 := by exact_mod_cast hP2
  have hwlo : -(((P:Rat) - 1) * (1 + 2 * u24)) ≤ w := by
    have : -(((P - 1 : Int) : Rat) * (1 + 2 * u24)) * s ≤ w * s := by
      have e : -(((P - 1 : Int) : Rat) * (1 + 2 * u24)) * s = -(((P - 1 : Int) : Rat) * s * (1 + 2 * u24)) := by ring
      rw [e]; exact hlo
    have := le_of_mul_le_mul_right this hs0
    push_cast at this
    exact this
  have hwhi : w ≤ ((P:Rat) - 1) * (1 + 2 * u24) := by
    have : w * s ≤ (((P - 1 : Int) : Rat) * (1 + 2 * u24)) * s := by
      have e : (((P - 1 : Int) : Rat) * (1 + 2 * u24)) * s = ((P - 1 : Int) : Rat) * s * (1 + 2 * u24) := by ring
      rw [e]; exact hhi
    have := le_of_mul_le_mul_right this hs0
    push_cast at this
    exact this
  -- the overshoot
  obtain ⟨ε, hε⟩ : ∃ ε : Rat, ε = 2 * u24 * P := ⟨_, rfl⟩
  have hε1 : ((P:Rat) - 1) * (1 + 2 * u24) ≤ (P:Rat) - 1 + ε := by
    rw [hε]; nlinarith
  have hεs : ε ≤ 1/128 := by rw [hε]; unfold u24; linarith
  have hε0 : 0 ≤ ε := by rw [hε]; unfold u24; linarith
  have hw : |w| ≤ 2 * (P : Rat) := by rw [abs_le]; constructor <;> linarith
  have hy : |w + ((0:Int):Rat)| ≤ 2 * (P : Rat) / 2 := by
    rw [Int.cast_zero, add_zero, abs_le]; constructor <;> linarith
  have hsum := ArithRounded.sum_core s hs1 hs2 (2 * (P : Rat)) (by linarith) w 0 hw hy
  set sm := Prec.f32.rn (Prec.f32.rn (w * s * Prec.f32.rn (1 / s)) + ((0:Int):Rat)) with hsm
  have herr := Rounding.rhe_err sm
  have hLr : (L:Rat) = -(P:Rat) + 1 := by rw [hL]; push_cast; ring
  have hHr : (H:Rat) = (P:Rat) - 1 := by rw [hH]; push_cast; ring
  have hclip := clip_near_eps (rhe sm) L H (w + ((0:Int):Rat)) ε hε0
    (by rw [hLr, Int.cast_zero, add_zero]; linarith) (by rw [hHr, Int.cast_zero, add_zero]; linarith)
  obtain ⟨c1, c2⟩ := ArithRounded.clipI_range (rhe sm) L H (by omega)
  set cl := clipI (rhe sm) L H with hcl
  have hr : |((rhe sm : Int) : Rat) - (w + ((0:Int):Rat))| ≤ 1/2 + 3 * u24 * (2 * (P : Rat)) := by
    have e : ((rhe sm : Int) : Rat) - (w + ((0:Int):Rat))
        = (((rhe sm : Int) : Rat) - sm) + (sm - (w + ((0:Int):Rat))) := by ring
    rw [e]; exact le_trans (abs_add_le _ _) (add_le_add herr hsum)
  have hcy : |(cl : Rat) - (w + ((0:Int):Rat))| ≤ 1/2 + 3 * u24 * (2 * (P : Rat)) + ε :=
    le_trans hclip (add_le_add hr (le_refl ε))
  obtain ⟨d4, hd4, e4⟩ := int_mul_delta .f64 (Or.inr rfl) (cl - 0) s hs1
  rw [e4]
  have e : ((cl - 0 : Int) : Rat) * s * (1 + d4) - w * s
      = s * (((cl - 0 : Int) : Rat) * d4 + ((cl : Rat) - (w + ((0:Int):Rat)))) := by push_cast; ring
  rw [e, abs_mul, abs_of_pos hs0]
  apply mul_le_mul_of_nonneg_left _ (le_of_lt hs0)
  have hk : |((cl - 0 : Int) : Rat)| ≤ 2 * (P : Rat) := by
    have h : |cl - 0| ≤ 2 * P := by rw [abs_le]; omega
    exact_mod_cast h
  have hkd : |((cl - 0 : Int) : Rat) * d4| ≤ 2 * (P : Rat) * u24 := by
    rw [abs_mul]; exact mul_le_mul hk hd4 (abs_nonneg _) (by linarith)
  have := le_trans (abs_add_le (((cl - 0 : Int) : Rat) * d4) ((cl : Rat) - (w + ((0:Int):Rat)))) (add_le_add hkd hcy)
  rw [hε] at this
  unfold u24 at *
  linarith

/-- **symmetric quantization of a channel in float32**: EVERY element `x` of the channel's range `[mn, mx]` comes back
    within half a step plus the float32 slack of C17b — including the extreme element, which a scale rounded downwards
    leaves marginally outside `qmax · s` -/
theorem dq_q_sym_f32 (bits : Nat) (hb2 : 2 ≤ bits) (hb16 : bits ≤ 16) (mn mx x : Rat)
    (hmn : |mn| ≤ NumT.B) (hmx : |mx| ≤ NumT.B) (h1 : mn ≤ x) (h2 : x ≤ mx) (z : Int) (s : Rat)
    (h : zpScale1 .f32 bits true mn mx = .ok (z, s)) :
    z = 0 ∧ 0 < s ∧
    |dqVal true (storageBits bits) (storageBits bits) .f32
        (roundClip bits true (qSum .f32 .f32 (storageBits bits) x s 0)) 0 s - x|
      ≤ s * (1/2 + (2:Rat)^(bits + 3) * ArithRounded.u32) := by
  obtain ⟨hz, hs⟩ := zpScale1_sym .f32 bits mn mx z s h
  obtain ⟨z', s', ht, hslo, hshi⟩ := NumT.zpScale1_total .f32 (.inl rfl) bits hb2 hb16 true mn mx hmn hmx
  rw [h] at ht
  simp only [Except.ok.injEq, Prod.mk.injEq] at ht
  obtain ⟨_, rfl⟩ := ht
  have hs1 : (2:Rat)^(-100:Int) ≤ s := le_trans (NumT.pow_le_pow (by norm_num)) hslo
  have hs2 : s ≤ (2:Rat)^(100:Int) := le_trans hshi (NumT.pow_le_pow (by norm_num))
  have hs0 : 0 < s := lt_of_lt_of_le (zpow_pos (by norm_num) _) hs1
  obtain ⟨hqmin, hqmax, hi2, hi32768⟩ := range_bounds bits hb2 hb16
  -- the rounded scale: `s = (b / Q)(1 + δ)`
  set b := symBound .f32 mn mx with hbdef
  have hqF : qmaxF bits = ((qmax bits : Int) : Rat) := by unfold qmaxF; rw [if_pos (by omega)]
  have hQ1 : (1:Rat) ≤ ((qmax bits : Int) : Rat) := by exact_mod_cast qmax_ge_one bits hb2
  have hQ2 : ((qmax bits : Int) : Rat) ≤ 32767 := by
    have : qmax bits ≤ 32767 := by omega
    exact_mod_cast this
  have hb14 : (2:Rat)^(-14:Int) ≤ b := le_trans (NumT.minBound_ge14 .f32 (.inl rfl)) (maxR_ge_right _ _)
  have hb0 : 0 < b := lt_of_lt_of_le (zpow_pos (by norm_num) _) hb14
  have hquo : (2:Rat)^(-126:Int) ≤ |b / ((qmax bits : Int) : Rat)| := by
    rw [abs_of_pos (div_pos hb0 (by linarith))]
    have h14 : (2:Rat)^(-14:Int) = 1/16384 := by norm_num
    have : (1:Rat)/16384/32767 ≤ b / ((qmax bits : Int) : Rat) := by
      rw [div_le_div_iff₀ (by norm_num) (by linarith)]
      rw [h14] at hb14
      nlinarith
    have h126 := small126
    have : (1:Rat)/10000000000 ≤ 1/16384/32767 := by norm_num
    linarith
  obtain ⟨δ, hδ, eδ⟩ := rel_delta .f32 (.inl rfl) (b / ((qmax bits : Int) : Rat)) hquo
  have hsdef : s = b / ((qmax bits : Int) : Rat) * (1 + δ) := by
    rw [hs, ← eδ, ← hqF]; rfl
  have hQs : ((qmax bits : Int) : Rat) * s = b * (1 + δ) := by
    rw [hsdef]; field_simp
  have hxb := abs_le_symBound .f32 h1 h2
  rw [← hbdef] at hxb
  have hδ' := abs_le.mp hδ
  have hcover : b ≤ ((qmax bits : Int) : Rat) * s * (1 + 2 * u24) := by
    rw [hQs]
    have : 0 ≤ b * ((1 + δ) * (1 + 2 * u24) - 1) := by
      apply mul_nonneg (le_of_lt hb0)
      have e : (1 + δ) * (1 + 2 * u24) - 1 = δ + 2 * u24 + 2 * u24 * δ := by ring
      rw [e]
      unfold u24 at *
      nlinarith
    nlinarith
  rw [abs_le] at hxb
  -- the model functions as rounded expressions
  have hsb : storageBits bits = 8 ∨ storageBits bits = 16 := by
    unfold storageBits; split_ifs <;> simp
  generalize storageBits bits = zw at hsb ⊢
  have hsum : qSum .f32 .f32 zw x s 0
      = Prec.f32.rn (Prec.f32.rn (x * Prec.f32.rn (1 / s)) + ((0:Int):Rat)) := by
    rcases hsb with rfl | rfl <;> rfl
  rw [hsum, roundClip_eq bits hb2 (by omega) true]
  simp only [if_true]
  have hLH : qmin bits + 1 ≤ qmax bits := by omega
  obtain ⟨c1, c2⟩ := ArithRounded.clipI_range
    (rhe (Prec.f32.rn (Prec.f32.rn (x * Prec.f32.rn (1 / s)) + ((0:Int):Rat)))) (qmin bits + 1) (qmax bits) hLH
  have hsub : subWidth true zw zw = 32 := by rcases hsb with rfl | rfl <;> rfl
  have hd : ∀ q : Int, -40000 ≤ q → q ≤ 40000 →
      dqVal true zw zw .f32 q 0 s = Prec.f64.rn (((q - 0 : Int) : Rat) * s) := by
    intro q hq1 hq2
    unfold dqVal
    rw [hsub, wrap32 (q - 0) (by omega) (by omega)]
    rfl
  rw [hd _ (by omega) (by omega)]
  have hPm : (((2:Int)^(bits-1) - 1 : Int) : Rat) = ((qmax bits : Int) : Rat) := by rw [hqmax]
  have core := dqq_core_sym s hs1 hs2 ((2:Int)^(bits-1)) (qmin bits + 1) (qmax bits) hi2 hi32768
    (by rw [hqmin]) (by rw [hqmax]) x
    (by rw [hPm]; linarith [hxb.1]) (by rw [hPm]; linarith [hxb.2])
  refine ⟨hz, hs0, le_trans core (mul_le_mul_of_nonneg_left ?_ (le_of_lt hs0))⟩
  have e1 : (2:Rat)^(bits + 3) = 16 * (2:Rat)^(bits-1) := by
    rw [show bits + 3 = (bits - 1) + 4 by omega, pow_add]; norm_num; ring
  have e2 : ArithRounded.u32 = u24 := by unfold ArithRounded.u32; exact u24_eq.symm
  rw [e1, e2]; push_cast
  unfold u24
  linarith

end BlockwiseL
