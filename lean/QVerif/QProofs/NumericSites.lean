import QProofs.NumericArray
import QProofs.MatTotalMain
/-!
# The numeric raise sites of one operator's materialisation are excluded on bounded data (C08, numeric half)

`MatTotal.opSite_num_absurd`: under the context facts of `MatTotalOps` (`KindCtx`) and the numeric facts `NumKind`
(bounded constants, good statistics of the runtime tensors, the shape conditions of the bias), no NUMERIC site
(`… true e`) of `Mat.materializeOp` can fire.
-/
open Graph Mat Arith Cfg Num Nd Pipe PipeNF GraphStep NumT MatParams

set_option autoImplicit false

namespace MatTotal

/-- **good statistics of a runtime tensor**: finite (float32 / float64 / `exact`, `min` and `max` of one shape, magnitudes within
    `NumT.B = 2^63`) and per-tensor (every dimension of the arrays is 1: what `calibrate()` records, `keepdims=True`) -/
structure StatGood (mn mx : FArr) : Prop where
  fin : StatFin mn mx
  ones : ∀ d ∈ mn.arr.shape, d = 1

/-! ## statistics taken from a constant -/

theorem reduceKeep_bounded (f : Rat → Rat → Rat) (R : Rat → Rat → Prop) (hf : Sel f R) (a : Arr Rat) (dims : Option (List Nat))
    (r : Arr Rat) (h : reduceKeep f a dims = .ok r) (hb : ∀ x ∈ a.data, |x| ≤ B) : ∀ v ∈ r.data, |v| ≤ B := by
  obtain ⟨_, _, hlen, hcells⟩ := reduceKeep_spec f R hf a dims r h
  intro v hv
  obtain ⟨j, hj, rfl⟩ := List.getElem_of_mem hv
  have hg : r.data.getD j 0 = r.data[j] := by
    rw [List.getD_eq_getElem?_getD, List.getElem?_eq_getElem hj, Option.getD_some]
  rcases hcells j (by omega) with ⟨_, h0⟩ | ⟨⟨i, hi, _, he⟩, _⟩
  · rw [← hg, h0, abs_zero]; exact le_of_lt B_pos
  · rw [← hg, he]
    exact hb _ (getD_mem _ _ _ hi)

theorem oneDim_keepShape (shape : List Nat) (sq : Option Nat) : OneDim (keepShape shape (reduceDims sq shape.length)) := by
  cases sq with
  | none =>
    refine oneDim_ones _ ?_
    intro d hd
    simp only [reduceDims, Option.map_none, keepShape, List.mem_map] at hd
    obtain ⟨_, _, rfl⟩ := hd
    rfl
  | some q =>
    unfold keepShape reduceDims
    simp only [Option.map_some]
    have hrw : (List.range shape.length).map (fun i =>
          if ((List.range shape.length).filter (· != q)).contains i = true then 1 else shape.getD i 1) =
        (List.range shape.length).map (fun i => if i = q then shape.getD q 1 else 1) := by
      apply List.map_congr_left
      intro i hi
      rw [List.mem_range] at hi
      by_cases hiq : i = q
      · subst hiq; simp
      · simp [hiq, hi]
    rw [hrw]
    unfold OneDim
    generalize shape.getD q 1 = c
    generalize shape.length = n
    have key : ∀ n, ((List.range n).map (fun i => if i = q then c else 1)).filter (· ≠ 1) =
        if q < n ∧ c ≠ 1 then [c] else [] := by
      intro n
      induction n with
      | zero => simp
      | succ n ih =>
        rw [List.range_succ, List.map_append, List.filter_append, ih]
        by_cases hn : n = q
        · subst hn
          by_cases hc : c = 1
          · subst hc; simp
          · simp [hc]
        · have h1 : (q < n + 1) ↔ q < n := by omega
          simp [hn, h1]
    rw [key n]
    split <;> simp

/-- what `wrapper` uses as the statistics of a tensor: finite whenever the constants are bounded and the entries of the
    runtime tensors are good; per-tensor for a runtime tensor, of the reduced shape of the data for a constant -/
theorem statsOf_fin (env : Env) (qs : Qsvs) (oi : OpInfo) (t : Tensor) (mn mx : FArr)
    (hs : statsOf env qs oi t = .ok (some (mn, mx)))
    (hrun : constData env t = none → ∀ mn mx, Py.dictGet? qs t.name = some (some (mn, mx)) → StatGood mn mx)
    (hconst : ∀ d, constData env t = some d → ∀ x ∈ d.data, |x| ≤ B) :
    StatFin mn mx ∧ (constData env t = none → ∀ d ∈ mn.arr.shape, d = 1) ∧
    (∀ d, constData env t = some d →
      mn.arr.shape = keepShape d.shape (reduceDims (statQDim env oi d.shape.length) d.shape.length) ∧
      numel mn.arr.shape = (match statQDim env oi d.shape.length with | none => 1 | some q => d.shape.getD q 1)) := by
  cases hd : constData env t with
  | none =>
    have hg : StatGood mn mx := by
      refine hrun hd mn mx ?_
      unfold statsOf at hs
      rw [hd] at hs
      simp only [] at hs
      cases hq : Py.dictGet? qs t.name with
      | none => rw [hq] at hs; cases hs
      | some v => rw [hq] at hs; cases hs; rfl
    exact ⟨hg.fin, fun _ => hg.ones, (fun d h => by cases h)⟩
  | some d =>
    have hi := (statsOf_const env qs oi t d mn mx hd).1 hs
    obtain ⟨_, _, p1, p2, r1, r2, hsh, hnum, _, _, _⟩ := initMinMax_spec env oi t d mn mx (constData_shape env t d hd).2 hi
    have hb := hconst d hd
    refine ⟨⟨.inl p1, .inl p2, hsh, reduceKeep_bounded _ _ sel_min d _ _ r1 hb, reduceKeep_bounded _ _ sel_max d _ _ r2 hb⟩,
      (fun h => by cases h), ?_⟩
    intro d' hd'
    cases hd'
    exact ⟨(reduceKeep_spec _ _ sel_min d _ _ r1).2.1, hnum⟩

theorem statsOf_runtime (env : Env) (qs : Qsvs) (oi : OpInfo) (t : Tensor) (mn mx : FArr) (hd : constData env t = none)
    (hs : statsOf env qs oi t = .ok (some (mn, mx))) : Py.dictGet? qs t.name = some (some (mn, mx)) := by
  unfold statsOf at hs
  rw [hd] at hs
  simp only [] at hs
  cases hq : Py.dictGet? qs t.name with
  | none => rw [hq] at hs; cases hs
  | some v => rw [hq] at hs; cases hs; rfl

/-- an all-ones shape broadcasts to every shape of its rank -/
theorem compat_ones : ∀ (s r : List Nat), (∀ x ∈ s, x = 1) → s.length = r.length → Compat s r := by
  intro s
  induction s with
  | nil =>
    intro r _ hl
    cases r with
    | nil => exact List.Forall₂.nil
    | cons _ _ => cases hl
  | cons x s ih =>
    intro r h hl
    cases r with
    | nil => cases hl
    | cons y r =>
      exact List.Forall₂.cons (.inl (h x List.mem_cons_self))
        (ih r (fun z hz => h z (List.mem_cons_of_mem _ hz)) (by simpa using hl))

/-! ## the tensor config in use has a supported bit width -/

theorem tc_bits (env : Env) (oi : OpInfo) (t : Tensor) (tc : TCfg) (hmode : C13.modeOK oi.opName oi.cfg = true)
    (htc : tcfgOf env oi t = some tc) : 2 ≤ tc.bits.toNat ∧ tc.bits.toNat ≤ 16 := by
  obtain ⟨w, hw, _, hwb, hmodes⟩ := modeOK_facts _ _ hmode
  unfold tcfgOf at htc
  split at htc
  · rw [hw] at htc
    cases htc
    rcases hwb with h | h <;> rw [h] <;> decide
  · rcases hmodes with ⟨_, a, ha, hb, _⟩ | ⟨_, ha, _⟩ | ⟨_, ha, _⟩
    · rw [ha] at htc
      cases htc
      rcases hb with h | h <;> rw [h] <;> decide
    · rw [ha] at htc; cases htc
    · rw [ha] at htc; cases htc

/-- the reference parameters of finite statistics are usable -/
theorem refParams_good (bits : Nat) (hb2 : 2 ≤ bits) (hb16 : bits ≤ 16) (sym : Bool) (qdim : Option Nat) (mn mx : FArr)
    (S : StatFin mn mx) (qp : QParams) (h : refParams bits sym qdim mn mx = .ok qp) :
    QPGood sLo qp ∧ qp.scale.arr.shape = mn.arr.shape ∧ (∀ s ∈ qp.scale.arr.data, s ≤ B) := by
  unfold refParams at h
  cases hz : zpScale bits sym mn mx with
  | error e => rw [hz] at h; cases h
  | ok zs =>
    rw [hz] at h
    cases h
    exact zpScale_good bits hb2 hb16 sym mn mx S qdim zs.1 zs.2 hz

theorem _root_.NumT.QPGood.mono {L L' : Rat} {qp : QParams} (h : QPGood L qp) (hl : L' ≤ L) : QPGood L' qp :=
  { pr := h.pr, shape := h.shape, slen := h.slen, zlen := h.zlen, lo := fun s hs => le_trans hl (h.lo s hs), zp := h.zp }

/-! ## one tensor -/

/-- **no numeric site of a per-tensor materialisation**: legal min/max mode, good statistics if the tensor is a runtime
    tensor, bounded data if it is a constant, and a constant is only handed usable parameters whose shape broadcasts to its own -/
theorem tensorSite_num_absurd (env : Env) (qs : Qsvs) (oi : OpInfo) (t : Tensor) (inbound : Bool)
    (g : Option Param) (e : PyErr) (hmode : C13.modeOK oi.opName oi.cfg = true)
    (hrun : constData env t = none → ∀ mn mx, Py.dictGet? qs t.name = some (some (mn, mx)) → StatGood mn mx)
    (hconst : ∀ d, constData env t = some d → ∀ x ∈ d.data, |x| ≤ B)
    (hg : ∀ qp, g = some (.uniform qp none) → ∀ d, constData env t = some d →
      QPGood ((2:Rat)^(-60:Int)) qp ∧ Compat qp.scale.arr.shape d.shape) :
    ¬ TensorSite env qs oi t inbound g true e := by
  intro hsite
  generalize hnum : true = num at hsite
  cases hsite with
  | statsMissing => cases hnum
  | statsEmpty => cases hnum
  | constBlockwise => cases hnum
  | qdim => cases hnum
  | quantBlockwise => cases hnum
  | xfs => cases hnum
  | zpScale tc mn mx e hgn htc hs hz =>
    obtain ⟨hb2, hb16⟩ := tc_bits env oi t tc hmode htc
    obtain ⟨S, _, _⟩ := statsOf_fin env qs oi t mn mx hs hrun hconst
    obtain ⟨zs, hzs⟩ := zpScale_total tc.bits.toNat hb2 hb16 tc.symmetric mn mx S
    rw [hzs] at hz
    cases hz
  | quantize tc d mn mx qdim qp e hgn htc hd hs hq hp hgran hu =>
    obtain ⟨hb2, hb16⟩ := tc_bits env oi t tc hmode htc
    obtain ⟨S, _, hsh⟩ := statsOf_fin env qs oi t mn mx hs hrun hconst
    obtain ⟨G, hshape, _⟩ := refParams_good _ hb2 hb16 _ qdim mn mx S qp hp
    have hc : Compat qp.scale.arr.shape d.shape := by
      rw [hshape, (hsh d hd).1]
      exact keepShape_compat _ _
    obtain ⟨q, hq'⟩ := uniformQuantize_total ⟨d, .f32⟩ qp (.inl rfl) (hconst d hd) (G.mono sLo_ge60) hc
    rw [hq'] at hu
    cases hu
  | givenQuantize qp d e hgn hd hu =>
    obtain ⟨G, hc⟩ := hg qp hgn d hd
    obtain ⟨q, hq'⟩ := uniformQuantize_total ⟨d, .f32⟩ qp (.inl rfl) (hconst d hd) G hc
    rw [hq'] at hu
    cases hu

/-! ## `standardOp` -/

/-- the numeric facts about one (pseudo-)operator -/
structure NumStd (env : Env) (sg : Subgraph) (qs : Qsvs) (oi : OpInfo) (con : Constraint) (gi go : List Nat) : Prop where
  mode : C13.modeOK oi.opName oi.cfg = true
  /-- the statistics entries of the runtime float tensors of the operator are good -/
  run : ∀ b t, SlotTensor sg oi.op b (if b then gi else go) t → constData env t = none →
    ∀ mn mx, Py.dictGet? qs t.name = some (some (mn, mx)) → StatGood mn mx
  /-- the constants are bounded -/
  const : ∀ t ∈ sg.tensors, ∀ d, constData env t = some d → ∀ x ∈ d.data, |x| ≤ B
  /-- the results of a same-as-input operator are runtime tensors -/
  outRun : con = .sameAsInput → ∀ t, SlotTensor sg oi.op false go t → constData env t = none
  /-- the results of a same-as-output operator are runtime tensors, and the statistics entry of the result has the rank of
      every constant float operand (which is quantized with the parameters of the result) -/
  inRank : con = .sameAsOutput → ∀ t', SlotTensor sg oi.op false go t' → constData env t' = none ∧
    ∀ mn mx, Py.dictGet? qs t'.name = some (some (mn, mx)) → ∀ t, SlotTensor sg oi.op true gi t →
      ∀ d, constData env t = some d → mn.arr.shape.length = d.shape.length

theorem stdSite_num_absurd (env : Env) (sg : Subgraph) (qs : Qsvs) (oi : OpInfo) (con : Constraint) (gi go : List Nat)
    (e : PyErr) (N : NumStd env sg qs oi con gi go) : ¬ StdSite env sg qs oi con gi go true e := by
  intro hsite
  generalize hnum : true = num at hsite
  cases hsite with
  | slot => cases hnum
  | arityIn => cases hnum
  | arityOut => cases hnum
  | copyStats => cases hnum
  | tensor num t inbound g e ts hst _ _ hgiven hts =>
    subst hnum
    have htm : t ∈ sg.tensors := by
      obtain ⟨_, a, _, _, hat, _, _⟩ := hst
      exact Locality.tensorAt_mem sg a t hat
    refine tensorSite_num_absurd env qs oi t inbound g e N.mode (N.run inbound t hst) (N.const t htm) ?_ hts
    intro qp hgq d hd
    cases hgiven with
    | none => cases hgq
    | fromInput t' ir p0 hc _ _ _ =>
      rw [N.outRun hc t hst] at hd
      cases hd
    | fromOutput t' orq hc hFO horq =>
      have hst' : SlotTensor sg oi.op false go t' := floatSlots_mem sg oi.op false go [t'] hFO t' List.mem_cons_self
      have htm' : t' ∈ sg.tensors := by
        obtain ⟨_, a, _, _, hat, _, _⟩ := hst'
        exact Locality.tensorAt_mem sg a t' hat
      obtain ⟨hrun', hrank⟩ := N.inRank hc t' hst'
      rcases (wrapper_none_ok_iff env qs oi t' false orq).1 horq with ⟨_, hmk⟩ | ⟨tc, mn, mx, qdim, qp', dat', htc, hs, _, hrp, _, hmk⟩
      · obtain ⟨xfs, _, hr⟩ := mkReq_spec _ _ _ _ _ _ hmk
        simp only [Bool.false_eq_true, if_false] at hr
        subst hr
        cases hgq
      · obtain ⟨xfs, _, hr⟩ := mkReq_spec _ _ _ _ _ _ hmk
        simp only [Bool.false_eq_true, if_false] at hr
        subst hr
        simp only [Option.some.injEq, Param.uniform.injEq] at hgq
        obtain ⟨rfl, _⟩ := hgq
        obtain ⟨hb2, hb16⟩ := tc_bits env oi t' tc N.mode htc
        obtain ⟨S, h1, _⟩ := statsOf_fin env qs oi t' mn mx hs (N.run false t' hst') (N.const t' htm')
        obtain ⟨G, hshape, _⟩ := refParams_good _ hb2 hb16 _ qdim mn mx S qp' hrp
        have hent := statsOf_runtime env qs oi t' mn mx hrun' hs
        have hlen := hrank mn mx hent t hst d hd
        refine ⟨G.mono sLo_ge60, ?_⟩
        rw [hshape]
        exact compat_ones _ _ (h1 hrun') hlen

/-! ## the bias -/

/-- the numeric facts about the bias of a convolution-like operator under static-range quantization -/
structure NumBias (env : Env) (sg : Subgraph) (oi : OpInfo) (iIn iW iB : Nat) : Prop where
  notBMM : oi.opName ≠ "BATCH_MATMUL"
  /-- the bias is a vector with one element per output channel of the weight -/
  shape : isSRQ oi.cfg = true → ∀ a bt, oi.op.inputs[iB]? = some a → a ≠ -1 → tensorAt sg a = .ok bt →
    ∃ n, shapeNat bt = [n] ∧ ∀ aw tW, oi.op.inputs[iW]? = some aw → tensorAt sg aw = .ok tW →
      ∀ q, Py.dictGet? Tables.weightQDim oi.opName = some q → (shapeNat tW).getD q 1 = n
  /-- the data operand is a runtime tensor -/
  dataRun : isSRQ oi.cfg = true → ∀ a, oi.op.inputs[iB]? = some a → a ≠ -1 →
    ∀ ai tI, oi.op.inputs[iIn]? = some ai → tensorAt sg ai = .ok tI → constData env tI = none

/-- the parameters a successful `wrapper … none` puts into its request -/
theorem wrapper_param_good (env : Env) (qs : Qsvs) (oi : OpInfo) (t : Tensor) (r : CReq) (qp : QParams) (dat : Option IArr)
    (hmode : C13.modeOK oi.opName oi.cfg = true)
    (hrun : constData env t = none → ∀ mn mx, Py.dictGet? qs t.name = some (some (mn, mx)) → StatGood mn mx)
    (hconst : ∀ d, constData env t = some d → ∀ x ∈ d.data, |x| ≤ B)
    (hw : wrapper env qs oi t true none = .ok r) (hp : reqParam0 r = .ok (some (.uniform qp dat))) :
    QPGood sLo qp ∧ (∀ s ∈ qp.scale.arr.data, s ≤ B) ∧
    (constData env t = none → ∀ d ∈ qp.scale.arr.shape, d = 1) ∧
    (∀ d, constData env t = some d →
      qp.scale.arr.shape = keepShape d.shape (reduceDims (statQDim env oi d.shape.length) d.shape.length) ∧
      numel qp.scale.arr.shape = (match statQDim env oi d.shape.length with | none => 1 | some q => d.shape.getD q 1)) := by
  rcases (wrapper_none_ok_iff env qs oi t true r).1 hw with ⟨_, hmk⟩ | ⟨tc, mn, mx, qdim, qp', dat', htc, hs, _, hrp, _, hmk⟩
  · obtain ⟨xfs, _, hr⟩ := mkReq_spec _ _ _ _ _ _ hmk
    simp only [if_true] at hr
    subst hr
    cases hp
  · obtain ⟨xfs, _, hr⟩ := mkReq_spec _ _ _ _ _ _ hmk
    simp only [if_true] at hr
    subst hr
    simp only [reqParam0, Except.ok.injEq, Option.some.injEq, Param.uniform.injEq] at hp
    obtain ⟨rfl, _⟩ := hp
    obtain ⟨hb2, hb16⟩ := tc_bits env oi t tc hmode htc
    obtain ⟨S, h1, h2⟩ := statsOf_fin env qs oi t mn mx hs hrun hconst
    obtain ⟨G, hshape, hB⟩ := refParams_good _ hb2 hb16 _ qdim mn mx S qp' hrp
    refine ⟨G, hB, fun hc => by rw [hshape]; exact h1 hc, fun d hd => ?_⟩
    rw [hshape]
    exact h2 d hd

theorem statQDim_table (env : Env) (oi : OpInfo) (rank q : Nat) (hn : oi.opName ≠ "BATCH_MATMUL")
    (h : statQDim env oi rank = some q) : Py.dictGet? Tables.weightQDim oi.opName = some q := by
  unfold statQDim at h
  cases hw : oi.cfg.weight with
  | none => rw [hw] at h; cases h
  | some w =>
    rw [hw] at h
    simp only [] at h
    split at h
    · rw [if_neg (by simpa using hn)] at h
      exact h
    · cases h

theorem biasSite_num_absurd (env : Env) (sg : Subgraph) (qs : Qsvs) (oi : OpInfo) (gi : List Nat) (iIn iW iB : Nat)
    (r : List CReq) (q : Qsvs) (e : PyErr) (C : ConvCtx env sg oi gi iIn iW iB) (N : NumStd env sg qs oi .none gi [])
    (NB : NumBias env sg oi iIn iW iB)
    (hstd : standardOp env sg qs oi .none gi [] = .ok (r, q)) : ¬ BiasSite env sg oi r iIn iW iB true e := by
  obtain ⟨aIn, haIn, hneIn⟩ := C.mandatory iIn C.lt.1
  obtain ⟨aW, haW, hneW⟩ := C.mandatory iW C.lt.2
  obtain ⟨tIn, rIn, hatIn, hrIn, _, hwIn⟩ := std_none_in_req env sg qs oi gi r q hstd iIn aIn (C.pre iIn (by have := C.lt.1; omega)) haIn hneIn
  obtain ⟨tW, rW, hatW, hrW, _, hwW⟩ := std_none_in_req env sg qs oi gi r q hstd iW aW (C.pre iW (by have := C.lt.2; omega)) haW hneW
  have hfIn : ¬ (tIn.dtype ≠ Tables.ttFloat32 ∨ iIn ∈ gi) := by
    rintro (h | h)
    · exact h (C.float iIn aIn tIn (.inl rfl) haIn hatIn)
    · exact C.notGiven.1 h
  have hfW : ¬ (tW.dtype ≠ Tables.ttFloat32 ∨ iW ∈ gi) := by
    rintro (h | h)
    · exact h (C.float iW aW tW (.inr rfl) haW hatW)
    · exact C.notGiven.2 h
  have hwIn' := hwIn hfIn
  have hwW' := hwW hfW
  have hmIn : tIn ∈ sg.tensors := Locality.tensorAt_mem sg aIn tIn hatIn
  have hmW : tW ∈ sg.tensors := Locality.tensorAt_mem sg aW tW hatW
  have hsIn : SlotTensor sg oi.op true (if true then gi else []) tIn :=
    ⟨iIn, aIn, haIn, hneIn, hatIn, C.float iIn aIn tIn (.inl rfl) haIn hatIn, C.notGiven.1⟩
  have hsW : SlotTensor sg oi.op true (if true then gi else []) tW :=
    ⟨iW, aW, haW, hneW, hatW, C.float iW aW tW (.inr rfl) haW hatW, C.notGiven.2⟩
  intro hsite
  generalize hnum : true = num at hsite
  cases hsite with
  | slot => cases hnum
  | notConst => cases hnum
  | reqIndex => cases hnum
  | reqShape => cases hnum
  | params => cases hnum
  | xfs => cases hnum
  | position => cases hnum
  | quantize a bt bd rin rw qi qw di dw e hb hne hat hsrq hc h1 h2 h3 h4 hq =>
    rw [hrIn] at h1; cases h1
    rw [hrW] at h2; cases h2
    obtain ⟨Gi, hiB, hiOnes, _⟩ := wrapper_param_good env qs oi tIn _ qi di N.mode (N.run true tIn hsIn) (N.const tIn hmIn) hwIn' h3
    obtain ⟨Gw, hwB, hwOnes, hwK⟩ := wrapper_param_good env qs oi tW _ qw dw N.mode (N.run true tW hsW) (N.const tW hmW) hwW' h4
    have hInRun := NB.dataRun hsrq a hb hne aIn tIn haIn hatIn
    obtain ⟨n, hbn, hch⟩ := NB.shape hsrq a bt hb hne hat
    have hbs : bd.shape = [n] := by rw [(constData_shape env bt bd hc).1]; exact hbn
    have hbb : ∀ v ∈ bd.data, |v| ≤ B := N.const bt (Locality.tensorAt_mem sg a bt hat) bd hc
    have hw2 : OneDim qw.scale.arr.shape ∧ (numel qw.scale.arr.shape = 1 ∨ numel qw.scale.arr.shape = n) := by
      cases hcw : constData env tW with
      | none => exact ⟨oneDim_ones _ (hwOnes hcw), .inl (numel_ones' _ (hwOnes hcw))⟩
      | some d =>
        obtain ⟨hsh, hnum'⟩ := hwK d hcw
        refine ⟨by rw [hsh]; exact oneDim_keepShape _ _, ?_⟩
        cases hsq : statQDim env oi d.shape.length with
        | none => rw [hsq] at hnum'; exact .inl hnum'
        | some qd =>
          rw [hsq] at hnum'
          right
          rw [hnum', (constData_shape env tW d hcw).1]
          exact hch aW tW haW hatW qd (statQDim_table env oi _ qd NB.notBMM hsq)
    obtain ⟨res, hres⟩ := quantizeBias_total bd n qi qw hbs hbb Gi Gw hiB hwB (hiOnes hInRun) hw2.1 hw2.2
    rw [hres] at hq
    cases hq

/-! ## fixed ranges, float casting, the dispatch -/

theorem fixedSite_num_absurd (env : Env) (sg : Subgraph) (qs : Qsvs) (oi : OpInfo) (sl : Bool) (e : PyErr)
    (N : NumStd env sg qs oi .none [] []) : ¬ FixedSite env sg qs oi sl true e := by
  intro hsite
  generalize hnum : true = num at hsite
  cases hsite with
  | outputs => cases hnum
  | bits => cases hnum
  | minMax => cases hnum
  | stats => cases hnum
  | std num e h => subst hnum; exact stdSite_num_absurd env sg qs oi .none [] [] e N h

/-- the weights of a float-cast operator are within the float16 range -/
def NumCast (env : Env) (sg : Subgraph) (oi : OpInfo) (iW : Nat) : Prop :=
  ∀ a tw d, oi.op.inputs[iW]? = some a → tensorAt sg a = .ok tw → constData env tw = some d → ∀ x ∈ d.data, |x| ≤ 65504

theorem castSite_num_absurd (env : Env) (sg : Subgraph) (oi : OpInfo) (iIn iW iB : Nat) (e : PyErr)
    (N : NumCast env sg oi iW) : ¬ CastSite env sg oi iIn iW iB true e := by
  intro hsite
  generalize hnum : true = num at hsite
  cases hsite with
  | noSlot => cases hnum
  | slot => cases hnum
  | weightNotConst => cases hnum
  | f16 a tw wd x e ha hat hc hx he =>
    obtain ⟨y, hy⟩ := f16_total x (N a tw wd ha hat hc x hx)
    rw [hy] at he
    cases he

/-- the numeric facts needed for an operator of kind `k` -/
def NumKind (env : Env) (sg : Subgraph) (qs : Qsvs) (oi : OpInfo) : Kind → Prop
  | .std con gi => NumStd env sg qs oi con gi []
  | .conv => NumStd env sg qs oi .none [2] [] ∧ NumBias env sg oi 0 1 2
  | .convT => NumStd env sg qs oi .none [0, 3] [] ∧ NumBias env sg oi 2 1 3
  | .fixed _ => NumStd env sg qs oi .none [] []
  | .cast _ b _ => NumCast env sg oi b
  | .unknown => True

/-- **no numeric site of one operator's materialisation** -/
theorem opSite_num_absurd (env : Env) (sg : Subgraph) (qs : Qsvs) (oi : OpInfo) (k : Kind) (e : PyErr)
    (C : KindCtx env sg qs oi k) (N : NumKind env sg qs oi k) : ¬ OpSite env sg qs oi k true e := by
  intro hsite
  generalize hnum : true = num at hsite
  cases hsite with
  | unknown => cases hnum
  | convTArity => cases hnum
  | std num con gi e h => subst hnum; exact stdSite_num_absurd env sg qs oi con gi [] e N h
  | convStd num e h => subst hnum; exact stdSite_num_absurd env sg qs oi .none [2] [] e N.1 h
  | convBias num r q e hstd h => subst hnum; exact biasSite_num_absurd env sg qs oi [2] 0 1 2 r q e C.2 N.1 N.2 hstd h
  | convTStd num e h => subst hnum; exact stdSite_num_absurd env sg qs oi .none [0, 3] [] e N.1 h
  | convTBias num r q e hstd h => subst hnum; exact biasSite_num_absurd env sg qs oi [0, 3] 2 1 3 r q e C.2 N.1 N.2 hstd h
  | fixed num sl e h => subst hnum; exact fixedSite_num_absurd env sg qs oi sl e N h
  | cast num a b c e h => subst hnum; exact castSite_num_absurd env sg oi a b c e N h

end MatTotal
