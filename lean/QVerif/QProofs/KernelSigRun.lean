import QProofs.KernelSig
import QProofs.TypingE2E
import QProofs.MatTotalPolicy
/-!
# Kernel signatures (C01b): facts about a successful run used by all cases

* `Run`: what `quantizePure rx env st qsvs = .ok (m', tbl)` gives besides the typing theorems of C03d: the
  skeleton invariant of every subgraph, well-formedness of `m'`, the opcode table of the input is a prefix of
  the output's;
* `orig_source`: an operator of the output tagged `k` comes from operator `k` of the input;
* `root_neg1`: only the absent operand `-1` is mapped to `-1` by `Skeleton.root`;
* `sig_iff`: a row of the table, slot by slot;
* `slot_table`: the operand kinds of the table agree with the slot roles of the materialisation
  (`PipeNF.slotRole`, `biasSlot`, `dataSlot`, `Tables.woOps`);
* `policy_sig`, `resolved_mode`: what recipe resolution can select under a recipe without `skip_checks`.
-/
open Graph Mat Cfg Pipeline Perform GraphStep GraphInv Skeleton SkeletonProof Wiring

set_option autoImplicit false

namespace KernelSig

/-! ## rows, slot by slot -/

theorem sig_iff (row : Kind → DT → Bool) (res : Nat) (nm : String) (ins outs : List DT) :
    sig row res nm ins outs = true ↔
      arityOK nm ins.length outs.length = true ∧ (∀ j d, ins[j]? = some d → row (kind nm j) d = true) ∧
        ∀ d ∈ outs, d = some res := by
  unfold sig
  simp only [Bool.and_eq_true, List.all_eq_true, beq_iff_eq]
  constructor
  · rintro ⟨⟨h1, h2⟩, h3⟩
    exact ⟨h1, fun j d hj => h2 (d, j) (List.mem_zipIdx_iff_getElem?.2 hj), h3⟩
  · rintro ⟨h1, h2, h3⟩
    exact ⟨⟨h1, fun p hp => h2 p.2 p.1 (List.mem_zipIdx_iff_getElem?.1 hp)⟩, h3⟩

theorem map_get {α β} (f : α → β) (l : List α) (j : Nat) (d : β) (h : (l.map f)[j]? = some d) :
    ∃ t, l[j]? = some t ∧ d = f t := by
  rw [List.getElem?_map] at h
  cases ht : l[j]? with
  | none => rw [ht] at h; cases h
  | some t => rw [ht] at h; exact ⟨t, rfl, (Option.some.inj h).symm⟩

/-! ## the names -/

def names : List String := Tables.opCodeOfName.map (·.1)

theorem name_mem (code : Nat) (nm : String) (h : opNameOfCode code = some nm) : nm ∈ names := by
  unfold opNameOfCode at h
  cases hf : Tables.opCodeOfName.find? (·.2 == code) with
  | none => rw [hf] at h; cases h
  | some e =>
    rw [hf] at h
    simp only [Option.map_some, Option.some.injEq] at h
    subst h
    exact List.mem_map.2 ⟨e, List.mem_of_find?_eq_some hf, rfl⟩

/-- the quantizer's names are not QUANTIZE / DEQUANTIZE, and their codes are not 114 / 6 -/
theorem nameOfCode_named (code : Nat) (nm : String) (h : opNameOfCode code = some nm) :
    nameOfCode code = some nm ∧ nm ≠ "QUANTIZE" ∧ nm ≠ "DEQUANTIZE" := by
  have hall : Tables.opCodeOfName.all (fun e => e.2 != Tables.opQuantize && e.2 != Tables.opDequantize &&
      e.1 != "QUANTIZE" && e.1 != "DEQUANTIZE") = true := by decide
  unfold opNameOfCode at h
  cases hf : Tables.opCodeOfName.find? (·.2 == code) with
  | none => rw [hf] at h; cases h
  | some e =>
    rw [hf] at h
    simp only [Option.map_some, Option.some.injEq] at h
    have hm := List.mem_of_find?_eq_some hf
    have hc := List.find?_some hf
    simp only [beq_iff_eq] at hc
    rw [List.all_eq_true] at hall
    have := hall e hm
    simp only [Bool.and_eq_true, bne_iff_ne, ne_eq] at this
    obtain ⟨⟨⟨a, b⟩, c⟩, d⟩ := this
    rw [hc] at a b
    rw [h] at c d
    refine ⟨?_, c, d⟩
    unfold nameOfCode
    rw [if_neg a, if_neg b]
    unfold opNameOfCode
    rw [hf, ← h]
    rfl

theorem nameOfCode_none (code : Nat) (h : opNameOfCode code = none) (h1 : code ≠ Tables.opQuantize)
    (h2 : code ≠ Tables.opDequantize) : nameOfCode code = none := by
  unfold nameOfCode
  rw [if_neg h1, if_neg h2, h]

/-! ## the operand kinds of the table and the slot roles of the materialisation -/

def roleOf : Kind → Nat
  | .index => 1
  | .bias => 2
  | _ => 0

/-- the operators with a weight config (`Tables.woOps` = `Tables.drqOps`) -/
def weightOp (nm : String) : Bool := Tables.woOps.contains nm

/-- what is checked for operand position `j` of operator `nm` -/
def checkSlot (nm : String) (j : Nat) : Bool :=
  decide (roleOf (kind nm j) = PipeNF.slotRole nm j) &&
  (kind nm j != .bias || (decide (PipeNF.biasSlot nm = some j) && nm != "EMBEDDING_LOOKUP")) &&
  (kind nm j != .weight || (weightOp nm && j == 1)) &&
  (kind nm j != .data || !weightOp nm || (j == PipeNF.dataSlot nm && nm != "EMBEDDING_LOOKUP")) &&
  (kind nm j != .index || !weightOp nm || j == 0) &&
  (kind nm j != .bias || weightOp nm) &&
  (kind nm j == .bias || decide (PipeNF.biasSlot nm ≠ some j))

theorem slot_check : names.all (fun nm =>
    match layout nm with
    | some L => (List.range L.fixed.length).all (checkSlot nm)
    | none => false) = true := by decide

theorem layout_check : names.all (fun nm =>
    match layout nm with
    | some L => (L.variadic == (nm == "CONCATENATION")) && decide (L.fixed.length ≤ 4) &&
        (weightOp nm == Tables.drqOps.contains nm)
    | none => false) = true := by decide

theorem concat_kind (j : Nat) : kind "CONCATENATION" j = .data := by
  have : layout "CONCATENATION" = some { fixed := [], minIn := 1, variadic := true } := by decide
  unfold kind
  rw [this]
  rfl

theorem concat_role (j : Nat) : PipeNF.slotRole "CONCATENATION" j = 0 := by
  have h1 : PipeNF.indexSlots "CONCATENATION" = [] := by decide
  have h2 : PipeNF.biasSlot "CONCATENATION" = none := by decide
  unfold PipeNF.slotRole
  rw [h1, h2]
  simp

/-- **the table's operand kinds agree with the materialisation's slot roles**, for every operand position
    of an operator whose arity the table accepts -/
theorem slot_table (nm : String) (hnm : nm ∈ names) (nIn nOut : Nat) (har : arityOK nm nIn nOut = true)
    (j : Nat) (hj : j < nIn) :
    roleOf (kind nm j) = PipeNF.slotRole nm j ∧
    (kind nm j = .bias → PipeNF.biasSlot nm = some j ∧ nm ≠ "EMBEDDING_LOOKUP") ∧
    (kind nm j = .weight → weightOp nm = true ∧ j = 1) ∧
    (kind nm j = .data → weightOp nm = true → j = PipeNF.dataSlot nm ∧ nm ≠ "EMBEDDING_LOOKUP") ∧
    (kind nm j = .index → weightOp nm = true → j = 0) ∧
    (kind nm j = .bias → weightOp nm = true) ∧
    (kind nm j ≠ .bias → PipeNF.biasSlot nm ≠ some j) := by
  have hL := layout_check
  rw [List.all_eq_true] at hL
  have hL1 := hL nm hnm
  cases hlay : layout nm with
  | none => rw [hlay] at hL1; cases hL1
  | some L =>
    rw [hlay] at hL1
    simp only [Bool.and_eq_true, beq_iff_eq, decide_eq_true_eq] at hL1
    obtain ⟨⟨hv, hlen⟩, -⟩ := hL1
    unfold arityOK at har
    rw [hlay] at har
    simp only [Bool.and_eq_true, Bool.or_eq_true, decide_eq_true_eq] at har
    by_cases hc : nm = "CONCATENATION"
    · subst hc
      rw [concat_kind, concat_role]
      refine ⟨rfl, ?_, ?_, ?_, ?_, ?_, ?_⟩
      · intro h; cases h
      · intro h; cases h
      · intro _ h; exact absurd h (by decide)
      · intro h; cases h
      · intro h; cases h
      · intro _; have : PipeNF.biasSlot "CONCATENATION" = none := by decide
        rw [this]; simp
    · have hvf : L.variadic = false := by
        rw [hv]
        simpa using hc
      have hj4 : j < L.fixed.length := by
        rcases har.1.1.2 with h | h
        · rw [hvf] at h; cases h
        · omega
      have hS := slot_check
      rw [List.all_eq_true] at hS
      have hS1 := hS nm hnm
      rw [hlay, List.all_eq_true] at hS1
      have := hS1 j (List.mem_range.2 hj4)
      unfold checkSlot at this
      simp only [Bool.and_eq_true, Bool.or_eq_true, bne_iff_ne, ne_eq, beq_iff_eq, decide_eq_true_eq,
        Bool.not_eq_true'] at this
      obtain ⟨⟨⟨⟨⟨⟨a, b⟩, c⟩, d⟩, e⟩, f⟩, g⟩ := this
      refine ⟨a, ?_, ?_, ?_, ?_, ?_, ?_⟩
      · intro hk
        rcases b with b | b
        · exact absurd hk b
        · exact b
      · intro hk
        rcases c with c | c
        · exact absurd hk c
        · exact c
      · intro hk hw
        rcases d with (d | d) | d
        · exact absurd hk d
        · rw [hw] at d; cases d
        · exact d
      · intro hk hw
        rcases e with (e | e) | e
        · exact absurd hk e
        · rw [hw] at e; cases e
        · exact e
      · intro hk
        rcases f with f | f
        · exact absurd hk f
        · exact f
      · intro hk
        rcases g with g | g
        · exact absurd g hk
        · exact g

/-! ## a successful run -/

/-- facts about a successful run that the typing theorems of C03d do not state -/
structure Run (env : Env) (m' : Model) : Prop where
  nsg : m'.subgraphs.length = env.model.subgraphs.length
  sk : ∀ (s : Nat) (sg sg' : Subgraph), env.model.subgraphs[s]? = some sg → m'.subgraphs[s]? = some sg' →
    SkInv sg sg'
  wf : WF.modelOK m' = true
  codes : ∀ (i c : Nat), env.model.opcodes[i]? = some c → m'.opcodes[i]? = some c
  insNonneg : ∀ (s : Nat) (sg' : Subgraph), m'.subgraphs[s]? = some sg' → ∀ o ∈ sg'.ops, o.orig = none →
    ∀ t ∈ o.inputs, (0 : Int) ≤ t

theorem run_codes (pt : PTable) (m m' : Model) (tis : List TInsts)
    (hwf : WF.modelOK m = true) (htag : origTagged m = true)
    (hok : ∀ ti ∈ tis, TInstsOK pt m ti) (h : transformGraph pt m tis = .ok m') :
    ∀ (i c : Nat), m.opcodes[i]? = some c → m'.opcodes[i]? = some c := by
  unfold transformGraph at h
  simp only at h
  obtain ⟨st, hfold, h⟩ := bind_ok _ _ _ h
  cases h
  obtain ⟨-, J, -⟩ := TypingGraph.run_ruleI pt m tis
    (fun s => ∀ (i c : Nat), m.opcodes[i]? = some c → s.model.opcodes[i]? = some c)
    (fun _ _ _ => True) hwf hok
    (fun ti _ ins _ s s' S j i c hic => S.codes i c (j i c hic))
    (fun _ _ _ _ _ _ _ _ => trivial)
    (fun _ _ _ _ _ _ _ _ _ _ _ => trivial)
    (st0 m) st (base_init m hwf htag) (fun _ _ h => h) hfold
  exact J

theorem run_of (rx : String → String → Bool) (env : Env) (st : Recipe.State) (qsvs : Option Qsvs)
    (m' : Model) (tbl : List Param) (hnf : PipelineWF.NF env st)
    (h : quantizePure rx env st qsvs = .ok (m', tbl)) : Run env m' := by
  obtain ⟨res, tis, S⟩ := TypingE2E.stages rx env st qsvs m' tbl hnf h
  obtain ⟨stF, hm, F⟩ := TypingGraph.run_fin _ env.model m' tis hnf.wf hnf.tagged S.ok S.cd S.run
  subst hm
  refine ⟨F.base.inv.nsg, F.base.sk.sgs, F.base.inv.wf,
    run_codes _ env.model _ tis hnf.wf hnf.tagged S.ok S.run, ?_⟩
  intro s sg' hsg' o ho hn t ht
  obtain ⟨sg, ci, t0, n, tin, tout, -, ho', -⟩ :=
    TypingE2E.inserted_ops_typed rx env st qsvs _ tbl hnf h s sg' hsg' o ho hn
  rw [ho'] at ht
  simp only [List.mem_singleton] at ht
  subst ht
  exact Int.natCast_nonneg t0

/-- the subgraph of the input that a subgraph of the output comes from -/
theorem Run.source {env : Env} {m' : Model} (R : Run env m') (s : Nat) (sg' : Subgraph)
    (hsg' : m'.subgraphs[s]? = some sg') : ∃ sg, env.model.subgraphs[s]? = some sg := by
  have : s < env.model.subgraphs.length := by
    rw [← R.nsg]; exact (List.getElem?_eq_some_iff.1 hsg').1
  exact ⟨_, List.getElem?_eq_getElem this⟩

/-- **an operator of the output tagged `k` comes from operator `k` of the input** -/
theorem orig_source {env : Env} {m' : Model} (R : Run env m') (htag : origTagged env.model = true)
    (s : Nat) (sg sg' : Subgraph) (hsg : env.model.subgraphs[s]? = some sg)
    (hsg' : m'.subgraphs[s]? = some sg') (o : Op) (ho : o ∈ sg'.ops) (k : Nat) (hk : o.orig = some k) :
    ∃ op, sg.ops[k]? = some op := by
  have K := R.sk s sg sg' hsg hsg'
  have hmem : ({ o with inputs := o.inputs.map (root sg'), outputs := o.outputs.map (root sg') } : Op) ∈ sg.ops := by
    rw [← K.ops]
    unfold eraseOps
    exact List.mem_map.2 ⟨o, List.mem_filter.2 ⟨ho, by rw [hk]; rfl⟩, rfl⟩
  obtain ⟨i, hi⟩ := List.mem_iff_getElem?.1 hmem
  have := Wiring.origTagged_get env.model htag s sg hsg i _ hi
  simp only [hk, Option.some.injEq] at this
  subst this
  exact ⟨_, hi⟩

/-- only the absent operand is mapped to a negative index -/
theorem root_neg {sg sg' : Subgraph} (K : SkInv sg sg')
    (hins : ∀ o ∈ sg'.ops, o.orig = none → ∀ t ∈ o.inputs, (0 : Int) ≤ t)
    (z : Int) (h : root sg' z < 0) : root sg' z = z := by
  by_cases hex : ∃ o ∈ sg'.ops, o.orig = none ∧ o.outputs = [z]
  · obtain ⟨o, ho, hn, hz⟩ := hex
    obtain ⟨t, n, e1, e2, -, e4, -⟩ := K.ins.shape o ho hn
    have hr := root_derived _ sg' K.ins o t z ho hn e1 hz
    have := hins o ho hn t (by rw [e1]; exact List.mem_singleton.2 rfl)
    rw [hr] at h
    omega
  · exact root_fix sg' z (fun o ho hn he => hex ⟨o, ho, hn, he⟩)

theorem names_not_io : names.all (fun nm => nm != "INPUT" && nm != "OUTPUT") = true := by decide

/-! ## float models -/

/-- the float signature of one operator of the input (Bool; `decide` evaluates it on closed models) -/
def floatOpB (m : Model) (sg : Subgraph) (op : Op) : Bool :=
  match m.opcodes[op.code]? with
  | none => true
  | some code =>
    match opNameOfCode code with
    | some nm => floatSig nm (op.inputs.map (dtypeAt sg)) (op.outputs.map (dtypeAt sg))
    | none => code != Tables.opQuantize && code != Tables.opDequantize

/-- **the input is a float model** as far as the table is concerned: every operator the quantizer knows has
    the float signature of the table (arity; float32 data, weight, bias; int32 index / shape / axis
    operands; float32 results), and there is no QUANTIZE / DEQUANTIZE operator -/
def FloatModel (m : Model) : Prop :=
  (m.subgraphs.all fun sg => sg.ops.all fun op => floatOpB m sg op) = true

theorem FloatModel.get {m : Model} (h : FloatModel m) :
    ∀ sg ∈ m.subgraphs, ∀ op ∈ sg.ops, ∀ code, m.opcodes[op.code]? = some code →
      (∀ nm, opNameOfCode code = some nm →
        floatSig nm (op.inputs.map (dtypeAt sg)) (op.outputs.map (dtypeAt sg)) = true) ∧
      (opNameOfCode code = none → code ≠ Tables.opQuantize ∧ code ≠ Tables.opDequantize) := by
  intro sg hsg op hop code hcode
  unfold FloatModel at h
  rw [List.all_eq_true] at h
  have h1 := h sg hsg
  rw [List.all_eq_true] at h1
  have h2 := h1 op hop
  unfold floatOpB at h2
  rw [hcode] at h2
  simp only at h2
  constructor
  · intro nm hnm
    rw [hnm] at h2
    exact h2
  · intro hnm
    rw [hnm] at h2
    simpa using h2

instance (m : Model) : Decidable (FloatModel m) := by
  unfold FloatModel
  infer_instance

end KernelSig
