import QProofs.PrecLemmas
/-!
# Lemmas about the scalar cores of `QModel/Arith.lean`
-/
open Num Arith PrecL

namespace ArithL

theorem rn_ge_half (pr : Prec) {x : Rat} (hn : (2:Rat)^pr.emin ≤ x) : x / 2 ≤ pr.rn x := by
  have hx : 0 < x := lt_of_lt_of_le (zpow_pos (by norm_num) _) hn
  have h := rn_relerr pr x (by rwa [abs_of_pos hx])
  rw [abs_of_pos hx] at h
  have hu : (2:Rat)^(-(pr.p:Int)) ≤ 1/2 := by
    have : (2:Rat)^(-(pr.p:Int)) ≤ (2:Rat)^(-1:Int) :=
      zpow_le_zpow_right₀ (by norm_num) (by have := p_pos pr; omega)
    simpa using this
  have h2 := (abs_le.mp h).1
  nlinarith

theorem emin_ge (pr : Prec) : (-1022:Int) ≤ pr.emin := by cases pr <;> simp [Prec.emin]

/-- every format's smallest normal number is at most `2^0`, and for the formats numpy uses
    for scales (`f32`, `f64`, and ideal arithmetic) it is far below `1e-10` -/
theorem small_normal (pr : Prec) (h16 : pr ≠ .f16) : (2:Rat)^pr.emin ≤ 1 / 10000000000 ∨ pr = .exact := by
  cases pr
  · exact absurd rfl h16
  · left
    have : (2:Rat)^(-126:Int) ≤ (2:Rat)^(-40:Int) := zpow_le_zpow_right₀ (by norm_num) (by norm_num)
    have h2 : (2:Rat)^(-40:Int) ≤ 1 / 10000000000 := by norm_num
    simpa [Prec.emin] using le_trans this h2
  · left
    have : (2:Rat)^(-1022:Int) ≤ (2:Rat)^(-40:Int) := zpow_le_zpow_right₀ (by norm_num) (by norm_num)
    have h2 : (2:Rat)^(-40:Int) ≤ 1 / 10000000000 := by norm_num
    simpa [Prec.emin] using le_trans this h2
  · right; rfl

theorem minBound_ge (pr : Prec) (h16 : pr ≠ .f16) : 1 / 40000 ≤ minBound pr := by
  unfold minBound weakScalar
  cases pr
  · exact absurd rfl h16
  · -- f32
    have h64 : (2:Rat)^(Prec.f64.emin) ≤ 1/10000 := by
      have : (2:Rat)^(-1022:Int) ≤ (2:Rat)^(-14:Int) := zpow_le_zpow_right₀ (by norm_num) (by norm_num)
      have h2 : (2:Rat)^(-14:Int) ≤ 1/10000 := by norm_num
      simpa [Prec.emin] using le_trans this h2
    have a := rn_ge_half Prec.f64 h64
    have h32 : (2:Rat)^(Prec.f32.emin) ≤ Prec.f64.rn (1/10000) := by
      have : (2:Rat)^(-126:Int) ≤ (2:Rat)^(-15:Int) := zpow_le_zpow_right₀ (by norm_num) (by norm_num)
      have h2 : (2:Rat)^(-15:Int) ≤ 1/10000/2 := by norm_num
      have := le_trans (le_trans this h2) a
      simpa [Prec.emin] using this
    have b := rn_ge_half Prec.f32 h32
    simp only []
    linarith
  · -- f64
    have h64 : (2:Rat)^(Prec.f64.emin) ≤ 1/10000 := by
      have : (2:Rat)^(-1022:Int) ≤ (2:Rat)^(-14:Int) := zpow_le_zpow_right₀ (by norm_num) (by norm_num)
      have h2 : (2:Rat)^(-14:Int) ≤ 1/10000 := by norm_num
      simpa [Prec.emin] using le_trans this h2
    have a := rn_ge_half Prec.f64 h64
    have h64' : (2:Rat)^(Prec.f64.emin) ≤ Prec.f64.rn (1/10000) := by
      have : (2:Rat)^(-1022:Int) ≤ (2:Rat)^(-15:Int) := zpow_le_zpow_right₀ (by norm_num) (by norm_num)
      have h2 : (2:Rat)^(-15:Int) ≤ 1/10000/2 := by norm_num
      have := le_trans (le_trans this h2) a
      simpa [Prec.emin] using this
    have b := rn_ge_half Prec.f64 h64'
    simp only []
    linarith
  · simp only []; norm_num

theorem maxR_ge_left (a b : Rat) : a ≤ maxR a b := by unfold maxR; split_ifs <;> linarith
theorem maxR_ge_right (a b : Rat) : b ≤ maxR a b := by unfold maxR; split_ifs <;> linarith
theorem minR_le_left (a b : Rat) : minR a b ≤ a := by unfold minR; split_ifs <;> linarith
theorem minR_le_right (a b : Rat) : minR a b ≤ b := by unfold minR; split_ifs <;> linarith
theorem absR_eq (x : Rat) : absR x = |x| := by
  unfold absR; split_ifs with h
  · rw [abs_of_neg h]
  · rw [abs_of_nonneg (not_lt.mp h)]

/-- `qmax bits` as a rational for the supported bit widths -/
theorem qmaxF_eq (bits : Nat) (h : bits ≤ 53) : qmaxF bits = ((2:Rat)^(bits-1) - 1) := by
  unfold qmaxF qmax; rw [if_pos h]; push_cast; ring
theorem qminF_eq (bits : Nat) (h : bits ≤ 53) : qminF bits = -((2:Rat)^(bits-1)) := by
  unfold qminF qmin; rw [if_pos h]; push_cast; ring

theorem pow_bounds (bits : Nat) (h2 : 2 ≤ bits) (h16 : bits ≤ 16) :
    (2:Rat) ≤ (2:Rat)^(bits-1) ∧ (2:Rat)^(bits-1) ≤ 32768 := by
  constructor
  · calc (2:Rat) = (2:Rat)^1 := by norm_num
      _ ≤ (2:Rat)^(bits-1) := pow_le_pow_right₀ (by norm_num) (by omega)
  · calc (2:Rat)^(bits-1) ≤ (2:Rat)^15 := pow_le_pow_right₀ (by norm_num) (by omega)
      _ = 32768 := by norm_num

/-- positivity of `rn (b / d)` when `b ≥ 1/40000` and `1 ≤ d ≤ 65535` -/
theorem rn_div_pos (pr : Prec) (h16 : pr ≠ .f16) {b d : Rat} (hb : 1/40000 ≤ b) (hd1 : 1 ≤ d) (hd2 : d ≤ 65535) :
    0 < pr.rn (b / d) := by
  have hd : 0 < d := by linarith
  have hq : 1/40000/65535 ≤ b / d := by
    rw [div_le_div_iff₀ (by norm_num) hd]
    nlinarith
  rcases small_normal pr h16 with hs | hs
  · apply rn_pos_of_normal
    have : (1:Rat)/10000000000 ≤ 1/40000/65535 := by norm_num
    linarith
  · subst hs; simp only [Prec.rn]
    have : (0:Rat) < 1/40000/65535 := by norm_num
    linarith

end ArithL
