import Mathlib.Tactic.Ring
import Mathlib.Tactic.Linarith
import Mathlib.Tactic.NormNum
import QModel.Materialize
import QModel.Perform
import QProofs.BytesProofs
import QProps.C05
/-!
# The bytes stored for a parameter object, and their decoder (C05, storage half)

`quantize_tensor` writes, for a parameter object `P` with `quantized_data`,

    buffers[tensor.buffer].data = _pack_data(P.num_bits, np.frombuffer(P.quantized_data.tobytes(), uint8))

The graph model keeps this abstract (`.inr p`).  `paramBytes` is that composition on the model's
`Param`: for integer data of dtype width `w` it is `Bytes.storeInts P.bits w data` -- the function the
driver exposes as `"store"`, which the correspondence harness (`harness/fam_arith.py: cmp_store`,
`harness/fam_mat.py: model_param_expect`) compares with `_pack_data(bits, frombuffer(q.tobytes()))` on
the real code, called with `bits = num_bits`, `w = ` dtype width of `quantized_data`, `data = ` its
flat values: the SAME composition.  For float16 data it is the little-endian binary16 patterns
(`Bytes.castF16`, driver op `"f16"`, flattened).  There is no such function in `QModel/**` or in
`Driver.lean` (the driver returns the parameter table, the harness composes), so it is defined here.
-/
open Bytes Num Mat Arith Nd Graph

set_option autoImplicit false

namespace ConstBytes

/-- the two bytes (little endian) of the binary16 pattern of an exactly representable value -/
def f16Bytes (r : Rat) : List Nat := [f16Bits r % 256, f16Bits r / 256]

/-- the bytes `quantize_tensor` writes for parameter object `P` (none when `P` has no data) -/
def paramBytes : Param → Option (List Nat)
  | .uniform qp (some q) => some (storeInts qp.bits q.w q.arr.data)
  | .nonlinear b (some d) =>
    some (if b ≤ 4 then pack4 (d.data.flatMap f16Bytes) else d.data.flatMap f16Bytes)
  | _ => none

/-- the bytes the serializer writes for a buffer whose abstract content is `.inr p` -/
def storedBytes (tbl : List Param) (p : PId) : Option (List Nat) := (tbl[p]?).bind paramBytes

/-! ## the float16 bytes are the driver's `castF16` -/

theorem castF16_eq (x : Rat) :
    castF16 x = match Prec.f16.chk x with | .ok r => .ok (f16Bytes r) | .error e => .error e := by
  unfold castF16 f16Bytes
  cases Prec.f16.chk x <;> rfl

/-- `h` = the float16 values of `d` (`astype(np.float16)`): the stored bytes are the flattened
    results of the driver's `castF16` on the ORIGINAL values -/
theorem mapM_castF16 : ∀ (d h : List Rat), d.mapM Prec.f16.chk = .ok h →
    d.mapM castF16 = .ok (h.map f16Bytes) := by
  intro d
  induction d with
  | nil => intro h hh; cases hh; rfl
  | cons x xs ih =>
    intro h hh
    rw [List.mapM_cons] at hh ⊢
    simp only [bind, Except.bind, pure, Except.pure] at hh ⊢
    rw [castF16_eq]
    cases hx : Prec.f16.chk x with
    | error e => rw [hx] at hh; cases hh
    | ok r =>
      rw [hx] at hh
      simp only [] at hh ⊢
      cases hr : xs.mapM Prec.f16.chk with
      | error e => rw [hr] at hh; cases hh
      | ok rs =>
        rw [hr] at hh
        simp only [Except.ok.injEq] at hh
        subst hh
        rw [ih rs hr]
        rfl

theorem flatMap_eq_flatten_map {α β} (f : α → List β) (l : List α) : l.flatMap f = (l.map f).flatten := by
  induction l with
  | nil => rfl
  | cons a l ih => simp [List.flatMap_cons, ih]

/-! ## decoders (TFLite storage format) -/

/-- bits per element of the tensor types the quantizer produces -/
def dtypeBits (dt : Nat) : Option Nat :=
  if dt = Tables.ttInt4 then some 4 else if dt = Tables.ttInt8 then some 8
  else if dt = Tables.ttInt16 then some 16 else if dt = Tables.ttInt32 then some 32
  else if dt = Tables.ttInt64 then some 64 else if dt = Tables.ttFloat16 then some 16 else none

/-- `⌈n · bits / 8⌉` bytes for `n` elements of tensor type `dt` (two values per byte for INT4) -/
def byteLen (dt n : Nat) : Option Nat := (dtypeBits dt).map fun b => (n * b + 7) / 8

/-- the `n` integer values of a tensor of type `dt` stored in `bs`: INT4 = two per byte, low nibble
    first, sign-extended; INT8/16/32/64 = little-endian two's complement -/
def decodeInts (dt n : Nat) (bs : List Nat) : List Int :=
  if dt = Tables.ttInt4 then unpack4 n bs
  else
    let k := (dtypeBits dt).getD 8 / 8
    (List.range n).map fun i => decodeLE (8 * k) ((bs.drop (i * k)).take k)

/-- the `n` binary16 values stored in `bs` (little endian), by the independent decoder `f16Val` -/
def decodeF16 (n : Nat) (bs : List Nat) : List Rat :=
  (List.range n).map fun i => BytesProofs.f16Val (bs.getD (2 * i) 0 + 256 * bs.getD (2 * i + 1) 0)

/-- **the decoder of a stored constant**: the `n` values of a tensor of type `dt` stored in `bs`,
    integers for the integer types, rationals for FLOAT16 -/
def decodeStored (dt n : Nat) (bs : List Nat) : List Int ⊕ List Rat :=
  if dt = Tables.ttFloat16 then .inr (decodeF16 n bs) else .inl (decodeInts dt n bs)

/-! ## integers -/

theorem wrapInt_range (w : Nat) (hw : 1 ≤ w) (z : Int) :
    -(2:Int)^(w-1) ≤ wrapInt w z ∧ wrapInt w z < (2:Int)^(w-1) := by
  unfold wrapInt
  simp only
  have e : (2:Int)^w = 2 * (2:Int)^(w-1) := by
    obtain ⟨n, rfl⟩ : ∃ n, w = n + 1 := ⟨w - 1, by omega⟩
    simp [Int.pow_succ, Int.mul_comm]
  have hpos : (0:Int) < (2:Int)^(w-1) := Int.pow_pos (by decide)
  have h1 := Int.emod_nonneg (z + (2:Int)^(w-1)) (show (2:Int)^w ≠ 0 by omega)
  have h2 := Int.emod_lt_of_pos (z + (2:Int)^(w-1)) (show (0:Int) < (2:Int)^w by omega)
  omega

theorem storageBits_cases (bits : Nat) :
    (bits ≤ 8 ∧ storageBits bits = 8) ∨ (8 < bits ∧ bits ≤ 16 ∧ storageBits bits = 16) ∨
    (16 < bits ∧ bits ≤ 32 ∧ storageBits bits = 32) ∨ (32 < bits ∧ storageBits bits = 64) := by
  unfold storageBits
  split_ifs <;> omega

/-- tensor type of a uniform parameter with `bits` logical bits (`quant_params_to_tflite_type`)
    together with the dtype width of its quantized data (`assign_quantized_type`) -/
theorem dtypeOf_uniform (bits : Nat) (d : Bool) (dt : Nat) (h : Perform.dtypeOf ⟨true, bits, d⟩ = .ok dt) :
    (bits ≤ 4 ∧ dt = Tables.ttInt4 ∧ storageBits bits = 8) ∨
    (4 < bits ∧ bits ≤ 8 ∧ dt = Tables.ttInt8 ∧ storageBits bits = 8) ∨
    (8 < bits ∧ bits ≤ 16 ∧ dt = Tables.ttInt16 ∧ storageBits bits = 16) ∨
    (16 < bits ∧ bits ≤ 32 ∧ dt = Tables.ttInt32 ∧ storageBits bits = 32) ∨
    (32 < bits ∧ bits ≤ 64 ∧ dt = Tables.ttInt64 ∧ storageBits bits = 64) := by
  unfold Perform.dtypeOf at h
  simp only [if_true] at h
  unfold storageBits
  split_ifs at h ⊢ <;> (cases h; omega)

/-- **length of the stored integer bytes**: `⌈n·bits/8⌉` for the tensor type of the parameter -/
theorem storeInts_byteLen (bits : Nat) (d : Bool) (dt : Nat) (zs : List Int)
    (h : Perform.dtypeOf ⟨true, bits, d⟩ = .ok dt) :
    byteLen dt zs.length = some (storeInts bits (storageBits bits) zs).length := by
  unfold storeInts byteLen
  rcases dtypeOf_uniform bits d dt h with ⟨h1, rfl, e⟩ | ⟨h1, h2, rfl, e⟩ | ⟨h1, h2, rfl, e⟩ |
    ⟨h1, h2, rfl, e⟩ | ⟨h1, h2, rfl, e⟩
  · rw [if_pos h1, e, C05.pack4_length, BytesProofs.encodeAllLE_length]
    simp only [dtypeBits, Tables.ttInt4, if_true, Option.map_some, Option.some.injEq]
    omega
  · rw [if_neg (by omega), e, BytesProofs.encodeAllLE_length]
    simp [dtypeBits, Tables.ttInt4, Tables.ttInt8]
    omega
  · rw [if_neg (by omega), e, BytesProofs.encodeAllLE_length]
    simp [dtypeBits, Tables.ttInt4, Tables.ttInt8, Tables.ttInt16]
    omega
  · rw [if_neg (by omega), e, BytesProofs.encodeAllLE_length]
    simp [dtypeBits, Tables.ttInt4, Tables.ttInt8, Tables.ttInt16, Tables.ttInt32]
    omega
  · rw [if_neg (by omega), e, BytesProofs.encodeAllLE_length]
    simp [dtypeBits, Tables.ttInt4, Tables.ttInt8, Tables.ttInt16, Tables.ttInt32, Tables.ttInt64]
    omega

/-- **round trip of the stored integer bytes**: decoding per the tensor type gives back the codes,
    provided every code is a value of its storage type (`wrapInt`-reduced), and a 4-bit value when
    the parameter is packed (`bits ≤ 4`) -/
theorem decodeInts_storeInts (bits : Nat) (d : Bool) (dt : Nat) (zs : List Int)
    (h : Perform.dtypeOf ⟨true, bits, d⟩ = .ok dt)
    (hw : ∀ z ∈ zs, -(2:Int)^(storageBits bits - 1) ≤ z ∧ z < (2:Int)^(storageBits bits - 1))
    (h4 : bits ≤ 4 → ∀ z ∈ zs, -8 ≤ z ∧ z < 8) :
    decodeInts dt zs.length (storeInts bits (storageBits bits) zs) = zs := by
  unfold storeInts decodeInts
  have wide : ∀ (k : Nat), 1 ≤ k → storageBits bits = 8 * k →
      (List.range zs.length).map
        (fun i => decodeLE (8 * k) (((encodeAllLE (8 * k) zs).drop (i * k)).take k)) = zs := by
    intro k hk e
    refine BytesProofs.decodeAll_encodeAll k hk zs ?_
    intro z hz
    have := hw z hz
    rw [e] at this
    exact this
  rcases dtypeOf_uniform bits d dt h with ⟨h1, rfl, e⟩ | ⟨h1, h2, rfl, e⟩ | ⟨h1, h2, rfl, e⟩ |
    ⟨h1, h2, rfl, e⟩ | ⟨h1, h2, rfl, e⟩
  · rw [if_pos h1, if_pos rfl, e]
    exact C05.unpack_pack zs (h4 h1)
  · rw [if_neg (show ¬ bits ≤ 4 by omega), if_neg (show ¬ Tables.ttInt8 = Tables.ttInt4 by decide), e]
    exact wide 1 (by omega) e
  · rw [if_neg (show ¬ bits ≤ 4 by omega), if_neg (show ¬ Tables.ttInt16 = Tables.ttInt4 by decide), e]
    exact wide 2 (by omega) e
  · rw [if_neg (show ¬ bits ≤ 4 by omega), if_neg (show ¬ Tables.ttInt32 = Tables.ttInt4 by decide), e]
    exact wide 4 (by omega) e
  · rw [if_neg (show ¬ bits ≤ 4 by omega), if_neg (show ¬ Tables.ttInt64 = Tables.ttInt4 by decide), e]
    exact wide 8 (by omega) e

/-! ## float16 -/

theorem flatMap_f16Bytes_length (h : List Rat) : (h.flatMap f16Bytes).length = 2 * h.length := by
  induction h with
  | nil => rfl
  | cons x xs ih => rw [List.flatMap_cons, List.length_append, ih]; simp [f16Bytes]; omega

theorem flatMap_f16Bytes_get (h : List Rat) (i : Nat) (hi : i < h.length) :
    (h.flatMap f16Bytes).getD (2 * i) 0 = f16Bits h[i] % 256 ∧
    (h.flatMap f16Bytes).getD (2 * i + 1) 0 = f16Bits h[i] / 256 := by
  induction h generalizing i with
  | nil => simp at hi
  | cons x xs ih =>
    rw [List.flatMap_cons]
    cases i with
    | zero => simp [f16Bytes]
    | succ j =>
      have hj : j < xs.length := by simpa using hi
      obtain ⟨a, b⟩ := ih j hj
      have e1 : 2 * (j + 1) = 2 * j + 2 := by omega
      have e2 : 2 * (j + 1) + 1 = 2 * j + 1 + 2 := by omega
      simp only [f16Bytes, List.getD_eq_getElem?_getD, List.cons_append, List.nil_append, e1,
        List.getElem?_cons_succ, List.getElem_cons_succ] at a b ⊢
      exact ⟨a, b⟩

/-- **round trip of the stored float16 bytes** for values whose bit pattern is below `2^16` and is
    decoded to the value by `f16Val` (every finite binary16 number, see `f16_repr`) -/
theorem decodeF16_bytes (h : List Rat)
    (hv : ∀ x ∈ h, BytesProofs.f16Val (f16Bits x) = x) :
    decodeF16 h.length (h.flatMap f16Bytes) = h := by
  unfold decodeF16
  apply List.ext_getElem
  · simp
  · intro i h1 h2
    simp only [List.getElem_map, List.getElem_range]
    have hi : i < h.length := h2
    obtain ⟨a, b⟩ := flatMap_f16Bytes_get h i hi
    rw [a, b]
    have : f16Bits h[i] % 256 + 256 * (f16Bits h[i] / 256) = f16Bits h[i] := Nat.mod_add_div _ _
    rw [this]
    exact hv _ (List.getElem_mem _)

end ConstBytes
