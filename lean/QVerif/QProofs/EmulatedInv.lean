import QProofs.EmulatedSplice
import QProofs.GraphBasics
/-!
# The invariant of the non-raising tail of `Emulated.apply`

`PlanOK`: what the tail needs to know about the state `plan` returns.
`Inv`: the running state `st` holds the operator list `pre ++ N ++ fc :: post` with `N` a `Chain` ending in
the original result, distinct tensor names, and the buffer indices of the tensors are
`old ++ [B, B+1, B+2, B+3] ++ 0…0`.  `core` establishes it, `biasStep` and `reluStep` preserve it.
-/
open Graph Perform Emulated GraphStep EmuSpec EmuSplice

namespace EmuInv

/-- the operands the inserted operators may read without producing them: real operands of the replaced
    operator, the weight, the four new constants -/
def Avl (fc : Op) (inp : TIn) (n0 : Nat) (t : Int) : Prop :=
  (t ∈ fc.inputs ∧ t ≠ -1) ∨ t = inp.tensor ∨ ∃ i : Nat, i < 4 ∧ t = ((n0 + i : Nat) : Int)

structure PlanOK (pl : Plan) (sg0 : Subgraph) (B : Nat) (pre post : List Op) (fc : Op) (y : Int) : Prop where
  ops : pl.sg.ops = pre ++ fc :: post
  k : pl.k = pre.length
  inputs : pl.sg.inputs = sg0.inputs
  outputs : pl.sg.outputs = sg0.outputs
  tbuf : pl.sg.tensors.map (·.buffer) = sg0.tensors.map (·.buffer) ++ [B, B + 1]
  nodup : (pl.sg.tensors.map (·.name)).Nodup
  blen : pl.bufs.length = B + 2
  scaleId : pl.scaleId = ((sg0.tensors.length : Nat) : Int)
  axesId : pl.axesId = ((sg0.tensors.length + 1 : Nat) : Int)
  outId : pl.io.outId = y
  inId : pl.io.inId ∈ fc.inputs ∧ pl.io.inId ≠ -1
  ciR : pl.ciReshape < pl.codes.length
  ciB : pl.ciBmm < pl.codes.length
  ciM : pl.ciMul < pl.codes.length
  ciS : pl.ciSum < pl.codes.length

theorem PlanOK.tlen {pl : Plan} {sg0 : Subgraph} {B : Nat} {pre post : List Op} {fc : Op} {y : Int}
    (hp : PlanOK pl sg0 B pre post fc y) : pl.sg.tensors.length = sg0.tensors.length + 2 := by
  have := congrArg List.length hp.tbuf
  simpa using this

structure Inv (pl : Plan) (sg0 : Subgraph) (B : Nat) (pre post : List Op) (fc : Op) (inp : TIn) (y : Int)
    (st : St) (N : List Op) : Prop where
  ops : st.sg.ops = pre ++ N ++ fc :: post
  added : st.added = N.length
  inputs : st.sg.inputs = sg0.inputs
  outputs : st.sg.outputs = sg0.outputs
  chain : Chain (Avl fc inp sg0.tensors.length) (sg0.tensors.length + 4) st.sg.tensors.length y N
  codes : ∀ o ∈ N, o.code < st.codes.length
  codesExt : ∃ ext, st.codes = pl.codes ++ ext
  nodup : (st.sg.tensors.map (·.name)).Nodup
  tbuf : ∃ j, 4 ≤ j ∧ st.sg.tensors.map (·.buffer) =
    sg0.tensors.map (·.buffer) ++ [B, B + 1, B + 2, B + 3] ++ List.replicate j 0
  orig : ∀ o ∈ N, o.orig = none

/-! ## `core` -/

/-- the five operators inserted by `core` -/
def N0 (inp : TIn) (pl : Plan) : List Op :=
  [ { code := pl.ciReshape, inputs := [pl.io.inId, ((pl.sg.tensors.length : Nat) : Int)],
      outputs := [((pl.sg.tensors.length + 2 : Nat) : Int)] },
    { code := pl.ciBmm, inputs := [((pl.sg.tensors.length + 2 : Nat) : Int), inp.tensor],
      outputs := [((pl.sg.tensors.length + 3 : Nat) : Int)] },
    { code := pl.ciMul, inputs := [((pl.sg.tensors.length + 3 : Nat) : Int), pl.scaleId],
      outputs := [((pl.sg.tensors.length + 4 : Nat) : Int)] },
    { code := pl.ciSum, inputs := [((pl.sg.tensors.length + 4 : Nat) : Int), pl.axesId],
      outputs := [((pl.sg.tensors.length + 5 : Nat) : Int)] },
    { code := pl.ciReshape, inputs := [((pl.sg.tensors.length + 5 : Nat) : Int), ((pl.sg.tensors.length + 1 : Nat) : Int)],
      outputs := [pl.io.outId] } ]

theorem chain0 (A : Int → Prop) (n : Nat) (y x w s a : Int) (c1 c2 c3 c4 : Nat)
    (hx : A x) (hw : A w) (hs : A s) (ha : A a) (hn : A ((n : Nat) : Int)) (hn1 : A ((n + 1 : Nat) : Int)) :
    Chain A (n + 2) (n + 6) y
      [ ({ code := c1, inputs := [x, ((n : Nat) : Int)], outputs := [((n + 2 : Nat) : Int)] } : Op),
        { code := c2, inputs := [((n + 2 : Nat) : Int), w], outputs := [((n + 3 : Nat) : Int)] },
        { code := c3, inputs := [((n + 3 : Nat) : Int), s], outputs := [((n + 4 : Nat) : Int)] },
        { code := c4, inputs := [((n + 4 : Nat) : Int), a], outputs := [((n + 5 : Nat) : Int)] },
        { code := c1, inputs := [((n + 5 : Nat) : Int), ((n + 1 : Nat) : Int)], outputs := [y] } ] := by
  refine ⟨by simp, ?_, ?_, ?_⟩
  · intro i o hi t ht
    match i, hi with
    | 0, hi =>
      simp at hi; subst hi; simp at ht
      rcases ht with rfl | rfl
      · exact .inl hx
      · exact .inl hn
    | 1, hi =>
      simp at hi; subst hi; simp at ht
      rcases ht with rfl | rfl
      · exact .inr ⟨0, _, by omega, rfl, by simp⟩
      · exact .inl hw
    | 2, hi =>
      simp at hi; subst hi; simp at ht
      rcases ht with rfl | rfl
      · exact .inr ⟨1, _, by omega, rfl, by simp⟩
      · exact .inl hs
    | 3, hi =>
      simp at hi; subst hi; simp at ht
      rcases ht with rfl | rfl
      · exact .inr ⟨2, _, by omega, rfl, by simp⟩
      · exact .inl ha
    | 4, hi =>
      simp at hi; subst hi; simp at ht
      rcases ht with rfl | rfl
      · exact .inr ⟨3, _, by omega, rfl, by simp⟩
      · exact .inl hn1
    | i + 5, hi => simp at hi
  · intro i o hi hlt
    simp only [List.length_cons, List.length_nil] at hlt
    have hne : ∀ (a b : Nat) (o' : Op), o'.outputs = [((n + a : Nat) : Int)] → a ≠ b →
        ((n + b : Nat) : Int) ∉ o'.outputs := by
      intro a b o' ho' hab hmem
      rw [ho', List.mem_singleton] at hmem
      omega
    match i, hi with
    | 0, hi =>
      simp at hi; subst hi
      exact ⟨n + 2, rfl, by omega, by omega, fun j o' hj _ => by omega⟩
    | 1, hi =>
      simp at hi; subst hi
      refine ⟨n + 3, rfl, by omega, by omega, fun j o' hj ho' => ?_⟩
      match j, ho' with
      | 0, ho' => simp at ho'; subst ho'; exact hne 2 3 _ rfl (by omega)
      | j + 1, _ => omega
    | 2, hi =>
      simp at hi; subst hi
      refine ⟨n + 4, rfl, by omega, by omega, fun j o' hj ho' => ?_⟩
      match j, ho' with
      | 0, ho' => simp at ho'; subst ho'; exact hne 2 4 _ rfl (by omega)
      | 1, ho' => simp at ho'; subst ho'; exact hne 3 4 _ rfl (by omega)
      | j + 2, _ => omega
    | 3, hi =>
      simp at hi; subst hi
      refine ⟨n + 5, rfl, by omega, by omega, fun j o' hj ho' => ?_⟩
      match j, ho' with
      | 0, ho' => simp at ho'; subst ho'; exact hne 2 5 _ rfl (by omega)
      | 1, ho' => simp at ho'; subst ho'; exact hne 3 5 _ rfl (by omega)
      | 2, ho' => simp at ho'; subst ho'; exact hne 4 5 _ rfl (by omega)
      | j + 3, _ => omega
    | i + 4, _ => omega
  · intro o ho
    simp at ho
    subst ho
    rfl

theorem core_bufs (env : EmuEnv) (inp : TIn) (pl : Plan) :
    (core env inp pl).2 = pl.bufs ++ [some (.inl env.shape1Tok), some (.inl env.shape2Tok)] := by
  simp [core]

theorem core_ops (env : EmuEnv) (inp : TIn) (pl : Plan) (pre post : List Op) (fc : Op)
    (hops : pl.sg.ops = pre ++ fc :: post) (hk : pl.k = pre.length) :
    (core env inp pl).1.sg.ops = pre ++ N0 inp pl ++ fc :: post := by
  simp only [core, addAct_ops, addConst_ops, addAct_id, addConst_id, addAct_length, addConst_length, hops]
  rw [show pre ++ fc :: post = pre ++ ([] : List Op) ++ fc :: post by simp]
  rw [pyInsert_mid _ _ _ _ _ (by simp [hk])]
  rw [pyInsert_mid _ _ _ _ _ (by simp [hk])]
  rw [pyInsert_mid _ _ _ _ _ (by simp [hk])]
  rw [pyInsert_mid _ _ _ _ _ (by simp [hk])]
  rw [pyInsert_mid _ _ _ _ _ (by simp [hk])]
  simp [N0, Nat.add_assoc]

theorem core_inv (env : EmuEnv) (inp : TIn) (pl : Plan) (sg0 : Subgraph) (B : Nat) (pre post : List Op)
    (fc : Op) (y : Int) (hp : PlanOK pl sg0 B pre post fc y) :
    Inv pl sg0 B pre post fc inp y (core env inp pl).1 (N0 inp pl) := by
  have htl := hp.tlen
  refine ⟨core_ops env inp pl pre post fc hp.ops hp.k, rfl, ?_, ?_, ?_, ?_, ⟨[], by simp [core]⟩, ?_, ?_, ?_⟩
  · simp [core, hp.inputs]
  · simp [core, hp.outputs]
  · have hlen : (core env inp pl).1.sg.tensors.length = (sg0.tensors.length + 2) + 6 := by
      simp [core, htl]
    rw [hlen]
    have := chain0 (Avl fc inp sg0.tensors.length) (sg0.tensors.length + 2) y pl.io.inId inp.tensor pl.scaleId
      pl.axesId pl.ciReshape pl.ciBmm pl.ciMul pl.ciSum (.inl hp.inId) (.inr (.inl rfl))
      (.inr (.inr ⟨0, by omega, by rw [hp.scaleId]; rfl⟩)) (.inr (.inr ⟨1, by omega, by rw [hp.axesId]⟩))
      (.inr (.inr ⟨2, by omega, rfl⟩)) (.inr (.inr ⟨3, by omega, rfl⟩))
    simpa [N0, htl, hp.outId, Nat.add_assoc] using this
  · intro o ho
    simp only [N0, List.mem_cons, List.not_mem_nil, or_false] at ho
    show o.code < pl.codes.length
    rcases ho with rfl | rfl | rfl | rfl | rfl
    · exact hp.ciR
    · exact hp.ciB
    · exact hp.ciM
    · exact hp.ciS
    · exact hp.ciR
  · simp only [core]
    exact addAct_nodup _ _ _ (addAct_nodup _ _ _ (addAct_nodup _ _ _ (addAct_nodup _ _ _
      (addConst_nodup _ _ _ _ _ _ (addConst_nodup _ _ _ _ _ _ hp.nodup)))))
  · refine ⟨4, Nat.le_refl _, ?_⟩
    simp [core, hp.tbuf, hp.blen, List.replicate]
  · intro o ho
    simp only [N0, List.mem_cons, List.not_mem_nil, or_false] at ho
    rcases ho with rfl | rfl | rfl | rfl | rfl <;> rfl

/-! ## `biasStep` and `reluStep` -/

theorem mem_setLastOut (N : List Op) (i : Nat) (v : Int) (o : Op) (h : o ∈ setLastOut N i v) :
    ∃ o0 ∈ N, o.code = o0.code ∧ o.orig = o0.orig := by
  obtain ⟨j, hj⟩ := List.mem_iff_getElem?.1 h
  unfold setLastOut at hj
  rw [List.getElem?_modify] at hj
  cases hN : N[j]? with
  | none => rw [hN] at hj; simp at hj
  | some o0 =>
    rw [hN] at hj
    simp at hj
    refine ⟨o0, List.mem_of_getElem? hN, ?_, ?_⟩ <;>
    · rw [← hj]
      split <;> rfl

/-- the common step of the two branches: one new activation tensor (after an optional renaming that keeps
    buffers and distinctness), the last operator of the chain retargeted to it, one operator appended -/
theorem step_inv (pl : Plan) (sg0 : Subgraph) (B : Nat) (pre post : List Op) (fc : Op) (inp : TIn) (y : Int)
    (st : St) (N : List Op) (hk : pl.k = pre.length) (houtId : pl.io.outId = y)
    (h : Inv pl sg0 B pre post fc inp y st N)
    (T1 : List Tensor) (base : String) (shape : List Int) (code : Nat) (extra : List Int)
    (hT1len : T1.length = st.sg.tensors.length)
    (hT1buf : T1.map (·.buffer) = st.sg.tensors.map (·.buffer))
    (hT1nodup : (T1.map (·.name)).Nodup)
    (hextra : ∀ t ∈ extra, Avl fc inp sg0.tensors.length t) :
    ∃ N', Inv pl sg0 B pre post fc inp y
      { sg := { (addAct { st.sg with tensors := T1 } base shape).1 with
                ops := pyInsert (setLastOut (addAct { st.sg with tensors := T1 } base shape).1.ops
                          (pl.k + st.added - 1) (addAct { st.sg with tensors := T1 } base shape).2)
                        ((pl.k : Int) + st.added)
                        { code := (addOpCode st.codes code).2,
                          inputs := (addAct { st.sg with tensors := T1 } base shape).2 :: extra,
                          outputs := [pl.io.outId] } },
        codes := (addOpCode st.codes code).1, added := st.added + 1 } N' := by
  refine ⟨setLastOut N (N.length - 1) (st.sg.tensors.length : Int) ++
    [{ code := (addOpCode st.codes code).2, inputs := (st.sg.tensors.length : Int) :: extra,
       outputs := [pl.io.outId] }], ?_⟩
  obtain ⟨hc1, hc2⟩ := GraphStep.addOpCode_spec st.codes code
  obtain ⟨ext, hext⟩ := (GraphBasics.addOpCode_spec st.codes code).2
  constructor
  · simp only [addAct_ops, addAct_id, hT1len]
    rw [h.ops, h.added, hk, setLastOut_mid _ _ _ _ h.chain.ne,
      pyInsert_mid _ _ _ _ _ (by simp [length_setLastOut])]
  · show st.added + 1 = _
    simp [length_setLastOut, h.added]
  · exact h.inputs
  · exact h.outputs
  · show Chain _ _ (T1 ++ [_]).length y _
    rw [List.length_append, hT1len]
    have hge : sg0.tensors.length + 4 ≤ st.sg.tensors.length := by
      obtain ⟨j, hj, hb⟩ := h.tbuf
      have := congrArg List.length hb
      simp at this
      omega
    refine h.chain.extend _ hge ?_ (by rw [houtId])
    intro t ht
    rcases List.mem_cons.1 ht with rfl | ht
    · exact .inr rfl
    · exact .inl (hextra t ht)
  · intro o ho
    show o.code < (addOpCode st.codes code).1.length
    rcases List.mem_append.1 ho with ho | ho
    · obtain ⟨o0, ho0, hco, _⟩ := mem_setLastOut _ _ _ _ ho
      rw [hco]
      exact Nat.lt_of_lt_of_le (h.codes o0 ho0) hc2
    · rw [List.mem_singleton] at ho
      subst ho
      exact hc1
  · obtain ⟨e0, he0⟩ := h.codesExt
    exact ⟨e0 ++ ext, by show (addOpCode st.codes code).1 = _; rw [hext, he0, List.append_assoc]⟩
  · exact nodup_snoc T1 _ base rfl hT1nodup
  · obtain ⟨j, hj, hb⟩ := h.tbuf
    refine ⟨j + 1, by omega, ?_⟩
    show (T1 ++ [_]).map (fun t : Tensor => t.buffer) = _
    rw [List.map_append, hT1buf, hb, List.replicate_succ', ← List.append_assoc]
    rfl
  · intro o ho
    rcases List.mem_append.1 ho with ho | ho
    · obtain ⟨o0, ho0, _, hor⟩ := mem_setLastOut _ _ _ _ ho
      rw [hor]
      exact h.orig o0 ho0
    · rw [List.mem_singleton] at ho
      subst ho
      rfl

def hasBias (fc : Op) : Bool := decide (fc.inputs.length > 2) && fc.inputs.getD 2 0 != -1

theorem bias_inv (pl : Plan) (sg0 : Subgraph) (B : Nat) (pre post : List Op) (fc : Op) (inp : TIn) (y : Int)
    (st : St) (N : List Op) (hk : pl.k = pre.length) (houtId : pl.io.outId = y)
    (h : Inv pl sg0 B pre post fc inp y st N) :
    ∃ N', Inv pl sg0 B pre post fc inp y (biasStep pl st) N' := by
  have hcur : (st.sg.ops[pl.k + st.added]?).getD default = fc := by
    rw [h.ops, h.added, hk, get_mid]; rfl
  unfold biasStep
  simp only [hcur]
  by_cases hb : (decide (fc.inputs.length > 2) && fc.inputs.getD 2 0 != -1) = true
  · rw [if_pos hb]
    have := step_inv pl sg0 B pre post fc inp y st N hk houtId h st.sg.tensors
      (pl.io.outT.name ++ "_reshape_op2_output") pl.io.outT.shape opAdd [fc.inputs.getD 2 0] rfl rfl h.nodup (by
        intro t ht
        rw [List.mem_singleton] at ht
        subst ht
        simp only [Bool.and_eq_true, decide_eq_true_eq, bne_iff_ne, ne_eq] at hb
        refine .inl ⟨?_, hb.2⟩
        rw [List.getD_eq_getElem?_getD, List.getElem?_eq_getElem hb.1]
        simp)
    exact this
  · rw [if_neg hb]
    exact ⟨N, h⟩

/-- renaming one tensor to a name that does not occur keeps the names distinct -/
theorem nodup_rename (T : List Tensor) (i : Nat) (nn : String)
    (h : (T.map (·.name)).Nodup) (hn : nn ∉ T.map (·.name)) :
    ((T.modify i (fun t => { t with name := nn })).map (·.name)).Nodup ∧
    ∀ x ∈ (T.modify i (fun t => { t with name := nn })).map (·.name), x = nn ∨ x ∈ T.map (·.name) := by
  induction T generalizing i with
  | nil => simp
  | cons t ts ih =>
    simp only [List.map_cons, List.nodup_cons, List.mem_cons, not_or] at h hn
    cases i with
    | zero =>
      simp only [List.modify_zero_cons, List.map_cons, List.nodup_cons, List.mem_cons]
      exact ⟨⟨hn.2, h.2⟩, fun x hx => by rcases hx with rfl | hx <;> simp [*]⟩
    | succ i =>
      obtain ⟨ih1, ih2⟩ := ih i h.2 hn.2
      simp only [List.modify_succ_cons, List.map_cons, List.nodup_cons, List.mem_cons]
      refine ⟨⟨?_, ih1⟩, ?_⟩
      · intro hmem
        rcases ih2 _ hmem with h1 | h1
        · exact hn.1 h1.symm
        · exact h.1 h1
      · intro x hx
        rcases hx with rfl | hx
        · exact .inr (.inl rfl)
        · rcases ih2 x hx with h1 | h1
          · exact .inl h1
          · exact .inr (.inr h1)

theorem map_buffer_rename (T : List Tensor) (i : Nat) (nn : String) :
    (T.modify i (fun t => { t with name := nn })).map (·.buffer) = T.map (·.buffer) := by
  induction T generalizing i with
  | nil => simp
  | cons t ts ih =>
    cases i with
    | zero => simp
    | succ i => simp [ih]

theorem relu_inv (pl : Plan) (sg0 : Subgraph) (B : Nat) (pre post : List Op) (fc : Op) (inp : TIn) (y : Int)
    (st : St) (N : List Op) (hk : pl.k = pre.length) (houtId : pl.io.outId = y)
    (h : Inv pl sg0 B pre post fc inp y st N) :
    ∃ N', Inv pl sg0 B pre post fc inp y (reluStep pl st) N' := by
  unfold reluStep
  by_cases hr : (pl.fused == actRelu) = true
  · rw [if_pos hr]
    have hfresh := uniqueName_fresh (st.sg.tensors.map (·.name)) (pl.io.outT.name ++ "_relu")
    simp only []
    generalize uniqueName (st.sg.tensors.map (·.name)) (pl.io.outT.name ++ "_relu") = nn at hfresh ⊢
    exact step_inv pl sg0 B pre post fc inp y st N hk houtId h
      (st.sg.tensors.modify pl.io.outPos (fun t => { t with name := nn }))
      (nn ++ "_relu_input") pl.io.outT.shape opRelu []
      (by simp) (map_buffer_rename _ _ _) (nodup_rename _ _ _ h.nodup hfresh).1 (by simp)
  · rw [if_neg hr]
    exact ⟨N, h⟩

end EmuInv
