import Mathlib.Tactic.Ring
import Mathlib.Tactic.Linarith
import Mathlib.Tactic.NormNum
import QModel.Bytes
import QProofs.Rounding
/-!
# Little-endian integer storage: round trip for every whole-byte width;
# float16 storage: decoder and round trip
-/
open Bytes Num

namespace BytesProofs

theorem foldl_add_sum (l : List Nat) (a : Nat) : l.foldl (· + ·) a = a + l.sum := by
  induction l generalizing a with
  | nil => simp
  | cons x xs ih => simp [List.foldl_cons, ih, Nat.add_assoc]

/-- weighting the bytes `f 0, …, f (k-1)` by their positions -/
theorem zipIdx_range_map (f : Nat → Nat) (k : Nat) :
    (((List.range k).map f).zipIdx.map fun (b, i) => b * 2^(8*i))
      = (List.range k).map fun i => f i * 2^(8*i) := by
  induction k with
  | zero => rfl
  | succ k ih =>
    rw [List.range_succ, List.map_append, List.zipIdx_append, List.map_append, ih, List.map_append]
    simp

/-- base-256 digit expansion: the first `k` digits of `u` sum to `u % 256^k` -/
theorem digits_sum (u k : Nat) :
    ((List.range k).map fun i => (u / 2^(8*i)) % 256 * 2^(8*i)).sum = u % 2^(8*k) := by
  induction k with
  | zero => simp [Nat.mod_one]
  | succ k ih =>
    rw [List.range_succ, List.map_append, List.sum_append, ih]
    have e : 2^(8*(k+1)) = 2^(8*k) * 256 := by
      rw [Nat.mul_succ, Nat.pow_add]
    rw [e, Nat.mod_mul]
    simp [Nat.mul_comm]

theorem encodeLE_bytes (w : Nat) (z : Int) : ∀ b ∈ encodeLE w z, b < 256 := by
  intro b hb
  unfold encodeLE at hb
  simp only [List.mem_map] at hb
  obtain ⟨i, _, rfl⟩ := hb
  exact Nat.mod_lt _ (by decide)

theorem encodeLE_length (w : Nat) (z : Int) : (encodeLE w z).length = w / 8 := by
  unfold encodeLE
  simp

theorem encodeAllLE_length (w : Nat) (zs : List Int) :
    (encodeAllLE w zs).length = zs.length * (w / 8) := by
  unfold encodeAllLE
  induction zs with
  | nil => simp
  | cons z zs ih =>
    rw [List.flatMap_cons, List.length_append, ih, encodeLE_length, List.length_cons, Nat.succ_mul,
      Nat.add_comm]

/-- the natural number read back from the stored bytes -/
theorem decode_sum (k : Nat) (z : Int) :
    (((encodeLE (8*k) z).zipIdx.map fun (b, i) => b * 2^(8*i)).foldl (· + ·) 0 : Nat)
      = (z % (2:Int)^(8*k)).toNat := by
  unfold encodeLE
  simp only [Nat.mul_div_cancel_left k (by decide : 0 < 8)]
  rw [zipIdx_range_map, foldl_add_sum, Nat.zero_add, digits_sum]
  apply Nat.mod_eq_of_lt
  have hpos : (0:Int) < (2:Int)^(8*k) := Int.pow_pos (by decide)
  have h1 : (0:Int) ≤ z % (2:Int)^(8*k) := Int.emod_nonneg _ (ne_of_gt hpos)
  have h2 : z % (2:Int)^(8*k) < (2:Int)^(8*k) := Int.emod_lt_of_pos _ hpos
  have h3 : (((z % (2:Int)^(8*k)).toNat : Nat) : Int) = z % (2:Int)^(8*k) := Int.toNat_of_nonneg h1
  have h4 : (((2:Nat)^(8*k) : Nat) : Int) = (2:Int)^(8*k) := by push_cast; rfl
  omega

theorem wrapInt_emod (w : Nat) (z : Int) : wrapInt w (z % (2:Int)^w) = wrapInt w z := by
  unfold wrapInt
  simp only
  rw [Int.add_emod, Int.emod_emod, ← Int.add_emod]

theorem decode_encode_wrap (k : Nat) (_hk : 1 ≤ k) (z : Int) :
    decodeLE (8*k) (encodeLE (8*k) z) = wrapInt (8*k) z := by
  unfold decodeLE
  simp only
  rw [decode_sum, Int.toNat_of_nonneg (Int.emod_nonneg _ (ne_of_gt (Int.pow_pos (by decide)))),
    wrapInt_emod]

theorem wrapInt_id (w : Nat) (hw : 1 ≤ w) (z : Int) (h1 : -(2:Int)^(w-1) ≤ z) (h2 : z < (2:Int)^(w-1)) :
    wrapInt w z = z := by
  unfold wrapInt
  simp only
  have e : (2:Int)^w = 2 * (2:Int)^(w-1) := by
    obtain ⟨n, rfl⟩ : ∃ n, w = n + 1 := ⟨w - 1, by omega⟩
    simp [Int.pow_succ, Int.mul_comm]
  rw [e, Int.emod_eq_of_lt (by omega) (by omega)]
  omega

theorem decode_encode (k : Nat) (hk : 1 ≤ k) (z : Int) (h1 : -(2:Int)^(8*k-1) ≤ z)
    (h2 : z < (2:Int)^(8*k-1)) : decodeLE (8*k) (encodeLE (8*k) z) = z := by
  rw [decode_encode_wrap k hk, wrapInt_id (8*k) (by omega) z h1 h2]

theorem decodeAll_encodeAll (k : Nat) (hk : 1 ≤ k) (zs : List Int)
    (h : ∀ z ∈ zs, -(2:Int)^(8*k-1) ≤ z ∧ z < (2:Int)^(8*k-1)) :
    (List.range zs.length).map
      (fun i => decodeLE (8*k) (((encodeAllLE (8*k) zs).drop (i*k)).take k)) = zs := by
  induction zs with
  | nil => rfl
  | cons z zs ih =>
    have hz := h z (by simp)
    have hlen : (encodeLE (8*k) z).length = k := by
      rw [encodeLE_length, Nat.mul_div_cancel_left k (by decide : 0 < 8)]
    have ih' := ih (fun x hx => h x (by simp [hx]))
    rw [List.length_cons, List.range_succ_eq_map, List.map_cons, List.map_map]
    have e0 : ((encodeAllLE (8*k) (z :: zs)).drop (0*k)).take k = encodeLE (8*k) z := by
      unfold encodeAllLE
      rw [List.flatMap_cons, Nat.zero_mul, List.drop_zero, List.take_append_of_le_length (by omega),
        List.take_of_length_le (by omega)]
    rw [e0, decode_encode k hk z hz.1 hz.2]
    congr 1
    refine Eq.trans ?_ ih'
    apply List.map_congr_left
    intro i _
    have : (encodeAllLE (8*k) (z :: zs)).drop ((i+1)*k) = (encodeAllLE (8*k) zs).drop (i*k) := by
      unfold encodeAllLE
      rw [List.flatMap_cons, Nat.succ_mul, Nat.add_comm (i*k) k, ← List.drop_drop]
      congr 1
      rw [List.drop_append_of_le_length (by omega), List.drop_of_length_le (by omega), List.nil_append]
    simp only [Function.comp, Nat.succ_eq_add_one, this]

/-! ## float16 storage -/

/-- decoder for the binary16 bit pattern (finite values) -/
def f16Val (b : Nat) : Rat :=
  let s : Rat := if b / 32768 = 0 then 1 else -1
  let ef : Nat := (b / 1024) % 32
  let m : Nat := b % 1024
  if ef = 0 then s * (m : Rat) * (2:Rat)^(-24 : Int)
  else s * ((1024 + m : Nat) : Rat) * (2:Rat)^((ef : Int) - 25)

theorem flog2_unique (x : Rat) (hx : 0 < x) (e : Int) (h1 : (2:Rat)^e ≤ x) (h2 : x < (2:Rat)^(e+1)) :
    flog2 x = e := by
  obtain ⟨s1, s2⟩ := Rounding.flog2_spec x hx
  have a := (zpow_lt_zpow_iff_right₀ (by norm_num : (1:Rat) < 2)).mp (lt_of_le_of_lt s1 h2)
  have b := (zpow_lt_zpow_iff_right₀ (by norm_num : (1:Rat) < 2)).mp (lt_of_le_of_lt h1 s2)
  omega

/-- magnitude part of the bit pattern -/
def f16Mag (a : Rat) : Nat :=
  if flog2 a < -14 then (a * (2:Rat)^(24:Int)).floor.toNat
  else ((flog2 a + 15).toNat) * 1024 + ((a * (2:Rat)^(10 - flog2 a)).floor.toNat - 1024)

theorem f16Bits_pos (a : Rat) (ha : 0 < a) : f16Bits a = f16Mag a := by
  unfold f16Bits f16Mag
  have h0 : a ≠ 0 := ne_of_gt ha
  have h1 : ¬ a < 0 := not_lt.mpr (le_of_lt ha)
  simp [h0, h1]

theorem f16Bits_neg (a : Rat) (ha : 0 < a) : f16Bits (-a) = 32768 + f16Mag a := by
  unfold f16Bits f16Mag
  have h0 : a ≠ 0 := ne_of_gt ha
  simp [h0, ha]
  split <;> omega

theorem floor_nat (m : Nat) : (Rat.floor (m : Rat)).toNat = m := by
  have : Rat.floor (m : Rat) = (m : Int) := by
    show ⌊(m : Rat)⌋ = (m : Int)
    exact Int.floor_natCast m
  rw [this]; rfl

theorem f16Mag_normal (m : Nat) (e : Int) (hm1 : 1024 ≤ m) (hm2 : m < 2048) (he1 : -14 ≤ e) (he2 : e ≤ 15) :
    f16Mag ((m : Rat) * (2:Rat)^(e - 10)) = (e + 15).toNat * 1024 + (m - 1024) := by
  have hp : (0:Rat) < (2:Rat)^(e-10) := zpow_pos (by norm_num) _
  have hmpos : (0:Rat) < (m:Rat) := by exact_mod_cast (by omega : 0 < m)
  have e1 : (2:Rat)^e = 1024 * (2:Rat)^(e-10) := by
    rw [zpow_sub₀ (by norm_num)]; norm_num; ring
  have e2 : (2:Rat)^(e+1) = 2048 * (2:Rat)^(e-10) := by
    rw [zpow_sub₀ (by norm_num), zpow_add₀ (by norm_num)]; norm_num; ring
  have hf : flog2 ((m : Rat) * (2:Rat)^(e - 10)) = e := by
    apply flog2_unique _ (mul_pos hmpos hp)
    · rw [e1]; exact mul_le_mul_of_nonneg_right (by exact_mod_cast hm1) (le_of_lt hp)
    · rw [e2]; exact mul_lt_mul_of_pos_right (by exact_mod_cast hm2) hp
  unfold f16Mag
  rw [hf, if_neg (by omega)]
  have : (m : Rat) * (2:Rat)^(e - 10) * (2:Rat)^(10 - e) = m := by
    rw [mul_assoc, ← zpow_add₀ (by norm_num)]; simp
  rw [this, floor_nat]

theorem f16Mag_sub (m : Nat) (hm1 : 0 < m) (hm2 : m < 1024) :
    f16Mag ((m : Rat) * (2:Rat)^(-24 : Int)) = m := by
  have hp : (0:Rat) < (2:Rat)^(-24:Int) := zpow_pos (by norm_num) _
  have hmpos : (0:Rat) < (m:Rat) := by exact_mod_cast hm1
  have hf : flog2 ((m : Rat) * (2:Rat)^(-24:Int)) < -14 := by
    obtain ⟨s1, _⟩ := Rounding.flog2_spec _ (mul_pos hmpos hp)
    have : (m : Rat) * (2:Rat)^(-24:Int) < (2:Rat)^(-14:Int) := by
      have : (2:Rat)^(-14:Int) = 1024 * (2:Rat)^(-24:Int) := by norm_num
      rw [this]; exact mul_lt_mul_of_pos_right (by exact_mod_cast hm2) hp
    exact (zpow_lt_zpow_iff_right₀ (by norm_num : (1:Rat) < 2)).mp (lt_of_le_of_lt s1 this)
  unfold f16Mag
  rw [if_pos hf]
  have : (m : Rat) * (2:Rat)^(-24:Int) * (2:Rat)^(24:Int) = m := by
    rw [mul_assoc, ← zpow_add₀ (by norm_num)]; simp
  rw [this, floor_nat]

theorem f16Val_normal (s : Nat) (_hs : s ≤ 1) (m : Nat) (e : Int) (hm1 : 1024 ≤ m) (hm2 : m < 2048)
    (he1 : -14 ≤ e) (he2 : e ≤ 15) :
    f16Val (s * 32768 + ((e + 15).toNat * 1024 + (m - 1024)))
      = (if s = 0 then 1 else -1) * (m : Rat) * (2:Rat)^(e - 10) := by
  obtain ⟨t, ht1, ht2, ht3⟩ : ∃ t : Nat, (t : Int) = e + 15 ∧ 1 ≤ t ∧ t ≤ 30 := ⟨(e+15).toNat, by omega, by omega, by omega⟩
  have ht : (e + 15).toNat = t := by omega
  rw [ht]
  unfold f16Val
  have a1 : (s * 32768 + (t * 1024 + (m - 1024))) / 32768 = s := by omega
  have a2 : (s * 32768 + (t * 1024 + (m - 1024))) / 1024 % 32 = t := by omega
  have a3 : (s * 32768 + (t * 1024 + (m - 1024))) % 1024 = m - 1024 := by omega
  simp only [a1, a2, a3]
  rw [if_neg (by omega)]
  have : 1024 + (m - 1024) = m := by omega
  rw [this]
  have : (t : Int) - 25 = e - 10 := by omega
  rw [this]

theorem f16Val_sub (s : Nat) (_hs : s ≤ 1) (m : Nat) (hm2 : m < 1024) :
    f16Val (s * 32768 + m) = (if s = 0 then 1 else -1) * (m : Rat) * (2:Rat)^(-24 : Int) := by
  unfold f16Val
  have a1 : (s * 32768 + m) / 32768 = s := by omega
  have a2 : (s * 32768 + m) / 1024 % 32 = 0 := by omega
  have a3 : (s * 32768 + m) % 1024 = m := by omega
  simp only [a1, a2, a3, ↓reduceIte]

/-- **float16 storage round trip**: decoding the bit pattern of an exactly representable
    rational (zero, normal, or sub-normal) gives back the rational -/
theorem f16Val_f16Bits (x : Rat)
    (h : x = 0 ∨
      (∃ (s : Bool) (m : Nat) (e : Int), 1024 ≤ m ∧ m < 2048 ∧ -14 ≤ e ∧ e ≤ 15 ∧
        x = (if s then -1 else 1) * (m : Rat) * (2:Rat)^(e - 10)) ∨
      (∃ (s : Bool) (m : Nat), 0 < m ∧ m < 1024 ∧
        x = (if s then -1 else 1) * (m : Rat) * (2:Rat)^(-24 : Int))) :
    f16Val (f16Bits x) = x := by
  rcases h with rfl | ⟨s, m, e, hm1, hm2, he1, he2, rfl⟩ | ⟨s, m, hm1, hm2, rfl⟩
  · simp [f16Bits, f16Val]
  · have hpos : (0:Rat) < (m:Rat) * (2:Rat)^(e-10) :=
      mul_pos (by exact_mod_cast (by omega : 0 < m)) (zpow_pos (by norm_num) _)
    cases s
    · have : (if false = true then (-1:Rat) else 1) * (m:Rat) * (2:Rat)^(e-10) = (m:Rat) * (2:Rat)^(e-10) := by simp
      rw [this, f16Bits_pos _ hpos, f16Mag_normal m e hm1 hm2 he1 he2]
      have := f16Val_normal 0 (by omega) m e hm1 hm2 he1 he2
      simpa using this
    · have : (if true = true then (-1:Rat) else 1) * (m:Rat) * (2:Rat)^(e-10) = -((m:Rat) * (2:Rat)^(e-10)) := by simp
      rw [this, f16Bits_neg _ hpos, f16Mag_normal m e hm1 hm2 he1 he2]
      have := f16Val_normal 1 (by omega) m e hm1 hm2 he1 he2
      simpa using this
  · have hpos : (0:Rat) < (m:Rat) * (2:Rat)^(-24:Int) :=
      mul_pos (by exact_mod_cast hm1) (zpow_pos (by norm_num) _)
    cases s
    · have : (if false = true then (-1:Rat) else 1) * (m:Rat) * (2:Rat)^(-24:Int) = (m:Rat) * (2:Rat)^(-24:Int) := by simp
      rw [this, f16Bits_pos _ hpos, f16Mag_sub m hm1 hm2]
      have := f16Val_sub 0 (by omega) m hm2
      simpa using this
    · have : (if true = true then (-1:Rat) else 1) * (m:Rat) * (2:Rat)^(-24:Int) = -((m:Rat) * (2:Rat)^(-24:Int)) := by simp
      rw [this, f16Bits_neg _ hpos, f16Mag_sub m hm1 hm2]
      have := f16Val_sub 1 (by omega) m hm2
      simpa using this

end BytesProofs
