import QProofs.TypingE2E
/-!
# C04 end to end, graph stage: where the `quant` field of an output tensor comes from

`quant_final`: in the output of `transformGraph`, the `quant` field of an ORIGINAL tensor is the original
one or the parameter id of a retyping instruction (QUANTIZE_TENSOR / ADD_DEQUANTIZE) on that tensor; the
`quant` field of a NEW tensor is the parameter id of the ADD_QUANTIZE instruction that created it
(`TypingGraph.NewInv`).

`addQuant_source`, `inst_side`: the parameter id of a performed instruction is the id of the parameter
object of a producer side `[ADD_DEQUANTIZE]` or of a consumer side of the request of its tensor; an
ADD_QUANTIZE instruction comes from an `[ADD_QUANTIZE]` consumer side whose operator it lists.
-/
open Graph Mat Cfg Pipeline InstGen GenInstsOK GenInstsInfo Pipe SharingGen SharingData Perform
open GraphStep GraphFrame GraphInv Skeleton SkeletonProof StepTypes Wiring SharingE2E

set_option autoImplicit false

namespace ParamsGraph

/-! ## the `quant` field of the original tensors through the run -/

/-- the `quant` field of every ORIGINAL tensor is the original one, or the parameter id of a retyping
    instruction of `tis` on that tensor -/
def QInv (pt : PTable) (m : Model) (tis : List TInsts) (st : PState) : Prop :=
  ∀ (s : Nat) (sg0 sg : Subgraph) (i : Nat) (tn0 tn : Tensor), m.subgraphs[s]? = some sg0 →
    st.model.subgraphs[s]? = some sg → sg0.tensors[i]? = some tn0 → sg.tensors[i]? = some tn →
    tn.quant = tn0.quant ∨ ∃ p pi, tn.quant = some p ∧ Retyped tis s i p ∧ pinfo pt p = some pi ∧
      pi.uniform = true

theorem q_init (pt : PTable) (m : Model) (tis : List TInsts) : QInv pt m tis (st0 m) := by
  intro s sg0 sg i tn0 tn h0 h1 h2 h3
  have h1' : m.subgraphs[s]? = some sg := h1
  rw [h0] at h1'; cases h1'
  rw [h2] at h3; cases h3
  exact .inl rfl

theorem q_step {pt : PTable} {m : Model} {tis : List TInsts} {ti : TInsts} {ins : Inst}
    {st st' : PState} (hti : ti ∈ tis) (hins : ins ∈ ti.insts)
    (S : StepB pt m ti.sg ins st st') (J : QInv pt m tis st) : QInv pt m tis st' := by
  intro s sg0 sgN i tn0 tnN h0 h1 h2 h3
  by_cases hs : s = ti.sg
  · subst hs
    obtain ⟨sg, sg', t0, tn, p, pi, ty, d1, d2, d3, d4, d5, d6, d7, d8, d9, d10, d11, d12, d13⟩ :=
      S.digest sg0 h0
    rw [h1] at d2; cases d2
    have hi0 : i < sg0.tensors.length := (List.getElem?_eq_some_iff.1 h2).1
    have hil : i < sg.tensors.length := by omega
    have hx : sg.tensors[i]? = some sg.tensors[i] := List.getElem?_eq_getElem hil
    have hN := d11 i _ hx
    rw [h3] at hN
    simp only [Option.some.injEq] at hN
    by_cases hc : retypes ins.xf = true ∧ i = ins.tensor.toNat
    · rw [if_pos hc] at hN
      obtain ⟨hr, hi⟩ := hc
      subst hi
      rw [d5] at hx
      cases hx
      rw [hN, retype_quant]
      cases hu : pi.uniform
      · simp only [Bool.false_eq_true, if_false]
        exact J _ sg0 sg _ tn0 _ h0 d1 h2 d5
      · simp only [if_true]
        exact .inr ⟨p, pi, rfl, ⟨ti, hti, ins, hins, rfl, by omega, hr, d7⟩, d8, hu⟩
    · rw [if_neg hc] at hN
      rw [hN]
      exact J _ sg0 sg i tn0 _ h0 d1 h2 hx
  · obtain ⟨e1, -⟩ := S.step.others s hs
    rw [e1] at h1
    exact J s sg0 sgN i tn0 tnN h0 h1 h2 h3

/-- **the `quant` field of the original tensors in the output of `transformGraph`** -/
theorem quant_final (pt : PTable) (m m' : Model) (tis : List TInsts)
    (hwf : WF.modelOK m = true) (htag : origTagged m = true)
    (hok : ∀ ti ∈ tis, TInstsOK pt m ti) (h : transformGraph pt m tis = .ok m') :
    ∀ (s : Nat) (sg0 sg : Subgraph) (i : Nat) (tn0 tn : Tensor), m.subgraphs[s]? = some sg0 →
      m'.subgraphs[s]? = some sg → sg0.tensors[i]? = some tn0 → sg.tensors[i]? = some tn →
      tn.quant = tn0.quant ∨ ∃ p pi, tn.quant = some p ∧ Retyped tis s i p ∧ pinfo pt p = some pi ∧
        pi.uniform = true := by
  unfold transformGraph at h
  simp only at h
  obtain ⟨st, hfold, h⟩ := bind_ok _ _ _ h
  cases h
  exact (run_rule pt m tis (QInv pt m tis) (fun _ _ _ => True) hwf hok
    (fun ti hti ins hins s s' S j => q_step hti hins S j)
    (fun _ _ _ _ _ _ _ _ => trivial) (fun _ _ _ _ _ _ _ _ _ _ _ => trivial)
    (st0 m) st (base_init m hwf htag) (q_init pt m tis) hfold).2.1

/-! ## where an ADD_QUANTIZE instruction comes from -/

/-- **an ADD_QUANTIZE instruction** of the instruction list of one tensor comes from an `[ADD_QUANTIZE]`
    consumer side: it carries that side's parameter and lists that side's operator -/
theorem addQuant_source (info : TInfo) (a : TReq)
    (hshape : ∀ cs c, a.consumers = some cs → c ∈ cs → ∃ x, c.xfs = [x] ∧ x ≠ .emulated)
    (hprod : ∀ p, a.producer = some p → p.xfs = [.noQuant] ∨ p.xfs = [.addDequant]) :
    ∀ ins ∈ instsOf info a, ins.xf = .addQuant →
      ∃ os o, a.consumers = some os ∧ o ∈ os ∧ o.xfs = [.addQuant] ∧ ins.param = o.param ∧
        o.opId ∈ ins.consumers := by
  obtain ⟨G, hG, hcov, hnone, hsome⟩ := TypingReq.instsOf_closed info a (TypingReq.hlen_of_shape a hshape)
  have hrule : ∀ r ∈ G.map (instOfGroup (a.consumers.getD []) info 0), r.xf = .addQuant →
      ∃ os o, a.consumers = some os ∧ o ∈ os ∧ o.xfs = [.addQuant] ∧ r.param = o.param ∧
        o.opId ∈ r.consumers := by
    intro r hr hq
    obtain ⟨o, ho, hcons, hxf, hpar, -⟩ := TypingReq.rule_source _ info G hG r hr
    obtain ⟨os, hos, hoo⟩ := getD_consumers a o ho
    obtain ⟨x, hx, -⟩ := hshape os o hos hoo
    have hrx : r.xf = x := by rw [hxf, hx]; rfl
    exact ⟨os, o, hos, hoo, by rw [hx, ← hrx, hq], hpar, hcons⟩
  intro ins hins hq
  cases hp : a.producer with
  | none =>
    rw [hnone hp] at hins
    exact hrule ins hins hq
  | some p =>
    rcases hprod p hp with hy | hy
    · rw [hsome p _ hp hy] at hins
      have hPx : (TypingReq.prodInst info p .noQuant).xf ≠ .addDequant := by simp [TypingReq.prodInst]
      rcases TypingReq.mem_applyVertical _ _ _ hins with rfl | h | ⟨-, h⟩
      · cases hq
      · obtain ⟨r', hr', hir⟩ := List.mem_flatMap.1 h
        rw [TypingReq.vstep_noDq _ _ hPx, List.mem_singleton] at hir
        subst hir
        exact hrule ins hr' hq
      · exact absurd h hPx
    · rw [hsome p _ hp hy] at hins
      have hPx : (TypingReq.prodInst info p .addDequant).xf = .addDequant := rfl
      rcases TypingReq.mem_applyVertical _ _ _ hins with rfl | h | ⟨rfl, -⟩
      · cases hq
      · obtain ⟨r', hr', hir⟩ := List.mem_flatMap.1 h
        by_cases hq' : r'.xf = .addQuant
        · by_cases hpp : (TypingReq.prodInst info p .addDequant).param = r'.param
          · rw [TypingReq.vstep_dq_addQuant_same _ _ hPx hq' hpp, List.mem_singleton] at hir
            subst hir
            cases hq
          · rw [TypingReq.vstep_dq_addQuant_diff _ _ hPx hq' hpp] at hir
            simp only [List.mem_cons, List.not_mem_nil, or_false] at hir
            rcases hir with rfl | rfl
            · cases hq
            · exact hrule r' hr' hq'
        · by_cases hn : r'.xf = .noQuant
          · rw [TypingReq.vstep_dq_noQuant _ _ hPx hn, List.mem_singleton] at hir
            subst hir
            cases hq
          · have : vstep (TypingReq.prodInst info p .addDequant) r' = [r'] := by
              unfold vstep
              have h1 : (r'.xf == Xf.addQuant) = false := by simpa using hq'
              have h2 : (r'.xf == Xf.noQuant) = false := by simpa using hn
              simp [h1, h2]
            rw [this, List.mem_singleton] at hir
            subst hir
            exact absurd hq hq'
      · cases hq

/-! ## where a retyping instruction comes from -/

/-- **a retyping instruction** (QUANTIZE_TENSOR / ADD_DEQUANTIZE) of the instruction list of one tensor
    carries the parameter of the producer side `[ADD_DEQUANTIZE]`, or of a consumer side whose own
    transformation is a retyping one (a constant operand) -/
theorem retype_source (info : TInfo) (a : TReq)
    (hshape : ∀ cs c, a.consumers = some cs → c ∈ cs → ∃ x, c.xfs = [x] ∧ x ≠ .emulated)
    (hprod : ∀ p, a.producer = some p → p.xfs = [.noQuant] ∨ p.xfs = [.addDequant]) :
    ∀ ins ∈ instsOf info a, retypes ins.xf = true →
      (∃ p, a.producer = some p ∧ p.xfs = [.addDequant] ∧ ins.param = p.param) ∨
      (∃ os o x, a.consumers = some os ∧ o ∈ os ∧ o.xfs = [x] ∧ retypes x = true ∧ ins.param = o.param ∧
        o.opId ∈ ins.consumers) := by
  obtain ⟨G, hG, hcov, hnone, hsome⟩ := TypingReq.instsOf_closed info a (TypingReq.hlen_of_shape a hshape)
  have hrule : ∀ r ∈ G.map (instOfGroup (a.consumers.getD []) info 0), retypes r.xf = true →
      ∃ os o x, a.consumers = some os ∧ o ∈ os ∧ o.xfs = [x] ∧ retypes x = true ∧ r.param = o.param ∧
        o.opId ∈ r.consumers := by
    intro r hr hq
    obtain ⟨o, ho, hcons, hxf, hpar, -⟩ := TypingReq.rule_source _ info G hG r hr
    obtain ⟨os, hos, hoo⟩ := getD_consumers a o ho
    obtain ⟨x, hx, -⟩ := hshape os o hos hoo
    have hrx : r.xf = x := by rw [hxf, hx]; rfl
    exact ⟨os, o, x, hos, hoo, hx, by rw [← hrx]; exact hq, hpar, hcons⟩
  intro ins hins hq
  cases hp : a.producer with
  | none =>
    rw [hnone hp] at hins
    exact .inr (hrule ins hins hq)
  | some p =>
    rcases hprod p hp with hy | hy
    · rw [hsome p _ hp hy] at hins
      have hPx : (TypingReq.prodInst info p .noQuant).xf ≠ .addDequant := by simp [TypingReq.prodInst]
      rcases TypingReq.mem_applyVertical _ _ _ hins with rfl | h | ⟨-, h⟩
      · cases hq
      · obtain ⟨r', hr', hir⟩ := List.mem_flatMap.1 h
        rw [TypingReq.vstep_noDq _ _ hPx, List.mem_singleton] at hir
        subst hir
        exact .inr (hrule ins hr' hq)
      · exact absurd h hPx
    · rw [hsome p _ hp hy] at hins
      have hPx : (TypingReq.prodInst info p .addDequant).xf = .addDequant := rfl
      rcases TypingReq.mem_applyVertical _ _ _ hins with rfl | h | ⟨rfl, -⟩
      · exact .inl ⟨p, rfl, hy, rfl⟩
      · obtain ⟨r', hr', hir⟩ := List.mem_flatMap.1 h
        by_cases hq' : r'.xf = .addQuant
        · by_cases hpp : (TypingReq.prodInst info p .addDequant).param = r'.param
          · rw [TypingReq.vstep_dq_addQuant_same _ _ hPx hq' hpp, List.mem_singleton] at hir
            subst hir
            exact .inl ⟨p, rfl, hy, hpp.symm⟩
          · rw [TypingReq.vstep_dq_addQuant_diff _ _ hPx hq' hpp] at hir
            simp only [List.mem_cons, List.not_mem_nil, or_false] at hir
            rcases hir with rfl | rfl
            · exact .inl ⟨p, rfl, hy, rfl⟩
            · cases hq
        · by_cases hn : r'.xf = .noQuant
          · rw [TypingReq.vstep_dq_noQuant _ _ hPx hn, List.mem_singleton] at hir
            subst hir
            exact .inl ⟨p, rfl, hy, rfl⟩
          · have : vstep (TypingReq.prodInst info p .addDequant) r' = [r'] := by
              unfold vstep
              have h1 : (r'.xf == Xf.addQuant) = false := by simpa using hq'
              have h2 : (r'.xf == Xf.noQuant) = false := by simpa using hn
              simp [h1, h2]
            rw [this, List.mem_singleton] at hir
            subst hir
            exact .inr (hrule ins hr' hq)
      · exact .inl ⟨p, rfl, hy, rfl⟩

/-! ## from a performed instruction to the request side it carries out -/

/-- how instruction `ins` carries out side `c` of request `r`:
    * `result`: `c` is the producer side `[ADD_DEQUANTIZE]` and `ins` retypes the tensor;
    * `const`: `c` is a consumer side with a retyping transformation (QUANTIZE_TENSOR / ADD_DEQUANTIZE: a
      constant operand), `ins` retypes the tensor and lists `c`'s operator;
    * `inserted`: `c` is a consumer side `[ADD_QUANTIZE]`, `ins` is an ADD_QUANTIZE and lists `c`'s operator -/
inductive Carries (r : CReq) (c : CO2T) (ins : Inst) : Prop
  | result : r.producer = some c → c.xfs = [.addDequant] → retypes ins.xf = true → Carries r c ins
  | const (cs : List CO2T) (x : Xf) : r.consumers = some cs → c ∈ cs → c.xfs = [x] → retypes x = true →
      retypes ins.xf = true → c.opId ∈ ins.consumers → Carries r c ins
  | inserted (cs : List CO2T) : r.consumers = some cs → c ∈ cs → c.xfs = [.addQuant] → ins.xf = .addQuant →
      c.opId ∈ ins.consumers → Carries r c ins

theorem insertion_cases (x : Xf) (h : isInsertion x = true) : retypes x = true ∨ x = .addQuant := by
  cases x <;> simp_all [isInsertion, retypes]

/-- **every performed instruction carries out a request side**: its tensor `i` is an original tensor
    with an entry `e` in the result dictionary, and its parameter id is the id of the parameter object `P`
    of a side `c` of `e` that it `Carries` out -/
theorem inst_side {rx : String → String → Bool} {env : Env} {st : Recipe.State} {qsvs : Option Qsvs}
    {m' : Model} {res : List (String × CReq)} {tis : List TInsts}
    (S : TypingE2E.Stages rx env st qsvs m' (tblOf res) res tis) (ti : TInsts) (hti : ti ∈ tis) (ins : Inst)
    (hins : ins ∈ ti.insts) (hx : isInsertion ins.xf = true) (p : PId) (hp : ins.param = some p)
    (sg : Subgraph) (hsg : env.model.subgraphs[ti.sg]? = some sg) :
    ∃ (i : Nat) (tn : Tensor) (e : CReq) (c : CO2T) (P : Param), ins.tensor = (i : Int) ∧
      sg.tensors[i]? = some tn ∧ (tn.name, e) ∈ res ∧ Carries e c ins ∧ c.param = some P ∧
      (tblOf res).findIdx? (fun q => q.eqv P) = some p := by
  have C := S.ctx
  obtain ⟨e, he, a, ha, hA, hreq, s', sg', i, hloc, hget, rfl⟩ := entry_of_ti C tis S.gen ti hti
  simp only at hins hsg
  have hsg' : env.model.subgraphs[s']? = some sg' := hloc.1
  rw [hsg] at hsg'; cases hsg'
  obtain ⟨hcore, -⟩ := instsOf_ok _ env.model s' sg i a hsg hget hreq
  have hten := (hcore ins hins).tensor
  obtain ⟨-, tn, htn, hname⟩ := hloc
  have hkey : (tn.name, e.2) ∈ res := by rw [hname]; exact he
  rcases insertion_cases _ hx with hr | hq
  · rcases retype_source (tensorInfo s' sg i) a hreq.consShape hreq.prodShape ins hins hr with
      ⟨po, hpo, hpx, hpp⟩ | ⟨os, o, x, hos, ho, hox, hxr, hop, hoc⟩
    · obtain ⟨c, hc, hAO⟩ := hA.prod hpo
      rw [hp] at hpp
      obtain ⟨P, hP, hidx⟩ := hAO.param_some hpp.symm
      exact ⟨i, tn, e.2, c, P, hten, htn, hkey, .result hc (by rw [← hAO.2.1]; exact hpx) hr, hP, hidx⟩
    · obtain ⟨cs, c, hcs, hc, hAO⟩ := hA.cons_mem hos ho
      rw [hp] at hop
      obtain ⟨P, hP, hidx⟩ := hAO.param_some hop.symm
      exact ⟨i, tn, e.2, c, P, hten, htn, hkey,
        .const cs x hcs hc (by rw [← hAO.2.1]; exact hox) hxr hr (by rw [← hAO.1]; exact hoc), hP, hidx⟩
  · obtain ⟨os, o, hos, ho, hox, hop, hoc⟩ :=
      addQuant_source (tensorInfo s' sg i) a hreq.consShape hreq.prodShape ins hins hq
    obtain ⟨cs, c, hcs, hc, hAO⟩ := hA.cons_mem hos ho
    rw [hp] at hop
    obtain ⟨P, hP, hidx⟩ := hAO.param_some hop.symm
    exact ⟨i, tn, e.2, c, P, hten, htn, hkey,
      .inserted cs hcs hc (by rw [← hAO.2.1]; exact hox) hq (by rw [← hAO.1]; exact hoc), hP, hidx⟩

end ParamsGraph
