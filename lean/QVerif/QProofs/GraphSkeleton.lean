import QModel.WF
/-!
# Local skeleton facts: what rewiring and op insertion can change
-/
open Graph Perform

namespace GraphSkeleton

/-- the part of an operator the quantizer never touches -/
def frame (o : Op) : Nat × List Int × Option Nat := (o.code, o.outputs, o.orig)

def retarget (t n : Int) (l : List Int) : List Int := l.map fun i => if i == t then n else i

theorem retarget_idem (t n : Int) (l : List Int) (h : n ≠ t) : retarget t n (retarget t n l) = retarget t n l := by
  unfold retarget
  rw [List.map_map]
  apply List.map_congr_left
  intro a _
  by_cases ha : a = t
  · subst ha; simp [h]
  · simp [ha]

/-- relation between an operator before and after rewiring: only operand slots equal to `t`
    may change, and only to `n` -/
def RewiredOp (t n : Int) (o o' : Op) : Prop :=
  frame o' = frame o ∧ (o'.inputs = o.inputs ∨ o'.inputs = retarget t n o.inputs)

theorem rewiredOp_refl (t n : Int) (o : Op) : RewiredOp t n o o := ⟨rfl, Or.inl rfl⟩

theorem rewire_step (ops : List Op) (c : Nat) (t n : Int) (hn : n ≠ t) (i : Nat) (o : Op)
    (base : List Op) (hbase : ∀ (i : Nat) o o', base[i]? = some o → ops[i]? = some o' → RewiredOp t n o o')
    (hlen : ops.length = base.length)
    (hi : base[i]? = some o) :
    ∃ o', (ops.modify c fun op => { op with inputs := op.inputs.map fun i => if i == t then n else i })[i]? = some o'
      ∧ RewiredOp t n o o' := by
  have hil : i < ops.length := by
    rw [hlen]; exact (List.getElem?_eq_some_iff.mp hi).1
  obtain ⟨o1, ho1⟩ : ∃ o1, ops[i]? = some o1 := ⟨ops[i], List.getElem?_eq_getElem hil⟩
  have hr := hbase i o o1 hi ho1
  by_cases hc : c = i
  · subst hc
    refine ⟨_, by rw [List.getElem?_modify_eq, ho1]; rfl, ?_⟩
    obtain ⟨hf, hin⟩ := hr
    refine ⟨by simpa [frame] using hf, ?_⟩
    right
    show retarget t n o1.inputs = retarget t n o.inputs
    rcases hin with h | h
    · rw [h]
    · rw [h, retarget_idem t n _ hn]
  · refine ⟨o1, by rw [List.getElem?_modify_ne _ _ hc]; exact ho1, hr⟩

/-- **rewiring changes nothing but the operand slots equal to `t` of the listed operators** -/
theorem rewire_spec (ops ops' : List Op) (cs : List Int) (t n : Int) (hn : n ≠ t)
    (h : rewire ops cs t n = .ok ops') :
    ops'.length = ops.length ∧ ∀ (i : Nat) o, ops[i]? = some o → ∃ o', ops'[i]? = some o' ∧ RewiredOp t n o o' := by
  unfold rewire at h
  -- generalise: invariant relative to a fixed base list
  suffices H : ∀ (cur : List Op), cur.length = ops.length →
      (∀ (i : Nat) o o', ops[i]? = some o → cur[i]? = some o' → RewiredOp t n o o') →
      ∀ res, cs.foldlM (fun ops c =>
        if c < 0 then pure ops
        else if c.toNat < ops.length then
          pure (ops.modify c.toNat fun op => { op with inputs := op.inputs.map fun i => if i == t then n else i })
        else throw PyErr.indexError) cur = Except.ok res →
      res.length = ops.length ∧ ∀ (i : Nat) o, ops[i]? = some o → ∃ o', res[i]? = some o' ∧ RewiredOp t n o o' by
    exact H ops rfl (fun i o o' h1 h2 => by rw [h1] at h2; cases h2; exact rewiredOp_refl t n o) ops' h
  clear h
  induction cs with
  | nil =>
    intro cur hlen hinv res hres
    simp only [List.foldlM_nil, pure, Except.pure] at hres
    cases hres
    refine ⟨hlen, fun i o ho => ?_⟩
    have hil : i < cur.length := by rw [hlen]; exact (List.getElem?_eq_some_iff.mp ho).1
    exact ⟨cur[i], List.getElem?_eq_getElem hil, hinv i o _ ho (List.getElem?_eq_getElem hil)⟩
  | cons c cs ih =>
    intro cur hlen hinv res hres
    simp only [List.foldlM_cons, bind, Except.bind] at hres
    by_cases hc : c < 0
    · simp only [hc, if_true, pure, Except.pure] at hres
      exact ih cur hlen hinv res hres
    · simp only [hc, if_false] at hres
      by_cases hr : c.toNat < cur.length
      · simp only [hr, if_true, pure, Except.pure] at hres
        refine ih _ (by simp [hlen]) ?_ res hres
        intro i o o' ho ho'
        obtain ⟨o'', h1, h2⟩ := rewire_step cur c.toNat t n hn i o ops hinv hlen ho
        rw [h1] at ho'; cases ho'; exact h2
      · simp only [hr, if_false] at hres
        cases hres

end GraphSkeleton
