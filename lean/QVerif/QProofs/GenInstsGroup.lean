import QProofs.GenInstsInfo
/-!
# Shape of `groupConsumers` when every consumer request has exactly one transformation

`groups_shape`: the groups have depth ≤ 2, `vertUnavail` is empty, and the depth-1 groups are
non-empty lists of valid indices, each group homogeneous in `(param, xfs)` and different groups
having different `(param, xfs)`.
-/
open Graph InstGen GenInstsInfo

namespace GenInstsGroup

/-- the grouping key of consumer `i` -/
def K (cs : List O2T) (i : Nat) : Option PId × List Xf :=
  ((cs.getD i default).param, (cs.getD i default).xfs)

structure GInv (cs : List O2T) (G : List (List Nat)) : Prop where
  ne : ∀ g ∈ G, g ≠ []
  lt : ∀ g ∈ G, ∀ i ∈ g, i < cs.length
  same : ∀ g ∈ G, ∀ i ∈ g, ∀ j ∈ g, K cs i = K cs j
  diff : G.Pairwise (fun g1 g2 => ∀ i ∈ g1, ∀ j ∈ g2, K cs i ≠ K cs j)

theorem getD_mem (cs : List O2T) (i : Nat) (h : i < cs.length) : cs.getD i default ∈ cs := by
  rw [List.getD_eq_getElem?_getD, List.getElem?_eq_getElem h]
  exact List.getElem_mem h

theorem horiz_iff (cs : List O2T) (hlen : ∀ c ∈ cs, c.xfs.length = 1) (i j : Nat)
    (hi : i < cs.length) (hj : j < cs.length) :
    horiz (cs.getD i default) (cs.getD j default) 0 = true ↔ K cs i = K cs j := by
  obtain ⟨x, hx⟩ := List.length_eq_one_iff.1 (hlen _ (getD_mem cs i hi))
  obtain ⟨y, hy⟩ := List.length_eq_one_iff.1 (hlen _ (getD_mem cs j hj))
  unfold horiz K
  rw [hx, hy]
  simp

theorem GInv_nil (cs : List O2T) : GInv cs [] :=
  ⟨by simp, by simp, by simp, List.Pairwise.nil⟩

theorem placeInto_spec (cs : List O2T) (hlen : ∀ c ∈ cs, c.xfs.length = 1) (ci : Nat)
    (hci : ci < cs.length) (G : List (List Nat)) (h : GInv cs G) :
    GInv cs (placeInto cs 0 (List.range cs.length) ci G) ∧
    ∀ g' ∈ placeInto cs 0 (List.range cs.length) ci G, ∀ j ∈ g', j = ci ∨ ∃ g ∈ G, j ∈ g := by
  induction G with
  | nil =>
    simp only [placeInto]
    refine ⟨⟨?_, ?_, ?_, ?_⟩, ?_⟩
    · intro g hg; rw [List.mem_singleton.1 hg]; simp
    · intro g hg i hi
      rw [List.mem_singleton.1 hg] at hi
      rw [List.mem_singleton.1 hi]; exact hci
    · intro g hg i hi j hj
      rw [List.mem_singleton.1 hg] at hi hj
      rw [List.mem_singleton.1 hi, List.mem_singleton.1 hj]
    · exact List.pairwise_singleton _ _
    · intro g hg j hj
      rw [List.mem_singleton.1 hg] at hj
      exact .inl (List.mem_singleton.1 hj)
  | cons ng rest ih =>
    have hrest : GInv cs rest :=
      ⟨fun g hg => h.ne g (List.mem_cons_of_mem _ hg), fun g hg => h.lt g (List.mem_cons_of_mem _ hg),
        fun g hg => h.same g (List.mem_cons_of_mem _ hg), (List.pairwise_cons.1 h.diff).2⟩
    obtain ⟨ihI, ihM⟩ := ih hrest
    have hdiff := (List.pairwise_cons.1 h.diff).1
    obtain ⟨idx, tl, rfl⟩ := List.exists_cons_of_ne_nil (h.ne _ List.mem_cons_self)
    have hidx : idx < cs.length := h.lt _ List.mem_cons_self idx List.mem_cons_self
    have hcont : (List.range cs.length).contains idx = true := by
      rw [List.contains_iff_mem]; exact List.mem_range.2 hidx
    by_cases hk : K cs idx = K cs ci
    · have hh : horiz (cs.getD idx default) (cs.getD ci default) 0 = true :=
        (horiz_iff cs hlen idx ci hidx hci).2 hk
      have hEq : placeInto cs 0 (List.range cs.length) ci ((idx :: tl) :: rest) =
          ((idx :: tl) ++ [ci]) :: rest := by
        simp only [placeInto, List.head?_cons, hcont, hh, Bool.and_self, if_true]
      rw [hEq]
      have hmem : ∀ j ∈ (idx :: tl) ++ [ci], j = ci ∨ j ∈ idx :: tl := by
        intro j hj
        rcases List.mem_append.1 hj with hj | hj
        · exact .inr hj
        · exact .inl (List.mem_singleton.1 hj)
      have hK : ∀ j ∈ (idx :: tl) ++ [ci], K cs j = K cs idx := by
        intro j hj
        rcases hmem j hj with rfl | hj
        · exact hk.symm
        · exact h.same _ List.mem_cons_self j hj idx List.mem_cons_self
      refine ⟨⟨?_, ?_, ?_, ?_⟩, ?_⟩
      · intro g hg
        rcases List.mem_cons.1 hg with rfl | hg
        · simp
        · exact hrest.ne g hg
      · intro g hg i hi
        rcases List.mem_cons.1 hg with rfl | hg
        · rcases hmem i hi with rfl | hi
          · exact hci
          · exact h.lt _ List.mem_cons_self i hi
        · exact hrest.lt g hg i hi
      · intro g hg i hi j hj
        rcases List.mem_cons.1 hg with rfl | hg
        · rw [hK i hi, hK j hj]
        · exact hrest.same g hg i hi j hj
      · refine List.pairwise_cons.2 ⟨?_, hrest.diff⟩
        intro g2 hg2 i hi j hj
        rw [hK i hi]
        exact hdiff g2 hg2 idx List.mem_cons_self j hj
      · intro g' hg' j hj
        rcases List.mem_cons.1 hg' with rfl | hg'
        · rcases hmem j hj with rfl | hj
          · exact .inl rfl
          · exact .inr ⟨_, List.mem_cons_self, hj⟩
        · exact .inr ⟨g', List.mem_cons_of_mem _ hg', hj⟩
    · have hh : horiz (cs.getD idx default) (cs.getD ci default) 0 = false := by
        rw [Bool.eq_false_iff]
        exact fun hh => hk ((horiz_iff cs hlen idx ci hidx hci).1 hh)
      have hEq : placeInto cs 0 (List.range cs.length) ci ((idx :: tl) :: rest) =
          (idx :: tl) :: placeInto cs 0 (List.range cs.length) ci rest := by
        simp only [placeInto, List.head?_cons, hcont, hh, Bool.and_false, Bool.false_eq_true, if_false]
      rw [hEq]
      refine ⟨⟨?_, ?_, ?_, ?_⟩, ?_⟩
      · intro g hg
        rcases List.mem_cons.1 hg with rfl | hg
        · simp
        · exact ihI.ne g hg
      · intro g hg i hi
        rcases List.mem_cons.1 hg with rfl | hg
        · exact h.lt _ List.mem_cons_self i hi
        · exact ihI.lt g hg i hi
      · intro g hg i hi j hj
        rcases List.mem_cons.1 hg with rfl | hg
        · exact h.same _ List.mem_cons_self i hi j hj
        · exact ihI.same g hg i hi j hj
      · refine List.pairwise_cons.2 ⟨?_, ihI.diff⟩
        intro g2 hg2 i hi j hj
        rcases ihM g2 hg2 j hj with rfl | ⟨g, hg, hjg⟩
        · rw [h.same _ List.mem_cons_self i hi idx List.mem_cons_self]
          exact hk
        · exact hdiff g hg i hi j hjg
      · intro g' hg' j hj
        rcases List.mem_cons.1 hg' with rfl | hg'
        · exact .inr ⟨_, List.mem_cons_self, hj⟩
        · rcases ihM g' hg' j hj with h1 | ⟨g, hg, hjg⟩
          · exact .inl h1
          · exact .inr ⟨g, List.mem_cons_of_mem _ hg, hjg⟩

theorem nextDepth_inv (cs : List O2T) (hlen : ∀ c ∈ cs, c.xfs.length = 1) :
    GInv cs (nextDepth cs 0 [List.range cs.length]) := by
  unfold nextDepth
  refine foldl_inv _ (GInv cs) _ _ ?_ (GInv_nil cs)
  intro ci hci acc hacc
  have hlt : ci < cs.length := List.mem_range.1 hci
  simp only [List.foldl_cons, List.foldl_nil]
  split
  · split
    · exact (placeInto_spec cs hlen ci hlt acc hacc).1
    · exact hacc
  · exact hacc

theorem longest_one (cs : List O2T) (hlen : ∀ c ∈ cs, c.xfs.length = 1) :
    cs.foldl (fun a c => max a c.xfs.length) 1 = 1 := by
  induction cs with
  | nil => rfl
  | cons c cs ih =>
    simp only [List.foldl_cons, hlen c List.mem_cons_self, Nat.max_self]
    exact ih (fun c hc => hlen c (List.mem_cons_of_mem _ hc))

theorem groupConsumers_cons (c : O2T) (cs' : List O2T) (hlen : ∀ x ∈ c :: cs', x.xfs.length = 1) :
    groupConsumers (some (c :: cs')) =
      [[List.range (c :: cs').length], nextDepth (c :: cs') 0 [List.range (c :: cs').length]] := by
  have hl : (c :: cs').foldl (fun a c => max a c.xfs.length) 0 = 1 := by
    simp only [List.foldl_cons, hlen c List.mem_cons_self, Nat.zero_max]
    exact longest_one cs' (fun x hx => hlen x (List.mem_cons_of_mem _ hx))
  simp only [groupConsumers, hl]
  rfl

/-- the closed shape of the consumer-side instructions -/
theorem groups_shape (cons : Option (List O2T)) (info : TInfo)
    (hlen : ∀ cs, cons = some cs → ∀ c ∈ cs, c.xfs.length = 1) :
    vertUnavail (groupConsumers cons) (cons.getD []) info = [] ∧
    ∃ G, GInv (cons.getD []) G ∧
      vertAvail (groupConsumers cons) (cons.getD []) info = G.map (instOfGroup (cons.getD []) info 0) := by
  cases cons with
  | none => exact ⟨rfl, [], GInv_nil _, rfl⟩
  | some cs =>
    cases cs with
    | nil => exact ⟨rfl, [], GInv_nil _, rfl⟩
    | cons c cs' =>
      have hl := hlen _ rfl
      rw [groupConsumers_cons c cs' hl]
      exact ⟨rfl, _, nextDepth_inv _ hl, rfl⟩

end GenInstsGroup
