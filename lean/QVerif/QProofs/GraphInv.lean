import QProofs.GraphFrame
/-!
# The whole `transform_graph` preserves well-formedness (C01 on the graph stage)

Instructions are expressed in ORIGINAL operator ids; the performer translates them through
its op-id map, which the proof shows to be the correct position map at every step.
-/
open Graph Perform GraphStep GraphFrame

namespace GraphInv

/-- instruction `ins` (in original op ids) is consistent with the ORIGINAL subgraph `sg` of `m` -/
structure InstOK (pt : PTable) (m : Model) (sg : Subgraph) (ins : Inst) : Prop where
  notEmulated : ins.xf ≠ .emulated
  tvalid : WF.validT sg ins.tensor = true
  prodRange : -1 ≤ ins.producer ∧ ins.producer < sg.ops.length
  tavail : WF.avail m sg (ins.producer + 1).toNat ins.tensor = true
  consAfter : ∀ c ∈ ins.consumers, c < 0 ∨ (ins.producer < c ∧ c < sg.ops.length)
  dataConst : ∀ p pi, ins.param = some p → pinfo pt p = some pi → pi.hasData = true →
    isConst m sg ins.tensor = true

/-- no chains: an op-adding instruction shares no consumer (not even the graph-output marker -1)
    with a later instruction of the same tensor, so `_update_instructions` never rewrites anything -/
def NoChain (insts : List Inst) : Prop :=
  ∀ (i j : Nat) (a b : Inst), i < j → insts[i]? = some a → insts[j]? = some b →
    (a.xf = .addQuant ∨ a.xf = .addDequant) → ∀ c ∈ b.consumers, c ∉ a.consumers

structure TInstsOK (pt : PTable) (m : Model) (ti : TInsts) : Prop where
  insts : ∃ sg, m.subgraphs[ti.sg]? = some sg ∧ ∀ ins ∈ ti.insts, InstOK pt m sg ins
  noChain : NoChain ti.insts

/-! ## signatures -/

theorem modelOK_updateSigs (m : Model) (sgi : Nat) (sg : Subgraph) (before : List Int)
    (hsg : m.subgraphs[sgi]? = some sg) (hwf : WF.modelOK m = true) :
    WF.modelOK { m with sigs := updateSigs m.sigs sgi before sg.outputs } = true := by
  rw [modelOK_iff] at *
  obtain ⟨h0, h1, h2⟩ := hwf
  have hsgok := h1 sg (List.mem_of_getElem? hsg)
  refine ⟨h0, fun x hx => SgOK_congr m _ x x rfl (fun _ => rfl) (Nat.le_refl _) rfl rfl rfl rfl rfl (h1 x hx), ?_⟩
  intro s hs
  show WF.sigOK m s = true
  simp only at hs
  unfold updateSigs at hs
  simp only at hs
  split at hs
  · exact h2 s hs
  · obtain ⟨s0, hs0, rfl⟩ := List.mem_map.1 hs
    have h20 := h2 s0 hs0
    split
    · exact h20
    · rename_i hne
      have heq : s0.sg = sgi := by simpa using hne
      unfold WF.sigOK at h20 ⊢
      simp only [heq, hsg] at h20 ⊢
      simp only [Bool.and_eq_true, List.all_eq_true] at h20 ⊢
      refine ⟨h20.1, ?_⟩
      intro e he
      obtain ⟨e0, he0, rfl⟩ := List.mem_map.1 he
      split
      · rename_i p hp
        have hmem := List.mem_of_find?_eq_some hp
        rw [List.mem_reverse] at hmem
        have hz := (List.mem_filter.1 hmem).1
        have := (List.of_mem_zip (a := p.1) (b := p.2) hz).2
        exact (validT_iff _ _).2 (hsgok.outs _ this)
      · exact h20.2 e0 he0

/-! ## the invariant -/

/-- relation between an ORIGINAL subgraph `sg0` (of `m0`) and its current version `sg` (of `m`)
    through the op-id map `om` -/
structure SgInv (m0 : Model) (sg0 : Subgraph) (m : Model) (sg : Subgraph) (om : List Int) : Prop where
  len : om.length = sg0.ops.length
  mono : Mono om
  outs : ∀ (j : Nat) (a : Int) (o0 : Op), om[j]? = some a → sg0.ops[j]? = some o0 →
    0 ≤ a ∧ ∃ o, sg.ops[a.toNat]? = some o ∧ o.outputs = o0.outputs
  inputs : sg.inputs = sg0.inputs
  tlen : sg0.tensors.length ≤ sg.tensors.length
  const : ∀ t, isConst m0 sg0 t = true → isConst m sg t = true

structure Inv (m0 : Model) (st : PState) : Prop where
  wf : WF.modelOK st.model = true
  nsg : st.model.subgraphs.length = m0.subgraphs.length
  nom : st.origMap.length = m0.subgraphs.length
  nam : st.addedMap.length = m0.subgraphs.length
  sg : ∀ (s : Nat) (sg0 sg : Subgraph) (om : List Int), m0.subgraphs[s]? = some sg0 →
    st.model.subgraphs[s]? = some sg → st.origMap[s]? = some om → SgInv m0 sg0 st.model sg om

theorem range_map_get (n j : Nat) (a : Int)
    (h : ((List.range n).map (fun (i : Nat) => (i : Int)))[j]? = some a) : j < n ∧ a = j := by
  have hj : j < n := by
    have := (List.getElem?_eq_some_iff.1 h).1
    simpa using this
  rw [List.getElem?_map, List.getElem?_range hj] at h
  simp at h
  exact ⟨hj, h.symm⟩

theorem inv_init (m : Model) (hwf : WF.modelOK m = true) :
    Inv m { model := m,
            origMap := m.subgraphs.map (fun sg => (List.range sg.ops.length).map (fun (i : Nat) => (i : Int))),
            addedMap := m.subgraphs.map (fun _ => []) } := by
  refine ⟨hwf, rfl, by simp, by simp, ?_⟩
  intro s sg0 sg om h0 h1 h2
  simp only at h1 h2
  rw [h0] at h1; cases h1
  rw [List.getElem?_map, h0] at h2
  simp only [Option.map_some, Option.some.injEq] at h2
  subst h2
  refine ⟨by simp, ?_, ?_, rfl, Nat.le_refl _, fun _ h => h⟩
  · intro i j a b hij ha hb
    obtain ⟨_, rfl⟩ := range_map_get _ _ _ ha
    obtain ⟨_, rfl⟩ := range_map_get _ _ _ hb
    omega
  · intro j a o0 ha ho
    obtain ⟨_, rfl⟩ := range_map_get _ _ _ ha
    exact ⟨by omega, o0, by simpa using ho, rfl⟩

/-! ## one instruction -/

theorem bind_ok {α β} (x : PyM α) (f : α → PyM β) (b : β) (h : (x >>= f) = .ok b) :
    ∃ a, x = .ok a ∧ f a = .ok b := by
  cases x with
  | error e => cases h
  | ok a => exact ⟨a, rfl, h⟩

theorem pure_bind_ok {α β} (a : α) (f : α → PyM β) (b : β) (h : (pure a >>= f) = .ok b) :
    f a = .ok b := h

theorem ite3_bind_ok {α β} (c1 c2 : Prop) [Decidable c1] [Decidable c2] (x y z : PyM α) (f : α → PyM β)
    (b : β) (h : (if c1 then x >>= f else if c2 then y >>= f else z >>= f) = .ok b) :
    ∃ a, (if c1 then x else if c2 then y else z) = .ok a ∧ f a = .ok b := by
  by_cases h1 : c1
  · simp only [h1, if_true] at h ⊢; exact bind_ok _ _ _ h
  · by_cases h2 : c2
    · simp only [h1, h2, if_true, if_false] at h ⊢; exact bind_ok _ _ _ h
    · simp only [h1, h2, if_false] at h ⊢; exact bind_ok _ _ _ h

/-- translation of the producer id -/
def xlatProducer (ins : Inst) (om am : List Int) : PyM Int :=
  if ins.producer < 0 then pure (-1 : Int)
  else if ins.producer < om.length then Py.index om ins.producer
  else Py.index am (ins.producer - om.length)

/-- the registered transformations -/
def runXf (pt : PTable) (m : Model) (sgi : Nat) (x : Xf) (inp : TIn) : PyM (Model × TInfoOut) :=
  match x with
  | .addDequant => insertDequant pt m sgi inp
  | .quantTensor => quantizeOnly pt m sgi inp
  | .addQuant => insertQuant pt m sgi inp
  | .emulated => throw .unsupported
  | .noQuant => throw .keyError

/-- `applySingle` taken apart -/
theorem applySingle_spec (pt : PTable) (st st' : PState) (ti ti' : TInsts) (idx : Nat)
    (ins : Inst) (om am : List Int) (sgc : Subgraph)
    (hins : ti.insts[idx]? = some ins) (hom : st.origMap[ti.sg]? = some om)
    (ham : st.addedMap[ti.sg]? = some am) (hsgc : st.model.subgraphs[ti.sg]? = some sgc)
    (h : applySingle pt st ti idx = .ok (st', ti')) :
    ∃ producer consumers m' info sgAfter am' newProd,
      xlatProducer ins om am = .ok producer ∧
      ins.consumers.mapM (fun c => if c < 0 then pure (-1 : Int) else Py.index om c) = .ok consumers ∧
      runXf pt st.model ti.sg ins.xf ⟨ins.tensor, producer, consumers, ins.param⟩ = .ok (m', info) ∧
      m'.subgraphs[ti.sg]? = some sgAfter ∧
      st' = { model := { m' with sigs := updateSigs m'.sigs ti.sg sgc.outputs sgAfter.outputs },
              origMap := st.origMap.set ti.sg (shiftMap om info.opId info.added),
              addedMap := st.addedMap.set ti.sg am' } ∧
      ti' = { ti with insts := if info.added = 0 then ti.insts else
                ti.insts.take (idx + 1) ++
                  updateInsts (ti.insts.drop (idx + 1)) ins.consumers newProd info.outTensor } := by
  unfold applySingle at h
  simp only [hins, hom, ham, hsgc] at h
  replace h := pure_bind_ok _ _ _ h
  replace h := pure_bind_ok _ _ _ h
  replace h := pure_bind_ok _ _ _ h
  obtain ⟨producer, hprod, h⟩ := ite3_bind_ok _ _ _ _ _ _ _ h
  obtain ⟨consumers, hcons, h⟩ := bind_ok _ _ _ h
  replace h := pure_bind_ok _ _ _ h
  have hx : ∃ r, runXf pt st.model ti.sg ins.xf ⟨ins.tensor, producer, consumers, ins.param⟩ = .ok r ∧
      (match r.1.subgraphs[ti.sg]? with
        | some s => pure s
        | none => throw PyErr.indexError) >>= (fun sgAfter => 
          (pure ((⟨⟨r.1.subgraphs, r.1.buffers, r.1.opcodes, updateSigs r.1.sigs ti.sg sgc.outputs sgAfter.outputs⟩,
              st.origMap.set ti.sg (shiftMap om r.2.opId r.2.added),
              st.addedMap.set ti.sg (if r.2.added = 0 then (am, ti.insts)
                                else
                                  (am ++ [r.2.opId + ↑r.2.added - 1],
                                    List.take (idx + 1) ti.insts ++
                                      updateInsts (List.drop (idx + 1) ti.insts) ins.consumers
                                        (↑om.length + ↑(am ++ [r.2.opId + ↑r.2.added - 1]).length - 1)
                                        r.2.outTensor)).1⟩ : PState),
              (⟨ti.name, ti.sg, (if r.2.added = 0 then (am, ti.insts)
                                else
                                  (am ++ [r.2.opId + ↑r.2.added - 1],
                                    List.take (idx + 1) ti.insts ++
                                      updateInsts (List.drop (idx + 1) ti.insts) ins.consumers
                                        (↑om.length + ↑(am ++ [r.2.opId + ↑r.2.added - 1]).length - 1)
                                        r.2.outTensor)).2⟩ : TInsts)) : PyM (PState × TInsts))) = .ok (st', ti') := by
    unfold runXf
    cases hxf : ins.xf <;> simp only [hxf] at h ⊢ <;> obtain ⟨r, hr, h⟩ := bind_ok _ _ _ h <;>
      refine ⟨r, hr, ?_⟩ <;> cases hs : r.1.subgraphs[ti.sg]? <;> simp only [hs] at h ⊢ <;> exact h
  clear h
  obtain ⟨r, hr, h⟩ := hx
  obtain ⟨sgAfter, hs, h⟩ := bind_ok _ _ _ h
  cases hsa : r.1.subgraphs[ti.sg]? with
  | none => rw [hsa] at hs; cases hs
  | some s =>
    rw [hsa] at hs
    cases hs
    simp only [pure, Except.pure, Except.ok.injEq, Prod.mk.injEq] at h
    obtain ⟨h1, h2⟩ := h
    refine ⟨producer, consumers, r.1, r.2, _, _, ((om.length : Int) + ((am ++ [r.2.opId + (r.2.added : Int) - 1]).length : Int) - 1), hprod, hcons, hr, hsa, h1.symm, ?_⟩
    rw [← h2]
    congr 1
    split <;> rfl

/-! ## consequences of the invariant -/

theorem SgInv.pos {m0 : Model} {sg0 : Subgraph} {m : Model} {sg : Subgraph} {om : List Int}
    (I : SgInv m0 sg0 m sg om) (j : Nat) (a : Int) (h : om[j]? = some a) :
    0 ≤ a ∧ a < sg.ops.length := by
  have hj : j < sg0.ops.length := by rw [← I.len]; exact (List.getElem?_eq_some_iff.1 h).1
  obtain ⟨h0, o, ho, -⟩ := I.outs j a _ h (List.getElem?_eq_getElem hj)
  have := (List.getElem?_eq_some_iff.1 ho).1
  omega

/-- availability right after original position `p` transfers to the current graph right after the
    current position `a` of that operator -/
theorem SgInv.avail {m0 : Model} {sg0 : Subgraph} {m : Model} {sg : Subgraph} {om : List Int}
    (I : SgInv m0 sg0 m sg om) (p a t : Int)
    (hp : (p < 0 ∧ a = -1) ∨ (0 ≤ p ∧ om[p.toNat]? = some a))
    (h : Avail m0 sg0 (p + 1).toNat t) : Avail m sg (a + 1).toNat t := by
  rcases h with h | h | h
  · exact .inl (by rw [I.inputs]; exact h)
  · exact .inr (.inl (I.const t h))
  · obtain ⟨j, o0, hj, ho0, ht⟩ := h
    rcases hp with ⟨hp, rfl⟩ | ⟨hp, ha⟩
    · omega
    · have hjl : j < om.length := by rw [I.len]; exact (List.getElem?_eq_some_iff.1 ho0).1
      obtain ⟨hb0, o, ho, hout⟩ := I.outs j _ o0 (List.getElem?_eq_getElem hjl) ho0
      have hle : om[j] ≤ a := by
        by_cases hjp : j = p.toNat
        · subst hjp
          rw [List.getElem?_eq_getElem hjl] at ha
          cases ha; exact Int.le_refl _
        · have := I.mono j p.toNat _ _ (by omega) (List.getElem?_eq_getElem hjl) ha
          omega
      exact .inr (.inr ⟨om[j].toNat, o, by omega, ho, hout ▸ ht⟩)

theorem xlatProducer_spec (ins : Inst) (om am : List Int) (producer : Int)
    (hr : -1 ≤ ins.producer ∧ ins.producer < om.length)
    (h : xlatProducer ins om am = .ok producer) :
    (ins.producer < 0 ∧ producer = -1) ∨ (0 ≤ ins.producer ∧ om[ins.producer.toNat]? = some producer) := by
  unfold xlatProducer at h
  by_cases h0 : ins.producer < 0
  · rw [if_pos h0] at h
    cases h
    exact .inl ⟨h0, rfl⟩
  · rw [if_neg h0, if_pos hr.2] at h
    exact .inr ⟨by omega, index_ok _ _ _ (by omega) h⟩

/-- the translated transformation input is consistent with the CURRENT graph -/
theorem inpOK_of_inv (pt : PTable) (m0 : Model) (sg0 : Subgraph) (m : Model) (sg : Subgraph)
    (om am : List Int) (ins : Inst) (producer : Int) (consumers : List Int)
    (I : SgInv m0 sg0 m sg om) (hok : InstOK pt m0 sg0 ins)
    (hprod : xlatProducer ins om am = .ok producer)
    (hcons : ins.consumers.mapM (fun c => if c < 0 then pure (-1 : Int) else Py.index om c) = .ok consumers) :
    InpOK pt m sg ⟨ins.tensor, producer, consumers, ins.param⟩ := by
  have hp := xlatProducer_spec ins om am producer (by rw [I.len]; exact hok.prodRange) hprod
  have hpr : -1 ≤ producer ∧ producer < sg.ops.length := by
    rcases hp with ⟨_, rfl⟩ | ⟨_, ha⟩
    · omega
    · have := I.pos _ _ ha; omega
  refine ⟨?_, hpr, ?_, ?_, ?_⟩
  · have hv := (validT_iff _ _).1 hok.tvalid
    rw [validT_iff]
    have hl := I.tlen
    unfold ValidT at hv ⊢
    show 0 ≤ ins.tensor ∧ ins.tensor < sg.tensors.length
    omega
  · rw [avail_iff]
    exact I.avail _ _ _ hp ((avail_iff _ _ _ _).1 hok.tavail)
  · intro c' hc'
    obtain ⟨c, hc, hfc⟩ := mapM_ok _ _ _ hcons c' hc'
    by_cases hc0 : c < 0
    · rw [if_pos hc0] at hfc
      cases hfc
      exact .inl (by omega)
    · rw [if_neg hc0] at hfc
      have hget := index_ok _ _ _ (by omega) hfc
      have hpos := I.pos _ _ hget
      right
      refine ⟨?_, hpos.2⟩
      show producer < c'
      rcases hp with ⟨_, rfl⟩ | ⟨hp0, ha⟩
      · omega
      · rcases hok.consAfter c hc with h1 | h1
        · omega
        · exact I.mono _ _ _ _ (by omega) ha hget
  · intro p pi h1 h2 h3
    exact I.const _ (hok.dataConst p pi h1 h2 h3)

theorem quantizeOnly_added (pt : PTable) (m m' : Model) (sgi : Nat) (inp : TIn) (info : TInfoOut)
    (h : quantizeOnly pt m sgi inp = .ok (m', info)) : info.added = 0 := by
  unfold quantizeOnly at h
  cases hs : m.subgraphs[sgi]? with
  | none =>
    simp only [hs] at h
    obtain ⟨_, e, _⟩ := bind_ok _ _ _ h
    cases e
  | some sg =>
    simp only [hs] at h
    replace h := pure_bind_ok _ _ _ h
    obtain ⟨r, _, h⟩ := bind_ok _ _ _ h
    simp only [pure, Except.pure, Except.ok.injEq, Prod.mk.injEq] at h
    rw [← h.2]

theorem runXf_ok (pt : PTable) (m m' : Model) (sgi : Nat) (sg : Subgraph) (x : Xf) (inp : TIn)
    (info : TInfoOut) (hsg : m.subgraphs[sgi]? = some sg) (hwf : WF.modelOK m = true)
    (hinp : InpOK pt m sg inp) (h : runXf pt m sgi x inp = .ok (m', info)) :
    WF.modelOK m' = true ∧ (∃ sg', Frame m m' sgi sg sg' info) ∧
      (info.added ≠ 0 → x = .addQuant ∨ x = .addDequant) := by
  unfold runXf at h
  cases x <;> simp only at h
  · cases h
  · exact ⟨insertQuant_ok pt m m' sgi sg inp info hsg hwf hinp h,
      insertQuant_frame pt m m' sgi sg inp info hsg hinp h, fun _ => .inl rfl⟩
  · exact ⟨insertDequant_ok pt m m' sgi sg inp info hsg hwf hinp h,
      insertDequant_frame pt m m' sgi sg inp info hsg hinp h, fun _ => .inr rfl⟩
  · exact ⟨quantizeOnly_ok pt m m' sgi sg inp info hsg hwf hinp h,
      quantizeOnly_frame pt m m' sgi sg inp info hsg hinp h,
      fun hne => absurd (quantizeOnly_added pt m m' sgi inp info h) hne⟩
  · cases h

/-- under `NoChain`, `_update_instructions` changes nothing -/
theorem updateInsts_noChain (insts : List Inst) (idx : Nat) (ins : Inst) (newProd newT : Int)
    (hnc : NoChain insts) (hins : insts[idx]? = some ins)
    (hxf : ins.xf = .addQuant ∨ ins.xf = .addDequant) :
    insts.take (idx + 1) ++ updateInsts (insts.drop (idx + 1)) ins.consumers newProd newT = insts := by
  have : updateInsts (insts.drop (idx + 1)) ins.consumers newProd newT = insts.drop (idx + 1) := by
    unfold updateInsts
    conv => rhs; rw [← List.map_id (insts.drop (idx + 1))]
    apply List.map_congr_left
    intro t ht
    obtain ⟨k, hk, rfl⟩ := List.mem_drop_iff_getElem.1 ht
    have hnone := hnc idx (idx + 1 + k) ins _ (by omega) hins (List.getElem?_eq_getElem (by omega)) hxf
    rw [if_neg]
    · rfl
    · simp only [List.any_eq_true, memI_iff, not_exists, not_and]
      exact hnone
  rw [this, List.take_append_drop]

/-! ## one instruction -/

theorem shift_lt (a b opId : Int) (added : Nat) (h : a < b) :
    (if a ≥ opId then a + (added : Int) else a) < (if b ≥ opId then b + (added : Int) else b) := by
  split <;> split <;> omega

theorem SgInv_step (m0 : Model) (sg0 : Subgraph) (m m' : Model) (sgi : Nat) (sg sg' : Subgraph)
    (om : List Int) (info : TInfoOut) (sigs : List Sig)
    (I : SgInv m0 sg0 m sg om) (F : Frame m m' sgi sg sg' info) :
    SgInv m0 sg0 { m' with sigs := sigs } sg' (shiftMap om info.opId info.added) := by
  have hget : ∀ (j : Nat) (a : Int), (shiftMap om info.opId info.added)[j]? = some a →
      ∃ a0, om[j]? = some a0 ∧ a = (if a0 ≥ info.opId then a0 + (info.added : Int) else a0) := by
    intro j a h
    have hj : j < om.length := by
      rw [← shiftMap_length om info.opId info.added]; exact (List.getElem?_eq_some_iff.1 h).1
    refine ⟨om[j], List.getElem?_eq_getElem hj, ?_⟩
    rw [shiftMap_get om info.opId info.added I.mono j _ (List.getElem?_eq_getElem hj)] at h
    cases h; rfl
  refine ⟨by rw [shiftMap_length]; exact I.len, ?_, ?_, by rw [F.inputs, I.inputs],
    Nat.le_trans I.tlen F.tlen, ?_⟩
  · intro i j a b hij ha hb
    obtain ⟨a0, ha0, rfl⟩ := hget i a ha
    obtain ⟨b0, hb0, rfl⟩ := hget j b hb
    exact shift_lt _ _ _ _ (I.mono i j a0 b0 hij ha0 hb0)
  · intro j a o0 ha ho0
    obtain ⟨a0, ha0, rfl⟩ := hget j a ha
    obtain ⟨h0, o, ho, hout⟩ := I.outs j a0 o0 ha0 ho0
    rcases F.ops with ⟨hadd, hops⟩ | ⟨hadd, hid, -, hops⟩
    · rw [hadd, hops]
      have e0 : ((0 : Nat) : Int) = 0 := rfl
      simp only [e0, Int.add_zero, ite_self]
      exact ⟨h0, o, ho, hout⟩
    · obtain ⟨o', ho', hout'⟩ := hops a0.toNat o ho
      rw [hadd]
      refine ⟨by split <;> omega, o', ?_, hout'.trans hout⟩
      rw [← ho']
      congr 1
      split <;> split <;> omega
  · intro t ht
    have h1 := I.const t ht
    have hv := isConst_valid _ _ _ h1
    rw [← h1]
    apply isConst_congr _ _ _ _ _ F.cst
    unfold ValidT at hv
    exact F.tbuf t.toNat (by omega)

theorem applySingle_inv (pt : PTable) (m0 : Model) (st st' : PState) (ti ti' : TInsts) (idx : Nat)
    (sg0 : Subgraph) (ins : Inst)
    (hinv : Inv m0 st) (hsg0 : m0.subgraphs[ti.sg]? = some sg0) (hins : ti.insts[idx]? = some ins)
    (hok : InstOK pt m0 sg0 ins) (hnc : NoChain ti.insts)
    (h : applySingle pt st ti idx = .ok (st', ti')) : Inv m0 st' ∧ ti' = ti := by
  have hlt : ti.sg < m0.subgraphs.length := (List.getElem?_eq_some_iff.1 hsg0).1
  obtain ⟨om, hom⟩ : ∃ om, st.origMap[ti.sg]? = some om :=
    ⟨_, List.getElem?_eq_getElem (by rw [hinv.nom]; exact hlt)⟩
  obtain ⟨am, ham⟩ : ∃ am, st.addedMap[ti.sg]? = some am :=
    ⟨_, List.getElem?_eq_getElem (by rw [hinv.nam]; exact hlt)⟩
  obtain ⟨sgc, hsgc⟩ : ∃ sgc, st.model.subgraphs[ti.sg]? = some sgc :=
    ⟨_, List.getElem?_eq_getElem (by rw [hinv.nsg]; exact hlt)⟩
  have I := hinv.sg _ _ _ _ hsg0 hsgc hom
  obtain ⟨producer, consumers, m', info, sgAfter, am', newProd, hprod, hcons, hrun, hsa, rfl, rfl⟩ :=
    applySingle_spec pt st st' ti ti' idx ins om am sgc hins hom ham hsgc h
  have hinp := inpOK_of_inv pt m0 sg0 st.model sgc om am ins producer consumers I hok hprod hcons
  obtain ⟨hwf', ⟨sg', F⟩, hadd⟩ := runXf_ok pt st.model m' ti.sg sgc ins.xf _ info hsgc hinv.wf hinp hrun
  have hlt' : ti.sg < st.model.subgraphs.length := by rw [hinv.nsg]; exact hlt
  have hsg' : sgAfter = sg' := by
    rw [F.subs, List.getElem?_set_self hlt'] at hsa
    cases hsa; rfl
  subst hsg'
  constructor
  · refine ⟨modelOK_updateSigs m' ti.sg sgAfter _ hsa hwf', ?_, ?_, ?_, ?_⟩
    · show m'.subgraphs.length = _
      rw [F.subs, List.length_set]; exact hinv.nsg
    · show (st.origMap.set _ _).length = _
      rw [List.length_set]; exact hinv.nom
    · show (st.addedMap.set _ _).length = _
      rw [List.length_set]; exact hinv.nam
    · intro s sg0s sgs oms h0 h1 h2
      simp only at h1 h2
      by_cases hs : ti.sg = s
      · subst hs
        rw [hsg0] at h0; cases h0
        rw [hsa] at h1; cases h1
        rw [List.getElem?_set_self (by rw [hinv.nom]; exact hlt)] at h2
        cases h2
        exact SgInv_step m0 sg0 st.model m' ti.sg sgc sgAfter om info _ I F
      · rw [F.subs, List.getElem?_set_ne hs] at h1
        rw [List.getElem?_set_ne hs] at h2
        have J := hinv.sg s sg0s sgs oms h0 h1 h2
        refine ⟨J.len, J.mono, J.outs, J.inputs, J.tlen, ?_⟩
        intro t ht
        rw [← J.const t ht]
        exact isConst_congr _ _ _ _ _ F.cst rfl
  · by_cases h0 : info.added = 0
    · rw [if_pos h0]
    · rw [if_neg h0, updateInsts_noChain ti.insts idx ins _ _ hnc hins (hadd h0)]

/-! ## all instructions of one tensor, all tensors -/

theorem applyAll_inv (pt : PTable) (m0 : Model) (st st' : PState) (ti : TInsts)
    (hinv : Inv m0 st) (hok : TInstsOK pt m0 ti)
    (h : applyAll pt st ti = .ok st') : Inv m0 st' := by
  obtain ⟨sg0, hsg0, hall⟩ := hok.insts
  unfold applyAll at h
  simp only at h
  obtain ⟨cur, hloop, h⟩ := bind_ok _ _ _ h
  have hP : Inv m0 cur.1 ∧ cur.2 = ti := by
    refine forIn_inv _ (fun c => Inv m0 c.1 ∧ c.2 = ti) _ (st, ti) cur ⟨hinv, rfl⟩ ?_ hloop
    rintro idx - ⟨s, t⟩ s' ⟨hI, ht⟩ hf
    simp only at hI ht hf
    subst ht
    cases hi : t.insts[idx]? with
    | none =>
      simp only [hi] at hf
      cases hf
      exact ⟨hI, rfl⟩
    | some i =>
      simp only [hi] at hf
      split at hf
      · obtain ⟨c, hc, hf⟩ := bind_ok _ _ _ hf
        cases hf
        obtain ⟨c1, c2⟩ := c
        exact applySingle_inv pt m0 s c1 t c2 idx sg0 i hI hsg0 hi (hall i (List.mem_of_getElem? hi))
          hok.noChain hc
      · cases hf
        exact ⟨hI, rfl⟩
  split at h
  · obtain ⟨_, e, _⟩ := bind_ok _ _ _ h
    cases e
  · cases h
    exact hP.1

/-- **every graph produced by the transformation performer is well-formed** -/
theorem transformGraph_ok (pt : PTable) (m m' : Model) (tis : List TInsts)
    (hwf : WF.modelOK m = true) (hok : ∀ ti ∈ tis, TInstsOK pt m ti)
    (h : transformGraph pt m tis = .ok m') : WF.modelOK m' = true := by
  unfold transformGraph at h
  simp only at h
  obtain ⟨st, hfold, h⟩ := bind_ok _ _ _ h
  cases h
  have hI : Inv m st := foldlM_inv (applyAll pt) (Inv m) tis _ st (inv_init m hwf)
    (fun ti hti s s' hs hf => applyAll_inv pt m s s' ti hs (hok ti hti) hf) hfold
  exact hI.wf

end GraphInv
