import Mathlib.Tactic.Linarith
import Mathlib.Tactic.Positivity
import Mathlib.Tactic.FieldSimp
import Mathlib.Data.Rat.Floor
import Mathlib.Tactic.Push
import QModel.Num
/-!
# The model's rounding operator satisfies the standard model of floating point
-/
open Num

namespace Rounding

theorem floor_le' (x : Rat) : ((x.floor : Int) : Rat) ≤ x := Int.floor_le x
theorem lt_floor_add_one' (x : Rat) : x < ((x.floor : Int) : Rat) + 1 := Int.lt_floor_add_one x

/-- `np.rint` is within one half of its argument -/
theorem rhe_err (x : Rat) : |((rhe x : Int) : Rat) - x| ≤ 1/2 := by
  have h1 := floor_le' x
  have h2 := lt_floor_add_one' x
  unfold rhe
  simp only []
  split_ifs <;> rw [abs_le] <;> constructor <;> push_cast <;> linarith

/-- `rhe` is monotone -/
theorem rhe_mono {x y : Rat} (h : x ≤ y) : rhe x ≤ rhe y := by
  have hx1 := floor_le' x
  have hx2 := lt_floor_add_one' x
  have hy1 := floor_le' y
  have hy2 := lt_floor_add_one' y
  have hfl : x.floor ≤ y.floor := Int.floor_le_floor h
  unfold rhe
  simp only []
  by_cases hlt : x.floor < y.floor
  · -- floors differ: rhe x ≤ floor x + 1 ≤ floor y ≤ rhe y
    split_ifs <;> omega
  · have heq : x.floor = y.floor := le_antisymm hfl (not_lt.mp hlt)
    rw [heq] at hx1 hx2 ⊢
    split_ifs <;> first | omega | (exfalso; linarith)

/-- `rhe` is exact on integers -/
theorem rhe_int (z : Int) : rhe (z : Rat) = z := by
  unfold rhe
  simp [Int.floor_intCast]

theorem flog2_spec (x : Rat) (hx : 0 < x) :
    (2:Rat)^(flog2 x) ≤ x ∧ x < (2:Rat)^(flog2 x + 1) := by
  have hnum : 0 < x.num := Rat.num_pos.mpr hx
  set n := x.num.toNat with hn
  have hn0 : n ≠ 0 := by omega
  have hnn : (n : Int) = x.num := by omega
  have hd0 : x.den ≠ 0 := x.den_nz
  have h1 : 2 ^ n.log2 ≤ n := Nat.log2_self_le hn0
  have h2 : n < 2 ^ (n.log2 + 1) := Nat.lt_log2_self
  have h3 : 2 ^ x.den.log2 ≤ x.den := Nat.log2_self_le hd0
  have h4 : x.den < 2 ^ (x.den.log2 + 1) := Nat.lt_log2_self
  have hdpos : (0:Rat) < x.den := by exact_mod_cast Nat.pos_of_ne_zero hd0
  have key : x * (x.den:Rat) = (n:Rat) := by
    have h := Rat.mul_den_eq_num x
    rw [h]; exact_mod_cast hnn.symm
  have h1' : ((2:Rat) ^ n.log2) ≤ n := by exact_mod_cast h1
  have h2' : (n:Rat) < (2:Rat) ^ (n.log2 + 1) := by exact_mod_cast h2
  have h3' : ((2:Rat) ^ x.den.log2) ≤ x.den := by exact_mod_cast h3
  have h4' : (x.den:Rat) < (2:Rat) ^ (x.den.log2 + 1) := by exact_mod_cast h4
  have p1 : (0:Rat) < (2:Rat)^(((n.log2:Int) - (x.den.log2:Int)) - 1) := zpow_pos (by norm_num) _
  have p2 : (0:Rat) < (2:Rat)^(((n.log2:Int) - (x.den.log2:Int)) + 1) := zpow_pos (by norm_num) _
  have lo : (2:Rat)^(((n.log2:Int) - (x.den.log2:Int)) - 1) < x := by
    have e : (2:Rat)^(((n.log2:Int) - (x.den.log2:Int)) - 1) * (2:Rat)^(x.den.log2 + 1) = (2:Rat)^n.log2 := by
      rw [← zpow_natCast, ← zpow_natCast, ← zpow_add₀ (by norm_num)]; congr 1; push_cast; ring
    have : (2:Rat)^(((n.log2:Int) - (x.den.log2:Int)) - 1) * (x.den:Rat) < x * (x.den:Rat) := by
      calc (2:Rat)^(((n.log2:Int) - (x.den.log2:Int)) - 1) * (x.den:Rat)
          < (2:Rat)^(((n.log2:Int) - (x.den.log2:Int)) - 1) * (2:Rat)^(x.den.log2 + 1) :=
            mul_lt_mul_of_pos_left h4' p1
        _ = (2:Rat)^n.log2 := e
        _ ≤ n := h1'
        _ = x * (x.den:Rat) := key.symm
    exact lt_of_mul_lt_mul_right this (le_of_lt hdpos)
  have hi : x < (2:Rat)^(((n.log2:Int) - (x.den.log2:Int)) + 1) := by
    have e : (2:Rat)^(((n.log2:Int) - (x.den.log2:Int)) + 1) * (2:Rat)^(x.den.log2) = (2:Rat)^(n.log2+1) := by
      rw [← zpow_natCast, ← zpow_natCast, ← zpow_add₀ (by norm_num)]; congr 1; push_cast; ring
    have : x * (x.den:Rat) < (2:Rat)^(((n.log2:Int) - (x.den.log2:Int)) + 1) * (x.den:Rat) := by
      calc x * (x.den:Rat) = n := key
        _ < (2:Rat)^(n.log2+1) := h2'
        _ = (2:Rat)^(((n.log2:Int) - (x.den.log2:Int)) + 1) * (2:Rat)^(x.den.log2) := e.symm
        _ ≤ (2:Rat)^(((n.log2:Int) - (x.den.log2:Int)) + 1) * (x.den:Rat) :=
            mul_le_mul_of_nonneg_left h3' (le_of_lt p2)
    exact lt_of_mul_lt_mul_right this (le_of_lt hdpos)
  unfold flog2
  simp only [← hn]
  split_ifs with h
  · exact ⟨h, hi⟩
  · push Not at h
    constructor
    · exact le_of_lt lo
    · have : ((n.log2:Int) - (x.den.log2:Int)) - 1 + 1 = ((n.log2:Int) - (x.den.log2:Int)) := by ring
      rw [this]; exact h

/-- standard model: relative error at most `2^-p` in the normal range -/
theorem rnPos_relerr (p : Nat) (emin : Int) (x : Rat) (hx : 0 < x)
    (hnorm : (2:Rat)^emin ≤ x) :
    |rnPos p emin x - x| ≤ (2:Rat)^(-(p:Int)) * x := by
  obtain ⟨hlo, hhi⟩ := flog2_spec x hx
  have hemin : emin ≤ flog2 x := by
    by_contra hc; push Not at hc
    have : (2:Rat)^(flog2 x + 1) ≤ (2:Rat)^emin := zpow_le_zpow_right₀ (by norm_num) (by omega)
    linarith
  unfold rnPos
  simp only [max_eq_left hemin]
  set q : Rat := (2:Rat)^(flog2 x - ((p:Int) - 1)) with hq
  have hqpos : 0 < q := zpow_pos (by norm_num) _
  have herr := rhe_err (x / q)
  have e1 : ((rhe (x / q) : Int) : Rat) * q - x = (((rhe (x / q) : Int) : Rat) - x / q) * q := by
    field_simp
  rw [e1, abs_mul, abs_of_pos hqpos]
  have hq2 : q * (1/2) = (2:Rat)^(-(p:Int)) * (2:Rat)^(flog2 x) := by
    rw [hq, ← zpow_add₀ (by norm_num)]
    have : (1/2 : Rat) = (2:Rat)^(-1:Int) := by norm_num
    rw [this, ← zpow_add₀ (by norm_num)]; congr 1; ring
  calc |((rhe (x / q) : Int) : Rat) - x / q| * q ≤ (1/2) * q := by
        apply mul_le_mul_of_nonneg_right herr (le_of_lt hqpos)
    _ = (2:Rat)^(-(p:Int)) * (2:Rat)^(flog2 x) := by rw [← hq2]; ring
    _ ≤ (2:Rat)^(-(p:Int)) * x := by
        apply mul_le_mul_of_nonneg_left hlo (le_of_lt (zpow_pos (by norm_num) _))

/-- absolute error in every range (normal or sub-normal): at most half a unit in the last place -/
theorem rnPos_abserr (p : Nat) (emin : Int) (x : Rat) :
    |rnPos p emin x - x| ≤ (1/2) * (2:Rat)^(max (flog2 x) emin - ((p:Int) - 1)) := by
  unfold rnPos
  simp only []
  set q : Rat := (2:Rat)^(max (flog2 x) emin - ((p:Int) - 1)) with hq
  have hqpos : 0 < q := zpow_pos (by norm_num) _
  have herr := rhe_err (x / q)
  have e1 : ((rhe (x / q) : Int) : Rat) * q - x = (((rhe (x / q) : Int) : Rat) - x / q) * q := by
    field_simp
  rw [e1, abs_mul, abs_of_pos hqpos]
  exact mul_le_mul_of_nonneg_right herr (le_of_lt hqpos)

/-- rounding of a non-negative number is non-negative -/
theorem rnPos_nonneg (p : Nat) (emin : Int) (x : Rat) (hx : 0 ≤ x) : 0 ≤ rnPos p emin x := by
  unfold rnPos
  simp only []
  have hqpos : (0:Rat) < (2:Rat)^(max (flog2 x) emin - ((p:Int) - 1)) := zpow_pos (by norm_num) _
  apply mul_nonneg _ (le_of_lt hqpos)
  have : (0:Rat) ≤ x / (2:Rat)^(max (flog2 x) emin - ((p:Int) - 1)) := div_nonneg hx (le_of_lt hqpos)
  have h0 : rhe 0 ≤ rhe (x / (2:Rat)^(max (flog2 x) emin - ((p:Int) - 1))) := rhe_mono this
  have : rhe (0:Rat) = 0 := by simpa using rhe_int 0
  rw [this] at h0
  exact_mod_cast h0

theorem rn_nonneg (p : Nat) (emin : Int) (x : Rat) (hx : 0 ≤ x) : 0 ≤ rn p emin x := by
  unfold rn
  split_ifs with h1 h2
  · exact le_refl _
  · exact rnPos_nonneg p emin x hx
  · exfalso; rcases lt_or_eq_of_le hx with h | h
    · exact h2 h
    · exact h1 h.symm

theorem rn_nonpos (p : Nat) (emin : Int) (x : Rat) (hx : x ≤ 0) : rn p emin x ≤ 0 := by
  unfold rn
  split_ifs with h1 h2
  · exact le_refl _
  · exfalso; linarith
  · have : 0 ≤ rnPos p emin (-x) := rnPos_nonneg p emin (-x) (by linarith)
    linarith

/-- the sign-symmetric relative error bound -/
theorem rn_relerr (p : Nat) (emin : Int) (x : Rat) (hnorm : (2:Rat)^emin ≤ |x|) :
    |rn p emin x - x| ≤ (2:Rat)^(-(p:Int)) * |x| := by
  unfold rn
  split_ifs with h1 h2
  · subst h1; simp
  · rw [abs_of_pos h2] at hnorm ⊢
    exact rnPos_relerr p emin x h2 hnorm
  · have hneg : x < 0 := lt_of_le_of_ne (not_lt.mp h2) h1
    rw [abs_of_neg hneg] at hnorm ⊢
    have := rnPos_relerr p emin (-x) (by linarith) hnorm
    have e : -rnPos p emin (-x) - x = -(rnPos p emin (-x) - -x) := by ring
    rw [e, abs_neg]; exact this

end Rounding
